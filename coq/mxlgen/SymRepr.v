(** Executable model of [generate_mxlpy_code_from_symbolic_repr] and of the containers it reads
    (src/mxlpy/meta/codegen_mxlpy.py:39-100, 150-270; sympy_to_python_fn in sympy_tools.py:73-109).
    No proofs here.  This file is shared read-only with the SBML-import area (C17).

    Python                                        model
    ------                                        -----
    component names (str)                         [name := N] (Core.Model); their text is [nstr]
    function names (fn.__name__, dict keys)       [string]
    sympy expression of a function                an abstract type [E] (Section variable)
    SymbolicFn / SymbolicVariable / ...           [symfn] / [symval] / [symcoef] / [symrxn] / [symrepr]
    functions : dict[str, (expr, args)]           [fdict]: insertion-ordered association list;
                                                  [functions[k] = v] is [sdset] (overwrite IN PLACE
                                                  or append) -- later entries overwrite earlier ones
    the emitted text                              [code]: one [def key(args): return expr] per dict
                                                  entry, in dict order, then the builder chain as a
                                                  list of [addop] whose function references are the
                                                  NAMES written into the text
    units                                         not modelled (unit = None; with a unit the real
                                                  code prints [value=..., unit=...] through SymPy's
                                                  printer, which raises for mxlpy's own units)
    imports                                       prepended text only: no effect on the model

    The key under which a definition is stored -- and the name the builder refers to -- is given
    by a [key_scheme] per kind of slot.  The schemes are REGENERATED from the f-strings of the
    current source (GenMxlGenFacts.v).

    HOW a definition is stored under its key is the regenerated fact [gf_register]:
      RegOverwrite   [functions[key] = (expr, args)]            (the snapshot: last writer wins)
      RegFresh       [name = _register_fn(functions, key, expr, args)]  (fixes/C11-function-name-collisions.diff):
                     the key is kept when it is free or holds the same positional function
                     ([same_fn], the model of [_positional_fn(..) == _positional_fn(..)]), otherwise
                     key_1, key_2, ... are tried; the emitted parameters are made pairwise different
                     by [_parameter_names] (a repeated name keeps its FIRST position). *)
From Coq Require Import ZArith List Bool String Ascii Decimal DecimalString.
From MxlBase Require Import ListX.
From Core Require Import Model.
Import ListNotations.
Open Scope string_scope.

Inductive key_scheme :=
| KsPlain          (* fn.fn_name *)
| KsInit           (* f"init_{init.fn_name}" *)
| KsRxnStoich      (* f"{k}_stoich_{stoich.fn_name}", k the reaction name *)
| KsUnknown.       (* the extractor did not recognise the expression *)

Inductive register_mode :=
| RegOverwrite     (* functions[key] = (expr, args) *)
| RegFresh         (* _register_fn: fresh name on a clash; _parameter_names: distinct parameters *)
| RegUnknown.      (* the extractor did not recognise the way definitions are stored *)

(** [_parameter_names]: against what a candidate name of a repeated argument is checked *)
Inductive pn_check :=
| PnAllArgs        (* while name in names or (name != arg and name in args): parameters emitted so far
                      AND every model name of the argument list (also the LATER positions) *)
| PnEmittedOnly    (* while name in names: only the parameters emitted so far (seeded change C11-1) *)
| PnUnknown.

(** [_register_fn]: when may a new definition share the name of a registered one *)
Inductive ic_test :=
| IcPositional     (* the positional forms (_positional_fn) of the registered and the new definition are equal *)
| IcSubstFirst     (* substituted expressions equal, OR positional forms equal (seeded change C11-2) *)
| IcUnknown.

(** [_fn_to_symbolic_repr]: how the model names get into the expression *)
Inductive rn_mode :=
| RnDelegated      (* fn_to_sympy(fn, origin=k, model_args=args): one simultaneous replacement inside
                      fn_to_sympy (property C06; fix 0dc9d5d) *)
| RnSequential     (* translated once in the function's own parameter names, then
                      expr.subs([(formal_1, arg_1), ...]) -- sequential (seeded change C11-3) *)
| RnUnknown.

(** how plain numbers, units and the imports of the generated file are written (the text AROUND the
    definitions; the Z-valued model below assumes that a written number reads back as itself) *)
Inductive emit_mode :=
| EmSympy15        (* the snapshot: numbers through SymPy's printer (15 significant digits: 0.1 + 0.2 is
                      written as 0.3), units as bare names after [value=], no import for math.* --
                      recorded findings C11-emit-number-literals / -math-import / -units *)
| EmExact          (* fixes/C11-emitted-numbers-imports-units.diff: repr of the float, units through
                      sympy.physics.units or ValueError, imports for the modules the text refers to *)
| EmUnknown.

Record gen_facts := mkGenFacts {
  gf_var_key : key_scheme;     (* _codegen_variable *)
  gf_par_key : key_scheme;     (* _codegen_parameter *)
  gf_der_key : key_scheme;     (* derived loop *)
  gf_rxn_key : key_scheme;     (* reaction loop, rate function *)
  gf_sto_key : key_scheme;     (* reaction loop, computed coefficient *)
  gf_register : register_mode; (* how a definition is stored under its key *)
  gf_codegen_shape : bool;     (* the remaining text of the three code generators and of
                                  sympy_to_python_fn is, statement for statement, the modelled one *)
  gf_symrepr_shape : bool;     (* same for _fn_to_symbolic_repr / _to_symbolic_repr / generate_mxlpy_code *)
  gf_param_check : pn_check;   (* _parameter_names: the while condition *)
  gf_interchange : ic_test;    (* _register_fn: the while condition *)
  gf_rename : rn_mode;         (* _fn_to_symbolic_repr: who puts the model names in *)
  gf_emit : emit_mode          (* numbers / units / imports of the emitted text *)
}.

(** ---- string-keyed insertion-ordered dict -------------------------------------------- *)

Fixpoint sdset {A} (k : string) (v : A) (d : list (string * A)) : list (string * A) :=
  match d with
  | [] => [(k, v)]
  | (k', v') :: r => if String.eqb k k' then (k', v) :: r else (k', v') :: sdset k v r
  end.

Fixpoint slookup {A} (k : string) (d : list (string * A)) : option A :=
  match d with
  | [] => None
  | (k', v) :: r => if String.eqb k k' then Some v else slookup k r
  end.

(** position of a key (the definitions are emitted in dict order) *)
Fixpoint sfind {A} (k : string) (d : list (string * A)) : option nat :=
  match d with
  | [] => None
  | (k', _) :: r => if String.eqb k k' then Some 0%nat
                    else match sfind k r with Some i => Some (S i) | None => None end
  end.

(** ---- _parameter_names (strings only; no expression type involved) ------------------------
    for arg in args:
        name = arg; i = 1
        while name in names or (name != arg and name in args): name = f"{arg}_{i}"; i += 1
        names.append(name)
    The candidates are arg, arg_1, arg_2, ... ([pcand arg i], i = 0, 1, ...).  [None] = fuel exhausted
    (proved unreachable: ParamNames.parameter_names_total). *)
Definition pdec (i : nat) : string := NilEmpty.string_of_uint (Nat.to_uint i).
Definition pcand (arg : string) (i : nat) : string :=
  match i with O => arg | S _ => arg ++ "_" ++ pdec i end.

Definition mem_str (x : string) (l : list string) : bool := existsb (String.eqb x) l.

Definition pn_blocked (check : pn_check) (arg name : string) (names args : list string) : bool :=
  mem_str name names
  || match check with
     | PnAllArgs => negb (String.eqb name arg) && mem_str name args
     | _ => false
     end.

Fixpoint pn_find (fuel : nat) (check : pn_check) (arg : string) (i : nat) (names args : list string)
  : option string :=
  match fuel with
  | O => None
  | S fuel' =>
    let name := pcand arg i in
    if pn_blocked check arg name names args then pn_find fuel' check arg (S i) names args
    else Some name
  end.

Fixpoint pn_loop (check : pn_check) (todo names args : list string) : option (list string) :=
  match todo with
  | [] => Some names
  | arg :: rest =>
    match pn_find (S (length names + length args)) check arg 0 names args with
    | None => None
    | Some name => pn_loop check rest (names ++ [name]) args
    end
  end.

Definition parameter_names (check : pn_check) (args : list string) : option (list string) :=
  pn_loop check args [] args.

(** the value a NAME of the body sees when the def is called positionally: CPython binds the
    parameters left to right; they are pairwise different (else the def does not compile), so the
    association list is a function *)
Fixpoint sbind (x : string) (ps : list string) (vs : list Z) : option Z :=
  match ps, vs with
  | p :: ps', v :: vs' => if String.eqb x p then Some v else sbind x ps' vs'
  | _, _ => None
  end.

(** [_register_fn]'s test, built from SymPy's two comparisons (external) *)
Definition interchange_test {X : Type} (ic : ic_test) (subst_eq same_fn : X -> X -> bool) (q p : X) : bool :=
  match ic with
  | IcPositional => same_fn q p
  | IcSubstFirst => subst_eq q p || same_fn q p
  | IcUnknown => false
  end.

Section SymRepr.
  Variable E : Type.
  Variable nstr : name -> string.

  Record symfn := mkSymFn { sf_name : string; sf_expr : E; sf_args : list name }.
  Inductive symval := SVNum (v : Z) | SVInit (f : symfn).
  Inductive symcoef := SCNum (q : Z) | SCStr (n : name) | SCFn (f : symfn).
  Record symrxn := mkSymRxn { sr_fn : symfn; sr_st : list (name * symcoef) }.
  Record symrepr := mkSymRepr {
    sy_var : list (name * symval);
    sy_par : list (name * symval);
    sy_der : list (name * symfn);
    sy_rxn : list (name * symrxn)
  }.

  Definition fdict := list (string * (E * list name)).

  (** [_positional_fn(e1, a1) == _positional_fn(e2, a2)]: SymPy's structural equality of the two
      expressions after renaming every argument to its (first) position, and equal arity *)
  Variable same_fn : E * list name -> E * list name -> bool.

  (** f"{fn_name}_{i}" *)
  Definition dec (i : nat) : string := NilEmpty.string_of_uint (Nat.to_uint i).
  Definition cand (fn_name : string) (i : nat) : string :=
    match i with O => fn_name | S _ => fn_name ++ "_" ++ dec i end.

  (** the while loop of _register_fn; [None] = fuel exhausted (proved unreachable with
      fuel = len(functions) + 1: MxlGenProofs.find_name_total) *)
  Fixpoint find_name (fuel : nat) (fn_name : string) (i : nat) (p : E * list name) (functions : fdict)
    : option string :=
    match fuel with
    | O => None
    | S fuel' =>
      let name := cand fn_name i in
      match slookup name functions with
      | None => Some name
      | Some q => if same_fn q p then Some name else find_name fuel' fn_name (S i) p functions
      end
    end.

  Definition fuel_marker : string := "<out of fuel>".

  (** storing one definition: returns the name it is emitted under and the updated dict *)
  Definition register (mode : register_mode) (fn_name : string) (p : E * list name) (functions : fdict)
    : string * fdict :=
    match mode with
    | RegFresh =>
      let name := match find_name (S (length functions)) fn_name 0 p functions with
                  | Some n => n
                  | None => fuel_marker
                  end in
      (name, sdset name p functions)
    | _ => (fn_name, sdset fn_name p functions)
    end.

  (** what the emitted builder chain says *)
  Inductive valref := VNum (v : Z) | VInit (key : string) (args : list name).
  Inductive coefref := CNum (q : Z) | CStrRef (n : name) | CDerRef (key : string) (args : list name).
  Inductive addop :=
  | AddVariable (k : name) (v : valref)
  | AddParameter (k : name) (v : valref)
  | AddDerived (k : name) (key : string) (args : list name)
  | AddReaction (k : name) (key : string) (args : list name) (st : list (name * coefref)).
  (* [c_renamed]: the emitted parameters went through _parameter_names (pairwise different) *)
  Record code := mkCode { c_defs : fdict; c_ops : list addop; c_renamed : bool }.

  Definition key_of (ks : key_scheme) (rxn : name) (fn_name : string) : string :=
    match ks with
    | KsPlain => fn_name
    | KsInit => "init_" ++ fn_name
    | KsRxnStoich => nstr rxn ++ "_stoich_" ++ fn_name
    | KsUnknown => ""
    end.

  (** _codegen_variable / _codegen_parameter: the SymbolicFn branch stores the definition under
      the scheme's key and refers to it by the same local [fn_name]; the number branch prints it *)
  Definition codegen_value (rm : register_mode) (ks : key_scheme) (k : name) (v : symval) (functions : fdict)
    : valref * fdict :=
    match v with
    | SVInit init =>
      let '(fn_name, f1) := register rm (key_of ks k (sf_name init)) (sf_expr init, sf_args init) functions in
      (VInit fn_name (sf_args init), f1)
    | SVNum value => (VNum value, functions)
    end.

  (** for k, var in model.variables.items(): variable_source.append(_codegen_variable(...)) *)
  Fixpoint gen_variables (rm : register_mode) (ks : key_scheme) (l : list (name * symval)) (functions : fdict)
    : list addop * fdict :=
    match l with
    | [] => ([], functions)
    | (k, v) :: rest =>
      let '(vr, f1) := codegen_value rm ks k v functions in
      let '(ops, f2) := gen_variables rm ks rest f1 in
      (AddVariable k vr :: ops, f2)
    end.

  Fixpoint gen_parameters (rm : register_mode) (ks : key_scheme) (l : list (name * symval)) (functions : fdict)
    : list addop * fdict :=
    match l with
    | [] => ([], functions)
    | (k, v) :: rest =>
      let '(vr, f1) := codegen_value rm ks k v functions in
      let '(ops, f2) := gen_parameters rm ks rest f1 in
      (AddParameter k vr :: ops, f2)
    end.

  (** for k, fn in model.derived.items(): store (fn.expr, fn.args) under fn.fn_name; emit *)
  Fixpoint gen_derived (rm : register_mode) (ks : key_scheme) (l : list (name * symfn)) (functions : fdict)
    : list addop * fdict :=
    match l with
    | [] => ([], functions)
    | (k, fn) :: rest =>
      let '(fn_name, f1) := register rm (key_of ks k (sf_name fn)) (sf_expr fn, sf_args fn) functions in
      let '(ops, f2) := gen_derived rm ks rest f1 in
      (AddDerived k fn_name (sf_args fn) :: ops, f2)
    end.

  (** for var, stoich in rxn.stoichiometry.items(): three branches *)
  Fixpoint gen_stoich (rm : register_mode) (ks : key_scheme) (k : name) (l : list (name * symcoef)) (functions : fdict)
    : list (name * coefref) * fdict :=
    match l with
    | [] => ([], functions)
    | (var, stoich) :: rest =>
      match stoich with
      | SCFn s =>
        let '(fn_name, f1) := register rm (key_of ks k (sf_name s)) (sf_expr s, sf_args s) functions in
        let '(st, f2) := gen_stoich rm ks k rest f1 in
        ((var, CDerRef fn_name (sf_args s)) :: st, f2)
      | SCStr n =>
        let '(st, f2) := gen_stoich rm ks k rest functions in ((var, CStrRef n) :: st, f2)
      | SCNum q =>
        let '(st, f2) := gen_stoich rm ks k rest functions in ((var, CNum q) :: st, f2)
      end
    end.

  (** for k, rxn in model.reactions.items(): rate function first, then the coefficients *)
  Fixpoint gen_reactions (rm : register_mode) (ksr kss : key_scheme) (l : list (name * symrxn)) (functions : fdict)
    : list addop * fdict :=
    match l with
    | [] => ([], functions)
    | (k, rxn) :: rest =>
      let fn := sr_fn rxn in
      let '(fn_name, f1) := register rm (key_of ksr k (sf_name fn)) (sf_expr fn, sf_args fn) functions in
      let '(st, f2) := gen_stoich rm kss k (sr_st rxn) f1 in
      let '(ops, f3) := gen_reactions rm ksr kss rest f2 in
      (AddReaction k fn_name (sf_args fn) st :: ops, f3)
    end.

  (** generate_mxlpy_code_from_symbolic_repr: one dict threaded through the four loops, then
      the definitions (dict order) and the chain variables | parameters | derived | reactions *)
  Definition generate_from_symrepr (F : gen_facts) (model : symrepr) : code :=
    let functions : fdict := [] in
    let rm := gf_register F in
    let '(variable_source, f1) := gen_variables rm (gf_var_key F) (sy_var model) functions in
    let '(parameter_source, f2) := gen_parameters rm (gf_par_key F) (sy_par model) f1 in
    let '(derived_source, f3) := gen_derived rm (gf_der_key F) (sy_der model) f2 in
    let '(reactions_source, f4) := gen_reactions rm (gf_rxn_key F) (gf_sto_key F) (sy_rxn model) f3 in
    mkCode f4 (variable_source ++ parameter_source ++ derived_source ++ reactions_source)
           (match rm with RegFresh => true | _ => false end).
End SymRepr.

Arguments mkSymFn {E}.
Arguments sf_name {E}.
Arguments sf_expr {E}.
Arguments sf_args {E}.
Arguments SVNum {E}.
Arguments SVInit {E}.
Arguments SCNum {E}.
Arguments SCStr {E}.
Arguments SCFn {E}.
Arguments mkSymRxn {E}.
Arguments sr_fn {E}.
Arguments sr_st {E}.
Arguments mkSymRepr {E}.
Arguments sy_var {E}.
Arguments sy_par {E}.
Arguments sy_der {E}.
Arguments sy_rxn {E}.
Arguments mkCode {E}.
Arguments c_defs {E}.
Arguments c_ops {E}.
Arguments c_renamed {E}.
