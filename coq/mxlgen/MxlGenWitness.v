(** Concrete witnesses (closed by vm_compute) for PropsC11.v: the three recorded defects of the
    snapshot's generator, the same models under the repaired generator, and the instances used by
    the non-vacuity examples.  Function objects of the witnesses ([Tw]):
      0 fnlib.f_id(a) = a        1 moda.init_f_id(a) = -a      2 moda.rate(a, b) = a*b
      3 modb.rate(a, b) = a+b    4 fnlib.f_sub(a, b) = a-b *)
From Coq Require Import ZArith List Bool String Lia.
From MxlBase Require Import ListX.
From Core Require Import Sort GenSortFacts FnLib Model Cache Query.
From MxlGen Require Import SymRepr GenMxlGenFacts ExpectedFacts MxlGen MxlGenSpec MxlGenSem MxlGenProofs Corr CorrProofs.
Import ListNotations.
Local Open Scope string_scope.
Local Open Scope N_scope.

Definition Tw : ftab :=
  [mkF "f_id" 0 1 true; mkF "init_f_id" 1 1 true; mkF "rate" 4 2 true; mkF "rate" 2 2 true; mkF "f_sub" 3 2 true].

(* x = 13 (2), k1 = 11 (3), k2 = 12 (5); v1 = 14: moda.rate(x, k1); v2 = 15: modb.rate(x, k2) *)
Definition m_same_name : model :=
  mkModel [(11, Plain 3%Z); (12, Plain 5%Z)] [(13, Plain 2%Z)] []
          [(14, mkRxn 2 [13; 11] [(13, CStat (-1)%Z)]); (15, mkRxn 3 [13; 12] [(13, CStat 1%Z)])] [] [] [].
(* x = 11 (2); parameter 12 := f_id(x) (key init_f_id); derived 13 = moda.init_f_id(x) *)
Definition m_prefix : model :=
  mkModel [(12, IA 0 [11])] [(11, Plain 2%Z)] [(13, mkDer 1 [11])] [] [] [] [].
(* derived 13 = f_sub(x, x) *)
Definition m_dup : model :=
  mkModel [(11, Plain 3%Z)] [(12, Plain 2%Z)] [(13, mkDer 4 [12; 12])] [] [] [] [].
(* f_sub serves two derived with swapped arguments; a computed coefficient *)
Definition m_reuse : model :=
  mkModel [(11, Plain 3%Z)] [(12, Plain 2%Z); (13, Plain (-1)%Z)] [(14, mkDer 4 [12; 13]); (15, mkDer 4 [13; 12])]
          [(16, mkRxn 2 [14; 11] [(12, CStat 1%Z); (13, CDyn 0 [11])])] [] [] [].
(* same-name clash AND a repeated argument AND reuse, for the repaired generator *)
Definition m_all : model :=
  mkModel [(11, Plain 3%Z); (12, Plain 5%Z)] [(13, Plain 2%Z)] [(16, mkDer 4 [13; 13]); (17, mkDer 4 [13; 11])]
          [(14, mkRxn 2 [13; 11] [(13, CStat (-1)%Z)]); (15, mkRxn 3 [13; 12] [(13, CStat 1%Z)])] [] [] [].

Ltac solve_nodup := repeat (constructor; [cbn; intuition discriminate|]); constructor.
Ltac solve_unique := split; [vm_compute; solve_nodup | vm_compute; intuition discriminate].

(* compute the left-hand side with the VM, then let [reflexivity] instantiate the right-hand side *)
Ltac vm_lhs :=
  match goal with
  | |- ?l = _ => let v := eval vm_compute in l in (replace l with v by (vm_compute; reflexivity)); reflexivity
  end.
Ltac solve_slots_nodup := apply Forall_forall; vm_compute; repeat (constructor; [solve_nodup|]); constructor.

(** C11-same-name-collapse: one def [rate] (modb's, the last) serves both reactions *)
Lemma same_name_refuted :
  exists (t : ftab) (m m' : model) (D : fdict cexpr) (ch ch' : cache),
    UniqueIds m
    /\ (forall s, In s (slots nstr (c_fname t) (C11_facts RegOverwrite) m) -> NoDup (sl_args s))
    /\ roundtrip cexpr nstr (c_fname t) (c_translate t) c_same_fn (C11_facts RegOverwrite) m = Built (m', D)
    /\ create_cache (c_fsem t) no_fsemN gen_sort_facts m = Val ch
    /\ create_cache (fsem_gen cexpr c_eval D) no_fsemN gen_sort_facts m' = Val ch'
    /\ get_fluxes (c_fsem t) no_fsemN m ch [(13, 2%Z)] 0 = Val [(14, 6%Z); (15, 7%Z)]
    /\ get_fluxes (fsem_gen cexpr c_eval D) no_fsemN m' ch' [(13, 2%Z)] 0 = Val [(14, 5%Z); (15, 7%Z)]
    /\ get_rhs (c_fsem t) no_fsemN m ch [(13, 2%Z)] 0 = Val [(13, 1%Z)]
    /\ get_rhs (fsem_gen cexpr c_eval D) no_fsemN m' ch' [(13, 2%Z)] 0 = Val [(13, 2%Z)].
Proof.
  exists Tw, m_same_name. do 4 eexists.
  split; [solve_unique|]. split; [solve_slots_nodup|].
  split; [vm_lhs|]. split; [vm_lhs|]. split; [vm_lhs|].
  repeat split; vm_compute; reflexivity.
Qed.

(** C11-prefix-collision: the derived's function, literally named init_f_id, overwrites the
    definition of the parameter's initial assignment *)
Lemma prefix_collision_refuted :
  exists (t : ftab) (m m' : model) (D : fdict cexpr) (ch ch' : cache),
    UniqueIds m
    /\ (forall s, In s (slots nstr (c_fname t) (C11_facts RegOverwrite) m) -> NoDup (sl_args s))
    /\ roundtrip cexpr nstr (c_fname t) (c_translate t) c_same_fn (C11_facts RegOverwrite) m = Built (m', D)
    /\ create_cache (c_fsem t) no_fsemN gen_sort_facts m = Val ch
    /\ create_cache (fsem_gen cexpr c_eval D) no_fsemN gen_sort_facts m' = Val ch'
    /\ c_all_par ch = [(12, 2%Z)] /\ c_all_par ch' = [(12, (-2)%Z)].
Proof.
  exists Tw, m_prefix. do 4 eexists.
  split; [solve_unique|]. split; [solve_slots_nodup|].
  split; [vm_lhs|]. split; [vm_lhs|]. split; [vm_lhs|].
  split; vm_compute; reflexivity.
Qed.

(** C11-duplicate-argument: every function is translatable, generation returns normally, and the
    generated source does not compile *)
Lemma duplicate_argument_refuted :
  exists (t : ftab) (m : model) (c : code cexpr),
    UniqueIds m
    /\ (forall s, In s (slots nstr (c_fname t) (C11_facts RegOverwrite) m) ->
                  c_translate t (sl_fn s) (sl_args s) <> None)
    /\ generate cexpr nstr (c_fname t) (c_translate t) c_same_fn (C11_facts RegOverwrite) m = Some c
    /\ exec_code cexpr c = ExecSyntax.
Proof.
  exists Tw, m_dup. eexists.
  split; [solve_unique|]. split.
  { apply Forall_forall. vm_compute. repeat (constructor; [discriminate|]). constructor. }
  split; [vm_lhs|]. vm_compute. reflexivity.
Qed.

(** the same three models under the repaired generator: rebuilt with the source's values *)
Lemma witnesses_rebuild_when_repaired :
  (exists m' D ch ch',
      roundtrip cexpr nstr (c_fname Tw) (c_translate Tw) c_same_fn (C11_facts RegFresh) m_same_name = Built (m', D)
      /\ map fst D = ["rate"; "rate_1"]
      /\ create_cache (c_fsem Tw) no_fsemN gen_sort_facts m_same_name = Val ch
      /\ create_cache (fsem_gen cexpr c_eval D) no_fsemN gen_sort_facts m' = Val ch'
      /\ get_fluxes (fsem_gen cexpr c_eval D) no_fsemN m' ch' [(13, 2%Z)] 0 = get_fluxes (c_fsem Tw) no_fsemN m_same_name ch [(13, 2%Z)] 0
      /\ get_rhs (fsem_gen cexpr c_eval D) no_fsemN m' ch' [(13, 2%Z)] 0 = Val [(13, 1%Z)])
  /\ (exists m' D ch',
      roundtrip cexpr nstr (c_fname Tw) (c_translate Tw) c_same_fn (C11_facts RegFresh) m_prefix = Built (m', D)
      /\ map fst D = ["init_f_id"; "init_f_id_1"]
      /\ create_cache (fsem_gen cexpr c_eval D) no_fsemN gen_sort_facts m' = Val ch'
      /\ c_all_par ch' = [(12, 2%Z)])
  /\ (exists m' D ch',
      roundtrip cexpr nstr (c_fname Tw) (c_translate Tw) c_same_fn (C11_facts RegFresh) m_dup = Built (m', D)
      /\ create_cache (fsem_gen cexpr c_eval D) no_fsemN gen_sort_facts m' = Val ch'
      /\ get_args (fsem_gen cexpr c_eval D) no_fsemN m' ch' [(12, 5%Z)] 0 = Val [(0, 0%Z); (12, 5%Z); (11, 3%Z); (13, 0%Z)]).
Proof.
  split; [|split].
  - do 4 eexists. split; [vm_lhs|]. split; [vm_compute; reflexivity|]. split; [vm_lhs|]. split; [vm_lhs|].
    split; vm_compute; reflexivity.
  - do 3 eexists. split; [vm_lhs|]. split; [vm_compute; reflexivity|]. split; [vm_lhs|]. vm_compute; reflexivity.
  - do 3 eexists. split; [vm_lhs|]. split; [vm_lhs|]. vm_compute; reflexivity.
Qed.

(** ---- instances for the non-vacuity examples ------------------------------------------------- *)

Lemma Tw_arity_ok : table_arity_ok Tw = true.
Proof. vm_compute. reflexivity. Qed.

(** [m_reuse] meets every hypothesis of the guarded theorem (snapshot generator) *)
Lemma partial_nonvacuous :
  (forall f margs e, c_translate Tw f margs = Some e ->
      forall en vs, lookups margs en = Some vs -> c_eval e en = c_fsem Tw f vs)
  /\ (forall f margs e, c_translate Tw f margs = Some e -> length margs = c_arity Tw f)
  /\ (forall f vs, length vs <> c_arity Tw f -> c_fsem Tw f vs = None)
  /\ UniqueIds m_reuse /\ m_sur m_reuse = [] /\ m_dat m_reuse = []
  /\ (forall s, In s (slots nstr (c_fname Tw) (C11_facts RegOverwrite) m_reuse) -> NoDup (sl_args s))
  /\ (forall s1 s2, In s1 (slots nstr (c_fname Tw) (C11_facts RegOverwrite) m_reuse) ->
                    In s2 (slots nstr (c_fname Tw) (C11_facts RegOverwrite) m_reuse) ->
                    sl_key s1 = sl_key s2 -> forall vs, c_fsem Tw (sl_fn s1) vs = c_fsem Tw (sl_fn s2) vs)
  /\ map sl_key (slots nstr (c_fname Tw) (C11_facts RegOverwrite) m_reuse) = ["f_sub"; "f_sub"; "rate"; "n0016_stoich_f_id"]
  /\ exists c, generate cexpr nstr (c_fname Tw) (c_translate Tw) c_same_fn (C11_facts RegOverwrite) m_reuse = Some c
               /\ map fst (c_defs c) = ["f_sub"; "rate"; "n0016_stoich_f_id"].
Proof.
  split; [exact (c_translate_sound Tw)|]. split; [exact (c_translate_arity Tw)|].
  split; [exact (c_fsem_arity Tw Tw_arity_ok)|].
  split; [solve_unique|]. split; [reflexivity|]. split; [reflexivity|].
  split; [solve_slots_nodup|]. split.
  { intros s1 s2 H1 H2 Hk vs. vm_compute in H1, H2.
    repeat (destruct H1 as [<-|H1]); try contradiction;
      repeat (destruct H2 as [<-|H2]); try contradiction; try reflexivity; vm_compute in Hk; discriminate. }
  split; [vm_compute; reflexivity|].
  eexists. split; [vm_lhs|]. vm_compute. reflexivity.
Qed.

(** [m_all] (same-name clash + repeated argument + reuse) meets every hypothesis of the full theorem
    (repaired generator) *)
Lemma full_nonvacuous :
  (forall f margs e, c_translate Tw f margs = Some e ->
      forall en vs, lookups margs en = Some vs -> c_eval e en = c_fsem Tw f vs)
  /\ (forall q p, c_same_fn q p = true ->
        forall vs, defsem cexpr c_eval (fst q) (snd q) vs = defsem cexpr c_eval (fst p) (snd p) vs)
  /\ UniqueIds m_all /\ m_sur m_all = [] /\ m_dat m_all = []
  /\ exists c, generate cexpr nstr (c_fname Tw) (c_translate Tw) c_same_fn (C11_facts RegFresh) m_all = Some c
               /\ map fst (c_defs c) = ["f_sub"; "f_sub_1"; "rate"; "rate_1"].
Proof.
  split; [exact (c_translate_sound Tw)|]. split; [exact c_same_fn_sound|].
  split; [solve_unique|]. split; [reflexivity|]. split; [reflexivity|].
  eexists. split; [vm_lhs|]. vm_compute. reflexivity.
Qed.
