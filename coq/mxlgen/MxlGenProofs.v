(** Proofs about the round-trip model (lemmas only; the statements are in PropsC11.v). *)
From Coq Require Import ZArith List Bool String Lia.
From MxlBase Require Import ListX.
From Core Require Import Model.
From MxlGen Require Import SymRepr MxlGen MxlGenSpec.
Import ListNotations.
Local Open Scope list_scope.

(** ---- the string-keyed dict ------------------------------------------------------------- *)

Section Dict.
  Context {A : Type}.

  Definition wr (d : list (string * A)) (w : string * A) : list (string * A) := sdset (fst w) (snd w) d.

  Lemma slookup_sdset k k' (v : A) d :
    slookup k (sdset k' v d) = if String.eqb k k' then Some v else slookup k d.
  Proof.
    induction d as [|[k0 v0] r IH]; simpl.
    - reflexivity.
    - destruct (String.eqb k' k0) eqn:E0; simpl.
      + apply String.eqb_eq in E0. subst k0. destruct (String.eqb k k'); reflexivity.
      + destruct (String.eqb k k0) eqn:E1.
        * apply String.eqb_eq in E1. subst k0.
          destruct (String.eqb k k') eqn:E2; [|reflexivity].
          apply String.eqb_eq in E2. subst. rewrite String.eqb_refl in E0. discriminate.
        * exact IH.
  Qed.

  (** the payload of the LAST write to key [k] *)
  Fixpoint find_last (k : string) (W : list (string * A)) : option A :=
    match W with
    | [] => None
    | w :: r => match find_last k r with
                | Some p => Some p
                | None => if String.eqb k (fst w) then Some (snd w) else None
                end
    end.

  Lemma slookup_writes k W d :
    slookup k (fold_left wr W d) = match find_last k W with Some p => Some p | None => slookup k d end.
  Proof.
    revert d; induction W as [|w r IH]; intros d; simpl.
    - reflexivity.
    - rewrite IH. destruct (find_last k r); [reflexivity|].
      unfold wr. rewrite slookup_sdset. destruct (String.eqb k (fst w)); reflexivity.
  Qed.

  Lemma find_last_In k W p : find_last k W = Some p -> In (k, p) W.
  Proof.
    induction W as [|[k0 v0] r IH]; simpl; [discriminate|].
    destruct (find_last k r) eqn:Hf.
    - intros H. inversion H; subst. right. apply IH. reflexivity.
    - destruct (String.eqb k k0) eqn:E0; [|discriminate].
      intros H. inversion H; subst. apply String.eqb_eq in E0. subst. left. reflexivity.
  Qed.

  Lemma find_last_some k W p0 : In (k, p0) W -> exists p, find_last k W = Some p.
  Proof.
    induction W as [|[k0 v0] r IH]; simpl; [intros []|].
    intros [H|H].
    - inversion H; subst. destruct (find_last k r); [eexists; reflexivity|].
      rewrite String.eqb_refl. eexists; reflexivity.
    - destruct (IH H) as [p Hp]. rewrite Hp. eexists; reflexivity.
  Qed.

  Lemma slookup_sfind k d (p : A) :
    slookup k d = Some p -> exists i, sfind k d = Some i /\ nth_error d i = Some (k, p).
  Proof.
    induction d as [|[k0 v0] r IH]; simpl; [discriminate|].
    destruct (String.eqb k k0) eqn:E0.
    - intros H. inversion H; subst. apply String.eqb_eq in E0. subst. exists 0%nat. split; reflexivity.
    - intros H. destruct (IH H) as [i [H1 H2]]. exists (S i). rewrite H1. split; [reflexivity|exact H2].
  Qed.

  Lemma sdset_In k (v : A) d x : In x (sdset k v d) -> x = (k, v) \/ In x d.
  Proof.
    induction d as [|[k0 v0] r IH]; simpl.
    - intros [H|[]]. left. symmetry. exact H.
    - destruct (String.eqb k k0) eqn:E0; simpl.
      + apply String.eqb_eq in E0. subst k0. intros [H|H]; [left; symmetry; exact H | right; right; exact H].
      + intros [H|H]; [right; left; exact H|]. destruct (IH H) as [H1|H1]; [left; exact H1 | right; right; exact H1].
  Qed.

  Lemma writes_In W d x : In x (fold_left wr W d) -> In x W \/ In x d.
  Proof.
    revert d; induction W as [|w r IH]; intros d; simpl.
    - intros H. right. exact H.
    - intros H. destruct (IH _ H) as [H1|H1]; [left; right; exact H1|].
      unfold wr in H1. apply sdset_In in H1. destruct H1 as [H1|H1].
      + left. left. destruct w. symmetry. exact H1.
      + right. exact H1.
  Qed.
End Dict.

Lemma Forall2_In_r {A B} (R : A -> B -> Prop) l1 l2 y :
  Forall2 R l1 l2 -> In y l2 -> exists x, In x l1 /\ R x y.
Proof.
  induction 1 as [|a b l1 l2 Hab _ IH]; simpl; [intros []|].
  intros [H|H].
  - subst. exists a. split; [left; reflexivity|exact Hab].
  - destruct (IH H) as [x [H1 H2]]. exists x. split; [right; exact H1|exact H2].
Qed.

Lemma Forall2_In_l {A B} (R : A -> B -> Prop) l1 l2 x :
  Forall2 R l1 l2 -> In x l1 -> exists y, In y l2 /\ R x y.
Proof.
  induction 1 as [|a b l1 l2 Hab _ IH]; simpl; [intros []|].
  intros [H|H].
  - subst. exists b. split; [left; reflexivity|exact Hab].
  - destruct (IH H) as [y [H1 H2]]. exists y. split; [right; exact H1|exact H2].
Qed.

Lemma nodupN_true l : NoDup l -> nodupN l = true.
Proof.
  induction 1 as [|x l Hx _ IH]; simpl; [reflexivity|].
  rewrite IH. apply memN_false in Hx. rewrite Hx. reflexivity.
Qed.

Lemma lookup_skip k p (v : Z) e : k <> p -> lookup k ((p, v) :: e) = lookup k e.
Proof. intros H. simpl. destruct (N.eqb k p) eqn:E0; [apply N.eqb_eq in E0; contradiction|reflexivity]. Qed.

Lemma lookups_skip ks p (v : Z) e : ~ In p ks -> lookups ks ((p, v) :: e) = lookups ks e.
Proof.
  induction ks as [|k r IH]; intros H; [reflexivity|].
  cbn [lookups]. rewrite lookup_skip by (intro; subst; apply H; left; reflexivity).
  rewrite IH by (intro; apply H; right; assumption). reflexivity.
Qed.

Lemma lookups_combine ps vs : NoDup ps -> length vs = length ps -> lookups ps (combine ps vs) = Some vs.
Proof.
  intros Hnd. revert vs. induction Hnd as [|p ps Hp _ IH]; intros vs Hl.
  - destruct vs; [reflexivity|discriminate].
  - destruct vs as [|v vs]; [discriminate|]. simpl in Hl.
    cbn [combine lookups]. cbn [lookup]. rewrite N.eqb_refl.
    rewrite lookups_skip by exact Hp. rewrite IH by lia. reflexivity.
Qed.

Lemma exec_ops_app {E} (d : fdict E) a b st :
  exec_ops E d (a ++ b) st = obind (exec_ops E d a st) (exec_ops E d b).
Proof.
  revert st; induction a as [|op r IH]; intros st; simpl; [reflexivity|].
  destruct (exec_op E d op st); simpl; try reflexivity. apply IH.
Qed.

Lemma fsem_gen_S {E} (eval : E -> env -> option Z) (d : fdict E) i vs :
  fsem_gen E eval d (N.of_nat (S i)) vs =
  match nth_error d i with Some (_, (b, ps)) => defsem E eval b ps vs | None => None end.
Proof.
  unfold fsem_gen. change (N.of_nat (S i)) with (Npos (Pos.of_succ_nat i)).
  cbn [N.to_nat]. rewrite SuccNat2Pos.id_succ. reflexivity.
Qed.

Section Proofs.
  Variable E : Type.
  Variable nstr : name -> string.
  Variable fname : fnid -> string.
  Variable translate : fnid -> list name -> option E.
  Variable eval : E -> env -> option Z.
  Variable fsem : fnid -> list Z -> option Z.
  Variable arity : fnid -> nat.
  (* C06: the expression fn_to_sympy returns for f with the model symbols margs substituted
     evaluates, under any binding, to f's value at the values bound to margs *)
  Hypothesis translate_sound : forall f margs e, translate f margs = Some e ->
    forall en vs, lookups margs en = Some vs -> eval e en = fsem f vs.
  (* zip(fn_args, model_args, strict=True) *)
  Hypothesis translate_arity : forall f margs e, translate f margs = Some e -> length margs = arity f.
  (* a positional call with the wrong number of arguments is a TypeError *)
  Hypothesis fsem_arity : forall f vs, length vs <> arity f -> fsem f vs = None.

  Lemma defsem_sound f margs e :
    translate f margs = Some e -> NoDup margs -> forall vs, defsem E eval e margs vs = fsem f vs.
  Proof.
    intros Ht Hnd vs. unfold defsem.
    destruct (Nat.eqb (length vs) (length margs)) eqn:El.
    - apply Nat.eqb_eq in El. apply (translate_sound _ _ _ Ht). apply lookups_combine; assumption.
    - apply Nat.eqb_neq in El. symmetry. apply fsem_arity.
      rewrite <- (translate_arity _ _ _ Ht). exact El.
  Qed.

  (** ---- what the generator writes and emits, as plain list functions -------------------- *)

  Definition wlist := list (string * (E * list name)).

  Definition val_writes (ks : key_scheme) (l : list (name * symval E)) : wlist :=
    flat_map (fun kv => match snd kv with
                        | SVInit s => [(key_of nstr ks (fst kv) (sf_name s), (sf_expr s, sf_args s))]
                        | SVNum _ => []
                        end) l.
  Definition der_writes (ks : key_scheme) (l : list (name * symfn E)) : wlist :=
    map (fun kv => (key_of nstr ks (fst kv) (sf_name (snd kv)), (sf_expr (snd kv), sf_args (snd kv)))) l.
  Definition sto_writes (ks : key_scheme) (k : name) (l : list (name * symcoef E)) : wlist :=
    flat_map (fun kc => match snd kc with
                        | SCFn s => [(key_of nstr ks k (sf_name s), (sf_expr s, sf_args s))]
                        | _ => []
                        end) l.
  Definition rxn_writes (ksr kss : key_scheme) (l : list (name * symrxn E)) : wlist :=
    flat_map (fun kv => (key_of nstr ksr (fst kv) (sf_name (sr_fn (snd kv))),
                         (sf_expr (sr_fn (snd kv)), sf_args (sr_fn (snd kv))))
                        :: sto_writes kss (fst kv) (sr_st (snd kv))) l.

  Definition valref_of (ks : key_scheme) (k : name) (v : symval E) : valref :=
    match v with
    | SVInit s => VInit (key_of nstr ks k (sf_name s)) (sf_args s)
    | SVNum z => VNum z
    end.
  Definition coefref_of (ks : key_scheme) (k : name) (c : symcoef E) : coefref :=
    match c with
    | SCFn s => CDerRef (key_of nstr ks k (sf_name s)) (sf_args s)
    | SCStr n => CStrRef n
    | SCNum q => CNum q
    end.
  Definition var_ops ks (l : list (name * symval E)) : list addop :=
    map (fun kv => AddVariable (fst kv) (valref_of ks (fst kv) (snd kv))) l.
  Definition par_ops ks (l : list (name * symval E)) : list addop :=
    map (fun kv => AddParameter (fst kv) (valref_of ks (fst kv) (snd kv))) l.
  Definition der_ops ks (l : list (name * symfn E)) : list addop :=
    map (fun kv => AddDerived (fst kv) (key_of nstr ks (fst kv) (sf_name (snd kv))) (sf_args (snd kv))) l.
  Definition sto_refs ks k (l : list (name * symcoef E)) : list (name * coefref) :=
    map (fun kc => (fst kc, coefref_of ks k (snd kc))) l.
  Definition rxn_ops ksr kss (l : list (name * symrxn E)) : list addop :=
    map (fun kv => AddReaction (fst kv) (key_of nstr ksr (fst kv) (sf_name (sr_fn (snd kv))))
                               (sf_args (sr_fn (snd kv))) (sto_refs kss (fst kv) (sr_st (snd kv)))) l.

  Lemma gen_variables_spec ks l d :
    gen_variables E nstr ks l d = (var_ops ks l, fold_left wr (val_writes ks l) d).
  Proof.
    revert d; induction l as [|[k v] r IH]; intros d; [reflexivity|].
    destruct v as [z|s]; cbn [gen_variables codegen_value]; rewrite IH; reflexivity.
  Qed.

  Lemma gen_parameters_spec ks l d :
    gen_parameters E nstr ks l d = (par_ops ks l, fold_left wr (val_writes ks l) d).
  Proof.
    revert d; induction l as [|[k v] r IH]; intros d; [reflexivity|].
    destruct v as [z|s]; cbn [gen_parameters codegen_value]; rewrite IH; reflexivity.
  Qed.

  Lemma gen_derived_spec ks l d :
    gen_derived E nstr ks l d = (der_ops ks l, fold_left wr (der_writes ks l) d).
  Proof.
    revert d; induction l as [|[k s] r IH]; intros d; [reflexivity|].
    cbn [gen_derived]. rewrite IH. reflexivity.
  Qed.

  Lemma gen_stoich_spec ks k l d :
    gen_stoich E nstr ks k l d = (sto_refs ks k l, fold_left wr (sto_writes ks k l) d).
  Proof.
    revert d; induction l as [|[c s] r IH]; intros d; [reflexivity|].
    destruct s as [q|n|s]; cbn [gen_stoich]; rewrite IH; reflexivity.
  Qed.

  Lemma gen_reactions_spec ksr kss l d :
    gen_reactions E nstr ksr kss l d = (rxn_ops ksr kss l, fold_left wr (rxn_writes ksr kss l) d).
  Proof.
    revert d; induction l as [|[k rx] r IH]; intros d; [reflexivity|].
    cbn [gen_reactions]. rewrite gen_stoich_spec. rewrite IH.
    cbn [rxn_writes flat_map]. rewrite fold_left_app. reflexivity.
  Qed.

  Definition all_writes (F : gen_facts) (sym : symrepr E) : wlist :=
    val_writes (gf_var_key F) (sy_var sym) ++ val_writes (gf_par_key F) (sy_par sym)
    ++ der_writes (gf_der_key F) (sy_der sym) ++ rxn_writes (gf_rxn_key F) (gf_sto_key F) (sy_rxn sym).

  Lemma generate_from_symrepr_spec F sym :
    generate_from_symrepr E nstr F sym =
    mkCode (fold_left wr (all_writes F sym) [])
           (var_ops (gf_var_key F) (sy_var sym) ++ par_ops (gf_par_key F) (sy_par sym)
            ++ der_ops (gf_der_key F) (sy_der sym) ++ rxn_ops (gf_rxn_key F) (gf_sto_key F) (sy_rxn sym)).
  Proof.
    unfold generate_from_symrepr, all_writes.
    rewrite gen_variables_spec, gen_parameters_spec, gen_derived_spec, gen_reactions_spec.
    rewrite !fold_left_app. reflexivity.
  Qed.

  (** ---- writes of the symbolic representation vs. slots of the model -------------------- *)

  Definition ws_rel (w : string * (E * list name)) (s : slot) : Prop :=
    fst w = sl_key s /\ snd (snd w) = sl_args s
    /\ translate (sl_fn s) (sl_args s) = Some (fst (snd w)).

  Lemma sym_values_writes ks l sl :
    sym_values E fname translate l = Some sl ->
    Forall2 ws_rel (val_writes ks sl) (val_slots nstr fname ks l).
  Proof.
    revert sl; induction l as [|[k v] r IH]; intros sl H; simpl in H.
    - inversion H; subst. constructor.
    - destruct (sym_value E fname translate v) eqn:Hv; [|discriminate].
      destruct (sym_values E fname translate r) eqn:Hr; [|discriminate].
      inversion H; subst; clear H. specialize (IH _ eq_refl).
      destruct v as [z|f a]; simpl in Hv.
      + inversion Hv; subst. exact IH.
      + unfold fn_to_symbolic_repr in Hv. destruct (translate f a) eqn:Ht; [|discriminate].
        inversion Hv; subst. cbn. constructor; [|exact IH].
        split; [reflexivity|split; [reflexivity|exact Ht]].
  Qed.

  Lemma sym_derived_writes ks l sl :
    sym_derived E fname translate l = Some sl ->
    Forall2 ws_rel (der_writes ks sl) (der_slots nstr fname ks l).
  Proof.
    revert sl; induction l as [|[k [f a]] r IH]; intros sl H; simpl in H.
    - inversion H; subst. constructor.
    - unfold fn_to_symbolic_repr in H. destruct (translate f a) eqn:Ht; [|discriminate].
      destruct (sym_derived E fname translate r) eqn:Hr; [|discriminate].
      inversion H; subst; clear H. cbn. constructor; [|apply IH; reflexivity].
      split; [reflexivity|split; [reflexivity|exact Ht]].
  Qed.

  Lemma sym_stoich_writes ks k l sl :
    sym_stoich E fname translate l = Some sl ->
    Forall2 ws_rel (sto_writes ks k sl) (sto_slots nstr fname ks k l).
  Proof.
    revert sl; induction l as [|[c v] r IH]; intros sl H; simpl in H.
    - inversion H; subst. constructor.
    - destruct (sym_coef E fname translate v) eqn:Hv; [|discriminate].
      destruct (sym_stoich E fname translate r) eqn:Hr; [|discriminate].
      inversion H; subst; clear H. specialize (IH _ eq_refl).
      destruct v as [q|f a]; simpl in Hv.
      + inversion Hv; subst. exact IH.
      + unfold fn_to_symbolic_repr in Hv. destruct (translate f a) eqn:Ht; [|discriminate].
        inversion Hv; subst. cbn. constructor; [|exact IH].
        split; [reflexivity|split; [reflexivity|exact Ht]].
  Qed.

  Lemma sym_reactions_writes ksr kss l sl :
    sym_reactions E fname translate l = Some sl ->
    Forall2 ws_rel (rxn_writes ksr kss sl) (rxn_slots nstr fname ksr kss l).
  Proof.
    revert sl; induction l as [|[k [f a st]] r IH]; intros sl H; simpl in H.
    - inversion H; subst. constructor.
    - unfold fn_to_symbolic_repr in H. destruct (translate f a) eqn:Ht; [|discriminate].
      destruct (sym_stoich E fname translate st) eqn:Hs; [|discriminate].
      destruct (sym_reactions E fname translate r) eqn:Hr; [|discriminate].
      inversion H; subst; clear H. cbn.
      constructor; [split; [reflexivity|split; [reflexivity|exact Ht]]|].
      apply Forall2_app; [apply sym_stoich_writes; exact Hs | apply IH; reflexivity].
  Qed.

  Lemma to_symbolic_repr_writes F m sym :
    to_symbolic_repr E fname translate m = Some sym ->
    Forall2 ws_rel (all_writes F sym) (slots nstr fname F m).
  Proof.
    unfold to_symbolic_repr. intros H.
    destruct (sym_values E fname translate (m_var m)) eqn:H1; [|discriminate].
    destruct (sym_values E fname translate (m_par m)) eqn:H2; [|discriminate].
    destruct (sym_derived E fname translate (m_der m)) eqn:H3; [|discriminate].
    destruct (sym_reactions E fname translate (m_rxn m)) eqn:H4; [|discriminate].
    inversion H; subst; clear H. unfold all_writes, slots. cbn [sy_var sy_par sy_der sy_rxn].
    repeat apply Forall2_app.
    - apply sym_values_writes; exact H1.
    - apply sym_values_writes; exact H2.
    - apply sym_derived_writes; exact H3.
    - apply sym_reactions_writes; exact H4.
  Qed.

  (** ---- every slot resolves to a definition with the slot's own meaning ------------------ *)

  Definition frel (D : fdict E) (f f' : fnid) : Prop := forall vs, fsem f vs = fsem_gen E eval D f' vs.
  Definition ROK (D : fdict E) (s : slot) : Prop :=
    exists f', resolve E D (sl_key s) = Built f' /\ frel D (sl_fn s) f'.

  Lemma resolve_ok Wl SL :
    Forall2 ws_rel Wl SL ->
    (forall s, In s SL -> NoDup (sl_args s)) ->
    (forall s1 s2, In s1 SL -> In s2 SL -> sl_key s1 = sl_key s2 -> forall vs, fsem (sl_fn s1) vs = fsem (sl_fn s2) vs) ->
    forall s, In s SL -> ROK (fold_left wr Wl []) s.
  Proof.
    intros HF Hnd Hndf s Hs.
    destruct (Forall2_In_r _ _ _ _ HF Hs) as [[wk wp] [Hw [Hk [_ _]]]]. cbn in Hk. subst wk.
    destruct (find_last_some _ _ _ Hw) as [p Hp].
    assert (Hl : slookup (sl_key s) (fold_left wr Wl []) = Some p) by (rewrite slookup_writes, Hp; reflexivity).
    destruct (slookup_sfind _ _ _ Hl) as [i [Hi Hn]].
    exists (N.of_nat (S i)). split.
    - unfold resolve. rewrite Hi. reflexivity.
    - intros vs. rewrite fsem_gen_S, Hn.
      apply find_last_In in Hp.
      destruct (Forall2_In_l _ _ _ _ HF Hp) as [s' [Hs' [Hk' [Ha' Ht']]]]. cbn in Hk', Ha', Ht'.
      destruct p as [b ps]. cbn in Ha', Ht'. subst ps.
      rewrite (defsem_sound _ _ _ Ht' (Hnd _ Hs')).
      apply Hndf; [exact Hs|exact Hs'|exact Hk'].
  Qed.

  Lemma compile_ok Wl SL :
    Forall2 ws_rel Wl SL ->
    (forall s, In s SL -> NoDup (sl_args s)) ->
    defs_compile E (fold_left wr Wl []) = true.
  Proof.
    intros HF Hnd. unfold defs_compile. apply forallb_forall. intros x Hx.
    apply writes_In in Hx. destruct Hx as [Hx|[]].
    destruct (Forall2_In_l _ _ _ _ HF Hx) as [s' [Hs' [_ [Ha' _]]]].
    destruct x as [xk [xb xa]]. cbn in Ha' |- *. subst xa. apply nodupN_true. apply Hnd. exact Hs'.
  Qed.

  (** ---- running the builder chain -------------------------------------------------------- *)

  Definition fresh (ks ids : list name) : Prop :=
    NoDup ks /\ forall k, In k ks -> ~ In k ids /\ k <> time_name.

  Lemma insert_id_ok k ids : ~ In k ids -> k <> time_name -> insert_id k ids = Built (k :: ids).
  Proof.
    intros H1 H2. unfold insert_id.
    destruct (N.eqb k time_name) eqn:E0; [apply N.eqb_eq in E0; contradiction|].
    apply memN_false in H1. rewrite H1. reflexivity.
  Qed.

  Lemma fresh_tail k r ids : fresh (k :: r) ids -> ~ In k ids /\ k <> time_name /\ fresh r (k :: ids).
  Proof.
    intros [Hnd Hf]. inversion Hnd as [|x l Hnk Hndr]; subst.
    destruct (Hf k (or_introl eq_refl)) as [Ha Hb]. split; [exact Ha|split; [exact Hb|]].
    split; [exact Hndr|]. intros k' Hk'. destruct (Hf k' (or_intror Hk')) as [Hc Hd].
    split; [|exact Hd]. intros [He|He]; [subst; contradiction|contradiction].
  Qed.

  Section Exec.
  Variable D : fdict E.

  Definition set_var (m : model) (v : list (name * valia)) : model :=
    mkModel (m_par m) v (m_der m) (m_rxn m) (m_sur m) (m_ro m) (m_dat m).
  Definition set_par (m : model) (v : list (name * valia)) : model :=
    mkModel v (m_var m) (m_der m) (m_rxn m) (m_sur m) (m_ro m) (m_dat m).
  Definition set_der (m : model) (v : list (name * derived)) : model :=
    mkModel (m_par m) (m_var m) v (m_rxn m) (m_sur m) (m_ro m) (m_dat m).
  Definition set_rxn (m : model) (v : list (name * reaction)) : model :=
    mkModel (m_par m) (m_var m) (m_der m) v (m_sur m) (m_ro m) (m_dat m).

  Lemma exec_vars ks : forall l sl,
    sym_values E fname translate l = Some sl ->
    (forall s, In s (val_slots nstr fname ks l) -> ROK D s) ->
    forall ids m0, fresh (keys l) ids ->
    exists vs', exec_ops E D (var_ops ks sl) (ids, m0) = Built (rev (keys l) ++ ids, set_var m0 (m_var m0 ++ vs'))
                /\ Forall2 (val_rel (frel D)) l vs'.
  Proof.
    induction l as [|[k v] r IH]; intros sl Hs Hrok ids m0 Hf; simpl in Hs.
    - inversion Hs; subst. exists []. split; [|constructor].
      cbn. unfold set_var. rewrite app_nil_r. destruct m0; reflexivity.
    - destruct (sym_value E fname translate v) as [s|] eqn:Hv; [|discriminate].
      destruct (sym_values E fname translate r) as [sr|] eqn:Hr; [|discriminate].
      inversion Hs; subst sl; clear Hs.
      cbn [keys map fst] in Hf. apply fresh_tail in Hf. destruct Hf as [Hk1 [Hk2 Hf]].
      destruct v as [z|f a]; simpl in Hv.
      + inversion Hv; subst s; clear Hv.
        destruct (IH _ eq_refl (fun s Hs => Hrok s Hs) (k :: ids) (set_var m0 (m_var m0 ++ [(k, Plain z)])) Hf)
          as [vs' [Hex Hrel]].
        exists ((k, Plain z) :: vs'). split.
        * cbn [var_ops map fst snd valref_of exec_ops exec_op resolve_val obind].
          rewrite (insert_id_ok _ _ Hk1 Hk2). cbn [obind].
          fold (set_var m0 (m_var m0 ++ [(k, Plain z)])). fold (var_ops ks sr). rewrite Hex.
          cbn [keys map fst rev]. unfold set_var; cbn [m_par m_var m_der m_rxn m_sur m_ro m_dat].
          rewrite <- !app_assoc. reflexivity.
        * constructor; [split; reflexivity|exact Hrel].
      + unfold fn_to_symbolic_repr in Hv. destruct (translate f a) eqn:Ht; [|discriminate].
        inversion Hv; subst s; clear Hv.
        destruct (Hrok (mkSlot (key_of nstr ks k (fname f)) f a)) as [f' [Hres HR]]; [cbn; left; reflexivity|].
        cbn [sl_key sl_fn] in Hres, HR.
        destruct (IH _ eq_refl (fun s Hs => Hrok s (or_intror Hs)) (k :: ids) (set_var m0 (m_var m0 ++ [(k, IA f' a)])) Hf)
          as [vs' [Hex Hrel]].
        exists ((k, IA f' a) :: vs'). split.
        * cbn [var_ops map fst snd valref_of sf_name sf_args exec_ops exec_op resolve_val obind].
          rewrite Hres. cbn [obind].
          rewrite (insert_id_ok _ _ Hk1 Hk2). cbn [obind].
          fold (set_var m0 (m_var m0 ++ [(k, IA f' a)])). fold (var_ops ks sr). rewrite Hex.
          cbn [keys map fst rev]. unfold set_var; cbn [m_par m_var m_der m_rxn m_sur m_ro m_dat].
          rewrite <- !app_assoc. reflexivity.
        * constructor; [split; [reflexivity|split; [exact HR|reflexivity]]|exact Hrel].
  Qed.
  Lemma exec_pars ks : forall l sl,
    sym_values E fname translate l = Some sl ->
    (forall s, In s (val_slots nstr fname ks l) -> ROK D s) ->
    forall ids m0, fresh (keys l) ids ->
    exists vs', exec_ops E D (par_ops ks sl) (ids, m0) = Built (rev (keys l) ++ ids, set_par m0 (m_par m0 ++ vs'))
                /\ Forall2 (val_rel (frel D)) l vs'.
  Proof.
    induction l as [|[k v] r IH]; intros sl Hs Hrok ids m0 Hf; simpl in Hs.
    - inversion Hs; subst. exists []. split; [|constructor].
      cbn. unfold set_par. rewrite app_nil_r. destruct m0; reflexivity.
    - destruct (sym_value E fname translate v) as [s|] eqn:Hv; [|discriminate].
      destruct (sym_values E fname translate r) as [sr|] eqn:Hr; [|discriminate].
      inversion Hs; subst sl; clear Hs.
      cbn [keys map fst] in Hf. apply fresh_tail in Hf. destruct Hf as [Hk1 [Hk2 Hf]].
      destruct v as [z|f a]; simpl in Hv.
      + inversion Hv; subst s; clear Hv.
        destruct (IH _ eq_refl (fun s Hs => Hrok s Hs) (k :: ids) (set_par m0 (m_par m0 ++ [(k, Plain z)])) Hf)
          as [vs' [Hex Hrel]].
        exists ((k, Plain z) :: vs'). split.
        * cbn [par_ops map fst snd valref_of exec_ops exec_op resolve_val obind].
          rewrite (insert_id_ok _ _ Hk1 Hk2). cbn [obind].
          fold (set_par m0 (m_par m0 ++ [(k, Plain z)])). fold (par_ops ks sr). rewrite Hex.
          cbn [keys map fst rev]. unfold set_par; cbn [m_par m_var m_der m_rxn m_sur m_ro m_dat].
          rewrite <- !app_assoc. reflexivity.
        * constructor; [split; reflexivity|exact Hrel].
      + unfold fn_to_symbolic_repr in Hv. destruct (translate f a) eqn:Ht; [|discriminate].
        inversion Hv; subst s; clear Hv.
        destruct (Hrok (mkSlot (key_of nstr ks k (fname f)) f a)) as [f' [Hres HR]]; [cbn; left; reflexivity|].
        cbn [sl_key sl_fn] in Hres, HR.
        destruct (IH _ eq_refl (fun s Hs => Hrok s (or_intror Hs)) (k :: ids) (set_par m0 (m_par m0 ++ [(k, IA f' a)])) Hf)
          as [vs' [Hex Hrel]].
        exists ((k, IA f' a) :: vs'). split.
        * cbn [par_ops map fst snd valref_of sf_name sf_args exec_ops exec_op resolve_val obind].
          rewrite Hres. cbn [obind].
          rewrite (insert_id_ok _ _ Hk1 Hk2). cbn [obind].
          fold (set_par m0 (m_par m0 ++ [(k, IA f' a)])). fold (par_ops ks sr). rewrite Hex.
          cbn [keys map fst rev]. unfold set_par; cbn [m_par m_var m_der m_rxn m_sur m_ro m_dat].
          rewrite <- !app_assoc. reflexivity.
        * constructor; [split; [reflexivity|split; [exact HR|reflexivity]]|exact Hrel].
  Qed.

  Lemma exec_ders ks : forall l sl,
    sym_derived E fname translate l = Some sl ->
    (forall s, In s (der_slots nstr fname ks l) -> ROK D s) ->
    forall ids m0, fresh (keys l) ids ->
    exists ds', exec_ops E D (der_ops ks sl) (ids, m0) = Built (rev (keys l) ++ ids, set_der m0 (m_der m0 ++ ds'))
                /\ Forall2 (der_rel (frel D)) l ds'.
  Proof.
    induction l as [|[k [f a]] r IH]; intros sl Hs Hrok ids m0 Hf; simpl in Hs.
    - inversion Hs; subst. exists []. split; [|constructor].
      cbn. unfold set_der. rewrite app_nil_r. destruct m0; reflexivity.
    - unfold fn_to_symbolic_repr in Hs. destruct (translate f a) as [e|] eqn:Ht; [|discriminate].
      destruct (sym_derived E fname translate r) as [sr|] eqn:Hr; [|discriminate].
      inversion Hs; subst sl; clear Hs.
      cbn [keys map fst] in Hf. apply fresh_tail in Hf. destruct Hf as [Hk1 [Hk2 Hf]].
      destruct (Hrok (mkSlot (key_of nstr ks k (fname f)) f a)) as [f' [Hres HR]]; [cbn; left; reflexivity|].
      cbn [sl_key sl_fn] in Hres, HR.
      destruct (IH _ eq_refl (fun s Hs => Hrok s (or_intror Hs)) (k :: ids) (set_der m0 (m_der m0 ++ [(k, mkDer f' a)])) Hf)
        as [ds' [Hex Hrel]].
      exists ((k, mkDer f' a) :: ds'). split.
      + cbn [der_ops map fst snd sf_name sf_args exec_ops exec_op obind].
        rewrite Hres. cbn [obind].
        rewrite (insert_id_ok _ _ Hk1 Hk2). cbn [obind].
        fold (set_der m0 (m_der m0 ++ [(k, mkDer f' a)])). fold (der_ops ks sr). rewrite Hex.
        cbn [keys map fst rev]. unfold set_der; cbn [m_par m_var m_der m_rxn m_sur m_ro m_dat].
        rewrite <- !app_assoc. reflexivity.
      + constructor; [split; [reflexivity|split; [exact HR|reflexivity]]|exact Hrel].
  Qed.

  Lemma resolve_stoich_ok ks k : forall st sst,
    sym_stoich E fname translate st = Some sst ->
    (forall s, In s (sto_slots nstr fname ks k st) -> ROK D s) ->
    exists st', resolve_stoich E D (sto_refs ks k sst) = Built st' /\ Forall2 (coef_rel (frel D)) st st'.
  Proof.
    induction st as [|[c v] r IH]; intros sst Hs Hrok; simpl in Hs.
    - inversion Hs; subst. exists []. split; [reflexivity|constructor].
    - destruct (sym_coef E fname translate v) as [sc|] eqn:Hv; [|discriminate].
      destruct (sym_stoich E fname translate r) as [sr|] eqn:Hr; [|discriminate].
      inversion Hs; subst sst; clear Hs.
      destruct v as [q|f a]; simpl in Hv.
      + inversion Hv; subst sc; clear Hv.
        destruct (IH _ eq_refl (fun s Hs => Hrok s Hs)) as [st' [Hex Hrel]].
        exists ((c, CStat q) :: st'). split.
        * cbn [sto_refs map fst snd coefref_of resolve_stoich resolve_coef obind].
          fold (sto_refs ks k sr). rewrite Hex. reflexivity.
        * constructor; [split; reflexivity|exact Hrel].
      + unfold fn_to_symbolic_repr in Hv. destruct (translate f a) as [e|] eqn:Ht; [|discriminate].
        inversion Hv; subst sc; clear Hv.
        destruct (Hrok (mkSlot (key_of nstr ks k (fname f)) f a)) as [f' [Hres HR]]; [cbn; left; reflexivity|].
        cbn [sl_key sl_fn] in Hres, HR.
        destruct (IH _ eq_refl (fun s Hs => Hrok s (or_intror Hs))) as [st' [Hex Hrel]].
        exists ((c, CDyn f' a) :: st'). split.
        * cbn [sto_refs map fst snd coefref_of sf_name sf_args resolve_stoich resolve_coef obind].
          rewrite Hres. cbn [obind]. fold (sto_refs ks k sr). rewrite Hex. reflexivity.
        * constructor; [split; [reflexivity|split; [exact HR|reflexivity]]|exact Hrel].
  Qed.

  Lemma exec_rxns ksr kss : forall l sl,
    sym_reactions E fname translate l = Some sl ->
    (forall s, In s (rxn_slots nstr fname ksr kss l) -> ROK D s) ->
    forall ids m0, fresh (keys l) ids ->
    exists rs', exec_ops E D (rxn_ops ksr kss sl) (ids, m0) = Built (rev (keys l) ++ ids, set_rxn m0 (m_rxn m0 ++ rs'))
                /\ Forall2 (rxn_rel (frel D)) l rs'.
  Proof.
    induction l as [|[k [f a st]] r IH]; intros sl Hs Hrok ids m0 Hf; simpl in Hs.
    - inversion Hs; subst. exists []. split; [|constructor].
      cbn. unfold set_rxn. rewrite app_nil_r. destruct m0; reflexivity.
    - unfold fn_to_symbolic_repr in Hs. destruct (translate f a) as [e|] eqn:Ht; [|discriminate].
      destruct (sym_stoich E fname translate st) as [sst|] eqn:Hst; [|discriminate].
      destruct (sym_reactions E fname translate r) as [sr|] eqn:Hr; [|discriminate].
      inversion Hs; subst sl; clear Hs.
      cbn [keys map fst] in Hf. apply fresh_tail in Hf. destruct Hf as [Hk1 [Hk2 Hf]].
      destruct (Hrok (mkSlot (key_of nstr ksr k (fname f)) f a)) as [f' [Hres HR]]; [cbn; left; reflexivity|].
      cbn [sl_key sl_fn] in Hres, HR.
      destruct (resolve_stoich_ok kss k st sst Hst) as [st' [Hsto Hstrel]].
      { intros s Hs. apply Hrok. cbn. right. apply in_or_app. left. exact Hs. }
      destruct (IH _ eq_refl (fun s Hs => Hrok s (or_intror (in_or_app _ _ _ (or_intror Hs)))) (k :: ids)
                   (set_rxn m0 (m_rxn m0 ++ [(k, mkRxn f' a st')])) Hf)
        as [rs' [Hex Hrel]].
      exists ((k, mkRxn f' a st') :: rs'). split.
      + cbn [rxn_ops map fst snd sf_name sf_args sr_fn sr_st exec_ops exec_op obind].
        rewrite Hres. cbn [obind]. rewrite Hsto. cbn [obind].
        rewrite (insert_id_ok _ _ Hk1 Hk2). cbn [obind].
        fold (set_rxn m0 (m_rxn m0 ++ [(k, mkRxn f' a st')])). fold (rxn_ops ksr kss sr). rewrite Hex.
        cbn [keys map fst rev]. unfold set_rxn; cbn [m_par m_var m_der m_rxn m_sur m_ro m_dat].
        rewrite <- !app_assoc. reflexivity.
      + constructor; [|exact Hrel].
        split; [reflexivity|split; [exact HR|split; [reflexivity|exact Hstrel]]].
  Qed.
  End Exec.

  Lemma NoDup_app_disjoint {A} (a b : list A) x : NoDup (a ++ b) -> In x a -> In x b -> False.
  Proof.
    induction a as [|y a IH]; simpl; [intros _ []|].
    intros Hnd [Hx|Hx] Hb; inversion Hnd as [|z l Hn Hr]; subst.
    - apply Hn. apply in_or_app. right. exact Hb.
    - exact (IH Hr Hx Hb).
  Qed.

  Lemma fresh_seq a b ids : fresh (a ++ b) ids -> fresh a ids /\ fresh b (rev a ++ ids).
  Proof.
    intros [Hnd Hf]. split; split.
    - exact (NoDup_app_remove_r _ _ Hnd).
    - intros k Hk. apply Hf. apply in_or_app. left. exact Hk.
    - exact (NoDup_app_remove_l _ _ Hnd).
    - intros k Hk. destruct (Hf k (in_or_app _ _ _ (or_intror Hk))) as [H1 H2]. split; [|exact H2].
      intros Hin. apply in_app_or in Hin. destruct Hin as [Hin|Hin]; [|contradiction].
      apply in_rev in Hin. exact (NoDup_app_disjoint _ _ _ Hnd Hin Hk).
  Qed.

  Lemma roundtrip_partial F m c :
    UniqueIds m ->
    (forall s, In s (slots nstr fname F m) -> NoDup (sl_args s)) ->
    (forall s1 s2, In s1 (slots nstr fname F m) -> In s2 (slots nstr fname F m) ->
                   sl_key s1 = sl_key s2 -> forall vs, fsem (sl_fn s1) vs = fsem (sl_fn s2) vs) ->
    generate E nstr fname translate F m = Some c ->
    exists m', exec_code E c = Built m' /\ model_rel (frel (c_defs c)) m m'.
  Proof.
    intros [Hnd Htime] Hargs Hndf Hgen. unfold generate in Hgen.
    destruct (to_symbolic_repr E fname translate m) as [sym|] eqn:Hsym; [|discriminate].
    inversion Hgen; subst c; clear Hgen.
    rewrite generate_from_symrepr_spec. cbn [c_defs].
    pose proof (to_symbolic_repr_writes F m sym Hsym) as HF.
    pose proof (resolve_ok _ _ HF Hargs Hndf) as Hrok.
    pose proof (compile_ok _ _ HF Hargs) as Hcomp.
    set (D := fold_left wr (all_writes F sym) []) in *.
    unfold to_symbolic_repr in Hsym.
    destruct (sym_values E fname translate (m_var m)) as [vs|] eqn:H1; [|discriminate].
    destruct (sym_values E fname translate (m_par m)) as [ps|] eqn:H2; [|discriminate].
    destruct (sym_derived E fname translate (m_der m)) as [ds|] eqn:H3; [|discriminate].
    destruct (sym_reactions E fname translate (m_rxn m)) as [rs|] eqn:H4; [|discriminate].
    inversion Hsym; subst sym; clear Hsym. cbn [sy_var sy_par sy_der sy_rxn] in *.
    assert (Hfr : fresh (all_ids m) []).
    { split; [exact Hnd|]. intros k Hk. split; [intros []|]. intro; subst. contradiction. }
    unfold all_ids in Hfr.
    apply fresh_seq in Hfr. destruct Hfr as [Hf1 Hfr].
    apply fresh_seq in Hfr. destruct Hfr as [Hf2 Hfr].
    apply fresh_seq in Hfr. destruct Hfr as [Hf3 Hf4].
    unfold slots in Hrok.
    destruct (exec_vars D (gf_var_key F) _ _ H1) with (ids := @nil name) (m0 := empty_model) as [vs' [Hx1 Hr1]];
      [intros s Hs; apply Hrok; apply in_or_app; left; exact Hs | exact Hf1 |].
    destruct (exec_pars D (gf_par_key F) _ _ H2) with (ids := rev (keys (m_var m)) ++ [])
                                                       (m0 := set_var empty_model (m_var empty_model ++ vs'))
      as [ps' [Hx2 Hr2]];
      [intros s Hs; apply Hrok; apply in_or_app; right; apply in_or_app; left; exact Hs | exact Hf2 |].
    match type of Hx2 with _ = Built (?i, ?mm) => set (ids2 := i) in *; set (m2 := mm) in * end.
    destruct (exec_ders D (gf_der_key F) _ _ H3) with (ids := ids2) (m0 := m2) as [ds' [Hx3 Hr3]];
      [intros s Hs; apply Hrok; apply in_or_app; right; apply in_or_app; right; apply in_or_app; left; exact Hs
      | exact Hf3 |].
    match type of Hx3 with _ = Built (?i, ?mm) => set (ids3 := i) in *; set (m3 := mm) in * end.
    destruct (exec_rxns D (gf_rxn_key F) (gf_sto_key F) _ _ H4) with (ids := ids3) (m0 := m3) as [rs' [Hx4 Hr4]];
      [intros s Hs; apply Hrok; apply in_or_app; right; apply in_or_app; right; apply in_or_app; right; exact Hs
      | exact Hf4 |].
    eexists. split.
    - unfold exec_code. cbn [c_defs c_ops]. rewrite Hcomp. cbn [negb].
      rewrite !exec_ops_app. rewrite Hx1. cbn [obind]. rewrite Hx2. cbn [obind].
      rewrite Hx3. cbn [obind]. rewrite Hx4. cbn [obind snd]. reflexivity.
    - subst m3 m2. unfold model_rel, set_rxn, set_der, set_par, set_var, empty_model.
      cbn [m_par m_var m_der m_rxn m_sur m_ro m_dat app].
      repeat split; assumption.
  Qed.

  (** ---- refusal ---------------------------------------------------------------------------- *)

  Definition untranslatable (s : slot) : Prop := translate (sl_fn s) (sl_args s) = None.

  Lemma sym_values_none ks l :
    sym_values E fname translate l = None <-> Exists untranslatable (val_slots nstr fname ks l).
  Proof.
    induction l as [|[k v] r IH]; simpl.
    - split; [discriminate|intros H; inversion H].
    - destruct v as [z|f a]; simpl.
      + destruct (sym_values E fname translate r); split; intros H; try discriminate.
        * apply IH in H. discriminate.
        * apply IH. reflexivity.
        * reflexivity.
      + unfold fn_to_symbolic_repr. destruct (translate f a) eqn:Ht.
        * destruct (sym_values E fname translate r); split; intros H; try discriminate.
          -- inversion H as [? ? Hu|? ? Hu]; subst; [unfold untranslatable in Hu; cbn in Hu; congruence|].
             apply IH in Hu. discriminate.
          -- apply Exists_cons_tl. apply IH. reflexivity.
          -- reflexivity.
        * split; intros _; [|reflexivity]. apply Exists_cons_hd. exact Ht.
  Qed.

  Lemma sym_derived_none ks l :
    sym_derived E fname translate l = None <-> Exists untranslatable (der_slots nstr fname ks l).
  Proof.
    induction l as [|[k [f a]] r IH]; simpl.
    - split; [discriminate|intros H; inversion H].
    - unfold fn_to_symbolic_repr. destruct (translate f a) eqn:Ht.
      + destruct (sym_derived E fname translate r); split; intros H; try discriminate.
        * inversion H as [? ? Hu|? ? Hu]; subst; [unfold untranslatable in Hu; cbn in Hu; congruence|].
          apply IH in Hu. discriminate.
        * apply Exists_cons_tl. apply IH. reflexivity.
        * reflexivity.
      + split; intros _; [|reflexivity]. apply Exists_cons_hd. exact Ht.
  Qed.

  Lemma sym_stoich_none ks k l :
    sym_stoich E fname translate l = None <-> Exists untranslatable (sto_slots nstr fname ks k l).
  Proof.
    induction l as [|[c v] r IH]; simpl.
    - split; [discriminate|intros H; inversion H].
    - destruct v as [q|f a]; simpl.
      + destruct (sym_stoich E fname translate r); split; intros H; try discriminate.
        * apply IH in H. discriminate.
        * apply IH. reflexivity.
        * reflexivity.
      + unfold fn_to_symbolic_repr. destruct (translate f a) eqn:Ht.
        * destruct (sym_stoich E fname translate r); split; intros H; try discriminate.
          -- inversion H as [? ? Hu|? ? Hu]; subst; [unfold untranslatable in Hu; cbn in Hu; congruence|].
             apply IH in Hu. discriminate.
          -- apply Exists_cons_tl. apply IH. reflexivity.
          -- reflexivity.
        * split; intros _; [|reflexivity]. apply Exists_cons_hd. exact Ht.
  Qed.

  Lemma sym_reactions_none ksr kss l :
    sym_reactions E fname translate l = None <-> Exists untranslatable (rxn_slots nstr fname ksr kss l).
  Proof.
    induction l as [|[k [f a st]] r IH]; simpl.
    - split; [discriminate|intros H; inversion H].
    - unfold fn_to_symbolic_repr. destruct (translate f a) eqn:Ht.
      + destruct (sym_stoich E fname translate st) eqn:Hs.
        * destruct (sym_reactions E fname translate r); split; intros H; try discriminate.
          -- inversion H as [? ? Hu|? ? Hu]; subst; [unfold untranslatable in Hu; cbn in Hu; congruence|].
             apply Exists_app in Hu. destruct Hu as [Hu|Hu].
             ++ apply (sym_stoich_none kss k) in Hu. congruence.
             ++ apply IH in Hu. discriminate.
          -- apply Exists_cons_tl. apply Exists_app. right. apply IH. reflexivity.
          -- reflexivity.
        * split; intros _; [|reflexivity]. apply Exists_cons_tl. apply Exists_app. left.
          apply (sym_stoich_none kss k). exact Hs.
      + split; intros _; [|reflexivity]. apply Exists_cons_hd. exact Ht.
  Qed.

  Lemma generate_none_iff F m :
    generate E nstr fname translate F m = None <->
    exists s, In s (slots nstr fname F m) /\ translate (sl_fn s) (sl_args s) = None.
  Proof.
    rewrite <- Exists_exists. unfold generate, to_symbolic_repr, slots.
    rewrite !Exists_app.
    rewrite <- (sym_values_none (gf_var_key F)), <- (sym_values_none (gf_par_key F)),
            <- (sym_derived_none (gf_der_key F)), <- (sym_reactions_none (gf_rxn_key F) (gf_sto_key F)).
    destruct (sym_values E fname translate (m_var m)); [|tauto].
    destruct (sym_values E fname translate (m_par m)); [|tauto].
    destruct (sym_derived E fname translate (m_der m)); [|tauto].
    destruct (sym_reactions E fname translate (m_rxn m)); [|tauto].
    split; [discriminate|]. intros [H|[H|[H|H]]]; discriminate.
  Qed.

  Lemma untranslatable_raises F m :
    (exists s, In s (slots nstr fname F m) /\ translate (sl_fn s) (sl_args s) = None) ->
    roundtrip E nstr fname translate F m = GenRaises.
  Proof. intros H. apply generate_none_iff in H. unfold roundtrip. rewrite H. reflexivity. Qed.

  Lemma roundtrip_raises_only_if F m :
    roundtrip E nstr fname translate F m = GenRaises ->
    exists s, In s (slots nstr fname F m) /\ translate (sl_fn s) (sl_args s) = None.
  Proof.
    intros H. apply generate_none_iff. unfold roundtrip in H.
    destruct (generate E nstr fname translate F m) as [c|]; [|reflexivity].
    exfalso. unfold exec_code in H. destruct (negb (defs_compile E (c_defs c))); [discriminate|].
    destruct (exec_ops E (c_defs c) (c_ops c) ([], empty_model)) eqn:Hx; cbn in H; try discriminate.
    revert Hx. generalize (c_ops c) (@nil name, empty_model). clear H.
    intros ops. induction ops as [|op r IH]; intros st; simpl; [discriminate|].
    destruct (exec_op E (c_defs c) op st) eqn:Ho; simpl; try discriminate; [apply IH|].
    exfalso. destruct st as [ids mm]. destruct op; cbn in Ho.
    all: repeat match type of Ho with
                | context [resolve_val E ?d ?v] => destruct v; cbn in Ho
                | context [resolve E ?d ?k] => unfold resolve in Ho; destruct (sfind k d); cbn in Ho
                | context [insert_id ?k ?i] => unfold insert_id in Ho; destruct (N.eqb k time_name); [discriminate|]; destruct (memN k i); cbn in Ho
                | _ => discriminate
                end.
  Abort.
End Proofs.
