(** Proofs about the round-trip model (lemmas only; the statements are in PropsC11.v). *)
From Coq Require Import ZArith List Bool String Ascii Lia Decimal DecimalString DecimalNat FinFun.
From MxlBase Require Import ListX.
From Core Require Import Sort Model.
From MxlGen Require Import SymRepr MxlGen MxlGenSpec MxlGenSem.
Import ListNotations.
Local Open Scope list_scope.

(** ---- the string-keyed dict ------------------------------------------------------------- *)

Section Dict.
  Context {A : Type}.

  Definition wr (d : list (string * A)) (w : string * A) : list (string * A) := sdset (fst w) (snd w) d.

  Lemma slookup_sdset k k' (v : A) d :
    slookup k (sdset k' v d) = if String.eqb k k' then Some v else slookup k d.
  Proof.
    induction d as [|[k0 v0] r IH]; simpl.
    - reflexivity.
    - destruct (String.eqb k' k0) eqn:E0; simpl.
      + apply String.eqb_eq in E0. subst k0. destruct (String.eqb k k'); reflexivity.
      + destruct (String.eqb k k0) eqn:E1.
        * apply String.eqb_eq in E1. subst k0.
          destruct (String.eqb k k') eqn:E2; [|reflexivity].
          apply String.eqb_eq in E2. subst. rewrite String.eqb_refl in E0. discriminate.
        * exact IH.
  Qed.

  (** the payload of the LAST write to key [k] *)
  Fixpoint find_last (k : string) (W : list (string * A)) : option A :=
    match W with
    | [] => None
    | w :: r => match find_last k r with
                | Some p => Some p
                | None => if String.eqb k (fst w) then Some (snd w) else None
                end
    end.

  Lemma slookup_writes k W d :
    slookup k (fold_left wr W d) = match find_last k W with Some p => Some p | None => slookup k d end.
  Proof.
    revert d; induction W as [|w r IH]; intros d; simpl.
    - reflexivity.
    - rewrite IH. destruct (find_last k r); [reflexivity|].
      unfold wr. rewrite slookup_sdset. destruct (String.eqb k (fst w)); reflexivity.
  Qed.

  Lemma find_last_In k W p : find_last k W = Some p -> In (k, p) W.
  Proof.
    induction W as [|[k0 v0] r IH]; simpl; [discriminate|].
    destruct (find_last k r) eqn:Hf.
    - intros H. inversion H; subst. right. apply IH. reflexivity.
    - destruct (String.eqb k k0) eqn:E0; [|discriminate].
      intros H. inversion H; subst. apply String.eqb_eq in E0. subst. left. reflexivity.
  Qed.

  Lemma find_last_some k W p0 : In (k, p0) W -> exists p, find_last k W = Some p.
  Proof.
    induction W as [|[k0 v0] r IH]; simpl; [intros []|].
    intros [H|H].
    - inversion H; subst. destruct (find_last k r); [eexists; reflexivity|].
      rewrite String.eqb_refl. eexists; reflexivity.
    - destruct (IH H) as [p Hp]. rewrite Hp. eexists; reflexivity.
  Qed.

  Lemma slookup_sfind k d (p : A) :
    slookup k d = Some p -> exists i, sfind k d = Some i /\ nth_error d i = Some (k, p).
  Proof.
    induction d as [|[k0 v0] r IH]; simpl; [discriminate|].
    destruct (String.eqb k k0) eqn:E0.
    - intros H. inversion H; subst. apply String.eqb_eq in E0. subst. exists 0%nat. split; reflexivity.
    - intros H. destruct (IH H) as [i [H1 H2]]. exists (S i). rewrite H1. split; [reflexivity|exact H2].
  Qed.

  Lemma sdset_In k (v : A) d x : In x (sdset k v d) -> x = (k, v) \/ In x d.
  Proof.
    induction d as [|[k0 v0] r IH]; simpl.
    - intros [H|[]]. left. symmetry. exact H.
    - destruct (String.eqb k k0) eqn:E0; simpl.
      + apply String.eqb_eq in E0. subst k0. intros [H|H]; [left; symmetry; exact H | right; right; exact H].
      + intros [H|H]; [right; left; exact H|]. destruct (IH H) as [H1|H1]; [left; exact H1 | right; right; exact H1].
  Qed.

  Lemma writes_In W d x : In x (fold_left wr W d) -> In x W \/ In x d.
  Proof.
    revert d; induction W as [|w r IH]; intros d; simpl.
    - intros H. right. exact H.
    - intros H. destruct (IH _ H) as [H1|H1]; [left; right; exact H1|].
      unfold wr in H1. apply sdset_In in H1. destruct H1 as [H1|H1].
      + left. left. destruct w. symmetry. exact H1.
      + right. exact H1.
  Qed.
End Dict.

Lemma Forall2_In_r {A B} (R : A -> B -> Prop) l1 l2 y :
  Forall2 R l1 l2 -> In y l2 -> exists x, In x l1 /\ R x y.
Proof.
  induction 1 as [|a b l1 l2 Hab _ IH]; simpl; [intros []|].
  intros [H|H].
  - subst. exists a. split; [left; reflexivity|exact Hab].
  - destruct (IH H) as [x [H1 H2]]. exists x. split; [right; exact H1|exact H2].
Qed.

Lemma Forall2_In_l {A B} (R : A -> B -> Prop) l1 l2 x :
  Forall2 R l1 l2 -> In x l1 -> exists y, In y l2 /\ R x y.
Proof.
  induction 1 as [|a b l1 l2 Hab _ IH]; simpl; [intros []|].
  intros [H|H].
  - subst. exists b. split; [left; reflexivity|exact Hab].
  - destruct (IH H) as [y [H1 H2]]. exists y. split; [right; exact H1|exact H2].
Qed.

Lemma nodupN_true l : NoDup l -> nodupN l = true.
Proof.
  induction 1 as [|x l Hx _ IH]; simpl; [reflexivity|].
  rewrite IH. apply memN_false in Hx. rewrite Hx. reflexivity.
Qed.

Lemma lookup_skip k p (v : Z) e : k <> p -> lookup k ((p, v) :: e) = lookup k e.
Proof. intros H. simpl. destruct (N.eqb k p) eqn:E0; [apply N.eqb_eq in E0; contradiction|reflexivity]. Qed.

Lemma lookups_skip ks p (v : Z) e : ~ In p ks -> lookups ks ((p, v) :: e) = lookups ks e.
Proof.
  induction ks as [|k r IH]; intros H; [reflexivity|].
  cbn [lookups]. rewrite lookup_skip by (intro; subst; apply H; left; reflexivity).
  rewrite IH by (intro; apply H; right; assumption). reflexivity.
Qed.

Lemma lookups_combine ps vs : NoDup ps -> length vs = length ps -> lookups ps (combine ps vs) = Some vs.
Proof.
  intros Hnd. revert vs. induction Hnd as [|p ps Hp _ IH]; intros vs Hl.
  - destruct vs; [reflexivity|discriminate].
  - destruct vs as [|v vs]; [discriminate|]. simpl in Hl.
    cbn [combine lookups]. cbn [lookup]. rewrite N.eqb_refl.
    rewrite lookups_skip by exact Hp. rewrite IH by lia. reflexivity.
Qed.

Lemma exec_ops_app {E} (d : fdict E) a b st :
  exec_ops E d (a ++ b) st = obind (exec_ops E d a st) (exec_ops E d b).
Proof.
  revert st; induction a as [|op r IH]; intros st; simpl; [reflexivity|].
  destruct (exec_op E d op st); simpl; try reflexivity. apply IH.
Qed.

Lemma fsem_gen_S {E} (eval : E -> env -> option Z) (d : fdict E) i vs :
  fsem_gen E eval d (N.of_nat (S i)) vs =
  match nth_error d i with Some (_, (b, ps)) => defsem E eval b ps vs | None => None end.
Proof.
  unfold fsem_gen. change (N.of_nat (S i)) with (Npos (Pos.of_succ_nat i)).
  cbn [N.to_nat]. rewrite SuccNat2Pos.id_succ. reflexivity.
Qed.


(** ---- fresh names: key, key_1, key_2, ... are pairwise different -------------------------- *)

Lemma append_inv_head (s a b : string) : (s ++ a = s ++ b)%string -> a = b.
Proof. induction s as [|c s IH]; cbn; intros H; [exact H|]. injection H as H. exact (IH H). Qed.

Lemma append_self_nil (s x : string) : (s = s ++ x)%string -> x = EmptyString.
Proof. induction s as [|c s IH]; cbn; intros H; [symmetry; exact H|]. injection H as H. exact (IH H). Qed.

Lemma dec_inj i j : dec i = dec j -> i = j.
Proof.
  unfold dec. intros H. apply (f_equal NilEmpty.uint_of_string) in H. rewrite !NilEmpty.usu in H.
  injection H as H. apply (f_equal Nat.of_uint) in H. rewrite !Unsigned.of_to in H. exact H.
Qed.

Lemma cand_inj k : Injective (cand k).
Proof.
  intros [|i] [|j] H; cbn [cand] in H.
  - reflexivity.
  - apply append_self_nil in H. discriminate.
  - symmetry in H. apply append_self_nil in H. discriminate.
  - apply append_inv_head in H. cbn [append] in H. injection H as H. apply dec_inj in H. exact H.
Qed.

Lemma slookup_In_keys {A} k (d : list (string * A)) p : slookup k d = Some p -> In k (map fst d).
Proof.
  induction d as [|[k0 v0] r IH]; cbn; [discriminate|].
  destruct (String.eqb k k0) eqn:E0; [apply String.eqb_eq in E0; subst; intros _; left; reflexivity|].
  intros H. right. exact (IH H).
Qed.

Section FindName.
  Variable E : Type.
  Variable same_fn : E * list name -> E * list name -> bool.

  Lemma find_name_none fuel : forall k i p d,
    find_name E same_fn fuel k i p d = None ->
    forall j, (i <= j < i + fuel)%nat -> In (cand k j) (map fst d).
  Proof.
    induction fuel as [|fuel IH]; intros k i p d H j Hj; [lia|].
    cbn [find_name] in H. destruct (slookup (cand k i) d) as [q|] eqn:Hl; [|discriminate].
    destruct (same_fn q p); [discriminate|].
    destruct (Nat.eq_dec j i) as [->|Hne]; [exact (slookup_In_keys _ _ _ Hl)|].
    apply (IH k (S i) p d H). lia.
  Qed.

  (** the fuel of the model (len(functions) + 1) is never exhausted *)
  Lemma find_name_total k p (d : fdict E) : find_name E same_fn (S (length d)) k 0 p d <> None.
  Proof.
    intros H. pose proof (find_name_none _ _ _ _ _ H) as Hin.
    assert (Hnd : NoDup (map (cand k) (seq 0 (S (length d))))).
    { apply Injective_map_NoDup; [apply cand_inj|apply seq_NoDup]. }
    assert (Hincl : incl (map (cand k) (seq 0 (S (length d)))) (map fst d)).
    { intros x Hx. apply in_map_iff in Hx. destruct Hx as [j [<- Hj]]. apply in_seq in Hj. apply Hin. lia. }
    pose proof (NoDup_incl_length Hnd Hincl) as Hlen. rewrite !map_length, seq_length in Hlen. lia.
  Qed.

  Lemma find_name_some fuel : forall k i p d n,
    find_name E same_fn fuel k i p d = Some n ->
    slookup n d = None \/ exists q, slookup n d = Some q /\ same_fn q p = true.
  Proof.
    induction fuel as [|fuel IH]; intros k i p d n H; [discriminate|].
    cbn [find_name] in H. destruct (slookup (cand k i) d) as [q|] eqn:Hl.
    - destruct (same_fn q p) eqn:Hs.
      + inversion H; subst. right. exists q. split; assumption.
      + exact (IH _ _ _ _ _ H).
    - inversion H; subst. left. exact Hl.
  Qed.
End FindName.

(** ---- calling a def with argument values that come from ONE environment ------------------- *)

Lemma lookups_length a : forall en vs, lookups a en = Some vs -> length vs = length a.
Proof.
  induction a as [|k r IH]; intros en vs H; cbn [lookups] in H.
  - inversion H; reflexivity.
  - destruct (lookup k en); [|discriminate]. destruct (lookups r en) eqn:Hr; [|discriminate].
    inversion H; subst. cbn. rewrite (IH _ _ Hr). reflexivity.
Qed.

Lemma lookups_ext a : forall (e1 e2 : env), (forall k, In k a -> lookup k e1 = lookup k e2) -> lookups a e1 = lookups a e2.
Proof.
  induction a as [|k r IH]; intros e1 e2 H; [reflexivity|]. cbn [lookups].
  rewrite (H k (or_introl eq_refl)). rewrite (IH e1 e2); [reflexivity|]. intros k' Hk'. apply H. right. exact Hk'.
Qed.

Lemma lookup_combine_consistent a : forall en vs, lookups a en = Some vs ->
  forall k, In k a -> lookup k (combine a vs) = lookup k en.
Proof.
  induction a as [|k0 r IH]; intros en vs H k Hk; [destruct Hk|].
  cbn [lookups] in H. destruct (lookup k0 en) as [v0|] eqn:H0; [|discriminate].
  destruct (lookups r en) as [vr|] eqn:Hr; [|discriminate]. inversion H; subst vs; clear H.
  cbn [combine lookup]. destruct (N.eqb k k0) eqn:E0.
  - apply N.eqb_eq in E0. subst. symmetry. exact H0.
  - destruct Hk as [Hk|Hk]; [subst; rewrite N.eqb_refl in E0; discriminate|]. exact (IH _ _ Hr _ Hk).
Qed.

(** a repeated name is bound at its first position; values read from one environment agree on
    repeated names, so the binding reproduces them *)
Lemma lookups_combine_consistent a en vs : lookups a en = Some vs -> lookups a (combine a vs) = Some vs.
Proof.
  intros H. rewrite <- H. apply lookups_ext. intros k Hk. exact (lookup_combine_consistent _ _ _ H _ Hk).
Qed.

(** ---- exec never reports "generation raised" ------------------------------------------------ *)

Lemma obind_not_genraises {A B} (r : outcome A) (f : A -> outcome B) :
  r <> GenRaises -> (forall a, f a <> GenRaises) -> obind r f <> GenRaises.
Proof. destruct r; cbn; intros H1 H2; try discriminate; [apply H2|contradiction]. Qed.

Section NoRaise.
  Variable E : Type.
  Lemma resolve_nr (d : fdict E) k : resolve E d k <> GenRaises.
  Proof. unfold resolve. destruct (sfind k d); discriminate. Qed.
  Lemma insert_id_nr k ids : insert_id k ids <> GenRaises.
  Proof. unfold insert_id. destruct (N.eqb k time_name); [discriminate|]. destruct (memN k ids); discriminate. Qed.
  Lemma resolve_val_nr (d : fdict E) v : resolve_val E d v <> GenRaises.
  Proof. destruct v; cbn; [discriminate|]. apply obind_not_genraises; [apply resolve_nr|discriminate]. Qed.
  Lemma resolve_coef_nr (d : fdict E) c : resolve_coef E d c <> GenRaises.
  Proof. destruct c; cbn; try discriminate. apply obind_not_genraises; [apply resolve_nr|discriminate]. Qed.
  Lemma resolve_stoich_nr (d : fdict E) st : resolve_stoich E d st <> GenRaises.
  Proof.
    induction st as [|[k c] r IH]; cbn [resolve_stoich]; [discriminate|].
    apply obind_not_genraises; [apply resolve_coef_nr|]. intros c'.
    apply obind_not_genraises; [exact IH|discriminate].
  Qed.
  Lemma exec_op_nr (d : fdict E) op st : exec_op E d op st <> GenRaises.
  Proof.
    destruct st as [ids m]. destruct op; cbn [exec_op].
    - apply obind_not_genraises; [apply resolve_val_nr|]. intros v'.
      apply obind_not_genraises; [apply insert_id_nr|discriminate].
    - apply obind_not_genraises; [apply resolve_val_nr|]. intros v'.
      apply obind_not_genraises; [apply insert_id_nr|discriminate].
    - apply obind_not_genraises; [apply resolve_nr|]. intros f.
      apply obind_not_genraises; [apply insert_id_nr|discriminate].
    - apply obind_not_genraises; [apply resolve_nr|]. intros f.
      apply obind_not_genraises; [apply resolve_stoich_nr|]. intros sto.
      apply obind_not_genraises; [apply insert_id_nr|discriminate].
  Qed.
  Lemma exec_ops_nr (d : fdict E) ops : forall st, exec_ops E d ops st <> GenRaises.
  Proof.
    induction ops as [|op r IH]; intros st; cbn [exec_ops]; [discriminate|].
    apply obind_not_genraises; [apply exec_op_nr|exact IH].
  Qed.
  Lemma exec_code_nr (c : code E) : exec_code E c <> GenRaises.
  Proof.
    unfold exec_code. destruct (negb _); [discriminate|].
    apply obind_not_genraises; [apply exec_ops_nr|discriminate].
  Qed.
End NoRaise.

Section Proofs.
  Variable E : Type.
  Variable nstr : name -> string.
  Variable fname : fnid -> string.
  Variable translate : fnid -> list name -> option E.
  Variable eval : E -> env -> option Z.
  Variable same_fn : E * list name -> E * list name -> bool.
  Variable fsem : fnid -> list Z -> option Z.
  (* C06: the expression fn_to_sympy returns for f with the model symbols margs substituted
     evaluates, under any binding, to f's value at the values bound to margs *)
  Hypothesis translate_sound : forall f margs e, translate f margs = Some e ->
    forall en vs, lookups margs en = Some vs -> eval e en = fsem f vs.

  Definition payload : Type := (E * list name)%type.

  (** the def emitted for payload [p] serves slot [s]: called with the values of the slot's
      argument names (read from one environment) it returns what the slot's function returns *)
  Definition SemOK (s : slot) (p : payload) : Prop :=
    forall en vs, lookups (sl_args s) en = Some vs -> defsem E eval (fst p) (snd p) vs = fsem (sl_fn s) vs.

  (** a write of the generator vs. the slot of the source model it comes from *)
  Definition ws_rel (w : string * payload) (s : slot) : Prop :=
    fst w = sl_key s /\ snd (snd w) = sl_args s
    /\ translate (sl_fn s) (sl_args s) = Some (fst (snd w)).

  Lemma ws_SemOK w s : ws_rel w s -> SemOK s (snd w).
  Proof.
    destruct w as [k [e a]]. intros [_ [Ha Ht]]. cbn in Ha, Ht. subst a. intros en vs Hl. cbn [fst snd].
    unfold defsem. rewrite (lookups_length _ _ _ Hl), Nat.eqb_refl.
    apply (translate_sound _ _ _ Ht). exact (lookups_combine_consistent _ _ _ Hl).
  Qed.

  (** with pairwise different argument names (and functions that reject a wrong number of
      arguments) the emitted def IS the function, on all argument vectors *)
  Lemma defsem_sound (arity : fnid -> nat) f margs e :
    (forall f margs e, translate f margs = Some e -> length margs = arity f) ->
    (forall f vs, length vs <> arity f -> fsem f vs = None) ->
    translate f margs = Some e -> NoDup margs -> forall vs, defsem E eval e margs vs = fsem f vs.
  Proof.
    intros Har Hfa Ht Hnd vs. unfold defsem.
    destruct (Nat.eqb (length vs) (length margs)) eqn:El.
    - apply Nat.eqb_eq in El. apply (translate_sound _ _ _ Ht). apply lookups_combine; assumption.
    - apply Nat.eqb_neq in El. symmetry. apply Hfa. rewrite <- (Har _ _ _ Ht). exact El.
  Qed.

  (** [f] of the source and [f'] of the rebuilt model are interchangeable on the names [a] *)
  Definition frel (D : fdict E) : fnrel :=
    fun a f f' => forall en vs, lookups a en = Some vs -> fsem f vs = fsem_gen E eval D f' vs.

  (** ---- one run of the generator, abstractly: what every [register] call guarantees -------- *)

  Section Alloc.
  Variable rm : register_mode.
  Variable NameOK : slot -> string -> Prop.
  Variable InS : slot -> Prop.
  Variable POK : payload -> Prop.

  Definition Good (d : fdict E) (s : slot) (n : string) : Prop :=
    NameOK s n /\ exists p, slookup n d = Some p /\ SemOK s p.
  Definition Ext (d d' : fdict E) : Prop := forall s n, InS s -> Good d s n -> Good d' s n.
  Definition DictOK (d : fdict E) : Prop := forall x, In x d -> POK (snd x).

  Hypothesis reg_spec : forall w s d, InS s -> ws_rel w s ->
    exists n, register E same_fn rm (fst w) (snd w) d = (n, sdset n (snd w) d)
              /\ NameOK s n /\ POK (snd w)
              /\ (forall s0, InS s0 -> Good d s0 n -> SemOK s0 (snd w)).

  Lemma Ext_refl d : Ext d d.
  Proof. intros s n _ H. exact H. Qed.
  Lemma Ext_trans d1 d2 d3 : Ext d1 d2 -> Ext d2 d3 -> Ext d1 d3.
  Proof. intros H1 H2 s n Hs H. apply H2; [exact Hs|]. apply H1; assumption. Qed.

  Lemma reg_step k e a f d :
    InS (mkSlot k f a) -> translate f a = Some e ->
    exists n d1, register E same_fn rm k (e, a) d = (n, d1)
                 /\ Good d1 (mkSlot k f a) n /\ Ext d d1 /\ (DictOK d -> DictOK d1).
  Proof.
    intros Hin Ht.
    destruct (reg_spec (k, (e, a)) (mkSlot k f a) d Hin) as [n [Hreg [Hname [Hpok Hstab]]]].
    { split; [reflexivity|split; [reflexivity|exact Ht]]. }
    cbn [fst snd] in *. exists n, (sdset n (e, a) d). split; [exact Hreg|]. split; [|split].
    - split; [exact Hname|]. exists (e, a). split; [rewrite slookup_sdset, String.eqb_refl; reflexivity|].
      apply (ws_SemOK (k, (e, a)) (mkSlot k f a)). split; [reflexivity|split; [reflexivity|exact Ht]].
    - intros s0 n0 Hs0 [Hn0 [p0 [Hl0 Hsem0]]]. split; [exact Hn0|].
      rewrite slookup_sdset. destruct (String.eqb n0 n) eqn:E0.
      + apply String.eqb_eq in E0. subst n0. exists (e, a). split; [reflexivity|].
        apply Hstab; [exact Hs0|]. split; [exact Hn0|]. exists p0. split; assumption.
      + exists p0. split; assumption.
    - intros Hd x Hx. apply sdset_In in Hx. destruct Hx as [Hx|Hx]; [subst x; exact Hpok|exact (Hd x Hx)].
  Qed.

  (** what the emitted chain says about a component, relative to the FINAL dict [D] *)
  Definition valref_ok (D : fdict E) (ks : key_scheme) (kv : name * valia) (vr : valref) : Prop :=
    match snd kv with
    | Plain z => vr = VNum z
    | IA f a => exists n, vr = VInit n a /\ Good D (mkSlot (key_of nstr ks (fst kv) (fname f)) f a) n
    end.
  Definition var_op_ok D ks (kv : name * valia) (op : addop) : Prop :=
    exists vr, op = AddVariable (fst kv) vr /\ valref_ok D ks kv vr.
  Definition par_op_ok D ks (kv : name * valia) (op : addop) : Prop :=
    exists vr, op = AddParameter (fst kv) vr /\ valref_ok D ks kv vr.
  Definition der_op_ok D ks (kv : name * derived) (op : addop) : Prop :=
    exists n, op = AddDerived (fst kv) n (d_args (snd kv))
              /\ Good D (mkSlot (key_of nstr ks (fst kv) (fname (d_fn (snd kv)))) (d_fn (snd kv)) (d_args (snd kv))) n.
  Definition coefref_ok D ks (k : name) (kc : name * coef) (cr : name * coefref) : Prop :=
    fst cr = fst kc /\
    match snd kc with
    | CStat q => snd cr = CNum q
    | CDyn f a => exists n, snd cr = CDerRef n a /\ Good D (mkSlot (key_of nstr ks k (fname f)) f a) n
    end.
  Definition rxn_op_ok D ksr kss (kv : name * reaction) (op : addop) : Prop :=
    exists n sto, op = AddReaction (fst kv) n (r_args (snd kv)) sto
      /\ Good D (mkSlot (key_of nstr ksr (fst kv) (fname (r_fn (snd kv)))) (r_fn (snd kv)) (r_args (snd kv))) n
      /\ Forall2 (coefref_ok D kss (fst kv)) (r_st (snd kv)) sto.

  Lemma gen_variables_ok ks : forall l sl,
    sym_values E fname translate l = Some sl ->
    (forall s, In s (val_slots nstr fname ks l) -> InS s) ->
    forall d, exists ops d', gen_variables E nstr same_fn rm ks sl d = (ops, d')
      /\ Ext d d' /\ (DictOK d -> DictOK d')
      /\ forall D, Ext d' D -> Forall2 (var_op_ok D ks) l ops.
  Proof.
    induction l as [|[k v] r IH]; intros sl Hs Hin d; simpl in Hs.
    - inversion Hs; subst. exists [], d. split; [reflexivity|]. split; [apply Ext_refl|]. split; [tauto|]. constructor.
    - destruct (sym_value E fname translate v) as [s|] eqn:Hv; [|discriminate].
      destruct (sym_values E fname translate r) as [sr|] eqn:Hr; [|discriminate].
      inversion Hs; subst sl; clear Hs.
      destruct v as [z|f a]; simpl in Hv.
      + inversion Hv; subst s; clear Hv.
        destruct (IH _ eq_refl (fun s Hs => Hin s Hs) d) as [ops [d' [Hg [He [Hd Hok]]]]].
        exists (AddVariable k (VNum z) :: ops), d'. cbn [gen_variables codegen_value]. rewrite Hg.
        split; [reflexivity|]. split; [exact He|]. split; [exact Hd|]. intros D HD.
        constructor; [|exact (Hok D HD)]. exists (VNum z). split; reflexivity.
      + unfold fn_to_symbolic_repr in Hv. destruct (translate f a) as [e|] eqn:Ht; [|discriminate].
        inversion Hv; subst s; clear Hv.
        destruct (reg_step (key_of nstr ks k (fname f)) e a f d) as [n [d1 [Hreg [Hgood [He1 Hd1]]]]];
          [apply Hin; cbn; left; reflexivity|exact Ht|].
        destruct (IH _ eq_refl (fun s Hs => Hin s (or_intror Hs)) d1) as [ops [d' [Hg [He [Hd Hok]]]]].
        exists (AddVariable k (VInit n a) :: ops), d'.
        cbn [gen_variables codegen_value sf_name sf_expr sf_args]. rewrite Hreg, Hg.
        split; [reflexivity|]. split; [exact (Ext_trans _ _ _ He1 He)|]. split; [tauto|]. intros D HD.
        constructor; [|exact (Hok D HD)]. exists (VInit n a). split; [reflexivity|].
        cbn. exists n. split; [reflexivity|]. apply HD; [apply Hin; cbn; left; reflexivity|].
        apply He; [apply Hin; cbn; left; reflexivity|exact Hgood].
  Qed.

  Lemma gen_parameters_ok ks : forall l sl,
    sym_values E fname translate l = Some sl ->
    (forall s, In s (val_slots nstr fname ks l) -> InS s) ->
    forall d, exists ops d', gen_parameters E nstr same_fn rm ks sl d = (ops, d')
      /\ Ext d d' /\ (DictOK d -> DictOK d')
      /\ forall D, Ext d' D -> Forall2 (par_op_ok D ks) l ops.
  Proof.
    induction l as [|[k v] r IH]; intros sl Hs Hin d; simpl in Hs.
    - inversion Hs; subst. exists [], d. split; [reflexivity|]. split; [apply Ext_refl|]. split; [tauto|]. constructor.
    - destruct (sym_value E fname translate v) as [s|] eqn:Hv; [|discriminate].
      destruct (sym_values E fname translate r) as [sr|] eqn:Hr; [|discriminate].
      inversion Hs; subst sl; clear Hs.
      destruct v as [z|f a]; simpl in Hv.
      + inversion Hv; subst s; clear Hv.
        destruct (IH _ eq_refl (fun s Hs => Hin s Hs) d) as [ops [d' [Hg [He [Hd Hok]]]]].
        exists (AddParameter k (VNum z) :: ops), d'. cbn [gen_parameters codegen_value]. rewrite Hg.
        split; [reflexivity|]. split; [exact He|]. split; [exact Hd|]. intros D HD.
        constructor; [|exact (Hok D HD)]. exists (VNum z). split; reflexivity.
      + unfold fn_to_symbolic_repr in Hv. destruct (translate f a) as [e|] eqn:Ht; [|discriminate].
        inversion Hv; subst s; clear Hv.
        destruct (reg_step (key_of nstr ks k (fname f)) e a f d) as [n [d1 [Hreg [Hgood [He1 Hd1]]]]];
          [apply Hin; cbn; left; reflexivity|exact Ht|].
        destruct (IH _ eq_refl (fun s Hs => Hin s (or_intror Hs)) d1) as [ops [d' [Hg [He [Hd Hok]]]]].
        exists (AddParameter k (VInit n a) :: ops), d'.
        cbn [gen_parameters codegen_value sf_name sf_expr sf_args]. rewrite Hreg, Hg.
        split; [reflexivity|]. split; [exact (Ext_trans _ _ _ He1 He)|]. split; [tauto|]. intros D HD.
        constructor; [|exact (Hok D HD)]. exists (VInit n a). split; [reflexivity|].
        cbn. exists n. split; [reflexivity|]. apply HD; [apply Hin; cbn; left; reflexivity|].
        apply He; [apply Hin; cbn; left; reflexivity|exact Hgood].
  Qed.

  Lemma gen_derived_ok ks : forall l sl,
    sym_derived E fname translate l = Some sl ->
    (forall s, In s (der_slots nstr fname ks l) -> InS s) ->
    forall d, exists ops d', gen_derived E nstr same_fn rm ks sl d = (ops, d')
      /\ Ext d d' /\ (DictOK d -> DictOK d')
      /\ forall D, Ext d' D -> Forall2 (der_op_ok D ks) l ops.
  Proof.
    induction l as [|[k [f a]] r IH]; intros sl Hs Hin d; simpl in Hs.
    - inversion Hs; subst. exists [], d. split; [reflexivity|]. split; [apply Ext_refl|]. split; [tauto|]. constructor.
    - unfold fn_to_symbolic_repr in Hs. destruct (translate f a) as [e|] eqn:Ht; [|discriminate].
      destruct (sym_derived E fname translate r) as [sr|] eqn:Hr; [|discriminate].
      inversion Hs; subst sl; clear Hs.
      destruct (reg_step (key_of nstr ks k (fname f)) e a f d) as [n [d1 [Hreg [Hgood [He1 Hd1]]]]];
        [apply Hin; cbn; left; reflexivity|exact Ht|].
      destruct (IH _ eq_refl (fun s Hs => Hin s (or_intror Hs)) d1) as [ops [d' [Hg [He [Hd Hok]]]]].
      exists (AddDerived k n a :: ops), d'.
      cbn [gen_derived sf_name sf_expr sf_args]. rewrite Hreg, Hg.
      split; [reflexivity|]. split; [exact (Ext_trans _ _ _ He1 He)|]. split; [tauto|]. intros D HD.
      constructor; [|exact (Hok D HD)]. exists n. split; [reflexivity|].
      cbn. apply HD; [apply Hin; cbn; left; reflexivity|].
      apply He; [apply Hin; cbn; left; reflexivity|exact Hgood].
  Qed.

  Lemma gen_stoich_ok ks k : forall st sst,
    sym_stoich E fname translate st = Some sst ->
    (forall s, In s (sto_slots nstr fname ks k st) -> InS s) ->
    forall d, exists refs d', gen_stoich E nstr same_fn rm ks k sst d = (refs, d')
      /\ Ext d d' /\ (DictOK d -> DictOK d')
      /\ forall D, Ext d' D -> Forall2 (coefref_ok D ks k) st refs.
  Proof.
    induction st as [|[c v] r IH]; intros sst Hs Hin d; simpl in Hs.
    - inversion Hs; subst. exists [], d. split; [reflexivity|]. split; [apply Ext_refl|]. split; [tauto|]. constructor.
    - destruct (sym_coef E fname translate v) as [sc|] eqn:Hv; [|discriminate].
      destruct (sym_stoich E fname translate r) as [sr|] eqn:Hr; [|discriminate].
      inversion Hs; subst sst; clear Hs.
      destruct v as [q|f a]; simpl in Hv.
      + inversion Hv; subst sc; clear Hv.
        destruct (IH _ eq_refl (fun s Hs => Hin s Hs) d) as [refs [d' [Hg [He [Hd Hok]]]]].
        exists ((c, CNum q) :: refs), d'. cbn [gen_stoich]. rewrite Hg.
        split; [reflexivity|]. split; [exact He|]. split; [exact Hd|]. intros D HD.
        constructor; [|exact (Hok D HD)]. split; reflexivity.
      + unfold fn_to_symbolic_repr in Hv. destruct (translate f a) as [e|] eqn:Ht; [|discriminate].
        inversion Hv; subst sc; clear Hv.
        destruct (reg_step (key_of nstr ks k (fname f)) e a f d) as [n [d1 [Hreg [Hgood [He1 Hd1]]]]];
          [apply Hin; cbn; left; reflexivity|exact Ht|].
        destruct (IH _ eq_refl (fun s Hs => Hin s (or_intror Hs)) d1) as [refs [d' [Hg [He [Hd Hok]]]]].
        exists ((c, CDerRef n a) :: refs), d'.
        cbn [gen_stoich sf_name sf_expr sf_args]. rewrite Hreg, Hg.
        split; [reflexivity|]. split; [exact (Ext_trans _ _ _ He1 He)|]. split; [tauto|]. intros D HD.
        constructor; [|exact (Hok D HD)]. split; [reflexivity|].
        cbn. exists n. split; [reflexivity|]. apply HD; [apply Hin; cbn; left; reflexivity|].
        apply He; [apply Hin; cbn; left; reflexivity|exact Hgood].
  Qed.

  Lemma gen_reactions_ok ksr kss : forall l sl,
    sym_reactions E fname translate l = Some sl ->
    (forall s, In s (rxn_slots nstr fname ksr kss l) -> InS s) ->
    forall d, exists ops d', gen_reactions E nstr same_fn rm ksr kss sl d = (ops, d')
      /\ Ext d d' /\ (DictOK d -> DictOK d')
      /\ forall D, Ext d' D -> Forall2 (rxn_op_ok D ksr kss) l ops.
  Proof.
    induction l as [|[k [f a st]] r IH]; intros sl Hs Hin d; simpl in Hs.
    - inversion Hs; subst. exists [], d. split; [reflexivity|]. split; [apply Ext_refl|]. split; [tauto|]. constructor.
    - unfold fn_to_symbolic_repr in Hs. destruct (translate f a) as [e|] eqn:Ht; [|discriminate].
      destruct (sym_stoich E fname translate st) as [sst|] eqn:Hst; [|discriminate].
      destruct (sym_reactions E fname translate r) as [sr|] eqn:Hr; [|discriminate].
      inversion Hs; subst sl; clear Hs.
      destruct (reg_step (key_of nstr ksr k (fname f)) e a f d) as [n [d1 [Hreg [Hgood [He1 Hd1]]]]];
        [apply Hin; cbn; left; reflexivity|exact Ht|].
      destruct (gen_stoich_ok kss k st sst Hst) with (d := d1) as [refs [d2 [Hgs [He2 [Hd2 Hoks]]]]].
      { intros s Hs. apply Hin. cbn. right. apply in_or_app. left. exact Hs. }
      destruct (IH _ eq_refl (fun s Hs => Hin s (or_intror (in_or_app _ _ _ (or_intror Hs)))) d2)
        as [ops [d' [Hg [He [Hd Hok]]]]].
      exists (AddReaction k n a refs :: ops), d'.
      cbn [gen_reactions sr_fn sr_st sf_name sf_expr sf_args]. rewrite Hreg, Hgs, Hg.
      split; [reflexivity|]. split; [exact (Ext_trans _ _ _ He1 (Ext_trans _ _ _ He2 He))|]. split; [tauto|].
      intros D HD. constructor; [|exact (Hok D HD)].
      exists n, refs. split; [reflexivity|]. split.
      + cbn. apply HD; [apply Hin; cbn; left; reflexivity|].
        apply He; [apply Hin; cbn; left; reflexivity|].
        apply He2; [apply Hin; cbn; left; reflexivity|exact Hgood].
      + apply Hoks. exact (Ext_trans _ _ _ He HD).
  Qed.

  (** ---- running the builder chain -------------------------------------------------------- *)

  Definition fresh (ks ids : list name) : Prop :=
    NoDup ks /\ forall k, In k ks -> ~ In k ids /\ k <> time_name.

  Lemma insert_id_ok k ids : ~ In k ids -> k <> time_name -> insert_id k ids = Built (k :: ids).
  Proof.
    intros H1 H2. unfold insert_id.
    destruct (N.eqb k time_name) eqn:E0; [apply N.eqb_eq in E0; contradiction|].
    apply memN_false in H1. rewrite H1. reflexivity.
  Qed.

  Lemma fresh_tail k r ids : fresh (k :: r) ids -> ~ In k ids /\ k <> time_name /\ fresh r (k :: ids).
  Proof.
    intros [Hnd Hf]. inversion Hnd as [|x l Hnk Hndr]; subst.
    destruct (Hf k (or_introl eq_refl)) as [Ha Hb]. split; [exact Ha|split; [exact Hb|]].
    split; [exact Hndr|]. intros k' Hk'. destruct (Hf k' (or_intror Hk')) as [Hc Hd].
    split; [|exact Hd]. intros [He|He]; [subst; contradiction|contradiction].
  Qed.

  Section Exec.
  Variable D : fdict E.

  Lemma Good_resolve s n : Good D s n ->
    exists f', resolve E D n = Built f' /\ frel D (sl_args s) (sl_fn s) f'.
  Proof.
    intros [_ [p [Hl Hsem]]]. destruct (slookup_sfind _ _ _ Hl) as [i [Hi Hn]].
    exists (N.of_nat (S i)). split; [unfold resolve; rewrite Hi; reflexivity|].
    intros en vs Hvs. rewrite fsem_gen_S, Hn. destruct p as [b ps]. symmetry. exact (Hsem en vs Hvs).
  Qed.

  Definition set_var (m : model) (v : list (name * valia)) : model :=
    mkModel (m_par m) v (m_der m) (m_rxn m) (m_sur m) (m_ro m) (m_dat m).
  Definition set_par (m : model) (v : list (name * valia)) : model :=
    mkModel v (m_var m) (m_der m) (m_rxn m) (m_sur m) (m_ro m) (m_dat m).
  Definition set_der (m : model) (v : list (name * derived)) : model :=
    mkModel (m_par m) (m_var m) v (m_rxn m) (m_sur m) (m_ro m) (m_dat m).
  Definition set_rxn (m : model) (v : list (name * reaction)) : model :=
    mkModel (m_par m) (m_var m) (m_der m) v (m_sur m) (m_ro m) (m_dat m).

  Lemma exec_vars ks : forall l ops, Forall2 (var_op_ok D ks) l ops ->
    forall ids m0, fresh (keys l) ids ->
    exists vs', exec_ops E D ops (ids, m0) = Built (rev (keys l) ++ ids, set_var m0 (m_var m0 ++ vs'))
                /\ Forall2 (val_rel (frel D)) l vs'.
  Proof.
    induction 1 as [|[k v] op r ops [vr [Hop Hvr]] _ IH]; intros ids m0 Hf.
    - exists []. split; [|constructor]. cbn. unfold set_var. rewrite app_nil_r. destruct m0; reflexivity.
    - cbn [keys map fst] in Hf. apply fresh_tail in Hf. destruct Hf as [Hk1 [Hk2 Hf]].
      cbn [fst] in Hop. subst op. unfold valref_ok in Hvr. cbn [fst snd] in Hvr.
      destruct v as [z|f a].
      + subst vr.
        destruct (IH (k :: ids) (set_var m0 (m_var m0 ++ [(k, Plain z)])) Hf) as [vs' [Hex Hrel]].
        exists ((k, Plain z) :: vs'). split.
        * cbn [exec_ops exec_op resolve_val obind].
          rewrite (insert_id_ok _ _ Hk1 Hk2). cbn [obind].
          fold (set_var m0 (m_var m0 ++ [(k, Plain z)])). rewrite Hex.
          cbn [keys map fst rev]. unfold set_var; cbn [m_par m_var m_der m_rxn m_sur m_ro m_dat].
          rewrite <- !app_assoc. reflexivity.
        * constructor; [split; reflexivity|exact Hrel].
      + destruct Hvr as [n [-> Hgood]]. destruct (Good_resolve _ _ Hgood) as [f' [Hres HR]].
        cbn [sl_args sl_fn] in HR.
        destruct (IH (k :: ids) (set_var m0 (m_var m0 ++ [(k, IA f' a)])) Hf) as [vs' [Hex Hrel]].
        exists ((k, IA f' a) :: vs'). split.
        * cbn [exec_ops exec_op resolve_val obind]. rewrite Hres. cbn [obind].
          rewrite (insert_id_ok _ _ Hk1 Hk2). cbn [obind].
          fold (set_var m0 (m_var m0 ++ [(k, IA f' a)])). rewrite Hex.
          cbn [keys map fst rev]. unfold set_var; cbn [m_par m_var m_der m_rxn m_sur m_ro m_dat].
          rewrite <- !app_assoc. reflexivity.
        * constructor; [split; [reflexivity|split; [exact HR|reflexivity]]|exact Hrel].
  Qed.

  Lemma exec_pars ks : forall l ops, Forall2 (par_op_ok D ks) l ops ->
    forall ids m0, fresh (keys l) ids ->
    exists vs', exec_ops E D ops (ids, m0) = Built (rev (keys l) ++ ids, set_par m0 (m_par m0 ++ vs'))
                /\ Forall2 (val_rel (frel D)) l vs'.
  Proof.
    induction 1 as [|[k v] op r ops [vr [Hop Hvr]] _ IH]; intros ids m0 Hf.
    - exists []. split; [|constructor]. cbn. unfold set_par. rewrite app_nil_r. destruct m0; reflexivity.
    - cbn [keys map fst] in Hf. apply fresh_tail in Hf. destruct Hf as [Hk1 [Hk2 Hf]].
      cbn [fst] in Hop. subst op. unfold valref_ok in Hvr. cbn [fst snd] in Hvr.
      destruct v as [z|f a].
      + subst vr.
        destruct (IH (k :: ids) (set_par m0 (m_par m0 ++ [(k, Plain z)])) Hf) as [vs' [Hex Hrel]].
        exists ((k, Plain z) :: vs'). split.
        * cbn [exec_ops exec_op resolve_val obind].
          rewrite (insert_id_ok _ _ Hk1 Hk2). cbn [obind].
          fold (set_par m0 (m_par m0 ++ [(k, Plain z)])). rewrite Hex.
          cbn [keys map fst rev]. unfold set_par; cbn [m_par m_var m_der m_rxn m_sur m_ro m_dat].
          rewrite <- !app_assoc. reflexivity.
        * constructor; [split; reflexivity|exact Hrel].
      + destruct Hvr as [n [-> Hgood]]. destruct (Good_resolve _ _ Hgood) as [f' [Hres HR]].
        cbn [sl_args sl_fn] in HR.
        destruct (IH (k :: ids) (set_par m0 (m_par m0 ++ [(k, IA f' a)])) Hf) as [vs' [Hex Hrel]].
        exists ((k, IA f' a) :: vs'). split.
        * cbn [exec_ops exec_op resolve_val obind]. rewrite Hres. cbn [obind].
          rewrite (insert_id_ok _ _ Hk1 Hk2). cbn [obind].
          fold (set_par m0 (m_par m0 ++ [(k, IA f' a)])). rewrite Hex.
          cbn [keys map fst rev]. unfold set_par; cbn [m_par m_var m_der m_rxn m_sur m_ro m_dat].
          rewrite <- !app_assoc. reflexivity.
        * constructor; [split; [reflexivity|split; [exact HR|reflexivity]]|exact Hrel].
  Qed.

  Lemma exec_ders ks : forall l ops, Forall2 (der_op_ok D ks) l ops ->
    forall ids m0, fresh (keys l) ids ->
    exists ds', exec_ops E D ops (ids, m0) = Built (rev (keys l) ++ ids, set_der m0 (m_der m0 ++ ds'))
                /\ Forall2 (der_rel (frel D)) l ds'.
  Proof.
    induction 1 as [|[k [f a]] op r ops [n [Hop Hgood]] _ IH]; intros ids m0 Hf.
    - exists []. split; [|constructor]. cbn. unfold set_der. rewrite app_nil_r. destruct m0; reflexivity.
    - cbn [keys map fst] in Hf. apply fresh_tail in Hf. destruct Hf as [Hk1 [Hk2 Hf]].
      cbn [fst snd d_fn d_args] in Hop, Hgood. subst op.
      destruct (Good_resolve _ _ Hgood) as [f' [Hres HR]]. cbn [sl_args sl_fn] in HR.
      destruct (IH (k :: ids) (set_der m0 (m_der m0 ++ [(k, mkDer f' a)])) Hf) as [ds' [Hex Hrel]].
      exists ((k, mkDer f' a) :: ds'). split.
      + cbn [exec_ops exec_op obind]. rewrite Hres. cbn [obind].
        rewrite (insert_id_ok _ _ Hk1 Hk2). cbn [obind].
        fold (set_der m0 (m_der m0 ++ [(k, mkDer f' a)])). rewrite Hex.
        cbn [keys map fst rev]. unfold set_der; cbn [m_par m_var m_der m_rxn m_sur m_ro m_dat].
        rewrite <- !app_assoc. reflexivity.
      + constructor; [split; [reflexivity|split; [exact HR|reflexivity]]|exact Hrel].
  Qed.

  Lemma resolve_stoich_ok ks k : forall st refs, Forall2 (coefref_ok D ks k) st refs ->
    exists st', resolve_stoich E D refs = Built st' /\ Forall2 (coef_rel (frel D)) st st'.
  Proof.
    induction 1 as [|[c v] [c' cr] r refs [Hc Hcr] _ IH].
    - exists []. split; [reflexivity|constructor].
    - cbn [fst snd] in Hc, Hcr. subst c'. destruct IH as [st' [Hex Hrel]].
      destruct v as [q|f a].
      + subst cr. exists ((c, CStat q) :: st'). split.
        * cbn [resolve_stoich resolve_coef obind]. rewrite Hex. reflexivity.
        * constructor; [split; reflexivity|exact Hrel].
      + destruct Hcr as [n [-> Hgood]]. destruct (Good_resolve _ _ Hgood) as [f' [Hres HR]].
        cbn [sl_args sl_fn] in HR.
        exists ((c, CDyn f' a) :: st'). split.
        * cbn [resolve_stoich resolve_coef obind]. rewrite Hres. cbn [obind]. rewrite Hex. reflexivity.
        * constructor; [split; [reflexivity|split; [exact HR|reflexivity]]|exact Hrel].
  Qed.

  Lemma exec_rxns ksr kss : forall l ops, Forall2 (rxn_op_ok D ksr kss) l ops ->
    forall ids m0, fresh (keys l) ids ->
    exists rs', exec_ops E D ops (ids, m0) = Built (rev (keys l) ++ ids, set_rxn m0 (m_rxn m0 ++ rs'))
                /\ Forall2 (rxn_rel (frel D)) l rs'.
  Proof.
    induction 1 as [|[k [f a st]] op r ops [n [sto [Hop [Hgood Hsto]]]] _ IH]; intros ids m0 Hf.
    - exists []. split; [|constructor]. cbn. unfold set_rxn. rewrite app_nil_r. destruct m0; reflexivity.
    - cbn [keys map fst] in Hf. apply fresh_tail in Hf. destruct Hf as [Hk1 [Hk2 Hf]].
      cbn [fst snd r_fn r_args r_st] in Hop, Hgood, Hsto. subst op.
      destruct (Good_resolve _ _ Hgood) as [f' [Hres HR]]. cbn [sl_args sl_fn] in HR.
      destruct (resolve_stoich_ok kss k st sto Hsto) as [st' [Hsres Hstrel]].
      destruct (IH (k :: ids) (set_rxn m0 (m_rxn m0 ++ [(k, mkRxn f' a st')])) Hf) as [rs' [Hex Hrel]].
      exists ((k, mkRxn f' a st') :: rs'). split.
      + cbn [exec_ops exec_op obind]. rewrite Hres. cbn [obind]. rewrite Hsres. cbn [obind].
        rewrite (insert_id_ok _ _ Hk1 Hk2). cbn [obind].
        fold (set_rxn m0 (m_rxn m0 ++ [(k, mkRxn f' a st')])). rewrite Hex.
        cbn [keys map fst rev]. unfold set_rxn; cbn [m_par m_var m_der m_rxn m_sur m_ro m_dat].
        rewrite <- !app_assoc. reflexivity.
      + constructor; [|exact Hrel].
        split; [reflexivity|split; [exact HR|split; [reflexivity|exact Hstrel]]].
  Qed.
  End Exec.

  Lemma NoDup_app_disjoint {A} (a b : list A) x : NoDup (a ++ b) -> In x a -> In x b -> False.
  Proof.
    induction a as [|y a IH]; simpl; [intros _ []|].
    intros Hnd [Hx|Hx] Hb; inversion Hnd as [|z l Hn Hr]; subst.
    - apply Hn. apply in_or_app. right. exact Hb.
    - exact (IH Hr Hx Hb).
  Qed.

  Lemma NoDup_app_l {A} (a b : list A) : NoDup (a ++ b) -> NoDup a.
  Proof.
    induction a as [|y a IH]; simpl; intros Hnd; [constructor|].
    inversion Hnd as [|z l Hn Hr]; subst. constructor.
    - intro Hy. apply Hn. apply in_or_app. left. exact Hy.
    - exact (IH Hr).
  Qed.

  Lemma NoDup_app_r {A} (a b : list A) : NoDup (a ++ b) -> NoDup b.
  Proof.
    induction a as [|y a IH]; simpl; intros Hnd; [exact Hnd|].
    inversion Hnd as [|z l Hn Hr]; subst. exact (IH Hr).
  Qed.

  Lemma fresh_seq a b ids : fresh (a ++ b) ids -> fresh a ids /\ fresh b (rev a ++ ids).
  Proof.
    intros [Hnd Hf]. split; split.
    - exact (NoDup_app_l _ _ Hnd).
    - intros k Hk. apply Hf. apply in_or_app. left. exact Hk.
    - exact (NoDup_app_r _ _ Hnd).
    - intros k Hk. destruct (Hf k (in_or_app _ _ _ (or_intror Hk))) as [H1 H2]. split; [|exact H2].
      intros Hin. apply in_app_or in Hin. destruct Hin as [Hin|Hin]; [|contradiction].
      apply in_rev in Hin. exact (NoDup_app_disjoint _ _ _ Hnd Hin Hk).
  Qed.

  (** the structural round trip, for any way of storing definitions that meets [reg_spec] *)
  Lemma roundtrip_struct F m c :
    gf_register F = rm ->
    (forall s, In s (slots nstr fname F m) -> InS s) ->
    (forall d, DictOK d -> (c_renamed (generate_from_symrepr E nstr same_fn F (mkSymRepr [] [] [] [])) || defs_compile E d) = true) ->
    UniqueIds m ->
    generate E nstr fname translate same_fn F m = Some c ->
    exists m', exec_code E c = Built m' /\ model_rel (frel (c_defs c)) m m'.
  Proof.
    intros Hrm Hin Hcomp [Hnd Htime] Hgen. unfold generate in Hgen.
    destruct (to_symbolic_repr E fname translate m) as [sym|] eqn:Hsym; [|discriminate].
    inversion Hgen; subst c; clear Hgen.
    unfold to_symbolic_repr in Hsym.
    destruct (sym_values E fname translate (m_var m)) as [vs|] eqn:H1; [|discriminate].
    destruct (sym_values E fname translate (m_par m)) as [ps|] eqn:H2; [|discriminate].
    destruct (sym_derived E fname translate (m_der m)) as [ds|] eqn:H3; [|discriminate].
    destruct (sym_reactions E fname translate (m_rxn m)) as [rs|] eqn:H4; [|discriminate].
    inversion Hsym; subst sym; clear Hsym.
    unfold slots in Hin.
    destruct (gen_variables_ok (gf_var_key F) _ _ H1) with (d := @nil (string * (E * list name))) as [o1 [d1 [Hg1 [He1 [Hd1 Hok1]]]]];
      [intros s Hs; apply Hin; apply in_or_app; left; exact Hs|].
    destruct (gen_parameters_ok (gf_par_key F) _ _ H2) with (d := d1) as [o2 [d2 [Hg2 [He2 [Hd2 Hok2]]]]];
      [intros s Hs; apply Hin; apply in_or_app; right; apply in_or_app; left; exact Hs|].
    destruct (gen_derived_ok (gf_der_key F) _ _ H3) with (d := d2) as [o3 [d3 [Hg3 [He3 [Hd3 Hok3]]]]];
      [intros s Hs; apply Hin; apply in_or_app; right; apply in_or_app; right; apply in_or_app; left; exact Hs|].
    destruct (gen_reactions_ok (gf_rxn_key F) (gf_sto_key F) _ _ H4) with (d := d3) as [o4 [d4 [Hg4 [He4 [Hd4 Hok4]]]]];
      [intros s Hs; apply Hin; apply in_or_app; right; apply in_or_app; right; apply in_or_app; right; exact Hs|].
    assert (Hcode : generate_from_symrepr E nstr same_fn F (mkSymRepr vs ps ds rs) =
                    mkCode d4 (o1 ++ o2 ++ o3 ++ o4) (match gf_register F with RegFresh => true | _ => false end)).
    { unfold generate_from_symrepr. cbv zeta. cbn [sy_var sy_par sy_der sy_rxn]. rewrite Hrm, Hg1, Hg2, Hg3, Hg4. reflexivity. }
    rewrite Hcode. cbn [c_defs].
    pose proof (Hok1 d4 (Ext_trans _ _ _ He2 (Ext_trans _ _ _ He3 He4))) as Hv.
    pose proof (Hok2 d4 (Ext_trans _ _ _ He3 He4)) as Hp.
    pose proof (Hok3 d4 He4) as Hd.
    pose proof (Hok4 d4 (Ext_refl _)) as Hr.
    assert (Hfr : fresh (all_ids m) []).
    { split; [exact Hnd|]. intros k Hk. split; [intros []|]. intro; subst. contradiction. }
    unfold all_ids in Hfr.
    apply fresh_seq in Hfr. destruct Hfr as [Hf1 Hfr].
    apply fresh_seq in Hfr. destruct Hfr as [Hf2 Hfr].
    apply fresh_seq in Hfr. destruct Hfr as [Hf3 Hf4].
    destruct (exec_vars d4 _ _ _ Hv [] empty_model Hf1) as [vs' [Hx1 Hr1]].
    destruct (exec_pars d4 _ _ _ Hp _ (set_var empty_model (m_var empty_model ++ vs')) Hf2) as [ps' [Hx2 Hr2]].
    match type of Hx2 with _ = Built (?i, ?mm) => set (ids2 := i) in *; set (m2 := mm) in * end.
    destruct (exec_ders d4 _ _ _ Hd ids2 m2 Hf3) as [ds' [Hx3 Hr3]].
    match type of Hx3 with _ = Built (?i, ?mm) => set (ids3 := i) in *; set (m3 := mm) in * end.
    destruct (exec_rxns d4 _ _ _ _ Hr ids3 m3 Hf4) as [rs' [Hx4 Hr4]].
    eexists. split.
    - unfold exec_code. cbn [c_defs c_ops c_renamed].
      assert (Hc : ((match gf_register F with RegFresh => true | _ => false end) || defs_compile E d4) = true).
      { specialize (Hcomp d4). unfold generate_from_symrepr in Hcomp. cbn in Hcomp. apply Hcomp.
        apply Hd4, Hd3, Hd2, Hd1. intros x []. }
      rewrite Hc. cbn [negb].
      rewrite exec_ops_app, Hx1. cbn [obind]. rewrite exec_ops_app, Hx2. cbn [obind].
      rewrite exec_ops_app, Hx3. cbn [obind]. rewrite Hx4. cbn [obind snd]. reflexivity.
    - subst m3 m2. unfold model_rel, set_rxn, set_der, set_par, set_var, empty_model.
      cbn [m_par m_var m_der m_rxn m_sur m_ro m_dat app].
      repeat split; assumption.
  Qed.
  End Alloc.

  (** ---- the two ways of storing definitions -------------------------------------------------- *)

  (** the snapshot: [functions[key] = ...], last writer wins *)
  Lemma roundtrip_overwrite (arity : fnid -> nat) F m c :
    gf_register F = RegOverwrite ->
    (forall f margs e, translate f margs = Some e -> length margs = arity f) ->
    (forall f vs, length vs <> arity f -> fsem f vs = None) ->
    UniqueIds m ->
    (forall s, In s (slots nstr fname F m) -> NoDup (sl_args s)) ->
    (forall s1 s2, In s1 (slots nstr fname F m) -> In s2 (slots nstr fname F m) ->
                   sl_key s1 = sl_key s2 -> forall vs, fsem (sl_fn s1) vs = fsem (sl_fn s2) vs) ->
    generate E nstr fname translate same_fn F m = Some c ->
    exists m', exec_code E c = Built m' /\ model_rel (frel (c_defs c)) m m'.
  Proof.
    intros Hrm Har Hfa Hu Hargs Hndf Hgen.
    apply (roundtrip_struct RegOverwrite (fun s n => n = sl_key s) (fun s => In s (slots nstr fname F m))
                            (fun p => NoDup (snd p))) with (F := F) (m := m); try assumption.
    - (* reg_spec *)
      intros [k [e a]] s d Hs [Hk [Ha Ht]]. cbn [fst snd] in *. subst k a.
      exists (sl_key s). split; [reflexivity|]. split; [reflexivity|]. split; [exact (Hargs s Hs)|].
      intros s0 Hs0 [Hn0 _] en vs _. cbn [fst snd].
      rewrite (defsem_sound arity _ _ _ Har Hfa Ht (Hargs s Hs)).
      symmetry. apply Hndf; [exact Hs0|exact Hs|symmetry; exact Hn0].
    - intros s Hs. exact Hs.
    - intros d Hd. cbn. rewrite Hrm. cbn. unfold defs_compile. apply forallb_forall. intros x Hx.
      apply nodupN_true. exact (Hd x Hx).
  Qed.

  (** the repaired generator: [_register_fn] / [_parameter_names] *)
  Lemma roundtrip_fresh F m c :
    gf_register F = RegFresh ->
    (forall q p, same_fn q p = true -> forall vs, defsem E eval (fst q) (snd q) vs = defsem E eval (fst p) (snd p) vs) ->
    UniqueIds m ->
    generate E nstr fname translate same_fn F m = Some c ->
    exists m', exec_code E c = Built m' /\ model_rel (frel (c_defs c)) m m'.
  Proof.
    intros Hrm Hsame Hu Hgen.
    apply (roundtrip_struct RegFresh (fun _ _ => True) (fun _ => True) (fun _ => True)) with (F := F) (m := m);
      try assumption; try (intros; exact I).
    - (* reg_spec *)
      intros [k p] s d _ Hws. cbn [fst snd] in *. unfold register.
      destruct (find_name E same_fn (S (length d)) k 0 p d) as [n|] eqn:Hfn;
        [|exfalso; exact (find_name_total E same_fn k p d Hfn)].
      exists n. split; [reflexivity|]. split; [exact I|]. split; [exact I|].
      intros s0 _ [_ [q [Hl Hsem]]] en vs Hvs.
      destruct (find_name_some E same_fn _ _ _ _ _ _ Hfn) as [Hnone|[q' [Hl' Hs']]]; [congruence|].
      rewrite Hl in Hl'. inversion Hl'; subst q'. rewrite <- (Hsame _ _ Hs' vs). exact (Hsem en vs Hvs).
    - intros d _. cbn. rewrite Hrm. reflexivity.
  Qed.

  (** ---- from "same structure, interchangeable functions" to "same behaviour" --------------- *)

  Lemma frel_sem D a f f' : frel D a f f' ->
    forall e vs, lookups a e = Some vs -> fsem f vs = fsem_gen E eval D f' vs.
  Proof. intros H. exact H. Qed.

  Lemma rebuilt_same_behaviour fsemN SF D m m' :
    model_rel (frel D) m m' -> m_sur m = [] -> m_dat m = [] ->
    same_behaviour fsem (fsem_gen E eval D) fsemN SF m m'.
  Proof. intros H Hs Hd. exact (model_rel_same_behaviour fsem (fsem_gen E eval D) fsemN (frel D) (frel_sem D) SF m m' H Hs Hd). Qed.

  (** ---- refusal ---------------------------------------------------------------------------- *)

  Definition untranslatable (s : slot) : Prop := translate (sl_fn s) (sl_args s) = None.

  Lemma sym_values_none ks l :
    sym_values E fname translate l = None <-> Exists untranslatable (val_slots nstr fname ks l).
  Proof.
    induction l as [|[k v] r IH]; simpl.
    - split; [discriminate|intros H; inversion H].
    - destruct v as [z|f a]; simpl.
      + destruct (sym_values E fname translate r); split; intros H; try discriminate.
        * apply IH in H. discriminate.
        * apply IH. reflexivity.
        * reflexivity.
      + unfold fn_to_symbolic_repr. destruct (translate f a) eqn:Ht.
        * destruct (sym_values E fname translate r); split; intros H; try discriminate.
          -- inversion H as [? ? Hu|? ? Hu]; subst; [unfold untranslatable in Hu; cbn in Hu; congruence|].
             apply IH in Hu. discriminate.
          -- apply Exists_cons_tl. apply IH. reflexivity.
          -- reflexivity.
        * split; intros _; [|reflexivity]. apply Exists_cons_hd. exact Ht.
  Qed.

  Lemma sym_derived_none ks l :
    sym_derived E fname translate l = None <-> Exists untranslatable (der_slots nstr fname ks l).
  Proof.
    induction l as [|[k [f a]] r IH]; simpl.
    - split; [discriminate|intros H; inversion H].
    - unfold fn_to_symbolic_repr. destruct (translate f a) eqn:Ht.
      + destruct (sym_derived E fname translate r); split; intros H; try discriminate.
        * inversion H as [? ? Hu|? ? Hu]; subst; [unfold untranslatable in Hu; cbn in Hu; congruence|].
          apply IH in Hu. discriminate.
        * apply Exists_cons_tl. apply IH. reflexivity.
        * reflexivity.
      + split; intros _; [|reflexivity]. apply Exists_cons_hd. exact Ht.
  Qed.

  Lemma sym_stoich_none ks k l :
    sym_stoich E fname translate l = None <-> Exists untranslatable (sto_slots nstr fname ks k l).
  Proof.
    induction l as [|[c v] r IH]; simpl.
    - split; [discriminate|intros H; inversion H].
    - destruct v as [q|f a]; simpl.
      + destruct (sym_stoich E fname translate r); split; intros H; try discriminate.
        * apply IH in H. discriminate.
        * apply IH. reflexivity.
        * reflexivity.
      + unfold fn_to_symbolic_repr. destruct (translate f a) eqn:Ht.
        * destruct (sym_stoich E fname translate r); split; intros H; try discriminate.
          -- inversion H as [? ? Hu|? ? Hu]; subst; [unfold untranslatable in Hu; cbn in Hu; congruence|].
             apply IH in Hu. discriminate.
          -- apply Exists_cons_tl. apply IH. reflexivity.
          -- reflexivity.
        * split; intros _; [|reflexivity]. apply Exists_cons_hd. exact Ht.
  Qed.

  Lemma sym_reactions_none ksr kss l :
    sym_reactions E fname translate l = None <-> Exists untranslatable (rxn_slots nstr fname ksr kss l).
  Proof.
    induction l as [|[k [f a st]] r IH]; simpl.
    - split; [discriminate|intros H; inversion H].
    - unfold fn_to_symbolic_repr. destruct (translate f a) eqn:Ht.
      + destruct (sym_stoich E fname translate st) eqn:Hs.
        * destruct (sym_reactions E fname translate r); split; intros H; try discriminate.
          -- inversion H as [? ? Hu|? ? Hu]; subst; [unfold untranslatable in Hu; cbn in Hu; congruence|].
             apply Exists_app in Hu. destruct Hu as [Hu|Hu].
             ++ apply (sym_stoich_none kss k) in Hu. congruence.
             ++ apply IH in Hu. discriminate.
          -- apply Exists_cons_tl. apply Exists_app. right. apply IH. reflexivity.
          -- reflexivity.
        * split; intros _; [|reflexivity]. apply Exists_cons_tl. apply Exists_app. left.
          apply (sym_stoich_none kss k). exact Hs.
      + split; intros _; [|reflexivity]. apply Exists_cons_hd. exact Ht.
  Qed.

  Lemma generate_none_iff F m :
    generate E nstr fname translate same_fn F m = None <->
    exists s, In s (slots nstr fname F m) /\ translate (sl_fn s) (sl_args s) = None.
  Proof.
    rewrite <- Exists_exists. unfold generate, to_symbolic_repr, slots.
    rewrite !Exists_app.
    rewrite <- (sym_values_none (gf_var_key F)), <- (sym_values_none (gf_par_key F)),
            <- (sym_derived_none (gf_der_key F)), <- (sym_reactions_none (gf_rxn_key F) (gf_sto_key F)).
    destruct (sym_values E fname translate (m_var m)); [|tauto].
    destruct (sym_values E fname translate (m_par m)); [|tauto].
    destruct (sym_derived E fname translate (m_der m)); [|tauto].
    destruct (sym_reactions E fname translate (m_rxn m)); [|tauto].
    split; [discriminate|]. intros [H|[H|[H|H]]]; discriminate.
  Qed.

  Lemma untranslatable_raises F m :
    (exists s, In s (slots nstr fname F m) /\ translate (sl_fn s) (sl_args s) = None) ->
    roundtrip E nstr fname translate same_fn F m = GenRaises.
  Proof. intros H. apply generate_none_iff in H. unfold roundtrip. rewrite H. reflexivity. Qed.


  Lemma roundtrip_raises_iff F m :
    roundtrip E nstr fname translate same_fn F m = GenRaises <->
    exists s, In s (slots nstr fname F m) /\ translate (sl_fn s) (sl_args s) = None.
  Proof.
    rewrite <- generate_none_iff. unfold roundtrip.
    destruct (generate E nstr fname translate same_fn F m) as [c|]; [|split; reflexivity].
    split; [|discriminate]. intros H. exfalso.
    pose proof (exec_code_nr E c) as Hnr. destruct (exec_code E c); cbn in H; try discriminate. contradiction.
  Qed.

  (** generation succeeded, the last definition stored under some key repeats a parameter, and the
      parameters are emitted as they are: the generated source does not compile *)
  Lemma duplicate_parameter_syntax_error (c : code E) k b ps :
    c_renamed c = false -> In (k, (b, ps)) (c_defs c) -> ~ NoDup ps -> exec_code E c = ExecSyntax.
  Proof.
    intros Hr Hin Hnd. unfold exec_code. rewrite Hr. cbn [orb].
    destruct (defs_compile E (c_defs c)) eqn:Hc; [|reflexivity]. exfalso. apply Hnd.
    unfold defs_compile in Hc. rewrite forallb_forall in Hc. specialize (Hc _ Hin). cbn in Hc.
    clear - Hc. induction ps as [|x r IH]; [constructor|]. cbn in Hc. apply andb_prop in Hc. destruct Hc as [H1 H2].
    constructor; [|exact (IH H2)]. apply memN_false. destruct (memN x r); [discriminate|reflexivity].
  Qed.
End Proofs.

(** ---- the two round-trip theorems in the form PropsC11.v states them ------------------------- *)

Lemma roundtrip_full
  (E : Type) (nstr : name -> string) (fname : fnid -> string)
  (translate : fnid -> list name -> option E) (eval : E -> env -> option Z)
  (same_fn : E * list name -> E * list name -> bool)
  (fsem : fnid -> list Z -> option Z) (fsemN : fnid -> list Z -> option (list Z)) (SF : sort_facts) :
  (forall f margs e, translate f margs = Some e ->
     forall en vs, lookups margs en = Some vs -> eval e en = fsem f vs) ->
  (forall q p, same_fn q p = true ->
     forall vs, defsem E eval (fst q) (snd q) vs = defsem E eval (fst p) (snd p) vs) ->
  forall F m c,
    gf_register F = RegFresh ->
    UniqueIds m -> m_sur m = [] -> m_dat m = [] ->
    generate E nstr fname translate same_fn F m = Some c ->
    exists m', exec_code E c = Built m'
      /\ same_behaviour fsem (fsem_gen E eval (c_defs c)) fsemN SF m m'.
Proof.
  intros Hts Hsame F m c Hrm Hu Hsur Hdat Hgen.
  destruct (roundtrip_fresh E nstr fname translate eval same_fn fsem Hts F m c Hrm Hsame Hu Hgen) as [m' [Hx Hrel]].
  exists m'. split; [exact Hx|].
  exact (rebuilt_same_behaviour E eval fsem fsemN SF (c_defs c) m m' Hrel Hsur Hdat).
Qed.

Lemma roundtrip_guarded
  (E : Type) (nstr : name -> string) (fname : fnid -> string)
  (translate : fnid -> list name -> option E) (eval : E -> env -> option Z)
  (same_fn : E * list name -> E * list name -> bool)
  (fsem : fnid -> list Z -> option Z) (arity : fnid -> nat)
  (fsemN : fnid -> list Z -> option (list Z)) (SF : sort_facts) :
  (forall f margs e, translate f margs = Some e ->
     forall en vs, lookups margs en = Some vs -> eval e en = fsem f vs) ->
  (forall f margs e, translate f margs = Some e -> length margs = arity f) ->
  (forall f vs, length vs <> arity f -> fsem f vs = None) ->
  forall F m c,
    gf_register F = RegOverwrite ->
    UniqueIds m -> m_sur m = [] -> m_dat m = [] ->
    (forall s, In s (slots nstr fname F m) -> NoDup (sl_args s)) ->
    (forall s1 s2, In s1 (slots nstr fname F m) -> In s2 (slots nstr fname F m) ->
                   sl_key s1 = sl_key s2 -> forall vs, fsem (sl_fn s1) vs = fsem (sl_fn s2) vs) ->
    generate E nstr fname translate same_fn F m = Some c ->
    exists m', exec_code E c = Built m'
      /\ same_behaviour fsem (fsem_gen E eval (c_defs c)) fsemN SF m m'.
Proof.
  intros Hts Har Hfa F m c Hrm Hu Hsur Hdat Hargs Hndf Hgen.
  destruct (roundtrip_overwrite E nstr fname translate eval same_fn fsem Hts arity F m c Hrm Har Hfa Hu Hargs Hndf Hgen)
    as [m' [Hx Hrel]].
  exists m'. split; [exact Hx|].
  exact (rebuilt_same_behaviour E eval fsem fsemN SF (c_defs c) m m' Hrel Hsur Hdat).
Qed.

