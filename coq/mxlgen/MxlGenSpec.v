(** Specification vocabulary for C11 (definitions only, no proofs): the function SLOTS of a model,
    the guards of the partial theorem, and the relation "same model up to the identity of
    extensionally equal functions". *)
From Coq Require Import ZArith List Bool String.
From MxlBase Require Import ListX.
From Core Require Import Model.
From MxlGen Require Import SymRepr MxlGen.
Import ListNotations.
Local Open Scope list_scope.

(** a place where a model holds a Python function: the dict key its definition is stored under,
    the function object and the model names it is applied to *)
Record slot := mkSlot { sl_key : string; sl_fn : fnid; sl_args : list name }.

Section Slots.
  Variable nstr : name -> string.
  Variable fname : fnid -> string.

  Definition val_slots (ks : key_scheme) (l : list (name * valia)) : list slot :=
    flat_map (fun kv => match snd kv with
                        | IA f a => [mkSlot (key_of nstr ks (fst kv) (fname f)) f a]
                        | Plain _ => []
                        end) l.
  Definition der_slots (ks : key_scheme) (l : list (name * derived)) : list slot :=
    map (fun kv => mkSlot (key_of nstr ks (fst kv) (fname (d_fn (snd kv)))) (d_fn (snd kv)) (d_args (snd kv))) l.
  Definition sto_slots (ks : key_scheme) (k : name) (st : list (name * coef)) : list slot :=
    flat_map (fun kc => match snd kc with
                        | CDyn f a => [mkSlot (key_of nstr ks k (fname f)) f a]
                        | CStat _ => []
                        end) st.
  Definition rxn_slots (ksr kss : key_scheme) (l : list (name * reaction)) : list slot :=
    flat_map (fun kv => mkSlot (key_of nstr ksr (fst kv) (fname (r_fn (snd kv)))) (r_fn (snd kv)) (r_args (snd kv))
                        :: sto_slots kss (fst kv) (r_st (snd kv))) l.

  (** in the order in which the generator writes them into the [functions] dict *)
  Definition slots (F : gen_facts) (m : model) : list slot :=
    val_slots (gf_var_key F) (m_var m) ++ val_slots (gf_par_key F) (m_par m)
    ++ der_slots (gf_der_key F) (m_der m) ++ rxn_slots (gf_rxn_key F) (gf_sto_key F) (m_rxn m).
End Slots.

(** the id registry of every real Model: component names are pairwise different and none is "time" *)
Definition all_ids (m : model) : list name :=
  keys (m_var m) ++ keys (m_par m) ++ keys (m_der m) ++ keys (m_rxn m).
Definition UniqueIds (m : model) : Prop := NoDup (all_ids m) /\ ~ In time_name (all_ids m).

(** ---- same model up to a relation [R] between function ids ------------------------------
    [R args f f']: "f and f' are interchangeable where they are applied to the model names [args]"
    (the relation may depend on the argument list: a function applied to ['x','x'] only ever sees
    equal values at its two positions). *)

Definition fnrel := list name -> fnid -> fnid -> Prop.

Definition val_rel (R : fnrel) (a b : name * valia) : Prop :=
  fst a = fst b /\
  match snd a, snd b with
  | Plain x, Plain y => x = y
  | IA f args, IA f' args' => R args f f' /\ args = args'
  | _, _ => False
  end.
Definition der_rel (R : fnrel) (a b : name * derived) : Prop :=
  fst a = fst b /\ R (d_args (snd a)) (d_fn (snd a)) (d_fn (snd b)) /\ d_args (snd a) = d_args (snd b).
Definition coef_rel (R : fnrel) (a b : name * coef) : Prop :=
  fst a = fst b /\
  match snd a, snd b with
  | CStat x, CStat y => x = y
  | CDyn f args, CDyn f' args' => R args f f' /\ args = args'
  | _, _ => False
  end.
Definition rxn_rel (R : fnrel) (a b : name * reaction) : Prop :=
  fst a = fst b /\ R (r_args (snd a)) (r_fn (snd a)) (r_fn (snd b)) /\ r_args (snd a) = r_args (snd b)
  /\ Forall2 (coef_rel R) (r_st (snd a)) (r_st (snd b)).

(** same names, kinds, order, values, argument lists, coefficients; related functions; and the
    second model has no surrogates, readouts or data *)
Definition model_rel (R : fnrel) (m m' : model) : Prop :=
  Forall2 (val_rel R) (m_var m) (m_var m')
  /\ Forall2 (val_rel R) (m_par m) (m_par m')
  /\ Forall2 (der_rel R) (m_der m) (m_der m')
  /\ Forall2 (rxn_rel R) (m_rxn m) (m_rxn m')
  /\ m_sur m' = [] /\ m_ro m' = [] /\ m_dat m' = [].
