(** The executable instance of Corr.v meets the hypotheses the theorems of PropsC11.v make about
    the external parts (translation soundness, arity of the translation, soundness of the
    positional comparison) -- used by the non-vacuity examples only. *)
From Coq Require Import ZArith List Bool String Lia.
From MxlBase Require Import ListX.
From Core Require Import FnLib Model.
From MxlGen Require Import SymRepr MxlGen MxlGenSpec Corr.
Import ListNotations.
Local Open Scope list_scope.

Definition c_arity (t : ftab) (f : fnid) : nat :=
  match fent_at t f with Some e => fe_arity e | None => 0%nat end.

Lemma c_translate_sound t f margs e :
  c_translate t f margs = Some e ->
  forall en vs, lookups margs en = Some vs -> c_eval e en = c_fsem t f vs.
Proof.
  unfold c_translate, c_eval, c_fsem. destruct (fent_at t f) as [en0|]; [|discriminate].
  destruct (fe_ok en0 && Nat.eqb (length margs) (fe_arity en0)); [|discriminate].
  intros H en vs Hl. inversion H; subst. cbn [fst snd]. rewrite Hl. reflexivity.
Qed.

Lemma c_translate_arity t f margs e : c_translate t f margs = Some e -> length margs = c_arity t f.
Proof.
  unfold c_translate, c_arity. destruct (fent_at t f) as [en0|]; [|discriminate].
  destruct (fe_ok en0); cbn [andb]; [|discriminate].
  destruct (Nat.eqb (length margs) (fe_arity en0)) eqn:El; [|discriminate].
  intros _. apply Nat.eqb_eq. exact El.
Qed.

(** ---- the positional comparison --------------------------------------------------------------- *)

Lemma lookup_combine_idx ps : forall (vs : list Z) x, length vs = length ps ->
  lookup x (combine ps vs) = nth_error vs (first_index x ps).
Proof.
  induction ps as [|p r IH]; intros vs x Hl; destruct vs as [|v vs]; try discriminate; [reflexivity|].
  cbn [combine lookup first_index]. destruct (N.eqb x p); [reflexivity|]. cbn [nth_error]. apply IH. cbn in Hl. lia.
Qed.

Fixpoint sel (I : list nat) (vs : list Z) : option (list Z) :=
  match I with
  | [] => Some []
  | i :: r => match nth_error vs i, sel r vs with
              | Some v, Some l => Some (v :: l)
              | _, _ => None
              end
  end.

Lemma lookups_combine_idx ps vs ma : length vs = length ps ->
  lookups ma (combine ps vs) = sel (map (fun x => first_index x ps) ma) vs.
Proof.
  intros Hl. induction ma as [|x r IH]; [reflexivity|]. cbn [lookups map sel].
  rewrite (lookup_combine_idx ps vs x Hl), IH. reflexivity.
Qed.

Lemma list_eqb_nat_eq a : forall b, list_eqb Nat.eqb a b = true -> a = b.
Proof.
  induction a as [|x r IH]; intros [|y s] H; cbn in H; try discriminate; [reflexivity|].
  apply andb_prop in H. destruct H as [H1 H2]. apply Nat.eqb_eq in H1. subst. rewrite (IH _ H2). reflexivity.
Qed.

Lemma c_same_fn_sound q p : c_same_fn q p = true ->
  forall vs, defsem cexpr c_eval (fst q) (snd q) vs = defsem cexpr c_eval (fst p) (snd p) vs.
Proof.
  destruct q as [[s ma] ps], p as [[s' ma'] ps']. unfold c_same_fn, positions. cbn [fst snd].
  intros H vs. apply andb_prop in H. destruct H as [H H3]. apply andb_prop in H. destruct H as [H1 H2].
  apply N.eqb_eq in H1. apply Nat.eqb_eq in H2. apply list_eqb_nat_eq in H3. subst s'.
  unfold defsem. rewrite <- H2. destruct (Nat.eqb (length vs) (length ps)) eqn:El; [|reflexivity].
  apply Nat.eqb_eq in El. unfold c_eval. cbn [fst snd].
  rewrite (lookups_combine_idx ps vs ma El), (lookups_combine_idx ps' vs ma' (eq_trans El H2)), H3. reflexivity.
Qed.

(** FnLib's functions reject a wrong number of arguments; a table whose arities are FnLib's is
    therefore an instance of the [fsem_arity] hypothesis *)
Definition lib_arity (s : N) : option nat :=
  match s with
  | 0%N | 1%N | 6%N => Some 1%nat
  | 2%N | 3%N | 4%N | 7%N => Some 2%nat
  | 5%N | 9%N | 10%N => Some 3%nat
  | 8%N => Some 0%nat
  | _ => None
  end.

Lemma lib_fsem_arity s vs n : lib_arity s = Some n -> length vs <> n -> FnLib.fsem s vs = None.
Proof.
  intros Ha Hl.
  destruct s as [|[[[[|[]|]|[[]|[]|]|]|[[[]|[]|]|[[]|[]|]|]|]|[[[[]|[]|]|[[]|[]|]|]|[[[]|[]|]|[[]|[]|]|]|]|]];
    cbn in Ha; try discriminate; inversion Ha; subst n;
    destruct vs as [|a [|b [|c [|d vs]]]]; cbn in Hl |- *; try reflexivity; try (exfalso; apply Hl; reflexivity).
Qed.

Definition table_arity_ok (t : ftab) : bool :=
  forallb (fun e => match lib_arity (fe_sem e) with Some n => Nat.eqb n (fe_arity e) | None => false end) t.

Lemma c_fsem_arity t : table_arity_ok t = true ->
  forall f vs, length vs <> c_arity t f -> c_fsem t f vs = None.
Proof.
  intros Ht f vs. unfold c_arity, c_fsem, fent_at. destruct (nth_error t (N.to_nat f)) as [e|] eqn:Hn; [|reflexivity].
  intros Hl. unfold table_arity_ok in Ht. rewrite forallb_forall in Ht. specialize (Ht e (nth_error_In _ _ Hn)).
  destruct (lib_arity (fe_sem e)) as [n|] eqn:Ha; [|discriminate]. apply Nat.eqb_eq in Ht. subst n.
  exact (lib_fsem_arity _ _ _ Ha Hl).
Qed.
