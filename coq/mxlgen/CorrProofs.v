(** The executable instance of Corr.v meets the hypotheses the theorems of PropsC11.v make about
    the external parts (translation soundness, arity of the translation, soundness of the
    positional comparison) -- used by the non-vacuity examples only. *)
From Coq Require Import ZArith List Bool String Lia.
From MxlBase Require Import ListX.
From Core Require Import FnLib Model.
From MxlGen Require Import SymRepr MxlGen MxlGenSpec Corr.
Import ListNotations.
Local Open Scope list_scope.

Definition c_arity (t : ftab) (f : fnid) : nat :=
  match fent_at t f with Some e => fe_arity e | None => 0%nat end.

Lemma lookups_length ks en : forall vs, lookups ks en = Some vs -> length vs = length ks.
Proof.
  induction ks as [|k r IH]; intros vs H; cbn [lookups] in H.
  - inversion H. reflexivity.
  - destruct (lookup k en); [|discriminate]. destruct (lookups r en) as [l|]; [|discriminate].
    inversion H. cbn. f_equal. apply IH. reflexivity.
Qed.

Lemma lookups_nth ks en : forall vs i x, lookups ks en = Some vs -> nth_error ks i = Some x ->
  exists v, nth_error vs i = Some v /\ lookup x en = Some v.
Proof.
  induction ks as [|k r IH]; intros vs i x H Hn; [destruct i; discriminate|].
  cbn [lookups] in H. destruct (lookup k en) as [v0|] eqn:Hk; [|discriminate].
  destruct (lookups r en) as [l|] eqn:Hr; [|discriminate]. inversion H; subst vs.
  destruct i as [|i]; cbn [nth_error] in Hn |- *.
  - inversion Hn; subst. exists v0. split; [reflexivity|exact Hk].
  - exact (IH l i x eq_refl Hn).
Qed.

Lemma lookups_select margs en vs : lookups margs en = Some vs ->
  forall I sm, select I margs = Some sm -> exists ws, select I vs = Some ws /\ lookups sm en = Some ws.
Proof.
  intros H. induction I as [|i r IH]; intros sm Hs; cbn [select] in Hs.
  - inversion Hs. exists []. split; reflexivity.
  - destruct (nth_error margs i) as [x|] eqn:Hn; [|discriminate].
    destruct (select r margs) as [t|] eqn:Hr; [|discriminate]. inversion Hs; subst sm.
    destruct (lookups_nth _ _ _ _ _ H Hn) as [v [Hv Hl]]. destruct (IH t eq_refl) as [ws [Hw Hlw]].
    exists (v :: ws). cbn [select lookups]. rewrite Hv, Hw, Hl, Hlw. split; reflexivity.
Qed.

Lemma c_translate_sound t f margs e :
  c_translate t f margs = Some e ->
  forall en vs, lookups margs en = Some vs -> c_eval e en = c_fsem t f vs.
Proof.
  unfold c_translate, c_eval, c_fsem. destruct (fent_at t f) as [en0|]; [|discriminate].
  destruct (fe_ok en0); cbn [andb]; [|discriminate].
  destruct (Nat.eqb (length margs) (fe_arity en0)) eqn:El; [|discriminate].
  destruct (select (fe_sel en0) margs) as [sm|] eqn:Hs; [|discriminate].
  intros H en vs Hl. inversion H; subst. cbn [fst snd].
  rewrite (lookups_length _ _ _ Hl), El.
  destruct (lookups_select _ _ _ Hl _ _ Hs) as [ws [Hw Hlw]]. rewrite Hw, Hlw. reflexivity.
Qed.

Lemma c_translate_arity t f margs e : c_translate t f margs = Some e -> length margs = c_arity t f.
Proof.
  unfold c_translate, c_arity. destruct (fent_at t f) as [en0|]; [|discriminate].
  destruct (fe_ok en0); cbn [andb]; [|discriminate].
  destruct (Nat.eqb (length margs) (fe_arity en0)) eqn:El; [|discriminate].
  intros _. apply Nat.eqb_eq. exact El.
Qed.

(** ---- the positional comparison --------------------------------------------------------------- *)

Lemma lookup_combine_idx ps : forall (vs : list Z) x, length vs = length ps ->
  lookup x (combine ps vs) = nth_error vs (first_index x ps).
Proof.
  induction ps as [|p r IH]; intros vs x Hl; destruct vs as [|v vs]; try discriminate; [reflexivity|].
  cbn [combine lookup first_index]. destruct (N.eqb x p); [reflexivity|]. cbn [nth_error]. apply IH. cbn in Hl. lia.
Qed.

Lemma lookups_combine_idx ps vs ma : length vs = length ps ->
  lookups ma (combine ps vs) = select (map (fun x => first_index x ps) ma) vs.
Proof.
  intros Hl. induction ma as [|x r IH]; [reflexivity|]. cbn [lookups map select].
  rewrite (lookup_combine_idx ps vs x Hl), IH. reflexivity.
Qed.

Lemma list_eqb_nat_eq a : forall b, list_eqb Nat.eqb a b = true -> a = b.
Proof.
  induction a as [|x r IH]; intros [|y s] H; cbn in H; try discriminate; [reflexivity|].
  apply andb_prop in H. destruct H as [H1 H2]. apply Nat.eqb_eq in H1. subst. rewrite (IH _ H2). reflexivity.
Qed.

Lemma c_same_fn_sound q p : c_same_fn q p = true ->
  forall vs, defsem cexpr c_eval (fst q) (snd q) vs = defsem cexpr c_eval (fst p) (snd p) vs.
Proof.
  destruct q as [[s ma] ps], p as [[s' ma'] ps']. unfold c_same_fn, positions. cbn [fst snd].
  intros H vs. apply andb_prop in H. destruct H as [H H3]. apply andb_prop in H. destruct H as [H1 H2].
  apply N.eqb_eq in H1. apply Nat.eqb_eq in H2. apply list_eqb_nat_eq in H3. subst s'.
  unfold defsem. rewrite <- H2. destruct (Nat.eqb (length vs) (length ps)) eqn:El; [|reflexivity].
  apply Nat.eqb_eq in El. unfold c_eval. cbn [fst snd].
  rewrite (lookups_combine_idx ps vs ma El), (lookups_combine_idx ps' vs ma' (eq_trans El H2)), H3. reflexivity.
Qed.

(** FnLib's functions reject a wrong number of arguments; a table whose arities are FnLib's is
    therefore an instance of the [fsem_arity] hypothesis *)
Definition lib_arity (s : N) : option nat :=
  match s with
  | 0%N | 1%N | 6%N => Some 1%nat
  | 2%N | 3%N | 4%N | 7%N => Some 2%nat
  | 5%N | 9%N | 10%N => Some 3%nat
  | 8%N => Some 0%nat
  | _ => None
  end.

Lemma lib_fsem_arity s vs n : lib_arity s = Some n -> length vs <> n -> FnLib.fsem s vs = None.
Proof.
  intros Ha Hl.
  destruct s as [|[[[[|[]|]|[[]|[]|]|]|[[[]|[]|]|[[]|[]|]|]|]|[[[[]|[]|]|[[]|[]|]|]|[[[]|[]|]|[[]|[]|]|]|]|]];
    cbn in Ha; try discriminate; inversion Ha; subst n;
    destruct vs as [|a [|b [|c [|d vs]]]]; cbn in Hl |- *; try reflexivity; try (exfalso; apply Hl; reflexivity).
Qed.

Definition table_arity_ok (t : ftab) : bool :=
  forallb (fun e => match lib_arity (fe_sem e) with Some n => Nat.eqb n (fe_arity e) | None => false end) t.

Lemma c_fsem_arity t : table_arity_ok t = true ->
  forall f vs, length vs <> c_arity t f -> c_fsem t f vs = None.
Proof.
  intros _ f vs. unfold c_arity, c_fsem. destruct (fent_at t f) as [e|]; [|reflexivity].
  intros Hl. destruct (Nat.eqb (length vs) (fe_arity e)) eqn:El; [|reflexivity].
  apply Nat.eqb_eq in El. contradiction.
Qed.
