(** SbmlSession -- model of src/mxlpy/sbml/_import.py::read and import_from_path over a SESSION: several files are
    written and read in one interpreter, paths are reused, different directories hold files with the same stem, and
    different stems are mapped to one generated module name by valid_filename.

    What the importer keeps between two reads: the generated module file ~/.cache/mxlpy/<module name>.py (rewritten by
    every read), `sys.modules[<module name>]`, and -- when byte-code caching is on, the interpreter's default -- the
    byte code the source loader cached for that file, which it trusts again whenever the source's mtime (whole
    seconds) and size are unchanged.

    External (Section variables): parsing + transformation + code generation of a document ([transform]), executing the
    generated module and calling create_model() ([exec]), the size of a generated file ([size]), valid_filename on stems
    ([modname]), the clock (the second in which a read writes the generated file is part of the operation).
    No proofs in this file. *)
From Coq Require Import NArith List Bool.
Import ListNotations.

Inductive read_mode :=
| ReadParseAlways     (* read(): load_and_transform_model, _codegen, import_from_path -- every time *)
| ReadModuleByStem    (* a module of that name in sys.modules is reused without parsing the file *)
| ReadUnknown.
Inductive loader_mode :=
| LoaderSourceCached  (* spec.loader.exec_module: byte code cached for (mtime seconds, size) is trusted *)
| LoaderCompileSource (* the source that was just written is compiled and executed *)
| LoaderUnknown.
Record import_facts := mkImportFacts { i_read : read_mode; i_loader : loader_mode; i_shapes_ok : bool }.

Definition path := (N * N)%type.                       (* directory, stem *)
Definition path_eqb (a b : path) : bool := N.eqb (fst a) (fst b) && N.eqb (snd a) (snd b).

Fixpoint assoc_by {K V} (eqb : K -> K -> bool) (k : K) (l : list (K * V)) : option V :=
  match l with [] => None | (k', v) :: r => if eqb k k' then Some v else assoc_by eqb k r end.

Section Session.
  Variables doc src model : Type.
  Variable transform : doc -> src.
  Variable exec : src -> model.
  Variable size : src -> N.
  Variable modname : N -> N.
  Variable IF : import_facts.
  Variable bytecode : bool.                            (* not sys.dont_write_bytecode *)

  Record state := mkState {
    st_files : list (path * doc);                      (* newest first: what sbml.write put at each path *)
    st_modules : list (N * src);                       (* sys.modules: module name -> the code it was executed from *)
    st_pyc : list (N * (N * N * src))                  (* cached byte code: module name -> (mtime, size, code) *)
  }.

  Inductive op :=
  | OWrite (p : path) (d : doc)                        (* sbml.write(model, p) *)
  | ORead (p : path) (t : N).                          (* sbml.read(p); the generated file is written in second t *)

  (** import_from_path: the code that is executed for the freshly written source [s], and the byte-code cache afterwards *)
  Definition load (name t : N) (s : src) (pyc : list (N * (N * N * src))) : option (src * list (N * (N * N * src))) :=
    match i_loader IF with
    | LoaderCompileSource => Some (s, pyc)
    | LoaderSourceCached =>
        let fresh := (s, if bytecode then (name, (t, size s, s)) :: pyc else pyc) in
        match assoc_by N.eqb name pyc with
        | Some (t', sz', c) => if N.eqb t' t && N.eqb sz' (size s) then Some (c, pyc) else Some fresh
        | None => Some fresh
        end
    | LoaderUnknown => None
    end.

  Definition parse_and_import (name t : N) (d : doc) (st : state) : option model * state :=
    match load name t (transform d) (st_pyc st) with
    | Some (c, pyc') => (Some (exec c), mkState (st_files st) ((name, c) :: st_modules st) pyc')
    | None => (None, st)
    end.

  Definition read (p : path) (t : N) (st : state) : option model * state :=
    match assoc_by path_eqb p (st_files st) with
    | None => (None, st)                               (* no such file: the importer raises *)
    | Some d =>
        let name := modname (snd p) in
        match i_read IF with
        | ReadParseAlways => parse_and_import name t d st
        | ReadModuleByStem =>
            match assoc_by N.eqb name (st_modules st) with
            | Some c => (Some (exec c), st)
            | None => parse_and_import name t d st
            end
        | ReadUnknown => (None, st)
        end
    end.

  (** results of the reads of a history, in order *)
  Fixpoint run (ops : list op) (st : state) : list (option model) :=
    match ops with
    | [] => []
    | OWrite p d :: r => run r (mkState ((p, d) :: st_files st) (st_modules st) (st_pyc st))
    | ORead p t :: r => let (res, st') := read p t st in res :: run r st'
    end.

  (** the property: every read returns the model of the document that is in the file it was given *)
  Fixpoint expected (ops : list op) (files : list (path * doc)) : list (option model) :=
    match ops with
    | [] => []
    | OWrite p d :: r => expected r ((p, d) :: files)
    | ORead p _ :: r => option_map (fun d => exec (transform d)) (assoc_by path_eqb p files) :: expected r files
    end.

  (** every read happens in a later second than the one before (and than [lo]) *)
  Fixpoint times_increase (ops : list op) (lo : N) : Prop :=
    match ops with
    | [] => True
    | OWrite _ _ :: r => times_increase r lo
    | ORead _ t :: r => N.lt lo t /\ times_increase r t
    end.
End Session.

Arguments mkState {doc src}.
Arguments st_files {doc src}.
Arguments st_modules {doc src}.
Arguments st_pyc {doc src}.
Arguments OWrite {doc}.
Arguments ORead {doc}.
