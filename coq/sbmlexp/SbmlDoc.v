(** SbmlDoc -- model of _create_sbml_reactions (species references by sign / computed
    coefficient through an assignment rule), of the initial-assignment branch of
    _create_sbml_parameters/_variables, and the SBML L3 meaning of what they write (a reactant
    consumes: its stoichiometry counts negatively; a product's positively; a species reference
    whose id is the target of an assignment rule takes the rule's value).  No proofs here. *)
From Coq Require Import ZArith QArith Qabs List Bool String.
Import ListNotations.
From SbmlExp Require Import SbmlMath.

Inductive coef :=
| CNum (q : Q)                                (* int / float factor *)
| CDyn (f : fundef) (args : list N)           (* Derived(fn, args) *)
| COtherCoef.                                 (* anything else: NotImplementedError *)

Record sref := mkSref {
  sr_role : role;
  sr_species : N;
  sr_stoich : option Q;                       (* setStoichiometry(..) called? *)
  sr_rule : option ml                         (* math of the assignment rule bound to "<species>ref" *)
}.

Record reaction := mkRxn { r_fn : fundef; r_args : list N; r_stoich : list (N * coef) }.
Record sbml_reaction := mkSRxn { sx_refs : list sref; sx_law : ml }.

Definition Qneg_bool (q : Q) : bool := Qlt_bool q 0.

Definition export_coef (F : facts) (species : N) (c : coef) : result sref :=
  match c with
  | CNum q =>
      match f_num_stoich F with
      | NsSignAbs => Ok (mkSref (if Qneg_bool q then Reactant else Product) species (Some (Qabs q)) None)
      | NsUnknown => Err ErrOther
      end
  | CDyn f args =>
      do m <- tree_to_sbml F f args;            (* _create_derived_parameter comes first *)
      Ok (mkSref (f_derived_role F) species None (Some m))
  | COtherCoef => Err ErrNotImpl
  end.

Fixpoint export_coefs (F : facts) (l : list (N * coef)) : result (list sref) :=
  match l with
  | [] => Ok []
  | (x, c) :: r => do s <- export_coef F x c; do rs <- export_coefs F r; Ok (s :: rs)
  end.

Definition export_reaction (F : facts) (r : reaction) : result sbml_reaction :=
  do refs <- export_coefs F (r_stoich r);
  do law <- tree_to_sbml F (r_fn r) (r_args r);
  Ok (mkSRxn refs law).

(** initial assignment of a parameter / variable: the rule's math, or the exception *)
Definition export_initial_assignment (F : facts) (f : fundef) (args : list N) : result ml :=
  match f_ia_setter F with
  | IaSetSymbol => tree_to_sbml F f args
  | IaSetVariable => Err ErrAttribute
  | IaUnknown => Err ErrOther
  end.

Section Meaning.
  Variable ufn : rfun -> list Q -> option Q.
  Variable rho : N -> option Q.

  (** SBML: signed coefficient with which the reaction's rate enters d(species)/dt *)
  Definition sref_coef (s : sref) : option Q :=
    let magnitude :=
      match sr_stoich s, sr_rule s with
      | Some q, _ => Some q
      | None, Some m => eval_ml ufn rho m
      | None, None => None
      end in
    match magnitude, sr_role s with
    | Some q, Reactant => Some (Qopp q)
    | Some q, Product => Some q
    | _, _ => None
    end.

  (** MxlPy: the coefficient the model multiplies the rate with *)
  Definition coef_value (c : coef) : option Q :=
    match c with
    | CNum q => Some q
    | CDyn f args => eval_fn ufn rho f args
    | COtherCoef => None
    end.
End Meaning.

(** facts under which reactions / initial assignments keep their meaning *)
Definition doc_facts_good (F : facts) : bool :=
  facts_good F
  && match f_derived_role F with Product => true | _ => false end
  && match f_num_stoich F with NsSignAbs => true | _ => false end
  && match f_ia_setter F with IaSetSymbol => true | _ => false end.

(** * the whole document: reference ids of computed coefficients

    Every computed coefficient gets an assignment rule and a species reference that share ONE id.  The id is
    "<species>ref" (RefPerSpecies) or "<species>ref", "<species>ref2", ... in document order (RefCounted, the counter
    `n_references` of the repaired _create_sbml_reactions).  Species are numbered, so an id is the pair
    (species, index): index 1 is the plain name. *)
Definition key := (N * N)%type.
Definition key_eqb (a b : key) : bool := N.eqb (fst a) (fst b) && N.eqb (snd a) (snd b).

(** n_references.get(x, 0) after the coefficients that received the ids [used] *)
Definition count_refs (x : N) (used : list key) : N :=
  N.of_nat (List.length (filter (fun k : key => N.eqb (fst k) x) used)).

Definition ref_key (F : facts) (used : list key) (x : N) : key :=
  match f_ref_id F with
  | RefPerSpecies => (x, 1%N)
  | RefCounted => (x, N.succ (count_refs x used))
  | RefUnknown => (x, 0%N)
  end.

(** the computed coefficients of the document in the order in which they are exported: species, function, arguments *)
Definition dyn_of (r : reaction) : list (N * (fundef * list N)) :=
  flat_map (fun xc => match snd xc with CDyn f a => [(fst xc, (f, a))] | _ => [] end) (r_stoich r).
Definition doc_dyn (rs : list reaction) : list (N * (fundef * list N)) := flat_map dyn_of rs.

Fixpoint assign_keys (F : facts) (l : list (N * (fundef * list N))) (used : list key) : list (key * (fundef * list N)) :=
  match l with
  | [] => []
  | (x, fa) :: r => let k := ref_key F used x in (k, fa) :: assign_keys F r (k :: used)
  end.

Definition doc_keyed (F : facts) (rs : list reaction) : list (key * (fundef * list N)) := assign_keys F (doc_dyn rs) [].

(** the assignment rules of the document, in order: (id, math or the exception of its conversion) *)
Definition doc_rules (F : facts) (rs : list reaction) : list (key * result ml) :=
  map (fun kf => (fst kf, tree_to_sbml F (fst (snd kf)) (snd (snd kf)))) (doc_keyed F rs).

(** the rule an importer binds to a reference id: with several rules for one id (an invalid
    document) the last one wins *)
Fixpoint rule_for {A} (x : key) (l : list (key * A)) : option A :=
  match l with
  | [] => None
  | (k, v) :: r =>
      match rule_for x r with
      | Some w => Some w
      | None => if key_eqb k x then Some v else None
      end
  end.

(** SBML meaning, after import, of the species reference with id [k] in the document exported for [rs] *)
Definition imported_dyn_coef (ufn : rfun -> list Q -> option Q) (rho : N -> option Q) (F : facts) (rs : list reaction) (k : key) : option Q :=
  match rule_for k (doc_rules F rs) with
  | Some (Ok m) => sref_coef ufn rho (mkSref (f_derived_role F) (fst k) None (Some m))
  | _ => None
  end.
