(** SbmlDoc -- model of _create_sbml_reactions (species references by sign / computed
    coefficient through an assignment rule), of the initial-assignment branch of
    _create_sbml_parameters/_variables, and the SBML L3 meaning of what they write (a reactant
    consumes: its stoichiometry counts negatively; a product's positively; a species reference
    whose id is the target of an assignment rule takes the rule's value).  No proofs here. *)
From Coq Require Import ZArith QArith Qabs List Bool String.
Import ListNotations.
From SbmlExp Require Import SbmlMath.

Inductive coef :=
| CNum (q : Q)                                (* int / float factor *)
| CDyn (f : fundef) (args : list N)           (* Derived(fn, args) *)
| COtherCoef.                                 (* anything else: NotImplementedError *)

Record sref := mkSref {
  sr_role : role;
  sr_species : N;
  sr_stoich : option Q;                       (* setStoichiometry(..) called? *)
  sr_rule : option ml                         (* math of the assignment rule bound to "<species>ref" *)
}.

Record reaction := mkRxn { r_fn : fundef; r_args : list N; r_stoich : list (N * coef) }.
Record sbml_reaction := mkSRxn { sx_refs : list sref; sx_law : ml }.

Definition Qneg_bool (q : Q) : bool := Qlt_bool q 0.

Definition export_coef (F : facts) (species : N) (c : coef) : result sref :=
  match c with
  | CNum q =>
      match f_num_stoich F with
      | NsSignAbs => Ok (mkSref (if Qneg_bool q then Reactant else Product) species (Some (Qabs q)) None)
      | NsUnknown => Err ErrOther
      end
  | CDyn f args =>
      do m <- tree_to_sbml F f args;            (* _create_derived_parameter comes first *)
      Ok (mkSref (f_derived_role F) species None (Some m))
  | COtherCoef => Err ErrNotImpl
  end.

Fixpoint export_coefs (F : facts) (l : list (N * coef)) : result (list sref) :=
  match l with
  | [] => Ok []
  | (x, c) :: r => do s <- export_coef F x c; do rs <- export_coefs F r; Ok (s :: rs)
  end.

Definition export_reaction (F : facts) (r : reaction) : result sbml_reaction :=
  do refs <- export_coefs F (r_stoich r);
  do law <- tree_to_sbml F (r_fn r) (r_args r);
  Ok (mkSRxn refs law).

(** initial assignment of a parameter / variable: the rule's math, or the exception *)
Definition export_initial_assignment (F : facts) (f : fundef) (args : list N) : result ml :=
  match f_ia_setter F with
  | IaSetSymbol => tree_to_sbml F f args
  | IaSetVariable => Err ErrAttribute
  | IaUnknown => Err ErrOther
  end.

Section Meaning.
  Variable ufn : rfun -> list Q -> option Q.
  Variable rho : N -> option Q.

  (** SBML: signed coefficient with which the reaction's rate enters d(species)/dt *)
  Definition sref_coef (s : sref) : option Q :=
    let magnitude :=
      match sr_stoich s, sr_rule s with
      | Some q, _ => Some q
      | None, Some m => eval_ml ufn rho m
      | None, None => None
      end in
    match magnitude, sr_role s with
    | Some q, Reactant => Some (Qopp q)
    | Some q, Product => Some q
    | _, _ => None
    end.

  (** MxlPy: the coefficient the model multiplies the rate with *)
  Definition coef_value (c : coef) : option Q :=
    match c with
    | CNum q => Some q
    | CDyn f args => eval_fn ufn rho f args
    | COtherCoef => None
    end.
End Meaning.

(** facts under which reactions / initial assignments keep their meaning *)
Definition doc_facts_good (F : facts) : bool :=
  facts_good F
  && match f_derived_role F with Product => true | _ => false end
  && match f_num_stoich F with NsSignAbs => true | _ => false end
  && match f_ia_setter F with IaSetSymbol => true | _ => false end.

(** the assignment rules written for computed coefficients.  The rule (and the species reference)
    is named "<species>ref": ONE id per species, whatever the reaction -- species are numbered, so the
    id is the species number here *)
Definition rules_of (F : facts) (r : reaction) : list (N * result ml) :=
  flat_map (fun xc => match snd xc with CDyn f a => [(fst xc, tree_to_sbml F f a)] | _ => [] end) (r_stoich r).
Definition doc_rules (F : facts) (rs : list reaction) : list (N * result ml) := flat_map (rules_of F) rs.

(** the rule an importer binds to a reference id: with several rules for one id (an invalid
    document) the last one wins *)
Fixpoint rule_for {A} (x : N) (l : list (N * A)) : option A :=
  match l with
  | [] => None
  | (k, v) :: r =>
      match rule_for x r with
      | Some w => Some w
      | None => if N.eqb k x then Some v else None
      end
  end.
