(** SbmlId -- model of _convert_id_to_sbml (src/mxlpy/sbml/_export.py): every character outside
    [0-9_a-zA-Z] becomes "__<ord>__"; an id that does not start with a letter gets "<prefix>_".
    (The later `.replace(".", SBML_DOT)` can never fire: "." has already been escaped.)
    ASCII names only.  No proofs in this file. *)
From Coq Require Import Arith List Bool String Ascii DecimalString.
Import ListNotations.
From SbmlExp Require Import SbmlMath.
Open Scope string_scope.

Definition in_range (lo hi n : nat) : bool := Nat.leb lo n && Nat.leb n hi.
Definition is_digit (c : ascii) : bool := in_range 48 57 (nat_of_ascii c).
Definition is_alpha (c : ascii) : bool :=
  in_range 65 90 (nat_of_ascii c) || in_range 97 122 (nat_of_ascii c).
Definition is_word (c : ascii) : bool := is_alpha c || is_digit c || Nat.eqb (nat_of_ascii c) 95.

Definition dec (n : nat) : string := NilEmpty.string_of_uint (Nat.to_uint n).

Fixpoint escape (s : string) : string :=
  match s with
  | EmptyString => EmptyString
  | String c r =>
      if is_word c then String c (escape r)
      else "__" ++ dec (nat_of_ascii c) ++ "__" ++ escape r
  end.

Definition convert_id (prefix id_ : string) : result string :=
  match escape id_ with
  | EmptyString => Err ErrIndex                      (* new_id[0] on an empty string *)
  | String c r =>
      if is_alpha c then Ok (String c r) else Ok (prefix ++ "_" ++ String c r)
  end.

(** names that need no escaping: a letter followed by letters, digits, underscores *)
Fixpoint all_word (s : string) : bool :=
  match s with EmptyString => true | String c r => is_word c && all_word r end.
Definition safe_name (s : string) : bool :=
  match s with EmptyString => false | String c r => is_alpha c && all_word r end.

Definition res_string_eqb (a b : result string) : bool := res_eqb String.eqb a b.

(** * identifiers inside the document

    A component named [s] is DECLARED under [convert_id prefix s], the prefix being that of its kind ("CPD" species, "PAR"
    parameter, "AR" assignment rule, "RXN" reaction).  What the exporter writes where the component is REFERRED to: *)
Definition math_ref (mn : math_names) (prefix s : string) : result string :=
  match mn with
  | MathRawNames => Ok s                       (* IdentifierReplacer puts the model's name into the tree *)
  | MathIds => convert_id prefix s             (* _sbmlify_fn(fn, args, ids): ids.get(arg, arg) *)
  | MathNamesUnknown => Err ErrOther
  end.
(** symbol of the initial assignment of a component of kind [prefix] *)
Definition ia_symbol (mn : math_names) (prefix s : string) : result string :=
  match mn with
  | MathRawNames => convert_id "IA" s
  | MathIds => convert_id prefix s
  | MathNamesUnknown => Err ErrOther
  end.
(** a computed coefficient: id of the species reference, and variable of the assignment rule that is meant to set it *)
Definition sref_id (mn : math_names) (reference : string) : result string :=
  match mn with
  | MathRawNames => convert_id "CPD" reference
  | MathIds => convert_id "AR" reference
  | MathNamesUnknown => Err ErrOther
  end.
Definition rule_variable (reference : string) : result string := convert_id "AR" reference.
