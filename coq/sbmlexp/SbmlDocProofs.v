(** SbmlDocProofs -- reactions (numeric / fractional / computed coefficients of either sign),
    initial assignments, reference ids, id escaping. *)
From Coq Require Import ZArith NArith Nnat QArith Qabs Qround List Bool String Ascii Lia.
Import ListNotations.
From SbmlExp Require Import SbmlMath SbmlId SbmlDoc SbmlMathProofs.

Lemma doc_good_parts : forall F, doc_facts_good F = true ->
  facts_good F = true /\ f_derived_role F = Product /\ f_num_stoich F = NsSignAbs /\ f_ia_setter F = IaSetSymbol.
Proof.
  intros F H. unfold doc_facts_good in H.
  apply andb_prop in H. destruct H as [H Hia].
  apply andb_prop in H. destruct H as [H Hnum].
  apply andb_prop in H. destruct H as [Hg Hrole].
  destruct (f_derived_role F); try discriminate. destruct (f_num_stoich F); try discriminate.
  destruct (f_ia_setter F); try discriminate. auto.
Qed.

Lemma Forall2_imp : forall A B (P Q : A -> B -> Prop) l l',
  (forall a b, P a b -> Q a b) -> Forall2 P l l' -> Forall2 Q l l'.
Proof. intros A B P Q l l' H H2. induction H2; constructor; auto. Qed.

Section Doc.
  Variable ufn : rfun -> list Q -> option Q.
  Variable rho : N -> option Q.

  Lemma num_coef_sound : forall x q,
    sref_coef ufn rho (mkSref (if Qneg_bool q then Reactant else Product) x (Some (Qabs q)) None) = Some q.
  Proof.
    intros x [n d]. unfold sref_coef, Qneg_bool, Qlt_bool, Qle_bool. cbn [sr_stoich sr_rule sr_role Qnum Qden].
    rewrite Z.mul_0_l, Z.mul_1_r.
    destruct (Z.leb 0 n) eqn:E; cbn [negb].
    - apply Z.leb_le in E. unfold Qabs. now rewrite Z.abs_eq.
    - apply Z.leb_gt in E. unfold Qabs, Qopp. cbn [Qnum Qden]. rewrite Z.abs_neq by lia. now rewrite Z.opp_involutive.
  Qed.

  Definition coef_single (c : coef) : Prop :=
    match c with CDyn f _ => exists e, single_return f e | _ => True end.

  Theorem export_coef_sound : forall F, doc_facts_good F = true ->
    forall x c s q,
      coef_single c ->
      export_coef F x c = Ok s ->
      coef_value ufn rho c = Some q ->
      sr_species s = x /\ sref_coef ufn rho s = Some q.
  Proof.
    intros F HF x c s q Hs He Hq. destruct (doc_good_parts F HF) as [Hg [Hrole [Hnum Hia]]].
    destruct c as [q0|f a|]; cbn in He, Hq.
    - rewrite Hnum in He. inversion He. inversion Hq. subst. split; [reflexivity|apply num_coef_sound].
    - destruct (tree_to_sbml F f a) as [m|] eqn:Em; [|discriminate]. cbn [bind] in He. inversion He. subst s.
      split; [reflexivity|]. rewrite Hrole. unfold sref_coef. cbn [sr_stoich sr_rule sr_role].
      destruct Hs as [e Hs]. now rewrite (tree_to_sbml_sound F Hg ufn rho f a e m q Hs Em Hq).
    - discriminate.
  Qed.

  Theorem export_reaction_sound : forall F, doc_facts_good F = true ->
    forall r sx e,
      single_return (r_fn r) e ->
      Forall (fun xc => coef_single (snd xc)) (r_stoich r) ->
      export_reaction F r = Ok sx ->
      (forall v, eval_fn ufn rho (r_fn r) (r_args r) = Some v -> eval_ml ufn rho (sx_law sx) = Some v)
      /\ Forall2 (fun xc s => sr_species s = fst xc
                              /\ forall q, coef_value ufn rho (snd xc) = Some q -> sref_coef ufn rho s = Some q)
                 (r_stoich r) (sx_refs sx).
  Proof.
    intros F HF r sx e Hs Hall He. destruct (doc_good_parts F HF) as [Hg _].
    unfold export_reaction in He.
    destruct (export_coefs F (r_stoich r)) as [refs|] eqn:Er; [|discriminate]. cbn [bind] in He.
    destruct (tree_to_sbml F (r_fn r) (r_args r)) as [law|] eqn:El; [|discriminate]. cbn [bind] in He.
    inversion He. subst sx. cbn [sx_law sx_refs]. split.
    - intros v Hv. eapply tree_to_sbml_sound; eauto.
    - clear He El Hs. revert refs Er Hall. generalize (r_stoich r) as st.
      induction st as [|[x c] st IH]; intros refs Er Hall; cbn in Er.
      + inversion Er. constructor.
      + destruct (export_coef F x c) as [s|] eqn:Ec; [|discriminate]. cbn [bind] in Er.
        destruct (export_coefs F st) as [rs|] eqn:Ers; [|discriminate]. cbn [bind] in Er. inversion Er. subst refs.
        inversion Hall as [|? ? Hc Hrest]. subst. constructor.
        * cbn [fst snd] in *. split.
          -- destruct c as [q0|f a|]; cbn in Ec.
             ++ destruct (f_num_stoich F); inversion Ec; reflexivity.
             ++ destruct (tree_to_sbml F f a); [|discriminate]. inversion Ec. reflexivity.
             ++ discriminate.
          -- intros q Hq. exact (proj2 (export_coef_sound F HF x c s q Hc Ec Hq)).
        * apply IH; auto.
  Qed.

  Theorem initial_assignment_sound : forall F, doc_facts_good F = true ->
    forall f args e m v,
      single_return f e ->
      export_initial_assignment F f args = Ok m ->
      eval_fn ufn rho f args = Some v ->
      eval_ml ufn rho m = Some v.
  Proof.
    intros F HF f args e m v Hs He Hv. destruct (doc_good_parts F HF) as [Hg [_ [_ Hia]]].
    unfold export_initial_assignment in He. rewrite Hia in He. eapply tree_to_sbml_sound; eauto.
  Qed.
End Doc.

(** pysbml / libSBML are external: WHAT THE IMPORTER COMPUTES enters as Section variables, THAT IT
    IMPLEMENTS THE SBML MEANING as Section hypotheses *)
Section Import.
  Variable ufn : rfun -> list Q -> option Q.
  Variable rho : N -> option Q.
  Variable imported_rate : ml -> option Q.          (* value of a kinetic law / rule after import *)
  Variable imported_coef : sref -> option Q.        (* signed coefficient of a species reference after import *)
  Hypothesis import_math : forall m, imported_rate m = eval_ml ufn rho m.
  Hypothesis import_sref : forall s, imported_coef s = sref_coef ufn rho s.

  Theorem reaction_roundtrip : forall F, doc_facts_good F = true ->
    forall r sx e,
      single_return (r_fn r) e ->
      Forall (fun xc => coef_single (snd xc)) (r_stoich r) ->
      export_reaction F r = Ok sx ->
      (forall v, eval_fn ufn rho (r_fn r) (r_args r) = Some v -> imported_rate (sx_law sx) = Some v)
      /\ Forall2 (fun xc s => sr_species s = fst xc
                              /\ forall q, coef_value ufn rho (snd xc) = Some q -> imported_coef s = Some q)
                 (r_stoich r) (sx_refs sx).
  Proof.
    intros F HF r sx e Hs Hall He.
    destruct (export_reaction_sound ufn rho F HF r sx e Hs Hall He) as [H1 H2]. split.
    - intros v Hv. rewrite import_math. now apply H1.
    - eapply Forall2_imp; [|exact H2]. intros xc s [Ha Hb]. split; [exact Ha|].
      intros q Hq. rewrite import_sref. now apply Hb.
  Qed.
End Import.

(* ------------------------------------------------------------------------------------- *)
(** * reference ids of computed coefficients *)
Lemma key_eqb_eq : forall a b : key, key_eqb a b = true <-> a = b.
Proof.
  intros [a1 a2] [b1 b2]. unfold key_eqb. cbn [fst snd]. rewrite andb_true_iff, !N.eqb_eq.
  split; [intros [H1 H2]; now subst|intros H; inversion H; auto].
Qed.

Lemma rule_for_in_keys : forall A x (l : list (key * A)) w, rule_for x l = Some w -> In x (map fst l).
Proof.
  induction l as [|[k v] r IH]; cbn; intros w H; [discriminate|].
  destruct (rule_for x r) as [w'|] eqn:E.
  - right. eapply IH. reflexivity.
  - destruct (key_eqb k x) eqn:Ek; [|discriminate]. apply key_eqb_eq in Ek. now left.
Qed.

Theorem rule_for_nodup : forall A x (m : A) (l : list (key * A)),
  NoDup (map fst l) -> In (x, m) l -> rule_for x l = Some m.
Proof.
  induction l as [|[k v] r IH]; cbn; intros Hnd Hin; [contradiction|].
  inversion Hnd as [|? ? Hnotin Hnd']. subst.
  destruct Hin as [Heq|Hin].
  - inversion Heq. subst k v.
    destruct (rule_for x r) as [w|] eqn:E.
    + exfalso. apply Hnotin. eapply rule_for_in_keys. exact E.
    + now rewrite (proj2 (key_eqb_eq x x) eq_refl).
  - now rewrite (IH Hnd' Hin).
Qed.

(** the counter of the repaired exporter never hands out an id twice *)
Definition keys_bounded (used : list key) : Prop := forall x i, In (x, i) used -> (i <= count_refs x used)%N.

Lemma count_refs_cons : forall x y i used,
  count_refs x ((y, i) :: used) = if N.eqb y x then N.succ (count_refs x used) else count_refs x used.
Proof.
  intros x y i used. unfold count_refs. cbn [filter fst]. destruct (N.eqb y x); [|reflexivity].
  cbn [List.length]. now rewrite Nat2N.inj_succ.
Qed.

Lemma count_refs_mono : forall x k used, (count_refs x used <= count_refs x (k :: used))%N.
Proof. intros x [y i] used. rewrite count_refs_cons. destruct (N.eqb y x); lia. Qed.

Lemma assign_keys_counted : forall F, f_ref_id F = RefCounted ->
  forall l used, keys_bounded used ->
    NoDup (map fst (assign_keys F l used)) /\ (forall k, In k (map fst (assign_keys F l used)) -> ~ In k used).
Proof.
  intros F HF. induction l as [|[x fa] r IH]; intros used Hb; cbn [assign_keys map].
  - split; [constructor|intros k []].
  - unfold ref_key at 1 3. rewrite HF. cbn [fst].
    set (k := (x, N.succ (count_refs x used))).
    assert (Hk : ~ In k used).
    { intros Hin. apply Hb in Hin. lia. }
    assert (Hb' : keys_bounded (k :: used)).
    { intros y i [Heq|Hin].
      - inversion Heq. subst y i. unfold k. rewrite count_refs_cons, N.eqb_refl. lia.
      - apply Hb in Hin. eapply N.le_trans; [exact Hin|apply count_refs_mono]. }
    replace (ref_key F used x) with k by (unfold ref_key; now rewrite HF).
    destruct (IH (k :: used) Hb') as [Hnd Hnot]. split.
    + constructor; [|exact Hnd]. intros Hin. apply (Hnot _ Hin). now left.
    + intros k' [Heq|Hin]; [now subst k'|]. intros Hu. apply (Hnot _ Hin). now right.
Qed.

Lemma doc_rules_keys : forall F rs, map fst (doc_rules F rs) = map fst (doc_keyed F rs).
Proof. intros F rs. unfold doc_rules. rewrite map_map. reflexivity. Qed.

Theorem doc_keys_nodup_counted : forall F rs, f_ref_id F = RefCounted -> NoDup (map fst (doc_keyed F rs)).
Proof.
  intros F rs HF. unfold doc_keyed. apply (assign_keys_counted F HF). intros x i [].
Qed.

Theorem reference_rule_counted : forall F, f_ref_id F = RefCounted ->
  forall rs x m, In (x, m) (doc_rules F rs) -> rule_for x (doc_rules F rs) = Some m.
Proof.
  intros F HF rs x m Hin. apply rule_for_nodup; [|exact Hin].
  rewrite doc_rules_keys. now apply doc_keys_nodup_counted.
Qed.

Section DocCoef.
  Variable ufn : rfun -> list Q -> option Q.
  Variable rho : N -> option Q.

  (** every computed coefficient of the document is reproduced by the rule bound to ITS reference id *)
  Theorem document_computed_coefficients_nodup : forall F, doc_facts_good F = true ->
    forall rs k f a e m q,
      NoDup (map fst (doc_keyed F rs)) ->
      In (k, (f, a)) (doc_keyed F rs) ->
      single_return f e ->
      tree_to_sbml F f a = Ok m ->
      eval_fn ufn rho f a = Some q ->
      imported_dyn_coef ufn rho F rs k = Some q.
  Proof.
    intros F HF rs k f a e m q Hnd Hin Hs Hm Hq. destruct (doc_good_parts F HF) as [Hg [Hrole _]].
    unfold imported_dyn_coef.
    assert (Hr : rule_for k (doc_rules F rs) = Some (tree_to_sbml F f a)).
    { apply rule_for_nodup; [now rewrite doc_rules_keys|].
      unfold doc_rules. apply in_map_iff. exists (k, (f, a)). split; [reflexivity|exact Hin]. }
    rewrite Hr, Hm, Hrole. unfold sref_coef. cbn [sr_stoich sr_rule sr_role].
    now rewrite (tree_to_sbml_sound F Hg ufn rho f a e m q Hs Hm Hq).
  Qed.

  Theorem document_computed_coefficients : forall F, doc_facts_good F = true -> f_ref_id F = RefCounted ->
    forall rs k f a e m q,
      In (k, (f, a)) (doc_keyed F rs) ->
      single_return f e ->
      tree_to_sbml F f a = Ok m ->
      eval_fn ufn rho f a = Some q ->
      imported_dyn_coef ufn rho F rs k = Some q.
  Proof.
    intros F HF HR rs k f a e m q. apply document_computed_coefficients_nodup; auto using doc_keys_nodup_counted.
  Qed.
End DocCoef.

Lemma doc_facts_good_ref_id : forall m F, doc_facts_good (set_ref_id m F) = doc_facts_good F.
Proof. reflexivity. Qed.

(* ------------------------------------------------------------------------------------- *)
(** * id escaping *)
Lemma escape_word : forall s, all_word s = true -> escape s = s.
Proof.
  induction s as [|c r IH]; cbn; intros H; [reflexivity|].
  apply andb_prop in H. destruct H as [Hc Hr]. rewrite Hc. now rewrite IH.
Qed.

Theorem id_safe_identity : forall prefix s, safe_name s = true -> convert_id prefix s = Ok s.
Proof.
  intros prefix [|c r] H; cbn in H; [discriminate|].
  apply andb_prop in H. destruct H as [Hc Hr].
  unfold convert_id. cbn [escape].
  assert (Hw : is_word c = true) by (unfold is_word; now rewrite Hc).
  rewrite Hw, (escape_word r Hr), Hc. reflexivity.
Qed.

Theorem id_total : forall prefix s, s <> EmptyString -> exists t, convert_id prefix s = Ok t.
Proof.
  intros prefix [|c r] H; [congruence|].
  unfold convert_id. cbn [escape]. destruct (is_word c).
  - destruct (is_alpha c); eauto.
  - remember (dec (nat_of_ascii c) ++ "__" ++ escape r)%string as rest. cbn. destruct (is_alpha "_"); eauto.
Qed.

(** identifiers: what is referred to is what was declared *)
Theorem math_ids_declared : forall prefix s,
  math_ref MathIds prefix s = convert_id prefix s
  /\ ia_symbol MathIds prefix s = convert_id prefix s
  /\ sref_id MathIds s = rule_variable s.
Proof. intros prefix s. repeat split. Qed.

Theorem math_names_safe : forall mn, mn <> MathNamesUnknown ->
  forall prefix s, safe_name s = true ->
    math_ref mn prefix s = convert_id prefix s
    /\ ia_symbol mn prefix s = convert_id prefix s
    /\ sref_id mn s = rule_variable s.
Proof.
  intros mn Hmn prefix s Hs. destruct mn; [|apply math_ids_declared|congruence].
  unfold math_ref, ia_symbol, sref_id, rule_variable. rewrite !(id_safe_identity _ s Hs). repeat split.
Qed.

Lemma raw_names_refuted :
  exists s : string, s <> EmptyString
    /\ math_ref MathRawNames "PAR" s <> convert_id "PAR" s
    /\ ia_symbol MathRawNames "CPD" s <> convert_id "CPD" s
    /\ sref_id MathRawNames s <> rule_variable s.
Proof. exists "1k"%string. repeat split; vm_compute; discriminate. Qed.

Lemma doc_good_math : forall F, doc_facts_good F = true -> facts_good F = true.
Proof. intros F H. exact (proj1 (doc_good_parts F H)). Qed.

(* ------------------------------------------------------------------------------------- *)
(** * regression witnesses: the earlier value of each repaired fact breaks the property *)
From SbmlExp Require Import GenSbmlFacts.
Lemma gen_math_names_known : f_math_names gen_facts <> MathNamesUnknown.
Proof. vm_compute. discriminate. Qed.
Definition no_fn : rfun -> list Q -> option Q := fun _ _ => None.
Definition one_fn : rfun -> list Q -> option Q := fun _ _ => Some 1.
Definition at_ (q : Q) : N -> option Q := fun _ => Some q.

Lemma old_ifexp_order_refuted :
  exists e m,
    conv (set_ifexp_order [CTest; CBody; COrelse] gen_facts) e = Ok m
    /\ eval_py no_fn (at_ 0) e = Some 5 /\ eval_ml no_fn (at_ 0) m = Some 1.
Proof.
  exists (EIf (ECmp (EName 0) (ChCons CLt (EInt 3) ChNil)) (EInt 5) (EInt 7)).
  eexists. split; [vm_compute; reflexivity|]. split; vm_compute; reflexivity.
Qed.

Lemma old_compare_refuted :
  exists e m,
    conv (set_compare CmpFirstOnly gen_facts) e = Ok m
    /\ eval_py no_fn (at_ 5) e = Some 0 /\ eval_ml no_fn (at_ 5) m = Some 1.
Proof.
  exists (EIf (ECmp (EInt 1) (ChCons CLt (EName 0) (ChCons CLt (EInt 3) ChNil))) (EInt 1) (EInt 0)).
  eexists. split; [vm_compute; reflexivity|]. split; vm_compute; reflexivity.
Qed.

Lemma old_call_fallback_refuted :
  exists e m,
    conv (set_call CallAnonymous false false gen_facts) e = Ok m
    /\ eval_py one_fn (at_ 2) e = Some 1 /\ eval_ml one_fn (at_ 2) m = None.
Proof.
  exists (ECallAttr "math" "exp" (ECons (EName 0) ENil) false).
  eexists. split; [vm_compute; reflexivity|]. split; vm_compute; reflexivity.
Qed.

Lemma old_log10_refuted :
  exists e m,
    conv (set_unary_qual [] gen_facts) e = Ok m
    /\ eval_py one_fn (at_ 2) e = Some 1 /\ eval_ml one_fn (at_ 2) m = None.
Proof.
  exists (ECallAttr "np" "log10" (ECons (EName 0) ENil) false).
  eexists. split; [vm_compute; reflexivity|]. split; vm_compute; reflexivity.
Qed.

Lemma old_derived_role_refuted :
  exists c s,
    export_coef (set_derived_role Reactant gen_facts) 7 c = Ok s
    /\ coef_value no_fn (at_ 0) c = Some (3 # 2) /\ sref_coef no_fn (at_ 0) s = Some (-3 # 2).
Proof.
  exists (CDyn (mkFun [] [SReturn (EReal (3 # 2))]) []).
  eexists. split; [vm_compute; reflexivity|]. split; vm_compute; reflexivity.
Qed.

Lemma old_ia_setter_refuted :
  forall f args, export_initial_assignment (set_ia_setter IaSetVariable gen_facts) f args = Err ErrAttribute.
Proof. reflexivity. Qed.

Lemma id_injective_refuted :
  exists a b, a <> b /\ convert_id "CPD" a = convert_id "CPD" b.
Proof.
  exists "x-y"%string, "x__45__y"%string. split; [discriminate|vm_compute; reflexivity].
Qed.

Definition shared_ref_doc : list reaction :=
  [mkRxn (mkFun [] [SReturn (EInt 1)]) [] [(1%N, CDyn (mkFun [] [SReturn (EReal (1 # 2))]) [])];
   mkRxn (mkFun [] [SReturn (EInt 1)]) [] [(1%N, CDyn (mkFun [] [SReturn (EUn UNeg (EReal (3 # 2)))]) [])]].

Lemma shared_ref_refuted :
  exists rs x m m',
    In (x, m) (doc_rules (set_ref_id RefPerSpecies gen_facts) rs)
    /\ rule_for x (doc_rules (set_ref_id RefPerSpecies gen_facts) rs) = Some m' /\ m <> m'.
Proof.
  exists shared_ref_doc.
  exists (1%N, 1%N). eexists. eexists. split; [vm_compute; left; reflexivity|]. split; [vm_compute; reflexivity|discriminate].
Qed.

Lemma shared_reference_coefficient_refuted :
  exists rs k f a,
    In (k, (f, a)) (doc_keyed (set_ref_id RefPerSpecies gen_facts) rs)
    /\ eval_fn no_fn (at_ 0) f a = Some (1 # 2)
    /\ imported_dyn_coef no_fn (at_ 0) (set_ref_id RefPerSpecies gen_facts) rs k = Some (- (3 # 2)).
Proof.
  exists shared_ref_doc. exists (1%N, 1%N). eexists. eexists.
  split; [vm_compute; left; reflexivity|]. split; vm_compute; reflexivity.
Qed.

Lemma counted_reference_example :
  map fst (doc_keyed (set_ref_id RefCounted gen_facts) shared_ref_doc) = [(1%N, 1%N); (1%N, 2%N)]
  /\ map (imported_dyn_coef no_fn (at_ 0) (set_ref_id RefCounted gen_facts) shared_ref_doc) [(1%N, 1%N); (1%N, 2%N)]
     = [Some (1 # 2); Some (- (3 # 2))].
Proof. split; vm_compute; reflexivity. Qed.

Lemma sequential_rename_refuted :
  exists fd args m,
    tree_to_sbml (set_rename RenSequential gen_facts) fd args = Ok m
    /\ eval_fn no_fn (fun x : N => if N.eqb x 100 then Some 2 else Some 5) fd args = Some 3
    /\ eval_ml no_fn (fun x : N => if N.eqb x 100 then Some 2 else Some 5) m = Some 0.
Proof.
  exists (mkFun [100; 101]%N [SReturn (EBin BSub (EName 100) (EName 101))]), [101; 100]%N.
  eexists. split; [vm_compute; reflexivity|]. split; vm_compute; reflexivity.
Qed.

Lemma last_statement_refuted :
  exists fd m,
    tree_to_sbml gen_facts fd [] = Ok m
    /\ eval_fn no_fn (at_ 0) fd [] = Some 1 /\ eval_ml no_fn (at_ 0) m = Some 7.
Proof.
  exists (mkFun [] [SReturn (EInt 1); SReturn (EInt 7)]).
  eexists. split; [vm_compute; reflexivity|]. split; vm_compute; reflexivity.
Qed.

(** * regression shapes of seeded changes *)

(** _handle_body converting only the last statement (fact BodyLastOnly): the saturating law
      def f(s, vmax, km): s = s / (km + s); return vmax * s
    is exported as vmax * s *)
Definition rho_sat : N -> option Q :=
  fun x => if N.eqb x 100 then Some 2 else if N.eqb x 200 then Some 3 else Some (1 # 2).
Definition saturating_law : fundef :=
  mkFun [0; 1; 2]%N [SAssign 0%N (EBin BDiv (EName 0) (EBin BAdd (EName 2) (EName 0))); SReturn (EBin BMul (EName 1) (EName 0))].

Lemma last_only_refuted :
  exists fd args m,
    no_dead_code (fd_body fd) = true
    /\ tree_to_sbml (set_body BodyLastOnly gen_facts) fd args = Ok m
    /\ eval_fn no_fn rho_sat fd args = Some (12 # 5) /\ eval_ml no_fn rho_sat m = Some 6.
Proof.
  exists saturating_law, [100; 200; 201]%N. eexists.
  split; [reflexivity|]. split; [vm_compute; reflexivity|]. split; vm_compute; reflexivity.
Qed.

Lemma saturating_law_refused : exists er, tree_to_sbml gen_facts saturating_law [100; 200; 201]%N = Err er.
Proof. eexists. vm_compute. reflexivity. Qed.

(** the two remainders, exactly: floored (numpy.remainder, Python's %, SBML rem as the importer reads it) and IEEE 754
    (math.remainder: a - n * b with n the integer nearest to a / b, ties to even) *)
Definition Qround_even (q : Q) : Z :=
  let f := Qfloor q in
  match Qcompare (q - inject_Z f) (1 # 2) with
  | Lt => f
  | Gt => (f + 1)%Z
  | Eq => if Z.even f then f else (f + 1)%Z
  end.
Definition rem_fn : rfun -> list Q -> option Q :=
  fun r vs =>
    match r, vs with
    | RRem, [a; b] => if Qeq_bool b 0 then None else Some (Qred (a - b * inject_Z (Qfloor (a / b))))
    | RIeeeRem, [a; b] => if Qeq_bool b 0 then None else Some (Qred (a - b * inject_Z (Qround_even (a / b))))
    | _, _ => None
    end.

(** "remainder" moved from UNARY to BINARY (seeded C08-6) *)
Definition remainder_binary (F : facts) : facts :=
  set_tables (filter (fun p => negb (String.eqb (fst p) "remainder")) (f_unary F))
             (f_binary F ++ [("remainder"%string, K_FUNCTION_REM)]) F.

Lemma math_remainder_refuted :
  exists e m,
    conv (remainder_binary gen_facts) e = Ok m
    /\ eval_py rem_fn (at_ 5) e = Some (-1 # 1) /\ eval_ml rem_fn (at_ 5) m = Some (2 # 1).
Proof.
  exists (ECallAttr "math" "remainder" (ECons (EName 0) (ECons (EInt 3) ENil)) false). eexists.
  split; [vm_compute; reflexivity|]. split; vm_compute; reflexivity.
Qed.

(** ... while numpy.remainder keeps its meaning under the same table, and the table fails the side condition *)
Lemma numpy_remainder_example :
  exists m,
    conv (remainder_binary gen_facts) (ECallAttr "np" "remainder" (ECons (EName 0) (ECons (EInt 3) ENil)) false) = Ok m
    /\ eval_py rem_fn (at_ 5) (ECallAttr "np" "remainder" (ECons (EName 0) (ECons (EInt 3) ENil)) false) = Some (2 # 1)
    /\ eval_ml rem_fn (at_ 5) m = Some (2 # 1)
    /\ facts_good (remainder_binary gen_facts) = false.
Proof. eexists. split; [vm_compute; reflexivity|]. split; [|split]; vm_compute; reflexivity. Qed.

Lemma remainder_refused : forall p : string,
  exists er, conv gen_facts (ECallAttr p "remainder" (ECons (EName 0) (ECons (EInt 3) ENil)) false) = Err er.
Proof.
  intros p. cbn [conv]. cbn [andb]. destruct (mem_s p (f_lib_parents gen_facts)); eexists; vm_compute; reflexivity.
Qed.
