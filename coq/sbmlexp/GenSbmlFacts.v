(* REGENERATED from src/mxlpy/sbml/_export.py by harness/c08_extract.py; do not edit.
   Unrecognised code yields *Unknown / K_OTHER / f_shapes_ok = false, which breaks C08_facts_pinned. *)
From Coq Require Import ZArith QArith List Bool String.
Import ListNotations.
From SbmlExp Require Import SbmlMath SbmlIdU SbmlSession.
(* RE_TO_SBML: which characters of a name are escaped as __<ord>__ *)
Definition gen_escape : escape_class := EscAscii.
(* src/mxlpy/sbml/_import.py: read() and import_from_path *)
Definition gen_import_facts : import_facts := mkImportFacts ReadParseAlways LoaderCompileSource true.
Definition gen_facts : facts := mkFacts
  [("sqrt"%string, K_FUNCTION_ROOT); ("remainder"%string, K_FUNCTION_REM); ("abs"%string, K_FUNCTION_ABS); ("ceil"%string, K_FUNCTION_CEILING); ("sin"%string, K_FUNCTION_SIN); ("cos"%string, K_FUNCTION_COS); ("tan"%string, K_FUNCTION_TAN); ("arcsin"%string, K_FUNCTION_ARCSIN); ("arccos"%string, K_FUNCTION_ARCCOS); ("arctan"%string, K_FUNCTION_ARCTAN); ("sinh"%string, K_FUNCTION_SINH); ("cosh"%string, K_FUNCTION_COSH); ("tanh"%string, K_FUNCTION_TANH); ("arcsinh"%string, K_FUNCTION_ARCSINH); ("arccosh"%string, K_FUNCTION_ARCCOSH); ("arctanh"%string, K_FUNCTION_ARCTANH); ("log"%string, K_FUNCTION_LN); ("log10"%string, K_FUNCTION_LOG)]
  [("power"%string, K_POWER)]
  [("max"%string, K_FUNCTION_MAX); ("min"%string, K_FUNCTION_MIN)]
  [(UNeg, K_MINUS); (UNot, K_LOGICAL_NOT)]
  [(BMul, K_TIMES); (BAdd, K_PLUS); (BSub, K_MINUS); (BDiv, K_DIVIDE); (BPow, K_POWER); (BFloorDiv, K_FUNCTION_QUOTIENT)]
  [(CEq, K_RELATIONAL_EQ); (CNe, K_RELATIONAL_NEQ); (CLt, K_RELATIONAL_LT); (CLe, K_RELATIONAL_LEQ); (CGt, K_RELATIONAL_GT); (CGe, K_RELATIONAL_GEQ)]
  [CBody; CTest; COrelse]
  CmpAndPairs CallRaise true true
  [(K_FUNCTION_LOG, 10%Z)]
  ["math"%string; "np"%string; "numpy"%string]
  [("e"%string, ME); ("pi"%string, MPi); ("inf"%string, MInf); ("nan"%string, MNan)]
  Product NsSignAbs IaSetSymbol RenSimultaneous RefCounted MathIds BodyAllLast true.
