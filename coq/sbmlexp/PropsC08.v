(** C08 -- SBML export then import reproduces the model, or export fails.

    ONLY theorem statements (written out in full), each closed by [exact <lemma>] and followed by
    [Print Assumptions].  All statements are about [gen_facts], the facts REGENERATED from
    /repo/src/mxlpy/sbml/_export.py on every run (operator / function tables, child order of
    piecewise, comparison mode, call fallback / arity / keywords, qualifier of unary calls, species
    reference created for a computed coefficient, initial-assignment setter, shapes of every other
    modelled function).  [C08_facts_pinned] / [C08_facts_good] are the obligations that break when
    one of them is edited.

    Model: [tree_to_sbml] = _tree_to_sbml/_sbmlify_fn (docstring removal, strict zip of parameters
    and model names, IdentifierReplacer, _handle_body, the _convert_* family); [eval_py] = what
    CPython computes for the expression (exact rationals, transcendental / rounding functions an
    arbitrary [ufn] shared by both sides, [None] = no real value: exception, NaN, unbound name);
    [eval_ml] = the meaning SBML L3V2 gives the written MathML; [export_reaction] =
    _create_sbml_reactions; [sref_coef] = SBML meaning of a species reference; [convert_id] =
    _convert_id_to_sbml. *)
From Coq Require Import ZArith QArith List Bool String.
Import ListNotations.
From SbmlExp Require Import SbmlMath SbmlId SbmlIdU SbmlDoc SbmlSession GenSbmlFacts ExpectedFacts SbmlMathProofs SbmlDocProofs SbmlSessionProofs SbmlIdUProofs.

Theorem C08_facts_pinned :
  gen_facts = mkFacts
    [("sqrt"%string, K_FUNCTION_ROOT); ("remainder"%string, K_FUNCTION_REM); ("abs"%string, K_FUNCTION_ABS);
     ("ceil"%string, K_FUNCTION_CEILING); ("sin"%string, K_FUNCTION_SIN); ("cos"%string, K_FUNCTION_COS);
     ("tan"%string, K_FUNCTION_TAN); ("arcsin"%string, K_FUNCTION_ARCSIN); ("arccos"%string, K_FUNCTION_ARCCOS);
     ("arctan"%string, K_FUNCTION_ARCTAN); ("sinh"%string, K_FUNCTION_SINH); ("cosh"%string, K_FUNCTION_COSH);
     ("tanh"%string, K_FUNCTION_TANH); ("arcsinh"%string, K_FUNCTION_ARCSINH); ("arccosh"%string, K_FUNCTION_ARCCOSH);
     ("arctanh"%string, K_FUNCTION_ARCTANH); ("log"%string, K_FUNCTION_LN); ("log10"%string, K_FUNCTION_LOG)]
    [("power"%string, K_POWER)]
    [("max"%string, K_FUNCTION_MAX); ("min"%string, K_FUNCTION_MIN)]
    [(UNeg, K_MINUS); (UNot, K_LOGICAL_NOT)]
    [(BMul, K_TIMES); (BAdd, K_PLUS); (BSub, K_MINUS); (BDiv, K_DIVIDE); (BPow, K_POWER); (BFloorDiv, K_FUNCTION_QUOTIENT)]
    [(CEq, K_RELATIONAL_EQ); (CNe, K_RELATIONAL_NEQ); (CLt, K_RELATIONAL_LT); (CLe, K_RELATIONAL_LEQ);
     (CGt, K_RELATIONAL_GT); (CGe, K_RELATIONAL_GEQ)]
    [CBody; CTest; COrelse]
    CmpAndPairs CallRaise true true
    [(K_FUNCTION_LOG, 10%Z)]
    ["math"%string; "np"%string; "numpy"%string]
    [("e"%string, ME); ("pi"%string, MPi); ("inf"%string, MInf); ("nan"%string, MNan)]
    Product NsSignAbs IaSetSymbol RenSimultaneous C08_expected_ref_id C08_expected_math_names BodyAllLast true.
Proof. vm_compute. reflexivity. Qed.
Print Assumptions C08_facts_pinned.

(** RE_TO_SBML escapes the complement of the explicit ASCII class [0-9_a-zA-Z] (not Python's Unicode-aware \W) *)
Theorem C08_escape_pinned : gen_escape = EscAscii.
Proof. vm_compute. reflexivity. Qed.
Print Assumptions C08_escape_pinned.

(** src/mxlpy/sbml/_import.py: read() parses, generates and imports on every call; how the generated module is loaded
    is the value coq/sbmlexp/ExpectedFacts.v expects for the tree (see there) *)
Theorem C08_import_facts_pinned :
  gen_import_facts = mkImportFacts ReadParseAlways C08_expected_loader true.
Proof. vm_compute. reflexivity. Qed.
Print Assumptions C08_import_facts_pinned.

(** the decidable side condition of every theorem below, evaluated on the regenerated facts: every
    table entry maps a Python operator / function to the MathML node with the same meaning, piecewise
    children are (value, condition, otherwise), chains are conjunctions of pairs, unknown calls /
    wrong arity / keywords are refused, computed coefficients are products, numeric ones are split
    by sign, initial assignments use setSymbol *)
Theorem C08_facts_good : doc_facts_good gen_facts = true.
Proof. vm_compute. reflexivity. Qed.
Print Assumptions C08_facts_good.

(** MAIN: for EVERY expression of the modelled Python subset, if the exporter accepts it, the
    MathML it writes evaluates (SBML L3 semantics) to the value Python computes, at every point
    where Python computes a value -- conditional and chained-comparison expressions, functions,
    booleans used as numbers included *)
Theorem C08_expr_sound :
  forall (ufn : rfun -> list Q -> option Q) (rho : N -> option Q) (e : expr) (m : ml) (v : Q),
    conv gen_facts e = Ok m -> eval_py ufn rho e = Some v -> eval_ml ufn rho m = Some v.
Proof. exact (conv_sound_good gen_facts (doc_good_math gen_facts C08_facts_good)). Qed.
Print Assumptions C08_expr_sound.

(** the same for a whole single-expression function applied to model names (parameters renamed
    simultaneously to the model's names): export raises, or the MathML means the function *)
Theorem C08_math_sound :
  forall (ufn : rfun -> list Q -> option Q) (rho : N -> option Q) (fd : fundef) (args : list N) (e : expr) (m : ml) (v : Q),
    filter (fun s => negb (is_doc s)) (fd_body fd) = [SReturn e] ->
    tree_to_sbml gen_facts fd args = Ok m ->
    eval_fn ufn rho fd args = Some v ->
    eval_ml ufn rho m = Some v.
Proof. exact (tree_to_sbml_sound gen_facts (doc_good_math gen_facts C08_facts_good)). Qed.
Print Assumptions C08_math_sound.

(** FUNCTION BODIES WITH ANY STATEMENTS (closing pass): assignments that rebind a parameter or introduce a local
    ([SAssign], Python semantics: the statements after it see the new value), bare returns, any other statement,
    docstrings.  FULL statement (false of the code, see C08_last_statement_refuted: `return 1; return 7` is exported as 7):
      forall fd args m v, tree_to_sbml gen_facts fd args = Ok m -> eval_fn fd args = Some v -> eval_ml m = Some v.
    Proved for every body without unreachable statements (nothing follows the first `return`); the quantifier of the
    property ("single-expression rate-law shapes") is the special case [filter ... = [SReturn e]] of C08_math_sound *)
Theorem C08_any_body_sound_partial :
  forall (ufn : rfun -> list Q -> option Q) (rho : N -> option Q) (fd : fundef) (args : list N) (m : ml) (v : Q),
    no_dead_code (filter (fun s => negb (is_doc s)) (fd_body fd)) = true ->
    tree_to_sbml gen_facts fd args = Ok m ->
    eval_fn ufn rho fd args = Some v ->
    eval_ml ufn rho m = Some v.
Proof. exact (tree_to_sbml_sound_body gen_facts (doc_good_math gen_facts C08_facts_good)). Qed.
Print Assumptions C08_any_body_sound_partial.

(** ... because a body with ANY statement that is not `return <expr>` -- an intermediate assignment, a bare return, an
    if / for / augmented assignment -- makes the export raise: nothing is silently dropped *)
Theorem C08_non_return_statement_refused :
  forall (fd : fundef) (args : list N) (s : stmt),
    In s (filter (fun s => negb (is_doc s)) (fd_body fd)) -> is_return_expr s = false ->
    exists er : err, tree_to_sbml gen_facts fd args = Err er.
Proof. exact (non_return_refused gen_facts (doc_good_math gen_facts C08_facts_good)). Qed.
Print Assumptions C08_non_return_statement_refused.

(** regression (seeded C08-4): a _handle_body that converts only the LAST statement exports the saturating law
      def f(s, vmax, km): s = s / (km + s); return vmax * s
    as vmax * s: 12/5 becomes 6 *)
Theorem C08_last_only_refuted :
  exists (fd : fundef) (args : list N) (m : ml),
    no_dead_code (fd_body fd) = true
    /\ tree_to_sbml (set_body BodyLastOnly gen_facts) fd args = Ok m
    /\ eval_fn no_fn rho_sat fd args = Some (12 # 5) /\ eval_ml no_fn rho_sat m = Some 6.
Proof. exact last_only_refuted. Qed.
Print Assumptions C08_last_only_refuted.

(** LIBRARY-SPECIFIC FUNCTIONS (closing pass): the call tables are looked up by attribute name only, whatever the library
    (math / np / numpy); `remainder` is the one name that means two different functions -- numpy.remainder is the floored
    modulo, math.remainder the IEEE 754 remainder.  [eval_py] gives each its own meaning ([py_fn lib]); C08_facts_good
    demands every table entry to be right for EVERY library.  On the tree every two-argument remainder call is refused: *)
Theorem C08_remainder_refused :
  forall p : string,
    exists er : err, conv gen_facts (ECallAttr p "remainder" (ECons (EName 0) (ECons (EInt 3) ENil)) false) = Err er.
Proof. exact remainder_refused. Qed.
Print Assumptions C08_remainder_refused.

(** regression (seeded C08-6): with "remainder" moved from UNARY to BINARY, math.remainder(x, 3) at x = 5 is -1 and the
    exported <rem/> is 2 ([rem_fn] computes both remainders exactly) *)
Theorem C08_math_remainder_as_rem_refuted :
  exists (e : expr) (m : ml),
    conv (remainder_binary gen_facts) e = Ok m
    /\ eval_py rem_fn (at_ 5) e = Some (-1 # 1) /\ eval_ml rem_fn (at_ 5) m = Some (2 # 1).
Proof. exact math_remainder_refuted. Qed.
Print Assumptions C08_math_remainder_as_rem_refuted.

(** a construct the exporter cannot represent makes the export raise: the converter accepts
    EXACTLY the expressions built from table entries ([supported]: every operator, comparison,
    call name + arity, attribute is in the regenerated tables; no keywords; no other node) *)
Theorem C08_unsupported_raises :
  forall e : expr, supported gen_facts e = false -> exists er : err, conv gen_facts e = Err er.
Proof. exact (unsupported_raises gen_facts (good_strict gen_facts (doc_good_math gen_facts C08_facts_good))). Qed.
Print Assumptions C08_unsupported_raises.

(** ... and nothing representable is refused *)
Theorem C08_supported_exported :
  forall e : expr, supported gen_facts e = true -> exists m : ml, conv gen_facts e = Ok m.
Proof. exact (supported_exported gen_facts (good_strict gen_facts (doc_good_math gen_facts C08_facts_good))). Qed.
Print Assumptions C08_supported_exported.

(** reactions: the rate law keeps its meaning, and every stoichiometric coefficient -- integer or
    fractional of either sign, or computed by a function (whatever its sign at run time) -- is
    reproduced by the SBML meaning of the species reference written for it (reactant = negative,
    product = positive, assignment rule bound to the reference) *)
Theorem C08_reaction_roundtrip :
  forall (ufn : rfun -> list Q -> option Q) (rho : N -> option Q) (r : reaction) (sx : sbml_reaction) (e : expr),
    filter (fun s => negb (is_doc s)) (fd_body (r_fn r)) = [SReturn e] ->
    Forall (fun xc : N * coef =>
              match snd xc with
              | CDyn f _ => exists e' : expr, filter (fun s => negb (is_doc s)) (fd_body f) = [SReturn e']
              | _ => True
              end) (r_stoich r) ->
    export_reaction gen_facts r = Ok sx ->
    (forall v : Q, eval_fn ufn rho (r_fn r) (r_args r) = Some v -> eval_ml ufn rho (sx_law sx) = Some v)
    /\ Forall2 (fun (xc : N * coef) (s : sref) =>
                  sr_species s = fst xc
                  /\ forall q : Q, coef_value ufn rho (snd xc) = Some q -> sref_coef ufn rho s = Some q)
               (r_stoich r) (sx_refs sx).
Proof. exact (fun ufn rho => export_reaction_sound ufn rho gen_facts C08_facts_good). Qed.
Print Assumptions C08_reaction_roundtrip.

(** the same through the importer: pysbml / libSBML are external, what they compute is a variable
    and that they implement the SBML meaning is a hypothesis *)
Theorem C08_reaction_roundtrip_import :
  forall (ufn : rfun -> list Q -> option Q) (rho : N -> option Q)
         (imported_rate : ml -> option Q) (imported_coef : sref -> option Q),
    (forall m : ml, imported_rate m = eval_ml ufn rho m) ->
    (forall s : sref, imported_coef s = sref_coef ufn rho s) ->
    forall (r : reaction) (sx : sbml_reaction) (e : expr),
      filter (fun s => negb (is_doc s)) (fd_body (r_fn r)) = [SReturn e] ->
      Forall (fun xc : N * coef =>
                match snd xc with
                | CDyn f _ => exists e' : expr, filter (fun s => negb (is_doc s)) (fd_body f) = [SReturn e']
                | _ => True
                end) (r_stoich r) ->
      export_reaction gen_facts r = Ok sx ->
      (forall v : Q, eval_fn ufn rho (r_fn r) (r_args r) = Some v -> imported_rate (sx_law sx) = Some v)
      /\ Forall2 (fun (xc : N * coef) (s : sref) =>
                    sr_species s = fst xc
                    /\ forall q : Q, coef_value ufn rho (snd xc) = Some q -> imported_coef s = Some q)
                 (r_stoich r) (sx_refs sx).
Proof.
  exact (fun ufn rho ir ic Hm Hs => reaction_roundtrip ufn rho ir ic Hm Hs gen_facts C08_facts_good).
Qed.
Print Assumptions C08_reaction_roundtrip_import.

(** initial assignments: exported (setSymbol) with the meaning of their function *)
Theorem C08_initial_assignment_sound :
  forall (ufn : rfun -> list Q -> option Q) (rho : N -> option Q) (f : fundef) (args : list N) (e : expr) (m : ml) (v : Q),
    filter (fun s => negb (is_doc s)) (fd_body f) = [SReturn e] ->
    export_initial_assignment gen_facts f args = Ok m ->
    eval_fn ufn rho f args = Some v ->
    eval_ml ufn rho m = Some v.
Proof. exact (fun ufn rho => initial_assignment_sound ufn rho gen_facts C08_facts_good). Qed.
Print Assumptions C08_initial_assignment_sound.

(** names: a name that needs no escaping is its own id, whatever the prefix; every non-empty name gets an id *)
Theorem C08_id_safe_identity :
  forall prefix s : string, safe_name s = true -> convert_id prefix s = Ok s.
Proof. exact id_safe_identity. Qed.
Print Assumptions C08_id_safe_identity.

Theorem C08_id_total :
  forall prefix s : string, s <> EmptyString -> exists t : string, convert_id prefix s = Ok t.
Proof. exact id_total. Qed.
Print Assumptions C08_id_total.

(** NAMES WITH ARBITRARY CODE POINTS (closing pass; [convert_id_u] = _convert_id_to_sbml over code points, Python's Unicode
    tables `\w` / str.isalpha as arbitrary functions [uword] / [ualpha]): every non-empty name -- Greek letters, digits of
    other scripts, anything -- gets a LEGAL SBML SId (a letter or underscore followed by ASCII letters, digits, underscores), so libSBML's setId cannot reject it *)
Theorem C08_id_legal_sid :
  forall (uword ualpha : N -> bool) (prefix s : list N),
    s <> [] -> legal_sid prefix = true ->
    exists t : list N, convert_id_u uword ualpha gen_escape prefix s = Ok t /\ legal_sid t = true.
Proof. exact (fun uword ualpha => id_legal_at uword ualpha gen_escape C08_escape_pinned). Qed.
Print Assumptions C08_id_legal_sid.

(** regression (seeded C08-5): with Python's Unicode-aware \W as the escaped class, 's' + GREEK SMALL LETTER ALPHA keeps
    the alpha and is not a legal SId; the two classes agree on pure ASCII names (why no ASCII test notices) *)
Theorem C08_unicode_word_class_refuted :
  exists s t : list N,
    s <> [] /\ convert_id_u (N.eqb 945) (N.eqb 945) EscUnicodeWord [67; 80; 68]%N s = Ok t /\ legal_sid t = false.
Proof. exact unicode_word_refuted. Qed.
Print Assumptions C08_unicode_word_class_refuted.

Theorem C08_unicode_word_class_partial :
  forall (uword ualpha : N -> bool) (prefix s : list N),
    forallb (fun c : N => N.ltb c 128) s = true ->
    convert_id_u uword ualpha EscUnicodeWord prefix s = convert_id_u uword ualpha EscAscii prefix s.
Proof. exact convert_ascii_agree. Qed.
Print Assumptions C08_unicode_word_class_partial.

(** IDENTIFIERS INSIDE THE DOCUMENT.  FULL statement: wherever the exporter refers to a component (inside the math, as the
    symbol of an initial assignment, as the id of a computed species reference vs. the variable of its rule) it uses the
    id under which the component is declared.
    (a) the exporter of fixes/C08-escaped-names-in-math.diff (fact MathIds) -- every name: *)
Theorem C08_math_ids_declared :
  forall prefix s : string,
    math_ref MathIds prefix s = convert_id prefix s
    /\ ia_symbol MathIds prefix s = convert_id prefix s
    /\ sref_id MathIds s = rule_variable s.
Proof. exact math_ids_declared. Qed.
Print Assumptions C08_math_ids_declared.

(** (b) whatever the regenerated fact is (MathRawNames on the tree as it is; recorded finding names-needing-escaping):
    proved for names that need no escaping *)
Theorem C08_math_names_partial :
  forall prefix s : string, safe_name s = true ->
    math_ref (f_math_names gen_facts) prefix s = convert_id prefix s
    /\ ia_symbol (f_math_names gen_facts) prefix s = convert_id prefix s
    /\ sref_id (f_math_names gen_facts) s = rule_variable s.
Proof. exact (math_names_safe (f_math_names gen_facts) gen_math_names_known). Qed.
Print Assumptions C08_math_names_partial.

Theorem C08_raw_names_refuted :
  exists s : string, s <> EmptyString
    /\ math_ref MathRawNames "PAR" s <> convert_id "PAR" s
    /\ ia_symbol MathRawNames "CPD" s <> convert_id "CPD" s
    /\ sref_id MathRawNames s <> rule_variable s.
Proof. exact raw_names_refuted. Qed.
Print Assumptions C08_raw_names_refuted.

(** FULL statement (false of the code; recorded finding names-needing-escaping):
      forall p a b, convert_id p a = convert_id p b -> a = b
    the escaping "__<ord>__" is not injective: *)
Theorem C08_id_injective_refuted :
  exists a b : string, a <> b /\ convert_id "CPD" a = convert_id "CPD" b.
Proof. exact id_injective_refuted. Qed.
Print Assumptions C08_id_injective_refuted.

(** REFERENCE IDS of computed coefficients.  A reference id is (species, index): index 1 is "<species>ref", index n > 1
    "<species>ref<n>".  FULL statement: every computed coefficient of the document is reproduced, after import, by the rule
    bound to ITS reference id.

    (a) the exporter of fixes/C08-stoichiometry-reference-per-coefficient.diff (fact RefCounted) -- no guard: *)
Theorem C08_document_computed_coefficients :
  forall (ufn : rfun -> list Q -> option Q) (rho : N -> option Q) (rs : list reaction)
         (k : key) (f : fundef) (a : list N) (e : expr) (m : ml) (q : Q),
    In (k, (f, a)) (doc_keyed (set_ref_id RefCounted gen_facts) rs) ->
    filter (fun s => negb (is_doc s)) (fd_body f) = [SReturn e] ->
    tree_to_sbml (set_ref_id RefCounted gen_facts) f a = Ok m ->
    eval_fn ufn rho f a = Some q ->
    imported_dyn_coef ufn rho (set_ref_id RefCounted gen_facts) rs k = Some q.
Proof.
  exact (fun ufn rho => document_computed_coefficients ufn rho (set_ref_id RefCounted gen_facts) C08_facts_good eq_refl).
Qed.
Print Assumptions C08_document_computed_coefficients.

Theorem C08_reference_rule_counted :
  forall (rs : list reaction) (x : key) (m : result ml),
    In (x, m) (doc_rules (set_ref_id RefCounted gen_facts) rs) ->
    rule_for x (doc_rules (set_ref_id RefCounted gen_facts) rs) = Some m.
Proof. exact (reference_rule_counted (set_ref_id RefCounted gen_facts) eq_refl). Qed.
Print Assumptions C08_reference_rule_counted.

(** (b) the exporter that names the reference after the species only (fact RefPerSpecies; recorded finding
    shared-stoichiometry-reference) -- proved when no reference id occurs twice, i.e. no species has a computed
    coefficient in two reactions.  (Both statements hold for the regenerated facts whatever the mode.) *)
Theorem C08_document_computed_coefficients_partial :
  forall (ufn : rfun -> list Q -> option Q) (rho : N -> option Q) (rs : list reaction)
         (k : key) (f : fundef) (a : list N) (e : expr) (m : ml) (q : Q),
    NoDup (map fst (doc_keyed gen_facts rs)) ->
    In (k, (f, a)) (doc_keyed gen_facts rs) ->
    filter (fun s => negb (is_doc s)) (fd_body f) = [SReturn e] ->
    tree_to_sbml gen_facts f a = Ok m ->
    eval_fn ufn rho f a = Some q ->
    imported_dyn_coef ufn rho gen_facts rs k = Some q.
Proof. exact (fun ufn rho => document_computed_coefficients_nodup ufn rho gen_facts C08_facts_good). Qed.
Print Assumptions C08_document_computed_coefficients_partial.

Theorem C08_reference_rule_partial :
  forall (rs : list reaction) (x : key) (m : result ml),
    NoDup (map fst (doc_rules gen_facts rs)) ->
    In (x, m) (doc_rules gen_facts rs) ->
    rule_for x (doc_rules gen_facts rs) = Some m.
Proof. exact (fun rs x m => rule_for_nodup (result ml) x m (doc_rules gen_facts rs)). Qed.
Print Assumptions C08_reference_rule_partial.

Theorem C08_reference_rule_refuted :
  exists (rs : list reaction) (x : key) (m m' : result ml),
    In (x, m) (doc_rules (set_ref_id RefPerSpecies gen_facts) rs)
    /\ rule_for x (doc_rules (set_ref_id RefPerSpecies gen_facts) rs) = Some m' /\ m <> m'.
Proof. exact shared_ref_refuted. Qed.
Print Assumptions C08_reference_rule_refuted.

(** ... and what that does to the model: a coefficient 1/2 comes back as -3/2 *)
Theorem C08_shared_reference_coefficient_refuted :
  exists (rs : list reaction) (k : key) (f : fundef) (a : list N),
    In (k, (f, a)) (doc_keyed (set_ref_id RefPerSpecies gen_facts) rs)
    /\ eval_fn no_fn (at_ 0) f a = Some (1 # 2)
    /\ imported_dyn_coef no_fn (at_ 0) (set_ref_id RefPerSpecies gen_facts) rs k = Some (- (3 # 2)).
Proof. exact shared_reference_coefficient_refuted. Qed.
Print Assumptions C08_shared_reference_coefficient_refuted.

(** PARAMETER RENAMING.  C08_math_sound above quantifies over ALL parameter lists and ALL argument lists: the model
    names may be a permutation of the function's own parameter names, overlap them, or repeat (simultaneous substitution).
    With one renaming pass per pair (fact RenSequential) the property fails: f(a, b) = a - b bound to [b, a] *)
Theorem C08_sequential_rename_refuted :
  exists (fd : fundef) (args : list N) (m : ml),
    tree_to_sbml (set_rename RenSequential gen_facts) fd args = Ok m
    /\ eval_fn no_fn (fun x : N => if N.eqb x 100 then Some 2 else Some 5) fd args = Some 3
    /\ eval_ml no_fn (fun x : N => if N.eqb x 100 then Some 2 else Some 5) m = Some 0.
Proof. exact sequential_rename_refuted. Qed.
Print Assumptions C08_sequential_rename_refuted.

(** ... and that is the only way it can fail: when no model name is the parameter of a later pair ([seq_safe]: in
    particular when the model names are disjoint from the function's parameter names, or line up with them), one pass per
    pair exports exactly what the simultaneous pass exports *)
Theorem C08_sequential_rename_partial :
  forall (fd : fundef) (args : list N),
    seq_safe (combine (fd_params fd) args) ->
    tree_to_sbml (set_rename RenSequential gen_facts) fd args = tree_to_sbml (set_rename RenSimultaneous gen_facts) fd args.
Proof. exact (tree_to_sbml_sequential_safe gen_facts). Qed.
Print Assumptions C08_sequential_rename_partial.

(** SESSIONS: "writing ANY model and reading the file back" -- every round trip of a session.  For ALL histories of
    writes and reads (paths reused, the same stem in several directories, several stems with one module name: [modname] is
    arbitrary), all documents, whatever parsing / code generation / execution compute ([transform], [exec], [size]) and
    whatever the clock does: every read returns the model of the document that is in the file it was given.

    (a) the loader of fixes/C08-reimport-stale-bytecode.diff (LoaderCompileSource) -- no guard: *)
Theorem C08_read_fresh :
  forall (doc src model : Type) (transform : doc -> src) (exec : src -> model) (size : src -> N) (modname : N -> N)
         (bytecode : bool) (ops : list (op doc)) (st : state doc src),
    run doc src model transform exec size modname (mkImportFacts ReadParseAlways LoaderCompileSource true) bytecode ops st
    = expected doc src model transform exec ops (st_files st).
Proof.
  exact (fun doc src model transform exec size modname bytecode =>
           read_fresh_compile doc src model transform exec size modname bytecode
                              (mkImportFacts ReadParseAlways LoaderCompileSource true) eq_refl eq_refl).
Qed.
Print Assumptions C08_read_fresh.

(** (b) the ordinary source loader (LoaderSourceCached; recorded finding stale-bytecode-on-reimport) -- proved when no
    byte code is cached (sys.dont_write_bytecode, the environment ./check runs in) ... *)
Theorem C08_read_fresh_partial :
  forall (doc src model : Type) (transform : doc -> src) (exec : src -> model) (size : src -> N) (modname : N -> N)
         (ops : list (op doc)) (st : state doc src),
    st_pyc st = [] ->
    run doc src model transform exec size modname (mkImportFacts ReadParseAlways LoaderSourceCached true) false ops st
    = expected doc src model transform exec ops (st_files st).
Proof.
  exact (fun doc src model transform exec size modname =>
           read_fresh_cached_off doc src model transform exec size modname false
                                 (mkImportFacts ReadParseAlways LoaderSourceCached true) eq_refl eq_refl eq_refl).
Qed.
Print Assumptions C08_read_fresh_partial.

(** ... or when every read happens in a later second than the read before it and than every cached entry *)
Theorem C08_read_fresh_partial_times :
  forall (doc src model : Type) (transform : doc -> src) (exec : src -> model) (size : src -> N) (modname : N -> N)
         (bytecode : bool) (ops : list (op doc)) (st : state doc src) (lo : N),
    Forall (fun e : N * (N * N * src) => N.le (fst (fst (snd e))) lo) (st_pyc st) ->
    times_increase doc ops lo ->
    run doc src model transform exec size modname (mkImportFacts ReadParseAlways LoaderSourceCached true) bytecode ops st
    = expected doc src model transform exec ops (st_files st).
Proof.
  exact (fun doc src model transform exec size modname bytecode =>
           read_fresh_cached_times doc src model transform exec size modname bytecode
                                   (mkImportFacts ReadParseAlways LoaderSourceCached true) eq_refl eq_refl).
Qed.
Print Assumptions C08_read_fresh_partial_times.

(** refuted without the guard: write 1, read, write 2 over it, read within the same second, same size -> 1 again *)
Theorem C08_stale_bytecode_refuted :
  exists ops : list (op N),
    run_n (mkImportFacts ReadParseAlways LoaderSourceCached true) true ops = [Some 1%N; Some 1%N]
    /\ expected_n ops = [Some 1%N; Some 2%N].
Proof. exact stale_bytecode_refuted. Qed.
Print Assumptions C08_stale_bytecode_refuted.

(** regression: a read() that reuses the module found in sys.modules under the stem's name returns the first model for
    an edited file and for a file of the same name in another directory, however far apart in time *)
Theorem C08_read_module_cache_refuted :
  exists ops : list (op N),
    times_increase N ops 0
    /\ run_n (mkImportFacts ReadModuleByStem LoaderCompileSource true) false ops = [Some 1%N; Some 1%N; Some 1%N]
    /\ expected_n ops = [Some 1%N; Some 2%N; Some 3%N].
Proof. exact module_by_stem_refuted. Qed.
Print Assumptions C08_read_module_cache_refuted.

(** outside the property's quantifier (single-expression rate laws), recorded in design/C08.md: the
    exporter converts the LAST statement of a body, Python returns at the FIRST return *)
Theorem C08_last_statement_refuted :
  exists (fd : fundef) (m : ml),
    tree_to_sbml gen_facts fd [] = Ok m
    /\ eval_fn no_fn (at_ 0) fd [] = Some 1 /\ eval_ml no_fn (at_ 0) m = Some 7.
Proof. exact last_statement_refuted. Qed.
Print Assumptions C08_last_statement_refuted.

(** REGRESSION WITNESSES: with the value a fact had before its repair the property fails
    (commits 7adfc9a, e2724ba, f62d241, 0cf2119, 22ac673 and fixes/C08-log10-base.diff) *)
Theorem C08_old_ifexp_order_refuted :
  exists (e : expr) (m : ml),
    conv (set_ifexp_order [CTest; CBody; COrelse] gen_facts) e = Ok m
    /\ eval_py no_fn (at_ 0) e = Some 5 /\ eval_ml no_fn (at_ 0) m = Some 1.
Proof. exact old_ifexp_order_refuted. Qed.
Print Assumptions C08_old_ifexp_order_refuted.

Theorem C08_old_compare_refuted :
  exists (e : expr) (m : ml),
    conv (set_compare CmpFirstOnly gen_facts) e = Ok m
    /\ eval_py no_fn (at_ 5) e = Some 0 /\ eval_ml no_fn (at_ 5) m = Some 1.
Proof. exact old_compare_refuted. Qed.
Print Assumptions C08_old_compare_refuted.

Theorem C08_old_call_fallback_refuted :
  exists (e : expr) (m : ml),
    conv (set_call CallAnonymous false false gen_facts) e = Ok m
    /\ eval_py one_fn (at_ 2) e = Some 1 /\ eval_ml one_fn (at_ 2) m = None.
Proof. exact old_call_fallback_refuted. Qed.
Print Assumptions C08_old_call_fallback_refuted.

Theorem C08_old_log10_refuted :
  exists (e : expr) (m : ml),
    conv (set_unary_qual [] gen_facts) e = Ok m
    /\ eval_py one_fn (at_ 2) e = Some 1 /\ eval_ml one_fn (at_ 2) m = None.
Proof. exact old_log10_refuted. Qed.
Print Assumptions C08_old_log10_refuted.

Theorem C08_old_derived_role_refuted :
  exists (c : coef) (s : sref),
    export_coef (set_derived_role Reactant gen_facts) 7 c = Ok s
    /\ coef_value no_fn (at_ 0) c = Some (3 # 2) /\ sref_coef no_fn (at_ 0) s = Some (-3 # 2).
Proof. exact old_derived_role_refuted. Qed.
Print Assumptions C08_old_derived_role_refuted.

Theorem C08_old_ia_setter_refuted :
  forall (f : fundef) (args : list N),
    export_initial_assignment (set_ia_setter IaSetVariable gen_facts) f args = Err ErrAttribute.
Proof. exact old_ia_setter_refuted. Qed.
Print Assumptions C08_old_ia_setter_refuted.

(** non-vacuity: a rate law with a chained comparison, a conditional, a power, a table function and a
    fractional constant is representable, exported, and has a value that the MathML reproduces;
    a reaction with a negative fraction and a computed negative coefficient is exported *)
Example C08_nonvacuous :
  let law := mkFun [0; 1]%N
               [SDoc; SReturn (EBin BDiv
                                 (EIf (ECmp (EInt 1) (ChCons CLt (EName 0) (ChCons CLe (EName 1) ChNil)))
                                      (EBin BMul (EBin BMul (EName 0) (EName 0)) (EReal (3 # 2)))
                                      (EUn UNeg (EBin BPow (ECallName "max" (ECons (EName 1) (ECons (EInt 4) ENil)) false) (EInt 2))))
                                 (EReal (1 # 2)))] in
  let rho := fun x : N => if N.eqb x 100 then Some 2 else if N.eqb x 200 then Some 3 else None in
  let r := mkRxn law [100; 200]%N
                 [(100%N, CNum (-3 # 2)); (101%N, CDyn (mkFun [0%N] [SReturn (EUn UNeg (EBin BMul (EName 0) (EReal (1 # 2))))]) [200%N])] in
  (exists e, filter (fun s => negb (is_doc s)) (fd_body law) = [SReturn e] /\ supported gen_facts e = true)
  /\ (exists m, tree_to_sbml gen_facts law [100; 200]%N = Ok m
                /\ eval_fn no_fn rho law [100; 200]%N = Some (24 # 2) /\ eval_ml no_fn rho m = Some (24 # 2))
  /\ (exists sx, export_reaction gen_facts r = Ok sx
                 /\ map (sref_coef no_fn rho) (sx_refs sx) = [Some (-3 # 2); Some (-3 # 2)]).
Proof.
  cbv zeta. split; [|split].
  - eexists. split; [reflexivity|vm_compute; reflexivity].
  - eexists. split; [vm_compute; reflexivity|]. split; vm_compute; reflexivity.
  - eexists. split; [vm_compute; reflexivity|vm_compute; reflexivity].
Qed.

(** non-vacuity of the renaming clause: a function whose own parameter names are the model names it is bound to in swapped
    order, and one bound twice to the same model name, are exported with the meaning Python gives them; a session with a
    reused path, a second directory and a shared module name meets the hypotheses of the session theorems *)
Example C08_permuting_rename_nonvacuous :
  let rho := fun x : N => if N.eqb x 100 then Some 2 else Some 5 in
  let f := mkFun [100; 101]%N [SReturn (EBin BSub (EName 100) (EName 101))] in
  (exists m, tree_to_sbml gen_facts f [101; 100]%N = Ok m
             /\ eval_fn no_fn rho f [101; 100]%N = Some 3 /\ eval_ml no_fn rho m = Some 3)
  /\ (exists m, tree_to_sbml gen_facts f [101; 101]%N = Ok m
                /\ eval_fn no_fn rho f [101; 101]%N = Some 0 /\ eval_ml no_fn rho m = Some 0)
  /\ (let ops := [OWrite (0, 0)%N 1%N; ORead (0, 0)%N 5%N; OWrite (0, 0)%N 2%N; ORead (0, 0)%N 5%N;
                   OWrite (1, 0)%N 3%N; ORead (1, 0)%N 5%N; OWrite (1, 9)%N 4%N; ORead (1, 9)%N 5%N] in
       run N N N idN idN (fun _ => 7%N) (fun _ => 0%N) (mkImportFacts ReadParseAlways LoaderCompileSource true) true ops (mkState [] [] [])
       = [Some 1%N; Some 2%N; Some 3%N; Some 4%N]).
Proof.
  cbv zeta. split; [|split].
  - eexists. split; [vm_compute; reflexivity|]. split; vm_compute; reflexivity.
  - eexists. split; [vm_compute; reflexivity|]. split; vm_compute; reflexivity.
  - vm_compute. reflexivity.
Qed.

(** non-vacuity of the closing-pass statements: a body with a docstring and one return has no dead code and is exported;
    the saturating law with an intermediate assignment has no dead code, has a Python value and IS refused; a name with a
    Greek letter gets the legal id s__945__ *)
Example C08_closing_nonvacuous :
  (no_dead_code (filter (fun s => negb (is_doc s)) (fd_body saturating_law)) = true
   /\ eval_fn no_fn rho_sat saturating_law [100; 200; 201]%N = Some (12 # 5)
   /\ exists er, tree_to_sbml gen_facts saturating_law [100; 200; 201]%N = Err er)
  /\ (exists m, tree_to_sbml gen_facts (mkFun [0]%N [SDoc; SReturn (EBin BMul (EName 0) (EInt 2))]) [100]%N = Ok m
                /\ eval_ml no_fn rho_sat m = Some 4)
  /\ convert_id_u (N.eqb 945) (N.eqb 945) gen_escape [67; 80; 68]%N [115; 945]%N = Ok [115; 95; 95; 57; 52; 53; 95; 95]%N.
Proof.
  split; [|split].
  - split; [vm_compute; reflexivity|]. split; [vm_compute; reflexivity|]. exact saturating_law_refused.
  - eexists. split; [vm_compute; reflexivity|]. vm_compute. reflexivity.
  - vm_compute. reflexivity.
Qed.
