(** Corr -- comparison functions used by the harness-written correspondence files (corr/*.v). *)
From Coq Require Import ZArith QArith List Bool String.
Import ListNotations.
From MxlBase Require Import ListX.
From SbmlExp Require Import SbmlMath SbmlId SbmlIdU SbmlDoc GenSbmlFacts.

Definition math_case := (fundef * list N * result ml)%type.
Definition math_mismatches (cases : list math_case) : list nat :=
  filter_idx (fun c => match c with (fd, args, exp) => negb (res_eqb ml_eqb (tree_to_sbml gen_facts fd args) exp) end) cases.

Definition id_case := (string * string * result string)%type.
Definition id_mismatches (cases : list id_case) : list nat :=
  filter_idx (fun c => match c with (p, s, exp) => negb (res_string_eqb (convert_id p s) exp) end) cases.

Definition role_eqb (a b : role) : bool :=
  match a, b with Reactant, Reactant | Product, Product => true | _, _ => false end.
Definition opt_eqb {A} (eqb : A -> A -> bool) (a b : option A) : bool :=
  match a, b with Some x, Some y => eqb x y | None, None => true | _, _ => false end.
Definition sref_eqb (a b : sref) : bool :=
  role_eqb (sr_role a) (sr_role b) && N.eqb (sr_species a) (sr_species b)
  && opt_eqb q_eqb (sr_stoich a) (sr_stoich b) && opt_eqb ml_eqb (sr_rule a) (sr_rule b).
Definition is_role (r : role) (s : sref) : bool := role_eqb r (sr_role s).

(** the document keeps reactants and products in two lists: compare them separately, in order *)
Definition srxn_eqb (a b : sbml_reaction) : bool :=
  list_eqb sref_eqb (filter (is_role Reactant) (sx_refs a)) (filter (is_role Reactant) (sx_refs b))
  && list_eqb sref_eqb (filter (is_role Product) (sx_refs a)) (filter (is_role Product) (sx_refs b))
  && ml_eqb (sx_law a) (sx_law b).

Definition rxn_case := (reaction * result sbml_reaction)%type.
Definition rxn_mismatches (cases : list rxn_case) : list nat :=
  filter_idx (fun c => match c with (r, exp) => negb (res_eqb srxn_eqb (export_reaction gen_facts r) exp) end) cases.

Definition ia_case := (fundef * list N * result ml)%type.
Definition ia_mismatches (cases : list ia_case) : list nat :=
  filter_idx (fun c => match c with (fd, args, exp) => negb (res_eqb ml_eqb (export_initial_assignment gen_facts fd args) exp) end) cases.

(** reference ids (species, index) of the computed coefficients of a whole document, in document order: the ids of the
    species references sbml.write created and the variables of the assignment rules it wrote for them *)
Definition refs_case := (list reaction * list (N * N))%type.
Definition refs_mismatches (cases : list refs_case) : list nat :=
  filter_idx (fun c => match c with (rs, exp) => negb (list_eqb key_eqb (map fst (doc_keyed gen_facts rs)) exp) end) cases.

(** sessions of sbml.write / sbml.read: documents are numbered (the number is read off the model that came back), stems
    are numbered, [mods] is valid_filename on the stems that occur, [sizes] the size of the module generated for each
    document, every read carries the second in which the generated file was written; [bc] = byte-code caching on *)
From SbmlExp Require Import SbmlSession.
Definition tabN (l : list (N * N)) (x : N) : N := match assoc_by N.eqb x l with Some v => v | None => x end.
Definition sess_case := (bool * list (N * N) * list (N * N) * list (op N) * list (option N))%type.
Definition sess_mismatches (cases : list sess_case) : list nat :=
  filter_idx (fun c => match c with (bc, mods, sizes, ops, exp) =>
    negb (list_eqb (opt_eqb N.eqb)
            (run N N N (fun d => d) (fun s => s) (tabN sizes) (tabN mods) gen_import_facts bc ops (mkState [] [] [])) exp) end) cases.

(** identifiers of a written document: (which reference, prefix of the component's kind, name, what the document contains) *)
Inductive refkind := RMath | RIaSymbol | RSrefId | RRuleVariable | RDeclared.
Definition nameref_case := (refkind * string * string * result string)%type.
Definition nameref_mismatches (cases : list nameref_case) : list nat :=
  filter_idx (fun c => match c with (k, prefix, s, exp) =>
    negb (res_string_eqb
            (match k with
             | RMath => math_ref (f_math_names gen_facts) prefix s
             | RIaSymbol => ia_symbol (f_math_names gen_facts) prefix s
             | RSrefId => sref_id (f_math_names gen_facts) s
             | RRuleVariable => rule_variable s
             | RDeclared => convert_id prefix s
             end) exp) end) cases.

(** ids of names with arbitrary code points: (prefix, name, non-ASCII code points of the name that Python's `\w` matches,
    those for which str.isalpha holds, what _convert_id_to_sbml returned) -- all as code point lists; the model runs on the
    REGENERATED character class [gen_escape] *)
Definition idu_case := (list N * list N * list N * list N * result (list N))%type.
Definition idu_mismatches (cases : list idu_case) : list nat :=
  filter_idx (fun c => match c with (prefix, name, words, alphas, exp) =>
    negb (res_eqb listN_eqb (convert_id_u (memN words) (memN alphas) gen_escape prefix name) exp) end) cases.
