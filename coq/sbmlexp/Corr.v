(** Corr -- comparison functions used by the harness-written correspondence files (corr/*.v). *)
From Coq Require Import ZArith QArith List Bool String.
Import ListNotations.
From MxlBase Require Import ListX.
From SbmlExp Require Import SbmlMath SbmlId SbmlDoc GenSbmlFacts.

Definition math_case := (fundef * list N * result ml)%type.
Definition math_mismatches (cases : list math_case) : list nat :=
  filter_idx (fun c => match c with (fd, args, exp) => negb (res_eqb ml_eqb (tree_to_sbml gen_facts fd args) exp) end) cases.

Definition id_case := (string * string * result string)%type.
Definition id_mismatches (cases : list id_case) : list nat :=
  filter_idx (fun c => match c with (p, s, exp) => negb (res_string_eqb (convert_id p s) exp) end) cases.

Definition role_eqb (a b : role) : bool :=
  match a, b with Reactant, Reactant | Product, Product => true | _, _ => false end.
Definition opt_eqb {A} (eqb : A -> A -> bool) (a b : option A) : bool :=
  match a, b with Some x, Some y => eqb x y | None, None => true | _, _ => false end.
Definition sref_eqb (a b : sref) : bool :=
  role_eqb (sr_role a) (sr_role b) && N.eqb (sr_species a) (sr_species b)
  && opt_eqb q_eqb (sr_stoich a) (sr_stoich b) && opt_eqb ml_eqb (sr_rule a) (sr_rule b).
Definition is_role (r : role) (s : sref) : bool := role_eqb r (sr_role s).

(** the document keeps reactants and products in two lists: compare them separately, in order *)
Definition srxn_eqb (a b : sbml_reaction) : bool :=
  list_eqb sref_eqb (filter (is_role Reactant) (sx_refs a)) (filter (is_role Reactant) (sx_refs b))
  && list_eqb sref_eqb (filter (is_role Product) (sx_refs a)) (filter (is_role Product) (sx_refs b))
  && ml_eqb (sx_law a) (sx_law b).

Definition rxn_case := (reaction * result sbml_reaction)%type.
Definition rxn_mismatches (cases : list rxn_case) : list nat :=
  filter_idx (fun c => match c with (r, exp) => negb (res_eqb srxn_eqb (export_reaction gen_facts r) exp) end) cases.

Definition ia_case := (fundef * list N * result ml)%type.
Definition ia_mismatches (cases : list ia_case) : list nat :=
  filter_idx (fun c => match c with (fd, args, exp) => negb (res_eqb ml_eqb (export_initial_assignment gen_facts fd args) exp) end) cases.
