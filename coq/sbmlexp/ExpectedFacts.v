(** Hand-edited (only together with a [fix:] commit in /repo; use tools/c08_switch.py): the values PropsC08.v expects
    the extractors to regenerate from the current tree for the facts whose repair is PROPOSED but not yet applied.

    [C08_expected_ref_id]   (harness/c08_extract.py, _export.py::_create_sbml_reactions)
      RefPerSpecies  the tree as it is: the species reference / assignment rule of a computed coefficient is named
                     "<species>ref" whatever the reaction (recorded finding shared-stoichiometry-reference; theorems
                     C08_reference_rule_partial / C08_reference_rule_refuted / C08_shared_reference_coefficient_refuted
                     describe the tree)
      RefCounted     after fixes/C08-stoichiometry-reference-per-coefficient.diff: "<species>ref", "<species>ref2", ...
                     (theorems C08_reference_rule_counted / C08_document_computed_coefficients describe the tree)

    [C08_expected_loader]   (harness/c08_extract.py::extract_import, _import.py::import_from_path)
      LoaderSourceCached   the tree as it is: the generated module is imported with the ordinary source loader, which
                           trusts cached byte code with the same mtime (seconds) and size (recorded finding
                           stale-bytecode-on-reimport; C08_read_fresh_partial / C08_stale_bytecode_refuted describe the tree)
      LoaderCompileSource  after fixes/C08-reimport-stale-bytecode.diff: the source just written is compiled
                           (C08_read_fresh describes the tree)

    [C08_expected_math_names]   (harness/c08_extract.py, _export.py::_sbmlify_fn and the _create_sbml_* functions)
      MathRawNames  the tree as it is: the math refers to the model's names, the symbol of an initial assignment carries
                    the prefix "IA", the id of a computed species reference the prefix "CPD" while its rule is "AR": equal to
                    the declared ids only for names that need no escaping (recorded finding names-needing-escaping;
                    C08_math_names_partial / C08_raw_names_refuted describe the tree)
      MathIds       after fixes/C08-escaped-names-in-math.diff: every reference uses the declared id
                    (C08_math_ids_declared describes the tree; the NAME a component is found under after import still
                    changes -- that part of the finding stays) *)
From SbmlExp Require Import SbmlMath SbmlSession.

Definition C08_expected_ref_id : refid_mode := RefCounted.
Definition C08_expected_loader : loader_mode := LoaderCompileSource.
Definition C08_expected_math_names : math_names := MathIds.
