(** SbmlMathProofs -- the exported MathML means what the Python expression computes (for every
    expression the converter accepts), the converter accepts exactly the representable subset,
    renaming of parameters to model names, single-expression function bodies. *)
From Coq Require Import ZArith QArith List Bool String Lia.
Import ListNotations.
From SbmlExp Require Import SbmlMath.

(* ------------------------------------------------------------------------------------- *)
(** * table lookups *)
Lemma lookup_s_in : forall A (k : string) (l : list (string * A)) v, lookup_s k l = Some v -> In (k, v) l.
Proof.
  induction l as [|[k' v'] r IH]; cbn; intros v H; [discriminate|].
  destruct (String.eqb k k') eqn:E.
  - apply String.eqb_eq in E. inversion H. subst. now left.
  - right. now apply IH.
Qed.

Lemma lookup_by_in : forall K A (eqb : K -> K -> bool) (Heq : forall a b, eqb a b = true -> a = b)
    (k : K) (l : list (K * A)) v, lookup_by eqb k l = Some v -> In (k, v) l.
Proof.
  induction l as [|[k' v'] r IH]; cbn; intros v H; [discriminate|].
  destruct (eqb k k') eqn:E.
  - apply Heq in E. inversion H. subst. now left.
  - right. now apply IH.
Qed.

Lemma forallb_in : forall A (f : A -> bool) l x, forallb f l = true -> In x l -> f x = true.
Proof. intros A f l x H Hin. rewrite forallb_forall in H. now apply H. Qed.

Lemma mem_s_in : forall k l, mem_s k l = true -> In k l.
Proof.
  unfold mem_s. intros k l H. apply existsb_exists in H. destruct H as [x [Hin E]].
  apply String.eqb_eq in E. now subst.
Qed.

(* ------------------------------------------------------------------------------------- *)
(** * facts_good, unpacked *)
Record Good (F : facts) : Prop := mkGood {
  g_compare : f_compare F = CmpAndPairs;
  g_fallback : f_call_fallback F = CallRaise;
  g_arity : f_call_arity F = true;
  g_kw : f_call_kw_reject F = true;
  g_unop : forallb unop_ok (f_unop F) = true;
  g_binop : forallb binop_ok (f_binop F) = true;
  g_cmpop : forallb cmpop_ok (f_cmpop F) = true;
  g_unary : forallb (unary_ok F) (f_unary F) = true;
  g_binary : forallb binary_ok (f_binary F) = true;
  g_nary : forallb nary_ok (f_nary F) = true;
  g_order : f_ifexp_order F = [CBody; CTest; COrelse];
  g_lib : forallb is_lib (f_lib_parents F) = true;
  g_attr : forallb attr_ok (f_attr_consts F) = true;
  g_rename : f_rename F = RenSimultaneous;
  g_body : f_body F = BodyAllLast
}.

Lemma order_eqb_eq : forall a b, order_eqb a b = true -> a = b.
Proof.
  induction a as [|x r IH]; destruct b as [|y r']; cbn; intros H; try discriminate; auto.
  apply andb_prop in H. destruct H as [H1 H2]. f_equal; [|now apply IH].
  destruct x, y; cbn in H1; try discriminate; reflexivity.
Qed.

Lemma facts_good_Good : forall F, facts_good F = true -> Good F.
Proof.
  intros F H. unfold facts_good in H.
  repeat (apply andb_prop in H; let H' := fresh "H" in destruct H as [H H']).
  unfold facts_strict in H.
  destruct (f_compare F) eqn:Ec; try discriminate.
  destruct (f_call_fallback F) eqn:Ef; try discriminate.
  apply andb_prop in H. destruct H as [Ha Hk].
  destruct (f_rename F) eqn:Er; try discriminate.
  destruct (f_body F) eqn:Eb; try discriminate.
  constructor; auto using order_eqb_eq.
Qed.

(* ------------------------------------------------------------------------------------- *)
(** * one node *)
Section Node.
  Variable ufn : rfun -> list Q -> option Q.
  Variable rho : N -> option Q.
  Notation eval_ml := (eval_ml ufn rho).
  Notation eval_mls := (eval_mls ufn rho).

  Lemma truthy_ofb : forall b, truthy (ofb b) = b.
  Proof. destruct b; reflexivity. Qed.

  (** a node that is evaluated by evaluating all children and applying the operator *)
  Definition strict_kind (k : mkind) : bool :=
    match k with K_FUNCTION_PIECEWISE | K_LOGICAL_AND | K_FUNCTION | K_OTHER => false | _ => true end.

  Lemma eval_strict : forall k ms vs,
    strict_kind k = true -> eval_mls ms = Some vs -> eval_ml (MApp k ms) = apply_kind ufn k vs.
  Proof. intros k ms vs Hk H. destruct k; try discriminate Hk; cbn [SbmlMath.eval_ml]; fold eval_mls; rewrite H; reflexivity. Qed.

  Lemma eval_mls1 : forall a va, eval_ml a = Some va -> eval_mls (MCons a MNil) = Some [va].
  Proof. intros a va H. cbn. fold eval_ml. now rewrite H. Qed.

  Lemma eval_mls2 : forall a b va vb,
    eval_ml a = Some va -> eval_ml b = Some vb -> eval_mls (MCons a (MCons b MNil)) = Some [va; vb].
  Proof. intros a b va vb Ha Hb. cbn. fold eval_ml. now rewrite Ha, Hb. Qed.

  Lemma unop_node : forall op k a va v,
    unop_ok (op, k) = true -> eval_ml a = Some va -> un_sem op va = Some v ->
    eval_ml (MApp k (MCons a MNil)) = Some v.
  Proof.
    intros op k a va v Hok Ha Hv.
    destruct op, k; try discriminate Hok;
      (rewrite (eval_strict _ _ [va]); [|reflexivity|now apply eval_mls1]); cbn in *; assumption.
  Qed.

  Lemma binop_node : forall op k a b va vb v,
    binop_ok (op, k) = true -> eval_ml a = Some va -> eval_ml b = Some vb -> bin_sem ufn op va vb = Some v ->
    eval_ml (MApp k (MCons a (MCons b MNil))) = Some v.
  Proof.
    intros op k a b va vb v Hok Ha Hb Hv.
    destruct op, k; try discriminate Hok;
      (rewrite (eval_strict _ _ [va; vb]); [|reflexivity|now apply eval_mls2]);
      cbn in *; try assumption;
      destruct (Qeq_bool vb 0); (discriminate || assumption).
  Qed.

  Lemma cmpop_eq : forall a b, cmpop_beq a b = true -> a = b.
  Proof. destruct a, b; cbn; intros H; try discriminate; reflexivity. Qed.
  Lemma unop_eq : forall a b, unop_beq a b = true -> a = b.
  Proof. destruct a, b; cbn; intros H; try discriminate; reflexivity. Qed.
  Lemma binop_eq : forall a b, binop_beq a b = true -> a = b.
  Proof. destruct a, b; cbn; intros H; try discriminate; reflexivity. Qed.

  Lemma cmp_node : forall op k a b va vb c,
    cmpop_ok (op, k) = true -> eval_ml a = Some va -> eval_ml b = Some vb -> cmp_sem op va vb = Some c ->
    eval_ml (MApp k (MCons a (MCons b MNil))) = Some (ofb c).
  Proof.
    intros op k a b va vb c Hok Ha Hb Hc. unfold cmpop_ok in Hok. cbn [fst snd] in Hok.
    destruct (rel_of_kind k) as [op'|] eqn:Er; [|discriminate].
    apply cmpop_eq in Hok. subst op'.
    destruct k; try discriminate Er;
      (rewrite (eval_strict _ _ [va; vb]); [|reflexivity|now apply eval_mls2]);
      cbn in Er; inversion Er; subst op; cbn in *; inversion Hc; reflexivity.
  Qed.
End Node.

(* ------------------------------------------------------------------------------------- *)
(** * table-driven calls *)
Section Calls.
  Variable F : facts.
  Hypothesis G : Good F.
  Variable ufn : rfun -> list Q -> option Q.
  Variable rho : N -> option Q.
  Notation eval_ml := (eval_ml ufn rho).
  Notation eval_mls := (eval_mls ufn rho).

  Lemma rfun_eq : forall a b, rfun_beq a b = true -> a = b.
  Proof. exact internal_rfun_dec_bl. Qed.

  Lemma mkind_eq : forall a b, mkind_beq a b = true -> a = b.
  Proof. exact internal_mkind_dec_bl. Qed.

  Lemma fn_entry : forall pyf mlf r, fn_entry_ok pyf mlf = true -> pyf = Some r -> mlf = Some r.
  Proof.
    intros pyf mlf r H E. subst pyf. cbn in H. destruct mlf as [r'|]; [|discriminate].
    apply rfun_eq in H. now subst.
  Qed.

  Lemma kind_fn_apply : forall k vs r,
    kind_fn k (List.length vs) = Some r -> strict_kind k = true /\ apply_kind ufn k vs = ufn r vs.
  Proof.
    intros k vs r H. unfold kind_fn in H.
    destruct k; try discriminate H; (split; [reflexivity|]); unfold apply_kind; rewrite H; reflexivity.
  Qed.

  Lemma libs_all : forall (f : pylib -> bool) lib, forallb f all_libs = true -> f lib = true.
  Proof.
    intros f lib H. unfold all_libs in H. cbn [forallb] in H.
    destruct lib; destruct (f LBare), (f LMath), (f LNumpy); try discriminate; reflexivity.
  Qed.

  Lemma unary_node : forall lib name k a va v m,
    In (name, k) (f_unary F) ->
    eval_ml a = Some va ->
    call_sem ufn lib name [va] = Some v ->
    match lookup_kind k (f_unary_qual F) with
    | Some z => Ok (MApp k (MCons (MInt z) (MCons a MNil)))
    | None => Ok (MApp k (MCons a MNil))
    end = Ok m ->
    eval_ml m = Some v.
  Proof.
    intros lib name k a va v m Hin Ha Hv Hm.
    pose proof (forallb_in _ _ _ _ (g_unary F G) Hin) as Hok. unfold unary_ok in Hok. cbn [fst snd] in Hok.
    apply (libs_all _ lib) in Hok. cbn beta in Hok.
    unfold call_sem in Hv. cbn [List.length] in Hv.
    destruct (py_fn lib name 1) as [r|] eqn:Epy; [|discriminate].
    pose proof (fn_entry _ _ r Hok eq_refl) as Hml. unfold unary_ml_fn in Hml.
    destruct (lookup_kind k (f_unary_qual F)) as [z|] eqn:Eq.
    - destruct k; try discriminate Hml.
      destruct (Z.eqb z 10) eqn:Ez; [|discriminate]. apply Z.eqb_eq in Ez. subst z.
      inversion Hml. subst r. inversion Hm. subst m.
      rewrite (eval_strict ufn rho K_FUNCTION_LOG _ [inject_Z 10; va]); [|reflexivity|].
      + cbn. exact Hv.
      + apply eval_mls2; [reflexivity|assumption].
    - inversion Hm. subst m.
      destruct (kind_fn_apply k [va] r Hml) as [Hs Happ].
      rewrite (eval_strict ufn rho k _ [va] Hs (eval_mls1 ufn rho a va Ha)). now rewrite Happ.
  Qed.

  Lemma binary_node : forall lib name k a b va vb v,
    In (name, k) (f_binary F) ->
    eval_ml a = Some va -> eval_ml b = Some vb ->
    call_sem ufn lib name [va; vb] = Some v ->
    eval_ml (MApp k (MCons a (MCons b MNil))) = Some v.
  Proof.
    intros lib name k a b va vb v Hin Ha Hb Hv.
    pose proof (forallb_in _ _ _ _ (g_binary F G) Hin) as Hok. unfold binary_ok in Hok. cbn [fst snd] in Hok.
    apply (libs_all _ lib) in Hok. cbn beta in Hok.
    unfold call_sem in Hv. cbn [List.length] in Hv.
    destruct (py_fn lib name 2) as [r|] eqn:Epy; [|discriminate].
    pose proof (fn_entry _ _ r Hok eq_refl) as Hml.
    destruct (kind_fn_apply k [va; vb] r Hml) as [Hs Happ].
    rewrite (eval_strict ufn rho k _ [va; vb] Hs (eval_mls2 ufn rho a b va vb Ha Hb)). now rewrite Happ.
  Qed.

  Lemma py_fn_max : forall lib n, n <> 0%nat -> py_fn lib "max" n = Some RMax.
  Proof. intros lib [|[|[|n]]] H; [congruence| | |]; reflexivity. Qed.
  Lemma py_fn_min : forall lib n, n <> 0%nat -> py_fn lib "min" n = Some RMin.
  Proof. intros lib [|[|[|n]]] H; [congruence| | |]; reflexivity. Qed.

  Lemma nary_node : forall lib name k ms vs v,
    In (name, k) (f_nary F) ->
    eval_mls ms = Some vs -> List.length vs <> 0%nat ->
    call_sem ufn lib name vs = Some v ->
    eval_ml (MApp k ms) = Some v.
  Proof.
    intros lib name k ms vs v Hin Hms Hn Hv.
    pose proof (forallb_in _ _ _ _ (g_nary F G) Hin) as Hok. unfold nary_ok in Hok. cbn [fst snd] in Hok.
    unfold call_sem in Hv.
    apply orb_prop in Hok. destruct Hok as [Hok|Hok]; apply andb_prop in Hok; destruct Hok as [Hname Hk];
      apply String.eqb_eq in Hname; apply mkind_eq in Hk; subst name k.
    - rewrite (py_fn_max lib _ Hn) in Hv.
      rewrite (eval_strict ufn rho K_FUNCTION_MAX ms vs eq_refl Hms). unfold apply_kind.
      destruct vs as [|x r]; [now elim Hn|]. exact Hv.
    - rewrite (py_fn_min lib _ Hn) in Hv.
      rewrite (eval_strict ufn rho K_FUNCTION_MIN ms vs eq_refl Hms). unfold apply_kind.
      destruct vs as [|x r]; [now elim Hn|]. exact Hv.
  Qed.
End Calls.

(* ------------------------------------------------------------------------------------- *)
(** * the converter preserves meaning *)
Section Sound.
  Variable F : facts.
  Hypothesis G : Good F.
  Variable ufn : rfun -> list Q -> option Q.
  Variable rho : N -> option Q.
  Notation eval_ml := (eval_ml ufn rho).
  Notation eval_mls := (eval_mls ufn rho).
  Notation eval_py := (eval_py ufn rho).
  Notation eval_list := (eval_list ufn rho).
  Notation eval_chain := (eval_chain ufn rho).

  Lemma eval_mls_cons : forall a r vs,
    eval_mls (MCons a r) = Some vs ->
    exists va vr, eval_ml a = Some va /\ eval_mls r = Some vr /\ vs = va :: vr.
  Proof.
    intros a r vs H. cbn in H. fold eval_ml eval_mls in H.
    destruct (eval_ml a) as [va|]; [|discriminate].
    destruct (eval_mls r) as [vr|]; [|discriminate].
    inversion H. eauto.
  Qed.

  Lemma eval_list_len : forall es vs, eval_list es = Some vs -> List.length vs = elen es.
  Proof.
    induction es as [|e r IH]; cbn; intros vs H.
    - inversion H. reflexivity.
    - fold eval_py eval_list in H. destruct (eval_py e); [|discriminate].
      destruct (eval_list r) as [vr|]; [|discriminate]. inversion H. cbn. f_equal. now apply IH.
  Qed.

  Lemma conv_list_cons : forall e r ms,
    conv_list F (ECons e r) = Ok ms ->
    exists e' r', conv F e = Ok e' /\ conv_list F r = Ok r' /\ ms = MCons e' r'.
  Proof.
    intros e r ms H.
    change (bind (conv F e) (fun e' => bind (conv_list F r) (fun r' => Ok (MCons e' r'))) = Ok ms) in H.
    destruct (conv F e) as [e'|]; [|discriminate].
    cbn [bind] in H. destruct (conv_list F r) as [r'|]; [|discriminate]. cbn [bind] in H. inversion H. eauto.
  Qed.

  Lemma conv_list_eq : forall e r,
    conv_list F (ECons e r) = bind (conv F e) (fun e' => bind (conv_list F r) (fun r' => Ok (MCons e' r'))).
  Proof. reflexivity. Qed.

  Lemma call_known_sound : forall lib name es vs m v,
    (forall ms, conv_list F es = Ok ms -> eval_mls ms = Some vs) -> List.length vs = elen es ->
    call_known F name (elen es)
      (match es with ECons a _ => Some (conv F a) | ENil => None end)
      (match es with ECons _ (ECons b _) => Some (conv F b) | _ => None end)
      (conv_list F es) = Ok m ->
    call_sem ufn lib name vs = Some v ->
    eval_ml m = Some v.
  Proof.
    intros lib name es vs m v Hall Hlen Hk Hv.
    assert (Hnary : forall k3, In (name, k3) (f_nary F) -> Nat.eqb (elen es) 0 = false ->
                    bind (conv_list F es) (fun ms => Ok (MApp k3 ms)) = Ok m -> eval_ml m = Some v).
    { intros k3 Hin N0 Hb. destruct (conv_list F es) as [ms|] eqn:Hc; [|discriminate].
      cbn [bind] in Hb. inversion Hb. subst m. apply Nat.eqb_neq in N0.
      eapply (nary_node F G ufn rho lib name k3 ms vs v); eauto. congruence. }
    assert (Hbin : forall k2, In (name, k2) (f_binary F) -> Nat.eqb (elen es) 2 = true ->
                   match (match es with ECons a _ => Some (conv F a) | ENil => None end) with
                   | None => Err ErrIndex
                   | Some r1 => bind r1 (fun a => match (match es with ECons _ (ECons b _) => Some (conv F b) | _ => None end) with
                                                  | None => Err ErrIndex
                                                  | Some r2 => bind r2 (fun b => Ok (MApp k2 (MCons a (MCons b MNil))))
                                                  end)
                   end = Ok m -> eval_ml m = Some v).
    { intros k2 Hin N2 Hb.
      destruct es as [|a [|b [|c r]]]; try discriminate N2.
      destruct (conv F a) as [a'|] eqn:Ha; [|discriminate]. cbn [bind] in Hb.
      destruct (conv F b) as [b'|] eqn:Hb'; [|discriminate]. cbn [bind] in Hb. inversion Hb. subst m.
      assert (Hc : conv_list F (ECons a (ECons b ENil)) = Ok (MCons a' (MCons b' MNil))).
      { rewrite conv_list_eq, Ha. cbn [bind]. rewrite conv_list_eq, Hb'. reflexivity. }
      destruct (eval_mls_cons _ _ _ (Hall _ Hc)) as [va [vr [Hva [Hvr Hvs]]]].
      destruct (eval_mls_cons _ _ _ Hvr) as [vb [vr' [Hvb [Hvr' Hvs']]]]. cbn in Hvr'. inversion Hvr'. subst vr' vr vs.
      eapply (binary_node F G ufn rho lib name k2 a' b' va vb v); eauto. }
    unfold call_known, call_tables, call_tables2, call_tablesN, call_fallback_node in Hk.
    rewrite (g_arity F G), (g_fallback F G) in Hk. cbn [negb orb] in Hk.
    destruct (lookup_s name (f_unary F)) as [k1|] eqn:E1;
      [destruct (Nat.eqb (elen es) 1) eqn:N1|].
    - (* unary *)
      destruct es as [|a [|b r]]; try discriminate N1.
      destruct (conv F a) as [a'|] eqn:Ha; [|discriminate]. cbn [bind] in Hk.
      assert (Hc : conv_list F (ECons a ENil) = Ok (MCons a' MNil)).
      { rewrite conv_list_eq, Ha. reflexivity. }
      destruct (eval_mls_cons _ _ _ (Hall _ Hc)) as [va [vr [Hva [Hvr Hvs]]]]. cbn in Hvr. inversion Hvr. subst vr vs.
      eapply (unary_node F G ufn rho lib name k1 a' va v m); eauto using lookup_s_in.
    - destruct (lookup_s name (f_binary F)) as [k2|] eqn:E2;
        [destruct (Nat.eqb (elen es) 2) eqn:N2|].
      + eapply Hbin; eauto using lookup_s_in.
      + destruct (lookup_s name (f_nary F)) as [k3|] eqn:E3; [|discriminate].
        destruct (Nat.eqb (elen es) 0) eqn:N0; [discriminate|]. cbn [negb] in Hk. eapply Hnary; eauto using lookup_s_in.
      + destruct (lookup_s name (f_nary F)) as [k3|] eqn:E3; [|discriminate].
        destruct (Nat.eqb (elen es) 0) eqn:N0; [discriminate|]. cbn [negb] in Hk. eapply Hnary; eauto using lookup_s_in.
    - destruct (lookup_s name (f_binary F)) as [k2|] eqn:E2;
        [destruct (Nat.eqb (elen es) 2) eqn:N2|].
      + eapply Hbin; eauto using lookup_s_in.
      + destruct (lookup_s name (f_nary F)) as [k3|] eqn:E3; [|discriminate].
        destruct (Nat.eqb (elen es) 0) eqn:N0; [discriminate|]. cbn [negb] in Hk. eapply Hnary; eauto using lookup_s_in.
      + destruct (lookup_s name (f_nary F)) as [k3|] eqn:E3; [|discriminate].
        destruct (Nat.eqb (elen es) 0) eqn:N0; [discriminate|]. cbn [negb] in Hk. eapply Hnary; eauto using lookup_s_in.
  Qed.

  (** unfolding equations (all by computation) *)
  Lemma conv_un : forall op a, conv F (EUn op a) =
    bind (conv F a) (fun a' => match lookup_by unop_beq op (f_unop F) with
                               | Some k => Ok (MApp k (MCons a' MNil)) | None => Err ErrNotImpl end).
  Proof. reflexivity. Qed.
  Lemma conv_bin : forall op l r, conv F (EBin op l r) =
    bind (conv F l) (fun l' => bind (conv F r) (fun r' =>
      match lookup_by binop_beq op (f_binop F) with
      | Some k => Ok (MApp k (MCons l' (MCons r' MNil))) | None => Err ErrNotImpl end)).
  Proof. reflexivity. Qed.
  Lemma conv_if : forall t b o, conv F (EIf t b o) =
    bind (conv F t) (fun t' => bind (conv F b) (fun b' => bind (conv F o) (fun o' =>
      Ok (MApp K_FUNCTION_PIECEWISE (order_children (f_ifexp_order F) t' b' o'))))).
  Proof. reflexivity. Qed.
  Lemma conv_cmp_full : forall l ch, conv F (ECmp l ch) =
    match f_compare F with
    | CmpFirstOnly =>
        bind (conv F l) (fun l' =>
          match ch with
          | ChNil => Err ErrIndex
          | ChCons op e _ =>
              bind (conv F e) (fun r' =>
                match lookup_by cmpop_beq op (f_cmpop F) with
                | Some k => Ok (MApp k (MCons l' (MCons r' MNil)))
                | None => Err ErrNotImpl
                end)
          end)
    | CmpAndPairs =>
        match ch with
        | ChNil => Err ErrOther
        | ChCons _ _ _ =>
            bind (conv_pairs F (conv F l) ch)
                 (fun ps => match ps with MCons p MNil => Ok p | _ => Ok (MApp K_LOGICAL_AND ps) end)
        end
    | CmpUnknown => Err ErrOther
    end.
  Proof. reflexivity. Qed.
  Lemma conv_cmp : forall l op e rest, conv F (ECmp l (ChCons op e rest)) =
    bind (conv_pairs F (conv F l) (ChCons op e rest))
         (fun ps => match ps with MCons p MNil => Ok p | _ => Ok (MApp K_LOGICAL_AND ps) end).
  Proof. intros. rewrite conv_cmp_full, (g_compare F G). reflexivity. Qed.
  Lemma conv_callname : forall f args kw, conv F (ECallName f args kw) =
    if kw && f_call_kw_reject F then Err ErrNotImpl else
    call_known F f (elen args)
      (match args with ECons a _ => Some (conv F a) | ENil => None end)
      (match args with ECons _ (ECons b _) => Some (conv F b) | _ => None end)
      (conv_list F args).
  Proof. reflexivity. Qed.
  Lemma conv_callattr : forall p a args kw, conv F (ECallAttr p a args kw) =
    if kw && f_call_kw_reject F then Err ErrNotImpl else
    if mem_s p (f_lib_parents F) then
      call_known F a (elen args)
        (match args with ECons x _ => Some (conv F x) | ENil => None end)
        (match args with ECons _ (ECons y _) => Some (conv F y) | _ => None end)
        (conv_list F args)
    else call_fallback_node F (conv_list F args).
  Proof. reflexivity. Qed.
  Lemma conv_attr : forall p a, conv F (EAttr p a) =
    if mem_s p (f_lib_parents F) then
      match lookup_s a (f_attr_consts F) with Some m => Ok m | None => Err ErrNotImpl end
    else Err ErrNotImpl.
  Proof. reflexivity. Qed.
  Lemma conv_pairs_eq : forall left op e rest, conv_pairs F left (ChCons op e rest) =
    match lookup_by cmpop_beq op (f_cmpop F) with
    | None => Err ErrNotImpl
    | Some k => bind left (fun a => bind (conv F e) (fun b => bind (conv_pairs F (conv F e) rest) (fun ps =>
                  Ok (MCons (MApp k (MCons a (MCons b MNil))) ps))))
    end.
  Proof. reflexivity. Qed.
  Lemma eval_py_un : forall op a, eval_py (EUn op a) = match eval_py a with Some va => un_sem op va | None => None end.
  Proof. reflexivity. Qed.
  Lemma eval_py_bin : forall op l r, eval_py (EBin op l r) =
    match eval_py l with None => None | Some vl => match eval_py r with None => None | Some vr => bin_sem ufn op vl vr end end.
  Proof. reflexivity. Qed.
  Lemma eval_py_cmp : forall l ch, eval_py (ECmp l ch) = match eval_py l with None => None | Some vl => eval_chain vl ch end.
  Proof. reflexivity. Qed.
  Lemma eval_py_if : forall t b o, eval_py (EIf t b o) =
    match eval_py t with None => None | Some vt => if truthy vt then eval_py b else eval_py o end.
  Proof. reflexivity. Qed.
  Lemma eval_chain_eq : forall va op e rest, eval_chain va (ChCons op e rest) =
    match eval_py e with
    | None => None
    | Some vb => match cmp_sem op va vb with None => None | Some true => eval_chain vb rest | Some false => Some 0 end
    end.
  Proof. reflexivity. Qed.
  Lemma eval_list_eq : forall e r, eval_list (ECons e r) =
    match eval_py e with None => None | Some v => match eval_list r with None => None | Some vs => Some (v :: vs) end end.
  Proof. reflexivity. Qed.
  Lemma eval_and_eq : forall m rest, eval_and ufn rho (MCons m rest) =
    match eval_ml m with None => None | Some v => if truthy v then eval_and ufn rho rest else Some 0 end.
  Proof. reflexivity. Qed.
  Lemma eval_piece3 : forall b t o, eval_ml (MApp K_FUNCTION_PIECEWISE (MCons b (MCons t (MCons o MNil)))) =
    match eval_ml t with None => None | Some vc => if truthy vc then eval_ml b else eval_ml o end.
  Proof. reflexivity. Qed.
  Lemma eval_and_node : forall ps, eval_ml (MApp K_LOGICAL_AND ps) = eval_and ufn rho ps.
  Proof. reflexivity. Qed.

  Lemma conv_pairs_nonnil : forall left op e rest, conv_pairs F left (ChCons op e rest) = Ok MNil -> False.
  Proof.
    intros left op e rest H. rewrite conv_pairs_eq in H.
    destruct (lookup_by cmpop_beq op (f_cmpop F)); [|discriminate].
    destruct left as [a|]; [|discriminate]. cbn [bind] in H.
    destruct (conv F e) as [b|]; [|discriminate]. cbn [bind] in H.
    destruct (conv_pairs F (Ok b) rest); discriminate.
  Qed.

  Definition P (e : expr) : Prop := forall m v, conv F e = Ok m -> eval_py e = Some v -> eval_ml m = Some v.
  Definition P0 (ch : chain) : Prop := forall a va ps v,
    conv_pairs F (Ok a) ch = Ok ps -> eval_ml a = Some va -> eval_chain va ch = Some v ->
    eval_and ufn rho ps = Some v /\ (forall p, ps = MCons p MNil -> eval_ml p = Some v).
  Definition P1 (es : exprs) : Prop := forall ms vs, conv_list F es = Ok ms -> eval_list es = Some vs -> eval_mls ms = Some vs.

  Lemma attr_sound : forall a m v, In (a, m) (f_attr_consts F) -> attr_sem ufn a = Some v -> eval_ml m = Some v.
  Proof.
    intros a m v Hin Hv. pose proof (forallb_in _ _ _ _ (g_attr F G) Hin) as Hok.
    unfold attr_ok in Hok. cbn [fst snd] in Hok. unfold attr_sem in Hv.
    destruct m; try discriminate Hok.
    - apply String.eqb_eq in Hok. subst a. exact Hv.
    - apply String.eqb_eq in Hok. subst a. exact Hv.
    - apply andb_prop in Hok. destruct Hok as [H1 H2].
      destruct (String.eqb a "e"); [discriminate|]. destruct (String.eqb a "pi"); discriminate.
    - apply andb_prop in Hok. destruct Hok as [H1 H2].
      destruct (String.eqb a "e"); [discriminate|]. destruct (String.eqb a "pi"); discriminate.
  Qed.

  Lemma is_lib_parent : forall p, mem_s p (f_lib_parents F) = true -> is_lib p = true.
  Proof. intros p H. apply mem_s_in in H. exact (forallb_in _ _ _ _ (g_lib F G) H). Qed.

  Theorem conv_sound_all : (forall e, P e) /\ (forall ch, P0 ch) /\ (forall es, P1 es).
  Proof.
    apply expr_mutind; unfold P, P0, P1.
    - (* EName *) intros x m v Hc Hp. inversion Hc. subst m. exact Hp.
    - (* EInt *) intros z m v Hc Hp. inversion Hc. subst m. exact Hp.
    - (* EReal *) intros q m v Hc Hp. inversion Hc. subst m. exact Hp.
    - (* EBool *) intros b m v Hc Hp. inversion Hc. subst m. destruct b; exact Hp.
    - (* EConstOther *) intros m v Hc. discriminate Hc.
    - (* EUn *) intros op a IH m v Hc Hp. rewrite conv_un in Hc. rewrite eval_py_un in Hp.
      destruct (conv F a) as [a'|]; [|discriminate]. cbn [bind] in Hc.
      destruct (lookup_by unop_beq op (f_unop F)) as [k|] eqn:Ek; [|discriminate]. inversion Hc. subst m.
      destruct (eval_py a) as [va|] eqn:Ea; [|discriminate].
      apply (lookup_by_in _ _ _ unop_eq) in Ek.
      eapply unop_node; eauto. exact (forallb_in _ _ _ _ (g_unop F G) Ek).
    - (* EBin *) intros op l IHl r IHr m v Hc Hp. rewrite conv_bin in Hc. rewrite eval_py_bin in Hp.
      destruct (conv F l) as [l'|]; [|discriminate]. cbn [bind] in Hc.
      destruct (conv F r) as [r'|]; [|discriminate]. cbn [bind] in Hc.
      destruct (lookup_by binop_beq op (f_binop F)) as [k|] eqn:Ek; [|discriminate]. inversion Hc. subst m.
      destruct (eval_py l) as [vl|] eqn:El; [|discriminate].
      destruct (eval_py r) as [vr|] eqn:Er; [|discriminate].
      apply (lookup_by_in _ _ _ binop_eq) in Ek.
      eapply binop_node; eauto. exact (forallb_in _ _ _ _ (g_binop F G) Ek).
    - (* ECmp *) intros l IHl ch IHch m v Hc Hp. rewrite eval_py_cmp in Hp.
      destruct (eval_py l) as [vl|] eqn:El; [|discriminate].
      destruct ch as [|op e rest].
      + rewrite conv_cmp_full, (g_compare F G) in Hc. discriminate.
      + rewrite conv_cmp in Hc.
        destruct (conv F l) as [l'|] eqn:Ecl.
        2:{ rewrite conv_pairs_eq in Hc. destruct (lookup_by cmpop_beq op (f_cmpop F)); discriminate. }
        destruct (conv_pairs F (Ok l') (ChCons op e rest)) as [ps|] eqn:Eps; [|discriminate]. cbn [bind] in Hc.
        destruct (IHch l' vl ps v Eps (IHl _ _ eq_refl eq_refl) Hp) as [Hand Hsingle].
        destruct ps as [|p [|p2 r2]]; inversion Hc; subst m.
        * rewrite eval_and_node. exact Hand.
        * now apply Hsingle.
        * rewrite eval_and_node. exact Hand.
    - (* EIf *) intros t IHt b IHb o IHo m v Hc Hp. rewrite conv_if in Hc. rewrite eval_py_if in Hp.
      destruct (conv F t) as [t'|]; [|discriminate]. cbn [bind] in Hc.
      destruct (conv F b) as [b'|]; [|discriminate]. cbn [bind] in Hc.
      destruct (conv F o) as [o'|]; [|discriminate]. cbn [bind] in Hc.
      rewrite (g_order F G) in Hc. cbn [order_children pick_child] in Hc. inversion Hc. subst m.
      destruct (eval_py t) as [vt|] eqn:Et; [|discriminate].
      rewrite eval_piece3, (IHt _ _ eq_refl eq_refl).
      destruct (truthy vt); [now apply IHb|now apply IHo].
    - (* ECallName *) intros f args IH kw m v Hc Hp.
      rewrite conv_callname in Hc. change (SbmlMath.eval_py ufn rho (ECallName f args kw)) with
        (if kw then None else match eval_list args with Some vs => call_sem ufn LBare f vs | None => None end) in Hp.
      destruct kw; [discriminate|]. cbn [andb] in Hc.
      destruct (eval_list args) as [vs|] eqn:El; [|discriminate].
      eapply (call_known_sound LBare f args vs m v); eauto using eval_list_len.
    - (* ECallAttr *) intros p a args IH kw m v Hc Hp.
      rewrite conv_callattr in Hc. change (SbmlMath.eval_py ufn rho (ECallAttr p a args kw)) with
        (if kw then None else if is_lib p then match eval_list args with Some vs => call_sem ufn (lib_of p) a vs | None => None end else None) in Hp.
      destruct kw; [discriminate|]. cbn [andb] in Hc.
      destruct (mem_s p (f_lib_parents F)) eqn:Ep.
      + rewrite (is_lib_parent _ Ep) in Hp.
        destruct (eval_list args) as [vs|] eqn:El; [|discriminate].
        eapply (call_known_sound (lib_of p) a args vs m v); eauto using eval_list_len.
      + unfold call_fallback_node in Hc. rewrite (g_fallback F G) in Hc. discriminate.
    - (* ECallOther *) intros args IH m v Hc. discriminate Hc.
    - (* EAttr *) intros p a m v Hc Hp. rewrite conv_attr in Hc.
      change (SbmlMath.eval_py ufn rho (EAttr p a)) with (if is_lib p then attr_sem ufn a else None) in Hp.
      destruct (mem_s p (f_lib_parents F)) eqn:Ep; [|discriminate].
      rewrite (is_lib_parent _ Ep) in Hp.
      destruct (lookup_s a (f_attr_consts F)) as [m'|] eqn:Ea; [|discriminate]. inversion Hc. subst m'.
      eapply attr_sound; eauto using lookup_s_in.
    - (* EOtherNode *) intros m v Hc. discriminate Hc.
    - (* ChNil *) intros a va ps v Hc Ha Hv. cbn in Hc. inversion Hc. subst ps. cbn in Hv. split; [exact Hv|]. intros p Hp. discriminate.
    - (* ChCons *) intros op e IHe rest IHrest a va ps v Hc Ha Hv.
      rewrite conv_pairs_eq in Hc. rewrite eval_chain_eq in Hv.
      destruct (lookup_by cmpop_beq op (f_cmpop F)) as [k|] eqn:Ek; [|discriminate]. cbn [bind] in Hc.
      destruct (conv F e) as [b|] eqn:Ece; [|discriminate]. cbn [bind] in Hc.
      destruct (conv_pairs F (Ok b) rest) as [ps'|] eqn:Eps; [|discriminate]. cbn [bind] in Hc. inversion Hc. subst ps.
      destruct (eval_py e) as [vb|] eqn:Ee; [|discriminate].
      destruct (cmp_sem op va vb) as [c|] eqn:Ecmp; [|discriminate].
      apply (lookup_by_in _ _ _ cmpop_eq) in Ek.
      pose proof (forallb_in _ _ _ _ (g_cmpop F G) Ek) as Hok.
      pose proof (IHe _ _ eq_refl eq_refl) as Hb.
      pose proof (cmp_node ufn rho op k a b va vb c Hok Ha Hb Ecmp) as Hnode.
      rewrite eval_and_eq, Hnode, truthy_ofb.
      destruct c.
      + destruct (IHrest b vb ps' v Eps Hb Hv) as [Hand Hs]. split; [exact Hand|].
        intros p Hp. inversion Hp. subst p ps'. rewrite Hnode.
        destruct rest as [|op2 e2 rest2].
        * cbn in Hv. inversion Hv. reflexivity.
        * exfalso. eapply conv_pairs_nonnil; eauto.
      + inversion Hv. subst v. split; [reflexivity|]. intros p Hp. inversion Hp. subst p. rewrite Hnode. reflexivity.
    - (* ENil *) intros ms vs Hc Hv. cbn in Hc, Hv. inversion Hc. inversion Hv. reflexivity.
    - (* ECons *) intros e IHe r IHr ms vs Hc Hv.
      destruct (conv_list_cons _ _ _ Hc) as [e' [r' [He [Hr Hms]]]]. subst ms.
      rewrite eval_list_eq in Hv.
      destruct (eval_py e) as [ve|] eqn:Ee; [|discriminate].
      destruct (eval_list r) as [vr|] eqn:Er; [|discriminate]. inversion Hv. subst vs.
      change (eval_mls (MCons e' r')) with
        (match eval_ml e' with None => None | Some v => match eval_mls r' with None => None | Some vs => Some (v :: vs) end end).
      rewrite (IHe _ _ He eq_refl), (IHr _ _ Hr eq_refl). reflexivity.
  Qed.

  Theorem conv_sound : forall e m v, conv F e = Ok m -> eval_py e = Some v -> eval_ml m = Some v.
  Proof. exact (proj1 conv_sound_all). Qed.
End Sound.

(* ------------------------------------------------------------------------------------- *)
(** * parameters renamed to model names; function bodies *)
Lemma eval_py_callname : forall ufn rho f args kw, eval_py ufn rho (ECallName f args kw) =
  if kw then None else match eval_list ufn rho args with Some vs => call_sem ufn LBare f vs | None => None end.
Proof. reflexivity. Qed.
Lemma eval_py_callattr : forall ufn rho p a args kw, eval_py ufn rho (ECallAttr p a args kw) =
  if kw then None else
  if is_lib p then match eval_list ufn rho args with Some vs => call_sem ufn (lib_of p) a vs | None => None end else None.
Proof. reflexivity. Qed.

Section Rename.
  Variable ufn : rfun -> list Q -> option Q.
  Variable rho : N -> option Q.

  Lemma bind_assoc : forall ps args x v,
    bind_params ps (map rho args) x = Some v ->
    exists y, assocN x (combine ps args) = Some y /\ rho y = Some v.
  Proof.
    induction ps as [|p ps IH]; intros [|a args] x v H; cbn in H; try discriminate.
    cbn. destruct (N.eqb x p); [eauto|]. now apply IH.
  Qed.

  Variable env : N -> option Q.
  Variable mp : list (N * N).
  Hypothesis env_mp : forall x v, env x = Some v -> exists y, assocN x mp = Some y /\ rho y = Some v.

  Definition R (e : expr) : Prop := forall v, eval_py ufn env e = Some v -> eval_py ufn rho (rename mp e) = Some v.
  Definition R0 (ch : chain) : Prop :=
    forall va v, eval_chain ufn env va ch = Some v -> eval_chain ufn rho va (rename_chain mp ch) = Some v.
  Definition R1 (es : exprs) : Prop :=
    forall vs, eval_list ufn env es = Some vs -> eval_list ufn rho (rename_list mp es) = Some vs.

  Theorem rename_sound_all : (forall e, R e) /\ (forall ch, R0 ch) /\ (forall es, R1 es).
  Proof.
    apply expr_mutind; unfold R, R0, R1.
    - (* EName *) intros x v H. change (env x = Some v) in H. destruct (env_mp _ _ H) as [y [Hy Hr]].
      change (rho (match assocN x mp with Some y => y | None => x end) = Some v). now rewrite Hy.
    - intros z v H; exact H.
    - intros q v H; exact H.
    - intros b v H; exact H.
    - intros v H; exact H.
    - (* EUn *) intros op a IH v H. rewrite eval_py_un in H. simpl rename. rewrite eval_py_un.
      destruct (eval_py ufn env a) as [va|]; [|discriminate]. now rewrite (IH _ eq_refl).
    - (* EBin *) intros op l IHl r IHr v H. rewrite eval_py_bin in H. simpl rename. rewrite eval_py_bin.
      destruct (eval_py ufn env l) as [vl|]; [|discriminate].
      destruct (eval_py ufn env r) as [vr|]; [|discriminate]. now rewrite (IHl _ eq_refl), (IHr _ eq_refl).
    - (* ECmp *) intros l IHl ch IHch v H. rewrite eval_py_cmp in H. simpl rename. rewrite eval_py_cmp.
      destruct (eval_py ufn env l) as [vl|]; [|discriminate].
      rewrite (IHl _ eq_refl). now apply IHch.
    - (* EIf *) intros t IHt b IHb o IHo v H. rewrite eval_py_if in H. simpl rename. rewrite eval_py_if.
      destruct (eval_py ufn env t) as [vt|]; [|discriminate].
      rewrite (IHt _ eq_refl). destruct (truthy vt); [now apply IHb|now apply IHo].
    - (* ECallName *) intros f args IH kw v H. rewrite eval_py_callname in H. simpl rename. rewrite eval_py_callname.
      destruct kw; [discriminate|].
      destruct (eval_list ufn env args) as [vs|]; [|discriminate]. now rewrite (IH _ eq_refl).
    - (* ECallAttr *) intros p a args IH kw v H. rewrite eval_py_callattr in H. simpl rename. rewrite eval_py_callattr.
      destruct kw; [discriminate|]. destruct (is_lib p); [|discriminate].
      destruct (eval_list ufn env args) as [vs|]; [|discriminate]. now rewrite (IH _ eq_refl).
    - intros args IH v H; discriminate.
    - intros p a v H; exact H.
    - intros v H; exact H.
    - (* ChNil *) intros va v H; exact H.
    - (* ChCons *) intros op e IHe rest IHrest va v H. rewrite eval_chain_eq in H. simpl rename_chain. rewrite eval_chain_eq.
      destruct (eval_py ufn env e) as [vb|]; [|discriminate].
      rewrite (IHe _ eq_refl).
      destruct (cmp_sem op va vb) as [[|]|]; [now apply IHrest|assumption|discriminate].
    - (* ENil *) intros vs H; exact H.
    - (* ECons *) intros e IHe r IHr vs H. rewrite eval_list_eq in H. simpl rename_list. rewrite eval_list_eq.
      destruct (eval_py ufn env e) as [ve|]; [|discriminate].
      destruct (eval_list ufn env r) as [vr|]; [|discriminate]. now rewrite (IHe _ eq_refl), (IHr _ eq_refl).
  Qed.
End Rename.

Lemma rename_sound : forall ufn rho ps args e v,
  eval_py ufn (bind_params ps (map rho args)) e = Some v ->
  eval_py ufn rho (rename (combine ps args) e) = Some v.
Proof.
  intros ufn rho ps args e v.
  exact (proj1 (rename_sound_all ufn rho (bind_params ps (map rho args)) (combine ps args) (bind_assoc rho ps args)) e v).
Qed.

Lemma eval_body_single : forall ufn env body e,
  filter (fun s => negb (is_doc s)) body = [SReturn e] -> eval_body ufn env body = eval_py ufn env e.
Proof.
  induction body as [|s r IH]; intros e H; [discriminate|].
  destruct s.
  - cbn in H. inversion H. reflexivity.
  - cbn in H. inversion H.
  - cbn in H. cbn [eval_body]. now apply IH.
  - cbn in H. inversion H.
  - cbn in H. inversion H.
Qed.

Lemma handle_body_single : forall F e, f_body F = BodyAllLast -> handle_body F [SReturn e] = conv F e.
Proof. intros F e H. unfold handle_body. rewrite H. reflexivity. Qed.

Theorem tree_to_sbml_sound : forall F, facts_good F = true ->
  forall ufn rho fd args e m v,
    single_return fd e ->
    tree_to_sbml F fd args = Ok m ->
    eval_fn ufn rho fd args = Some v ->
    eval_ml ufn rho m = Some v.
Proof.
  intros F HF ufn rho fd args e m v Hs Hc Hv.
  unfold tree_to_sbml in Hc. unfold eval_fn in Hv. unfold single_return in Hs.
  destruct (Nat.eqb (List.length (fd_params fd)) (List.length args)); [|discriminate].
  unfold rename_body in Hc. rewrite (g_rename F (facts_good_Good F HF)) in Hc.
  rewrite Hs in Hc. cbn [map rename_stmt] in Hc. rewrite (handle_body_single F _ (g_body F (facts_good_Good F HF))) in Hc.
  rewrite (eval_body_single _ _ _ _ Hs) in Hv.
  eapply (conv_sound F (facts_good_Good F HF)); eauto using rename_sound.
Qed.

(* ------------------------------------------------------------------------------------- *)
(** * function bodies with ANY statements: a body the exporter accepts consists of `return <expr>` statements only *)
Lemma conv_stmt_ok_return : forall F mp s m, conv_stmt F (rename_stmt mp s) = Ok m -> exists e, s = SReturn e.
Proof. intros F mp [e| | |x e|] m H; cbn in H; try discriminate; eauto. Qed.

Lemma fold_step_err : forall F ss e, fold_left (body_step F) ss (Err e) = Err e.
Proof. induction ss as [|s r IH]; intros e; [reflexivity|]. cbn [fold_left body_step]. apply IH. Qed.

Lemma fold_step_returns : forall F mp body m0 m,
  fold_left (body_step F) (map (rename_stmt mp) body) (Ok m0) = Ok m ->
  Forall (fun s => exists e, s = SReturn e) body.
Proof.
  induction body as [|s r IH]; intros m0 m H; [constructor|].
  cbn [map fold_left body_step] in H.
  destruct (conv_stmt F (rename_stmt mp s)) as [m1|er] eqn:Es.
  - constructor; [eapply conv_stmt_ok_return; eauto|]. eapply IH; eauto.
  - rewrite fold_step_err in H. discriminate.
Qed.

Lemma tree_ok_returns : forall F, facts_good F = true -> forall fd args m,
  tree_to_sbml F fd args = Ok m ->
  Forall (fun s => exists e, s = SReturn e) (filter (fun s => negb (is_doc s)) (fd_body fd)).
Proof.
  intros F HF fd args m Hc. pose proof (facts_good_Good F HF) as G.
  unfold tree_to_sbml in Hc. destruct (Nat.eqb _ _); [|discriminate].
  unfold rename_body in Hc. rewrite (g_rename F G) in Hc. unfold handle_body in Hc. rewrite (g_body F G) in Hc.
  eapply fold_step_returns; eauto.
Qed.

Lemma eval_body_filter : forall ufn body env,
  eval_body ufn env body = eval_body ufn env (filter (fun s => negb (is_doc s)) body).
Proof.
  induction body as [|s r IH]; intros env; [reflexivity|].
  destruct s; cbn [filter is_doc negb eval_body].
  - reflexivity.
  - reflexivity.
  - apply IH.
  - destruct (eval_py ufn env e); [apply IH|reflexivity].
  - reflexivity.
Qed.

(** the exporter accepts a body => (no unreachable statements =>) it is a single `return <expr>`: the exported MathML
    means the function.  Holds for EVERY body: assignments (rebinding a parameter or introducing a local), other
    statements, bare returns, docstrings *)
Theorem tree_to_sbml_sound_body : forall F, facts_good F = true ->
  forall ufn rho fd args m v,
    no_dead_code (filter (fun s => negb (is_doc s)) (fd_body fd)) = true ->
    tree_to_sbml F fd args = Ok m ->
    eval_fn ufn rho fd args = Some v ->
    eval_ml ufn rho m = Some v.
Proof.
  intros F HF ufn rho fd args m v Hnd Hc Hv.
  pose proof (tree_ok_returns F HF fd args m Hc) as Hall.
  destruct (filter (fun s => negb (is_doc s)) (fd_body fd)) as [|s [|s2 r]] eqn:Ef.
  - unfold eval_fn in Hv. destruct (Nat.eqb _ _); [|discriminate].
    rewrite eval_body_filter, Ef in Hv. discriminate.
  - inversion Hall as [|? ? [e He] _]. subst s.
    eapply (tree_to_sbml_sound F HF ufn rho fd args e); eauto.
  - inversion Hall as [|? ? [e He] _]. subst s. discriminate Hnd.
Qed.

(** a body with a statement that is not `return <expr>` (an assignment, a bare return, any other statement) is refused *)
Theorem non_return_refused : forall F, facts_good F = true -> forall fd args s,
  In s (filter (fun s => negb (is_doc s)) (fd_body fd)) -> is_return_expr s = false ->
  exists er, tree_to_sbml F fd args = Err er.
Proof.
  intros F HF fd args s Hin Hs.
  destruct (tree_to_sbml F fd args) as [m|er] eqn:Hc; [|eauto]. exfalso.
  pose proof (tree_ok_returns F HF fd args m Hc) as Hall. rewrite Forall_forall in Hall.
  destruct (Hall s Hin) as [e He]. subst s. discriminate Hs.
Qed.

(* ------------------------------------------------------------------------------------- *)
(** * the converter accepts exactly the representable subset *)
Section Supported.
  Variable F : facts.
  Hypothesis Hstrict : facts_strict F = true.

  Lemma strict_parts : f_compare F = CmpAndPairs /\ f_call_fallback F = CallRaise /\ f_call_arity F = true /\ f_call_kw_reject F = true.
  Proof.
    unfold facts_strict in Hstrict.
    destruct (f_compare F); try discriminate. destruct (f_call_fallback F); try discriminate.
    apply andb_prop in Hstrict. tauto.
  Qed.

  Definition is_ok {A} (r : result A) : bool := match r with Ok _ => true | Err _ => false end.

  Lemma is_ok_bind : forall A B (r : result A) (f : A -> result B),
    is_ok (bind r f) = match r with Ok a => is_ok (f a) | Err _ => false end.
  Proof. intros A B [a|e] f; reflexivity. Qed.

  Lemma call_known_ok : forall name es,
    is_ok (call_known F name (elen es)
             (match es with ECons a _ => Some (conv F a) | ENil => None end)
             (match es with ECons _ (ECons b _) => Some (conv F b) | _ => None end)
             (conv_list F es))
    = call_hit F name (elen es) && is_ok (conv_list F es).
  Proof.
    intros name es. destruct strict_parts as [_ [Hfb [Har _]]].
    unfold call_known, call_tables, call_tables2, call_tablesN, call_fallback_node, call_hit.
    rewrite Har, Hfb. cbn [negb orb].
    assert (Hl1 : forall a, is_ok (conv_list F (ECons a ENil)) = is_ok (conv F a)).
    { intros a. change (conv_list F (ECons a ENil)) with (bind (conv F a) (fun e' => bind (Ok MNil) (fun r' => Ok (MCons e' r')))).
      destruct (conv F a); reflexivity. }
    assert (Hl2 : forall a b, is_ok (conv_list F (ECons a (ECons b ENil))) = is_ok (conv F a) && is_ok (conv F b)).
    { intros a b.
      change (conv_list F (ECons a (ECons b ENil))) with
        (bind (conv F a) (fun e' => bind (bind (conv F b) (fun e2 => bind (Ok MNil) (fun r2 => Ok (MCons e2 r2)))) (fun r' => Ok (MCons e' r')))).
      destruct (conv F a); destruct (conv F b); reflexivity. }
    destruct (lookup_s name (f_unary F)) as [k1|]; cbn [is_some andb orb];
      [destruct (Nat.eqb (elen es) 1) eqn:N1; cbn [orb]|].
    - destruct es as [|a [|b r]]; try discriminate N1. rewrite Hl1.
      destruct (conv F a); cbn [bind]; [|reflexivity].
      destruct (lookup_kind k1 (f_unary_qual F)); reflexivity.
    - destruct (lookup_s name (f_binary F)) as [k2|]; cbn [is_some andb orb];
        [destruct (Nat.eqb (elen es) 2) eqn:N2; cbn [orb]|].
      + destruct es as [|a [|b [|c r]]]; try discriminate N2. rewrite Hl2.
        destruct (conv F a); cbn [bind]; [|reflexivity]. destruct (conv F b); reflexivity.
      + destruct (lookup_s name (f_nary F)) as [k3|]; cbn [is_some andb];
          [destruct (Nat.eqb (elen es) 0); cbn [negb]; [reflexivity|]|reflexivity].
        destruct (conv_list F es); reflexivity.
      + destruct (lookup_s name (f_nary F)) as [k3|]; cbn [is_some andb];
          [destruct (Nat.eqb (elen es) 0); cbn [negb]; [reflexivity|]|reflexivity].
        destruct (conv_list F es); reflexivity.
    - destruct (lookup_s name (f_binary F)) as [k2|]; cbn [is_some andb orb];
        [destruct (Nat.eqb (elen es) 2) eqn:N2; cbn [orb]|].
      + destruct es as [|a [|b [|c r]]]; try discriminate N2. rewrite Hl2.
        destruct (conv F a); cbn [bind]; [|reflexivity]. destruct (conv F b); reflexivity.
      + destruct (lookup_s name (f_nary F)) as [k3|]; cbn [is_some andb];
          [destruct (Nat.eqb (elen es) 0); cbn [negb]; [reflexivity|]|reflexivity].
        destruct (conv_list F es); reflexivity.
      + destruct (lookup_s name (f_nary F)) as [k3|]; cbn [is_some andb];
          [destruct (Nat.eqb (elen es) 0); cbn [negb]; [reflexivity|]|reflexivity].
        destruct (conv_list F es); reflexivity.
  Qed.

  Definition S (e : expr) : Prop := is_ok (conv F e) = supported F e.
  Definition S0 (ch : chain) : Prop := forall a, is_ok (conv_pairs F (Ok a) ch) = supported_chain F ch.
  Definition S1 (es : exprs) : Prop := is_ok (conv_list F es) = supported_list F es.

  Theorem supported_all : (forall e, S e) /\ (forall ch, S0 ch) /\ (forall es, S1 es).
  Proof.
    destruct strict_parts as [Hcmp [Hfb [Har Hkw]]].
    apply expr_mutind; unfold S, S0, S1.
    - reflexivity.
    - reflexivity.
    - reflexivity.
    - reflexivity.
    - reflexivity.
    - (* EUn *) intros op a IH. rewrite conv_un, is_ok_bind. cbn [supported]. rewrite <- IH.
      destruct (conv F a); [|now rewrite andb_false_r].
      destruct (lookup_by unop_beq op (f_unop F)); reflexivity.
    - (* EBin *) intros op l IHl r IHr. rewrite conv_bin, is_ok_bind. cbn [supported]. rewrite <- IHl, <- IHr.
      destruct (conv F l); [|now rewrite andb_false_r].
      rewrite is_ok_bind. destruct (conv F r); [|now rewrite !andb_false_r].
      destruct (lookup_by binop_beq op (f_binop F)); reflexivity.
    - (* ECmp *) intros l IHl ch IHch. rewrite conv_cmp_full, Hcmp. cbn [supported]. rewrite <- IHl.
      destruct ch as [|op e rest]; [now rewrite andb_false_r|].
      rewrite is_ok_bind.
      destruct (conv F l) as [l'|] eqn:El.
      + rewrite <- (IHch l'). cbn [andb is_ok].
        destruct (conv_pairs F (Ok l') (ChCons op e rest)) as [[|p [|p2 r2]]|]; reflexivity.
      + rewrite conv_pairs_eq. destruct (lookup_by cmpop_beq op (f_cmpop F)); reflexivity.
    - (* EIf *) intros t IHt b IHb o IHo. rewrite conv_if. cbn [supported]. rewrite <- IHt, <- IHb, <- IHo.
      rewrite is_ok_bind. destruct (conv F t); [|reflexivity].
      rewrite is_ok_bind. destruct (conv F b); [|reflexivity].
      rewrite is_ok_bind. destruct (conv F o); reflexivity.
    - (* ECallName *) intros f args IH kw. rewrite conv_callname, Hkw. cbn [supported].
      destruct kw; cbn [andb negb]; [reflexivity|]. rewrite call_known_ok, IH. reflexivity.
    - (* ECallAttr *) intros p a args IH kw. rewrite conv_callattr, Hkw. cbn [supported].
      destruct kw; cbn [andb negb]; [reflexivity|].
      destruct (mem_s p (f_lib_parents F)); cbn [andb].
      + rewrite call_known_ok, IH. reflexivity.
      + unfold call_fallback_node. rewrite Hfb. reflexivity.
    - reflexivity.
    - (* EAttr *) intros p a. rewrite conv_attr. cbn [supported].
      destruct (mem_s p (f_lib_parents F)); [|reflexivity].
      destruct (lookup_s a (f_attr_consts F)); reflexivity.
    - reflexivity.
    - (* ChNil *) reflexivity.
    - (* ChCons *) intros op e IHe rest IHrest a. rewrite conv_pairs_eq. cbn [supported_chain]. rewrite <- IHe.
      destruct (lookup_by cmpop_beq op (f_cmpop F)); [|reflexivity]. cbn [bind is_some andb].
      rewrite is_ok_bind. destruct (conv F e) as [b|]; [|reflexivity].
      rewrite is_ok_bind, <- (IHrest b). destruct (conv_pairs F (Ok b) rest); reflexivity.
    - reflexivity.
    - (* ECons *) intros e IHe r IHr. rewrite conv_list_eq, is_ok_bind. cbn [supported_list]. rewrite <- IHe, <- IHr.
      destruct (conv F e); [|reflexivity]. rewrite is_ok_bind. destruct (conv_list F r); reflexivity.
  Qed.

  Theorem unsupported_raises : forall e, supported F e = false -> exists er, conv F e = Err er.
  Proof.
    intros e H. pose proof (proj1 supported_all e) as HS. unfold S in HS. rewrite H in HS.
    destruct (conv F e) as [m|er]; [discriminate|eauto].
  Qed.

  Theorem supported_exported : forall e, supported F e = true -> exists m, conv F e = Ok m.
  Proof.
    intros e H. pose proof (proj1 supported_all e) as HS. unfold S in HS. rewrite H in HS.
    destruct (conv F e) as [m|er]; [eauto|discriminate].
  Qed.
End Supported.

Lemma good_strict : forall F, facts_good F = true -> facts_strict F = true.
Proof.
  intros F H. unfold facts_good in H.
  repeat (apply andb_prop in H; let H' := fresh "H" in destruct H as [H H']). exact H.
Qed.

Theorem conv_sound_good : forall F, facts_good F = true ->
  forall ufn rho e m v, conv F e = Ok m -> eval_py ufn rho e = Some v -> eval_ml ufn rho m = Some v.
Proof. intros F HF ufn rho. exact (conv_sound F (facts_good_Good F HF) ufn rho). Qed.

(* ------------------------------------------------------------------------------------- *)
(** * one renaming pass per pair vs. one simultaneous pass *)
Lemma assocN_none : forall x mp, ~ In x (map fst mp) -> assocN x mp = None.
Proof.
  induction mp as [|[k v] r IH]; cbn; intros H; [reflexivity|].
  destruct (N.eqb x k) eqn:E; [apply N.eqb_eq in E; subst; tauto|]. apply IH. tauto.
Qed.

Section Step.
  Variables p a : N.
  Variable r : list (N * N).
  Hypothesis Ha : ~ In a (map fst r).

  Lemma rename_step_all :
    (forall e, rename r (rename [(p, a)] e) = rename ((p, a) :: r) e)
    /\ (forall ch, rename_chain r (rename_chain [(p, a)] ch) = rename_chain ((p, a) :: r) ch)
    /\ (forall es, rename_list r (rename_list [(p, a)] es) = rename_list ((p, a) :: r) es).
  Proof.
    apply expr_mutind; intros; cbn [rename rename_chain rename_list]; try reflexivity; try congruence.
    - (* EName *) cbn [assocN]. destruct (N.eqb x p) eqn:E.
      + cbn [rename]. now rewrite (assocN_none a r Ha).
      + reflexivity.
  Qed.
End Step.

Theorem rename_seq_simultaneous : forall mp, seq_safe mp -> forall e, rename_seq mp e = rename mp e.
Proof.
  induction mp as [|[p a] r IH]; intros Hs e.
  - cbn [rename_seq]. 
    assert (H : (forall e, rename [] e = e) /\ (forall ch, rename_chain [] ch = ch) /\ (forall es, rename_list [] es = es)).
    { apply expr_mutind; intros; cbn [rename rename_chain rename_list assocN]; congruence. }
    symmetry. apply H.
  - destruct Hs as [Ha Hr]. cbn [rename_seq]. rewrite (IH Hr). apply (proj1 (rename_step_all p a r Ha)).
Qed.

Lemma rename_name_step : forall p a r x, ~ In a (map fst r) ->
  rename_name r (rename_name [(p, a)] x) = rename_name ((p, a) :: r) x.
Proof.
  intros p a r x Ha. unfold rename_name. cbn [assocN].
  destruct (N.eqb x p); [now rewrite (assocN_none a r Ha)|reflexivity].
Qed.

Lemma rename_name_seq_simultaneous : forall mp, seq_safe mp -> forall x, rename_name_seq mp x = rename_name mp x.
Proof.
  induction mp as [|[p a] r IH]; intros Hs x; [reflexivity|].
  destruct Hs as [Ha Hr]. cbn [rename_name_seq]. rewrite (IH Hr). now apply rename_name_step.
Qed.

Theorem tree_to_sbml_sequential_safe : forall F fd args,
  seq_safe (combine (fd_params fd) args) ->
  tree_to_sbml (set_rename RenSequential F) fd args = tree_to_sbml (set_rename RenSimultaneous F) fd args.
Proof.
  intros F fd args Hs. unfold tree_to_sbml, rename_body. cbn [f_rename set_rename].
  destruct (Nat.eqb _ _); [|reflexivity].
  assert (Hm : forall body, map (rename_stmt_seq (combine (fd_params fd) args)) body = map (rename_stmt (combine (fd_params fd) args)) body).
  { induction body as [|s r IH]; [reflexivity|]. cbn [map]. rewrite IH. f_equal.
    destruct s; cbn [rename_stmt_seq rename_stmt]; try reflexivity.
    - now rewrite rename_seq_simultaneous.
    - now rewrite rename_seq_simultaneous, rename_name_seq_simultaneous. }
  rewrite Hm. reflexivity.
Qed.
