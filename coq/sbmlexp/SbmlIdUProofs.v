(** SbmlIdUProofs -- with the explicit ASCII class every name gets a LEGAL SBML SId, whatever code points it contains;
    with Python's Unicode-aware \W it does not. *)
From Coq Require Import NArith List Bool String Ascii DecimalString Lia.
Import ListNotations.
From SbmlExp Require Import SbmlMath SbmlIdU.
Local Open Scope N_scope.

Lemma uint_digits : forall d : Decimal.uint,
  forallb word_a (map N_of_ascii (list_ascii_of_string (NilEmpty.string_of_uint d))) = true.
Proof. induction d; cbn [NilEmpty.string_of_uint list_ascii_of_string map forallb]; try reflexivity; rewrite IHd; reflexivity. Qed.

Lemma dec_word : forall n, forallb word_a (dec_cps n) = true.
Proof. intros n. unfold dec_cps. apply uint_digits. Qed.

Lemma word_ascii : forall c, word_a c = true -> N.ltb c 128 = true.
Proof.
  intros c H. apply N.ltb_lt. unfold word_a, alpha_a, digit_a, in_rangeN in H.
  repeat (apply orb_prop in H; destruct H as [H|H]);
    try (apply andb_prop in H; destruct H as [_ H]; apply N.leb_le in H; lia).
  apply N.eqb_eq in H. lia.
Qed.

Section U.
  Variable uword ualpha : N -> bool.

  Lemma escape_word : forall s, forallb word_a (escape_u uword EscAscii s) = true.
  Proof.
    induction s as [|c r IH]; [reflexivity|]. cbn [escape_u kept].
    destruct (word_a c) eqn:Ec.
    - cbn [forallb]. now rewrite Ec, IH.
    - cbn [forallb]. rewrite forallb_app, dec_word. cbn [forallb]. now rewrite IH.
  Qed.

  Lemma escape_nonempty : forall ec s, s <> [] -> escape_u uword ec s <> [].
  Proof. intros ec [|c r] H; [congruence|]. cbn [escape_u]. destruct (kept uword ec c); discriminate. Qed.

  Theorem id_legal : forall prefix s,
    s <> [] -> legal_sid prefix = true ->
    exists t, convert_id_u uword ualpha EscAscii prefix s = Ok t /\ legal_sid t = true.
  Proof.
    intros prefix s Hs Hp. unfold convert_id_u.
    pose proof (escape_word s) as Hw. pose proof (escape_nonempty EscAscii s Hs) as Hn.
    destruct (escape_u uword EscAscii s) as [|c r]; [congruence|].
    cbn [forallb] in Hw. apply andb_prop in Hw. destruct Hw as [Hc Hr].
    unfold is_alpha_u. rewrite (word_ascii c Hc).
    destruct (alpha_a c) eqn:Ea.
    - eexists. split; [reflexivity|]. cbn [legal_sid]. now rewrite Ea, Hr.
    - eexists. split; [reflexivity|].
      destruct prefix as [|p pr]; [discriminate|]. cbn [legal_sid app] in *.
      apply andb_prop in Hp. destruct Hp as [Hp1 Hp2]. rewrite Hp1. cbn [andb].
      rewrite forallb_app, Hp2. cbn [forallb andb]. now rewrite Hc, Hr.
  Qed.

  Theorem id_legal_at : forall ec, ec = EscAscii -> forall prefix s,
    s <> [] -> legal_sid prefix = true ->
    exists t, convert_id_u uword ualpha ec prefix s = Ok t /\ legal_sid t = true.
  Proof. intros ec E. subst ec. exact id_legal. Qed.

  (** the two classes differ only on non-ASCII code points *)
  Theorem escape_ascii_agree : forall s,
    forallb (fun c => N.ltb c 128) s = true ->
    escape_u uword EscUnicodeWord s = escape_u uword EscAscii s.
  Proof.
    induction s as [|c r IH]; [reflexivity|]. cbn [forallb]. intros H. apply andb_prop in H. destruct H as [Hc Hr].
    cbn [escape_u kept]. rewrite Hc, (IH Hr). reflexivity.
  Qed.

  Theorem convert_ascii_agree : forall prefix s,
    forallb (fun c => N.ltb c 128) s = true ->
    convert_id_u uword ualpha EscUnicodeWord prefix s = convert_id_u uword ualpha EscAscii prefix s.
  Proof. intros prefix s H. unfold convert_id_u. now rewrite (escape_ascii_agree s H). Qed.
End U.

(** 's' alpha (U+03B1), alpha being a word character / a letter for Python: the id is not a legal SId *)
Lemma unicode_word_refuted :
  exists s t, s <> [] /\ convert_id_u (N.eqb 945) (N.eqb 945) EscUnicodeWord [67; 80; 68] s = Ok t /\ legal_sid t = false.
Proof. exists [115; 945], [115; 945]. split; [discriminate|]. split; vm_compute; reflexivity. Qed.

Lemma unicode_escaped_example :
  convert_id_u (N.eqb 945) (N.eqb 945) EscAscii [67; 80; 68] [115; 945] = Ok [115; 95; 95; 57; 52; 53; 95; 95]
  /\ convert_id_u (N.eqb 945) (N.eqb 945) EscAscii [67; 80; 68] [945; 115] = Ok [67; 80; 68; 95; 95; 95; 57; 52; 53; 95; 95; 115].
Proof. split; vm_compute; reflexivity. Qed.
