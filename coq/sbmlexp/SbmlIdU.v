(** SbmlIdU -- _convert_id_to_sbml (src/mxlpy/sbml/_export.py) over Unicode CODE POINTS.

    SbmlId.v models the function on ASCII strings.  Component names are Python strings: any code point may occur
    (Greek letters are legal in Python identifiers and in MxlPy names).  Which characters RE_TO_SBML leaves alone is a
    REGENERATED fact ([escape_class], GenSbmlFacts.gen_escape):
      EscAscii        the complement of the explicit class [0-9_a-zA-Z] is escaped (the tree): every character that is not
                      an ASCII letter, digit or underscore becomes "__<ord>__", so the result is always a legal SBML SId;
      EscUnicodeWord  Python's \W on a str pattern (seeded C08-5): Unicode aware, non-ASCII letters and digits count as word
                      characters and stay -- libSBML's setId rejects such an id (return code only) and the component is
                      written without an id.
    Python's Unicode tables ([uword] = `\w` matches, [ualpha] = str.isalpha, both only consulted for code points >= 128) are
    external: Section variables.  No proofs in this file. *)
From Coq Require Import NArith List Bool String Ascii DecimalString.
Import ListNotations.
From SbmlExp Require Import SbmlMath.
Local Open Scope N_scope.

Inductive escape_class := EscAscii | EscUnicodeWord | EscUnknown.

Definition in_rangeN (lo hi c : N) : bool := N.leb lo c && N.leb c hi.
Definition digit_a (c : N) : bool := in_rangeN 48 57 c.
Definition alpha_a (c : N) : bool := in_rangeN 65 90 c || in_rangeN 97 122 c.
Definition word_a (c : N) : bool := alpha_a c || digit_a c || N.eqb c 95.

(** str(ord(c)) as code points *)
Definition dec_cps (n : N) : list N :=
  map N_of_ascii (list_ascii_of_string (NilEmpty.string_of_uint (N.to_uint n))).

Section U.
  Variable uword : N -> bool.     (* re `\w` on a str pattern, code points >= 128 *)
  Variable ualpha : N -> bool.    (* str.isalpha, code points >= 128 *)

  Definition kept (ec : escape_class) (c : N) : bool :=
    match ec with
    | EscAscii => word_a c
    | EscUnicodeWord => if N.ltb c 128 then word_a c else uword c
    | EscUnknown => false
    end.

  Fixpoint escape_u (ec : escape_class) (s : list N) : list N :=
    match s with
    | [] => []
    | c :: r => if kept ec c then c :: escape_u ec r
                else 95 :: 95 :: dec_cps c ++ 95 :: 95 :: escape_u ec r
    end.

  Definition is_alpha_u (c : N) : bool := if N.ltb c 128 then alpha_a c else ualpha c.

  (** (the later `.replace(".", SBML_DOT)` never fires under either class: "." is not a word character) *)
  Definition convert_id_u (ec : escape_class) (prefix id_ : list N) : result (list N) :=
    match ec with
    | EscUnknown => Err ErrOther
    | _ =>
        match escape_u ec id_ with
        | [] => Err ErrIndex                          (* new_id[0] on an empty string *)
        | c :: r => if is_alpha_u c then Ok (c :: r) else Ok (prefix ++ 95 :: c :: r)
        end
    end.
End U.

(** SBML SId: ( letter | '_' ) ( letter | digit | '_' )*, ASCII only *)
Definition legal_sid (s : list N) : bool :=
  match s with [] => false | c :: r => (alpha_a c || N.eqb c 95) && forallb word_a r end.

Definition memN (l : list N) (c : N) : bool := existsb (N.eqb c) l.
Fixpoint listN_eqb (a b : list N) : bool :=
  match a, b with
  | [], [] => true
  | x :: r, y :: r' => N.eqb x y && listN_eqb r r'
  | _, _ => false
  end.
