(** SbmlMath -- executable model of src/mxlpy/sbml/_export.py::_convert_node and friends
    (Python expression tree -> libSBML ASTNode tree), parameterised by the facts REGENERATED
    from the source ([facts], see GenSbmlFacts.v), plus the two semantics the theorems relate:
    [eval_py] (what CPython computes for the expression, over exact rationals, transcendental /
    rounding functions uninterpreted through [ufn]) and [eval_ml] (the meaning SBML L3V2 gives the
    exported MathML: n-ary plus/times, piecewise(value, condition, otherwise), lazily evaluated
    piecewise/and, relational operators yielding 1/0, numbers usable as booleans).

    [None] = no rational value there (division by zero, unbound name, inf/nan, a construct whose
    meaning is not modelled, an anonymous function node).  No proofs in this file. *)
From Coq Require Import ZArith QArith List Bool String.
Import ListNotations.

(* ------------------------------------------------------------------------------------- *)
(** * outcomes *)
Inductive err := ErrNotImpl | ErrValue | ErrIndex | ErrType | ErrAttribute | ErrOther.
Inductive result (A : Type) := Ok (a : A) | Err (e : err).
Arguments Ok {A} a. Arguments Err {A} e.
Definition bind {A B} (r : result A) (f : A -> result B) : result B :=
  match r with Ok a => f a | Err e => Err e end.
Notation "'do' x <- r ; k" := (bind r (fun x => k)) (at level 200, x name, r at level 100, k at level 200).

(* ------------------------------------------------------------------------------------- *)
(** * Python expressions (the subset of [ast] that [_convert_node] looks at) *)
Inductive unop := UNeg | UNot | UPos | UInvert.
Inductive binop := BMul | BAdd | BSub | BDiv | BPow | BFloorDiv | BMod | BOtherBin.
Inductive cmpop := CEq | CNe | CLt | CLe | CGt | CGe | CIs | COtherCmp.
Scheme Equality for unop.
Scheme Equality for binop.
Scheme Equality for cmpop.

Inductive expr :=
| EName (x : N)                                   (* ast.Name; names are numbered by the harness *)
| EInt (z : Z)                                    (* ast.Constant int *)
| EReal (q : Q)                                   (* ast.Constant float (dyadic) *)
| EBool (b : bool)
| EConstOther                                     (* str / None / complex constant *)
| EUn (op : unop) (a : expr)
| EBin (op : binop) (l r : expr)
| ECmp (l : expr) (rest : chain)                  (* ast.Compare: ops and comparators zipped *)
| EIf (test body orelse : expr)                   (* ast.IfExp *)
| ECallName (f : string) (args : exprs) (kw : bool)         (* f(args) ; kw = keywords present *)
| ECallAttr (parent attr : string) (args : exprs) (kw : bool)  (* parent.attr(args) *)
| ECallOther (args : exprs)                       (* callee neither Name nor Attribute *)
| EAttr (parent attr : string)                    (* parent.attr *)
| EOtherNode                                      (* BoolOp, Lambda, Subscript, ... *)
with chain := ChNil | ChCons (op : cmpop) (e : expr) (rest : chain)
with exprs := ENil | ECons (e : expr) (es : exprs).

Scheme expr_mut := Induction for expr Sort Prop
  with chain_mut := Induction for chain Sort Prop
  with exprs_mut := Induction for exprs Sort Prop.
Combined Scheme expr_mutind from expr_mut, chain_mut, exprs_mut.

Inductive stmt :=
| SReturn (e : expr) | SReturnNone | SDoc
| SAssign (x : N) (e : expr)                      (* ast.Assign with ONE ast.Name target: x = e *)
| SOtherStmt.                                     (* any other statement: AugAssign, If, For, pass, ... *)
Record fundef := mkFun { fd_params : list N; fd_body : list stmt }.

Fixpoint elen (es : exprs) : nat := match es with ENil => 0 | ECons _ r => S (elen r) end.

(* ------------------------------------------------------------------------------------- *)
(** * libSBML AST (MathML) *)
Inductive mkind :=
| K_TIMES | K_PLUS | K_MINUS | K_DIVIDE | K_POWER | K_FUNCTION_POWER | K_FUNCTION_QUOTIENT
| K_LOGICAL_NOT | K_LOGICAL_AND | K_LOGICAL_OR | K_LOGICAL_XOR
| K_RELATIONAL_EQ | K_RELATIONAL_NEQ | K_RELATIONAL_LT | K_RELATIONAL_LEQ | K_RELATIONAL_GT | K_RELATIONAL_GEQ
| K_FUNCTION_PIECEWISE | K_FUNCTION
| K_FUNCTION_ROOT | K_FUNCTION_REM | K_FUNCTION_ABS | K_FUNCTION_CEILING | K_FUNCTION_FLOOR | K_FUNCTION_EXP
| K_FUNCTION_SIN | K_FUNCTION_COS | K_FUNCTION_TAN
| K_FUNCTION_ARCSIN | K_FUNCTION_ARCCOS | K_FUNCTION_ARCTAN
| K_FUNCTION_SINH | K_FUNCTION_COSH | K_FUNCTION_TANH
| K_FUNCTION_ARCSINH | K_FUNCTION_ARCCOSH | K_FUNCTION_ARCTANH
| K_FUNCTION_LN | K_FUNCTION_LOG | K_FUNCTION_MAX | K_FUNCTION_MIN
| K_OTHER.                                        (* any other libsbml.AST_* constant *)
Scheme Equality for mkind.

Inductive ml :=
| MName (x : N) | MInt (z : Z) | MReal (q : Q) | MTrue | MFalse
| ME | MPi | MInf | MNan
| MUnknown                                        (* libsbml.ASTNode() : AST_UNKNOWN *)
| MApp (k : mkind) (args : mls)
with mls := MNil | MCons (m : ml) (ms : mls).

Scheme ml_mut := Induction for ml Sort Prop
  with mls_mut := Induction for mls Sort Prop.
Combined Scheme ml_mutind from ml_mut, mls_mut.

Fixpoint mlen (ms : mls) : nat := match ms with MNil => 0 | MCons _ r => S (mlen r) end.

(* ------------------------------------------------------------------------------------- *)
(** * facts regenerated from the source *)
Inductive ifchild := CTest | CBody | COrelse | CUnknownChild.
Inductive compare_mode :=
| CmpFirstOnly      (* left, comparators[0], ops[0]; the rest of a chain is dropped *)
| CmpAndPairs       (* pairwise relational nodes, joined by AST_LOGICAL_AND when more than one *)
| CmpUnknown.
Inductive call_fallback := CallAnonymous (* libsbml.AST_FUNCTION without a name *) | CallRaise | CallUnknown.
Inductive role := Reactant | Product | RoleUnknown.
Inductive num_stoich := NsSignAbs (* reactant iff factor < 0, stoichiometry abs(factor) *) | NsUnknown.
Inductive ia_setter := IaSetVariable (* no such libSBML method: AttributeError *) | IaSetSymbol | IaUnknown.
Inductive rename_mode :=
| RenSimultaneous   (* ONE IdentifierReplacer pass with the whole {parameter: model name} map *)
| RenSequential     (* one single-pair pass per (parameter, model name): a later pass renames what an earlier one introduced *)
| RenUnknown.
Inductive math_names :=
| MathRawNames      (* the math refers to the model's names, whatever id the component was written under *)
| MathIds           (* the math (and the symbol of an initial assignment, the id of a species reference) uses the id
                       under which the component is written: _sbml_ids *)
| MathNamesUnknown.
Inductive body_mode :=
| BodyAllLast       (* _handle_body converts EVERY statement and returns the last result: a statement that is not a
                       `return <expr>` makes the export raise *)
| BodyLastOnly      (* only stmts[-1] is converted: everything before the last statement is silently dropped (seeded C08-4) *)
| BodyUnknown.
Inductive refid_mode :=
| RefPerSpecies     (* reference id / rule name "<species>ref", whatever the reaction *)
| RefCounted        (* "<species>ref", "<species>ref2", ...: one reference per computed coefficient of the species *)
| RefUnknown.

Record facts := mkFacts {
  f_unary : list (string * mkind);
  f_binary : list (string * mkind);
  f_nary : list (string * mkind);
  f_unop : list (unop * mkind);
  f_binop : list (binop * mkind);
  f_cmpop : list (cmpop * mkind);
  f_ifexp_order : list ifchild;            (* order of the addChild calls of _convert_ifexp *)
  f_compare : compare_mode;
  f_call_fallback : call_fallback;
  f_call_arity : bool;                     (* table hit only when len(args) matches *)
  f_call_kw_reject : bool;                 (* keywords => NotImplementedError *)
  f_unary_qual : list (mkind * Z);         (* UNARY_QUALIFIER: leading integer child of a unary table call *)
  f_lib_parents : list string;             (* ("math", "np", "numpy") *)
  f_attr_consts : list (string * ml);      (* e, pi, inf, nan *)
  f_derived_role : role;                   (* species reference created for a Derived coefficient *)
  f_num_stoich : num_stoich;
  f_ia_setter : ia_setter;
  f_rename : rename_mode;                  (* how _tree_to_sbml renames parameters to model names *)
  f_ref_id : refid_mode;                   (* id of the species reference / rule of a computed coefficient *)
  f_math_names : math_names;               (* identifiers inside the exported math *)
  f_body : body_mode;                      (* which statements of a function body _handle_body converts *)
  f_shapes_ok : bool                       (* every other modelled statement has the expected shape *)
}.

Fixpoint lookup_s {A} (k : string) (l : list (string * A)) : option A :=
  match l with [] => None | (k', v) :: r => if String.eqb k k' then Some v else lookup_s k r end.
Fixpoint lookup_kind {A} (k : mkind) (l : list (mkind * A)) : option A :=
  match l with [] => None | (k', v) :: r => if mkind_beq k k' then Some v else lookup_kind k r end.
Fixpoint lookup_by {K A} (eqb : K -> K -> bool) (k : K) (l : list (K * A)) : option A :=
  match l with [] => None | (k', v) :: r => if eqb k k' then Some v else lookup_by eqb k r end.
Definition mem_s (k : string) (l : list string) : bool := existsb (String.eqb k) l.

(* ------------------------------------------------------------------------------------- *)
(** * the converter *)
Section Convert.
  Variable F : facts.

  Definition pick_child (c : ifchild) (t b o : ml) : ml :=
    match c with CTest => t | CBody => b | COrelse => o | CUnknownChild => MUnknown end.
  Fixpoint order_children (l : list ifchild) (t b o : ml) : mls :=
    match l with [] => MNil | c :: r => MCons (pick_child c t b o) (order_children r t b o) end.

  (** one table-driven call: [first]/[second] = conversion of args[0]/args[1] (None = no such
      argument), [all] = conversion of every argument in order.  Mirrors _convert_direct_call /
      the `parent in (...)` branch of _convert_library_call. *)
  Definition call_tables (name : string) (nargs : nat)
             (first second : option (result ml)) (all : result mls) : option (result ml) :=
    let ar := f_call_arity F in
    match lookup_s name (f_unary F) with
    | Some k =>
        if negb ar || Nat.eqb nargs 1 then
          Some (match first with
                | None => Err ErrIndex
                | Some r =>
                    do a <- r;
                    match lookup_kind k (f_unary_qual F) with
                    | Some z => Ok (MApp k (MCons (MInt z) (MCons a MNil)))   (* _unary_call *)
                    | None => Ok (MApp k (MCons a MNil))
                    end
                end)
        else None
    | None => None
    end.

  Definition call_tables2 (name : string) (nargs : nat)
             (first second : option (result ml)) (all : result mls) : option (result ml) :=
    let ar := f_call_arity F in
    match lookup_s name (f_binary F) with
    | Some k =>
        if negb ar || Nat.eqb nargs 2 then
          Some (match first with
                | None => Err ErrIndex
                | Some r1 => do a <- r1;
                    match second with
                    | None => Err ErrIndex
                    | Some r2 => do b <- r2; Ok (MApp k (MCons a (MCons b MNil)))
                    end
                end)
        else None
    | None => None
    end.

  Definition call_tablesN (name : string) (nargs : nat) (all : result mls) : option (result ml) :=
    let ar := f_call_arity F in
    match lookup_s name (f_nary F) with
    | Some k => if negb ar || negb (Nat.eqb nargs 0) then Some (do ms <- all; Ok (MApp k ms)) else None
    | None => None
    end.

  Definition call_fallback_node (all : result mls) : result ml :=
    match f_call_fallback F with
    | CallAnonymous => do ms <- all; Ok (MApp K_FUNCTION ms)
    | CallRaise => Err ErrNotImpl
    | CallUnknown => Err ErrOther
    end.

  Definition call_known (name : string) (nargs : nat)
             (first second : option (result ml)) (all : result mls) : result ml :=
    match call_tables name nargs first second all with
    | Some r => r
    | None =>
        match call_tables2 name nargs first second all with
        | Some r => r
        | None =>
            match call_tablesN name nargs all with
            | Some r => r
            | None => call_fallback_node all
            end
        end
    end.

  Fixpoint conv (e : expr) : result ml :=
    match e with
    | EName x => Ok (MName x)
    | EInt z => Ok (MInt z)
    | EReal q => Ok (MReal q)
    | EBool b => Ok (if b then MTrue else MFalse)
    | EConstOther => Err ErrType
    | EUn op a =>
        do a' <- conv a;
        match lookup_by unop_beq op (f_unop F) with
        | Some k => Ok (MApp k (MCons a' MNil))
        | None => Err ErrNotImpl
        end
    | EBin op l r =>
        do l' <- conv l;
        do r' <- conv r;
        match lookup_by binop_beq op (f_binop F) with
        | Some k => Ok (MApp k (MCons l' (MCons r' MNil)))
        | None => Err ErrNotImpl
        end
    | ECmp l ch =>
        match f_compare F with
        | CmpFirstOnly =>
            do l' <- conv l;
            match ch with
            | ChNil => Err ErrIndex
            | ChCons op e _ =>
                do r' <- conv e;
                match lookup_by cmpop_beq op (f_cmpop F) with
                | Some k => Ok (MApp k (MCons l' (MCons r' MNil)))
                | None => Err ErrNotImpl
                end
            end
        | CmpAndPairs =>
            match ch with
            | ChNil => Err ErrOther          (* ast.Compare always has an operator *)
            | ChCons _ _ _ =>
                do ps <- conv_pairs (conv l) ch;
                match ps with
                | MCons p MNil => Ok p
                | _ => Ok (MApp K_LOGICAL_AND ps)
                end
            end
        | CmpUnknown => Err ErrOther
        end
    | EIf t b o =>
        do t' <- conv t;
        do b' <- conv b;
        do o' <- conv o;
        Ok (MApp K_FUNCTION_PIECEWISE (order_children (f_ifexp_order F) t' b' o'))
    | ECallName f args kw =>
        if kw && f_call_kw_reject F then Err ErrNotImpl else
        call_known f (elen args)
          (match args with ECons a _ => Some (conv a) | ENil => None end)
          (match args with ECons _ (ECons b _) => Some (conv b) | _ => None end)
          (conv_list args)
    | ECallAttr p a args kw =>
        if kw && f_call_kw_reject F then Err ErrNotImpl else
        if mem_s p (f_lib_parents F) then
          call_known a (elen args)
            (match args with ECons x _ => Some (conv x) | ENil => None end)
            (match args with ECons _ (ECons y _) => Some (conv y) | _ => None end)
            (conv_list args)
        else call_fallback_node (conv_list args)
    | ECallOther _ => Err ErrNotImpl
    | EAttr p a =>
        if mem_s p (f_lib_parents F) then
          match lookup_s a (f_attr_consts F) with Some m => Ok m | None => Err ErrNotImpl end
        else Err ErrNotImpl
    | EOtherNode => Err ErrNotImpl
    end
  (** pairwise relational nodes of [left op1 e1 op2 e2 ...]; [left] is the (already computed)
      conversion of the left operand: operator first, then left, then right -- the order in
      which the repaired _convert_compare evaluates them *)
  with conv_pairs (left : result ml) (ch : chain) : result mls :=
    match ch with
    | ChNil => Ok MNil
    | ChCons op e rest =>
        match lookup_by cmpop_beq op (f_cmpop F) with
        | None => Err ErrNotImpl
        | Some k =>
            do a <- left;
            do b <- conv e;
            do ps <- conv_pairs (conv e) rest;
            Ok (MCons (MApp k (MCons a (MCons b MNil))) ps)
        end
    end
  with conv_list (es : exprs) : result mls :=
    match es with
    | ENil => Ok MNil
    | ECons e r => do e' <- conv e; do r' <- conv_list r; Ok (MCons e' r')
    end.

  Definition conv_stmt (s : stmt) : result ml :=
    match s with
    | SReturn e => conv e
    | SReturnNone => Err ErrValue
    | SDoc => Err ErrNotImpl                 (* removed before; an ast.Expr is not convertible *)
    | SAssign _ _ => Err ErrNotImpl          (* ast.Assign falls through to `case _` of _convert_node *)
    | SOtherStmt => Err ErrNotImpl
    end.

  (** _handle_body: every statement is converted, the LAST result is returned (BodyAllLast, the tree);
      BodyLastOnly = `_convert_node(stmts[-1])`, an empty body gives the empty node in both *)
  Definition body_step (acc : result ml) (s : stmt) : result ml :=
    match acc with Err e => Err e | Ok _ => conv_stmt s end.
  Definition handle_body (ss : list stmt) : result ml :=
    match f_body F with
    | BodyAllLast => fold_left body_step ss (Ok MUnknown)
    | BodyLastOnly => match rev ss with [] => Ok MUnknown | s :: _ => conv_stmt s end
    | BodyUnknown => Err ErrOther
    end.
End Convert.

(** IdentifierReplacer: simultaneous renaming of ast.Name nodes *)
Fixpoint assocN (x : N) (l : list (N * N)) : option N :=
  match l with [] => None | (k, v) :: r => if N.eqb x k then Some v else assocN x r end.

Fixpoint rename (mp : list (N * N)) (e : expr) : expr :=
  match e with
  | EName x => EName (match assocN x mp with Some y => y | None => x end)
  | EUn op a => EUn op (rename mp a)
  | EBin op l r => EBin op (rename mp l) (rename mp r)
  | ECmp l ch => ECmp (rename mp l) (rename_chain mp ch)
  | EIf t b o => EIf (rename mp t) (rename mp b) (rename mp o)
  | ECallName f args kw => ECallName f (rename_list mp args) kw
  | ECallAttr p a args kw => ECallAttr p a (rename_list mp args) kw
  | ECallOther args => ECallOther (rename_list mp args)
  | e' => e'
  end
with rename_chain (mp : list (N * N)) (ch : chain) : chain :=
  match ch with ChNil => ChNil | ChCons op e r => ChCons op (rename mp e) (rename_chain mp r) end
with rename_list (mp : list (N * N)) (es : exprs) : exprs :=
  match es with ENil => ENil | ECons e r => ECons (rename mp e) (rename_list mp r) end.

(** IdentifierReplacer visits every ast.Name, the target of an assignment included *)
Definition rename_name (mp : list (N * N)) (x : N) : N := match assocN x mp with Some y => y | None => x end.
Definition rename_stmt (mp : list (N * N)) (s : stmt) : stmt :=
  match s with
  | SReturn e => SReturn (rename mp e)
  | SAssign x e => SAssign (rename_name mp x) (rename mp e)
  | s' => s'
  end.

Definition is_doc (s : stmt) : bool := match s with SDoc => true | _ => false end.

(** the same pairs applied ONE AFTER THE OTHER, each as its own IdentifierReplacer pass over the whole tree (a pair whose
    two names are equal renames nothing, so skipping it changes nothing) *)
Fixpoint rename_seq (mp : list (N * N)) (e : expr) : expr :=
  match mp with [] => e | p :: r => rename_seq r (rename [p] e) end.
Fixpoint rename_name_seq (mp : list (N * N)) (x : N) : N :=
  match mp with [] => x | p :: r => rename_name_seq r (rename_name [p] x) end.
Definition rename_stmt_seq (mp : list (N * N)) (s : stmt) : stmt :=
  match s with
  | SReturn e => SReturn (rename_seq mp e)
  | SAssign x e => SAssign (rename_name_seq mp x) (rename_seq mp e)
  | s' => s'
  end.

(** one pass per pair cannot go wrong when no pass can touch what an earlier pass introduced: for every pair
    (parameter, model name) the model name is not the parameter of a LATER pair *)
Fixpoint seq_safe (mp : list (N * N)) : Prop :=
  match mp with
  | [] => True
  | (_, a) :: r => ~ In a (map fst r) /\ seq_safe r
  end.

Definition rename_body (F : facts) (mp : list (N * N)) (body : list stmt) : option (list stmt) :=
  match f_rename F with
  | RenSimultaneous => Some (map (rename_stmt mp) body)
  | RenSequential => Some (map (rename_stmt_seq mp) body)
  | RenUnknown => None
  end.

(** _tree_to_sbml / _sbmlify_fn: docstring removal, zip(strict=True) of parameters and model
    names, renaming, body conversion *)
Definition tree_to_sbml (F : facts) (fd : fundef) (args : list N) : result ml :=
  let body := filter (fun s => negb (is_doc s)) (fd_body fd) in
  if Nat.eqb (List.length (fd_params fd)) (List.length args) then
    match rename_body F (combine (fd_params fd) args) body with
    | Some body' => handle_body F body'
    | None => Err ErrOther
    end
  else Err ErrValue.

(* ------------------------------------------------------------------------------------- *)
(** * semantics *)
Inductive rfun :=
| RPow | RQuot | RRem | RIeeeRem | RSqrt | RAbs | RCeil | RFloor | RExp
| RSin | RCos | RTan | RAsin | RAcos | RAtan | RSinh | RCosh | RTanh | RAsinh | RAcosh | RAtanh
| RLn | RLog10 | RLogBase | RMax | RMin | RConstE | RConstPi.

Scheme Equality for rfun.

Definition truthy (q : Q) : bool := negb (Qeq_bool q 0).
Definition ofb (b : bool) : Q := if b then 1 else 0.
Definition Qlt_bool (a b : Q) : bool := negb (Qle_bool b a).

Definition cmp_sem (op : cmpop) (a b : Q) : option bool :=
  match op with
  | CEq => Some (Qeq_bool a b) | CNe => Some (negb (Qeq_bool a b))
  | CLt => Some (Qlt_bool a b) | CLe => Some (Qle_bool a b)
  | CGt => Some (Qlt_bool b a) | CGe => Some (Qle_bool b a)
  | CIs | COtherCmp => None
  end.

(** where a called function comes from: a bare name (builtins abs / max / min, `from math import ...`), math.<f>, or
    np.<f> / numpy.<f> *)
Inductive pylib := LBare | LMath | LNumpy.

(** what the names of math / numpy (and the builtins abs, max, min) compute, library by library where they differ *)
Definition py_fn0 (name : string) (n : nat) : option rfun :=
  let is s := String.eqb name s in
  match n with
  | 1%nat =>
      if is "sqrt"%string then Some RSqrt else if is "abs"%string then Some RAbs else if is "ceil"%string then Some RCeil
      else if is "floor"%string then Some RFloor else if is "exp"%string then Some RExp
      else if is "sin"%string then Some RSin else if is "cos"%string then Some RCos else if is "tan"%string then Some RTan
      else if is "arcsin"%string then Some RAsin else if is "arccos"%string then Some RAcos else if is "arctan"%string then Some RAtan
      else if is "sinh"%string then Some RSinh else if is "cosh"%string then Some RCosh else if is "tanh"%string then Some RTanh
      else if is "arcsinh"%string then Some RAsinh else if is "arccosh"%string then Some RAcosh else if is "arctanh"%string then Some RAtanh
      else if is "log"%string then Some RLn else if is "log10"%string then Some RLog10
      else if is "max"%string then Some RMax else if is "min"%string then Some RMin
      else None
  | 2%nat =>
      if is "power"%string then Some RPow
      else if is "log"%string then Some RLogBase
      else if is "max"%string then Some RMax else if is "min"%string then Some RMin
      else None
  | O => None
  | _ => if is "max"%string then Some RMax else if is "min"%string then Some RMin else None
  end.

(** `remainder` is two different functions: numpy.remainder(a, b) is the floored modulo (= a % b, what <rem/> means to the
    importer), math.remainder(a, b) the IEEE 754 remainder a - round_half_even(a / b) * b (5, 3 -> -1, not 2); a bare
    `remainder` is taken to be math's (`from math import remainder`) *)
Definition py_fn (lib : pylib) (name : string) (n : nat) : option rfun :=
  if String.eqb name "remainder"%string then
    match n, lib with
    | 2%nat, LNumpy => Some RRem
    | 2%nat, _ => Some RIeeeRem
    | _, _ => None
    end
  else py_fn0 name n.
Definition all_libs : list pylib := [LBare; LMath; LNumpy].
Definition lib_of (parent : string) : pylib := if String.eqb parent "math"%string then LMath else LNumpy.

(** SBML L3V2 table of MathML functions: libSBML node type + number of children -> function *)
Definition kind_rfun (k : mkind) (n : nat) : option rfun :=
  match k, n with
  | K_POWER, 2%nat | K_FUNCTION_POWER, 2%nat => Some RPow
  | K_FUNCTION_REM, 2%nat => Some RRem
  | K_FUNCTION_ROOT, 1%nat => Some RSqrt       (* root without degree = square root *)
  | K_FUNCTION_ABS, 1%nat => Some RAbs
  | K_FUNCTION_CEILING, 1%nat => Some RCeil
  | K_FUNCTION_FLOOR, 1%nat => Some RFloor
  | K_FUNCTION_EXP, 1%nat => Some RExp
  | K_FUNCTION_SIN, 1%nat => Some RSin | K_FUNCTION_COS, 1%nat => Some RCos | K_FUNCTION_TAN, 1%nat => Some RTan
  | K_FUNCTION_ARCSIN, 1%nat => Some RAsin | K_FUNCTION_ARCCOS, 1%nat => Some RAcos
  | K_FUNCTION_ARCTAN, 1%nat => Some RAtan
  | K_FUNCTION_SINH, 1%nat => Some RSinh | K_FUNCTION_COSH, 1%nat => Some RCosh | K_FUNCTION_TANH, 1%nat => Some RTanh
  | K_FUNCTION_ARCSINH, 1%nat => Some RAsinh | K_FUNCTION_ARCCOSH, 1%nat => Some RAcosh
  | K_FUNCTION_ARCTANH, 1%nat => Some RAtanh
  | K_FUNCTION_LN, 1%nat => Some RLn
  (* K_FUNCTION_LOG: see apply_kind.  A <log/> node with a single child is not a well-formed libSBML
     AST: setMath refuses it / the writer emits <apply><log/></apply> without the argument -> no meaning *)
  | K_FUNCTION_MAX, S _ => Some RMax
  | K_FUNCTION_MIN, S _ => Some RMin
  | _, _ => None
  end.

Definition rel_of_kind (k : mkind) : option cmpop :=
  match k with
  | K_RELATIONAL_EQ => Some CEq | K_RELATIONAL_NEQ => Some CNe | K_RELATIONAL_LT => Some CLt
  | K_RELATIONAL_LEQ => Some CLe | K_RELATIONAL_GT => Some CGt | K_RELATIONAL_GEQ => Some CGe
  | _ => None
  end.

Section Semantics.
  Variable ufn : rfun -> list Q -> option Q.      (* the real functions, shared by both sides *)
  Variable rho : N -> option Q.                   (* values of the model's names *)

  Definition un_sem (op : unop) (a : Q) : option Q :=
    match op with
    | UNeg => Some (Qopp a)
    | UNot => Some (ofb (negb (truthy a)))
    | UPos => Some a
    | UInvert => None
    end.

  Definition bin_sem (op : binop) (a b : Q) : option Q :=
    match op with
    | BMul => Some (Qmult a b) | BAdd => Some (Qplus a b) | BSub => Some (Qminus a b)
    | BDiv => if Qeq_bool b 0 then None else Some (Qdiv a b)
    | BPow => ufn RPow [a; b]
    | BFloorDiv => if Qeq_bool b 0 then None else ufn RQuot [a; b]
    | BMod => if Qeq_bool b 0 then None else ufn RRem [a; b]
    | BOtherBin => None
    end.

  Definition attr_sem (a : string) : option Q :=
    if String.eqb a "e"%string then ufn RConstE [] else if String.eqb a "pi"%string then ufn RConstPi [] else None.

  Definition call_sem (lib : pylib) (name : string) (vs : list Q) : option Q :=
    match py_fn lib name (List.length vs) with Some r => ufn r vs | None => None end.

  Definition is_lib (p : string) : bool :=
    String.eqb p "math"%string || String.eqb p "np"%string || String.eqb p "numpy"%string.

  Fixpoint eval_py (e : expr) : option Q :=
    match e with
    | EName x => rho x
    | EInt z => Some (inject_Z z)
    | EReal q => Some q
    | EBool b => Some (ofb b)
    | EConstOther => None
    | EUn op a => match eval_py a with Some va => un_sem op va | None => None end
    | EBin op l r =>
        match eval_py l with
        | None => None
        | Some vl => match eval_py r with None => None | Some vr => bin_sem op vl vr end
        end
    | ECmp l ch => match eval_py l with None => None | Some vl => eval_chain vl ch end
    | EIf t b o =>
        match eval_py t with
        | None => None
        | Some vt => if truthy vt then eval_py b else eval_py o
        end
    | ECallName f args kw =>
        if kw then None else
        match eval_list args with Some vs => call_sem LBare f vs | None => None end
    | ECallAttr p a args kw =>
        if kw then None else
        if is_lib p then match eval_list args with Some vs => call_sem (lib_of p) a vs | None => None end
        else None
    | ECallOther _ => None
    | EAttr p a => if is_lib p then attr_sem a else None
    | EOtherNode => None
    end
  (** a < b < c : each operand evaluated once, left to right, stops at the first false *)
  with eval_chain (va : Q) (ch : chain) : option Q :=
    match ch with
    | ChNil => Some 1
    | ChCons op e rest =>
        match eval_py e with
        | None => None
        | Some vb =>
            match cmp_sem op va vb with
            | None => None
            | Some true => eval_chain vb rest
            | Some false => Some 0
            end
        end
    end
  with eval_list (es : exprs) : option (list Q) :=
    match es with
    | ENil => Some []
    | ECons e r =>
        match eval_py e with
        | None => None
        | Some v => match eval_list r with None => None | Some vs => Some (v :: vs) end
        end
    end.

  Definition apply_arith (k : mkind) (vs : list Q) : option Q :=
    match k, vs with
    | K_TIMES, [] => Some 1
    | K_TIMES, a :: r => Some (fold_left Qmult r a)
    | K_PLUS, [] => Some 0
    | K_PLUS, a :: r => Some (fold_left Qplus r a)
    | K_MINUS, [a] => Some (Qopp a)
    | K_MINUS, [a; b] => Some (Qminus a b)
    | K_DIVIDE, [a; b] => if Qeq_bool b 0 then None else Some (Qdiv a b)
    | K_FUNCTION_QUOTIENT, [a; b] => if Qeq_bool b 0 then None else ufn RQuot [a; b]
    | K_LOGICAL_NOT, [a] => Some (ofb (negb (truthy a)))
    | _, [a; b] =>
        match rel_of_kind k with
        | Some op => option_map ofb (cmp_sem op a b)
        | None => None
        end
    | _, _ => None
    end.

  (** log(base, x): <log/><logbase> base </logbase> x; base 10 is the common logarithm *)
  Definition apply_log (vs : list Q) : option Q :=
    match vs with
    | [b; x] => if Qeq_bool b 10 then ufn RLog10 [x] else ufn RLogBase [x; b]
    | _ => None
    end.

  Definition apply_kind (k : mkind) (vs : list Q) : option Q :=
    match k with
    | K_FUNCTION_LOG => apply_log vs
    | _ =>
      match kind_rfun k (List.length vs) with
      | Some f => ufn f vs
      | None => apply_arith k vs
      end
    end.

  Fixpoint eval_ml (m : ml) : option Q :=
    match m with
    | MName x => rho x
    | MInt z => Some (inject_Z z)
    | MReal q => Some q
    | MTrue => Some 1
    | MFalse => Some 0
    | ME => ufn RConstE []
    | MPi => ufn RConstPi []
    | MInf | MNan | MUnknown => None
    | MApp k args =>
        match k with
        | K_FUNCTION_PIECEWISE => eval_pieces args
        | K_LOGICAL_AND => eval_and args
        | K_FUNCTION | K_OTHER => None
        | _ => match eval_mls args with None => None | Some vs => apply_kind k vs end
        end
    end
  with eval_mls (ms : mls) : option (list Q) :=
    match ms with
    | MNil => Some []
    | MCons m r =>
        match eval_ml m with
        | None => None
        | Some v => match eval_mls r with None => None | Some vs => Some (v :: vs) end
        end
    end
  (** piecewise(v1, c1, v2, c2, ..., otherwise): the value of the first piece whose condition holds *)
  with eval_pieces (ms : mls) : option Q :=
    match ms with
    | MNil => None
    | MCons v MNil => eval_ml v
    | MCons v (MCons c rest) =>
        match eval_ml c with
        | None => None
        | Some vc => if truthy vc then eval_ml v else eval_pieces rest
        end
    end
  with eval_and (ms : mls) : option Q :=
    match ms with
    | MNil => Some 1
    | MCons m rest =>
        match eval_ml m with
        | None => None
        | Some v => if truthy v then eval_and rest else Some 0
        end
    end.

End Semantics.

(** calling the Python function: parameters bound positionally, the first `return` decides;
    names that are not parameters (module globals) have no modelled value *)
Fixpoint bind_params (ps : list N) (vs : list (option Q)) (x : N) : option Q :=
  match ps, vs with
  | p :: ps', v :: vs' => if N.eqb x p then v else bind_params ps' vs' x
  | _, _ => None
  end.

Definition upd (rho : N -> option Q) (x : N) (v : Q) : N -> option Q := fun y => if N.eqb y x then Some v else rho y.

(** statements run in order; `x = e` rebinds x (a parameter or a new local) for the statements after it; any other
    statement has no modelled value *)
Fixpoint eval_body (ufn : rfun -> list Q -> option Q) (rho : N -> option Q) (ss : list stmt) : option Q :=
  match ss with
  | [] => None
  | SReturn e :: _ => eval_py ufn rho e
  | SDoc :: r => eval_body ufn rho r
  | SAssign x e :: r => match eval_py ufn rho e with Some v => eval_body ufn (upd rho x v) r | None => None end
  | SReturnNone :: _ => None
  | SOtherStmt :: _ => None
  end.

(** value of the function applied to the values of the model names [args] *)
Definition eval_fn (ufn : rfun -> list Q -> option Q) (rho : N -> option Q) (fd : fundef) (args : list N) : option Q :=
  if Nat.eqb (List.length (fd_params fd)) (List.length args)
  then eval_body ufn (bind_params (fd_params fd) (map rho args)) (fd_body fd)
  else None.

(* ------------------------------------------------------------------------------------- *)
(** * decidable equality of outcomes (correspondence) *)
Definition q_eqb (a b : Q) : bool := Z.eqb (Qnum a) (Qnum b) && Pos.eqb (Qden a) (Qden b).

Fixpoint ml_eqb (a b : ml) : bool :=
  match a, b with
  | MName x, MName y => N.eqb x y
  | MInt x, MInt y => Z.eqb x y
  | MReal x, MReal y => q_eqb x y
  | MTrue, MTrue | MFalse, MFalse | ME, ME | MPi, MPi | MInf, MInf | MNan, MNan | MUnknown, MUnknown => true
  | MApp k x, MApp k' y => mkind_beq k k' && mls_eqb x y
  | _, _ => false
  end
with mls_eqb (a b : mls) : bool :=
  match a, b with
  | MNil, MNil => true
  | MCons x r, MCons y r' => ml_eqb x y && mls_eqb r r'
  | _, _ => false
  end.

Scheme Equality for err.
Definition res_eqb {A} (eqb : A -> A -> bool) (a b : result A) : bool :=
  match a, b with
  | Ok x, Ok y => eqb x y
  | Err e, Err e' => err_beq e e' && negb (err_beq e ErrOther)   (* ErrOther never matches *)
  | _, _ => false
  end.

(* ------------------------------------------------------------------------------------- *)
(** * which facts make the converter meaning-preserving (decidable; checked on [gen_facts]) *)
Definition unop_ok (p : unop * mkind) : bool :=
  match p with (UNeg, K_MINUS) | (UNot, K_LOGICAL_NOT) => true | _ => false end.
Definition binop_ok (p : binop * mkind) : bool :=
  match p with
  | (BMul, K_TIMES) | (BAdd, K_PLUS) | (BSub, K_MINUS) | (BDiv, K_DIVIDE) | (BPow, K_POWER)
  | (BPow, K_FUNCTION_POWER) | (BFloorDiv, K_FUNCTION_QUOTIENT) | (BMod, K_FUNCTION_REM) => true
  | _ => false
  end.
Definition cmpop_ok (p : cmpop * mkind) : bool :=
  match rel_of_kind (snd p) with Some op => cmpop_beq op (fst p) | None => false end.

(** the function a table-driven node computes (the <log/> node is handled by [apply_log]) *)
Definition kind_fn (k : mkind) (n : nat) : option rfun :=
  match k with K_FUNCTION_LOG => None | _ => kind_rfun k n end.
Definition unary_ml_fn (F : facts) (k : mkind) : option rfun :=
  match lookup_kind k (f_unary_qual F) with
  | Some z => match k with K_FUNCTION_LOG => if Z.eqb z 10 then Some RLog10 else None | _ => None end
  | None => kind_fn k 1
  end.
Definition fn_entry_ok (pyf mlf : option rfun) : bool :=
  match pyf with
  | None => true                                   (* Python has no such function: nothing to preserve *)
  | Some r => match mlf with Some r' => rfun_beq r r' | None => false end
  end.
(** a table entry is looked up by name only, whatever the library: it must be right for every library *)
Definition unary_ok (F : facts) (p : string * mkind) : bool :=
  forallb (fun lib => fn_entry_ok (py_fn lib (fst p) 1) (unary_ml_fn F (snd p))) all_libs.
Definition binary_ok (p : string * mkind) : bool :=
  forallb (fun lib => fn_entry_ok (py_fn lib (fst p) 2) (kind_fn (snd p) 2)) all_libs.
Definition nary_ok (p : string * mkind) : bool :=
  (String.eqb (fst p) "max" && mkind_beq (snd p) K_FUNCTION_MAX)
  || (String.eqb (fst p) "min" && mkind_beq (snd p) K_FUNCTION_MIN).
Definition attr_ok (p : string * ml) : bool :=
  match snd p with
  | ME => String.eqb (fst p) "e"
  | MPi => String.eqb (fst p) "pi"
  | MInf | MNan => negb (String.eqb (fst p) "e") && negb (String.eqb (fst p) "pi")
  | _ => false
  end.
Definition ifchild_eqb (a b : ifchild) : bool :=
  match a, b with CTest, CTest | CBody, CBody | COrelse, COrelse => true | _, _ => false end.
Fixpoint order_eqb (a b : list ifchild) : bool :=
  match a, b with
  | [], [] => true
  | x :: r, y :: r' => ifchild_eqb x y && order_eqb r r'
  | _, _ => false
  end.

Definition facts_strict (F : facts) : bool :=
  match f_compare F, f_call_fallback F with
  | CmpAndPairs, CallRaise => f_call_arity F && f_call_kw_reject F
  | _, _ => false
  end.

Definition facts_good (F : facts) : bool :=
  facts_strict F
  && forallb unop_ok (f_unop F) && forallb binop_ok (f_binop F) && forallb cmpop_ok (f_cmpop F)
  && forallb (unary_ok F) (f_unary F) && forallb binary_ok (f_binary F) && forallb nary_ok (f_nary F)
  && order_eqb (f_ifexp_order F) [CBody; CTest; COrelse]
  && forallb is_lib (f_lib_parents F) && forallb attr_ok (f_attr_consts F)
  && match f_rename F with RenSimultaneous => true | _ => false end
  && match f_body F with BodyAllLast => true | _ => false end.

(** * the representable subset, as the tables define it *)
Definition is_some {A} (o : option A) : bool := match o with Some _ => true | None => false end.
Definition call_hit (F : facts) (name : string) (n : nat) : bool :=
  (is_some (lookup_s name (f_unary F)) && Nat.eqb n 1)
  || (is_some (lookup_s name (f_binary F)) && Nat.eqb n 2)
  || (is_some (lookup_s name (f_nary F)) && negb (Nat.eqb n 0)).

Fixpoint supported (F : facts) (e : expr) : bool :=
  match e with
  | EName _ | EInt _ | EReal _ | EBool _ => true
  | EConstOther | EOtherNode | ECallOther _ => false
  | EUn op a => is_some (lookup_by unop_beq op (f_unop F)) && supported F a
  | EBin op l r => is_some (lookup_by binop_beq op (f_binop F)) && supported F l && supported F r
  | ECmp l ch => supported F l && match ch with ChNil => false | ChCons _ _ _ => supported_chain F ch end
  | EIf t b o => supported F t && supported F b && supported F o
  | ECallName f args kw => negb kw && call_hit F f (elen args) && supported_list F args
  | ECallAttr p a args kw => negb kw && mem_s p (f_lib_parents F) && call_hit F a (elen args) && supported_list F args
  | EAttr p a => mem_s p (f_lib_parents F) && is_some (lookup_s a (f_attr_consts F))
  end
with supported_chain (F : facts) (ch : chain) : bool :=
  match ch with
  | ChNil => true
  | ChCons op e r => is_some (lookup_by cmpop_beq op (f_cmpop F)) && supported F e && supported_chain F r
  end
with supported_list (F : facts) (es : exprs) : bool :=
  match es with ENil => true | ECons e r => supported F e && supported_list F r end.

(** a function whose body is one `return <expr>` (docstrings aside) *)
Definition single_return (fd : fundef) (e : expr) : Prop :=
  filter (fun s => negb (is_doc s)) (fd_body fd) = [SReturn e].

(** * earlier values of repaired facts (regression witnesses in PropsC08.v) *)
Definition set_ifexp_order (o : list ifchild) (F : facts) : facts :=
  mkFacts (f_unary F) (f_binary F) (f_nary F) (f_unop F) (f_binop F) (f_cmpop F) o (f_compare F) (f_call_fallback F)
          (f_call_arity F) (f_call_kw_reject F) (f_unary_qual F) (f_lib_parents F) (f_attr_consts F) (f_derived_role F)
          (f_num_stoich F) (f_ia_setter F) (f_rename F) (f_ref_id F) (f_math_names F) (f_body F) (f_shapes_ok F).
Definition set_compare (c : compare_mode) (F : facts) : facts :=
  mkFacts (f_unary F) (f_binary F) (f_nary F) (f_unop F) (f_binop F) (f_cmpop F) (f_ifexp_order F) c (f_call_fallback F)
          (f_call_arity F) (f_call_kw_reject F) (f_unary_qual F) (f_lib_parents F) (f_attr_consts F) (f_derived_role F)
          (f_num_stoich F) (f_ia_setter F) (f_rename F) (f_ref_id F) (f_math_names F) (f_body F) (f_shapes_ok F).
Definition set_call (fb : call_fallback) (arity kw : bool) (F : facts) : facts :=
  mkFacts (f_unary F) (f_binary F) (f_nary F) (f_unop F) (f_binop F) (f_cmpop F) (f_ifexp_order F) (f_compare F) fb
          arity kw (f_unary_qual F) (f_lib_parents F) (f_attr_consts F) (f_derived_role F)
          (f_num_stoich F) (f_ia_setter F) (f_rename F) (f_ref_id F) (f_math_names F) (f_body F) (f_shapes_ok F).
Definition set_unary_qual (q : list (mkind * Z)) (F : facts) : facts :=
  mkFacts (f_unary F) (f_binary F) (f_nary F) (f_unop F) (f_binop F) (f_cmpop F) (f_ifexp_order F) (f_compare F)
          (f_call_fallback F) (f_call_arity F) (f_call_kw_reject F) q (f_lib_parents F) (f_attr_consts F) (f_derived_role F)
          (f_num_stoich F) (f_ia_setter F) (f_rename F) (f_ref_id F) (f_math_names F) (f_body F) (f_shapes_ok F).
Definition set_derived_role (r : role) (F : facts) : facts :=
  mkFacts (f_unary F) (f_binary F) (f_nary F) (f_unop F) (f_binop F) (f_cmpop F) (f_ifexp_order F) (f_compare F)
          (f_call_fallback F) (f_call_arity F) (f_call_kw_reject F) (f_unary_qual F) (f_lib_parents F) (f_attr_consts F) r
          (f_num_stoich F) (f_ia_setter F) (f_rename F) (f_ref_id F) (f_math_names F) (f_body F) (f_shapes_ok F).
Definition set_ia_setter (i : ia_setter) (F : facts) : facts :=
  mkFacts (f_unary F) (f_binary F) (f_nary F) (f_unop F) (f_binop F) (f_cmpop F) (f_ifexp_order F) (f_compare F)
          (f_call_fallback F) (f_call_arity F) (f_call_kw_reject F) (f_unary_qual F) (f_lib_parents F) (f_attr_consts F)
          (f_derived_role F) (f_num_stoich F) i (f_rename F) (f_ref_id F) (f_math_names F) (f_body F) (f_shapes_ok F).
Definition set_rename (m : rename_mode) (F : facts) : facts :=
  mkFacts (f_unary F) (f_binary F) (f_nary F) (f_unop F) (f_binop F) (f_cmpop F) (f_ifexp_order F) (f_compare F)
          (f_call_fallback F) (f_call_arity F) (f_call_kw_reject F) (f_unary_qual F) (f_lib_parents F) (f_attr_consts F)
          (f_derived_role F) (f_num_stoich F) (f_ia_setter F) m (f_ref_id F) (f_math_names F) (f_body F) (f_shapes_ok F).
Definition set_ref_id (m : refid_mode) (F : facts) : facts :=
  mkFacts (f_unary F) (f_binary F) (f_nary F) (f_unop F) (f_binop F) (f_cmpop F) (f_ifexp_order F) (f_compare F)
          (f_call_fallback F) (f_call_arity F) (f_call_kw_reject F) (f_unary_qual F) (f_lib_parents F) (f_attr_consts F)
          (f_derived_role F) (f_num_stoich F) (f_ia_setter F) (f_rename F) m (f_math_names F) (f_body F) (f_shapes_ok F).
Definition set_math_names (m : math_names) (F : facts) : facts :=
  mkFacts (f_unary F) (f_binary F) (f_nary F) (f_unop F) (f_binop F) (f_cmpop F) (f_ifexp_order F) (f_compare F)
          (f_call_fallback F) (f_call_arity F) (f_call_kw_reject F) (f_unary_qual F) (f_lib_parents F) (f_attr_consts F)
          (f_derived_role F) (f_num_stoich F) (f_ia_setter F) (f_rename F) (f_ref_id F) m (f_body F) (f_shapes_ok F).
Definition set_body (b : body_mode) (F : facts) : facts :=
  mkFacts (f_unary F) (f_binary F) (f_nary F) (f_unop F) (f_binop F) (f_cmpop F) (f_ifexp_order F) (f_compare F)
          (f_call_fallback F) (f_call_arity F) (f_call_kw_reject F) (f_unary_qual F) (f_lib_parents F) (f_attr_consts F)
          (f_derived_role F) (f_num_stoich F) (f_ia_setter F) (f_rename F) (f_ref_id F) (f_math_names F) b (f_shapes_ok F).
Definition set_tables (u b : list (string * mkind)) (F : facts) : facts :=
  mkFacts u b (f_nary F) (f_unop F) (f_binop F) (f_cmpop F) (f_ifexp_order F) (f_compare F)
          (f_call_fallback F) (f_call_arity F) (f_call_kw_reject F) (f_unary_qual F) (f_lib_parents F) (f_attr_consts F)
          (f_derived_role F) (f_num_stoich F) (f_ia_setter F) (f_rename F) (f_ref_id F) (f_math_names F) (f_body F) (f_shapes_ok F).

(** a body without unreachable statements: nothing follows the first `return` *)
Definition is_ret (s : stmt) : bool := match s with SReturn _ | SReturnNone => true | _ => false end.
Fixpoint no_dead_code (ss : list stmt) : bool :=
  match ss with
  | [] => true
  | s :: r => if is_ret s then match r with [] => true | _ => false end else no_dead_code r
  end.
Definition is_return_expr (s : stmt) : bool := match s with SReturn _ => true | _ => false end.
