(** SbmlSessionProofs -- every read of a session returns the model of the file it was given (all histories). *)
From Coq Require Import NArith List Bool Lia.
Import ListNotations.
From SbmlExp Require Import SbmlSession.

Section Proofs.
  Variables doc src model : Type.
  Variable transform : doc -> src.
  Variable exec : src -> model.
  Variable size : src -> N.
  Variable modname : N -> N.
  Variable bytecode : bool.

  Notation run IF := (run doc src model transform exec size modname IF bytecode).
  Notation expected := (expected doc src model transform exec).

  (** the repaired loader: fresh, whatever the byte-code cache holds and whatever the clock does *)
  Theorem read_fresh_compile : forall IF, i_read IF = ReadParseAlways -> i_loader IF = LoaderCompileSource ->
    forall ops st, run IF ops st = expected ops (st_files st).
  Proof.
    intros IF Hr Hl. induction ops as [|o r IH]; intros st; [reflexivity|].
    destruct o as [p d|p t]; cbn [SbmlSession.run SbmlSession.expected].
    - rewrite IH. reflexivity.
    - unfold read. rewrite Hr.
      destruct (assoc_by path_eqb p (st_files st)) as [d|] eqn:E.
      + unfold parse_and_import, load. rewrite Hl. cbn [option_map]. rewrite IH. reflexivity.
      + cbn [option_map]. rewrite IH. reflexivity.
  Qed.

  (** the source loader: fresh as long as no cached byte code can be taken for the new source -- all cached entries are
      older than [lo] and every later read happens in a later second *)
  Definition pyc_older (lo : N) (pyc : list (N * (N * N * src))) : Prop :=
    Forall (fun e : N * (N * N * src) => N.le (fst (fst (snd e))) lo) pyc.

  Lemma assoc_in : forall name (pyc : list (N * (N * N * src))) v, assoc_by N.eqb name pyc = Some v -> In (name, v) pyc.
  Proof.
    induction pyc as [|[k w] r IH]; cbn; intros v H; [discriminate|].
    destruct (N.eqb name k) eqn:E.
    - apply N.eqb_eq in E. inversion H. subst. now left.
    - right. now apply IH.
  Qed.

  Theorem read_fresh_cached_times : forall IF, i_read IF = ReadParseAlways -> i_loader IF = LoaderSourceCached ->
    forall ops st lo, pyc_older lo (st_pyc st) -> times_increase doc ops lo -> run IF ops st = expected ops (st_files st).
  Proof.
    intros IF Hr Hl. induction ops as [|o r IH]; intros st lo Hold Ht; [reflexivity|].
    destruct o as [p d|p t]; cbn [SbmlSession.run SbmlSession.expected].
    - cbn in Ht. rewrite (IH _ lo); auto.
    - cbn in Ht. destruct Ht as [Hlt Ht]. unfold read. rewrite Hr.
      destruct (assoc_by path_eqb p (st_files st)) as [d|] eqn:E; cbn [option_map].
      + unfold parse_and_import, load. rewrite Hl.
        assert (Hfresh : pyc_older t (if bytecode then (modname (snd p), (t, size (transform d), transform d)) :: st_pyc st else st_pyc st)).
        { assert (Hw : pyc_older t (st_pyc st)).
          { unfold pyc_older in *. eapply Forall_impl; [|exact Hold]. intros e He. cbn in He. lia. }
          destruct bytecode; [|exact Hw]. constructor; [cbn; lia|exact Hw]. }
        destruct (assoc_by N.eqb (modname (snd p)) (st_pyc st)) as [[[t' sz'] c]|] eqn:Ep.
        * apply assoc_in in Ep. unfold pyc_older in Hold. rewrite Forall_forall in Hold. specialize (Hold _ Ep). cbn in Hold.
          assert (Hne : N.eqb t' t = false) by (apply N.eqb_neq; lia).
          rewrite Hne. cbn. erewrite IH; [reflexivity|exact Hfresh|exact Ht].
        * cbn. erewrite IH; [reflexivity|exact Hfresh|exact Ht].
      + erewrite IH; [reflexivity| |exact Ht]. unfold pyc_older in *. eapply Forall_impl; [|exact Hold]. intros e He. cbn in He. lia.
  Qed.

  (** ... or as long as no byte code is cached at all (sys.dont_write_bytecode: the environment ./check runs in) *)
  Theorem read_fresh_cached_off : forall IF, i_read IF = ReadParseAlways -> i_loader IF = LoaderSourceCached -> bytecode = false ->
    forall ops st, st_pyc st = [] -> run IF ops st = expected ops (st_files st).
  Proof.
    intros IF Hr Hl Hb. induction ops as [|o r IH]; intros st Hp; [reflexivity|].
    destruct o as [p d|p t]; cbn [SbmlSession.run SbmlSession.expected].
    - rewrite IH; auto.
    - unfold read. rewrite Hr.
      destruct (assoc_by path_eqb p (st_files st)) as [d|] eqn:E; cbn [option_map].
      + unfold parse_and_import, load. rewrite Hl, Hp. cbn. rewrite IH; [reflexivity|]. cbn. now rewrite Hb.
      + rewrite IH; auto.
  Qed.
End Proofs.

(** counterexamples: documents, sources and models are numbers, transformation and execution the identity, every
    generated file has the same size, stems are their own module name *)
Definition idN (x : N) : N := x.
Definition run_n (IF : import_facts) (bytecode : bool) (ops : list (op N)) : list (option N) :=
  run N N N idN idN (fun _ => 7%N) idN IF bytecode ops (mkState [] [] []).
Definition expected_n (ops : list (op N)) : list (option N) := expected N N N idN idN ops [].

Lemma stale_bytecode_refuted :
  exists ops : list (op N),
    run_n (mkImportFacts ReadParseAlways LoaderSourceCached true) true ops = [Some 1%N; Some 1%N]
    /\ expected_n ops = [Some 1%N; Some 2%N].
Proof.
  exists [OWrite (0%N, 0%N) 1%N; ORead (0%N, 0%N) 5%N; OWrite (0%N, 0%N) 2%N; ORead (0%N, 0%N) 5%N].
  split; vm_compute; reflexivity.
Qed.

Lemma module_by_stem_refuted :
  exists ops : list (op N),
    times_increase N ops 0
    /\ run_n (mkImportFacts ReadModuleByStem LoaderCompileSource true) false ops = [Some 1%N; Some 1%N; Some 1%N]
    /\ expected_n ops = [Some 1%N; Some 2%N; Some 3%N].
Proof.
  exists [OWrite (0%N, 0%N) 1%N; ORead (0%N, 0%N) 5%N; OWrite (0%N, 0%N) 2%N; ORead (0%N, 0%N) 6%N;
          OWrite (1%N, 0%N) 3%N; ORead (1%N, 0%N) 7%N].
  split; [cbn; lia|]. split; vm_compute; reflexivity.
Qed.
