(** Comparison of a modelled history with what the implementation showed after every step. *)
From Coq Require Import ZArith List Bool.
From MxlBase Require Import ListX.
From Core Require Import Sort GenSortFacts FnLib Model Cache Query CorrC01.
From Edit Require Import GenEditFacts ModelSM.
Import ListNotations.

Definition kind_code (k : kind) : N :=
  match k with KPar => 0 | KVar => 1 | KDer => 2 | KRxn => 3 | KRo => 4 | KSur => 5 | KDat => 6 end%N.

(* only the exception CLASS is compared (payloads are C02's business) *)
Definition err_code (e : err) : N :=
  match e with
  | EMissing _ => 0 | ECircular => 1 | EKey => 2 | EType => 3 | EValue => 4 | EFuel => 5 | EName => 6
  end%N.

Inductive obs :=
| OMut (rejected : option N) (ids : list (name * N)) (content : list (list name))
| OIds (ids : list (name * N))
| OPairs (l : list (name * Z))
| ONames (l : list name)
| OErr (code : N).

Definition content_keys (m : model) : list (list name) :=
  [keys (m_par m); keys (m_var m); keys (m_der m); keys (m_rxn m); keys (m_ro m); keys (m_sur m); keys (m_dat m)].

Definition ids_eqb (a : list (name * kind)) (b : list (name * N)) : bool :=
  list_eqb (fun x y => N.eqb (fst x) (fst y) && N.eqb (snd x) (snd y))
           (map (fun x => (fst x, kind_code (snd x))) a) b.

Definition obs_ok (s : st) (o : outcome) (x : obs) : bool :=
  match o, x with
  | Accepted, OMut None ids cont => ids_eqb (s_ids s) ids && list_eqb (list_eqb N.eqb) (content_keys (s_m s)) cont
  | Rejected e, OMut (Some c) ids cont =>
    N.eqb (err_code e) c && ids_eqb (s_ids s) ids && list_eqb (list_eqb N.eqb) (content_keys (s_m s)) cont
  | Answer (AIds i), OIds ids => ids_eqb i ids
  | Answer (APairs l), OPairs l' => pairsZ_eqb l l'
  | Answer (ANames l), ONames l' => list_eqb N.eqb l l'
  | Answer (AErr e), OErr c => N.eqb (err_code e) c
  | _, _ => false
  end.

(** index (from 0) of the first step whose observation differs, if any *)
Fixpoint first_diff (s : st) (h : list (op * obs)) (i : nat) : option nat :=
  match h with
  | [] => None
  | (o, x) :: rest =>
    let '(s', out) := step s o in
    if obs_ok s' out x then first_diff s' rest (S i) else Some i
  end.

Definition history_ok (h : list (op * obs)) : bool :=
  match first_diff init h 0 with None => true | Some _ => false end.
