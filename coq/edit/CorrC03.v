(** Comparison of a modelled history with what the implementation showed after every step. *)
From Coq Require Import ZArith List Bool.
From MxlBase Require Import ListX.
From Core Require Import Sort GenSortFacts FnLib Model Cache Query CorrC01.
From Edit Require Import GenEditFacts ModelSM.
Import ListNotations.

Definition kind_code (k : kind) : N :=
  match k with KPar => 0 | KVar => 1 | KDer => 2 | KRxn => 3 | KRo => 4 | KSur => 5 | KDat => 6 end%N.

(* only the exception CLASS is compared (payloads are C02's business) *)
Definition err_code (e : err) : N :=
  match e with
  | EMissing _ => 0 | ECircular => 1 | EKey => 2 | EType => 3 | EValue => 4 | EFuel => 5 | EName => 6
  end%N.

(** [OMut]: outcome of a (single or batch) mutator, the registry, the container keys and the raw
    values of parameters and variables ([None] = an initial assignment);
    [OTable]: get_stoichiometries as a dense table: row labels, column labels, every (row, column, value) *)
Inductive obs :=
| OMut (rejected : option N) (ids : list (name * N)) (content : list (list name))
       (vals : list (list (name * option Z)))
| OIds (ids : list (name * N))
| OPairs (l : list (name * Z))
| ONames (l : list name)
| OTable (rows cols : list name) (entries : list (name * name * Z))
| OErr (code : N).

Definition content_keys (m : model) : list (list name) :=
  [keys (m_par m); keys (m_var m); keys (m_der m); keys (m_rxn m); keys (m_ro m); keys (m_sur m); keys (m_dat m)].

Definition raw_vals (l : list (name * valia)) : list (name * option Z) :=
  map (fun kv => (fst kv, match snd kv with Plain v => Some v | IA _ _ => None end)) l.
Definition content_vals (m : model) : list (list (name * option Z)) := [raw_vals (m_par m); raw_vals (m_var m)].
Definition optZ_eqb (a b : option Z) : bool :=
  match a, b with Some x, Some y => Z.eqb x y | None, None => true | _, _ => false end.
Definition vals_eqb (a b : list (list (name * option Z))) : bool :=
  list_eqb (list_eqb (fun x y => N.eqb (fst x) (fst y) && optZ_eqb (snd x) (snd y))) a b.

Definition same_set (a b : list name) : bool := subsetN a b && subsetN b a.
Definition table_ok (tab : list (name * list (name * Z))) (rows cols : list name)
           (entries : list (name * name * Z)) : bool :=
  same_set (keys tab) rows
  && same_set (flat_map (fun r => keys (snd r)) tab) cols
  && Nat.eqb (length entries) (length rows * length cols)
  && Nat.eqb (length (keys tab)) (length rows)
  && forallb (fun e => Z.eqb (stoich_at tab (fst (fst e)) (snd (fst e))) (snd e)) entries.

Definition ids_eqb (a : list (name * kind)) (b : list (name * N)) : bool :=
  list_eqb (fun x y => N.eqb (fst x) (fst y) && N.eqb (snd x) (snd y))
           (map (fun x => (fst x, kind_code (snd x))) a) b.

Definition obs_ok (s : st) (o : outcome) (x : obs) : bool :=
  match o, x with
  | Accepted, OMut None ids cont vals =>
    ids_eqb (s_ids s) ids && list_eqb (list_eqb N.eqb) (content_keys (s_m s)) cont && vals_eqb (content_vals (s_m s)) vals
  | Rejected e, OMut (Some c) ids cont vals =>
    N.eqb (err_code e) c && ids_eqb (s_ids s) ids && list_eqb (list_eqb N.eqb) (content_keys (s_m s)) cont
    && vals_eqb (content_vals (s_m s)) vals
  | Answer (AIds i), OIds ids => ids_eqb i ids
  | Answer (APairs l), OPairs l' => pairsZ_eqb l l'
  | Answer (ANames l), ONames l' => list_eqb N.eqb l l'
  | Answer (ATable t), OTable rows cols entries => table_ok t rows cols entries
  | Answer (AErr e), OErr c => N.eqb (err_code e) c
  | _, _ => false
  end.

(** is a memoised cache present?  compared with [model._cache is not None] after EVERY step (third round:
    an edit other than scale_parameter(s) never builds one, cf. PrequeryProofs / seeded/C03-8) *)
Definition cached (s : st) : bool := match s_cache s with Some _ => true | None => false end.

(** index (from 0) of the first step whose observation (or memo presence) differs, if any *)
Fixpoint first_diff (s : st) (h : list (op * obs * bool)) (i : nat) : option nat :=
  match h with
  | [] => None
  | (o, x, cb) :: rest =>
    let '(s', out) := step s o in
    if obs_ok s' out x && Bool.eqb (cached s') cb then first_diff s' rest (S i) else Some i
  end.

Definition history_ok (h : list (op * obs * bool)) : bool :=
  match first_diff init h 0 with None => true | Some _ => false end.
