(** Containers that cross the API (second deepening round; model only, proofs in AliasProofs.v).

    The state machine of ModelSM.v treats every argument and every answer as a VALUE.  The Python
    code exchanges OBJECTS: [get_initial_conditions] / [get_parameter_values] may return the
    cache's own dict, a mutator may keep the list it was given as [args=].  What the caller then
    does to such an object -- without calling any method of the model -- is an action of its own:

      [PokeIc n v]        d = model.get_initial_conditions(); d[n] = v
      [PokeParVals n v]   d = model.get_parameter_values();   d[n] = v
      [PokeDerArgs n a]   the caller overwrites the list it passed as args= of derived quantity n
      [PokeRxnArgs n a]   ... of reaction n          [PokeRoArgs n a]   ... of readout n

    Their effect depends on what the extractor found in the source (GenEditFacts.getter_form /
    input_form): [Copied] -- the object is the caller's own, the model is not touched (the getter
    call itself still happens and may build the cache); [Aliased] -- the write lands in the
    memoised cache / in the model's content, and NOTHING invalidates the cache.
    ([AliasUnknown] is refused by C03_alias_facts_pinned; it is given the [Copied] semantics so that
    the model stays total.)  Under aliasing every args list stored in the model is an object the
    caller handed in, so [Poke*Args] may name any stored component. *)
From Coq Require Import ZArith List Bool.
From MxlBase Require Import ListX.
From Core Require Import Sort GenSortFacts FnLib Model Cache Query.
From Edit Require Import GenEditFacts ModelSM.
Import ListNotations.

Inductive poke :=
| PokeIc (n : name) (v : Z)
| PokeParVals (n : name) (v : Z)
| PokeDerArgs (n : name) (a : list name)
| PokeRxnArgs (n : name) (a : list name)
| PokeRoArgs (n : name) (a : list name).

Inductive xop := Op (o : op) | Poke (p : poke).

Definition set_init (c : cache) (v : env) : cache :=
  mkCache (c_order c) (c_var_names c) (c_dyn_order c) (c_base_par c) (c_all_par c) (c_stoich c) (c_dyn_stoich c) v.
Definition set_base_par (c : cache) (v : env) : cache :=
  mkCache (c_order c) (c_var_names c) (c_dyn_order c) v (c_all_par c) (c_stoich c) (c_dyn_stoich c) (c_init c).

(** the getter call (get-or-create the cache), then the caller's write into what it was handed *)
Definition poke_getter (gm : alias_mode) (s : st) (upd : cache -> cache) : st :=
  let '(rc, s1) := ensure_cache s in
  match gm, rc with
  | Aliased, Val c => mkSt (s_ids s1) (s_m s1) (Some (upd c))
  | _, _ => s1
  end.

Definition poke_with (gm im : alias_mode) (s : st) (p : poke) : st :=
  let m := s_m s in
  match p with
  | PokeIc n v => poke_getter gm s (fun c => set_init c (dset n v (c_init c)))
  | PokeParVals n v => poke_getter gm s (fun c => set_base_par c (dset n v (c_base_par c)))
  | PokeDerArgs n a =>
    match im, lookup n (m_der m) with
    | Aliased, Some d => with_model s (set_der m (dset n (mkDer (d_fn d) a) (m_der m)))
    | _, _ => s
    end
  | PokeRxnArgs n a =>
    match im, lookup n (m_rxn m) with
    | Aliased, Some r => with_model s (set_rxn m (dset n (mkRxn (r_fn r) a (r_st r)) (m_rxn m)))
    | _, _ => s
    end
  | PokeRoArgs n a =>
    match im, lookup n (m_ro m) with
    | Aliased, Some d => with_model s (set_ro m (dset n (mkDer (d_fn d) a) (m_ro m)))
    | _, _ => s
    end
  end.

Definition xstep (gm im : alias_mode) (s : st) (x : xop) : st :=
  match x with Op o => fst (step s o) | Poke p => poke_with gm im s p end.

Definition xrun (gm im : alias_mode) (xh : list xop) : st := fold_left (xstep gm im) xh init.

(** the method calls an extended history makes: a poke of a getter's result contains the getter call *)
Definition calls_of (x : xop) : list op :=
  match x with
  | Op o => [o]
  | Poke (PokeIc _ _) => [Ask QIc]
  | Poke (PokeParVals _ _) => [Ask QParVals]
  | Poke _ => []
  end.
Definition ops_of (xh : list xop) : list op := flat_map calls_of xh.

(** histories without the queries *)
Definition is_edit (o : op) : bool := match o with Ask _ => false | _ => true end.
Definition edits_of (h : list op) : list op := filter is_edit h.
