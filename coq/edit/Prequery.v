(** Third deepening round (seeded/C03-8): what a mutator may do with the memoised cache.

    The shipped code (pinned by [GenEditFacts.mutator_cache_uses] / [batch_cache_uses]): among the 23
    single-item and 7 batch mutators exactly one, scale_parameter, touches [self._cache] or calls a
    method that can reach [_create_cache]; in ModelSM that is the [ensure_cache] of [ScalePar].

    REGRESSION MODEL ([mutate_pq]): a mutator whose body first asks a cache-building getter
    (get_arg_names -> get_derived_parameter_names -> ... -> _create_cache, "to validate its
    arguments") and then writes.  The decorator has cleared the cache BEFORE the body runs, the
    getter re-creates it from the content BEFORE the edit, the writes follow, nothing clears again:
    the memo describes the old content.  [pq mu = true] marks the calls that take that path; an
    exception of the cache construction propagates (the edit is rejected, nothing written).  The
    refusal the seeded validation adds for unknown names happens before any write and is not
    modelled. *)
From Coq Require Import ZArith List Bool.
From MxlBase Require Import ListX.
From Core Require Import Sort GenSortFacts FnLib Model Cache Query.
From Edit Require Import GenEditFacts ModelSM.
Import ListNotations.

Definition is_scale_mut (mu : mutator) : bool := match mu with ScalePar _ _ => true | _ => false end.
Definition is_scale_op (o : op) : bool :=
  match o with Mut (ScalePar _ _) => true | Bat (ScalePars _) => true | _ => false end.

(** "the memo after the call is absent or the very one from before the call": nothing was built *)
Definition built_nothing (before after : option cache) : Prop := after = None \/ after = before.

Definition mutate_pq (pq : mutator -> bool) (s : st) (mu : mutator) : st * outcome :=
  let s0 := if invalidates (method_of mu) then mkSt (s_ids s) (s_m s) None else s in
  if pq mu then
    let '(rc, s1) := ensure_cache s0 in
    match rc with
    | Err e => (s1, Rejected e)
    | Val _ => body 4 s1 mu
    end
  else body 4 s0 mu.

Definition step_pq (pq : mutator -> bool) (s : st) (o : op) : st * outcome :=
  match o with Mut mu => mutate_pq pq s mu | _ => step s o end.

Definition run_history_pq (pq : mutator -> bool) (h : list op) : st :=
  fold_left (fun s o => fst (step_pq pq s o)) h init.

(** a coefficient given by name: the str [x] is stored as Derived(fn=constant, args=[x]) *)
Definition named_coef (c : coef) : bool :=
  match c with CDyn 0%N [_] => true | _ => false end.

(** the calls seeded/C03-8 sends through get_arg_names: update_reaction(stoichiometry=...) with at
    least one coefficient given by name *)
Definition update_with_named (mu : mutator) : bool :=
  match mu with
  | UpdateRxn _ _ _ (Some sto) => existsb (fun kv => named_coef (snd kv)) sto
  | _ => false
  end.

(** the demo: k11 = 2, k36 = 3, x12 = 4, y16 = 1, v14 = x12 * k11 with {x12: -1, y16: 1};
    update_reaction(v14, stoichiometry={x12: -1, y16: "k36"}) *)
Definition c038_history : list op :=
  [Mut (AddPar 11%N (Plain 2%Z)); Mut (AddPar 36%N (Plain 3%Z)); Mut (AddVar 12%N (Plain 4%Z));
   Mut (AddVar 16%N (Plain 1%Z));
   Mut (AddRxn 14%N 4%N [12%N; 11%N] [(12%N, CStat (-1)%Z); (16%N, CStat 1%Z)]);
   Mut (UpdateRxn 14%N None None (Some [(12%N, CStat (-1)%Z); (16%N, CDyn 0%N [36%N])]))].
