(** Proofs for Prequery.v: no edit other than scale_parameter(s) ever builds a cache; a single-item
    edit of a decorated method leaves none behind; the regression model with no marked call is the
    state machine; with update_reaction(named coefficient) marked, the demo of seeded/C03-8. *)
From Coq Require Import ZArith List Bool.
From MxlBase Require Import ListX.
From Core Require Import Sort GenSortFacts FnLib Model Cache Query.
From Edit Require Import GenEditFacts ModelSM SMProofs Alias AliasProofs Prequery.
Import ListNotations.

Lemma bn_refl c : built_nothing c c.
Proof. right; reflexivity. Qed.
Lemma bn_none c : built_nothing c None.
Proof. left; reflexivity. Qed.
Lemma bn_trans a b c : built_nothing a b -> built_nothing b c -> built_nothing a c.
Proof. intros [H1|H1] [H2|H2]; subst; unfold built_nothing; auto. Qed.

Lemma bn_dec mu s : built_nothing (s_cache s) (s_cache (dec mu s)).
Proof. unfold dec. destruct (invalidates (method_of mu)); [apply bn_none|apply bn_refl]. Qed.

Lemma bn_body_add s n k store : built_nothing (s_cache s) (s_cache (fst (body_add s n k store))).
Proof. unfold body_add. destruct (ins_id n k (s_ids s)); cbn; apply bn_refl. Qed.

Lemma bn_body_remove s n p drop : built_nothing (s_cache s) (s_cache (fst (body_remove s n p drop))).
Proof.
  unfold body_remove. destruct (negb p); [apply bn_refl|]. destruct (rem_id n (s_ids s)); cbn; apply bn_refl.
Qed.

(** every method body except scale_parameter's leaves the cache field as it found it or cleared
    (nested public calls go through their decorator): it never BUILDS one *)
Lemma body_builds_nothing :
  forall fuel mu s, is_scale_mut mu = false -> built_nothing (s_cache s) (s_cache (fst (body fuel s mu))).
Proof.
  induction fuel as [|fuel IH]; intros mu s Hns.
  { cbn [body fst]. apply bn_refl. }
  assert (Hrun : forall mu1 t, is_scale_mut mu1 = false ->
                               built_nothing (s_cache t) (s_cache (fst (body fuel (dec mu1 t) mu1)))).
  { intros mu1 t Hn1. eapply bn_trans; [apply bn_dec|apply IH; exact Hn1]. }
  destruct mu; try discriminate Hns;
    try match goal with |- context [MakeParDynamic] => idtac | |- context [MakeVarStatic] => idtac
                   | _ => cbn [body] end.
  - apply bn_body_add.
  - apply bn_body_remove.
  - destruct (negb (has n (m_par (s_m s)))); [apply bn_refl|]. destruct v; cbn; apply bn_refl.
  - (* MakeParDynamic *)
    rewrite body_mpd.
    destruct (match v with Some x => Some x | None => lookup n (m_par (s_m s)) end); [|apply bn_refl].
    destruct (negb (forallb _ _)); [apply bn_refl|].
    pose proof (Hrun (RemovePar n) s eq_refl) as H1.
    destruct (body fuel (dec (RemovePar n) s) (RemovePar n)) as [t1 o1]. cbn [fst] in H1.
    destruct o1; try exact H1.
    pose proof (Hrun (AddVar n v0) t1 eq_refl) as H2.
    destruct (body fuel (dec (AddVar n v0) t1) (AddVar n v0)) as [u1 p1]. cbn [fst] in H2.
    destruct p1; cbn [fst with_model s_cache]; exact (bn_trans _ _ _ H1 H2).
  - apply bn_body_add.
  - (* RemoveVar *)
    destruct (negb (has n (m_var (s_m s)))); [apply bn_refl|].
    destruct (rem_id n (s_ids s)); cbn; apply bn_refl.
  - destruct (negb (has n (m_var (s_m s)))); cbn; apply bn_refl.
  - (* MakeVarStatic *)
    rewrite body_mvs.
    destruct (match v with Some x => Some x | None => lookup n (m_var (s_m s)) end); [|apply bn_refl].
    pose proof (Hrun (RemoveVar n true) s eq_refl) as H1.
    destruct (body fuel (dec (RemoveVar n true) s) (RemoveVar n true)) as [t1 o1]. cbn [fst] in H1.
    destruct o1; try exact H1.
    exact (bn_trans _ _ _ H1 (Hrun (AddPar n v0) t1 eq_refl)).
  - apply bn_body_add.
  - destruct (lookup n (m_der (s_m s))); cbn; apply bn_refl.
  - apply bn_body_remove.
  - apply bn_body_add.
  - destruct (lookup n (m_rxn (s_m s))); cbn; apply bn_refl.
  - apply bn_body_remove.
  - apply bn_body_add.
  - apply bn_body_remove.
  - destruct (bind (ins_id n KSur (s_ids s)) _); cbn; apply bn_refl.
  - destruct (lookup n (m_sur (s_m s))); [|apply bn_refl]. destruct (bind (rem_ids _ (s_ids s)) _); cbn; apply bn_refl.
  - destruct (lookup n (m_sur (s_m s))); [|apply bn_refl]. destruct (rem_id n (s_ids s)); [|apply bn_refl].
    destruct (rem_ids _ _); cbn; apply bn_refl.
  - apply bn_body_add.
  - destruct (negb (has n (m_dat (s_m s)))); cbn; apply bn_refl.
  - apply bn_body_remove.
Qed.

Lemma mutate_builds_nothing s mu :
  is_scale_mut mu = false -> built_nothing (s_cache s) (s_cache (fst (mutate s mu))).
Proof.
  intro Hns. unfold mutate. eapply bn_trans; [apply (bn_dec mu)|]. apply body_builds_nothing. exact Hns.
Qed.

Lemma run_items_builds_nothing l :
  forall s, forallb (fun mu => negb (is_scale_mut mu)) l = true ->
            built_nothing (s_cache s) (s_cache (fst (run_items s l))).
Proof.
  induction l as [|mu r IH]; intros s Hl; cbn [run_items].
  { apply bn_refl. }
  cbn [forallb] in Hl. apply andb_true_iff in Hl as [Hmu Hr]. apply negb_true_iff in Hmu.
  pose proof (mutate_builds_nothing s mu Hmu) as H1.
  destruct (mutate s mu) as [s1 o]. cbn [fst] in H1.
  destruct o; cbn [fst]; try exact H1.
  exact (bn_trans _ _ _ H1 (IH s1 Hr)).
Qed.

Lemma items_not_scale b :
  is_scale_op (Bat b) = false -> forallb (fun mu => negb (is_scale_mut mu)) (items b) = true.
Proof.
  destruct b; cbn [is_scale_op items]; intro H; try discriminate H;
    apply forallb_forall; intros mu Hin; apply in_map_iff in Hin as [x [<- _]]; reflexivity.
Qed.

Lemma batch_builds_nothing mode s b :
  is_scale_op (Bat b) = false -> built_nothing (s_cache s) (s_cache (fst (batch_with mode s b))).
Proof.
  intro Hb. pose proof (run_items_builds_nothing (items b) s (items_not_scale b Hb)) as Hr.
  unfold batch_with. destruct mode; try exact Hr.
  destruct (validate s b); [apply bn_refl|].
  destruct b; try exact Hr. discriminate Hb.
Qed.

(** no edit other than scale_parameter / scale_parameters builds a cache *)
Lemma edit_builds_nothing s o :
  is_edit o = true -> is_scale_op o = false ->
  built_nothing (s_cache s) (s_cache (fst (step s o))).
Proof.
  intros He Hs. destruct o as [mu|b|q]; try discriminate He; cbn [step].
  - apply mutate_builds_nothing. destruct mu; try reflexivity. discriminate Hs.
  - apply batch_builds_nothing. exact Hs.
Qed.

Section WithFacts.
  Hypothesis all_invalidate : forall mu, primitive mu = true -> invalidates (method_of mu) = true.

  (** a single-item edit through a method that writes containers itself leaves NO cache behind,
      accepted or rejected *)
  Lemma primitive_edit_leaves_no_cache s mu :
    primitive mu = true -> s_cache (fst (mutate s mu)) = None.
  Proof.
    intro Hp. unfold mutate. rewrite (all_invalidate mu Hp).
    assert (Hns : is_scale_mut mu = false) by (destruct mu; try reflexivity; discriminate Hp).
    destruct (body_builds_nothing 4 mu (mkSt (s_ids s) (s_m s) None) Hns) as [H|H]; exact H.
  Qed.
End WithFacts.

(** the regression model with no marked call IS the state machine *)
Lemma step_pq_none s o : step_pq (fun _ => false) s o = step s o.
Proof. destruct o; reflexivity. Qed.

Lemma run_history_pq_none h : run_history_pq (fun _ => false) h = run_history h.
Proof.
  unfold run_history_pq, run_history. generalize init. induction h as [|o r IH]; intro s; cbn [fold_left].
  - reflexivity.
  - rewrite step_pq_none. apply IH.
Qed.

(** ... and calls that are not marked behave as before whatever else is marked *)
Lemma mutate_pq_unmarked pq s mu : pq mu = false -> mutate_pq pq s mu = mutate s mu.
Proof. intro H. unfold mutate_pq, mutate. rewrite H. reflexivity. Qed.

(** seeded/C03-8: update_reaction validates named coefficients through a cache-building getter *)
Lemma prequery_refuted :
  exists (h : list op) (q : query),
    snd (ask (run_history_pq update_with_named h) q) <> snd (ask (fresh (run_history_pq update_with_named h)) q) /\
    s_m (run_history_pq update_with_named h) = s_m (run_history h) /\
    s_ids (run_history_pq update_with_named h) = s_ids (run_history h) /\
    s_cache (run_history_pq update_with_named h) <> None /\
    s_cache (run_history h) = None /\
    snd (ask (run_history_pq update_with_named h) q) = Answer (APairs [(12%N, (-8)%Z); (16%N, 8%Z)]) /\
    snd (ask (fresh (run_history_pq update_with_named h)) q) = Answer (APairs [(12%N, (-8)%Z); (16%N, 24%Z)]) /\
    snd (ask (run_history h) q) = Answer (APairs [(12%N, (-8)%Z); (16%N, 24%Z)]).
Proof.
  exists c038_history, (QRhs None 0%Z).
  split; [vm_compute; discriminate|].
  split; [vm_compute; reflexivity|].
  split; [vm_compute; reflexivity|].
  split; [vm_compute; discriminate|].
  repeat split; vm_compute; reflexivity.
Qed.

(** the next decorated edit heals the model: the wrong answers are seen only between the update
    and the next edit *)
Lemma prequery_healed_by_next_edit :
  forall q, snd (ask (run_history_pq update_with_named (c038_history ++ [Mut (UpdatePar 36%N (Some (Plain 5%Z)))])) q)
            = snd (ask (run_history (c038_history ++ [Mut (UpdatePar 36%N (Some (Plain 5%Z)))])) q).
Proof.
  assert (E : run_history_pq update_with_named (c038_history ++ [Mut (UpdatePar 36%N (Some (Plain 5%Z)))])
              = run_history (c038_history ++ [Mut (UpdatePar 36%N (Some (Plain 5%Z)))])) by (vm_compute; reflexivity).
  intro q. rewrite E. reflexivity.
Qed.
