(** From the pinned table to the hypothesis used by SMProofs. *)
From Coq Require Import List Bool String.
From Edit Require Import GenEditFacts ModelSM SMProofs.
Import ListNotations.

Lemma all_invalidate_from_pin :
  forallb invalidates
          [M_add_parameter; M_remove_parameter; M_update_parameter; M_make_parameter_dynamic;
           M_add_variable; M_remove_variable; M_update_variable;
           M_add_derived; M_update_derived; M_remove_derived;
           M_add_reaction; M_update_reaction; M_remove_reaction;
           M_add_readout; M_remove_readout;
           M_add_surrogate; M_update_surrogate; M_remove_surrogate;
           M_add_data; M_update_data; M_remove_data] = true
  /\ unknown_mutators = [] ->
  forall mu, primitive mu = true -> invalidates (method_of mu) = true.
Proof.
  intros [H _] mu Hp. rewrite forallb_forall in H.
  destruct mu; cbn [primitive] in Hp; try discriminate Hp; cbn [method_of]; apply H; cbn; tauto.
Qed.
