(* REGENERATED from src/mxlpy/model.py (class Model) by harness/c03.py; do not edit. *)
From Coq Require Import List String.
Import ListNotations.
Inductive method :=
| M_add_parameter
| M_remove_parameter
| M_update_parameter
| M_scale_parameter
| M_make_parameter_dynamic
| M_add_variable
| M_remove_variable
| M_update_variable
| M_make_variable_static
| M_add_derived
| M_update_derived
| M_remove_derived
| M_add_reaction
| M_update_reaction
| M_remove_reaction
| M_add_readout
| M_remove_readout
| M_add_surrogate
| M_update_surrogate
| M_remove_surrogate
| M_add_data
| M_update_data
| M_remove_data.
(* does the public method carry @_invalidate_cache (and does the decorator clear the cache first)? *)
Definition invalidates (m : method) : bool :=
  match m with
  | M_add_parameter => true
  | M_remove_parameter => true
  | M_update_parameter => true
  | M_scale_parameter => false
  | M_make_parameter_dynamic => true
  | M_add_variable => true
  | M_remove_variable => true
  | M_update_variable => true
  | M_make_variable_static => false
  | M_add_derived => true
  | M_update_derived => true
  | M_remove_derived => true
  | M_add_reaction => true
  | M_update_reaction => true
  | M_remove_reaction => true
  | M_add_readout => true
  | M_remove_readout => true
  | M_add_surrogate => true
  | M_update_surrogate => true
  | M_remove_surrogate => true
  | M_add_data => true
  | M_update_data => true
  | M_remove_data => true
  end.
(* public methods of Model that write a container directly and are unknown to the state machine *)
Definition unknown_mutators : list string := [].
