(* REGENERATED from src/mxlpy/model.py (class Model) by harness/c03.py; do not edit. *)
From Coq Require Import List String.
Import ListNotations.
Inductive method :=
| M_add_parameter
| M_remove_parameter
| M_update_parameter
| M_scale_parameter
| M_make_parameter_dynamic
| M_add_variable
| M_remove_variable
| M_update_variable
| M_make_variable_static
| M_add_derived
| M_update_derived
| M_remove_derived
| M_add_reaction
| M_update_reaction
| M_remove_reaction
| M_add_readout
| M_remove_readout
| M_add_surrogate
| M_update_surrogate
| M_remove_surrogate
| M_add_data
| M_update_data
| M_remove_data.
(* does the public method carry @_invalidate_cache (and does the decorator clear the cache first)? *)
Definition invalidates (m : method) : bool :=
  match m with
  | M_add_parameter => true
  | M_remove_parameter => true
  | M_update_parameter => true
  | M_scale_parameter => false
  | M_make_parameter_dynamic => true
  | M_add_variable => true
  | M_remove_variable => true
  | M_update_variable => true
  | M_make_variable_static => false
  | M_add_derived => true
  | M_update_derived => true
  | M_remove_derived => true
  | M_add_reaction => true
  | M_update_reaction => true
  | M_remove_reaction => true
  | M_add_readout => true
  | M_remove_readout => true
  | M_add_surrogate => true
  | M_update_surrogate => true
  | M_remove_surrogate => true
  | M_add_data => true
  | M_update_data => true
  | M_remove_data => true
  end.
(* public methods of Model that write a container directly and are unknown to the state machine *)
Definition unknown_mutators : list string := [].
(* the batch mutators: plain fold of the single-item mutator / names validated first / unrecognised *)
Inductive batch_mode := BatchFold | BatchValidated | BatchUnknown.
Inductive batch :=
| B_add_parameters
| B_remove_parameters
| B_update_parameters
| B_scale_parameters
| B_add_variables
| B_remove_variables
| B_update_variables.
Definition batch_form (b : batch) : batch_mode :=
  match b with
  | B_add_parameters => BatchValidated
  | B_remove_parameters => BatchValidated
  | B_update_parameters => BatchValidated
  | B_scale_parameters => BatchValidated
  | B_add_variables => BatchValidated
  | B_remove_variables => BatchValidated
  | B_update_variables => BatchValidated
  end.
(* methods of Model that raise ArityMismatchError / call _check_function_arity *)
Definition arity_raisers : list string := ["_create_cache"%string].
(* _create_cache checks the arity of initial assignments, derived, reactions, readouts before it sorts *)
Definition arity_checked_before_sort : bool := true.
(* do containers cross the API as values?  Aliased = the model / the caller keeps working on the SAME object *)
Inductive alias_mode := Aliased | Copied | AliasUnknown.
Inductive getter :=
| G_get_parameter_values
| G_get_initial_conditions.
Definition getter_form (g : getter) : alias_mode :=
  match g with
  | G_get_parameter_values => Copied
  | G_get_initial_conditions => Copied
  end.
(* the mutators that are given args= / outputs= / stoichiometries= containers (for add_/update_reaction the recognised
   texts include the construction of an own stoichiometry dict) *)
Inductive argsite :=
| A_add_derived
| A_update_derived
| A_add_reaction
| A_update_reaction
| A_add_readout
| A_add_surrogate
| A_update_surrogate.
Definition input_form (a : argsite) : alias_mode :=
  match a with
  | A_add_derived => Copied
  | A_update_derived => Copied
  | A_add_reaction => Copied
  | A_update_reaction => Copied
  | A_add_readout => Copied
  | A_add_surrogate => Copied
  | A_update_surrogate => Copied
  end.
(* get_stoichiometries / get_stoichiometries_of_variable fill in the computed coefficients on a deep copy of the cached table *)
Definition stoich_queries_copy : bool := true.
(* what a mutator body does with the memoised cache: the cache-building methods of Model it mentions (nested modelled
   mutators excluded) and "_cache" when it reads self._cache; the decorator clears BEFORE the body runs *)
Definition mutator_cache_uses (m : method) : list string :=
  match m with
  | M_add_parameter => []
  | M_remove_parameter => []
  | M_update_parameter => []
  | M_scale_parameter => ["_cache"%string; "_create_cache"%string]
  | M_make_parameter_dynamic => []
  | M_add_variable => []
  | M_remove_variable => []
  | M_update_variable => []
  | M_make_variable_static => []
  | M_add_derived => []
  | M_update_derived => []
  | M_remove_derived => []
  | M_add_reaction => []
  | M_update_reaction => []
  | M_remove_reaction => []
  | M_add_readout => []
  | M_remove_readout => []
  | M_add_surrogate => []
  | M_update_surrogate => []
  | M_remove_surrogate => []
  | M_add_data => []
  | M_update_data => []
  | M_remove_data => []
  end.
Definition batch_cache_uses (b : batch) : list string :=
  match b with
  | B_add_parameters => []
  | B_remove_parameters => []
  | B_update_parameters => []
  | B_scale_parameters => []
  | B_add_variables => []
  | B_remove_variables => []
  | B_update_variables => []
  end.
