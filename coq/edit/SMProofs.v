(** Cache coherence over all histories: the memoised cache is always None or exactly the cache
    of the current content -- hence every query answers as a fresh model with the same content. *)
From Coq Require Import ZArith List Bool.
From MxlBase Require Import ListX.
From Core Require Import Sort GenSortFacts FnLib Model Cache Query.
From Edit Require Import GenEditFacts ModelSM.
Import ListNotations.

Definition coherent (s : st) : Prop :=
  forall c, s_cache s = Some c ->
            build_cache (s_m s) = Val c.

(** the methods that write containers directly; wrappers (scale_parameter,
    make_variable_static) only go through other public mutators *)
Definition primitive (mu : mutator) : bool :=
  match mu with ScalePar _ _ | MakeVarStatic _ _ => false | _ => true end.

Section WithFacts.
  (** what C03_facts_pinned establishes for the regenerated table *)
  Hypothesis all_invalidate : forall mu, primitive mu = true -> invalidates (method_of mu) = true.

  Lemma coherent_none ids m : coherent (mkSt ids m None).
  Proof. intros c H. discriminate H. Qed.

  Lemma ensure_cache_coherent s rc s' :
    coherent s -> ensure_cache s = (rc, s') ->
    coherent s' /\ s_m s' = s_m s /\ s_ids s' = s_ids s /\
    (forall c, rc = Val c -> s_cache s' = Some c) /\
    rc = match s_cache s with
         | Some c => Val c
         | None => build_cache (s_m s)
         end.
  Proof.
    unfold ensure_cache. intros Hc H. destruct (s_cache s) as [c|] eqn:Ec.
    - injection H as <- <-. repeat split; auto. intros c' Hc'. injection Hc' as <-. exact Ec.
    - destruct (build_cache (s_m s)) as [c|e] eqn:Ecc; injection H as <- <-.
      + repeat split; auto.
        * intros c' Hc'. cbn in Hc'. injection Hc' as <-. exact Ecc.
        * intros c' Hc'. injection Hc' as <-. reflexivity.
      + repeat split; auto. intros c' Hc'. discriminate Hc'.
  Qed.

  (** a state whose cache is None stays coherent whatever happens to its content, as long as the
      cache field is only ever copied or cleared -- captured by: result cache None, or state
      untouched, or (content untouched and coherent) *)
  Definition safe (s s' : st) : Prop :=
    s_cache s' = None \/ (coherent s -> coherent s' /\ s_m s' = s_m s).

  Lemma safe_coherent s s' : coherent s -> safe s s' -> coherent s'.
  Proof.
    intros Hc [Hn|H].
    - intros c Hc'. rewrite Hn in Hc'. discriminate Hc'.
    - apply H. exact Hc.
  Qed.


  Lemma body_add_safe s n k store : s_cache s = None -> safe s (fst (body_add s n k store)).
  Proof.
    intros Hn. unfold body_add. destruct (ins_id n k (s_ids s)); cbn [fst]; left; cbn; exact Hn.
  Qed.

  Lemma body_remove_safe s n p drop : s_cache s = None -> safe s (fst (body_remove s n p drop)).
  Proof.
    intros Hn. unfold body_remove. destruct (negb p); cbn [fst]; [left; exact Hn|].
    destruct (rem_id n (s_ids s)); cbn [fst]; left; cbn; exact Hn.
  Qed.

  (** main lemma: a body entered with a coherent state -- and, for primitive methods, entered
      through the decorator (cache None) -- ends in a coherent state *)
  Lemma body_coherent :
    forall fuel s mu,
      coherent s -> (primitive mu = true -> s_cache s = None) ->
      coherent (fst (body fuel s mu)).
  Proof.
    induction fuel as [|fuel IH]; intros s mu Hc Hp; [exact Hc|].
    assert (Hrun : forall s1 mu1, coherent s1 ->
               coherent (fst (body fuel (if invalidates (method_of mu1) then mkSt (s_ids s1) (s_m s1) None else s1) mu1))).
    { intros s1 mu1 Hc1. apply IH.
      - destruct (invalidates (method_of mu1)); [apply coherent_none|exact Hc1].
      - intro Hprim. rewrite (all_invalidate mu1 Hprim). reflexivity. }
    destruct mu; cbn [body]; try specialize (Hp eq_refl).
    - (* AddPar *) eapply safe_coherent; [exact Hc|apply body_add_safe; exact Hp].
    - eapply safe_coherent; [exact Hc|apply body_remove_safe; exact Hp].
    - (* UpdatePar *) destruct (negb (has n (m_par (s_m s)))); [exact Hc|].
      destruct v; [|exact Hc]. intros c H. cbn in H. rewrite Hp in H. discriminate H.
    - (* ScalePar *)
      destruct (lookup n (m_par (s_m s))) as [[old|f a]|]; [apply Hrun; exact Hc| |exact Hc].
      destruct (ensure_cache s) as [rc s1] eqn:Ee.
      destruct (ensure_cache_coherent s rc s1 Hc Ee) as [Hc1 _].
      destruct rc as [c|e]; [|exact Hc1].
      destruct (lookup n (c_all_par c)); [apply Hrun; exact Hc1|exact Hc1].
    - (* MakeParDynamic *)
      destruct (match v with Some x => Some x | None => lookup n (m_par (s_m s)) end); [|exact Hc].
      destruct (negb (forallb _ _)); [exact Hc|].
      pose proof (Hrun s (RemovePar n) Hc) as H1.
      destruct (body fuel _ (RemovePar n)) as [s1 o1] eqn:E1. cbn [fst] in H1.
      destruct o1; try exact H1.
      pose proof (Hrun s1 (AddVar n v0) H1) as H2.
      destruct (body fuel _ (AddVar n v0)) as [s2 o2] eqn:E2. cbn [fst] in H2.
      destruct o2; try exact H2. cbn [fst].
      (* the stoichiometry loop runs after AddVar went through the decorator: cache is None *)
      assert (Hn2 : s_cache s2 = None).
      { clear - E2 all_invalidate. rewrite (all_invalidate (AddVar n v0) eq_refl) in E2.
        destruct fuel as [|fuel]; cbn [body] in E2; [inversion E2|].
        unfold body_add in E2. cbn [s_ids s_m s_cache] in E2.
        destruct (ins_id n KVar (s_ids s1)); inversion E2; reflexivity. }
      intros c H. cbn in H. rewrite Hn2 in H. discriminate H.
    - eapply safe_coherent; [exact Hc|apply body_add_safe; exact Hp].
    - (* RemoveVar *)
      destruct (negb (has n (m_var (s_m s)))); [exact Hc|].
      destruct (rem_id n (s_ids s)); cbn [fst]; intros c H; cbn in H; rewrite Hp in H; discriminate H.
    - (* UpdateVar *)
      destruct (negb (has n (m_var (s_m s)))); [exact Hc|]. intros c H. cbn in H. rewrite Hp in H. discriminate H.
    - (* MakeVarStatic *)
      destruct (match v with Some x => Some x | None => lookup n (m_var (s_m s)) end); [|exact Hc].
      pose proof (Hrun s (RemoveVar n true) Hc) as H1.
      destruct (body fuel _ (RemoveVar n true)) as [s1 o1] eqn:E1. cbn [fst] in H1.
      destruct o1; try exact H1. apply Hrun. exact H1.
    - eapply safe_coherent; [exact Hc|apply body_add_safe; exact Hp].
    - (* UpdateDer *)
      destruct (lookup n (m_der (s_m s))); [|exact Hc]. intros c H. cbn in H. rewrite Hp in H. discriminate H.
    - eapply safe_coherent; [exact Hc|apply body_remove_safe; exact Hp].
    - eapply safe_coherent; [exact Hc|apply body_add_safe; exact Hp].
    - (* UpdateRxn *)
      destruct (lookup n (m_rxn (s_m s))); [|exact Hc]. intros c H. cbn in H. rewrite Hp in H. discriminate H.
    - eapply safe_coherent; [exact Hc|apply body_remove_safe; exact Hp].
    - eapply safe_coherent; [exact Hc|apply body_add_safe; exact Hp].
    - eapply safe_coherent; [exact Hc|apply body_remove_safe; exact Hp].
    - (* AddSur *)
      destruct (bind (ins_id n KSur (s_ids s)) _); cbn [fst]; [|exact Hc].
      intros c H. cbn in H. rewrite Hp in H. discriminate H.
    - (* UpdateSur *)
      destruct (lookup n (m_sur (s_m s))); [|exact Hc].
      destruct (bind (rem_ids _ (s_ids s)) _); cbn [fst]; [|exact Hc].
      intros c H. cbn in H. rewrite Hp in H. discriminate H.
    - (* RemoveSur *)
      destruct (lookup n (m_sur (s_m s))); [|exact Hc].
      destruct (rem_id n (s_ids s)); [|exact Hc].
      destruct (rem_ids _ _); cbn [fst]; intros c H; cbn in H; rewrite Hp in H; discriminate H.
    - eapply safe_coherent; [exact Hc|apply body_add_safe; exact Hp].
    - (* UpdateDat *)
      destruct (negb (has n (m_dat (s_m s)))); [exact Hc|]. intros c H. cbn in H. rewrite Hp in H. discriminate H.
    - eapply safe_coherent; [exact Hc|apply body_remove_safe; exact Hp].
  Qed.

  Lemma mutate_coherent s mu : coherent s -> coherent (fst (mutate s mu)).
  Proof.
    intros Hc. unfold mutate. apply body_coherent.
    - destruct (invalidates (method_of mu)); [apply coherent_none|exact Hc].
    - intro Hprim. rewrite (all_invalidate mu Hprim). reflexivity.
  Qed.

  Lemma ask_coherent s q : coherent s -> coherent (fst (ask s q)) /\ s_m (fst (ask s q)) = s_m s.
  Proof.
    intros Hc. unfold ask. destruct q; try (cbn [fst]; split; [exact Hc|reflexivity]);
      destruct (ensure_cache s) as [rc s1] eqn:Ee;
      destruct (ensure_cache_coherent s rc s1 Hc Ee) as [Hc1 [Hm _]];
      destruct rc; cbn [fst]; split; assumption.
  Qed.

  (** batch forms: a fold of public calls; the roll-back of scale_parameters drops the cache *)
  Lemma run_items_coherent l : forall s, coherent s -> coherent (fst (run_items s l)).
  Proof.
    induction l as [|mu r IH]; intros s Hc; cbn [run_items]; [exact Hc|].
    pose proof (mutate_coherent s mu Hc) as H1. destruct (mutate s mu) as [s1 o]. cbn [fst] in H1.
    destruct o; [apply IH; exact H1|exact H1|exact H1].
  Qed.

  Lemma batch_with_coherent mode s b : coherent s -> coherent (fst (batch_with mode s b)).
  Proof.
    intros Hc. destruct mode; cbn [batch_with]; try (apply run_items_coherent; exact Hc).
    destruct (validate s b); [exact Hc|].
    destruct b; try (apply run_items_coherent; exact Hc).
    pose proof (run_items_coherent (items (ScalePars l)) s Hc) as H1.
    destruct (run_items s (items (ScalePars l))) as [s1 o]. cbn [fst] in H1.
    destruct o; cbn [fst]; [exact H1|apply coherent_none|apply coherent_none].
  Qed.

  Lemma step_coherent s o : coherent s -> coherent (fst (step s o)).
  Proof.
    intros Hc. destruct o; cbn [step];
      [apply mutate_coherent; exact Hc|apply batch_with_coherent; exact Hc|apply ask_coherent; exact Hc].
  Qed.

  Lemma fold_coherent h : forall s, coherent s -> coherent (fold_left (fun s o => fst (step s o)) h s).
  Proof.
    induction h as [|o h IH]; intros s Hc; cbn [fold_left]; [exact Hc|]. apply IH. apply step_coherent. exact Hc.
  Qed.

  Lemma build_cache_val m c :
    build_cache m = Val c -> create_cache FnLib.fsem FnLib.fsemN gen_sort_facts m = Val c.
  Proof. unfold build_cache. destruct (arity_all_ok m); [auto|discriminate]. Qed.

  Lemma history_coherent h : coherent (run_history h).
  Proof. unfold run_history. apply fold_coherent. intros c H. discriminate H. Qed.

  Lemma history_coherent_create h c :
    s_cache (run_history h) = Some c ->
    create_cache FnLib.fsem FnLib.fsemN gen_sort_facts (s_m (run_history h)) = Val c.
  Proof. intro H. apply build_cache_val. apply (history_coherent h). exact H. Qed.

  Lemma history_coherent_arity h c :
    s_cache (run_history h) = Some c ->
    build_cache (s_m (run_history h)) = Val c /\ arity_all_ok (s_m (run_history h)) = true.
  Proof.
    intro H. pose proof (history_coherent h c H) as Hb. split; [exact Hb|].
    unfold build_cache in Hb. destruct (arity_all_ok (s_m (run_history h))); [reflexivity|discriminate Hb].
  Qed.

  (** a coherent state answers every query exactly as the fresh model with the same content *)
  Lemma ask_equals_fresh s q : coherent s -> snd (ask s q) = snd (ask (fresh s) q).
  Proof.
    intros Hc. unfold ask. destruct q; try reflexivity;
      destruct (ensure_cache s) as [rc s1] eqn:E1;
      destruct (ensure_cache (fresh s)) as [rc2 s2] eqn:E2;
      destruct (ensure_cache_coherent s rc s1 Hc E1) as [_ [Hm1 [_ [_ Hrc1]]]];
      destruct (ensure_cache_coherent (fresh s) rc2 s2 (coherent_none _ _) E2) as [_ [Hm2 [_ [_ Hrc2]]]];
      cbn [fresh s_cache s_m] in Hrc2, Hm2;
      assert (Hrc : rc = rc2) by
          (rewrite Hrc1, Hrc2; destruct (s_cache s) as [c|] eqn:Ec; [symmetry; apply Hc; exact Ec|reflexivity]);
      clear Hrc1 Hrc2; subst rc2; destruct rc as [c|e]; cbn [snd]; try reflexivity; rewrite ?Hm1, ?Hm2; reflexivity.
  Qed.

  Lemma history_equals_fresh h q :
    snd (ask (run_history h) q) = snd (ask (fresh (run_history h)) q).
  Proof. apply ask_equals_fresh. apply history_coherent. Qed.
End WithFacts.
