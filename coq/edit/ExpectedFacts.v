(** Hand-edited (together with a [fix:] commit in /repo only): the form of the batch mutators that
    PropsC03.v expects the extractor (harness/c03_facts.py) to find in the current tree.

    [C03_expected_batch]
      BatchFold        the tree before fixes/C03-batch-edits-atomic.diff: add_parameters,
                       remove_parameters, update_parameters, scale_parameters, add_variables,
                       remove_variables, update_variables are plain folds of the single-item mutator;
                       a batch rejected at item k leaves items 1..k-1 applied (recorded finding
                       C03-batch-partial-application; theorems C03_batch_rejected_changes_nothing_partial,
                       C03_batch_rejected_changes_nothing_refuted)
      BatchValidated   after the diff: every name is validated before the first item is applied,
                       scale_parameters puts the old values back when the cache cannot be built
                       (theorem C03_batch_rejected_changes_nothing, no guard)
    tools/c03_switch.py rewrites this line and known_findings.d/C03.json consistently. *)
From Edit Require Import GenEditFacts.

Definition C03_expected_batch : batch_mode := BatchValidated.

(** Two more hand-edited lines (same tool: tools/c03_switch.py getters|inputs|containers snapshot|repaired <hash>;
    `containers` flips both).  The repair fixes/C03-containers-are-values.diff covers both; its getter half is identical to
    fixes/C13-query-results-are-copies.diff, its other half alone is fixes/C03-mutators-copy-containers.diff.

    [C03_expected_getters]
      Aliased   get_parameter_values / get_initial_conditions return the cache's own dicts (recorded finding
                C03-query-results-alias-cache; theorems C03_exchanged_containers_are_values_partial, C03_getters_alias_cache_refuted)
      Copied    they return copies
    [C03_expected_inputs]
      Aliased   the mutators given args= / outputs= / stoichiometries= keep the caller's list / dict objects (recorded finding
                C03-mutators-keep-caller-lists; theorems ..._partial, C03_mutators_keep_lists_refuted)
      Copied    they copy them
    Both Copied: theorem C03_exchanged_containers_are_values applies (no guard). *)
Definition C03_expected_getters : alias_mode := Copied.
Definition C03_expected_inputs : alias_mode := Copied.
