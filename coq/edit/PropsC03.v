(** C03 -- Edit histories: answers depend only on the model's current content.
    ONLY statements.  [invalidates] / [unknown_mutators] are REGENERATED from src/mxlpy/model.py on
    every run; C03_facts_pinned is the obligation that breaks when a mutator loses its
    @_invalidate_cache decorator, the decorator stops clearing first, or a new container-writing
    public method appears that the state machine does not know. *)
From Coq Require Import ZArith List Bool String.
From MxlBase Require Import ListX.
From Core Require Import Sort GenSortFacts FnLib Model Cache Query.
From Edit Require Import GenEditFacts ExpectedFacts ModelSM SMProofs Alias AliasProofs SMPin Prequery PrequeryProofs.
Import ListNotations.

Theorem C03_facts_pinned :
  forallb invalidates
          [M_add_parameter; M_remove_parameter; M_update_parameter; M_make_parameter_dynamic;
           M_add_variable; M_remove_variable; M_update_variable;
           M_add_derived; M_update_derived; M_remove_derived;
           M_add_reaction; M_update_reaction; M_remove_reaction;
           M_add_readout; M_remove_readout;
           M_add_surrogate; M_update_surrogate; M_remove_surrogate;
           M_add_data; M_update_data; M_remove_data] = true
  /\ unknown_mutators = [].
Proof. split; vm_compute; reflexivity. Qed.
Print Assumptions C03_facts_pinned.

(** the batch mutators have the expected form (ExpectedFacts.v: plain folds in the snapshot,
    validate-first after fixes/C03-batch-edits-atomic.diff), ArityMismatchError is raised by
    _create_cache only -- no mutator checks the arity of the function it is given -- and there
    before the dependency sort *)
Theorem C03_batch_facts_pinned :
  (forall b : batch, batch_form b = C03_expected_batch)
  /\ arity_raisers = ["_create_cache"%string]
  /\ arity_checked_before_sort = true.
Proof. split; [intros []; vm_compute; reflexivity|split; vm_compute; reflexivity]. Qed.
Print Assumptions C03_batch_facts_pinned.

(** after ANY finite sequence of public single-item mutators, batch mutators and queries the
    memoised cache is either absent or exactly what _create_cache computes from the current content *)
Theorem C03_cache_always_coherent :
  forall (h : list op) (c : cache),
    s_cache (run_history h) = Some c ->
    create_cache FnLib.fsem FnLib.fsemN gen_sort_facts (s_m (run_history h)) = Val c.
Proof. exact (history_coherent_create (all_invalidate_from_pin C03_facts_pinned)). Qed.
Print Assumptions C03_cache_always_coherent.

(** ... including the arity sanity check that precedes it: a memoised cache exists only for a
    content in which every function has the arity of its argument list *)
Theorem C03_cache_always_coherent_arity :
  forall (h : list op) (c : cache),
    s_cache (run_history h) = Some c ->
    build_cache (s_m (run_history h)) = Val c /\ arity_all_ok (s_m (run_history h)) = true.
Proof. exact (history_coherent_arity (all_invalidate_from_pin C03_facts_pinned)). Qed.
Print Assumptions C03_cache_always_coherent_arity.

(** ... hence every query (get_fluxes and get_stoichiometries included: the memoised coefficient
    tables are never stale) answers exactly as a freshly built model with the same content *)
Theorem C03_history_equals_fresh :
  forall (h : list op) (q : query),
    snd (ask (run_history h) q) = snd (ask (fresh (run_history h)) q).
Proof. exact (history_equals_fresh (all_invalidate_from_pin C03_facts_pinned)). Qed.
Print Assumptions C03_history_equals_fresh.

(** non-vacuity: query, remove the surrogate, query again -- the second answer is the fresh one *)
Example C03_nonvacuous :
  let h := [Mut (AddVar 12%N (Plain 1%Z)); Mut (AddPar 11%N (Plain 2%Z));
            Mut (AddSur 15%N (mkSur 1%N [12%N; 11%N] [21%N; 22%N] [(21%N, [(12%N, CStat 1%Z)])]) None None None);
            Ask (QArgs None 0%Z); Mut (RemoveSur 15%N)] in
  s_cache (run_history h) = None /\
  snd (ask (run_history h) (QArgs None 0%Z)) = Answer (APairs [(0%N, 0%Z); (12%N, 1%Z); (11%N, 2%Z)]).
Proof. cbv zeta. split; vm_compute; reflexivity. Qed.
Print Assumptions C03_nonvacuous.

(** non-vacuity for the enlarged alphabet: a named coefficient (parameter 11 on variable 16) is read
    by get_stoichiometries, the cache is filled, update_parameters changes 11, and the table shows
    the new coefficient (cf. seeded/C03-1); a derived quantity of wrong arity is ACCEPTED by
    add_derived (no mutator checks arities), every later query reports the arity error, scaling an
    assigned parameter is rejected, and removing the derived quantity heals the model *)
Example C03_nonvacuous_batch_stoich_arity :
  let h := [Bat (AddPars [(11%N, Plain 2%Z); (17%N, IA 0%N [11%N])]); Bat (AddVars [(12%N, Plain 1%Z); (16%N, Plain 3%Z)]);
            Mut (AddRxn 14%N 4%N [11%N; 12%N] [(12%N, CStat (-1)%Z); (16%N, CDyn 0%N [11%N])]);
            Ask (QStoich None 0%Z); Bat (UpdatePars [(11%N, Plain 5%Z)])] in
  snd (ask (run_history [Bat (AddPars [(11%N, Plain 2%Z)]); Bat (AddVars [(12%N, Plain 1%Z); (16%N, Plain 3%Z)]);
                         Mut (AddRxn 14%N 4%N [11%N; 12%N] [(12%N, CStat (-1)%Z); (16%N, CDyn 0%N [11%N])])])
           (QStoich None 0%Z))
  = Answer (ATable [(12%N, [(14%N, (-1)%Z)]); (16%N, [(14%N, 2%Z)])])
  /\ s_cache (run_history h) = None
  /\ snd (ask (run_history h) (QStoich None 0%Z)) = Answer (ATable [(12%N, [(14%N, (-1)%Z)]); (16%N, [(14%N, 5%Z)])])
  /\ snd (ask (run_history h) (QFluxes None 0%Z)) = Answer (APairs [(14%N, 5%Z)])
  /\ snd (step (run_history h) (Mut (AddDer 13%N 2%N [11%N]))) = Accepted
  /\ snd (ask (run_history (h ++ [Mut (AddDer 13%N 2%N [11%N])])) QIc) = Answer (AErr EType)
  /\ snd (step (run_history (h ++ [Mut (AddDer 13%N 2%N [11%N])])) (Mut (ScalePar 17%N 2%Z))) = Rejected EType
  /\ snd (ask (run_history (h ++ [Mut (AddDer 13%N 2%N [11%N]); Mut (RemoveDer 13%N)])) QIc)
     = Answer (APairs [(12%N, 1%Z); (16%N, 3%Z)]).
Proof. cbv zeta. repeat split; vm_compute; reflexivity. Qed.
Print Assumptions C03_nonvacuous_batch_stoich_arity.

(** ---- second deepening round: edits depend on the content only, queries leave no trace, containers that
    cross the API are values ------------------------------------------------------------------------------- *)

(** what the extractor found about objects crossing the API (ExpectedFacts.v, two switches: [Aliased] in the snapshot,
    [Copied] after fixes/C03-containers-are-values.diff): get_parameter_values / get_initial_conditions, the
    mutators given args= / outputs= / stoichiometries= (the recognised texts of add_/update_reaction include
    the construction of an own stoichiometry dict, cf. seeded/C03-5); and get_stoichiometries(_of_variable)
    fill in the computed coefficients on a deep copy of the cached table (cf. seeded/C03-6) *)
Theorem C03_alias_facts_pinned :
  (forall g : getter, getter_form g = C03_expected_getters)
  /\ (forall a : argsite, input_form a = C03_expected_inputs)
  /\ stoich_queries_copy = true.
Proof. split; [intros []; vm_compute; reflexivity|split; [intros []; vm_compute; reflexivity|vm_compute; reflexivity]]. Qed.
Print Assumptions C03_alias_facts_pinned.

(** after ANY history, what the next step (single-item edit, batch edit, query) does -- its outcome, the
    registry and the content it leaves -- is the same whether a query has populated the cache or not: it is a
    function of the content alone (scale_parameter(s) on an assigned parameter READS the cache; cf. seeded/C03-4) *)
Theorem C03_edit_depends_on_content_only :
  forall (h : list op) (o : op),
    snd (step (run_history h) o) = snd (step (fresh (run_history h)) o) /\
    s_ids (fst (step (run_history h) o)) = s_ids (fst (step (fresh (run_history h)) o)) /\
    s_m (fst (step (run_history h) o)) = s_m (fst (step (fresh (run_history h)) o)).
Proof. exact (step_independent_of_cache (all_invalidate_from_pin C03_facts_pinned)). Qed.
Print Assumptions C03_edit_depends_on_content_only.

(** queries leave no trace: deleting every query from a history changes neither the registry nor the content
    nor the answer to any later query *)
Theorem C03_queries_leave_no_trace :
  forall h : list op,
    s_ids (run_history h) = s_ids (run_history (edits_of h)) /\
    s_m (run_history h) = s_m (run_history (edits_of h)) /\
    forall q, snd (ask (run_history h) q) = snd (ask (run_history (edits_of h)) q).
Proof. exact (queries_leave_no_trace (all_invalidate_from_pin C03_facts_pinned)). Qed.
Print Assumptions C03_queries_leave_no_trace.

(** in particular a query does not change what a later query answers *)
Theorem C03_query_keeps_later_answers :
  forall (h : list op) (q q' : query),
    snd (ask (fst (ask (run_history h) q)) q') = snd (ask (run_history h) q').
Proof. exact (query_keeps_later_answers (all_invalidate_from_pin C03_facts_pinned)). Qed.
Print Assumptions C03_query_keeps_later_answers.

(** FULL STATEMENT (containers cross the API as copies, [Copied] -- the tree after
    fixes/C03-containers-are-values.diff): in histories extended by the caller's own writes to objects it
    exchanged with the model (Alias.v: the dict get_initial_conditions / get_parameter_values returned, the
    list passed as args=), those writes are unobservable: the state is exactly that of the method calls the
    history contains, and every query answers as a freshly built model with the same content.
    C03_alias_facts_pinned says which form the current tree has. *)
Theorem C03_exchanged_containers_are_values :
  forall (xh : list xop),
    xrun Copied Copied xh = run_history (ops_of xh) /\
    forall q, snd (ask (xrun Copied Copied xh) q) = snd (ask (fresh (xrun Copied Copied xh)) q).
Proof. exact (exchanged_values (all_invalidate_from_pin C03_facts_pinned)). Qed.
Print Assumptions C03_exchanged_containers_are_values.

(** PARTIAL, for the tree as it is ([Aliased], recorded findings C03-query-results-alias-cache and
    C03-mutators-keep-caller-lists): whatever the modes, as long as the caller never writes to an exchanged
    object the extended history IS the plain one, so C03_history_equals_fresh etc. apply.  Missing w.r.t. the
    full statement: histories with such writes -- see the two [_refuted] witnesses. *)
Theorem C03_exchanged_containers_are_values_partial :
  forall (gm im : alias_mode) (h : list op) (q : query),
    xrun gm im (map Op h) = run_history h /\
    snd (ask (xrun gm im (map Op h)) q) = snd (ask (fresh (xrun gm im (map Op h))) q).
Proof. exact (exchanged_values_partial (all_invalidate_from_pin C03_facts_pinned)). Qed.
Print Assumptions C03_exchanged_containers_are_values_partial.

(** REFUTED for getters that return the cache's own dict: add_variable(12, 1); d = get_initial_conditions();
    d[12] = 99 -- the content is untouched, yet get_initial_conditions answers 99, a fresh model 1 *)
Theorem C03_getters_alias_cache_refuted :
  exists (xh : list xop) (q : query),
    snd (ask (xrun Aliased Copied xh) q) <> snd (ask (fresh (xrun Aliased Copied xh)) q) /\
    s_m (xrun Aliased Copied xh) = s_m (run_history (ops_of xh)) /\
    snd (ask (xrun Aliased Copied xh) q) = Answer (APairs [(12%N, 99%Z)]) /\
    snd (ask (fresh (xrun Aliased Copied xh)) q) = Answer (APairs [(12%N, 1%Z)]).
Proof. exact getters_alias_refuted. Qed.
Print Assumptions C03_getters_alias_cache_refuted.

(** REFUTED for mutators that keep the caller's list: add_derived(13, id, args=L) with L = [11]; get_args();
    L[0] = 12 -- the content changed without any edit and the memoised answer (13 = 2) is stale (fresh: 13 = 5) *)
Theorem C03_mutators_keep_lists_refuted :
  exists (xh : list xop) (q : query),
    snd (ask (xrun Copied Aliased xh) q) <> snd (ask (fresh (xrun Copied Aliased xh)) q) /\
    s_m (xrun Copied Aliased xh) <> s_m (run_history (ops_of xh)) /\
    snd (ask (xrun Copied Aliased xh) q) = Answer (APairs [(0%N, 0%Z); (11%N, 2%Z); (12%N, 5%Z); (13%N, 2%Z)]) /\
    snd (ask (fresh (xrun Copied Aliased xh)) q) = Answer (APairs [(0%N, 0%Z); (11%N, 2%Z); (12%N, 5%Z); (13%N, 5%Z)]).
Proof. exact inputs_alias_refuted. Qed.
Print Assumptions C03_mutators_keep_lists_refuted.

(** non-vacuity: (1) k11 = 2, k17 = initial assignment k11 * k11, a query, scale_parameters({11: 2, 17: 3}): k17
    becomes 3 * (4 * 4) = 48 -- scaled from the value the EARLIER entry of the same batch left behind -- with and
    without the query (seeded/C03-4 gave 12 after a query); (2) a computed coefficient over a variable:
    get_stoichiometries for another state, then the right hand side is that of the fresh model (seeded/C03-6);
    (3) the two refutation histories run with copies: the caller's writes change nothing *)
Example C03_nonvacuous_round2 :
  let pre := [Mut (AddPar 11%N (Plain 2%Z)); Mut (AddPar 17%N (IA 4%N [11%N; 11%N]))] in
  let sc := Bat (ScalePars [(11%N, 2%Z); (17%N, 3%Z)]) in
  m_par (s_m (run_history (pre ++ [Ask QParVals; sc]))) = [(11%N, Plain 4%Z); (17%N, Plain 48%Z)]
  /\ m_par (s_m (run_history (pre ++ [sc]))) = [(11%N, Plain 4%Z); (17%N, Plain 48%Z)]
  /\ (let h := [Mut (AddVar 12%N (Plain 2%Z)); Mut (AddVar 16%N (Plain 1%Z)); Mut (AddPar 11%N (Plain 2%Z));
                Mut (AddRxn 14%N 4%N [12%N; 11%N] [(12%N, CStat (-1)%Z); (16%N, CDyn 6%N [12%N])])] in
      snd (ask (run_history h) (QStoich (Some [(12%N, (-2)%Z); (16%N, 1%Z)]) 1%Z))
      = Answer (ATable [(12%N, [(14%N, (-1)%Z)]); (16%N, [(14%N, 4%Z)])])
      /\ snd (ask (run_history (h ++ [Ask (QStoich (Some [(12%N, (-2)%Z); (16%N, 1%Z)]) 1%Z)])) (QRhs None 0%Z))
         = Answer (APairs [(12%N, (-4)%Z); (16%N, 16%Z)])
      /\ snd (ask (run_history h) (QRhs None 0%Z)) = Answer (APairs [(12%N, (-4)%Z); (16%N, 16%Z)]))
  /\ snd (ask (xrun Copied Copied [Op (Mut (AddVar 12%N (Plain 1%Z))); Poke (PokeIc 12%N 99%Z)]) QIc)
     = Answer (APairs [(12%N, 1%Z)])
  /\ snd (ask (xrun Copied Copied [Op (Mut (AddPar 11%N (Plain 2%Z))); Op (Mut (AddPar 12%N (Plain 5%Z)));
                                    Op (Mut (AddDer 13%N 0%N [11%N])); Op (Ask (QArgs None 0%Z));
                                    Poke (PokeDerArgs 13%N [12%N])]) (QArgs None 0%Z))
     = Answer (APairs [(0%N, 0%Z); (11%N, 2%Z); (12%N, 5%Z); (13%N, 2%Z)]).
Proof. cbv zeta. repeat split; vm_compute; reflexivity. Qed.
Print Assumptions C03_nonvacuous_round2.

(** ---- third deepening round (seeded/C03-8): what a mutator does with the memoised cache ----------------------- *)

(** regenerated from the source: among the 23 single-item and 7 batch mutators only scale_parameter reads self._cache
    or mentions a method of Model that can (transitively) store a cache; nested calls of modelled mutators are steps
    of their own.  The decorator clears BEFORE the body runs, so a body that asks a cache-building getter (to validate
    its arguments, say) and then writes would leave the memo of the OLD content behind. *)
Theorem C03_cache_uses_pinned :
  (forall m : method,
      mutator_cache_uses m = match m with
                             | M_scale_parameter => ["_cache"%string; "_create_cache"%string]
                             | _ => []
                             end)
  /\ (forall b : batch, batch_cache_uses b = []).
Proof. split; intros []; vm_compute; reflexivity. Qed.
Print Assumptions C03_cache_uses_pinned.

(** the state machine has the same shape: after ANY history, an edit (single-item or batch, accepted or rejected)
    other than scale_parameter / scale_parameters never BUILDS a memo -- the one it leaves is absent or the very
    one it found *)
Theorem C03_edits_build_no_cache :
  forall (h : list op) (o : op),
    is_edit o = true -> is_scale_op o = false ->
    s_cache (fst (step (run_history h) o)) = None \/
    s_cache (fst (step (run_history h) o)) = s_cache (run_history h).
Proof. exact (fun h o => edit_builds_nothing (run_history h) o). Qed.
Print Assumptions C03_edits_build_no_cache.

(** ... and a single-item edit through a method that writes containers itself (every mutator but the wrappers
    scale_parameter / make_variable_static) leaves NO memo behind, whether accepted or rejected *)
Theorem C03_primitive_edit_leaves_no_cache :
  forall (h : list op) (mu : mutator),
    primitive mu = true -> s_cache (fst (step (run_history h) (Mut mu))) = None.
Proof. exact (fun h mu => primitive_edit_leaves_no_cache (all_invalidate_from_pin C03_facts_pinned) (run_history h) mu). Qed.
Print Assumptions C03_primitive_edit_leaves_no_cache.

(** the regression model of Prequery.v ([mutate_pq pq]: the calls marked by [pq] ask a cache-building getter between
    the decorator and their writes) is the state machine when no call is marked *)
Theorem C03_prequery_model_unmarked_is_history :
  forall h : list op, run_history_pq (fun _ => false) h = run_history h.
Proof. exact run_history_pq_none. Qed.
Print Assumptions C03_prequery_model_unmarked_is_history.

(** REGRESSION (seeded/C03-8): with update_reaction(stoichiometry={.. "name" ..}) marked, C03_history_equals_fresh
    fails.  k11 = 2, k36 = 3, x12 = 4, y16 = 1, v14 = x12 * k11 with {x12: -1, y16: 1};
    update_reaction(v14, stoichiometry={x12: -1, y16: "k36"}); get_right_hand_side: registry and content are exactly
    those of the real history, a memo exists where the real machine has none, and dy16/dt is answered 8 (old
    coefficient 1) where a freshly built model -- and the real machine -- answer 24 (coefficient k36 = 3) *)
Theorem C03_mutator_building_cache_refuted :
  exists (h : list op) (q : query),
    snd (ask (run_history_pq update_with_named h) q) <> snd (ask (fresh (run_history_pq update_with_named h)) q) /\
    s_m (run_history_pq update_with_named h) = s_m (run_history h) /\
    s_ids (run_history_pq update_with_named h) = s_ids (run_history h) /\
    s_cache (run_history_pq update_with_named h) <> None /\
    s_cache (run_history h) = None /\
    snd (ask (run_history_pq update_with_named h) q) = Answer (APairs [(12%N, (-8)%Z); (16%N, 8%Z)]) /\
    snd (ask (fresh (run_history_pq update_with_named h)) q) = Answer (APairs [(12%N, (-8)%Z); (16%N, 24%Z)]) /\
    snd (ask (run_history h) q) = Answer (APairs [(12%N, (-8)%Z); (16%N, 24%Z)]).
Proof. exact prequery_refuted. Qed.
Print Assumptions C03_mutator_building_cache_refuted.

(** ... and the next decorated edit (update_parameter(k36, 5)) heals the regression model: every query answers as
    the real machine again -- the wrong answers live between the update and the next edit only, which is why the
    harness probes a copy of the model right after EVERY edit *)
Theorem C03_stale_memo_healed_by_next_edit :
  forall q : query,
    snd (ask (run_history_pq update_with_named (c038_history ++ [Mut (UpdatePar 36%N (Some (Plain 5%Z)))])) q)
    = snd (ask (run_history (c038_history ++ [Mut (UpdatePar 36%N (Some (Plain 5%Z)))])) q).
Proof. exact prequery_healed_by_next_edit. Qed.
Print Assumptions C03_stale_memo_healed_by_next_edit.

(** non-vacuity: the real machine on the demo -- no memo after the update, the new coefficient in the table, the
    same with a query before the update; a coefficient name the model does not know (41) is ACCEPTED by
    update_reaction, get_args still answers, get_right_hand_side reports the missing name (KeyError class);
    make_variable_static of an unknown name is the edit that keeps the memo it found (rejected before any call) *)
Example C03_nonvacuous_round3 :
  let pre := firstn 5 c038_history in
  let upd := Mut (UpdateRxn 14%N None None (Some [(12%N, CStat (-1)%Z); (16%N, CDyn 0%N [36%N])])) in
  let unk := Mut (UpdateRxn 14%N None None (Some [(12%N, CStat (-1)%Z); (16%N, CDyn 0%N [41%N])])) in
  c038_history = pre ++ [upd]
  /\ update_with_named (UpdateRxn 14%N None None (Some [(12%N, CStat (-1)%Z); (16%N, CDyn 0%N [36%N])])) = true
  /\ s_cache (run_history (pre ++ [Ask (QRhs None 0%Z)])) <> None
  /\ s_cache (run_history (pre ++ [Ask (QRhs None 0%Z); upd])) = None
  /\ snd (ask (run_history (pre ++ [Ask (QRhs None 0%Z)])) (QRhs None 0%Z)) = Answer (APairs [(12%N, (-8)%Z); (16%N, 8%Z)])
  /\ snd (ask (run_history (pre ++ [Ask (QRhs None 0%Z); upd])) (QRhs None 0%Z)) = Answer (APairs [(12%N, (-8)%Z); (16%N, 24%Z)])
  /\ snd (ask (run_history c038_history) (QStoich None 0%Z)) = Answer (ATable [(12%N, [(14%N, (-1)%Z)]); (16%N, [(14%N, 3%Z)])])
  /\ snd (step (run_history pre) unk) = Accepted
  /\ snd (ask (run_history (pre ++ [unk])) (QRhs None 0%Z)) = Answer (AErr EKey)
  /\ snd (ask (run_history (pre ++ [unk])) (QArgs None 0%Z))
     = Answer (APairs [(0%N, 0%Z); (12%N, 4%Z); (16%N, 1%Z); (11%N, 2%Z); (36%N, 3%Z); (14%N, 8%Z)])
  /\ snd (step (run_history (pre ++ [Ask QIc])) (Mut (MakeVarStatic 41%N None))) = Rejected EKey
  /\ s_cache (fst (step (run_history (pre ++ [Ask QIc])) (Mut (MakeVarStatic 41%N None)))) = s_cache (run_history (pre ++ [Ask QIc]))
  /\ s_cache (run_history (pre ++ [Ask QIc])) <> None.
Proof.
  cbv zeta. repeat split; try (vm_compute; reflexivity); vm_compute; discriminate.
Qed.
Print Assumptions C03_nonvacuous_round3.
