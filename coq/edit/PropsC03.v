(** C03 -- Edit histories: answers depend only on the model's current content.
    ONLY statements.  [invalidates] / [unknown_mutators] are REGENERATED from src/mxlpy/model.py on
    every run; C03_facts_pinned is the obligation that breaks when a mutator loses its
    @_invalidate_cache decorator, the decorator stops clearing first, or a new container-writing
    public method appears that the state machine does not know. *)
From Coq Require Import ZArith List Bool String.
From MxlBase Require Import ListX.
From Core Require Import Sort GenSortFacts FnLib Model Cache Query.
From Edit Require Import GenEditFacts ExpectedFacts ModelSM SMProofs SMPin.
Import ListNotations.

Theorem C03_facts_pinned :
  forallb invalidates
          [M_add_parameter; M_remove_parameter; M_update_parameter; M_make_parameter_dynamic;
           M_add_variable; M_remove_variable; M_update_variable;
           M_add_derived; M_update_derived; M_remove_derived;
           M_add_reaction; M_update_reaction; M_remove_reaction;
           M_add_readout; M_remove_readout;
           M_add_surrogate; M_update_surrogate; M_remove_surrogate;
           M_add_data; M_update_data; M_remove_data] = true
  /\ unknown_mutators = [].
Proof. split; vm_compute; reflexivity. Qed.
Print Assumptions C03_facts_pinned.

(** the batch mutators have the expected form (ExpectedFacts.v: plain folds in the snapshot,
    validate-first after fixes/C03-batch-edits-atomic.diff), ArityMismatchError is raised by
    _create_cache only -- no mutator checks the arity of the function it is given -- and there
    before the dependency sort *)
Theorem C03_batch_facts_pinned :
  (forall b : batch, batch_form b = C03_expected_batch)
  /\ arity_raisers = ["_create_cache"%string]
  /\ arity_checked_before_sort = true.
Proof. split; [intros []; vm_compute; reflexivity|split; vm_compute; reflexivity]. Qed.
Print Assumptions C03_batch_facts_pinned.

(** after ANY finite sequence of public single-item mutators, batch mutators and queries the
    memoised cache is either absent or exactly what _create_cache computes from the current content *)
Theorem C03_cache_always_coherent :
  forall (h : list op) (c : cache),
    s_cache (run_history h) = Some c ->
    create_cache FnLib.fsem FnLib.fsemN gen_sort_facts (s_m (run_history h)) = Val c.
Proof. exact (history_coherent_create (all_invalidate_from_pin C03_facts_pinned)). Qed.
Print Assumptions C03_cache_always_coherent.

(** ... including the arity sanity check that precedes it: a memoised cache exists only for a
    content in which every function has the arity of its argument list *)
Theorem C03_cache_always_coherent_arity :
  forall (h : list op) (c : cache),
    s_cache (run_history h) = Some c ->
    build_cache (s_m (run_history h)) = Val c /\ arity_all_ok (s_m (run_history h)) = true.
Proof. exact (history_coherent_arity (all_invalidate_from_pin C03_facts_pinned)). Qed.
Print Assumptions C03_cache_always_coherent_arity.

(** ... hence every query (get_fluxes and get_stoichiometries included: the memoised coefficient
    tables are never stale) answers exactly as a freshly built model with the same content *)
Theorem C03_history_equals_fresh :
  forall (h : list op) (q : query),
    snd (ask (run_history h) q) = snd (ask (fresh (run_history h)) q).
Proof. exact (history_equals_fresh (all_invalidate_from_pin C03_facts_pinned)). Qed.
Print Assumptions C03_history_equals_fresh.

(** non-vacuity: query, remove the surrogate, query again -- the second answer is the fresh one *)
Example C03_nonvacuous :
  let h := [Mut (AddVar 12%N (Plain 1%Z)); Mut (AddPar 11%N (Plain 2%Z));
            Mut (AddSur 15%N (mkSur 1%N [12%N; 11%N] [21%N; 22%N] [(21%N, [(12%N, CStat 1%Z)])]) None None None);
            Ask (QArgs None 0%Z); Mut (RemoveSur 15%N)] in
  s_cache (run_history h) = None /\
  snd (ask (run_history h) (QArgs None 0%Z)) = Answer (APairs [(0%N, 0%Z); (12%N, 1%Z); (11%N, 2%Z)]).
Proof. cbv zeta. split; vm_compute; reflexivity. Qed.
Print Assumptions C03_nonvacuous.

(** non-vacuity for the enlarged alphabet: a named coefficient (parameter 11 on variable 16) is read
    by get_stoichiometries, the cache is filled, update_parameters changes 11, and the table shows
    the new coefficient (cf. seeded/C03-1); a derived quantity of wrong arity is ACCEPTED by
    add_derived (no mutator checks arities), every later query reports the arity error, scaling an
    assigned parameter is rejected, and removing the derived quantity heals the model *)
Example C03_nonvacuous_batch_stoich_arity :
  let h := [Bat (AddPars [(11%N, Plain 2%Z); (17%N, IA 0%N [11%N])]); Bat (AddVars [(12%N, Plain 1%Z); (16%N, Plain 3%Z)]);
            Mut (AddRxn 14%N 4%N [11%N; 12%N] [(12%N, CStat (-1)%Z); (16%N, CDyn 0%N [11%N])]);
            Ask (QStoich None 0%Z); Bat (UpdatePars [(11%N, Plain 5%Z)])] in
  snd (ask (run_history [Bat (AddPars [(11%N, Plain 2%Z)]); Bat (AddVars [(12%N, Plain 1%Z); (16%N, Plain 3%Z)]);
                         Mut (AddRxn 14%N 4%N [11%N; 12%N] [(12%N, CStat (-1)%Z); (16%N, CDyn 0%N [11%N])])])
           (QStoich None 0%Z))
  = Answer (ATable [(12%N, [(14%N, (-1)%Z)]); (16%N, [(14%N, 2%Z)])])
  /\ s_cache (run_history h) = None
  /\ snd (ask (run_history h) (QStoich None 0%Z)) = Answer (ATable [(12%N, [(14%N, (-1)%Z)]); (16%N, [(14%N, 5%Z)])])
  /\ snd (ask (run_history h) (QFluxes None 0%Z)) = Answer (APairs [(14%N, 5%Z)])
  /\ snd (step (run_history h) (Mut (AddDer 13%N 2%N [11%N]))) = Accepted
  /\ snd (ask (run_history (h ++ [Mut (AddDer 13%N 2%N [11%N])])) QIc) = Answer (AErr EType)
  /\ snd (step (run_history (h ++ [Mut (AddDer 13%N 2%N [11%N])])) (Mut (ScalePar 17%N 2%Z))) = Rejected EType
  /\ snd (ask (run_history (h ++ [Mut (AddDer 13%N 2%N [11%N]); Mut (RemoveDer 13%N)])) QIc)
     = Answer (APairs [(12%N, 1%Z); (16%N, 3%Z)]).
Proof. cbv zeta. repeat split; vm_compute; reflexivity. Qed.
Print Assumptions C03_nonvacuous_batch_stoich_arity.
