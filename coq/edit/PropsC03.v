(** C03 -- Edit histories: answers depend only on the model's current content.
    ONLY statements.  [invalidates] / [unknown_mutators] are REGENERATED from src/mxlpy/model.py on
    every run; C03_facts_pinned is the obligation that breaks when a mutator loses its
    @_invalidate_cache decorator, the decorator stops clearing first, or a new container-writing
    public method appears that the state machine does not know. *)
From Coq Require Import ZArith List Bool String.
From MxlBase Require Import ListX.
From Core Require Import Sort GenSortFacts FnLib Model Cache Query.
From Edit Require Import GenEditFacts ModelSM SMProofs SMPin.
Import ListNotations.

Theorem C03_facts_pinned :
  forallb invalidates
          [M_add_parameter; M_remove_parameter; M_update_parameter; M_make_parameter_dynamic;
           M_add_variable; M_remove_variable; M_update_variable;
           M_add_derived; M_update_derived; M_remove_derived;
           M_add_reaction; M_update_reaction; M_remove_reaction;
           M_add_readout; M_remove_readout;
           M_add_surrogate; M_update_surrogate; M_remove_surrogate;
           M_add_data; M_update_data; M_remove_data] = true
  /\ unknown_mutators = [].
Proof. split; vm_compute; reflexivity. Qed.
Print Assumptions C03_facts_pinned.

(** after ANY finite sequence of public mutators and queries the memoised cache is either absent
    or exactly what _create_cache computes from the current content *)
Theorem C03_cache_always_coherent :
  forall (h : list op) (c : cache),
    s_cache (run_history h) = Some c ->
    create_cache FnLib.fsem FnLib.fsemN gen_sort_facts (s_m (run_history h)) = Val c.
Proof. exact (history_coherent (all_invalidate_from_pin C03_facts_pinned)). Qed.
Print Assumptions C03_cache_always_coherent.

(** ... hence every query answers exactly as a freshly built model with the same content *)
Theorem C03_history_equals_fresh :
  forall (h : list op) (q : query),
    snd (ask (run_history h) q) = snd (ask (fresh (run_history h)) q).
Proof. exact (history_equals_fresh (all_invalidate_from_pin C03_facts_pinned)). Qed.
Print Assumptions C03_history_equals_fresh.

(** non-vacuity: query, remove the surrogate, query again -- the second answer is the fresh one *)
Example C03_nonvacuous :
  let h := [Mut (AddVar 12%N (Plain 1%Z)); Mut (AddPar 11%N (Plain 2%Z));
            Mut (AddSur 15%N (mkSur 1%N [12%N; 11%N] [21%N; 22%N] [(21%N, [(12%N, CStat 1%Z)])]) None None None);
            Ask (QArgs None 0%Z); Mut (RemoveSur 15%N)] in
  s_cache (run_history h) = None /\
  snd (ask (run_history h) (QArgs None 0%Z)) = Answer (APairs [(0%N, 0%Z); (12%N, 1%Z); (11%N, 2%Z)]).
Proof. cbv zeta. split; vm_compute; reflexivity. Qed.
Print Assumptions C03_nonvacuous.
