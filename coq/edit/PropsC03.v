From Coq Require Import List String.
Import ListNotations.
From Edit Require Import GenEditFacts.
Definition primitive_mutators : list method :=
  [M_add_parameter; M_remove_parameter; M_update_parameter; M_make_parameter_dynamic;
   M_add_variable; M_remove_variable; M_update_variable;
   M_add_derived; M_update_derived; M_remove_derived;
   M_add_reaction; M_update_reaction; M_remove_reaction;
   M_add_readout; M_remove_readout;
   M_add_surrogate; M_update_surrogate; M_remove_surrogate;
   M_add_data; M_update_data; M_remove_data].
Theorem C03_facts_pinned :
  forallb invalidates primitive_mutators = true /\ unknown_mutators = [].
Proof. split; vm_compute; reflexivity. Qed.
Print Assumptions C03_facts_pinned.
