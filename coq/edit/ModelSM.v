(** Executable state machine of the public [Model] mutators and queries
    (src/mxlpy/model.py:600-631, 760-1945).  Each mutator is the sequence of primitive effects
    the Python method performs, in its order, with early exit on the first raising primitive.
    Whether a method starts with [self._cache = None] (the [@_invalidate_cache] decorator) is NOT
    hard-wired: it is read from [GenEditFacts.invalidates], regenerated from the source on every
    run.  Queries answer from the memoised cache when present, else build it.
    The seven batch mutators ([bmut], [batch_with]) have the semantics of the form the extractor
    found in the source ([GenEditFacts.batch_form]: plain fold of public single-item calls, or names
    validated first); the cache is built by [build_cache] = arity sanity check + Core's
    [create_cache]; get_fluxes / get_stoichiometries are queries like the others. *)
From Coq Require Import ZArith List Bool.
From MxlBase Require Import ListX.
From Core Require Import Sort GenSortFacts FnLib Model Cache Query.
From Edit Require Import GenEditFacts.
Import ListNotations.

Inductive kind := KPar | KVar | KDer | KRxn | KRo | KSur | KDat.

Record st := mkSt { s_ids : list (name * kind); s_m : model; s_cache : option cache }.

Definition init : st := mkSt [] (mkModel [] [] [] [] [] [] []) None.

(** ---- primitives ------------------------------------------------------------------- *)

Fixpoint del {A} (k : name) (d : list (name * A)) : list (name * A) :=
  match d with
  | [] => []
  | (k', v) :: r => if N.eqb k k' then r else (k', v) :: del k r
  end.

(* _insert_id *)
Definition ins_id (n : name) (k : kind) (ids : list (name * kind)) : res (list (name * kind)) :=
  if N.eqb n time_name then Err EKey
  else if has n ids then Err EName
  else Val (ids ++ [(n, k)]).

(* _remove_id : del self._ids[name] *)
Definition rem_id (n : name) (ids : list (name * kind)) : res (list (name * kind)) :=
  if has n ids then Val (del n ids) else Err EKey.

Fixpoint ins_ids (ns : list name) (k : kind) (ids : list (name * kind)) : res (list (name * kind)) :=
  match ns with
  | [] => Val ids
  | n :: r => do ids' <- ins_id n k ids; ins_ids r k ids'
  end.
Fixpoint rem_ids (ns : list name) (ids : list (name * kind)) : res (list (name * kind)) :=
  match ns with
  | [] => Val ids
  | n :: r => do ids' <- rem_id n ids; rem_ids r ids'
  end.

Definition set_par m v := mkModel v (m_var m) (m_der m) (m_rxn m) (m_sur m) (m_ro m) (m_dat m).
Definition set_var m v := mkModel (m_par m) v (m_der m) (m_rxn m) (m_sur m) (m_ro m) (m_dat m).
Definition set_der m v := mkModel (m_par m) (m_var m) v (m_rxn m) (m_sur m) (m_ro m) (m_dat m).
Definition set_rxn m v := mkModel (m_par m) (m_var m) (m_der m) v (m_sur m) (m_ro m) (m_dat m).
Definition set_sur m v := mkModel (m_par m) (m_var m) (m_der m) (m_rxn m) v (m_ro m) (m_dat m).
Definition set_ro m v := mkModel (m_par m) (m_var m) (m_der m) (m_rxn m) (m_sur m) v (m_dat m).
Definition set_dat m v := mkModel (m_par m) (m_var m) (m_der m) (m_rxn m) (m_sur m) (m_ro m) v.

(** ---- operations ------------------------------------------------------------------- *)

Inductive mutator :=
| AddPar (n : name) (v : valia)
| RemovePar (n : name)
| UpdatePar (n : name) (v : option valia)
| ScalePar (n : name) (q : Z)
| MakeParDynamic (n : name) (v : option valia) (sto : option (list (name * Z)))
| AddVar (n : name) (v : valia)
| RemoveVar (n : name) (remove_stoich : bool)
| UpdateVar (n : name) (v : valia)
| MakeVarStatic (n : name) (v : option valia)
| AddDer (n : name) (f : fnid) (args : list name)
| UpdateDer (n : name) (f : option fnid) (args : option (list name))
| RemoveDer (n : name)
| AddRxn (n : name) (f : fnid) (args : list name) (sto : list (name * coef))
| UpdateRxn (n : name) (f : option fnid) (args : option (list name)) (sto : option (list (name * coef)))
| RemoveRxn (n : name)
| AddRo (n : name) (f : fnid) (args : list name)
| RemoveRo (n : name)
| AddSur (n : name) (s : surrogate) (args : option (list name)) (outs : option (list name))
         (sto : option (list (name * list (name * coef))))
| UpdateSur (n : name) (s : option surrogate) (args : option (list name)) (outs : option (list name))
            (sto : option (list (name * list (name * coef))))
| RemoveSur (n : name)
| AddDat (n : name) (v : Z)
| UpdateDat (n : name) (v : Z)
| RemoveDat (n : name).

Inductive query :=
| QIds
| QArgs (vars : option (list (name * Z))) (t : Z)
| QRhs (vars : option (list (name * Z))) (t : Z)
| QIc
| QParVals
| QDerParNames
| QFluxes (vars : option (list (name * Z))) (t : Z)
| QStoich (vars : option (list (name * Z))) (t : Z).

(** the batch forms: add_parameters(dict), remove_parameters(list), update_parameters(dict),
    scale_parameters(dict), add_variables(dict), remove_variables(iterable, remove_stoichiometries),
    update_variables(dict).  A dict argument is given as the list of pairs it is built from. *)
Inductive bmut :=
| AddPars (l : list (name * valia))
| RemovePars (l : list name)
| UpdatePars (l : list (name * valia))
| ScalePars (l : list (name * Z))
| AddVars (l : list (name * valia))
| RemoveVars (l : list name) (remove_stoich : bool)
| UpdateVars (l : list (name * valia)).

Inductive op := Mut (m : mutator) | Bat (b : bmut) | Ask (q : query).

Inductive answer :=
| AIds (ids : list (name * kind))
| APairs (l : list (name * Z))
| ANames (l : list name)
| ATable (tab : list (name * list (name * Z)))
| AErr (e : err).

Inductive outcome := Accepted | Rejected (e : err) | Answer (a : answer).

(** which Python method a mutator constructor stands for (index into GenEditFacts) *)
Definition method_of (mu : mutator) : method :=
  match mu with
  | AddPar _ _ => M_add_parameter | RemovePar _ => M_remove_parameter
  | UpdatePar _ _ => M_update_parameter | ScalePar _ _ => M_scale_parameter
  | MakeParDynamic _ _ _ => M_make_parameter_dynamic
  | AddVar _ _ => M_add_variable | RemoveVar _ _ => M_remove_variable
  | UpdateVar _ _ => M_update_variable | MakeVarStatic _ _ => M_make_variable_static
  | AddDer _ _ _ => M_add_derived | UpdateDer _ _ _ => M_update_derived | RemoveDer _ => M_remove_derived
  | AddRxn _ _ _ _ => M_add_reaction | UpdateRxn _ _ _ _ => M_update_reaction | RemoveRxn _ => M_remove_reaction
  | AddRo _ _ _ => M_add_readout | RemoveRo _ => M_remove_readout
  | AddSur _ _ _ _ _ => M_add_surrogate | UpdateSur _ _ _ _ _ => M_update_surrogate
  | RemoveSur _ => M_remove_surrogate
  | AddDat _ _ => M_add_data | UpdateDat _ _ => M_update_data | RemoveDat _ => M_remove_data
  end.

Definition opt_or {A} (o : option A) (d : A) : A := match o with Some x => x | None => d end.

Definition strip_var_rxn (n : name) (r : reaction) : reaction :=
  mkRxn (r_fn r) (r_args r) (del n (r_st r)).
Definition strip_var_sur (n : name) (s : surrogate) : surrogate :=
  mkSur (s_fn s) (s_args s) (s_out s) (map (fun kv => (fst kv, del n (snd kv))) (s_st s)).

(** ---- _create_cache with its arity sanity check ---------------------------------------
    [_check_function_arity(el.fn, len(el.args))] for the initial assignments, derived, reactions and
    readouts, BEFORE the dependency sort (model.py:479-487; position pinned by
    [arity_checked_before_sort]).  The library functions are plain positional functions: the number
    of arguments fits exactly when [fsem] is defined on an argument list of that length.
    ArityMismatchError is recorded as [EType] ("called with the wrong number of arguments", the
    class Core.Model uses for that); what the pre-check adds is its POSITION: it fires before
    MissingDependenciesError / CircularDependencyError and also for a readout that is never called. *)
Definition fn_arity_ok (f : fnid) (args : list name) : bool :=
  match FnLib.fsem f (map (fun _ => 0%Z) args) with Some _ => true | None => false end.
Definition valia_arity_ok (v : valia) : bool :=
  match v with Plain _ => true | IA f a => fn_arity_ok f a end.
Definition arity_all_ok (m : model) : bool :=
  forallb (fun kv => valia_arity_ok (snd kv)) (m_var m)
  && forallb (fun kv => valia_arity_ok (snd kv)) (m_par m)
  && forallb (fun kv => fn_arity_ok (d_fn (snd kv)) (d_args (snd kv))) (m_der m)
  && forallb (fun kv => fn_arity_ok (r_fn (snd kv)) (r_args (snd kv))) (m_rxn m)
  && forallb (fun kv => fn_arity_ok (d_fn (snd kv)) (d_args (snd kv))) (m_ro m).

Definition build_cache (m : model) : res cache :=
  if arity_all_ok m then create_cache FnLib.fsem FnLib.fsemN gen_sort_facts m else Err EType.

(** get-or-create the cache (queries, scale_parameter on an assigned parameter) *)
Definition ensure_cache (s : st) : res cache * st :=
  match s_cache s with
  | Some c => (Val c, s)
  | None =>
    match build_cache (s_m s) with
    | Val c => (Val c, mkSt (s_ids s) (s_m s) (Some c))
    | Err e => (Err e, s)
    end
  end.

(** the method bodies, WITHOUT the decorator; [Err] = the exception raised, with the state reached *)
Definition body_add (s : st) (n : name) (k : kind) (store : model -> model) : st * outcome :=
  match ins_id n k (s_ids s) with
  | Err e => (s, Rejected e)
  | Val ids => (mkSt ids (store (s_m s)) (s_cache s), Accepted)
  end.

Definition body_remove (s : st) (n : name) (present : bool) (drop : model -> model) : st * outcome :=
  if negb present then (s, Rejected EKey)
  else match rem_id n (s_ids s) with
       | Err e => (s, Rejected e)
       | Val ids => (mkSt ids (drop (s_m s)) (s_cache s), Accepted)
       end.

Definition with_model (s : st) (m : model) : st := mkSt (s_ids s) m (s_cache s).

Definition rxn_known (m : model) (rn : name) : bool :=
  has rn (m_rxn m) ||
  existsb (fun kv => match lookup rn (s_st (snd kv)) with Some (_ :: _) => true | _ => false end) (m_sur m).

(* make_parameter_dynamic's stoichiometry loop, after the conversion *)
Definition add_stoich_for (n : name) (m : model) (entry : name * Z) : model :=
  let '(rn, q) := entry in
  match lookup rn (m_rxn m) with
  | Some r => set_rxn m (dset rn (mkRxn (r_fn r) (r_args r) (dset n (CStat q) (r_st r))) (m_rxn m))
  | None =>
    set_sur m (map (fun kv =>
                      match lookup rn (s_st (snd kv)) with
                      | Some ((_ :: _) as row) =>
                        (fst kv, mkSur (s_fn (snd kv)) (s_args (snd kv)) (s_out (snd kv))
                                       (dset rn (dset n (CStat q) row) (s_st (snd kv))))
                      | _ => kv
                      end) (m_sur m))
  end.

Fixpoint body (fuel : nat) (s : st) (mu : mutator) {struct fuel} : st * outcome :=
  match fuel with
  | O => (s, Rejected EFuel)
  | S fuel' =>
  (* nested public calls go through [run], i.e. through their own decorator *)
  let run := fun s mu => let s0 := if invalidates (method_of mu) then mkSt (s_ids s) (s_m s) None else s in
                         body fuel' s0 mu in
  let m := s_m s in
  match mu with
  | AddPar n v => body_add s n KPar (fun m => set_par m (dset n v (m_par m)))
  | RemovePar n => body_remove s n (has n (m_par m)) (fun m => set_par m (del n (m_par m)))
  | UpdatePar n v =>
    if negb (has n (m_par m)) then (s, Rejected EKey)
    else match v with
         | None => (s, Accepted)
         | Some v' => (with_model s (set_par m (dset n v' (m_par m))), Accepted)
         end
  | ScalePar n q =>
    match lookup n (m_par m) with
    | None => (s, Rejected EKey)
    | Some (IA _ _) =>
      let '(rc, s1) := ensure_cache s in
      match rc with
      | Err e => (s1, Rejected e)
      | Val c => match lookup n (c_all_par c) with
                 | None => (s1, Rejected EKey)
                 | Some old => run s1 (UpdatePar n (Some (Plain (old * q)%Z)))
                 end
      end
    | Some (Plain old) => run s (UpdatePar n (Some (Plain (old * q)%Z)))
    end
  | MakeParDynamic n v sto =>
    let value := match v with Some x => Some x | None => lookup n (m_par m) end in
    match value with
    | None => (s, Rejected EKey)
    | Some value =>
      if negb (forallb (fun e => rxn_known m (fst e)) (opt_or sto [])) then (s, Rejected EKey)
      else
        let '(s1, o1) := run s (RemovePar n) in
        match o1 with
        | Accepted =>
          let '(s2, o2) := run s1 (AddVar n value) in
          match o2 with
          | Accepted => (with_model s2 (fold_left (add_stoich_for n) (opt_or sto []) (s_m s2)), Accepted)
          | _ => (s2, o2)
          end
        | _ => (s1, o1)
        end
    end
  | AddVar n v => body_add s n KVar (fun m => set_var m (dset n v (m_var m)))
  | RemoveVar n rs =>
    if negb (has n (m_var m)) then (s, Rejected EKey)
    else
      let m1 := if rs then set_sur (set_rxn m (map (fun kv => (fst kv, strip_var_rxn n (snd kv))) (m_rxn m)))
                                   (map (fun kv => (fst kv, strip_var_sur n (snd kv))) (m_sur m))
                else m in
      match rem_id n (s_ids s) with
      | Err e => (with_model s m1, Rejected e)
      | Val ids => (mkSt ids (set_var m1 (del n (m_var m1))) (s_cache s), Accepted)
      end
  | UpdateVar n v =>
    if negb (has n (m_var m)) then (s, Rejected EKey)
    else (with_model s (set_var m (dset n v (m_var m))), Accepted)
  | MakeVarStatic n v =>
    let value := match v with Some x => Some x | None => lookup n (m_var m) end in
    match value with
    | None => (s, Rejected EKey)
    | Some value =>
      let '(s1, o1) := run s (RemoveVar n true) in
      match o1 with
      | Accepted => run s1 (AddPar n value)
      | _ => (s1, o1)
      end
    end
  | AddDer n f a => body_add s n KDer (fun m => set_der m (dset n (mkDer f a) (m_der m)))
  | UpdateDer n f a =>
    match lookup n (m_der m) with
    | None => (s, Rejected EKey)
    | Some d => (with_model s (set_der m (dset n (mkDer (opt_or f (d_fn d)) (opt_or a (d_args d))) (m_der m))), Accepted)
    end
  | RemoveDer n => body_remove s n (has n (m_der m)) (fun m => set_der m (del n (m_der m)))
  | AddRxn n f a sto => body_add s n KRxn (fun m => set_rxn m (dset n (mkRxn f a sto) (m_rxn m)))
  | UpdateRxn n f a sto =>
    match lookup n (m_rxn m) with
    | None => (s, Rejected EKey)
    | Some r => (with_model s (set_rxn m (dset n (mkRxn (opt_or f (r_fn r)) (opt_or a (r_args r)) (opt_or sto (r_st r))) (m_rxn m))),
                 Accepted)
    end
  | RemoveRxn n => body_remove s n (has n (m_rxn m)) (fun m => set_rxn m (del n (m_rxn m)))
  | AddRo n f a => body_add s n KRo (fun m => set_ro m (dset n (mkDer f a) (m_ro m)))
  | RemoveRo n => body_remove s n (has n (m_ro m)) (fun m => set_ro m (del n (m_ro m)))
  | AddSur n sur a o sto =>
    let outs := opt_or o (s_out sur) in
    match (do ids1 <- ins_id n KSur (s_ids s); ins_ids outs KSur ids1) with
    | Err e => (s, Rejected e)                  (* the id registry is rolled back *)
    | Val ids =>
      let sur' := mkSur (s_fn sur) (opt_or a (s_args sur)) outs (opt_or sto (s_st sur)) in
      (mkSt ids (set_sur m (dset n sur' (m_sur m))) (s_cache s), Accepted)
    end
  | UpdateSur n sur a o sto =>
    match lookup n (m_sur m) with
    | None => (s, Rejected EKey)
    | Some old =>
      let base := opt_or sur old in
      let outs := opt_or o (s_out base) in
      match (do ids1 <- rem_ids (s_out old) (s_ids s); ins_ids outs KSur ids1) with
      | Err e => (s, Rejected e)
      | Val ids =>
        let sur' := mkSur (s_fn base) (opt_or a (s_args base)) outs (opt_or sto (s_st base)) in
        (mkSt ids (set_sur m (dset n sur' (m_sur m))) (s_cache s), Accepted)
      end
    end
  | RemoveSur n =>
    match lookup n (m_sur m) with
    | None => (s, Rejected EKey)
    | Some old =>
      match rem_id n (s_ids s) with
      | Err e => (s, Rejected e)
      | Val ids1 =>
        match rem_ids (s_out old) ids1 with
        | Err e => (mkSt ids1 (set_sur m (del n (m_sur m))) (s_cache s), Rejected e)
        | Val ids => (mkSt ids (set_sur m (del n (m_sur m))) (s_cache s), Accepted)
        end
      end
    end
  | AddDat n v => body_add s n KDat (fun m => set_dat m (dset n v (m_dat m)))
  | UpdateDat n v =>
    if negb (has n (m_dat m)) then (s, Rejected EKey)
    else (with_model s (set_dat m (dset n v (m_dat m))), Accepted)
  | RemoveDat n => body_remove s n (has n (m_dat m)) (fun m => set_dat m (del n (m_dat m)))
  end
  end.

(** a public call = decorator (if the method has it) + body *)
Definition mutate (s : st) (mu : mutator) : st * outcome :=
  let s0 := if invalidates (method_of mu) then mkSt (s_ids s) (s_m s) None else s in
  body 4 s0 mu.

(** ---- batch forms --------------------------------------------------------------------- *)

Definition batch_of (b : bmut) : batch :=
  match b with
  | AddPars _ => B_add_parameters | RemovePars _ => B_remove_parameters
  | UpdatePars _ => B_update_parameters | ScalePars _ => B_scale_parameters
  | AddVars _ => B_add_variables | RemoveVars _ _ => B_remove_variables
  | UpdateVars _ => B_update_variables
  end.

(** dict(pairs): a repeated key keeps its first position and takes the last value *)
Definition mkdict {A} (l : list (name * A)) : list (name * A) :=
  fold_left (fun d kv => dset (fst kv) (snd kv) d) l [].

(** the public single-item calls the loop of the batch method makes, in order *)
Definition items (b : bmut) : list mutator :=
  match b with
  | AddPars l => map (fun kv => AddPar (fst kv) (snd kv)) (mkdict l)
  | RemovePars l => map RemovePar l
  | UpdatePars l => map (fun kv => UpdatePar (fst kv) (Some (snd kv))) (mkdict l)
  | ScalePars l => map (fun kv => ScalePar (fst kv) (snd kv)) (mkdict l)
  | AddVars l => map (fun kv => AddVar (fst kv) (snd kv)) (mkdict l)
  | RemoveVars l rs => map (fun n => RemoveVar n rs) l
  | UpdateVars l => map (fun kv => UpdateVar (fst kv) (snd kv)) (mkdict l)
  end.

(** for item in arg: self.<single>(item)  -- the first exception ends the loop *)
Fixpoint run_items (s : st) (l : list mutator) : st * outcome :=
  match l with
  | [] => (s, Accepted)
  | mu :: r => let '(s1, o) := mutate s mu in
               match o with Accepted => run_items s1 r | _ => (s1, o) end
  end.

(** _check_new_ids: what _insert_id would raise for the first unusable name; inserts nothing *)
Fixpoint check_new_ids (ns : list name) (ids : list (name * kind)) : option err :=
  match ns with
  | [] => None
  | n :: r => if N.eqb n time_name then Some EKey
              else if has n ids then Some EName else check_new_ids r ids
  end.

(** _check_known_names(names, container, unique) *)
Fixpoint check_known {A} (ns : list name) (d : list (name * A)) (unique : bool) (seen : list name) : option err :=
  match ns with
  | [] => None
  | n :: r => if negb (has n d) || (unique && memN n seen) then Some EKey
              else check_known r d unique (n :: seen)
  end.

Definition validate (s : st) (b : bmut) : option err :=
  match b with
  | AddPars l => check_new_ids (keys (mkdict l)) (s_ids s)
  | RemovePars l => check_known l (m_par (s_m s)) true []
  | UpdatePars l => check_known (keys (mkdict l)) (m_par (s_m s)) false []
  | ScalePars l => check_known (keys (mkdict l)) (m_par (s_m s)) false []
  | AddVars l => check_new_ids (keys (mkdict l)) (s_ids s)
  | RemoveVars l _ => check_known l (m_var (s_m s)) true []
  | UpdateVars l => check_known (keys (mkdict l)) (m_var (s_m s)) false []
  end.

(** scale_parameters' roll-back: previous = {k: self._parameters[k].value for k in parameters} ...
    for k, value in previous.items(): self._parameters[k].value = value *)
Definition prev_values (ns : list name) (m : model) : list (name * valia) :=
  flat_map (fun n => match lookup n (m_par m) with Some v => [(n, v)] | None => [] end) ns.
Definition restore_pars (prev : list (name * valia)) (m : model) : model :=
  fold_left (fun m kv => set_par m (dset (fst kv) (snd kv) (m_par m))) prev m.

(** a batch method in the form the extractor found ([BatchUnknown] is refused by
    C03_batch_facts_pinned; it is given the fold semantics so that the model stays total) *)
Definition batch_with (mode : batch_mode) (s : st) (b : bmut) : st * outcome :=
  match mode with
  | BatchValidated =>
    match validate s b with
    | Some e => (s, Rejected e)
    | None =>
      match b with
      | ScalePars l =>
        let prev := prev_values (keys (mkdict l)) (s_m s) in
        let '(s1, o) := run_items s (items b) in
        match o with
        | Accepted => (s1, o)
        | _ => (mkSt (s_ids s1) (restore_pars prev (s_m s1)) None, o)
        end
      | _ => run_items s (items b)
      end
    end
  | _ => run_items s (items b)
  end.

Definition run_batch (s : st) (b : bmut) : st * outcome := batch_with (batch_form (batch_of b)) s b.

Definition ask (s : st) (q : query) : st * outcome :=
  match q with
  | QIds => (s, Answer (AIds (s_ids s)))
  | _ =>
    let '(rc, s1) := ensure_cache s in
    match rc with
    | Err e => (s1, Answer (AErr e))
    | Val c =>
      let m := s_m s1 in
      let ans :=
          match q with
          | QIds => AIds (s_ids s1)
          | QArgs vars t =>
            match get_args FnLib.fsem FnLib.fsemN m c (opt_or vars (c_init c)) t with
            | Val l => APairs l | Err e => AErr e end
          | QRhs vars t =>
            match get_rhs FnLib.fsem FnLib.fsemN m c (opt_or vars (c_init c)) t with
            | Val l => APairs l | Err e => AErr e end
          | QIc => APairs (c_init c)
          | QParVals => APairs (c_base_par c)
          | QDerParNames => ANames (derived_parameter_names m c)
          | QFluxes vars t =>
            match get_fluxes FnLib.fsem FnLib.fsemN m c (opt_or vars (c_init c)) t with
            | Val l => APairs l | Err e => AErr e end
          | QStoich vars t =>
            match get_stoichiometries FnLib.fsem FnLib.fsemN m c (opt_or vars (c_init c)) t with
            | Val l => ATable l | Err e => AErr e end
          end in
      (s1, Answer ans)
    end
  end.

Definition step (s : st) (o : op) : st * outcome :=
  match o with Mut mu => mutate s mu | Bat b => run_batch s b | Ask q => ask s q end.

Definition run_history (h : list op) : st := fold_left (fun s o => fst (step s o)) h init.

(** a freshly built model with the same content: same containers, registry rebuilt, no cache *)
Definition fresh (s : st) : st := mkSt (s_ids s) (s_m s) None.
