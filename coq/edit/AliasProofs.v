(** Proofs for Alias.v and for the cache-independence of edits:
    - what an edit does depends on the content only (not on whether a query populated the cache);
    - queries leave no trace: dropping them from a history changes neither the content nor any answer;
    - containers exchanged as copies: the caller's writes are unobservable; as aliases: refuted. *)
From Coq Require Import ZArith List Bool.
From MxlBase Require Import ListX.
From Core Require Import Sort GenSortFacts FnLib Model Cache Query.
From Edit Require Import GenEditFacts ModelSM SMProofs Alias.
Import ListNotations.

Definition cont_eq (s1 s2 : st) : Prop := s_ids s1 = s_ids s2 /\ s_m s1 = s_m s2.

Lemma cont_eq_refl s : cont_eq s s.
Proof. split; reflexivity. Qed.
Lemma cont_eq_sym s1 s2 : cont_eq s1 s2 -> cont_eq s2 s1.
Proof. intros [H1 H2]. split; symmetry; assumption. Qed.
Lemma cont_eq_trans s1 s2 s3 : cont_eq s1 s2 -> cont_eq s2 s3 -> cont_eq s1 s3.
Proof. intros [A B] [C D]. split; congruence. Qed.

Definition is_scale (mu : mutator) : bool := match mu with ScalePar _ _ => true | _ => false end.

Definition dec (mu : mutator) (s : st) : st :=
  if invalidates (method_of mu) then mkSt (s_ids s) (s_m s) None else s.

Lemma dec_cont_eq mu s1 s2 : cont_eq s1 s2 -> cont_eq (dec mu s1) (dec mu s2).
Proof. intros [H1 H2]. unfold dec. destruct (invalidates (method_of mu)); split; cbn; assumption. Qed.

Definition agree (r1 r2 : st * outcome) : Prop := snd r1 = snd r2 /\ cont_eq (fst r1) (fst r2).

Lemma agree_mk ids m c1 c2 o : agree (mkSt ids m c1, o) (mkSt ids m c2, o).
Proof. split; [reflexivity|split; reflexivity]. Qed.

Lemma body_add_agree ids m c1 c2 n k store :
  agree (body_add (mkSt ids m c1) n k store) (body_add (mkSt ids m c2) n k store).
Proof. unfold body_add. cbn. destruct (ins_id n k ids); apply agree_mk. Qed.

Lemma body_remove_agree ids m c1 c2 n p drop :
  agree (body_remove (mkSt ids m c1) n p drop) (body_remove (mkSt ids m c2) n p drop).
Proof. unfold body_remove. cbn. destruct (negb p); [apply agree_mk|]. destruct (rem_id n ids); apply agree_mk. Qed.

Lemma body_mpd fuel s n v sto :
  body (S fuel) s (MakeParDynamic n v sto) =
  match (match v with Some x => Some x | None => lookup n (m_par (s_m s)) end) with
  | None => (s, Rejected EKey)
  | Some value =>
    if negb (forallb (fun e => rxn_known (s_m s) (fst e)) (opt_or sto [])) then (s, Rejected EKey)
    else let '(s1, o1) := body fuel (dec (RemovePar n) s) (RemovePar n) in
         match o1 with
         | Accepted => let '(s2, o2) := body fuel (dec (AddVar n value) s1) (AddVar n value) in
                       match o2 with
                       | Accepted => (with_model s2 (fold_left (add_stoich_for n) (opt_or sto []) (s_m s2)), Accepted)
                       | _ => (s2, o2)
                       end
         | _ => (s1, o1)
         end
  end.
Proof. reflexivity. Qed.

Lemma body_mvs fuel s n v :
  body (S fuel) s (MakeVarStatic n v) =
  match (match v with Some x => Some x | None => lookup n (m_var (s_m s)) end) with
  | None => (s, Rejected EKey)
  | Some value =>
    let '(s1, o1) := body fuel (dec (RemoveVar n true) s) (RemoveVar n true) in
    match o1 with
    | Accepted => body fuel (dec (AddPar n value) s1) (AddPar n value)
    | _ => (s1, o1)
    end
  end.
Proof. reflexivity. Qed.

(** every method body except scale_parameter's never reads the memoised cache *)
Lemma body_blind :
  forall fuel mu s1 s2, is_scale mu = false -> cont_eq s1 s2 -> agree (body fuel s1 mu) (body fuel s2 mu).
Proof.
  induction fuel as [|fuel IH]; intros mu s1 s2 Hns Hce.
  { cbn [body]. split; [reflexivity|exact Hce]. }
  assert (Hrun : forall mu1 t1 t2, is_scale mu1 = false -> cont_eq t1 t2 ->
                                   agree (body fuel (dec mu1 t1) mu1) (body fuel (dec mu1 t2) mu1)).
  { intros mu1 t1 t2 Hn1 Hc1. apply IH; [exact Hn1|apply dec_cont_eq; exact Hc1]. }
  destruct s1 as [ids m c1], s2 as [ids2 m2 c2]. destruct Hce as [Hi Hm]. cbn in Hi, Hm. subst ids2 m2.
  destruct mu; try discriminate Hns;
    try match goal with |- agree (body _ _ (MakeParDynamic _ _ _)) _ => idtac | |- agree (body _ _ (MakeVarStatic _ _)) _ => idtac
                   | _ => cbn [body s_m s_ids s_cache with_model] end.
  - apply body_add_agree.
  - apply body_remove_agree.
  - destruct (negb (has n (m_par m))); [apply agree_mk|]. destruct v; apply agree_mk.
  - (* MakeParDynamic *)
    rewrite !body_mpd. cbn [s_m].
    destruct (match v with Some x => Some x | None => lookup n (m_par m) end); [|apply agree_mk].
    destruct (negb (forallb _ _)); [apply agree_mk|].
    pose proof (Hrun (RemovePar n) (mkSt ids m c1) (mkSt ids m c2) eq_refl (conj eq_refl eq_refl)) as H1.
    destruct (body fuel (dec (RemovePar n) (mkSt ids m c1)) (RemovePar n)) as [t1 o1].
    destruct (body fuel (dec (RemovePar n) (mkSt ids m c2)) (RemovePar n)) as [t2 o2].
    destruct H1 as [Ho Hc]. cbn [fst snd] in Ho, Hc. subst o2.
    destruct o1; try (split; [reflexivity|exact Hc]).
    pose proof (Hrun (AddVar n v0) t1 t2 eq_refl Hc) as H2.
    destruct (body fuel (dec (AddVar n v0) t1) (AddVar n v0)) as [u1 p1].
    destruct (body fuel (dec (AddVar n v0) t2) (AddVar n v0)) as [u2 p2].
    destruct H2 as [Ho2 Hc2]. cbn [fst snd] in Ho2, Hc2. subst p2.
    destruct p1; try (split; [reflexivity|exact Hc2]).
    destruct Hc2 as [Hi2 Hm2]. split; [reflexivity|]. split; cbn; [exact Hi2|rewrite Hm2; reflexivity].
  - apply body_add_agree.
  - (* RemoveVar *)
    destruct (negb (has n (m_var m))); [apply agree_mk|].
    destruct (rem_id n ids); apply agree_mk.
  - destruct (negb (has n (m_var m))); apply agree_mk.
  - (* MakeVarStatic *)
    rewrite !body_mvs. cbn [s_m].
    destruct (match v with Some x => Some x | None => lookup n (m_var m) end); [|apply agree_mk].
    pose proof (Hrun (RemoveVar n true) (mkSt ids m c1) (mkSt ids m c2) eq_refl (conj eq_refl eq_refl)) as H1.
    destruct (body fuel (dec (RemoveVar n true) (mkSt ids m c1)) (RemoveVar n true)) as [t1 o1].
    destruct (body fuel (dec (RemoveVar n true) (mkSt ids m c2)) (RemoveVar n true)) as [t2 o2].
    destruct H1 as [Ho Hc]. cbn [fst snd] in Ho, Hc. subst o2.
    destruct o1; try (split; [reflexivity|exact Hc]).
    apply (Hrun (AddPar n v0) t1 t2 eq_refl Hc).
  - apply body_add_agree.
  - destruct (lookup n (m_der m)); apply agree_mk.
  - apply body_remove_agree.
  - apply body_add_agree.
  - destruct (lookup n (m_rxn m)); apply agree_mk.
  - apply body_remove_agree.
  - apply body_add_agree.
  - apply body_remove_agree.
  - destruct (bind (ins_id n KSur ids) _); apply agree_mk.
  - destruct (lookup n (m_sur m)); [|apply agree_mk]. destruct (bind (rem_ids _ ids) _); apply agree_mk.
  - destruct (lookup n (m_sur m)); [|apply agree_mk]. destruct (rem_id n ids); [|apply agree_mk].
    destruct (rem_ids _ _); apply agree_mk.
  - apply body_add_agree.
  - destruct (negb (has n (m_dat m))); apply agree_mk.
  - apply body_remove_agree.
Qed.

Section WithFacts.
  Hypothesis all_invalidate : forall mu, primitive mu = true -> invalidates (method_of mu) = true.

  (** related states: same registry, same content, both with a coherent (or no) cache *)
  Definition rel (s1 s2 : st) : Prop := cont_eq s1 s2 /\ coherent s1 /\ coherent s2.

  Lemma rel_fresh s : coherent s -> rel s (fresh s).
  Proof. intro Hc. split; [split; reflexivity|]. split; [exact Hc|apply coherent_none]. Qed.

  Lemma ensure_rc s : coherent s -> fst (ensure_cache s) = build_cache (s_m s) /\ cont_eq (snd (ensure_cache s)) s
                                    /\ coherent (snd (ensure_cache s)).
  Proof.
    intro Hc. destruct (ensure_cache s) as [rc s1] eqn:E.
    destruct (ensure_cache_coherent s rc s1 Hc E) as [Hc1 [Hm [Hi [_ Hrc]]]]. cbn [fst snd].
    split; [|split; [split; assumption|exact Hc1]].
    rewrite Hrc. destruct (s_cache s) as [c|] eqn:Ec; [symmetry; apply Hc; exact Ec|reflexivity].
  Qed.

  Lemma dec_coherent mu s : coherent s -> coherent (dec mu s).
  Proof. intro Hc. unfold dec. destruct (invalidates (method_of mu)); [apply coherent_none|exact Hc]. Qed.

  (** a public single-item call: same outcome, same resulting content, whatever the cache held *)
  Lemma mutate_agree s1 s2 mu : rel s1 s2 -> agree (mutate s1 mu) (mutate s2 mu).
  Proof.
    intros [Hce [Hc1 Hc2]]. unfold mutate. fold (dec mu s1). fold (dec mu s2).
    destruct (is_scale mu) eqn:Hs; [|apply body_blind; [exact Hs|apply dec_cont_eq; exact Hce]].
    destruct mu; try discriminate Hs. clear Hs.
    pose proof (dec_cont_eq (ScalePar n q) s1 s2 Hce) as Hd.
    pose proof (dec_coherent (ScalePar n q) s1 Hc1) as Hd1. pose proof (dec_coherent (ScalePar n q) s2 Hc2) as Hd2.
    set (t1 := dec (ScalePar n q) s1) in *. set (t2 := dec (ScalePar n q) s2) in *.
    assert (Hm : s_m t1 = s_m t2) by apply Hd.
    assert (Hl : lookup n (m_par (s_m t2)) = lookup n (m_par (s_m t1))) by (rewrite Hm; reflexivity).
    cbn [body]. rewrite Hl.
    destruct (lookup n (m_par (s_m t1))) as [[old|f a]|].
    - apply (body_blind 3 (UpdatePar n (Some (Plain (old * q)%Z)))); [reflexivity|apply dec_cont_eq; exact Hd].
    - destruct (ensure_rc t1 Hd1) as [Hr1 [He1 Hk1]]. destruct (ensure_rc t2 Hd2) as [Hr2 [He2 Hk2]].
      destruct (ensure_cache t1) as [rc1 u1]. destruct (ensure_cache t2) as [rc2 u2]. cbn [fst snd] in *.
      assert (Hu : cont_eq u1 u2).
      { eapply cont_eq_trans; [exact He1|]. eapply cont_eq_trans; [exact Hd|]. apply cont_eq_sym. exact He2. }
      rewrite <- Hm in Hr2. rewrite Hr1, Hr2. destruct (build_cache (s_m t1)) as [c|e]; [|split; [reflexivity|exact Hu]].
      destruct (lookup n (c_all_par c)); [|split; [reflexivity|exact Hu]].
      apply (body_blind 3 (UpdatePar n (Some (Plain (z * q)%Z)))); [reflexivity|apply dec_cont_eq; exact Hu].
    - split; [reflexivity|exact Hd].
  Qed.

  Lemma mutate_rel s1 s2 mu : rel s1 s2 -> rel (fst (mutate s1 mu)) (fst (mutate s2 mu)).
  Proof.
    intros H. split; [apply (mutate_agree s1 s2 mu H)|].
    destruct H as [_ [Hc1 Hc2]]. split; apply (mutate_coherent all_invalidate); assumption.
  Qed.

  Lemma run_items_agree l : forall s1 s2, rel s1 s2 -> agree (run_items s1 l) (run_items s2 l).
  Proof.
    induction l as [|mu r IH]; intros s1 s2 H; cbn [run_items]; [split; [reflexivity|apply H]|].
    pose proof (mutate_agree s1 s2 mu H) as Ha. pose proof (mutate_rel s1 s2 mu H) as Hr.
    destruct (mutate s1 mu) as [t1 o1]. destruct (mutate s2 mu) as [t2 o2].
    destruct Ha as [Ho Hc]. cbn [fst snd] in *. subst o2.
    destruct o1; [apply IH; exact Hr|split; [reflexivity|exact Hc]|split; [reflexivity|exact Hc]].
  Qed.

  Lemma validate_eq s1 s2 b : cont_eq s1 s2 -> validate s1 b = validate s2 b.
  Proof. intros [Hi Hm]. unfold validate. rewrite Hi, Hm. reflexivity. Qed.

  Lemma batch_agree mode s1 s2 b : rel s1 s2 -> agree (batch_with mode s1 b) (batch_with mode s2 b).
  Proof.
    intros H. destruct mode; cbn [batch_with]; try (apply run_items_agree; exact H).
    rewrite (validate_eq s1 s2 b (proj1 H)). destruct (validate s2 b); [split; [reflexivity|apply H]|].
    destruct b; try (apply run_items_agree; exact H).
    pose proof (run_items_agree (items (ScalePars l)) s1 s2 H) as Ha.
    destruct H as [[_ Hm] _]. rewrite Hm.
    destruct (run_items s1 _) as [t1 o1]. destruct (run_items s2 _) as [t2 o2].
    destruct Ha as [Ho [Hi2 Hm2]]. cbn [fst snd] in *. subst o2.
    destruct o1; split; try reflexivity; split; cbn; try assumption; rewrite Hm2; reflexivity.
  Qed.

  Lemma ask_rel s q : coherent s -> rel (fst (ask s q)) s.
  Proof.
    intro Hc. destruct (ask_coherent s q Hc) as [Hc1 Hm]. split; [|split; assumption].
    split; [|exact Hm]. unfold ask. destruct q; try reflexivity;
      destruct (ensure_cache s) as [rc s1] eqn:E;
      destruct (ensure_cache_coherent s rc s1 Hc E) as [_ [_ [Hi _]]]; destruct rc; exact Hi.
  Qed.

  Lemma rel_sym s1 s2 : rel s1 s2 -> rel s2 s1.
  Proof. intros [A [B C]]. split; [apply cont_eq_sym; exact A|split; assumption]. Qed.
  Lemma rel_trans s1 s2 s3 : rel s1 s2 -> rel s2 s3 -> rel s1 s3.
  Proof. intros [A [B _]] [C [_ D]]. split; [eapply cont_eq_trans; eassumption|split; assumption]. Qed.

  Lemma fresh_eq s1 s2 : cont_eq s1 s2 -> fresh s1 = fresh s2.
  Proof. intros [Hi Hm]. unfold fresh. rewrite Hi, Hm. reflexivity. Qed.

  Lemma ask_agree s1 s2 q : rel s1 s2 -> snd (ask s1 q) = snd (ask s2 q).
  Proof.
    intros [Hce [Hc1 Hc2]]. rewrite (ask_equals_fresh s1 q Hc1), (ask_equals_fresh s2 q Hc2).
    rewrite (fresh_eq s1 s2 Hce). reflexivity.
  Qed.

  Lemma step_agree s1 s2 o : rel s1 s2 -> agree (step s1 o) (step s2 o).
  Proof.
    intro H. destruct o; cbn [step].
    - apply mutate_agree; exact H.
    - apply batch_agree; exact H.
    - split; [apply ask_agree; exact H|].
      destruct H as [Hce [Hc1 Hc2]].
      eapply cont_eq_trans; [apply (ask_rel s1 q Hc1)|]. eapply cont_eq_trans; [exact Hce|].
      apply cont_eq_sym. apply (ask_rel s2 q Hc2).
  Qed.

  Lemma step_rel s1 s2 o : rel s1 s2 -> rel (fst (step s1 o)) (fst (step s2 o)).
  Proof.
    intro H. split; [apply (step_agree s1 s2 o H)|].
    destruct H as [_ [Hc1 Hc2]]. split; apply (step_coherent all_invalidate); assumption.
  Qed.

  (** T: what an edit (or any step) does depends on the content only *)
  Lemma step_independent_of_cache h o :
    snd (step (run_history h) o) = snd (step (fresh (run_history h)) o) /\
    s_ids (fst (step (run_history h) o)) = s_ids (fst (step (fresh (run_history h)) o)) /\
    s_m (fst (step (run_history h) o)) = s_m (fst (step (fresh (run_history h)) o)).
  Proof.
    pose proof (step_agree (run_history h) (fresh (run_history h)) o
                           (rel_fresh _ (history_coherent all_invalidate h))) as [Ho [Hi Hm]].
    repeat split; assumption.
  Qed.

  (** T: queries leave no trace *)
  Lemma fold_edits h : forall s1 s2, rel s1 s2 ->
    rel (fold_left (fun s o => fst (step s o)) h s1) (fold_left (fun s o => fst (step s o)) (edits_of h) s2).
  Proof.
    induction h as [|o h IH]; intros s1 s2 H; cbn [fold_left edits_of filter]; [exact H|].
    destruct o as [mu|b|q]; cbn [is_edit fold_left].
    - apply IH. apply step_rel. exact H.
    - apply IH. apply step_rel. exact H.
    - apply IH. eapply rel_trans; [|exact H]. cbn [step]. apply ask_rel. apply H.
  Qed.

  Lemma init_rel : rel init init.
  Proof. split; [apply cont_eq_refl|]. split; intros c Hc; discriminate Hc. Qed.

  Lemma queries_leave_no_trace h :
    s_ids (run_history h) = s_ids (run_history (edits_of h)) /\
    s_m (run_history h) = s_m (run_history (edits_of h)) /\
    forall q, snd (ask (run_history h) q) = snd (ask (run_history (edits_of h)) q).
  Proof.
    pose proof (fold_edits h init init init_rel) as H. fold (run_history h) in H. fold (run_history (edits_of h)) in H.
    split; [apply H|]. split; [apply H|]. intro q. apply ask_agree. exact H.
  Qed.

  Lemma run_history_app h o : run_history (h ++ [o]) = fst (step (run_history h) o).
  Proof. unfold run_history. rewrite fold_left_app. reflexivity. Qed.

  (** T: a query does not change what a later query answers *)
  Lemma query_keeps_later_answers h q q' :
    snd (ask (fst (ask (run_history h) q)) q') = snd (ask (run_history h) q').
  Proof. apply ask_agree. apply ask_rel. apply (history_coherent all_invalidate). Qed.

  (** ---- exchanged containers ------------------------------------------------------------ *)

  Lemma ask_fst_ensure s q : q <> QIds -> fst (ask s q) = snd (ensure_cache s).
  Proof.
    intro Hq. unfold ask. destruct q; try (exfalso; apply Hq; reflexivity);
      destruct (ensure_cache s) as [rc s1]; destruct rc; reflexivity.
  Qed.

  Lemma poke_copied_calls s p im :
    poke_with Copied im s p = fold_left (fun s o => fst (step s o)) (calls_of (Poke p)) s \/
    (exists n a, (p = PokeDerArgs n a \/ p = PokeRxnArgs n a \/ p = PokeRoArgs n a)).
  Proof.
    destruct p; cbn [poke_with calls_of fold_left step].
    - left. unfold poke_getter. rewrite ask_fst_ensure by discriminate. destruct (ensure_cache s) as [rc s1]. reflexivity.
    - left. unfold poke_getter. rewrite ask_fst_ensure by discriminate. destruct (ensure_cache s) as [rc s1]. reflexivity.
    - right. eauto.
    - right. eauto.
    - right. eauto.
  Qed.

  Lemma xstep_copied s x : xstep Copied Copied s x = fold_left (fun s o => fst (step s o)) (calls_of x) s.
  Proof.
    destruct x as [o|p]; [reflexivity|]. cbn [xstep].
    destruct p; cbn [poke_with calls_of fold_left step]; try reflexivity;
      unfold poke_getter; rewrite ask_fst_ensure by discriminate; destruct (ensure_cache s) as [rc s1]; reflexivity.
  Qed.

  Lemma xfold_copied xh : forall s,
    fold_left (xstep Copied Copied) xh s = fold_left (fun s o => fst (step s o)) (ops_of xh) s.
  Proof.
    induction xh as [|x xh IH]; intro s; cbn [fold_left ops_of flat_map]; [reflexivity|].
    rewrite fold_left_app. rewrite <- xstep_copied. apply IH.
  Qed.

  (** with copies in both directions the caller's writes are unobservable: an extended history ends in exactly
      the state of the method calls it contains; hence all theorems about [run_history] carry over *)
  Lemma xrun_copied xh : xrun Copied Copied xh = run_history (ops_of xh).
  Proof. apply xfold_copied. Qed.

  Lemma xrun_copied_equals_fresh xh q :
    snd (ask (xrun Copied Copied xh) q) = snd (ask (fresh (xrun Copied Copied xh)) q).
  Proof. rewrite xrun_copied. apply (history_equals_fresh all_invalidate). Qed.

  (** whatever the modes: a history in which the caller never writes to an exchanged object *)
  Lemma xrun_no_poke gm im h : xrun gm im (map Op h) = run_history h.
  Proof.
    unfold xrun, run_history. generalize init. induction h as [|o h IH]; intro s; cbn [map fold_left]; [reflexivity|].
    apply IH.
  Qed.

  Lemma exchanged_values xh :
    xrun Copied Copied xh = run_history (ops_of xh) /\
    forall q, snd (ask (xrun Copied Copied xh) q) = snd (ask (fresh (xrun Copied Copied xh)) q).
  Proof. split; [apply xrun_copied|intro q; apply xrun_copied_equals_fresh]. Qed.

  Lemma exchanged_values_partial gm im h q :
    xrun gm im (map Op h) = run_history h /\
    snd (ask (xrun gm im (map Op h)) q) = snd (ask (fresh (xrun gm im (map Op h))) q).
  Proof. rewrite xrun_no_poke. split; [reflexivity|apply (history_equals_fresh all_invalidate)]. Qed.
End WithFacts.

(** REFUTED for aliasing getters: add_variable(12, 1); d = get_initial_conditions(); d[12] = 99 -- from then
    on get_initial_conditions (and get_args) answer 99, a freshly built model with the same content answers 1 *)
Lemma getters_alias_refuted :
  exists (xh : list xop) (q : query),
    snd (ask (xrun Aliased Copied xh) q) <> snd (ask (fresh (xrun Aliased Copied xh)) q) /\
    s_m (xrun Aliased Copied xh) = s_m (run_history (ops_of xh)) /\
    snd (ask (xrun Aliased Copied xh) q) = Answer (APairs [(12%N, 99%Z)]) /\
    snd (ask (fresh (xrun Aliased Copied xh)) q) = Answer (APairs [(12%N, 1%Z)]).
Proof.
  exists [Op (Mut (AddVar 12%N (Plain 1%Z))); Poke (PokeIc 12%N 99%Z)], QIc.
  split; [vm_compute; discriminate|]. repeat split; vm_compute; reflexivity.
Qed.

(** REFUTED for mutators that keep the caller's list: add_derived(13, f_id, args=L) with L = [11]; get_args();
    L[0] = 12 -- the content now says 13 = id(12) = 5, the memoised cache still answers 13 = 2 *)
Lemma inputs_alias_refuted :
  exists (xh : list xop) (q : query),
    snd (ask (xrun Copied Aliased xh) q) <> snd (ask (fresh (xrun Copied Aliased xh)) q) /\
    s_m (xrun Copied Aliased xh) <> s_m (run_history (ops_of xh)) /\
    snd (ask (xrun Copied Aliased xh) q) = Answer (APairs [(0%N, 0%Z); (11%N, 2%Z); (12%N, 5%Z); (13%N, 2%Z)]) /\
    snd (ask (fresh (xrun Copied Aliased xh)) q) = Answer (APairs [(0%N, 0%Z); (11%N, 2%Z); (12%N, 5%Z); (13%N, 5%Z)]).
Proof.
  exists [Op (Mut (AddPar 11%N (Plain 2%Z))); Op (Mut (AddPar 12%N (Plain 5%Z))); Op (Mut (AddDer 13%N 0%N [11%N]));
          Op (Ask (QArgs None 0%Z)); Poke (PokeDerArgs 13%N [12%N])], (QArgs None 0%Z).
  split; [vm_compute; discriminate|]. split; [vm_compute; discriminate|]. split; vm_compute; reflexivity.
Qed.
