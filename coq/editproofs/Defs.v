(** Definitions needed to STATE the id-registry theorems of C03 (no proofs here). *)
From Coq Require Import ZArith List Bool.
From MxlBase Require Import ListX.
From Core Require Import Model.
From Edit Require Import ModelSM.
Import ListNotations.

(** what the containers say the registry should be: every stored name with its kind; a surrogate
    registers its own name and each of its outputs *)
Definition registry (m : model) : list (name * kind) :=
     map (fun k => (k, KPar)) (keys (m_par m)) ++ map (fun k => (k, KVar)) (keys (m_var m))
  ++ map (fun k => (k, KDer)) (keys (m_der m)) ++ map (fun k => (k, KRxn)) (keys (m_rxn m))
  ++ map (fun k => (k, KRo)) (keys (m_ro m))
  ++ map (fun k => (k, KSur)) (keys (m_sur m) ++ flat_map (fun kv => s_out (snd kv)) (m_sur m))
  ++ map (fun k => (k, KDat)) (keys (m_dat m)).

Record ids_ok (s : st) : Prop := {
  ids_nodup    : NoDup (keys (s_ids s));
  ids_notime   : ~ In time_name (keys (s_ids s));
  reg_nodup    : NoDup (keys (registry (s_m s)));          (* one name space: containers pairwise
                                                              disjoint, surrogate outputs distinct *)
  ids_registry : forall n k, In (n, k) (s_ids s) <-> In (n, k) (registry (s_m s))
}.
