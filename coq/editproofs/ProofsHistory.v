(** Whole histories over the enlarged alphabet (single-item mutators, batch mutators, queries). *)
From Coq Require Import ZArith List Bool Lia.
From MxlBase Require Import ListX.
From Core Require Import Sort GenSortFacts FnLib Model Cache Query.
From Edit Require Import GenEditFacts ModelSM.
From EditP Require Import Defs ProofsDict ProofsIds ProofsReg ProofsFuel ProofsBody ProofsHist ProofsBatch.
Import ListNotations.
Local Open Scope nat_scope.

Lemma step_ok s o : ids_ok s -> ids_ok (fst (step s o)).
Proof.
  intro Hok. destruct o as [mu|b|q]; cbn [step].
  - apply (mutate_post s mu Hok).
  - apply (proj1 (batch_with_ok _ s b Hok)).
  - apply (ids_ok_same s); [apply ask_same|exact Hok].
Qed.

Lemma init_ok : ids_ok init.
Proof.
  split; cbn.
  - constructor.
  - tauto.
  - constructor.
  - intros n k. tauto.
Qed.

Lemma fold_ok h : forall s, ids_ok s -> ids_ok (fold_left (fun s o => fst (step s o)) h s).
Proof.
  induction h as [|o h IH]; intros s Hok; cbn [fold_left]; [exact Hok|]. apply IH. apply step_ok. exact Hok.
Qed.

Lemma history_ok h : ids_ok (run_history h).
Proof. unfold run_history. apply fold_ok. apply init_ok. Qed.

Lemma rejected_changes_nothing h mu s' e :
  mutate (run_history h) mu = (s', Rejected e) ->
  s_ids s' = s_ids (run_history h) /\ s_m s' = s_m (run_history h).
Proof.
  intro E. pose proof (mutate_post _ mu (history_ok h)) as [_ [Ha|[e' [_ [Hs _]]]]]; rewrite E in *; cbn [fst snd] in *.
  - discriminate Ha.
  - exact Hs.
Qed.

Lemma never_out_of_fuel h mu s' : mutate (run_history h) mu <> (s', Rejected EFuel).
Proof.
  intro E. pose proof (mutate_post _ mu (history_ok h)) as [_ [Ha|[e' [He [_ Hf]]]]]; rewrite E in *; cbn [fst snd] in *.
  - discriminate Ha.
  - injection He as <-. apply Hf; auto.
Qed.

Lemma name_reusable h rm n s1 :
  is_remove rm n -> mutate (run_history h) rm = (s1, Accepted) ->
  forall add, is_add add n -> exists s2, mutate s1 add = (s2, Accepted).
Proof.
  intros Hrm E add Hadd. unfold mutate in *.
  destruct (run_remove_frees 4 _ rm n s1 (history_ok h) Hrm E) as [Hh [Hn _]].
  apply (run_add_accepts 4 s1 add n); auto.
Qed.

(** ---- the enlarged alphabet ------------------------------------------------------------- *)

Lemma step_never_out_of_fuel h o s' : step (run_history h) o <> (s', Rejected EFuel).
Proof.
  destruct o as [mu|b|q]; cbn [step].
  - apply never_out_of_fuel.
  - intro E. destruct (batch_with_ok (batch_form (batch_of b)) _ b (history_ok h)) as [_ [Ha|[e [He Hf]]]];
      unfold run_batch in E; rewrite E in *; cbn [snd] in *; [discriminate Ha|]. injection He as <-. apply Hf. reflexivity.
  - unfold ask. destruct q; try discriminate;
      destruct (ensure_cache (run_history h)) as [rc s1]; destruct rc; discriminate.
Qed.

Lemma batch_rejected_changes_nothing h b s' e :
  batch_with BatchValidated (run_history h) b = (s', Rejected e) ->
  s_ids s' = s_ids (run_history h) /\ s_m s' = s_m (run_history h).
Proof. intro E. exact (batch_validated_atomic _ b s' e (history_ok h) E). Qed.

Lemma batch_rejected_partial h b s' e :
  batch_with BatchFold (run_history h) b = (s', Rejected e) ->
  exists pre mu post sk,
    items b = pre ++ mu :: post /\ run_items (run_history h) pre = (sk, Accepted) /\
    snd (mutate sk mu) = Rejected e /\ s_ids s' = s_ids sk /\ s_m s' = s_m sk.
Proof.
  intro E. destruct (batch_fold_rejected _ b s' e (history_ok h) E) as [pre [mu [post [sk [A [B [_ [C [D1 D2]]]]]]]]].
  exists pre, mu, post, sk. repeat split; assumption.
Qed.

(** ... in particular nothing changed when the FIRST item is the rejected one *)
Lemma batch_rejected_first_item h b s' e mu post :
  batch_with BatchFold (run_history h) b = (s', Rejected e) ->
  items b = mu :: post -> snd (mutate (run_history h) mu) <> Accepted ->
  s_ids s' = s_ids (run_history h) /\ s_m s' = s_m (run_history h).
Proof.
  intros E Hi Hn. cbn [batch_with] in E. rewrite Hi in E. cbn [run_items] in E.
  destruct (mutate_cases (run_history h) mu (history_ok h)) as [_ H2].
  destruct (mutate (run_history h) mu) as [s1 o]. cbn [fst snd] in *.
  destruct H2 as [->|[e1 [-> [Hs _]]]]; [exfalso; apply Hn; reflexivity|]. injection E as <- _. exact Hs.
Qed.

Lemma batch_accepted_as_fold h b s' :
  batch_with BatchValidated (run_history h) b = (s', Accepted) -> batch_with BatchFold (run_history h) b = (s', Accepted).
Proof. apply batch_validated_accepted_as_fold. Qed.

Lemma batch_rejected_refuted :
  exists (h : list op) (b : bmut) (s' : st) (e : err),
    batch_with BatchFold (run_history h) b = (s', Rejected e) /\
    m_par (s_m (run_history h)) = [] /\ m_par (s_m s') = [(11%N, Plain 1%Z)] /\
    s_ids s' = [(11%N, KPar)] /\
    batch_with BatchValidated (run_history h) b = (run_history h, Rejected e).
Proof.
  exists [], (AddPars [(11%N, Plain 1%Z); (0%N, Plain 2%Z); (12%N, Plain 3%Z)]),
         (fst (batch_with BatchFold init (AddPars [(11%N, Plain 1%Z); (0%N, Plain 2%Z); (12%N, Plain 3%Z)]))), EKey.
  repeat split; vm_compute; reflexivity.
Qed.
