(** Association-list facts used by the id-registry proofs: occurrence counting, [lookup]/[has],
    [dset] (overwrite-or-append) and [del] (remove the first binding). *)
From Coq Require Import ZArith List Bool Lia.
From MxlBase Require Import ListX.
From Core Require Import Model.
From Edit Require Import ModelSM.
Import ListNotations.

(** ---- counting occurrences of a name ------------------------------------------------- *)

Definition cnt (x : name) (l : list name) : nat := count_occ N.eq_dec l x.

(** indicator of [x = n] *)
Definition ind (x n : name) : nat := if N.eqb x n then 1 else 0.

Lemma ind_same x : ind x x = 1.
Proof. unfold ind. rewrite N.eqb_refl. reflexivity. Qed.

Lemma ind_ne x n : x <> n -> ind x n = 0.
Proof. unfold ind. intro H. destruct (N.eqb_spec x n); [contradiction|reflexivity]. Qed.

Lemma ind_le x n : ind x n <= 1.
Proof. unfold ind. destruct (N.eqb x n); lia. Qed.

Lemma cnt_nil x : cnt x [] = 0.
Proof. reflexivity. Qed.

Lemma cnt_cons x y l : cnt x (y :: l) = ind x y + cnt x l.
Proof.
  unfold cnt, ind. cbn [count_occ]. destruct (N.eq_dec y x) as [E|E]; destruct (N.eqb_spec x y) as [E'|E'];
    subst; try congruence; reflexivity.
Qed.

Lemma cnt_app x a b : cnt x (a ++ b) = cnt x a + cnt x b.
Proof. unfold cnt. apply count_occ_app. Qed.

Lemma cnt_one x n : cnt x [n] = ind x n.
Proof. rewrite cnt_cons, cnt_nil. lia. Qed.

Lemma cnt_In x l : In x l <-> cnt x l > 0.
Proof. unfold cnt. apply count_occ_In. Qed.

Lemma cnt_not_In x l : ~ In x l <-> cnt x l = 0.
Proof. unfold cnt. apply count_occ_not_In. Qed.

Lemma cnt_NoDup l : NoDup l <-> forall x, cnt x l <= 1.
Proof. unfold cnt. apply NoDup_count_occ. Qed.

(** ---- lookup / has ------------------------------------------------------------------- *)

Lemma has_In {A} k (e : list (name * A)) : has k e = true <-> In k (keys e).
Proof.
  unfold has. induction e as [|[k' v] e IH]; cbn [lookup keys map fst In].
  - split; [discriminate|tauto].
  - destruct (N.eqb_spec k k') as [->|Hne].
    + split; auto.
    + rewrite IH. unfold keys. split; [auto|]. intros [H|H]; [congruence|exact H].
Qed.

Lemma has_false {A} k (e : list (name * A)) : has k e = false <-> ~ In k (keys e).
Proof.
  rewrite <- has_In. destruct (has k e); split; intro H; try reflexivity; try discriminate.
  exfalso. apply H. reflexivity.
Qed.

Lemma has_cnt {A} k (e : list (name * A)) : has k e = true <-> cnt k (keys e) > 0.
Proof. rewrite has_In. apply cnt_In. Qed.

Lemma has_false_cnt {A} k (e : list (name * A)) : has k e = false <-> cnt k (keys e) = 0.
Proof. rewrite has_false. apply cnt_not_In. Qed.

Lemma lookup_has {A} k (v : A) e : lookup k e = Some v -> has k e = true.
Proof. unfold has. intros ->. reflexivity. Qed.

Lemma lookup_None_has {A} k (e : list (name * A)) : lookup k e = None -> has k e = false.
Proof. unfold has. intros ->. reflexivity. Qed.

Lemma In_keys {A} k (v : A) e : In (k, v) e -> In k (keys e).
Proof. intro H. unfold keys. change k with (fst (k, v)). apply in_map. exact H. Qed.

Lemma keys_In {A} k (e : list (name * A)) : In k (keys e) -> exists v, In (k, v) e.
Proof.
  unfold keys. rewrite in_map_iff. intros [[k' v] [E H]]. cbn in E. subst k'. exists v. exact H.
Qed.

Lemma keys_app {A} (a b : list (name * A)) : keys (a ++ b) = keys a ++ keys b.
Proof. unfold keys. apply map_app. Qed.

(** ---- dset --------------------------------------------------------------------------- *)

Lemma keys_dset_has {A} k (v : A) d : has k d = true -> keys (dset k v d) = keys d.
Proof.
  unfold has. induction d as [|[k' v'] d IH]; cbn [lookup dset keys map fst]; [discriminate|].
  destruct (N.eqb_spec k k') as [->|Hne]; intro H; cbn [keys map fst]; [reflexivity|].
  f_equal. apply IH. exact H.
Qed.

Lemma keys_dset_fresh {A} k (v : A) d : has k d = false -> keys (dset k v d) = keys d ++ [k].
Proof.
  unfold has. induction d as [|[k' v'] d IH]; cbn [lookup dset keys map fst app]; [reflexivity|].
  destruct (N.eqb_spec k k') as [->|Hne]; intro H; [discriminate|]. cbn [keys map fst app].
  f_equal. apply IH. exact H.
Qed.

Lemma cnt_keys_dset {A} k (v : A) d x :
  cnt x (keys (dset k v d)) = cnt x (keys d) + (if has k d then 0 else ind x k).
Proof.
  destruct (has k d) eqn:E.
  - rewrite keys_dset_has by exact E. lia.
  - rewrite keys_dset_fresh by exact E. rewrite cnt_app, cnt_one. reflexivity.
Qed.

(** ---- del ---------------------------------------------------------------------------- *)

Lemma cnt_keys_del {A} n (d : list (name * A)) x :
  has n d = true -> cnt x (keys (del n d)) + ind x n = cnt x (keys d).
Proof.
  unfold has. induction d as [|[k' v'] d IH]; cbn [lookup del keys map fst]; [discriminate|].
  destruct (N.eqb_spec n k') as [->|Hne]; intro H.
  - fold (keys d). rewrite cnt_cons. lia.
  - cbn [keys map fst]. fold (keys d). fold (keys (del n d)). rewrite !cnt_cons.
    specialize (IH H). lia.
Qed.

Lemma keys_del_incl {A} n (d : list (name * A)) x : In x (keys (del n d)) -> In x (keys d).
Proof.
  induction d as [|[k' v'] d IH]; cbn [del keys map fst In]; [tauto|].
  destruct (N.eqb n k'); cbn [keys map fst In]; [auto|]. intros [H|H]; [auto|right; apply IH; exact H].
Qed.

Lemma NoDup_keys_del {A} n (d : list (name * A)) : NoDup (keys d) -> NoDup (keys (del n d)).
Proof.
  induction d as [|[k' v'] d IH]; cbn [del keys map fst]; [auto|]. intro H. inversion H as [|? ? Hni Hnd]; subst.
  destruct (N.eqb n k'); [exact Hnd|]. cbn [keys map fst]. constructor.
  - intro Hin. apply Hni. apply (keys_del_incl n d). exact Hin.
  - apply IH. exact Hnd.
Qed.

Lemma not_In_keys_del {A} n (d : list (name * A)) : NoDup (keys d) -> ~ In n (keys (del n d)).
Proof.
  induction d as [|[k' v'] d IH]; cbn [del keys map fst]; [auto|]. intro H. inversion H as [|? ? Hni Hnd]; subst.
  destruct (N.eqb_spec n k') as [->|Hne]; [exact Hni|]. cbn [keys map fst In]. intros [E|Hin]; [congruence|].
  apply IH; assumption.
Qed.

Lemma In_del {A} n (d : list (name * A)) x (v : A) :
  NoDup (keys d) -> (In (x, v) (del n d) <-> In (x, v) d /\ x <> n).
Proof.
  induction d as [|[k' v'] d IH]; cbn [del keys map fst In]; [tauto|]. intro H. inversion H as [|? ? Hni Hnd]; subst.
  destruct (N.eqb_spec n k') as [->|Hne].
  - split.
    + intro Hin. split; [right; exact Hin|]. intros ->. apply Hni. apply (In_keys _ v). exact Hin.
    + intros [[E|Hin] Hx]; [congruence|exact Hin].
  - cbn [In]. rewrite (IH Hnd). split.
    + intros [E|[Hin Hx]]; [|tauto]. inversion E; subst. split; [left; reflexivity|congruence].
    + intros [[E|Hin] Hx]; [left; exact E|right; tauto].
Qed.

(** ---- flat_map over the values of a dict, under dset / del / value-only maps ----------- *)

Section FlatMap.
  Context {A : Type} (f : A -> list name).
  Let g := fun kv : name * A => f (snd kv).

  Lemma cnt_flat_lookup n (d : list (name * A)) old x :
    lookup n d = Some old -> cnt x (f old) <= cnt x (flat_map g d).
  Proof.
    induction d as [|[k' v'] d IH]; cbn [lookup flat_map]; [discriminate|].
    rewrite cnt_app. destruct (N.eqb n k'); intro H.
    - injection H as <-. unfold g. cbn [snd]. lia.
    - specialize (IH H). lia.
  Qed.

  Lemma cnt_flat_dset n (d : list (name * A)) old v x :
    lookup n d = Some old ->
    cnt x (flat_map g (dset n v d)) + cnt x (f old) = cnt x (flat_map g d) + cnt x (f v).
  Proof.
    induction d as [|[k' v'] d IH]; cbn [lookup dset flat_map]; [discriminate|].
    destruct (N.eqb n k'); intro H; cbn [flat_map]; rewrite !cnt_app.
    - injection H as <-. unfold g. cbn [snd]. lia.
    - specialize (IH H). lia.
  Qed.

  Lemma cnt_flat_dset_fresh n (d : list (name * A)) v x :
    has n d = false -> cnt x (flat_map g (dset n v d)) = cnt x (flat_map g d) + cnt x (f v).
  Proof.
    unfold has. induction d as [|[k' v'] d IH]; cbn [lookup dset flat_map].
    - intros _. rewrite app_nil_r. unfold g. cbn [snd]. rewrite cnt_nil. lia.
    - destruct (N.eqb n k'); intro H; [discriminate|]. cbn [flat_map]. rewrite !cnt_app.
      specialize (IH H). lia.
  Qed.

  Lemma cnt_flat_del n (d : list (name * A)) old x :
    lookup n d = Some old -> cnt x (flat_map g (del n d)) + cnt x (f old) = cnt x (flat_map g d).
  Proof.
    induction d as [|[k' v'] d IH]; cbn [lookup del flat_map]; [discriminate|].
    destruct (N.eqb n k'); intro H; cbn [flat_map]; rewrite ?cnt_app.
    - injection H as <-. unfold g. cbn [snd]. lia.
    - specialize (IH H). lia.
  Qed.
End FlatMap.

(** a map that keeps every key *)
Lemma keys_map_snd {A B} (h : name * A -> B) (d : list (name * A)) :
  keys (map (fun kv => (fst kv, h kv)) d) = keys d.
Proof. unfold keys. rewrite map_map. cbn [fst]. reflexivity. Qed.
