(** The id registry against an abstract "how often is name x stored under kind k" counter.
    [inv ids c]: the registry [ids] has unique keys, does not contain [time], and holds exactly the
    pairs (x, k) with c k x > 0, every name being counted at most once over all kinds.
    [ins_id]/[rem_id]/[ins_ids]/[rem_ids] move [inv] along [addc]/[subc]. *)
From Coq Require Import ZArith List Bool Lia.
From MxlBase Require Import ListX.
From Core Require Import Model.
From Edit Require Import ModelSM.
From EditP Require Import ProofsDict.
Import ListNotations.

Definition kind_eq_dec (a b : kind) : {a = b} + {a <> b}.
Proof. decide equality. Defined.

Definition counter := kind -> name -> nat.

Definition tot (c : counter) (x : name) : nat :=
  c KPar x + c KVar x + c KDer x + c KRxn x + c KRo x + c KSur x + c KDat x.

Record inv (ids : list (name * kind)) (c : counter) : Prop := {
  inv_nd : NoDup (keys ids);
  inv_nt : ~ In time_name (keys ids);
  inv_tot : forall x, tot c x <= 1;
  inv_in : forall x k, In (x, k) ids <-> c k x > 0
}.

Definition addc (c : counter) (K : kind) (ns : list name) : counter :=
  fun k x => c k x + (if kind_eq_dec k K then cnt x ns else 0).
Definition subc (c : counter) (K : kind) (ns : list name) : counter :=
  fun k x => c k x - (if kind_eq_dec k K then cnt x ns else 0).

Lemma inv_ext ids c c' : inv ids c -> (forall k x, c' k x = c k x) -> inv ids c'.
Proof.
  intros [Hnd Hnt Htot Hin] He. split; auto.
  - intro x. unfold tot. rewrite !He. apply Htot.
  - intros x k. rewrite He. apply Hin.
Qed.

Lemma le_tot (c : counter) k x : c k x <= tot c x.
Proof. unfold tot. destruct k; lia. Qed.

Lemma inv_notin ids c n : inv ids c -> ~ In n (keys ids) -> forall k, c k n = 0.
Proof.
  intros Hi Hni k. destruct (c k n) eqn:E; [reflexivity|]. exfalso. apply Hni.
  apply (In_keys n k). apply (inv_in _ _ Hi). lia.
Qed.

Lemma inv_has ids c K n : inv ids c -> c K n > 0 -> has n ids = true.
Proof. intros Hi Hc. apply has_In. apply (In_keys n K). apply (inv_in _ _ Hi). exact Hc. Qed.

(** a registered name is stored under exactly one kind, once *)
Lemma inv_unique ids c K n : inv ids c -> c K n > 0 -> c K n = 1 /\ forall k, k <> K -> c k n = 0.
Proof.
  intros Hi Hc. pose proof (inv_tot _ _ Hi n) as Ht. unfold tot in Ht.
  split; [destruct K; lia|]. intros k Hk. destruct K, k; try congruence; lia.
Qed.

Lemma tot_addc c K ns x : tot (addc c K ns) x = tot c x + cnt x ns.
Proof. unfold tot, addc. destruct K; cbn; lia. Qed.

(** ---- _insert_id ---------------------------------------------------------------------- *)

Lemma ins_id_Val n K ids ids' :
  ins_id n K ids = Val ids' -> n <> time_name /\ has n ids = false /\ ids' = ids ++ [(n, K)].
Proof.
  unfold ins_id. destruct (N.eqb_spec n time_name) as [E|E]; [discriminate|].
  destruct (has n ids); [discriminate|]. intro H. injection H as <-. auto.
Qed.

Lemma ins_id_ok n K ids : n <> time_name -> has n ids = false -> ins_id n K ids = Val (ids ++ [(n, K)]).
Proof.
  intros Hn Hh. unfold ins_id. destruct (N.eqb_spec n time_name) as [E|E]; [contradiction|].
  rewrite Hh. reflexivity.
Qed.

Lemma ins_id_Err n K ids e : ins_id n K ids = Err e -> e = EKey \/ e = EName.
Proof.
  unfold ins_id. destruct (N.eqb n time_name); [intro H; injection H as <-; auto|].
  destruct (has n ids); [intro H; injection H as <-; auto|discriminate].
Qed.

Lemma ins_id_inv ids c n K ids' :
  inv ids c -> ins_id n K ids = Val ids' -> inv ids' (addc c K [n]).
Proof.
  intros Hi H. apply ins_id_Val in H. destruct H as [Hnt [Hh ->]].
  apply has_false in Hh. pose proof (inv_notin _ _ _ Hi Hh) as Hz.
  destruct Hi as [Hnd Hntime Htot Hin].
  assert (Hk : keys (ids ++ [(n, K)]) = keys ids ++ [n]) by (rewrite keys_app; reflexivity).
  split.
  - rewrite Hk. apply cnt_NoDup. intro x. rewrite cnt_app, cnt_one.
    destruct (N.eq_dec x n) as [->|Hne].
    + apply cnt_not_In in Hh. rewrite Hh, ind_same. lia.
    + rewrite (ind_ne _ _ Hne). pose proof (proj1 (cnt_NoDup _) Hnd x). lia.
  - rewrite Hk, in_app_iff. cbn [In]. intros [H|[H|[]]]; [auto|congruence].
  - intro x. rewrite tot_addc, cnt_one. destruct (N.eq_dec x n) as [->|Hne].
    + unfold tot. rewrite !Hz, ind_same. lia.
    + rewrite (ind_ne _ _ Hne). specialize (Htot x). lia.
  - intros x k. rewrite in_app_iff, Hin. cbn [In]. unfold addc. rewrite cnt_one.
    destruct (kind_eq_dec k K) as [->|Hk'].
    + destruct (N.eq_dec x n) as [->|Hne].
      * rewrite ind_same. split; [lia|]. intros _. right. left. reflexivity.
      * rewrite (ind_ne _ _ Hne). split; [|intro; left; lia].
        intros [H|[H|[]]]; [lia|]. congruence.
    + split; [|intro; left; lia]. intros [H|[H|[]]]; [lia|]. congruence.
Qed.

Lemma ins_ids_Err ns K ids e : ins_ids ns K ids = Err e -> e = EKey \/ e = EName.
Proof.
  revert ids. induction ns as [|n r IH]; intros ids; cbn [ins_ids]; [discriminate|].
  destruct (ins_id n K ids) as [ids1|e1] eqn:E1; cbn [bind].
  - apply IH.
  - intro H. injection H as <-. apply (ins_id_Err _ _ _ _ E1).
Qed.

Lemma ins_ids_inv ns : forall ids c K ids',
  inv ids c -> ins_ids ns K ids = Val ids' -> inv ids' (addc c K ns).
Proof.
  induction ns as [|n r IH]; intros ids c K ids' Hi; cbn [ins_ids].
  - intro H. injection H as <-. apply (inv_ext _ _ _ Hi). intros k x. unfold addc.
    destruct (kind_eq_dec k K); rewrite ?cnt_nil; lia.
  - destruct (ins_id n K ids) as [ids1|e1] eqn:E1; cbn [bind]; [|discriminate].
    intro H. pose proof (IH _ _ _ _ (ins_id_inv _ _ _ _ _ Hi E1) H) as H2.
    apply (inv_ext _ _ _ H2). intros k x. unfold addc.
    destruct (kind_eq_dec k K); rewrite ?cnt_cons, ?cnt_nil; lia.
Qed.

(** ---- _remove_id ---------------------------------------------------------------------- *)

Lemma rem_id_Val n ids ids' : rem_id n ids = Val ids' -> has n ids = true /\ ids' = del n ids.
Proof. unfold rem_id. destruct (has n ids); [|discriminate]. intro H. injection H as <-. auto. Qed.

Lemma rem_id_Err n ids e : rem_id n ids = Err e -> e = EKey /\ has n ids = false.
Proof. unfold rem_id. destruct (has n ids); [discriminate|]. intro H. injection H as <-. auto. Qed.

Lemma rem_id_inv ids c n K :
  inv ids c -> c K n > 0 -> rem_id n ids = Val (del n ids) /\ inv (del n ids) (subc c K [n]).
Proof.
  intros Hi Hc. pose proof (inv_has _ _ _ _ Hi Hc) as Hh.
  destruct (inv_unique _ _ _ _ Hi Hc) as [H1 H0].
  split; [unfold rem_id; rewrite Hh; reflexivity|].
  destruct Hi as [Hnd Hnt Htot Hin]. split.
  - apply NoDup_keys_del. exact Hnd.
  - intro H. apply Hnt. apply (keys_del_incl n). exact H.
  - intro x. specialize (Htot x). unfold tot, subc in *. lia.
  - intros x k. rewrite (In_del _ _ _ _ Hnd), Hin. unfold subc. rewrite cnt_one.
    destruct (N.eq_dec x n) as [->|Hne].
    + rewrite ind_same. destruct (kind_eq_dec k K) as [->|Hk]; [lia|]. rewrite (H0 k Hk). lia.
    + rewrite (ind_ne _ _ Hne). destruct (kind_eq_dec k K); split; try tauto; intros; try split; try lia; assumption.
Qed.

Lemma rem_ids_keys ns : forall ids ids', rem_ids ns ids = Val ids' ->
  forall x, In x (keys ids') -> In x (keys ids).
Proof.
  induction ns as [|n r IH]; intros ids ids'; cbn [rem_ids].
  - intro H. injection H as <-. auto.
  - destruct (rem_id n ids) as [ids1|e1] eqn:E1; cbn [bind]; [|discriminate].
    intros H x Hx. apply rem_id_Val in E1. destruct E1 as [_ ->].
    apply (keys_del_incl n). apply (IH _ _ H). exact Hx.
Qed.

Lemma rem_ids_Err ns ids e : rem_ids ns ids = Err e -> e = EKey.
Proof.
  revert ids. induction ns as [|n r IH]; intros ids; cbn [rem_ids]; [discriminate|].
  destruct (rem_id n ids) as [ids1|e1] eqn:E1; cbn [bind].
  - apply IH.
  - intro H. injection H as <-. apply (rem_id_Err _ _ _ E1).
Qed.

Lemma rem_ids_inv ns : forall ids c K,
  inv ids c -> (forall x, cnt x ns <= c K x) ->
  exists ids', rem_ids ns ids = Val ids' /\ inv ids' (subc c K ns).
Proof.
  induction ns as [|n r IH]; intros ids c K Hi Hle; cbn [rem_ids].
  - exists ids. split; [reflexivity|]. apply (inv_ext _ _ _ Hi). intros k x. unfold subc.
    destruct (kind_eq_dec k K); rewrite ?cnt_nil; lia.
  - assert (Hc : c K n > 0).
    { specialize (Hle n). rewrite cnt_cons, ind_same in Hle. lia. }
    destruct (rem_id_inv _ _ _ _ Hi Hc) as [E1 Hi1]. rewrite E1. cbn [bind].
    destruct (IH (del n ids) (subc c K [n]) K Hi1) as [ids' [E2 Hi2]].
    { intro x. specialize (Hle x). rewrite cnt_cons in Hle. unfold subc.
      destruct (kind_eq_dec K K) as [_|Hk]; [|congruence]. rewrite cnt_one. lia. }
    exists ids'. split; [exact E2|]. apply (inv_ext _ _ _ Hi2). intros k x. unfold subc.
    destruct (kind_eq_dec k K); rewrite ?cnt_cons, ?cnt_nil; lia.
Qed.
