(** [registry]/[ids_ok] of a concrete model expressed through the counter [cntk], and how the
    model updates performed by the mutators change [cntk]. *)
From Coq Require Import ZArith List Bool Lia.
From MxlBase Require Import ListX.
From Core Require Import Model.
From Edit Require Import ModelSM.
From EditP Require Import Defs ProofsDict ProofsIds.
Import ListNotations.

Definition outs_of (d : list (name * surrogate)) : list name := flat_map (fun kv => s_out (snd kv)) d.

Definition cntk (m : model) : counter := fun k x =>
  match k with
  | KPar => cnt x (keys (m_par m))
  | KVar => cnt x (keys (m_var m))
  | KDer => cnt x (keys (m_der m))
  | KRxn => cnt x (keys (m_rxn m))
  | KRo => cnt x (keys (m_ro m))
  | KSur => cnt x (keys (m_sur m)) + cnt x (outs_of (m_sur m))
  | KDat => cnt x (keys (m_dat m))
  end.

Lemma keys_tag (K : kind) (l : list name) : keys (map (fun k => (k, K)) l) = l.
Proof. unfold keys. rewrite map_map. cbn [fst]. apply map_id. Qed.

Lemma In_tag x k (K : kind) (l : list name) : In (x, k) (map (fun k => (k, K)) l) <-> k = K /\ In x l.
Proof.
  rewrite in_map_iff. split.
  - intros [y [E H]]. injection E as -> ->. auto.
  - intros [-> H]. exists x. auto.
Qed.

Lemma registry_cnt m x : cnt x (keys (registry m)) = tot (cntk m) x.
Proof.
  unfold registry, tot, cntk, outs_of. rewrite !keys_app, !keys_tag, !cnt_app. lia.
Qed.

Lemma registry_In m x k : In (x, k) (registry m) <-> cntk m k x > 0.
Proof.
  unfold registry. rewrite !in_app_iff, !In_tag. rewrite !cnt_In, cnt_app. unfold cntk, outs_of.
  destruct k; (split; [intros [[E H]|[[E H]|[[E H]|[[E H]|[[E H]|[[E H]|[E H]]]]]]]; try discriminate E; exact H|intro H]).
  - left. auto.
  - right. left. auto.
  - do 2 right. left. auto.
  - do 3 right. left. auto.
  - do 4 right. left. auto.
  - do 5 right. left. auto.
  - do 6 right. auto.
Qed.

Lemma ids_ok_inv s : ids_ok s <-> inv (s_ids s) (cntk (s_m s)).
Proof.
  split.
  - intros [Hnd Hnt Hrn Hreg]. split; auto.
    + intro x. rewrite <- registry_cnt. apply cnt_NoDup. exact Hrn.
    + intros x k. rewrite Hreg. apply registry_In.
  - intros [Hnd Hnt Htot Hin]. split; auto.
    + apply cnt_NoDup. intro x. rewrite registry_cnt. apply Htot.
    + intros x k. rewrite Hin. symmetry. apply registry_In.
Qed.

Lemma ids_ok_content s s' : s_ids s' = s_ids s -> s_m s' = s_m s -> ids_ok s -> ids_ok s'.
Proof. intros Hi Hm H. apply ids_ok_inv. rewrite Hi, Hm. apply ids_ok_inv. exact H. Qed.

(** ---- cntk under the container setters -------------------------------------------------- *)

Lemma cntk_set_par m v k x :
  cntk (set_par m v) k x = match k with KPar => cnt x (keys v) | _ => cntk m k x end.
Proof. destruct k; reflexivity. Qed.
Lemma cntk_set_var m v k x :
  cntk (set_var m v) k x = match k with KVar => cnt x (keys v) | _ => cntk m k x end.
Proof. destruct k; reflexivity. Qed.
Lemma cntk_set_der m v k x :
  cntk (set_der m v) k x = match k with KDer => cnt x (keys v) | _ => cntk m k x end.
Proof. destruct k; reflexivity. Qed.
Lemma cntk_set_rxn m v k x :
  cntk (set_rxn m v) k x = match k with KRxn => cnt x (keys v) | _ => cntk m k x end.
Proof. destruct k; reflexivity. Qed.
Lemma cntk_set_ro m v k x :
  cntk (set_ro m v) k x = match k with KRo => cnt x (keys v) | _ => cntk m k x end.
Proof. destruct k; reflexivity. Qed.
Lemma cntk_set_dat m v k x :
  cntk (set_dat m v) k x = match k with KDat => cnt x (keys v) | _ => cntk m k x end.
Proof. destruct k; reflexivity. Qed.
Lemma cntk_set_sur m v k x :
  cntk (set_sur m v) k x = match k with KSur => cnt x (keys v) + cnt x (outs_of v) | _ => cntk m k x end.
Proof. destruct k; reflexivity. Qed.

(** resolve [kind_eq_dec] on constructors *)
Ltac kdec :=
  unfold addc, subc;
  repeat match goal with
         | |- context [kind_eq_dec ?a ?b] => destruct (kind_eq_dec a b); try congruence
         end.

(** value-only rewrites of the surrogate / reaction containers keep names and outputs *)
Lemma outs_of_map_keep (h : name * surrogate -> name * surrogate) (d : list (name * surrogate)) :
  (forall kv, s_out (snd (h kv)) = s_out (snd kv)) -> outs_of (map h d) = outs_of d.
Proof.
  intro Hh. unfold outs_of. induction d as [|kv d IH]; cbn [map flat_map]; [reflexivity|].
  rewrite Hh, IH. reflexivity.
Qed.

Lemma keys_map_keep {A} (h : name * A -> name * A) (d : list (name * A)) :
  (forall kv, fst (h kv) = fst kv) -> keys (map h d) = keys d.
Proof.
  intro Hh. unfold keys. rewrite map_map. apply map_ext. exact Hh.
Qed.

Lemma cntk_strip m n k x :
  cntk (set_sur (set_rxn m (map (fun kv => (fst kv, strip_var_rxn n (snd kv))) (m_rxn m)))
                (map (fun kv => (fst kv, strip_var_sur n (snd kv))) (m_sur m))) k x = cntk m k x.
Proof.
  rewrite cntk_set_sur. destruct k; try reflexivity.
  - rewrite cntk_set_rxn. cbn [cntk]. rewrite keys_map_keep by reflexivity. reflexivity.
  - cbn [cntk]. rewrite keys_map_keep by reflexivity. rewrite outs_of_map_keep by reflexivity. reflexivity.
Qed.

Lemma cntk_add_stoich_for n m e k x : cntk (add_stoich_for n m e) k x = cntk m k x.
Proof.
  unfold add_stoich_for. destruct e as [rn q]. destruct (lookup rn (m_rxn m)) as [r|] eqn:El.
  - rewrite cntk_set_rxn. destruct k; try reflexivity. cbn [cntk].
    rewrite keys_dset_has by (apply (lookup_has _ _ _ El)). reflexivity.
  - rewrite cntk_set_sur. destruct k; try reflexivity. cbn [cntk].
    rewrite keys_map_keep, outs_of_map_keep; [reflexivity| |].
    + intros kv. destruct (lookup rn (s_st (snd kv))) as [[|c row]|]; reflexivity.
    + intros kv. destruct (lookup rn (s_st (snd kv))) as [[|c row]|]; reflexivity.
Qed.

Lemma cntk_fold_add_stoich n l : forall m k x, cntk (fold_left (add_stoich_for n) l m) k x = cntk m k x.
Proof.
  induction l as [|e l IH]; intros m k x; cbn [fold_left]; [reflexivity|].
  rewrite IH. apply cntk_add_stoich_for.
Qed.
