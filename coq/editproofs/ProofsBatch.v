(** The batch mutators (add_parameters, remove_parameters, update_parameters, scale_parameters,
    add_variables, remove_variables, update_variables) in both forms the extractor knows:
    plain fold (stops at the first rejected item, earlier items stay applied) and validate-first
    (a rejected batch changes nothing). *)
From Coq Require Import ZArith List Bool Lia.
From MxlBase Require Import ListX.
From Core Require Import Sort GenSortFacts FnLib Model Cache Query.
From Edit Require Import GenEditFacts ModelSM.
From EditP Require Import Defs ProofsDict ProofsIds ProofsReg ProofsFuel ProofsBody ProofsHist.
Import ListNotations.
Local Open Scope nat_scope.

(** ---- A. the fold ---------------------------------------------------------------------- *)

Lemma mutate_cases s mu :
  ids_ok s ->
  ids_ok (fst (mutate s mu)) /\
  (snd (mutate s mu) = Accepted \/
   exists e, snd (mutate s mu) = Rejected e /\ same_content s (fst (mutate s mu)) /\ e <> EFuel).
Proof.
  intro Hok. destruct (mutate_post s mu Hok) as [H1 [Ha|[e [He [Hs Hf]]]]].
  - split; [exact H1|left; exact Ha].
  - split; [exact H1|right]. exists e. repeat split; try assumption; try apply Hs. apply Hf. exact I.
Qed.

Lemma run_items_ok l : forall s,
  ids_ok s ->
  ids_ok (fst (run_items s l)) /\
  (snd (run_items s l) = Accepted \/ exists e, snd (run_items s l) = Rejected e /\ e <> EFuel).
Proof.
  induction l as [|mu r IH]; intros s Hok; cbn [run_items].
  - split; [exact Hok|left; reflexivity].
  - destruct (mutate_cases s mu Hok) as [H1 H2]. destruct (mutate s mu) as [s1 o]. cbn [fst snd] in *.
    destruct H2 as [->|[e [-> [_ He]]]].
    + apply IH. exact H1.
    + cbn [fst snd]. split; [exact H1|right; exists e; split; [reflexivity|exact He]].
Qed.

(** a fold that is rejected: the items before the rejected one were all accepted and stay applied,
    the rejected item itself changed nothing *)
Lemma run_items_rejected l : forall s s' e,
  ids_ok s -> run_items s l = (s', Rejected e) ->
  exists pre mu post sk,
    l = pre ++ mu :: post /\ run_items s pre = (sk, Accepted) /\ ids_ok sk /\
    snd (mutate sk mu) = Rejected e /\ same_content sk s'.
Proof.
  induction l as [|mu r IH]; intros s s' e Hok E; cbn [run_items] in E; [discriminate E|].
  destruct (mutate_cases s mu Hok) as [H1 H2]. destruct (mutate s mu) as [s1 o] eqn:Em. cbn [fst snd] in *.
  destruct H2 as [->|[e1 [-> [Hs _]]]].
  - destruct (IH s1 s' e H1 E) as [pre [mu' [post [sk [Hl [Hp [Hk [Hr Hsm]]]]]]]].
    exists (mu :: pre), mu', post, sk.
    split; [rewrite Hl; reflexivity|]. split; [cbn [run_items]; rewrite Em; exact Hp|].
    split; [exact Hk|]. split; [exact Hr|exact Hsm].
  - injection E as <- <-. exists [], mu, r, s.
    split; [reflexivity|]. split; [reflexivity|]. split; [exact Hok|]. split; [rewrite Em; reflexivity|exact Hs].
Qed.

Lemma run_items_app pre : forall s sk post,
  run_items s pre = (sk, Accepted) -> run_items s (pre ++ post) = run_items sk post.
Proof.
  induction pre as [|mu r IH]; intros s sk post E; cbn [run_items app] in *.
  - injection E as <-. reflexivity.
  - destruct (mutate s mu) as [s1 o]. destruct o; try discriminate E. apply IH. exact E.
Qed.

(** ---- B. dictionaries: lookups under dset, extensionality ------------------------------- *)

Lemma lookup_dset_eq {A} k (v : A) d : lookup k (dset k v d) = Some v.
Proof.
  induction d as [|[k' v'] d IH]; cbn [dset lookup].
  - rewrite N.eqb_refl. reflexivity.
  - destruct (N.eqb k k') eqn:E; cbn [lookup]; rewrite E; [reflexivity|exact IH].
Qed.

Lemma lookup_dset_ne {A} k k0 (v : A) d : k <> k0 -> lookup k (dset k0 v d) = lookup k d.
Proof.
  intro Hne. induction d as [|[k' v'] d IH]; cbn [dset lookup].
  - destruct (N.eqb_spec k k0); [congruence|reflexivity].
  - destruct (N.eqb_spec k0 k') as [->|Hn]; cbn [lookup].
    + destruct (N.eqb_spec k k'); [congruence|reflexivity].
    + destruct (N.eqb k k'); [reflexivity|exact IH].
Qed.

Lemma has_dset_keep {A} k k0 (v : A) d : has k d = true -> has k (dset k0 v d) = true.
Proof.
  unfold has. destruct (N.eq_dec k k0) as [->|Hne].
  - rewrite lookup_dset_eq. reflexivity.
  - rewrite lookup_dset_ne by exact Hne. auto.
Qed.

Lemma has_del_ne {A} k n (d : list (name * A)) : k <> n -> has k (del n d) = has k d.
Proof.
  intro Hne. unfold has. induction d as [|[k' v'] d IH]; cbn [del lookup]; [reflexivity|].
  destruct (N.eqb_spec n k') as [->|Hn].
  - destruct (N.eqb_spec k k'); [congruence|reflexivity].
  - cbn [lookup]. destruct (N.eqb k k'); [reflexivity|exact IH].
Qed.

Lemma lookup_notin {A} k (d : list (name * A)) : ~ In k (keys d) -> lookup k d = None.
Proof.
  intro H. apply has_false in H. unfold has in H. destruct (lookup k d); [discriminate|reflexivity].
Qed.

Lemma dict_ext {A} (a : list (name * A)) : forall b,
  NoDup (keys a) -> keys a = keys b -> (forall k, lookup k a = lookup k b) -> a = b.
Proof.
  induction a as [|[k v] a IH]; intros [|[k' v'] b] Hnd Hk Hl; cbn [keys map fst] in Hk; try discriminate Hk; [reflexivity|].
  injection Hk as Hk1 Hk2. subst k'. inversion Hnd as [|? ? Hni Hnd']; subst.
  assert (Hv : v = v').
  { specialize (Hl k). cbn [lookup] in Hl. rewrite N.eqb_refl in Hl. congruence. }
  subst v'. f_equal. apply IH; [exact Hnd'|exact Hk2|].
  intro x. destruct (N.eq_dec x k) as [->|Hne].
  - rewrite (lookup_notin k a Hni). fold (keys a) in Hk2. symmetry. apply lookup_notin.
    fold (keys b) in Hk2. rewrite <- Hk2. exact Hni.
  - specialize (Hl x). cbn [lookup] in Hl. destruct (N.eqb_spec x k); [congruence|exact Hl].
Qed.

Lemma NoDup_keys_dset {A} k (v : A) d : NoDup (keys d) -> NoDup (keys (dset k v d)).
Proof.
  intro H. destruct (has k d) eqn:E.
  - rewrite keys_dset_has by exact E. exact H.
  - rewrite keys_dset_fresh by exact E. apply has_false in E.
    apply NoDup_rev in H. rewrite <- (rev_involutive (keys d ++ [k])). apply NoDup_rev.
    rewrite rev_app_distr. cbn [rev app]. constructor; [|exact H]. rewrite <- in_rev. exact E.
Qed.

Lemma NoDup_keys_mkdict {A} (l : list (name * A)) : NoDup (keys (mkdict l)).
Proof.
  unfold mkdict. assert (H : forall d, NoDup (keys d) ->
    NoDup (keys (fold_left (fun d kv => dset (fst kv) (snd kv) d) l d))).
  { induction l as [|kv l IH]; intros d Hd; cbn [fold_left]; [exact Hd|]. apply IH. apply NoDup_keys_dset. exact Hd. }
  apply H. constructor.
Qed.

(** ---- C. scale_parameters only rewrites parameter values; putting them back --------------- *)

(** [m'] differs from [m] at most in the values of the parameters named in [K] *)
Definition par_rel (K : list name) (m m' : model) : Prop :=
  m' = set_par m (m_par m') /\ keys (m_par m') = keys (m_par m) /\
  forall k, ~ In k K -> lookup k (m_par m') = lookup k (m_par m).

Lemma set_par_self m : set_par m (m_par m) = m.
Proof. destruct m; reflexivity. Qed.

Lemma par_rel_refl K m : par_rel K m m.
Proof. split; [symmetry; apply set_par_self|split; [reflexivity|auto]]. Qed.

Lemma par_rel_incl K K' m m' : incl K K' -> par_rel K m m' -> par_rel K' m m'.
Proof. intros Hi [A [B C]]. split; [exact A|split; [exact B|]]. intros k Hk. apply C. intro H. apply Hk. apply Hi. exact H. Qed.

Lemma par_rel_trans K m1 m2 m3 : par_rel K m1 m2 -> par_rel K m2 m3 -> par_rel K m1 m3.
Proof.
  intros [A [B C]] [A' [B' C']]. split; [|split].
  - rewrite A', A. reflexivity.
  - congruence.
  - intros k Hk. rewrite C' by exact Hk. apply C. exact Hk.
Qed.

Lemma par_rel_dset n v m : has n (m_par m) = true -> par_rel [n] m (set_par m (dset n v (m_par m))).
Proof.
  intro H. split; [reflexivity|split].
  - cbn [set_par m_par]. apply keys_dset_has. exact H.
  - intros k Hk. cbn [set_par m_par]. apply lookup_dset_ne. intros ->. apply Hk. left. reflexivity.
Qed.

Lemma body_update_par f s n v s1 o :
  body (S f) s (UpdatePar n (Some v)) = (s1, o) ->
  s_ids s1 = s_ids s /\ par_rel [n] (s_m s) (s_m s1).
Proof.
  cbn [body]. destruct (negb (has n (m_par (s_m s)))) eqn:E; intro H; injection H as <- <-.
  - split; [reflexivity|apply par_rel_refl].
  - split; [reflexivity|]. cbn [with_model s_m]. apply par_rel_dset. apply negb_has_true. exact E.
Qed.

Lemma mutate_scale s n q s1 o :
  mutate s (ScalePar n q) = (s1, o) -> s_ids s1 = s_ids s /\ par_rel [n] (s_m s) (s_m s1).
Proof.
  unfold mutate. cbn [method_of].
  set (s0 := if invalidates M_scale_parameter then mkSt (s_ids s) (s_m s) None else s).
  assert (H0 : s_ids s0 = s_ids s /\ s_m s0 = s_m s) by (subst s0; destruct (invalidates _); split; reflexivity).
  destruct H0 as [Hi Hm]. rewrite <- Hi, <- Hm. clearbody s0. clear Hi Hm s.
  cbn [body]. cbn [method_of].
  destruct (lookup n (m_par (s_m s0))) as [[old|fn a]|].
  - intro E.
    assert (E' : body 3 (if invalidates M_update_parameter then mkSt (s_ids s0) (s_m s0) None else s0)
                      (UpdatePar n (Some (Plain (old * q)%Z))) = (s1, o)) by exact E.
    apply body_update_par in E'. destruct (invalidates M_update_parameter); exact E'.
  - destruct (ensure_cache s0) as [rc s2] eqn:Ee. destruct (ensure_cache_same _ _ _ Ee) as [[Hi Hm] _].
    destruct rc as [c|e].
    + destruct (lookup n (c_all_par c)) as [old|].
      * intro E.
        assert (E' : body 3 (if invalidates M_update_parameter then mkSt (s_ids s2) (s_m s2) None else s2)
                          (UpdatePar n (Some (Plain (old * q)%Z))) = (s1, o)) by exact E.
        apply body_update_par in E'. rewrite <- Hi, <- Hm. destruct (invalidates M_update_parameter); exact E'.
      * intro E. injection E as <- <-. rewrite Hi, Hm. split; [reflexivity|apply par_rel_refl].
    + intro E. injection E as <- <-. rewrite Hi, Hm. split; [reflexivity|apply par_rel_refl].
  - intro E. injection E as <- <-. split; [reflexivity|apply par_rel_refl].
Qed.

Lemma run_scales l : forall s s1 o,
  run_items s (map (fun kv : name * Z => ScalePar (fst kv) (snd kv)) l) = (s1, o) ->
  s_ids s1 = s_ids s /\ par_rel (keys l) (s_m s) (s_m s1).
Proof.
  induction l as [|[n q] l IH]; intros s s1 o E; cbn [map run_items fst snd] in E.
  - injection E as <- <-. split; [reflexivity|apply par_rel_refl].
  - destruct (mutate s (ScalePar n q)) as [s2 o2] eqn:Em. apply mutate_scale in Em. destruct Em as [Hi Hr].
    assert (Hr' : par_rel (keys ((n, q) :: l)) (s_m s) (s_m s2)).
    { apply (par_rel_incl [n]); [|exact Hr]. intros x [<-|[]]. left. reflexivity. }
    destruct o2.
    + apply IH in E. destruct E as [Hi2 Hr2]. split; [congruence|].
      apply (par_rel_trans _ _ (s_m s2)); [exact Hr'|].
      apply (par_rel_incl (keys l)); [|exact Hr2]. intros x Hx. right. exact Hx.
    + injection E as <- <-. split; assumption.
    + injection E as <- <-. split; assumption.
Qed.

Lemma restore_pars_fold prev : forall m,
  restore_pars prev m = set_par m (fold_left (fun p kv => dset (fst kv) (snd kv) p) prev (m_par m)).
Proof.
  unfold restore_pars. induction prev as [|kv prev IH]; intro m; cbn [fold_left].
  - symmetry. apply set_par_self.
  - rewrite IH. destruct m; reflexivity.
Qed.

Lemma fold_dset_keys {A} (prev : list (name * A)) : forall p,
  (forall k, In k (keys prev) -> has k p = true) ->
  keys (fold_left (fun p kv => dset (fst kv) (snd kv) p) prev p) = keys p.
Proof.
  induction prev as [|[k v] prev IH]; intros p H; cbn [fold_left fst snd]; [reflexivity|].
  rewrite IH.
  - apply keys_dset_has. apply H. left. reflexivity.
  - intros k' Hk'. apply has_dset_keep. apply H. right. exact Hk'.
Qed.

Lemma fold_dset_lookup {A} (p0 : list (name * A)) (prev : list (name * A)) : forall p,
  (forall k v, In (k, v) prev -> lookup k p0 = Some v) ->
  (forall k, In k (keys prev) \/ lookup k p = lookup k p0) ->
  forall k, lookup k (fold_left (fun p kv => dset (fst kv) (snd kv) p) prev p) = lookup k p0.
Proof.
  induction prev as [|[k0 v0] prev IH]; intros p Hc Ho k; cbn [fold_left fst snd].
  - destruct (Ho k) as [[]|H]. exact H.
  - apply IH.
    + intros k' v' Hin. apply Hc. right. exact Hin.
    + intro k'. destruct (N.eq_dec k' k0) as [->|Hne].
      * right. rewrite lookup_dset_eq. symmetry. apply Hc. left. reflexivity.
      * destruct (Ho k') as [[E|Hin]|H].
        -- cbn [fst] in E. congruence.
        -- left. exact Hin.
        -- right. rewrite lookup_dset_ne by exact Hne. exact H.
Qed.

Lemma prev_values_In K m k v : In (k, v) (prev_values K m) -> lookup k (m_par m) = Some v.
Proof.
  unfold prev_values. rewrite in_flat_map. intros [n [_ H]].
  destruct (lookup n (m_par m)) as [v'|] eqn:E; [|destruct H]. destruct H as [H|[]]. injection H as <- <-. exact E.
Qed.

Lemma prev_values_keys K m k :
  In k (keys (prev_values K m)) <-> In k K /\ has k (m_par m) = true.
Proof.
  unfold prev_values, keys. rewrite in_map_iff. split.
  - intros [[k' v] [Hk Hin]]. cbn [fst] in Hk. subst k'. apply in_flat_map in Hin. destruct Hin as [n [Hn H]].
    destruct (lookup n (m_par m)) as [v'|] eqn:E; [|destruct H]. destruct H as [H|[]]. injection H as -> <-.
    split; [exact Hn|]. apply (lookup_has _ _ _ E).
  - intros [Hk Hh]. unfold has in Hh. destruct (lookup k (m_par m)) as [v|] eqn:E; [|discriminate].
    exists (k, v). split; [reflexivity|]. apply in_flat_map. exists k. split; [exact Hk|]. rewrite E. left. reflexivity.
Qed.

(** the roll-back restores exactly the content before the batch *)
Lemma restore_correct K m m' :
  NoDup (keys (m_par m)) -> (forall k, In k K -> has k (m_par m) = true) ->
  par_rel K m m' -> restore_pars (prev_values K m) m' = m.
Proof.
  intros Hnd Hall [A [B C]]. rewrite restore_pars_fold.
  set (X := fold_left (fun p kv => dset (fst kv) (snd kv) p) (prev_values K m) (m_par m')).
  assert (HX : X = m_par m); [|rewrite HX, A; destruct m; reflexivity].
  subst X. symmetry. apply dict_ext.
  - exact Hnd.
  - rewrite fold_dset_keys; [symmetry; exact B|].
    intros k Hk. apply prev_values_keys in Hk. destruct Hk as [_ Hh].
    apply has_In. rewrite B. apply has_In. exact Hh.
  - intro k. symmetry. apply fold_dset_lookup.
    + intros k' v. apply prev_values_In.
    + intro k'. destruct (in_dec N.eq_dec k' K) as [Hin|Hni].
      * left. apply prev_values_keys. split; [exact Hin|apply Hall; exact Hin].
      * right. apply C. exact Hni.
Qed.

(** ---- D. after a successful validation every item is accepted ----------------------------- *)

Section Accept.
  Variable X : Type.
  Variable mk : X -> mutator.
  Variable nm : X -> name.
  Variable R : st -> name -> Prop.
  Hypothesis step_R : forall s x, ids_ok s -> R s (nm x) ->
    exists s1, mutate s (mk x) = (s1, Accepted) /\ forall n', n' <> nm x -> R s n' -> R s1 n'.

  Lemma all_accepted l : forall s,
    ids_ok s -> NoDup (map nm l) -> (forall x, In x l -> R s (nm x)) ->
    exists s', run_items s (map mk l) = (s', Accepted).
  Proof.
    induction l as [|x l IH]; intros s Hok Hnd HR; cbn [map run_items].
    - exists s. reflexivity.
    - destruct (step_R s x Hok (HR x (or_introl eq_refl))) as [s1 [Em Hpres]].
      rewrite Em. inversion Hnd as [|? ? Hni Hnd']; subst. apply IH.
      + pose proof (mutate_cases s (mk x) Hok) as [H1 _]. rewrite Em in H1. exact H1.
      + exact Hnd'.
      + intros y Hy. apply Hpres; [|apply HR; right; exact Hy].
        intros E. apply Hni. rewrite <- E. apply in_map. exact Hy.
  Qed.
End Accept.

Definition free_name (s : st) (n : name) : Prop := n <> time_name /\ has n (s_ids s) = false.

Lemma free_after_add s n K ids n' :
  free_name s n' -> n' <> n -> ids = s_ids s ++ [(n, K)] -> n' <> time_name /\ has n' ids = false.
Proof.
  intros [Ht Hf] Hne ->. split; [exact Ht|]. apply has_false. rewrite keys_app. intro Hin.
  apply in_app_or in Hin. destruct Hin as [Hin|[E|[]]].
  - apply has_false in Hf. exact (Hf Hin).
  - cbn [fst] in E. congruence.
Qed.

Lemma step_add_par s (x : name * valia) :
  ids_ok s -> free_name s (fst x) ->
  exists s1, mutate s (AddPar (fst x) (snd x)) = (s1, Accepted) /\
             forall n', n' <> fst x -> free_name s n' -> free_name s1 n'.
Proof.
  intros _ [Ht Hf]. unfold mutate. cbn [method_of].
  destruct (invalidates M_add_parameter); cbn [body]; unfold body_add; cbn [s_ids s_m s_cache];
    rewrite (ins_id_ok _ KPar _ Ht Hf); eexists; (split; [reflexivity|]);
    intros n' Hne Hfr; apply (free_after_add s (fst x) KPar _ n' Hfr Hne); reflexivity.
Qed.

Lemma step_add_var s (x : name * valia) :
  ids_ok s -> free_name s (fst x) ->
  exists s1, mutate s (AddVar (fst x) (snd x)) = (s1, Accepted) /\
             forall n', n' <> fst x -> free_name s n' -> free_name s1 n'.
Proof.
  intros _ [Ht Hf]. unfold mutate. cbn [method_of].
  destruct (invalidates M_add_variable); cbn [body]; unfold body_add; cbn [s_ids s_m s_cache];
    rewrite (ins_id_ok _ KVar _ Ht Hf); eexists; (split; [reflexivity|]);
    intros n' Hne Hfr; apply (free_after_add s (fst x) KVar _ n' Hfr Hne); reflexivity.
Qed.

Lemma registered s n K :
  ids_ok s -> In (n, K) (registry (s_m s)) -> has n (s_ids s) = true.
Proof.
  intros Hok Hin. apply has_In. apply (In_keys n K). apply (ids_registry s Hok). exact Hin.
Qed.

Lemma par_registered s n : ids_ok s -> has n (m_par (s_m s)) = true -> has n (s_ids s) = true.
Proof.
  intros Hok Hh. apply (registered s n KPar Hok). unfold registry. apply in_or_app. left.
  apply In_tag. split; [reflexivity|]. apply has_In. exact Hh.
Qed.

Lemma var_registered s n : ids_ok s -> has n (m_var (s_m s)) = true -> has n (s_ids s) = true.
Proof.
  intros Hok Hh. apply (registered s n KVar Hok). unfold registry. apply in_or_app. right. apply in_or_app. left.
  apply In_tag. split; [reflexivity|]. apply has_In. exact Hh.
Qed.

Definition known_par (s : st) (n : name) : Prop := has n (m_par (s_m s)) = true.
Definition known_var (s : st) (n : name) : Prop := has n (m_var (s_m s)) = true.

Lemma step_remove_par s (n : name) :
  ids_ok s -> known_par s n ->
  exists s1, mutate s (RemovePar n) = (s1, Accepted) /\ forall n', n' <> n -> known_par s n' -> known_par s1 n'.
Proof.
  intros Hok Hh. pose proof (par_registered s n Hok Hh) as Hi. unfold known_par in *. unfold mutate. cbn [method_of].
  destruct (invalidates M_remove_parameter); cbn [body]; unfold body_remove, rem_id; cbn [s_ids s_m s_cache];
    rewrite Hh, Hi; cbn [negb]; eexists; (split; [reflexivity|]);
    intros n' Hne Hk; cbn [s_m set_par m_par]; rewrite has_del_ne by exact Hne; exact Hk.
Qed.

Lemma step_update_par s (x : name * valia) :
  ids_ok s -> known_par s (fst x) ->
  exists s1, mutate s (UpdatePar (fst x) (Some (snd x))) = (s1, Accepted) /\
             forall n', n' <> fst x -> known_par s n' -> known_par s1 n'.
Proof.
  intros _ Hh. unfold known_par in *. unfold mutate. cbn [method_of].
  destruct (invalidates M_update_parameter); cbn [body]; cbn [s_ids s_m s_cache];
    rewrite Hh; cbn [negb]; eexists; (split; [reflexivity|]);
    intros n' _ Hk; cbn [with_model s_m set_par m_par]; apply has_dset_keep; exact Hk.
Qed.

Lemma step_remove_var rs s (n : name) :
  ids_ok s -> known_var s n ->
  exists s1, mutate s (RemoveVar n rs) = (s1, Accepted) /\ forall n', n' <> n -> known_var s n' -> known_var s1 n'.
Proof.
  intros Hok Hh. pose proof (var_registered s n Hok Hh) as Hi. unfold known_var in *. unfold mutate. cbn [method_of].
  destruct (invalidates M_remove_variable); cbn [body]; unfold rem_id; cbn [s_ids s_m s_cache];
    rewrite Hh, Hi; cbn [negb]; eexists; (split; [reflexivity|]);
    intros n' Hne Hk; destruct rs; cbn [s_m set_var set_sur set_rxn m_var]; rewrite has_del_ne by exact Hne; exact Hk.
Qed.

Lemma step_update_var s (x : name * valia) :
  ids_ok s -> known_var s (fst x) ->
  exists s1, mutate s (UpdateVar (fst x) (snd x)) = (s1, Accepted) /\
             forall n', n' <> fst x -> known_var s n' -> known_var s1 n'.
Proof.
  intros _ Hh. unfold known_var in *. unfold mutate. cbn [method_of].
  destruct (invalidates M_update_variable); cbn [body]; cbn [s_ids s_m s_cache];
    rewrite Hh; cbn [negb]; eexists; (split; [reflexivity|]);
    intros n' _ Hk; cbn [with_model s_m set_var m_var]; apply has_dset_keep; exact Hk.
Qed.

(** what a passed validation establishes *)
Lemma check_new_ids_None ns ids :
  check_new_ids ns ids = None -> forall n, In n ns -> n <> time_name /\ has n ids = false.
Proof.
  induction ns as [|a ns IH]; cbn [check_new_ids]; intros H n Hin; [destruct Hin|].
  destruct (N.eqb_spec a time_name) as [|Hne]; [discriminate H|].
  destruct (has a ids) eqn:Eh; [discriminate H|].
  destruct Hin as [<-|Hin]; [split; assumption|apply IH; assumption].
Qed.

Lemma check_new_ids_Some ns ids e : check_new_ids ns ids = Some e -> e = EKey \/ e = EName.
Proof.
  induction ns as [|a ns IH]; cbn [check_new_ids]; [discriminate|].
  destruct (N.eqb a time_name); [intro H; injection H as <-; left; reflexivity|].
  destruct (has a ids); [intro H; injection H as <-; right; reflexivity|exact IH].
Qed.

Lemma check_known_None {A} ns (d : list (name * A)) u : forall seen,
  check_known ns d u seen = None ->
  (forall n, In n ns -> has n d = true) /\
  (u = true -> NoDup ns /\ forall n, In n ns -> ~ In n seen).
Proof.
  induction ns as [|a ns IH]; intros seen; cbn [check_known].
  - intros _. split; [intros n []|]. intros _. split; [constructor|intros n []].
  - destruct (negb (has a d) || (u && memN a seen)) eqn:E; [discriminate|].
    apply orb_false_elim in E. destruct E as [E1 E2]. apply negb_false_iff in E1.
    intro H. destruct (IH (a :: seen) H) as [H1 H2]. split.
    + intros n [<-|Hin]; [exact E1|apply H1; exact Hin].
    + intros ->. destruct (H2 eq_refl) as [Hnd Hns]. cbn [andb] in E2. apply memN_false in E2. split.
      * constructor; [|exact Hnd]. intro Hin. apply (Hns a Hin). left. reflexivity.
      * intros n [<-|Hin]; [exact E2|]. intro Hs. apply (Hns n Hin). right. exact Hs.
Qed.

Lemma check_known_Some {A} ns (d : list (name * A)) u : forall seen e, check_known ns d u seen = Some e -> e = EKey.
Proof.
  induction ns as [|a ns IH]; intros seen e; cbn [check_known]; [discriminate|].
  destruct (negb (has a d) || (u && memN a seen)); [intro H; injection H as <-; reflexivity|apply IH].
Qed.

Lemma validate_err s b e : validate s b = Some e -> e = EKey \/ e = EName.
Proof.
  destruct b; cbn [validate]; intro H;
    try (apply check_new_ids_Some in H; exact H); apply check_known_Some in H; left; exact H.
Qed.

Lemma validated_accepts s b :
  ids_ok s -> (forall l, b <> ScalePars l) -> validate s b = None ->
  exists s', run_items s (items b) = (s', Accepted).
Proof.
  intros Hok Hns Hv. destruct b; cbn [validate items] in *.
  - apply (all_accepted _ (fun kv => AddPar (fst kv) (snd kv)) fst free_name step_add_par); [exact Hok|apply NoDup_keys_mkdict|].
    intros x Hx. apply (check_new_ids_None _ _ Hv). apply in_map. exact Hx.
  - destruct (check_known_None _ _ _ _ Hv) as [H1 H2]. destruct (H2 eq_refl) as [Hnd _].
    apply (all_accepted _ RemovePar (fun n => n) known_par step_remove_par); [exact Hok|rewrite map_id; exact Hnd|].
    intros x Hx. apply H1. exact Hx.
  - destruct (check_known_None _ _ _ _ Hv) as [H1 _].
    apply (all_accepted _ (fun kv => UpdatePar (fst kv) (Some (snd kv))) fst known_par step_update_par);
      [exact Hok|apply NoDup_keys_mkdict|].
    intros x Hx. apply H1. apply in_map. exact Hx.
  - exfalso. apply (Hns l). reflexivity.
  - apply (all_accepted _ (fun kv => AddVar (fst kv) (snd kv)) fst free_name step_add_var); [exact Hok|apply NoDup_keys_mkdict|].
    intros x Hx. apply (check_new_ids_None _ _ Hv). apply in_map. exact Hx.
  - destruct (check_known_None _ _ _ _ Hv) as [H1 H2]. destruct (H2 eq_refl) as [Hnd _].
    apply (all_accepted _ (fun n => RemoveVar n remove_stoich) (fun n => n) known_var (step_remove_var remove_stoich));
      [exact Hok|rewrite map_id; exact Hnd|].
    intros x Hx. apply H1. exact Hx.
  - destruct (check_known_None _ _ _ _ Hv) as [H1 _].
    apply (all_accepted _ (fun kv => UpdateVar (fst kv) (snd kv)) fst known_var step_update_var);
      [exact Hok|apply NoDup_keys_mkdict|].
    intros x Hx. apply H1. apply in_map. exact Hx.
Qed.

(** ---- E. the batch methods -------------------------------------------------------------- *)

Lemma NoDup_app_l {A} (a b : list A) : NoDup (a ++ b) -> NoDup a.
Proof.
  induction a as [|x a IH]; cbn [app]; intro H; [constructor|]. inversion H as [|? ? Hni Hnd]; subst.
  constructor; [|apply IH; exact Hnd]. intro Hin. apply Hni. apply in_or_app. left. exact Hin.
Qed.

Lemma NoDup_par_keys s : ids_ok s -> NoDup (keys (m_par (s_m s))).
Proof.
  intro Hok. pose proof (reg_nodup s Hok) as H. unfold registry in H. rewrite keys_app, keys_tag in H.
  apply NoDup_app_l in H. exact H.
Qed.

Lemma scale_rollback s l s1 o :
  ids_ok s -> validate s (ScalePars l) = None -> run_items s (items (ScalePars l)) = (s1, o) ->
  same_content s (mkSt (s_ids s1) (restore_pars (prev_values (keys (mkdict l)) (s_m s)) (s_m s1)) None).
Proof.
  intros Hok Hv E. cbn [validate items] in *. destruct (check_known_None _ _ _ _ Hv) as [H1 _].
  apply run_scales in E. destruct E as [Hi Hr]. split; cbn [s_ids s_m]; [exact Hi|].
  apply restore_correct; [apply NoDup_par_keys; exact Hok|exact H1|exact Hr].
Qed.

Lemma batch_with_ok mode s b :
  ids_ok s ->
  ids_ok (fst (batch_with mode s b)) /\
  (snd (batch_with mode s b) = Accepted \/
   exists e, snd (batch_with mode s b) = Rejected e /\ e <> EFuel).
Proof.
  intro Hok. destruct mode; cbn [batch_with]; try (apply run_items_ok; exact Hok).
  destruct (validate s b) as [e|] eqn:Hv.
  - cbn [fst snd]. split; [exact Hok|right]. exists e. split; [reflexivity|].
    destruct (validate_err _ _ _ Hv) as [-> | ->]; discriminate.
  - destruct b; try (apply run_items_ok; exact Hok).
    pose proof (run_items_ok (items (ScalePars l)) s Hok) as [H1 H2].
    destruct (run_items s (items (ScalePars l))) as [s1 o] eqn:E. cbn [fst snd] in *.
    pose proof (scale_rollback s l s1 o Hok Hv E) as Hs.
    destruct H2 as [->|[e [-> He]]]; cbn [fst snd].
    + split; [exact H1|left; reflexivity].
    + split; [apply (ids_ok_same s); assumption|right; exists e; split; [reflexivity|exact He]].
Qed.

(** the repaired form: a rejected batch changes nothing *)
Lemma batch_validated_atomic s b s' e :
  ids_ok s -> batch_with BatchValidated s b = (s', Rejected e) -> same_content s s'.
Proof.
  intros Hok. cbn [batch_with]. destruct (validate s b) as [e0|] eqn:Hv.
  - intro H. injection H as <- _. apply same_refl.
  - assert (Hgen : (forall l, b <> ScalePars l) -> run_items s (items b) = (s', Rejected e) -> same_content s s').
    { intros Hns E. destruct (validated_accepts s b Hok Hns Hv) as [s2 E2]. rewrite E2 in E. discriminate E. }
    destruct b; try (apply Hgen; intros l0 Hl; discriminate Hl).
    destruct (run_items s (items (ScalePars l))) as [s1 o] eqn:E.
    pose proof (scale_rollback s l s1 o Hok Hv E) as Hs.
    destruct o; intro H; [discriminate H|injection H as <- _; exact Hs|discriminate H].
Qed.

(** the repaired form accepts exactly like the fold: it only refuses earlier *)
Lemma batch_validated_accepted_as_fold s b s' :
  batch_with BatchValidated s b = (s', Accepted) -> batch_with BatchFold s b = (s', Accepted).
Proof.
  cbn [batch_with]. destruct (validate s b); [discriminate|].
  destruct b; try (intro H; exact H).
  destruct (run_items s (items (ScalePars l))) as [s1 o]. destruct o; intro H; try discriminate H. exact H.
Qed.

(** the fold form: rejected at item k, items 1..k-1 stay applied *)
Lemma batch_fold_rejected s b s' e :
  ids_ok s -> batch_with BatchFold s b = (s', Rejected e) ->
  exists pre mu post sk,
    items b = pre ++ mu :: post /\ run_items s pre = (sk, Accepted) /\ ids_ok sk /\
    snd (mutate sk mu) = Rejected e /\ same_content sk s'.
Proof. intros Hok E. cbn [batch_with] in E. apply run_items_rejected; assumption. Qed.
