(** [create_cache] never reports [EFuel]: the only source is the sorter's fuel, proved unreachable
    in Core.SortProofs; every other stage raises EKey / EType / EValue / EMissing / ECircular. *)
From Coq Require Import ZArith List Bool.
From MxlBase Require Import ListX.
From Core Require Import Sort SortProofs GenSortFacts Model Cache.
Import ListNotations.

Definition nofuel {A} (r : res A) : Prop := r <> Err EFuel.

Lemma nofuel_val {A} (a : A) : nofuel (Val a).
Proof. discriminate. Qed.

Lemma nofuel_bind {A B} (r : res A) (f : A -> res B) :
  nofuel r -> (forall a, nofuel (f a)) -> nofuel (bind r f).
Proof. intros Hr Hf. destruct r as [a|e]; cbn [bind]; [apply Hf|]. intro H. apply Hr. injection H as ->. reflexivity. Qed.

Lemma sort_res_nofuel F avail els : nofuel (sort_res F avail els).
Proof.
  unfold sort_res, nofuel. destruct (sort F avail els) eqn:E; try discriminate.
  exfalso. exact (sort_never_out_of_fuel F avail els E).
Qed.

Lemma split_order_nofuel m order : forall allpar, nofuel (split_order m order allpar).
Proof.
  induction order as [|nm rest IH]; intro allpar; cbn [split_order]; [discriminate|].
  destruct (has nm (m_rxn m) || has nm (m_sur m)).
  { apply nofuel_bind; [apply IH|]. intros [[s d] a]. discriminate. }
  destruct (has nm (m_var m) || has nm (m_par m)).
  { apply nofuel_bind; [apply IH|]. intros [[s d] a]. discriminate. }
  destruct (lookup nm (m_der m)) as [der|]; [|discriminate].
  destruct (forallb _ _); (apply nofuel_bind; [apply IH|]); intros [[s d] a]; discriminate.
Qed.

Section WithFns.
  Variable fsem : fnid -> list Z -> option Z.
  Variable fsemN : fnid -> list Z -> option (list Z).

  Lemma calc_nofuel f args e : nofuel (calc fsem f args e).
  Proof. unfold calc. destruct (lookups args e); [destruct (fsem f l)|]; discriminate. Qed.

  Lemma eval_comp_nofuel nm c e : nofuel (eval_comp fsem fsemN nm c e).
  Proof.
    destruct c as [f args|f args outs]; cbn [eval_comp].
    - apply nofuel_bind; [apply calc_nofuel|]. intro. discriminate.
    - destruct (lookups args e); [|discriminate]. destruct (fsemN f l); [|discriminate].
      destruct (Nat.eqb _ _); discriminate.
  Qed.

  Lemma eval_order_nofuel table order : forall e, nofuel (eval_order fsem fsemN table order e).
  Proof.
    induction order as [|nm rest IH]; intro e; cbn [eval_order]; [discriminate|].
    destruct (lookup nm table); [|discriminate].
    apply nofuel_bind; [apply eval_comp_nofuel|]. intro. apply IH.
  Qed.

  Lemma add_stoich_entry_nofuel allpar dep rxn t en : nofuel (add_stoich_entry fsem allpar dep rxn t en).
  Proof.
    unfold add_stoich_entry. destruct t as [st dy]. destruct (snd en) as [q|f args]; [discriminate|].
    destruct (forallb _ _); [|discriminate].
    apply nofuel_bind; [apply calc_nofuel|]. intro. discriminate.
  Qed.

  Lemma add_stoich_entries_nofuel allpar dep rxn entries :
    forall t, nofuel (add_stoich_entries fsem allpar dep rxn t entries).
  Proof.
    induction entries as [|en rest IH]; intro t; cbn [add_stoich_entries]; [discriminate|].
    apply nofuel_bind; [apply add_stoich_entry_nofuel|]. intro. apply IH.
  Qed.

  Lemma add_rxn_list_nofuel allpar dep rs : forall t, nofuel (add_rxn_list fsem allpar dep t rs).
  Proof.
    induction rs as [|[rn entries] rest IH]; intro t; cbn [add_rxn_list]; [discriminate|].
    apply nofuel_bind; [apply add_stoich_entries_nofuel|]. intro. apply IH.
  Qed.

  Lemma fill_all_par_nofuel m dep so : forall acc, nofuel (fill_all_par m dep so acc).
  Proof.
    induction so as [|nm rest IH]; intro acc; cbn [fill_all_par]; [discriminate|].
    destruct (has nm (m_var m)); [apply IH|].
    destruct (has nm (m_par m) || has nm (m_der m)); [|discriminate].
    destruct (lookup nm dep); [apply IH|discriminate].
  Qed.

  Lemma init_conditions_nofuel vars dep : nofuel (init_conditions vars dep).
  Proof.
    induction vars as [|k rest IH]; cbn [init_conditions]; [discriminate|].
    destruct (lookup k dep); [|discriminate]. apply nofuel_bind; [exact IH|]. intro. discriminate.
  Qed.

  Lemma create_cache_nofuel F m : nofuel (create_cache fsem fsemN F m).
  Proof.
    unfold create_cache.
    apply nofuel_bind; [apply sort_res_nofuel|]. intro order.
    apply nofuel_bind; [apply eval_order_nofuel|]. intro dep.
    apply nofuel_bind; [apply split_order_nofuel|]. intros [[so dyo] ap].
    apply nofuel_bind; [apply add_rxn_list_nofuel|]. intros [st dy].
    apply nofuel_bind; [apply init_conditions_nofuel|]. intro init.
    apply nofuel_bind; [apply fill_all_par_nofuel|]. intro allp. discriminate.
  Qed.
End WithFns.
