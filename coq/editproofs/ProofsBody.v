(** What one method body does to the id registry: [post].
    Entered with [ids_ok s], every body ends in a state with [ids_ok]; when it is rejected the
    registry and the content are those of the entry state; the error is never [EFuel] when the
    fuel covers the nesting depth of the method. *)
From Coq Require Import ZArith List Bool Lia.
From MxlBase Require Import ListX.
From Core Require Import Sort GenSortFacts FnLib Model Cache Query.
From Edit Require Import GenEditFacts ModelSM.
From EditP Require Import Defs ProofsDict ProofsIds ProofsReg ProofsFuel.
Import ListNotations.
Local Open Scope nat_scope.

Definition same_content (s s' : st) : Prop := s_ids s' = s_ids s /\ s_m s' = s_m s.

Definition post (P : Prop) (s : st) (r : st * outcome) : Prop :=
  ids_ok (fst r) /\
  (snd r = Accepted \/
   exists e, snd r = Rejected e /\ same_content s (fst r) /\ (P -> e <> EFuel)).

Lemma same_refl s : same_content s s.
Proof. split; reflexivity. Qed.

Lemma same_trans s1 s2 s3 : same_content s1 s2 -> same_content s2 s3 -> same_content s1 s3.
Proof. intros [A B] [C D]. split; congruence. Qed.

Lemma ids_ok_same s s' : same_content s s' -> ids_ok s -> ids_ok s'.
Proof. intros [A B]. apply ids_ok_content; assumption. Qed.

Lemma post_acc P s s' : ids_ok s' -> post P s (s', Accepted).
Proof. intro H. split; [exact H|left; reflexivity]. Qed.

Lemma post_rej P s e : ids_ok s -> e <> EFuel -> post P s (s, Rejected e).
Proof.
  intros H He. split; [exact H|]. right. exists e. split; [reflexivity|].
  split; [apply same_refl|]. intros _. exact He.
Qed.

Lemma post_from (P P' : Prop) s s0 r : same_content s s0 -> (P' -> P) -> post P s0 r -> post P' s r.
Proof.
  intros Hs HP [Hok [Ha|[e [He [Hsame Hf]]]]]; split; auto. right. exists e. split; [exact He|].
  split; [exact (same_trans _ _ _ Hs Hsame)|]. intro HP'. apply Hf. apply HP. exact HP'.
Qed.

Lemma mk_ok ids m c : inv ids (cntk m) -> ids_ok (mkSt ids m c).
Proof. intro H. apply ids_ok_inv. exact H. Qed.

Lemma dec_same (b : bool) s : same_content s (if b then mkSt (s_ids s) (s_m s) None else s).
Proof. destruct b; split; reflexivity. Qed.

(** ---- the uniform bodies ---------------------------------------------------------------- *)

Lemma body_add_post P s n K store :
  ids_ok s ->
  ((forall k, cntk (s_m s) k n = 0) ->
   forall k x, cntk (store (s_m s)) k x = addc (cntk (s_m s)) K [n] k x) ->
  post P s (body_add s n K store).
Proof.
  intros Hok Hst. unfold body_add. destruct (ins_id n K (s_ids s)) as [ids'|e] eqn:E.
  - apply post_acc. apply mk_ok. apply ids_ok_inv in Hok.
    apply (inv_ext _ _ _ (ins_id_inv _ _ _ _ _ Hok E)). apply Hst.
    destruct (ins_id_Val _ _ _ _ E) as [_ [Hh _]]. apply has_false in Hh.
    exact (inv_notin _ _ _ Hok Hh).
  - apply post_rej; [exact Hok|]. destruct (ins_id_Err _ _ _ _ E); subst; discriminate.
Qed.

Lemma body_add_accepts s n K store :
  n <> time_name -> has n (s_ids s) = false -> exists s2, body_add s n K store = (s2, Accepted).
Proof.
  intros Hn Hh. unfold body_add. rewrite (ins_id_ok _ K _ Hn Hh). eexists. reflexivity.
Qed.

Lemma body_remove_post P s n K present drop :
  ids_ok s ->
  (present = true -> cntk (s_m s) K n > 0) ->
  (present = true -> forall k x, cntk (drop (s_m s)) k x = subc (cntk (s_m s)) K [n] k x) ->
  post P s (body_remove s n present drop).
Proof.
  intros Hok Hp Hd. unfold body_remove. destruct present; cbn [negb].
  2: { apply post_rej; [exact Hok|discriminate]. }
  apply ids_ok_inv in Hok. destruct (rem_id_inv _ _ _ _ Hok (Hp eq_refl)) as [E Hi]. rewrite E.
  apply post_acc. apply mk_ok. apply (inv_ext _ _ _ Hi). apply Hd. reflexivity.
Qed.

(** after an accepted [del self._ids[n]] the name is free and was not [time] *)
Lemma rem_id_frees s n ids' :
  ids_ok s -> rem_id n (s_ids s) = Val ids' -> ~ In n (keys ids') /\ n <> time_name.
Proof.
  intros Hok E. apply rem_id_Val in E. destruct E as [Hh ->]. split.
  - apply not_In_keys_del. apply (ids_nodup _ Hok).
  - intros ->. apply (ids_notime _ Hok). apply has_In. exact Hh.
Qed.

Lemma body_remove_frees s n present drop s1 :
  ids_ok s -> body_remove s n present drop = (s1, Accepted) ->
  has n (s_ids s1) = false /\ n <> time_name.
Proof.
  intros Hok. unfold body_remove. destruct (negb present); [discriminate|].
  destruct (rem_id n (s_ids s)) as [ids'|e] eqn:E; [|discriminate].
  intro H. injection H as <-. cbn [s_ids]. destruct (rem_id_frees _ _ _ Hok E) as [A B].
  split; [apply has_false; exact A|exact B].
Qed.

Lemma post_update P s m' :
  ids_ok s -> (forall k x, cntk m' k x = cntk (s_m s) k x) -> post P s (with_model s m', Accepted).
Proof.
  intros Hok He. apply post_acc. unfold with_model. apply mk_ok. apply ids_ok_inv in Hok.
  apply (inv_ext _ _ _ Hok). exact He.
Qed.

(** ---- container facts, one tactic per family ---------------------------------------------- *)

Ltac set_rw :=
  rewrite ?cntk_set_par, ?cntk_set_var, ?cntk_set_der, ?cntk_set_rxn, ?cntk_set_ro, ?cntk_set_dat.

(* add_X: the name is new to every container, so [dset] appends it *)
Ltac add_tac K :=
  let Hz := fresh "Hz" in
  let Hz' := fresh "Hz'" in
  intros Hz k x; pose proof (Hz K) as Hz'; cbn [cntk] in Hz'; apply has_false_cnt in Hz';
  set_rw; destruct k; kdec; cbn [cntk]; rewrite ?cnt_keys_dset, ?Hz', ?cnt_one; lia.

(* remove_X: the name is in the container, [del] removes one occurrence *)
Ltac drop_tac :=
  let Hp := fresh "Hp" in
  intros Hp k x; set_rw; destruct k; kdec; cbn [cntk]; rewrite ?cnt_one; try lia;
  match goal with
  | |- context [del ?n ?d] => pose proof (cnt_keys_del n d x Hp); lia
  end.

Ltac present_tac :=
  let Hp := fresh "Hp" in
  intros Hp; cbn [cntk]; apply has_cnt in Hp; lia.

(* update_X: the name is in the container, [dset] overwrites in place *)
Ltac upd_tac Hh :=
  let k := fresh "k" in
  let x := fresh "x" in
  intros k x; set_rw; destruct k; cbn [cntk]; rewrite ?keys_dset_has by exact Hh; reflexivity.

(** ---- the methods that touch the containers themselves ------------------------------------- *)

Definition prim (mu : mutator) : bool :=
  match mu with ScalePar _ _ | MakeParDynamic _ _ _ | MakeVarStatic _ _ => false | _ => true end.

Lemma negb_has_true {A} n (d : list (name * A)) : negb (has n d) = false -> has n d = true.
Proof. destruct (has n d); [reflexivity|discriminate]. Qed.

Lemma prim_post fuel s mu : prim mu = true -> ids_ok s -> post (1 <= fuel) s (body fuel s mu).
Proof.
  intros Hprim Hok. destruct fuel as [|fuel].
  { cbn [body]. split; [exact Hok|]. right. exists EFuel. split; [reflexivity|].
    split; [apply same_refl|]. lia. }
  destruct mu; try discriminate Hprim; clear Hprim; cbn [body].
  - (* AddPar *) apply body_add_post; [exact Hok|]. add_tac KPar.
  - (* RemovePar *) apply (body_remove_post _ _ _ KPar); [exact Hok|present_tac|drop_tac].
  - (* UpdatePar *)
    destruct (negb (has n (m_par (s_m s)))) eqn:Eh; [apply post_rej; [exact Hok|discriminate]|].
    apply negb_has_true in Eh. destruct v as [v'|]; [|apply post_acc; exact Hok].
    apply post_update; [exact Hok|]. upd_tac Eh.
  - (* AddVar *) apply body_add_post; [exact Hok|]. add_tac KVar.
  - (* RemoveVar *)
    destruct (negb (has n (m_var (s_m s)))) eqn:Eh; [apply post_rej; [exact Hok|discriminate]|].
    apply negb_has_true in Eh.
    assert (Hc : cntk (s_m s) KVar n > 0) by (cbn [cntk]; apply has_cnt in Eh; lia).
    pose proof Hok as Hinv. apply ids_ok_inv in Hinv.
    destruct (rem_id_inv _ _ _ _ Hinv Hc) as [E Hi]. rewrite E.
    apply post_acc. apply mk_ok. apply (inv_ext _ _ _ Hi). intros k x.
    rewrite cntk_set_var.
    assert (Hm1 : forall k x,
               cntk (if remove_stoich
                     then set_sur (set_rxn (s_m s) (map (fun kv => (fst kv, strip_var_rxn n (snd kv))) (m_rxn (s_m s))))
                                  (map (fun kv => (fst kv, strip_var_sur n (snd kv))) (m_sur (s_m s)))
                     else s_m s) k x = cntk (s_m s) k x).
    { intros k0 x0. destruct remove_stoich; [apply cntk_strip|reflexivity]. }
    assert (Hv : m_var (if remove_stoich
                     then set_sur (set_rxn (s_m s) (map (fun kv => (fst kv, strip_var_rxn n (snd kv))) (m_rxn (s_m s))))
                                  (map (fun kv => (fst kv, strip_var_sur n (snd kv))) (m_sur (s_m s)))
                     else s_m s) = m_var (s_m s)).
    { destruct remove_stoich; reflexivity. }
    rewrite Hv. destruct k; rewrite ?Hm1; kdec; cbn [cntk]; rewrite ?cnt_one; try lia.
    pose proof (cnt_keys_del n (m_var (s_m s)) x Eh). lia.
  - (* UpdateVar *)
    destruct (negb (has n (m_var (s_m s)))) eqn:Eh; [apply post_rej; [exact Hok|discriminate]|].
    apply negb_has_true in Eh. apply post_update; [exact Hok|]. upd_tac Eh.
  - (* AddDer *) apply body_add_post; [exact Hok|]. add_tac KDer.
  - (* UpdateDer *)
    destruct (lookup n (m_der (s_m s))) as [d|] eqn:El; [|apply post_rej; [exact Hok|discriminate]].
    apply lookup_has in El. apply post_update; [exact Hok|]. upd_tac El.
  - (* RemoveDer *) apply (body_remove_post _ _ _ KDer); [exact Hok|present_tac|drop_tac].
  - (* AddRxn *) apply body_add_post; [exact Hok|]. add_tac KRxn.
  - (* UpdateRxn *)
    destruct (lookup n (m_rxn (s_m s))) as [r|] eqn:El; [|apply post_rej; [exact Hok|discriminate]].
    apply lookup_has in El. apply post_update; [exact Hok|]. upd_tac El.
  - (* RemoveRxn *) apply (body_remove_post _ _ _ KRxn); [exact Hok|present_tac|drop_tac].
  - (* AddRo *) apply body_add_post; [exact Hok|]. add_tac KRo.
  - (* RemoveRo *) apply (body_remove_post _ _ _ KRo); [exact Hok|present_tac|drop_tac].
  - (* AddSur *)
    set (outs' := opt_or outs (s_out s0)).
    change (bind (ins_id n KSur (s_ids s)) (fun ids1 => ins_ids outs' KSur ids1))
      with (ins_ids (n :: outs') KSur (s_ids s)).
    destruct (ins_ids (n :: outs') KSur (s_ids s)) as [ids'|e] eqn:E.
    2: { apply post_rej; [exact Hok|]. destruct (ins_ids_Err _ _ _ _ E); subst; discriminate. }
    apply post_acc. apply mk_ok. pose proof Hok as Hinv. apply ids_ok_inv in Hinv.
    apply (inv_ext _ _ _ (ins_ids_inv _ _ _ _ _ Hinv E)).
    assert (Hh : has n (m_sur (s_m s)) = false).
    { cbn [ins_ids] in E. destruct (ins_id n KSur (s_ids s)) as [ids1|e1] eqn:E1; [|discriminate E].
      destruct (ins_id_Val _ _ _ _ E1) as [_ [Hh _]]. apply has_false in Hh.
      pose proof (inv_notin _ _ _ Hinv Hh KSur) as Hz. cbn [cntk] in Hz.
      apply has_false_cnt. lia. }
    intros k x. rewrite cntk_set_sur. destruct k; kdec; cbn [cntk]; try lia.
    rewrite cnt_keys_dset, Hh. unfold outs_of. rewrite (cnt_flat_dset_fresh s_out) by exact Hh.
    cbn [s_out]. rewrite cnt_cons. lia.
  - (* UpdateSur *)
    destruct (lookup n (m_sur (s_m s))) as [old|] eqn:El; [|apply post_rej; [exact Hok|discriminate]].
    set (base := opt_or s0 old). set (outs' := opt_or outs (s_out base)).
    pose proof Hok as Hinv. apply ids_ok_inv in Hinv.
    assert (Hle : forall x, cnt x (s_out old) <= cnt x (outs_of (m_sur (s_m s)))).
    { intro x. unfold outs_of. apply (cnt_flat_lookup s_out n). exact El. }
    destruct (rem_ids_inv (s_out old) _ _ KSur Hinv) as [ids1 [E1 Hi1]].
    { intro x. cbn [cntk]. specialize (Hle x). lia. }
    rewrite E1. cbn [bind].
    destruct (ins_ids outs' KSur ids1) as [ids'|e] eqn:E2.
    2: { apply post_rej; [exact Hok|]. destruct (ins_ids_Err _ _ _ _ E2); subst; discriminate. }
    apply post_acc. apply mk_ok. apply (inv_ext _ _ _ (ins_ids_inv _ _ _ _ _ Hi1 E2)).
    intros k x. rewrite cntk_set_sur. destruct k; kdec; cbn [cntk]; try lia.
    rewrite keys_dset_has by (apply (lookup_has _ _ _ El)).
    pose proof (cnt_flat_dset s_out n (m_sur (s_m s)) old
                  (mkSur (s_fn base) (opt_or args (s_args base)) outs' (opt_or sto (s_st base))) x El) as Hd.
    cbn [s_out] in Hd. unfold outs_of. specialize (Hle x). unfold outs_of in Hle. lia.
  - (* RemoveSur *)
    destruct (lookup n (m_sur (s_m s))) as [old|] eqn:El; [|apply post_rej; [exact Hok|discriminate]].
    pose proof Hok as Hinv. apply ids_ok_inv in Hinv.
    pose proof (lookup_has _ _ _ El) as Hh.
    assert (Hle : forall x, cnt x (s_out old) <= cnt x (outs_of (m_sur (s_m s)))).
    { intro x. unfold outs_of. apply (cnt_flat_lookup s_out n). exact El. }
    assert (Hc : cntk (s_m s) KSur n > 0) by (cbn [cntk]; apply has_cnt in Hh; lia).
    destruct (rem_id_inv _ _ _ _ Hinv Hc) as [E Hi]. rewrite E.
    destruct (rem_ids_inv (s_out old) _ _ KSur Hi) as [ids2 [E2 Hi2]].
    { intro x. unfold subc. destruct (kind_eq_dec KSur KSur) as [_|Hk]; [|congruence].
      cbn [cntk]. rewrite cnt_one. specialize (Hle x).
      pose proof (cnt_keys_del n (m_sur (s_m s)) x Hh). lia. }
    rewrite E2. apply post_acc. apply mk_ok. apply (inv_ext _ _ _ Hi2).
    intros k x. rewrite cntk_set_sur. destruct k; kdec; cbn [cntk]; try lia.
    rewrite cnt_one. pose proof (cnt_keys_del n (m_sur (s_m s)) x Hh).
    pose proof (cnt_flat_del s_out n (m_sur (s_m s)) old x El) as Hd.
    specialize (Hle x). unfold outs_of in *. lia.
  - (* AddDat *) apply body_add_post; [exact Hok|]. add_tac KDat.
  - (* UpdateDat *)
    destruct (negb (has n (m_dat (s_m s)))) eqn:Eh; [apply post_rej; [exact Hok|discriminate]|].
    apply negb_has_true in Eh. apply post_update; [exact Hok|]. upd_tac Eh.
  - (* RemoveDat *) apply (body_remove_post _ _ _ KDat); [exact Hok|present_tac|drop_tac].
Qed.
