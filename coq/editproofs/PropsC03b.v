(** C03, id-registry part -- ONLY statements (definitions [registry], [ids_ok] are in Defs.v).
    The state machine is Edit.ModelSM (tied to src/mxlpy/model.py by harness/c03.py).  None of
    these statements depends on the regenerated [invalidates] table. *)
From Coq Require Import ZArith List Bool.
From MxlBase Require Import ListX.
From Core Require Import Sort GenSortFacts FnLib Model Cache Query.
From Edit Require Import GenEditFacts ModelSM.
From EditP Require Import Defs ProofsHist ProofsBatch ProofsHistory.
Import ListNotations.

(** T1: all kinds of component share one name space, after ANY history: the registry [_ids] has
    unique keys, never contains "time", the containers (and the surrogate outputs) are pairwise
    disjoint and duplicate free, and [_ids] holds exactly the stored names with their kinds *)
Theorem C03_single_namespace : forall h : list op, ids_ok (run_history h).
Proof. exact history_ok. Qed.
Print Assumptions C03_single_namespace.

(** T2: an edit that is rejected changes nothing (registry and content; the memoised cache may be
    dropped, which C03_history_equals_fresh shows to be unobservable) *)
Theorem C03_rejected_changes_nothing :
  forall (h : list op) (mu : mutator) (s' : st) (e : err),
    mutate (run_history h) mu = (s', Rejected e) ->
    s_ids s' = s_ids (run_history h) /\ s_m s' = s_m (run_history h).
Proof. exact rejected_changes_nothing. Qed.
Print Assumptions C03_rejected_changes_nothing.

(** T2, batch forms -- FULL STATEMENT (the batch methods in the validate-first form of
    fixes/C03-batch-edits-atomic.diff, [BatchValidated]): after ANY history, a batch edit that is
    rejected -- whichever item is at fault, for whichever reason, including a cache that cannot be
    built while scaling an assigned parameter -- changes neither the registry nor the content.
    PropsC03.C03_batch_facts_pinned says which form the current tree has. *)
Theorem C03_batch_rejected_changes_nothing :
  forall (h : list op) (b : bmut) (s' : st) (e : err),
    batch_with BatchValidated (run_history h) b = (s', Rejected e) ->
    s_ids s' = s_ids (run_history h) /\ s_m s' = s_m (run_history h).
Proof. exact batch_rejected_changes_nothing. Qed.
Print Assumptions C03_batch_rejected_changes_nothing.

(** ... and the validate-first form accepts exactly what the plain fold accepts, with the same result *)
Theorem C03_batch_validated_accepts_as_fold :
  forall (h : list op) (b : bmut) (s' : st),
    batch_with BatchValidated (run_history h) b = (s', Accepted) ->
    batch_with BatchFold (run_history h) b = (s', Accepted).
Proof. exact batch_accepted_as_fold. Qed.
Print Assumptions C03_batch_validated_accepts_as_fold.

(** T2, batch forms -- PARTIAL, for the batch methods as plain folds ([BatchFold], the tree before
    the fix).  What the code does exactly: the loop stops at the first rejected item [mu]; the items
    [pre] before it were all accepted and STAY APPLIED ([sk] is the state after them); the rejected
    item and everything after it changed nothing.  Missing w.r.t. the full statement: [sk] is the
    pre-state only when [pre] is empty (second theorem) -- see [_refuted] (finding
    C03-batch-partial-application). *)
Theorem C03_batch_rejected_changes_nothing_partial :
  forall (h : list op) (b : bmut) (s' : st) (e : err),
    batch_with BatchFold (run_history h) b = (s', Rejected e) ->
    exists (pre : list mutator) (mu : mutator) (post : list mutator) (sk : st),
      items b = pre ++ mu :: post /\ run_items (run_history h) pre = (sk, Accepted) /\
      snd (mutate sk mu) = Rejected e /\ s_ids s' = s_ids sk /\ s_m s' = s_m sk.
Proof. exact batch_rejected_partial. Qed.
Print Assumptions C03_batch_rejected_changes_nothing_partial.

Theorem C03_batch_rejected_at_first_item_changes_nothing :
  forall (h : list op) (b : bmut) (s' : st) (e : err) (mu : mutator) (post : list mutator),
    batch_with BatchFold (run_history h) b = (s', Rejected e) ->
    items b = mu :: post -> snd (mutate (run_history h) mu) <> Accepted ->
    s_ids s' = s_ids (run_history h) /\ s_m s' = s_m (run_history h).
Proof. exact batch_rejected_first_item. Qed.
Print Assumptions C03_batch_rejected_at_first_item_changes_nothing.

(** REFUTED for the plain fold: add_parameters({11: 1, time: 2, 12: 3}) on the empty model raises
    KeyError and leaves parameter 11 behind; the validate-first form refuses the same call with the
    same error and the model untouched. *)
Theorem C03_batch_rejected_changes_nothing_refuted :
  exists (h : list op) (b : bmut) (s' : st) (e : err),
    batch_with BatchFold (run_history h) b = (s', Rejected e) /\
    m_par (s_m (run_history h)) = [] /\ m_par (s_m s') = [(11%N, Plain 1%Z)] /\
    s_ids s' = [(11%N, KPar)] /\
    batch_with BatchValidated (run_history h) b = (run_history h, Rejected e).
Proof. exact batch_rejected_refuted. Qed.
Print Assumptions C03_batch_rejected_changes_nothing_refuted.

(** T3: the fuel of the model (nesting depth of public calls) is never exhausted *)
Theorem C03_never_out_of_fuel :
  forall (h : list op) (mu : mutator) s', mutate (run_history h) mu <> (s', Rejected EFuel).
Proof. exact never_out_of_fuel. Qed.
Print Assumptions C03_never_out_of_fuel.

(** T3 for the enlarged alphabet: no step (single-item mutator, batch mutator in whatever form the
    extractor found, query) ends in the out-of-fuel outcome *)
Theorem C03_step_never_out_of_fuel :
  forall (h : list op) (o : op) s', step (run_history h) o <> (s', Rejected EFuel).
Proof. exact step_never_out_of_fuel. Qed.
Print Assumptions C03_step_never_out_of_fuel.

(** T4: a name freed by a removal can be used again, under any kind *)
Theorem C03_name_reusable :
  forall (h : list op) (rm : mutator) (n : name) (s1 : st),
    In rm [RemovePar n; RemoveVar n true; RemoveVar n false; RemoveDer n; RemoveRxn n; RemoveRo n;
           RemoveSur n; RemoveDat n] ->
    mutate (run_history h) rm = (s1, Accepted) ->
    forall (add : mutator),
      (exists v, add = AddPar n v) \/ (exists v, add = AddVar n v) \/ (exists f a, add = AddDer n f a)
      \/ (exists f a st, add = AddRxn n f a st) \/ (exists f a, add = AddRo n f a) \/ (exists v, add = AddDat n v) ->
      exists s2, mutate s1 add = (s2, Accepted).
Proof. exact name_reusable. Qed.
Print Assumptions C03_name_reusable.

(** non-vacuity: a history with a surrogate (outputs 21, 22), a query, a rejected edit (21 is taken
    by the surrogate), and a remove-then-re-add of 12 under another kind.  The registry is the one
    the containers dictate; a further duplicate is rejected with NameError, repeated surrogate
    outputs are rejected; removing the surrogate frees 21 for a variable. *)
Example C03b_nonvacuous :
  let h := [Mut (AddVar 12%N (Plain 1%Z)); Mut (AddPar 11%N (Plain 2%Z));
            Mut (AddSur 15%N (mkSur 1%N [12%N; 11%N] [21%N; 22%N] [(21%N, [(12%N, CStat 1%Z)])]) None None None);
            Ask (QArgs None 0%Z);
            Mut (AddPar 21%N (Plain 5%Z));
            Mut (RemoveVar 12%N true); Mut (AddDer 12%N 3%N [11%N])] in
  s_ids (run_history h) = [(11%N, KPar); (15%N, KSur); (21%N, KSur); (22%N, KSur); (12%N, KDer)]
  /\ registry (s_m (run_history h)) = [(11%N, KPar); (12%N, KDer); (15%N, KSur); (21%N, KSur); (22%N, KSur)]
  /\ snd (mutate (run_history h) (AddPar 21%N (Plain 5%Z))) = Rejected EName
  /\ snd (mutate (run_history h) (AddSur 30%N (mkSur 1%N [] [31%N; 31%N] []) None None None)) = Rejected EName
  /\ snd (mutate (run_history h) (AddVar 0%N (Plain 5%Z))) = Rejected EKey
  /\ snd (mutate (run_history h) (RemoveSur 15%N)) = Accepted
  /\ snd (mutate (fst (mutate (run_history h) (RemoveSur 15%N))) (AddVar 21%N (Plain 0%Z))) = Accepted.
Proof. cbv zeta. repeat split; vm_compute; reflexivity. Qed.
Print Assumptions C03b_nonvacuous.

(** non-vacuity for the batch forms: after a history with batches and a query, (1) scale_parameters
    over a plain and an ASSIGNED parameter while a derived quantity misses its argument: the fold
    scales 11 and then fails building the cache, the validate-first form puts 11 back;
    (2) remove_parameters with a repeated name; (3) an accepted batch gives the same state in both forms *)
Example C03b_batch_nonvacuous :
  let h := [Bat (AddPars [(11%N, Plain 2%Z); (17%N, IA 0%N [11%N])]); Bat (AddVars [(12%N, Plain 1%Z)]);
            Ask QIc; Mut (AddDer 13%N 0%N [31%N])] in
  let sc := ScalePars [(11%N, 3%Z); (17%N, 2%Z)] in
  snd (batch_with BatchFold (run_history h) sc) = Rejected (EMissing [(13%N, [31%N])])
  /\ lookup 11%N (m_par (s_m (fst (batch_with BatchFold (run_history h) sc)))) = Some (Plain 6%Z)
  /\ snd (batch_with BatchValidated (run_history h) sc) = Rejected (EMissing [(13%N, [31%N])])
  /\ s_m (fst (batch_with BatchValidated (run_history h) sc)) = s_m (run_history h)
  /\ snd (batch_with BatchFold (run_history h) (RemovePars [11%N; 11%N])) = Rejected EKey
  /\ keys (m_par (s_m (fst (batch_with BatchFold (run_history h) (RemovePars [11%N; 11%N]))))) = [17%N]
  /\ batch_with BatchValidated (run_history h) (RemovePars [11%N; 11%N]) = (run_history h, Rejected EKey)
  /\ batch_with BatchValidated (run_history h) (UpdateVars [(12%N, Plain 5%Z)])
     = batch_with BatchFold (run_history h) (UpdateVars [(12%N, Plain 5%Z)])
  /\ snd (batch_with BatchFold (run_history h) (UpdateVars [(12%N, Plain 5%Z)])) = Accepted.
Proof. cbv zeta. repeat split; vm_compute; reflexivity. Qed.
Print Assumptions C03b_batch_nonvacuous.
