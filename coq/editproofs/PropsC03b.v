(* statements for the id-registry part of C03; filled in by the proof work described in TARGETS.md *)
