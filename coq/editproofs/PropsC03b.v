(** C03, id-registry part -- ONLY statements (definitions [registry], [ids_ok] are in Defs.v).
    The state machine is Edit.ModelSM (tied to src/mxlpy/model.py by harness/c03.py).  None of
    these statements depends on the regenerated [invalidates] table. *)
From Coq Require Import ZArith List Bool.
From MxlBase Require Import ListX.
From Core Require Import Sort GenSortFacts FnLib Model Cache Query.
From Edit Require Import GenEditFacts ModelSM.
From EditP Require Import Defs ProofsHist.
Import ListNotations.

(** T1: all kinds of component share one name space, after ANY history: the registry [_ids] has
    unique keys, never contains "time", the containers (and the surrogate outputs) are pairwise
    disjoint and duplicate free, and [_ids] holds exactly the stored names with their kinds *)
Theorem C03_single_namespace : forall h : list op, ids_ok (run_history h).
Proof. exact history_ok. Qed.
Print Assumptions C03_single_namespace.

(** T2: an edit that is rejected changes nothing (registry and content; the memoised cache may be
    dropped, which C03_history_equals_fresh shows to be unobservable) *)
Theorem C03_rejected_changes_nothing :
  forall (h : list op) (mu : mutator) (s' : st) (e : err),
    mutate (run_history h) mu = (s', Rejected e) ->
    s_ids s' = s_ids (run_history h) /\ s_m s' = s_m (run_history h).
Proof. exact rejected_changes_nothing. Qed.
Print Assumptions C03_rejected_changes_nothing.

(** T3: the fuel of the model (nesting depth of public calls) is never exhausted *)
Theorem C03_never_out_of_fuel :
  forall (h : list op) (mu : mutator) s', mutate (run_history h) mu <> (s', Rejected EFuel).
Proof. exact never_out_of_fuel. Qed.
Print Assumptions C03_never_out_of_fuel.

(** T4: a name freed by a removal can be used again, under any kind *)
Theorem C03_name_reusable :
  forall (h : list op) (rm : mutator) (n : name) (s1 : st),
    In rm [RemovePar n; RemoveVar n true; RemoveVar n false; RemoveDer n; RemoveRxn n; RemoveRo n;
           RemoveSur n; RemoveDat n] ->
    mutate (run_history h) rm = (s1, Accepted) ->
    forall (add : mutator),
      (exists v, add = AddPar n v) \/ (exists v, add = AddVar n v) \/ (exists f a, add = AddDer n f a)
      \/ (exists f a st, add = AddRxn n f a st) \/ (exists f a, add = AddRo n f a) \/ (exists v, add = AddDat n v) ->
      exists s2, mutate s1 add = (s2, Accepted).
Proof. exact name_reusable. Qed.
Print Assumptions C03_name_reusable.

(** non-vacuity: a history with a surrogate (outputs 21, 22), a query, a rejected edit (21 is taken
    by the surrogate), and a remove-then-re-add of 12 under another kind.  The registry is the one
    the containers dictate; a further duplicate is rejected with NameError, repeated surrogate
    outputs are rejected; removing the surrogate frees 21 for a variable. *)
Example C03b_nonvacuous :
  let h := [Mut (AddVar 12%N (Plain 1%Z)); Mut (AddPar 11%N (Plain 2%Z));
            Mut (AddSur 15%N (mkSur 1%N [12%N; 11%N] [21%N; 22%N] [(21%N, [(12%N, CStat 1%Z)])]) None None None);
            Ask (QArgs None 0%Z);
            Mut (AddPar 21%N (Plain 5%Z));
            Mut (RemoveVar 12%N true); Mut (AddDer 12%N 3%N [11%N])] in
  s_ids (run_history h) = [(11%N, KPar); (15%N, KSur); (21%N, KSur); (22%N, KSur); (12%N, KDer)]
  /\ registry (s_m (run_history h)) = [(11%N, KPar); (12%N, KDer); (15%N, KSur); (21%N, KSur); (22%N, KSur)]
  /\ snd (mutate (run_history h) (AddPar 21%N (Plain 5%Z))) = Rejected EName
  /\ snd (mutate (run_history h) (AddSur 30%N (mkSur 1%N [] [31%N; 31%N] []) None None None)) = Rejected EName
  /\ snd (mutate (run_history h) (AddVar 0%N (Plain 5%Z))) = Rejected EKey
  /\ snd (mutate (run_history h) (RemoveSur 15%N)) = Accepted
  /\ snd (mutate (fst (mutate (run_history h) (RemoveSur 15%N))) (AddVar 21%N (Plain 0%Z))) = Accepted.
Proof. cbv zeta. repeat split; vm_compute; reflexivity. Qed.
Print Assumptions C03b_nonvacuous.
