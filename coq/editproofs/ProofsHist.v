(** The wrappers (scale_parameter, make_parameter_dynamic, make_variable_static), public calls,
    queries and whole histories. *)
From Coq Require Import ZArith List Bool Lia.
From MxlBase Require Import ListX.
From Core Require Import Sort GenSortFacts FnLib Model Cache Query.
From Edit Require Import GenEditFacts ModelSM.
From EditP Require Import Defs ProofsDict ProofsIds ProofsReg ProofsFuel ProofsBody.
Import ListNotations.
Local Open Scope nat_scope.

Definition is_remove (rm : mutator) (n : name) : Prop :=
  In rm [RemovePar n; RemoveVar n true; RemoveVar n false; RemoveDer n; RemoveRxn n; RemoveRo n;
         RemoveSur n; RemoveDat n].

Definition is_add (add : mutator) (n : name) : Prop :=
  (exists v, add = AddPar n v) \/ (exists v, add = AddVar n v) \/ (exists f a, add = AddDer n f a)
  \/ (exists f a st, add = AddRxn n f a st) \/ (exists f a, add = AddRo n f a) \/ (exists v, add = AddDat n v).

Lemma build_cache_nofuel m : nofuel (build_cache m).
Proof.
  unfold build_cache. destruct (arity_all_ok m); [apply create_cache_nofuel|discriminate].
Qed.

Lemma ensure_cache_same s rc s1 :
  ensure_cache s = (rc, s1) -> same_content s s1 /\ rc <> Err EFuel.
Proof.
  unfold ensure_cache. destruct (s_cache s) as [c|].
  - intro H. injection H as <- <-. split; [apply same_refl|discriminate].
  - pose proof (build_cache_nofuel (s_m s)) as Hnf.
    destruct (build_cache (s_m s)) as [c|e]; intro H; injection H as <- <-.
    + split; [split; reflexivity|discriminate].
    + split; [apply same_refl|exact Hnf].
Qed.

(** an accepted removal of [n] leaves [n] free (and [n] is not [time]) *)
Lemma remove_frees f s rm n s1 :
  ids_ok s -> is_remove rm n -> body f s rm = (s1, Accepted) ->
  has n (s_ids s1) = false /\ n <> time_name /\ f <> 0.
Proof.
  intros Hok Hin E. destruct f as [|f]; [cbn [body] in E; discriminate E|].
  assert (H : has n (s_ids s1) = false /\ n <> time_name); [|destruct H; repeat split; auto].
  unfold is_remove in Hin. cbn [In] in Hin.
  destruct Hin as [<-|[<-|[<-|[<-|[<-|[<-|[<-|[<-|[]]]]]]]]]; cbn [body] in E;
    try (apply (body_remove_frees _ _ _ _ _ Hok E)).
  - destruct (negb (has n (m_var (s_m s)))); [discriminate E|].
    destruct (rem_id n (s_ids s)) as [ids'|e] eqn:Er; [|discriminate E].
    injection E as <-. cbn [s_ids]. destruct (rem_id_frees _ _ _ Hok Er) as [A B].
    split; [apply has_false; exact A|exact B].
  - destruct (negb (has n (m_var (s_m s)))); [discriminate E|].
    destruct (rem_id n (s_ids s)) as [ids'|e] eqn:Er; [|discriminate E].
    injection E as <-. cbn [s_ids]. destruct (rem_id_frees _ _ _ Hok Er) as [A B].
    split; [apply has_false; exact A|exact B].
  - destruct (lookup n (m_sur (s_m s))) as [old|]; [|discriminate E].
    destruct (rem_id n (s_ids s)) as [ids1|e] eqn:Er; [|discriminate E].
    destruct (rem_ids (s_out old) ids1) as [ids2|e] eqn:Er2; [|discriminate E].
    injection E as <-. cbn [s_ids]. destruct (rem_id_frees _ _ _ Hok Er) as [A B].
    split; [|exact B]. apply has_false. intro Hin. apply A. exact (rem_ids_keys _ _ _ Er2 _ Hin).
Qed.

(** an add of a free name other than [time] is accepted *)
Lemma add_accepts f s add n :
  f <> 0 -> n <> time_name -> has n (s_ids s) = false -> is_add add n ->
  exists s2, body f s add = (s2, Accepted).
Proof.
  intros Hf Hn Hh Hadd. destruct f as [|f]; [congruence|].
  destruct Hadd as [[v ->]|[[v ->]|[[fn [a ->]]|[[fn [a [sto ->]]]|[[fn [a ->]]|[v ->]]]]]];
    cbn [body]; apply body_add_accepts; assumption.
Qed.

(** a nested public call of a container-level method: decorator + body *)
Lemma run_prim_post f s mu :
  prim mu = true -> ids_ok s ->
  post (1 <= f) s (body f (if invalidates (method_of mu) then mkSt (s_ids s) (s_m s) None else s) mu).
Proof.
  intros Hp Hok.
  apply (post_from (1 <= f) (1 <= f) s _ _ (dec_same (invalidates (method_of mu)) s)); [auto|].
  apply prim_post; [exact Hp|]. apply (ids_ok_same s); [apply dec_same|exact Hok].
Qed.

Lemma run_remove_frees f s rm n s1 :
  ids_ok s -> is_remove rm n ->
  body f (if invalidates (method_of rm) then mkSt (s_ids s) (s_m s) None else s) rm = (s1, Accepted) ->
  has n (s_ids s1) = false /\ n <> time_name /\ f <> 0.
Proof.
  intros Hok Hin E. apply (remove_frees _ _ _ _ _ (ids_ok_same s _ (dec_same _ s) Hok) Hin E).
Qed.

Lemma run_add_accepts f s add n :
  f <> 0 -> n <> time_name -> has n (s_ids s) = false -> is_add add n ->
  exists s2, body f (if invalidates (method_of add) then mkSt (s_ids s) (s_m s) None else s) add = (s2, Accepted).
Proof.
  intros Hf Hn Hh Hadd. apply (add_accepts _ _ _ n); auto.
  destruct (dec_same (invalidates (method_of add)) s) as [-> _]. exact Hh.
Qed.

Definition depth (mu : mutator) : nat := if prim mu then 1 else 2.

Lemma body_post fuel s mu : ids_ok s -> post (depth mu <= fuel) s (body fuel s mu).
Proof.
  intros Hok. unfold depth. destruct (prim mu) eqn:Ep; [apply prim_post; assumption|].
  destruct fuel as [|f].
  { cbn [body]. split; [exact Hok|]. right. exists EFuel. split; [reflexivity|].
    split; [apply same_refl|]. lia. }
  assert (Hle : 2 <= S f -> 1 <= f) by lia.
  destruct mu; try discriminate Ep; clear Ep; cbn [body].
  - (* ScalePar *)
    destruct (lookup n (m_par (s_m s))) as [[old|fn a]|]; [| |apply post_rej; [exact Hok|discriminate]].
    + apply (post_from (1 <= f) _ s s _ (same_refl s) Hle). apply run_prim_post; [reflexivity|exact Hok].
    + destruct (ensure_cache s) as [rc s1] eqn:Ee.
      destruct (ensure_cache_same _ _ _ Ee) as [Hs Hrc].
      pose proof (ids_ok_same _ _ Hs Hok) as Hok1.
      destruct rc as [c|e].
      * destruct (lookup n (c_all_par c)) as [old|].
        -- apply (post_from (1 <= f) _ s s1 _ Hs Hle). apply run_prim_post; [reflexivity|exact Hok1].
        -- apply (post_from (2 <= S f) _ s s1 _ Hs (fun H => H)). apply post_rej; [exact Hok1|discriminate].
      * apply (post_from (2 <= S f) _ s s1 _ Hs (fun H => H)). apply post_rej; [exact Hok1|congruence].
  - (* MakeParDynamic *)
    destruct (match v with Some x => Some x | None => lookup n (m_par (s_m s)) end) as [value|];
      [|apply post_rej; [exact Hok|discriminate]].
    destruct (negb (forallb _ _)); [apply post_rej; [exact Hok|discriminate]|].
    pose proof (run_prim_post f s (RemovePar n) eq_refl Hok) as H1.
    destruct (body f _ (RemovePar n)) as [s1 o1] eqn:E1.
    destruct H1 as [Hok1 [Ha|[e [He [Hs1 Hf1]]]]]; cbn [fst snd] in *.
    + subst o1.
      destruct (run_remove_frees f s (RemovePar n) n s1 Hok (or_introl eq_refl) E1) as [Hh [Hn Hf]].
      destruct (run_add_accepts f s1 (AddVar n value) n Hf Hn Hh) as [s2 E2].
      { right. left. exists value. reflexivity. }
      pose proof (run_prim_post f s1 (AddVar n value) eq_refl Hok1) as H2.
      rewrite E2 in *. destruct H2 as [Hok2 _]. cbn [fst] in Hok2.
      apply post_acc. unfold with_model. apply mk_ok. apply ids_ok_inv in Hok2.
      apply (inv_ext _ _ _ Hok2). intros k x. apply cntk_fold_add_stoich.
    + subst o1. split; [exact Hok1|]. right. exists e. split; [reflexivity|]. split; [exact Hs1|]. auto.
  - (* MakeVarStatic *)
    destruct (match v with Some x => Some x | None => lookup n (m_var (s_m s)) end) as [value|];
      [|apply post_rej; [exact Hok|discriminate]].
    pose proof (run_prim_post f s (RemoveVar n true) eq_refl Hok) as H1.
    destruct (body f _ (RemoveVar n true)) as [s1 o1] eqn:E1.
    destruct H1 as [Hok1 [Ha|[e [He [Hs1 Hf1]]]]]; cbn [fst snd] in *.
    + subst o1.
      destruct (run_remove_frees f s (RemoveVar n true) n s1 Hok (or_intror (or_introl eq_refl)) E1) as [Hh [Hn Hf]].
      destruct (run_add_accepts f s1 (AddPar n value) n Hf Hn Hh) as [s2 E2].
      { left. exists value. reflexivity. }
      pose proof (run_prim_post f s1 (AddPar n value) eq_refl Hok1) as H2.
      rewrite E2 in *. destruct H2 as [Hok2 _]. cbn [fst] in Hok2.
      apply post_acc. exact Hok2.
    + subst o1. split; [exact Hok1|]. right. exists e. split; [reflexivity|]. split; [exact Hs1|]. auto.
Qed.

(** ---- public calls, queries, histories ------------------------------------------------------ *)

Lemma mutate_post s mu : ids_ok s -> post True s (mutate s mu).
Proof.
  intro Hok. unfold mutate.
  apply (post_from (depth mu <= 4) True s _ _ (dec_same (invalidates (method_of mu)) s)).
  - intros _. unfold depth. destruct (prim mu); lia.
  - apply body_post. apply (ids_ok_same s); [apply dec_same|exact Hok].
Qed.

Lemma ask_same s q : same_content s (fst (ask s q)).
Proof.
  unfold ask. destruct q; try apply same_refl;
    destruct (ensure_cache s) as [rc s1] eqn:Ee; destruct (ensure_cache_same _ _ _ Ee) as [Hs _];
    destruct rc; exact Hs.
Qed.

