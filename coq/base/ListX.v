(** Shared list helpers (stdlib only).  Used by every area; keep small and stable. *)
From Coq Require Export List NArith ZArith Bool Lia.
Export ListNotations.

(** indices (from 0) of the elements satisfying [p] -- used by the correspondence files *)
Fixpoint filter_idx_from {A} (p : A -> bool) (i : nat) (l : list A) : list nat :=
  match l with
  | [] => []
  | x :: xs => if p x then i :: filter_idx_from p (S i) xs else filter_idx_from p (S i) xs
  end.
Definition filter_idx {A} (p : A -> bool) (l : list A) : list nat := filter_idx_from p 0 l.

Definition memN (x : N) (l : list N) : bool := existsb (N.eqb x) l.
Definition subsetN (a b : list N) : bool := forallb (fun x => memN x b) a.

Lemma memN_In x l : memN x l = true <-> In x l.
Proof.
  unfold memN. rewrite existsb_exists. split.
  - intros [y [Hy He]]. apply N.eqb_eq in He. subst. exact Hy.
  - intros H. exists x. split; [exact H | apply N.eqb_refl].
Qed.

Lemma memN_false x l : memN x l = false <-> ~ In x l.
Proof.
  rewrite <- memN_In. destruct (memN x l); split; intro H; try reflexivity; try discriminate;
    exfalso; apply H; reflexivity.
Qed.

Lemma subsetN_incl a b : subsetN a b = true <-> incl a b.
Proof.
  unfold subsetN. rewrite forallb_forall. unfold incl. split; intros H x Hx.
  - apply memN_In. apply H. exact Hx.
  - apply memN_In. apply H. exact Hx.
Qed.

(** insertion into a strictly sorted duplicate-free list of N *)
Fixpoint ins_sorted (x : N) (l : list N) : list N :=
  match l with
  | [] => [x]
  | y :: ys => if N.ltb x y then x :: l else if N.eqb x y then l else y :: ins_sorted x ys
  end.
Definition sort_dedup (l : list N) : list N := fold_right ins_sorted [] l.

Lemma ins_sorted_In x l z : In z (ins_sorted x l) <-> z = x \/ In z l.
Proof.
  induction l as [|y ys IH]; simpl.
  - intuition.
  - destruct (N.ltb x y) eqn:Hlt; simpl.
    + intuition.
    + destruct (N.eqb x y) eqn:Heq; simpl.
      * apply N.eqb_eq in Heq. subst. intuition.
      * rewrite IH. intuition.
Qed.

Lemma sort_dedup_In l z : In z (sort_dedup l) <-> In z l.
Proof.
  induction l as [|y ys IH]; simpl.
  - intuition.
  - rewrite ins_sorted_In, IH. intuition.
Qed.

Inductive sortedN : list N -> Prop :=
| sortedN_nil : sortedN []
| sortedN_one x : sortedN [x]
| sortedN_cons x y l : (x < y)%N -> sortedN (y :: l) -> sortedN (x :: y :: l).

Lemma ins_sorted_sorted x l : sortedN l -> sortedN (ins_sorted x l).
Proof.
  induction 1 as [|y|y z l Hyz Hs IH]; simpl.
  - constructor.
  - destruct (N.ltb_spec x y).
    + constructor; [assumption|constructor].
    + destruct (N.eqb_spec x y).
      * constructor.
      * constructor; [lia|constructor].
  - destruct (N.ltb_spec x y).
    + constructor; [assumption|constructor; assumption].
    + destruct (N.eqb_spec x y).
      * constructor; assumption.
      * simpl in IH. destruct (N.ltb_spec x z).
        -- constructor; [lia|]. exact IH.
        -- destruct (N.eqb_spec x z).
           ++ constructor; assumption.
           ++ constructor; assumption.
Qed.

Lemma sort_dedup_sorted l : sortedN (sort_dedup l).
Proof.
  induction l as [|y ys IH]; simpl; [constructor|]. apply ins_sorted_sorted. exact IH.
Qed.

Definition list_eqb {A} (eqb : A -> A -> bool) : list A -> list A -> bool :=
  fix go (a b : list A) : bool :=
    match a, b with
    | [], [] => true
    | x :: xs, y :: ys => eqb x y && go xs ys
    | _, _ => false
    end.

Definition optionN_eqb (a b : option N) : bool :=
  match a, b with
  | Some x, Some y => N.eqb x y
  | None, None => true
  | _, _ => false
  end.
