(** C19 -- user supplied (name_fn, save_fn, load_fn) triples of a Cache and the NAME _load_or_run hands to
    save_fn.  MODEL ONLY (no proofs here).  Big-step (complete calls, no kill points: the atomicity of a
    custom save_fn is the user's business), parallel=False order.

      file = cache.tmp_dir / cache.name_fn(k)
      if file.exists(): return k, cache.load_fn(file)
      res = fn(v); cache.save_fn(<which name?>, res)

    A triple is modelled by what it does to bytes AS A FUNCTION OF THE FILE NAME IT IS HANDED:
      [enc n v]   the content save_fn writes when handed the name n and the data v
      [decd n b]  what load_fn returns when handed the name n of a file with content b (None: it raises)
    The user's contract is the round trip ON ONE NAME:  decd n (enc n v) = Some v  (pandas' to_pickle /
    read_pickle infer the compression from the suffix; a writer may stamp the name into the file; ...).

    [save_name_kind] -- regenerated from _load_or_run:
      SnFinal    save_fn is handed `file` itself, the path load_fn gets later (the code)
      SnTemp     save_fn is handed a temporary name `<file.name>.<pid>.tmp`, the finished file is renamed
                 to `file` afterwards (seeded/C19-6)
      SnUnknown  anything else (treated like SnTemp) *)
From Coq Require Import List NArith ZArith Bool.
Import ListNotations.

Inductive save_name_kind := SnFinal | SnTemp | SnUnknown.

Section Codec.
  Variables V B : Type.
  Variable fnv : N -> V.               (* fn on input ids *)
  Variable name : N -> N.              (* cache.name_fn on key ids *)
  Variable tmpname : N -> N -> N.      (* process id, final name -> temporary name *)
  Variable enc : N -> V -> B.
  Variable decd : N -> B -> option V.

  Definition cdir := N -> option B.
  Definition cdir_empty : cdir := fun _ => None.
  Definition dupd (d : cdir) (n : N) (b : B) : cdir := fun m => if N.eqb m n then Some b else d m.

  Definition handed (kind : save_name_kind) (p n : N) : N :=
    match kind with SnFinal => n | _ => tmpname p n end.

  (** one _load_or_run call in process p: result (None = load_fn raised), "fn was called", directory *)
  Definition lor (kind : save_name_kind) (p k x : N) (d : cdir) : option V * bool * cdir :=
    let n := name k in
    match d n with
    | Some b => (decd n b, false, d)
    | None => let v := fnv x in (Some v, true, dupd d n (enc (handed kind p n) v))
    end.

  (** list(map(worker, inputs)): the first exception propagates; result, number of fn calls, directory *)
  Fixpoint crun (kind : save_name_kind) (p : N) (items : list (N * N)) (d : cdir)
    : option (list (N * V)) * nat * cdir :=
    match items with
    | [] => (Some [], 0, d)
    | (k, x) :: r =>
        match lor kind p k x d with
        | (None, _, d') => (None, 0, d')
        | (Some v, c, d') =>
            match crun kind p r d' with
            | (res, n, d'') => (option_map (cons (k, v)) res, (if c then S n else n), d'')
            end
        end
    end.
End Codec.

Arguments cdir_empty {B}.
