(** C19 -- proofs about custom (name_fn, save_fn, load_fn) triples (CacheCodec.v) and about the state of
    a Cache object (CacheObject.v). *)
From Coq Require Import List NArith ZArith Bool Arith Lia.
From CacheFS Require Import CacheFS CacheFSSpec CacheCodec CacheObject.
Import ListNotations.

Section CodecProofs.
  Variables V B : Type.
  Variable fnv : N -> V.
  Variable name : N -> N.
  Variable tmpname : N -> N -> N.
  Variable enc : N -> V -> B.
  Variable decd : N -> B -> option V.
  (** the user's contract: what save_fn wrote when handed a name, load_fn reads back when handed THAT name *)
  Hypothesis round_trip : forall n v, decd n (enc n v) = Some v.

  Notation crun' := (crun V B fnv name tmpname enc decd).
  Notation lor' := (lor V B fnv name tmpname enc decd).

  (** every result file of the run is absent or holds what save_fn writes under ITS OWN name *)
  Definition GoodC (items : list (N * N)) (d : cdir B) : Prop :=
    forall k x, In (k, x) items -> d (name k) = None \/ d (name k) = Some (enc (name k) (fnv x)).
  Definition StoredC (items : list (N * N)) (d : cdir B) : Prop :=
    forall k x, In (k, x) items -> d (name k) = Some (enc (name k) (fnv x)).
  Definition absentC (d : cdir B) (kx : N * N) : bool :=
    match d (name (fst kx)) with None => true | Some _ => false end.

  Lemma dupd_same (d : cdir B) n b : dupd B d n b n = Some b.
  Proof. unfold dupd. rewrite N.eqb_refl. reflexivity. Qed.
  Lemma dupd_other (d : cdir B) n b m : m <> n -> dupd B d n b m = d m.
  Proof. unfold dupd. intros H. apply N.eqb_neq in H. rewrite H. reflexivity. Qed.

  Lemma crun_frame kind p : forall items d n,
    ~ In n (map (fun kx => name (fst kx)) items) -> snd (crun' kind p items d) n = d n.
  Proof.
    induction items as [|[k x] r IH]; intros d n Hn; [reflexivity|].
    cbn [crun]. unfold lor. cbn [map fst] in Hn.
    destruct (d (name k)) as [b|] eqn:E.
    - destruct (decd (name k) b) as [v|]; [|reflexivity].
      specialize (IH d n). destruct (crun' kind p r d) as [[res c] d'']. cbn [snd] in *.
      apply IH. intros H. apply Hn. right. exact H.
    - specialize (IH (dupd B d (name k) (enc (handed tmpname kind p (name k)) (fnv x))) n).
      destruct (crun' kind p r _) as [[res c] d'']. cbn [snd] in *.
      rewrite IH by (intros H; apply Hn; right; exact H).
      apply dupd_other. intros H. apply Hn. left. symmetry. exact H.
  Qed.

  (** save_fn is handed the FINAL name (the code): a run over a Good directory -- fresh, or left by earlier
      runs -- returns the uncached results, computes exactly the absent ones and stores every result under
      its own name *)
  Lemma crun_final_good p : forall items d,
    NoDup (map (fun kx => name (fst kx)) items) -> GoodC items d ->
    let '(res, c, d') := crun' SnFinal p items d in
    res = Some (run_uncached V fnv items)
    /\ c = length (filter (absentC d) items)
    /\ StoredC items d'.
  Proof.
    induction items as [|[k x] r IH]; intros d Hnd Hg.
    - cbn. repeat split. intros k x [].
    - cbn [map fst] in Hnd. inversion Hnd as [|? ? Hnin Hnd']; subst.
      cbn [crun filter]. unfold lor, absentC at 1. cbn [fst handed].
      assert (Hgr : forall d1, (forall n, n <> name k -> d1 n = d n) -> GoodC r d1).
      { intros d1 Hd1 k' x' Hin. rewrite Hd1.
        - apply Hg. right. exact Hin.
        - intros E. apply Hnin. rewrite <- E. apply in_map_iff. exists (k', x'). split; [reflexivity | exact Hin]. }
      destruct (d (name k)) as [b|] eqn:E.
      + destruct (Hg k x (or_introl eq_refl)) as [H|H]; rewrite E in H; [discriminate|].
        inversion H; subst b. rewrite round_trip.
        specialize (IH d Hnd' (Hgr d (fun _ _ => eq_refl))).
        pose proof (crun_frame SnFinal p r d (name k) Hnin) as Hfr.
        destruct (crun' SnFinal p r d) as [[res c] d'']. cbn [snd] in Hfr.
        destruct IH as (Hres & Hc & Hst). subst res. split; [reflexivity|]. split; [exact Hc|].
        intros k' x' [E'|Hin]; [inversion E'; subst; rewrite Hfr; exact E | apply Hst; exact Hin].
      + set (d1 := dupd B d (name k) (enc (name k) (fnv x))).
        assert (Hd1 : forall n, n <> name k -> d1 n = d n) by (intros n Hn; apply dupd_other; exact Hn).
        specialize (IH d1 Hnd' (Hgr d1 Hd1)).
        pose proof (crun_frame SnFinal p r d1 (name k) Hnin) as Hfr.
        destruct (crun' SnFinal p r d1) as [[res c] d'']. cbn [snd] in Hfr.
        destruct IH as (Hres & Hc & Hst). subst res. split; [reflexivity|]. split.
        * cbn [length]. f_equal. rewrite Hc. f_equal. apply filter_ext_in. intros [k' x'] Hin.
          unfold absentC. cbn [fst]. rewrite Hd1; [reflexivity|].
          intros E'. apply Hnin. rewrite <- E'. apply in_map_iff. exists (k', x'). split; [reflexivity | exact Hin].
        * intros k' x' [E'|Hin]; [inversion E'; subst; rewrite Hfr; apply dupd_same | apply Hst; exact Hin].
  Qed.

  (** ... hence: cached = uncached on a fresh directory, and the repeated run (any process) returns the same
      results from disk without computing anything and leaves the directory as it is *)
  Lemma codec_transparent_and_repeatable p1 p2 items :
    NoDup (map (fun kx => name (fst kx)) items) ->
    let '(res1, c1, d1) := crun' SnFinal p1 items cdir_empty in
    let '(res2, c2, d2) := crun' SnFinal p2 items d1 in
    res1 = Some (run_uncached V fnv items) /\ c1 = length items
    /\ res2 = Some (run_uncached V fnv items) /\ c2 = 0.
  Proof.
    intros Hnd.
    pose proof (crun_final_good p1 items cdir_empty Hnd (fun k x _ => or_introl eq_refl)) as H1.
    destruct (crun' SnFinal p1 items cdir_empty) as [[res1 c1] d1].
    destruct H1 as (Hr1 & Hc1 & Hst1).
    pose proof (crun_final_good p2 items d1 Hnd (fun k x Hin => or_intror (Hst1 k x Hin))) as H2.
    destruct (crun' SnFinal p2 items d1) as [[res2 c2] d2].
    destruct H2 as (Hr2 & Hc2 & _).
    split; [exact Hr1|]. split; [|split; [exact Hr2|]].
    - rewrite Hc1. clear. induction items as [|a l IH]; [reflexivity|]. cbn [filter].
      unfold absentC at 1. unfold cdir_empty at 1. cbn [length]. f_equal. exact IH.
    - rewrite Hc2. clear - Hst1.
      assert (H : forall kx, In kx items -> absentC d1 kx = false).
      { intros [k x] Hin. unfold absentC. cbn [fst]. rewrite (Hst1 k x Hin). reflexivity. }
      clear Hst1. induction items as [|a l IH]; [reflexivity|]. cbn [filter].
      rewrite (H a (or_introl eq_refl)). apply IH. intros kx Hin. apply H. right. exact Hin.
  Qed.
End CodecProofs.

(** REGRESSION (seeded/C19-6): save_fn is handed a TEMPORARY name and the file is renamed afterwards.  A triple
    that stamps the name it was handed into the file -- it satisfies the round-trip contract on every name --
    makes the first caching run return the right results and the REPEATED run raise; with the final name
    handed over, the same triple on the same input repeats from disk *)
Definition stamp_enc (n : N) (v : Z) : N * Z := (n, v).
Definition stamp_dec (n : N) (b : N * Z) : option Z := if N.eqb n (fst b) then Some (snd b) else None.
Definition pid_tmpname (p n : N) : N := (1000 * (p + 1) + n)%N.

Lemma temp_name_to_save_fn_refuted :
  (forall n v, stamp_dec n (stamp_enc n v) = Some v)
  /\ exists (items : list (N * N)),
       NoDup (map fst items)
       /\ (forall kind, kind <> SnFinal ->
            let '(res1, c1, d1) := crun Z (N * Z) Z.of_N (fun k => k) pid_tmpname stamp_enc stamp_dec kind 1 items cdir_empty in
            let '(res2, c2, d2) := crun Z (N * Z) Z.of_N (fun k => k) pid_tmpname stamp_enc stamp_dec kind 2 items d1 in
            res1 = Some (run_uncached Z Z.of_N items) /\ res2 = None)
       /\ (let '(res1, c1, d1) := crun Z (N * Z) Z.of_N (fun k => k) pid_tmpname stamp_enc stamp_dec SnFinal 1 items cdir_empty in
           let '(res2, c2, d2) := crun Z (N * Z) Z.of_N (fun k => k) pid_tmpname stamp_enc stamp_dec SnFinal 2 items d1 in
           res1 = Some (run_uncached Z Z.of_N items) /\ res2 = Some (run_uncached Z Z.of_N items) /\ c2 = 0).
Proof.
  split.
  - intros n v. unfold stamp_dec, stamp_enc. cbn [fst snd]. rewrite N.eqb_refl. reflexivity.
  - exists [(1%N, 2%N); (2%N, 3%N)]. split; [|split].
    + repeat constructor; cbn; intuition discriminate.
    + intros [| |] H; [congruence| |]; vm_compute; split; reflexivity.
    + vm_compute. repeat split; reflexivity.
Qed.

(** * the Cache object *)

(** a stateless object: the calls of a run and the directory after it do not depend on what the object
    remembers, nor on the execution mode -- only on the directory *)
Lemma stateless_ignores_memo par1 par2 names dir m1 m2 :
  fst (orun CoStateless par1 names (mkO dir m1)) = fst (orun CoStateless par2 names (mkO dir m2))
  /\ o_dir (snd (orun CoStateless par1 names (mkO dir m1))) = o_dir (snd (orun CoStateless par2 names (mkO dir m2))).
Proof. split; reflexivity. Qed.

Lemma mem_app n l m : mem n (l ++ m) = mem n l || mem n m.
Proof. unfold mem. apply existsb_app. Qed.

Lemma mem_filter_self (P : N -> bool) n l : In n l -> P n = true -> mem n (filter P l) = true.
Proof.
  intros Hin HP. unfold mem. apply existsb_exists. exists n. split; [|apply N.eqb_refl].
  apply filter_In. split; assumption.
Qed.

Lemma stateless_repeat_no_calls par1 par2 names s :
  fst (orun CoStateless par2 names (snd (orun CoStateless par1 names s))) = 0.
Proof.
  cbn [orun fst snd o_dir].
  set (new := filter (fun n => negb (mem n (o_dir s))) names).
  assert (H : forall n, In n names -> negb (mem n (new ++ o_dir s)) = false).
  { intros n Hin. rewrite mem_app. destruct (mem n (o_dir s)) eqn:E; [rewrite orb_true_r; reflexivity|].
    unfold new. rewrite mem_filter_self; [reflexivity | exact Hin | rewrite E; reflexivity]. }
  clearbody new. induction names as [|a l IH]; [reflexivity|]. cbn [filter].
  rewrite (H a (or_introl eq_refl)). apply IH. intros n Hin. apply H. right. exact Hin.
Qed.

(** the big-step count is the count of the small-step model: for a directory listing [l] of a file system
    [f], the new names of a run are its missing pairs *)
Lemma orun_calls_agree (V : Type) (name : N -> N) (f : fs V) (l : list N) par m (items : list (N * N)) :
  (forall n, mem n l = true <-> f (Final n) <> None) ->
  fst (orun CoStateless par (map (fun kx => name (fst kx)) items) (mkO l m)) = length (missing V name items f).
Proof.
  intros Hl. cbn [orun fst o_dir]. unfold missing. induction items as [|[k x] r IH]; [reflexivity|].
  cbn [map filter fst]. unfold absent at 1.
  destruct (f (Final (name k))) as [c|] eqn:E.
  - assert (Hm : mem (name k) l = true) by (apply Hl; rewrite E; discriminate).
    rewrite Hm. cbn [negb]. exact IH.
  - assert (Hm : mem (name k) l = false).
    { destruct (mem (name k) l) eqn:Em; [|reflexivity]. apply Hl in Em. contradiction. }
    rewrite Hm. cbn [negb length]. f_equal. exact IH.
Qed.

(** REGRESSION (seeded/C19-5): with the memoised listing a second PARALLEL run with the same object over
    the same keys recomputes every result although all files are on disk; the stateless object computes
    none; and a growing key set (A, A, A ++ B in parallel) costs |A|, |A|, |A| + |B| instead of |A|, 0, |B| *)
Lemma listing_memo_refuted :
  (forall names dir, names <> [] -> (forall n, In n names -> mem n dir = false) ->
     let s0 := mkO dir None in
     fst (orun CoListingMemo true names (snd (orun CoListingMemo true names s0))) = length names
     /\ length names <> 0
     /\ fst (orun CoStateless true names (snd (orun CoStateless true names s0))) = 0)
  /\ osession CoListingMemo [(true, [1; 2; 3]); (true, [1; 2; 3]); (true, [1; 2; 3; 4; 5])]%N (mkO [] None) = [3; 3; 5]
  /\ osession CoStateless [(true, [1; 2; 3]); (true, [1; 2; 3]); (true, [1; 2; 3; 4; 5])]%N (mkO [] None) = [3; 0; 2]
  /\ osession CoListingMemo [(false, [1; 2; 3]); (false, [1; 2; 3]); (false, [1; 2; 3; 4; 5])]%N (mkO [] None) = [3; 0; 2].
Proof.
  split; [|split; [|split]]; try (vm_compute; reflexivity).
  intros names dir Hne Hfresh s0. split; [|split].
  - cbn [orun fst snd o_memo o_dir s0].
    assert (E : filter (fun n => negb (mem n dir)) names = names).
    { clear Hne. induction names as [|a l IH]; [reflexivity|]. cbn [filter].
      rewrite (Hfresh a (or_introl eq_refl)). cbn [negb]. f_equal. apply IH. intros n Hin. apply Hfresh. right. exact Hin. }
    rewrite E. reflexivity.
  - destruct names; [congruence | discriminate].
  - apply stateless_repeat_no_calls.
Qed.
