(* REGENERATED from src/mxlpy/parallel.py (_pickle_save, _load_or_run, _pickle_load, _pickle_name, Cache,
   parallelise) and src/mxlpy/scan.py by harness/c19.py; do not edit.  An unrecognised shape yields
   SaveUnknown / false / NameUnknown / CoUnknown / SnUnknown / LkUnknown / MkUnknown, which breaks C19_facts_pinned /
   C19_object_facts_pinned / C19_life_facts_pinned. *)
From CacheFS Require Import CacheKeys CacheFS CacheCodec CacheObject CacheLife.
Definition gen_cache_facts : cache_facts := mkCacheFacts SaveTempReplace true true NameReprEsc.
Definition gen_cache_object : cache_object_kind := CoStateless.
Definition gen_save_name : save_name_kind := SnFinal.
Definition gen_lookup : lookup_kind := LkExists.
Definition gen_mkdir : mkdir_kind := MkAtRun.
