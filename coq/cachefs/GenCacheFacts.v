(* REGENERATED from src/mxlpy/parallel.py (_pickle_save, _load_or_run, _pickle_load, _pickle_name, Cache,
   parallelise) and src/mxlpy/scan.py by harness/c19.py; do not edit.  An unrecognised shape yields
   SaveUnknown / false / NameUnknown, which breaks C19_facts_pinned. *)
From CacheFS Require Import CacheKeys CacheFS.
Definition gen_cache_facts : cache_facts := mkCacheFacts SaveTempReplace true true NameRepr.
