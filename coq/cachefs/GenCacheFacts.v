From CacheFS Require Import CacheFS.
Definition gen_cache_facts : cache_facts := mkCacheFacts SaveTempReplace true true.
