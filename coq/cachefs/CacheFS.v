(** C19 -- executable model of the result cache of src/mxlpy/parallel.py
    (_pickle_name, _pickle_load, _pickle_save, _load_or_run, parallelise).

    MODEL ONLY (no proofs here, so the model still runs when a proof breaks).

    * a file system is a map  path -> option (v, j)  : "the file holds the first j bytes of
      pickle.dumps(v)"; a file EXISTS from the instant it is opened for writing (j = 0);
    * one worker (= one call of _load_or_run for one (key, input) pair) is a small state machine
      whose micro-steps are the instants at which the process can die:
        PStart   file.exists()?                          -> PLoad | PRun
        PLoad    cache.load_fn(file)                     -> PDone (Ok v) | PDone Raised  (torn / absent file)
        PRun     res = fn(v)                             -> POpen res
        POpen    <target>.open("wb")   (creates / truncates: 0 bytes)   -> PWrite res 0 0
        PWrite   next byte of pickle.dump ; after the last byte the close   -> PWrite | PReplace | PCloseR | PDone
        PReplace os.replace(tmp, file)  (temp+replace protocol)         -> PDone
        PCloseR  close of the handle AFTER the replace (replace-before-close protocol only) -> PDone
      <target> is the final file for the direct protocol (the code as first found) and a temporary
      file in the same directory for the temp+replace protocols; which one is a FACT extracted from
      the source (GenCacheFacts.v);
    * USER-SPACE BUFFERING: [PWrite v j d] = j bytes of the pickle were handed to fp.write, d <= j of
      them have reached the file, the other j - d sit in the buffer of the file object (they exist
      only in the memory of the process).  A flush policy [pol v j] says whether the write call that
      hands over byte j also pushes the buffer to the file: [pol_through] (always; an unbuffered
      handle) and [pol_buffered] (never; io.BufferedWriter with a payload below its buffer size)
      are the two extremes, everything between them (a buffer of n bytes) is another [pol].  close()
      drains the buffer.  A crash is a prefix of a schedule: the program counters -- and with them
      every buffer -- are discarded, only the file system survives.
    * OUT OF SCOPE: power loss / kernel crash.  The file system of the model is what the kernel has
      been handed (page cache), which survives the death of a process but not of the machine; there
      is no fsync step, and _pickle_save calls none;
    * a run is a schedule: the list of worker indices taking the next micro-step.  Sequential
      execution is one particular schedule, the pebble pool any interleaving; a crash is a
      prefix of a schedule (the set of schedules is prefix closed);
    * [run_seq] mirrors `list(map(worker, inputs))`: workers one after the other, the first
      exception propagates and later keys are never touched; [run_par] mirrors the pool: every
      worker runs, the exception surfaces when results are collected. *)
From Coq Require Import List NArith ZArith Bool Arith Lia.
From MxlBase Require Import ListX.
From CacheFS Require Import CacheKeys.
Import ListNotations.

(** facts extracted from the source *)
(* SaveReplaceOpen: temp file, but os.replace(tmp, file) is executed INSIDE the `with tmp.open(...)`
   block, i.e. before the handle is closed (the seeded change seeded/C19-1) *)
Inductive save_protocol := SaveDirect | SaveTempReplace | SaveReplaceOpen | SaveUnknown.
Record cache_facts := mkCacheFacts {
  cf_save : save_protocol;      (* shape of _pickle_save *)
  cf_load_or_run : bool;        (* _load_or_run / _pickle_load / the Cache defaults have the modelled shape *)
  cf_wiring : bool;             (* parallelise + the four scan functions pass the cache through as modelled *)
  cf_name : name_kind           (* shape of _pickle_name, the default Cache.name_fn (CacheKeys.v) *)
}.

Definition save_protocol_eqb (a b : save_protocol) : bool :=
  match a, b with
  | SaveDirect, SaveDirect | SaveTempReplace, SaveTempReplace | SaveReplaceOpen, SaveReplaceOpen
  | SaveUnknown, SaveUnknown => true
  | _, _ => false
  end.

(** paths of the cache directory: the final file of a name, and the temporary file a process
    [p] uses while writing that name *)
Inductive path := Final (n : N) | Tmp (p n : N).

Definition path_eqb (a b : path) : bool :=
  match a, b with
  | Final n, Final m => N.eqb n m
  | Tmp p n, Tmp q m => N.eqb p q && N.eqb n m
  | _, _ => false
  end.

Fixpoint set_nth {A} (i : nat) (x : A) (l : list A) : list A :=
  match l, i with
  | [], _ => []
  | _ :: r, O => x :: r
  | y :: r, S i' => y :: set_nth i' x r
  end.

Section Model.
  Variable V : Type.            (* results *)
  Variable name : N -> N.       (* cache.name_fn : key -> file name (as ids) *)
  Variable fnv : N -> V.        (* fn applied to the input with id x (deterministic) *)
  Variable size : V -> nat.     (* len(pickle.dumps v) *)
  Variable pol : V -> nat -> bool.  (* flush policy: does the write handing over byte j reach the file at once? *)

  Definition content := (V * nat)%type.
  Definition fs := path -> option content.
  Definition fs_empty : fs := fun _ => None.
  Definition upd (f : fs) (q : path) (c : option content) : fs :=
    fun r => if path_eqb r q then c else f r.

  Inductive res := Ok (v : V) | Raised.
  Inductive pc :=
  | PStart | PLoad | PRun
  | POpen (v : V) | PWrite (v : V) (j d : nat) | PReplace (v : V) | PCloseR (v : V) (d : nat)
  | PDone (r : res).

  Definition is_temp (pr : save_protocol) : bool :=
    match pr with SaveTempReplace | SaveReplaceOpen => true | _ => false end.
  (* an unrecognised save protocol is treated like the direct write (the worst case) *)
  Definition target (pr : save_protocol) (p n : N) : path :=
    if is_temp pr then Tmp p n else Final n.

  (** one micro-step of the worker for (k, x):  new fs, new pc, "fn was called", "fs changed" *)
  Definition step1 (pr : save_protocol) (p k x : N) (f : fs) (c : pc) : fs * pc * bool * bool :=
    let n := name k in
    match c with
    | PStart => (f, match f (Final n) with Some _ => PLoad | None => PRun end, false, false)
    | PLoad =>
        (f, match f (Final n) with
            | Some (v, j) => if Nat.eqb j (size v) then PDone (Ok v) else PDone Raised
            | None => PDone Raised
            end, false, false)
    | PRun => (f, POpen (fnv x), true, false)
    | POpen v => (upd f (target pr p n) (Some (v, 0)), PWrite v 0 0, false, true)
    | PWrite v j d =>
        if Nat.ltb j (size v)
        then (* fp.write of the next byte: it reaches the file now iff the policy flushes here *)
             if pol v (S j)
             then (upd f (target pr p n) (Some (v, S j)), PWrite v (S j) (S j), false, true)
             else (f, PWrite v (S j) d, false, false)
        else (* pickle.dump has returned *)
          match pr with
          | SaveReplaceOpen =>
              (* os.replace(tmp, file) with the handle still open: the final name now denotes the
                 file as it is ON DISK (d bytes) *)
              (upd (upd f (Final n) (f (Tmp p n))) (Tmp p n) None, PCloseR v d, false, true)
          | _ =>
              (* leaving the with block: close() drains the buffer into the target *)
              (if Nat.ltb d (size v) then upd f (target pr p n) (Some (v, size v)) else f,
               if is_temp pr then PReplace v else PDone (Ok v), false, Nat.ltb d (size v))
          end
    | PReplace v =>
        (upd (upd f (Final n) (f (Tmp p n))) (Tmp p n) None, PDone (Ok v), false, true)
    | PCloseR v d =>
        (* close() of the renamed handle: the buffer drains into what is now the final file *)
        (if Nat.ltb d (size v) then upd f (Final n) (Some (v, size v)) else f,
         PDone (Ok v), false, Nat.ltb d (size v))
    | PDone _ => (f, c, false, false)
    end.

  Record sys := mkSys { s_fs : fs; s_pcs : list pc; s_calls : N; s_effs : N }.

  Definition init (items : list (N * N)) (f : fs) : sys :=
    mkSys f (map (fun _ => PStart) items) 0 0.

  Definition sys_step (pr : save_protocol) (p : N) (items : list (N * N)) (st : sys) (i : nat) : sys :=
    match nth_error items i, nth_error (s_pcs st) i with
    | Some (k, x), Some c =>
        match step1 pr p k x (s_fs st) c with
        | (f', c', called, eff) =>
            mkSys f' (set_nth i c' (s_pcs st))
                  (if called then N.succ (s_calls st) else s_calls st)
                  (if eff then N.succ (s_effs st) else s_effs st)
        end
    | _, _ => st
    end.

  Definition exec pr p items (sched : list nat) (st : sys) : sys :=
    fold_left (sys_step pr p items) sched st.

  (** the same, but the process dies once [b] file-system effects have happened *)
  Definition spent (b : option N) (st : sys) : bool :=
    match b with None => false | Some e => N.leb e (s_effs st) end.
  Definition sys_step_b b pr p items (st : sys) (i : nat) : sys :=
    if spent b st then st else sys_step pr p items st i.
  Definition exec_b b pr p items (sched : list nat) (st : sys) : sys :=
    fold_left (sys_step_b b pr p items) sched st.

  (** enough turns for the worker of input x to finish, whatever path it takes *)
  Definition wfuel (x : N) : nat := size (fnv x) + 5.
  Definition block (items : list (N * N)) (i : nat) : list nat :=
    match nth_error items i with Some (_, x) => repeat i (wfuel x) | None => [] end.

  Definition done_ok (st : sys) (i : nat) : bool :=
    match nth_error (s_pcs st) i with Some (PDone (Ok _)) => true | _ => false end.

  (** list(map(worker, inputs)): worker i, i+1, ... ; stop at the first worker that did not
      return (it raised, or the process died) *)
  Fixpoint run_seq_aux b pr p items (n i : nat) (st : sys) : sys :=
    match n with
    | O => st
    | S n' =>
        let st' := exec_b b pr p items (block items i) st in
        if done_ok st' i then run_seq_aux b pr p items n' (S i) st' else st'
    end.
  Definition run_seq b pr p items (f : fs) : sys :=
    run_seq_aux b pr p items (length items) 0 (init items f).

  (** the pool: every worker runs to completion (here in index order; the theorems cover every
      interleaving); optionally worker [c] dies after [e] effects of its own while the others finish *)
  Definition all_blocks (items : list (N * N)) : list nat :=
    concat (map (block items) (seq 0 (length items))).
  Definition run_par pr p items (f : fs) : sys := exec pr p items (all_blocks items) (init items f).
  Definition run_par_exit pr p items (f : fs) (c : nat) (e : N) : sys :=
    let st1 := exec_b (Some e) pr p items (block items c) (init items f) in
    exec pr p items (concat (map (block items) (filter (fun j => negb (Nat.eqb j c)) (seq 0 (length items))))) st1.

  (** what the caller gets *)
  Fixpoint collect (items : list (N * N)) (pcs : list pc) : option (list (N * V)) :=
    match items, pcs with
    | [], _ => Some []
    | (k, _) :: r, PDone (Ok v) :: cs =>
        match collect r cs with Some l => Some ((k, v) :: l) | None => None end
    | _, _ => None
    end.
  Definition is_done (c : pc) : bool := match c with PDone _ => true | _ => false end.
  Definition is_raised (c : pc) : bool := match c with PDone Raised => true | _ => false end.
  Definition all_done (st : sys) : bool := forallb is_done (s_pcs st).

  (** `cache is None`: res = fn(v) for every pair, in order *)
  Definition run_uncached (items : list (N * N)) : list (N * V) :=
    map (fun kx => (fst kx, fnv (snd kx))) items.

  Inductive outcome := Returned (l : list (N * V)) | Raises | Died.
  Definition outcome_of (items : list (N * N)) (st : sys) : outcome :=
    if existsb is_raised (s_pcs st) then Raises
    else match collect items (s_pcs st) with Some l => Returned l | None => Died end.

  (** observation of the directory: per item, the final file and this process' temporary file *)
  Definition observe (p : N) (items : list (N * N)) (f : fs) : list (option content * option content) :=
    map (fun kx => (f (Final (name (fst kx))), f (Tmp p (name (fst kx))))) items.
End Model.

Arguments Ok {V}. Arguments Raised {V}.
Arguments PStart {V}. Arguments PLoad {V}. Arguments PRun {V}. Arguments POpen {V}.
Arguments PWrite {V}. Arguments PReplace {V}. Arguments PCloseR {V}. Arguments PDone {V}.
Arguments Returned {V}. Arguments Raises {V}. Arguments Died {V}.
Arguments fs_empty {V}.
Arguments s_fs {V}. Arguments s_pcs {V}. Arguments s_calls {V}. Arguments s_effs {V}.
Arguments collect {V}. Arguments all_done {V}. Arguments outcome_of {V}. Arguments is_done {V}.
Arguments is_raised {V}.
Arguments init {V}. Arguments upd {V}.

(** the two extreme flush policies *)
Definition pol_through {V : Type} : V -> nat -> bool := fun _ _ => true.    (* unbuffered handle *)
Definition pol_buffered {V : Type} : V -> nat -> bool := fun _ _ => false.  (* nothing before close() *)
