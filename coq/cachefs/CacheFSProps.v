(** C19 -- the property-level lemmas, assembled from CacheFSProofs.v and stated for a fact record
    (instantiated at the regenerated [gen_cache_facts] in PropsC19.v). *)
From Coq Require Import List NArith ZArith Bool Arith Lia.
From MxlBase Require Import ListX.
From CacheFS Require Import CacheFS CacheFSSpec CacheFSProofs.
Import ListNotations.

Definition expected_facts : cache_facts := mkCacheFacts SaveTempReplace true true.

Section Props.
  Variable V : Type.
  Variable name : N -> N.
  Variable fnv : N -> V.
  Variable size : V -> nat.
  Variable facts : cache_facts.
  Hypothesis Hfacts : facts = expected_facts.

  Let Hpr : cf_save facts = SaveTempReplace.
  Proof. rewrite Hfacts. reflexivity. Qed.

  Lemma good_empty : forall items, Good V name fnv size items fs_empty.
  Proof. intros items k x _. left. reflexivity. Qed.

  Lemma transparent :
    forall items p,
      names_distinct name items ->
      collect items (s_pcs (run_seq V name fnv size None (cf_save facts) p items fs_empty))
        = Some (run_uncached V fnv items)
      /\ collect items (s_pcs (run_par V name fnv size (cf_save facts) p items fs_empty))
        = Some (run_uncached V fnv items)
      /\ forall sched,
           let st := exec V name fnv size (cf_save facts) p items sched (init items fs_empty) in
           all_done st = true -> collect items (s_pcs st) = Some (run_uncached V fnv items).
  Proof.
    intros items p Hnd. split; [|split].
    - apply (run_seq_correct V name fnv size _ Hpr items fs_empty p Hnd (good_empty items)).
    - apply (run_par_correct V name fnv size _ Hpr items fs_empty p Hnd (good_empty items)).
    - intros sched st Hd.
      apply (complete_run_correct V name fnv size _ Hpr items fs_empty p sched Hnd (good_empty items) Hd).
  Qed.

  Lemma second_run_hits_disk :
    forall items p1 p2 sched1,
      names_distinct name items ->
      let st1 := exec V name fnv size (cf_save facts) p1 items sched1 (init items fs_empty) in
      all_done st1 = true ->
      forall sched2,
        let st2 := exec V name fnv size (cf_save facts) p2 items sched2 (init items (s_fs st1)) in
        s_calls st2 = 0%N /\ s_effs st2 = 0%N /\ (forall q, s_fs st2 q = s_fs st1 q)
        /\ (all_done st2 = true -> collect items (s_pcs st2) = Some (run_uncached V fnv items)).
  Proof.
    intros items p1 p2 sched1 Hnd st1 Hd sched2.
    apply cached_run_no_recompute.
    apply (complete_run_correct V name fnv size _ Hpr items fs_empty p1 sched1 Hnd (good_empty items) Hd).
  Qed.

  Lemma crash_then_rerun :
    forall items f0 p1 sched1,
      names_distinct name items -> Good V name fnv size items f0 ->
      let f1 := s_fs (exec V name fnv size (cf_save facts) p1 items sched1 (init items f0)) in
      Good V name fnv size items f1
      /\ forall p2,
           (forall sched2,
              let st2 := exec V name fnv size (cf_save facts) p2 items sched2 (init items f1) in
              all_done st2 = true ->
              collect items (s_pcs st2) = Some (run_uncached V fnv items)
              /\ AllCached V name fnv size items (s_fs st2))
           /\ (let st2 := run_seq V name fnv size None (cf_save facts) p2 items f1 in
               all_done st2 = true /\ collect items (s_pcs st2) = Some (run_uncached V fnv items)
               /\ AllCached V name fnv size items (s_fs st2))
           /\ (let st2 := run_par V name fnv size (cf_save facts) p2 items f1 in
               all_done st2 = true /\ collect items (s_pcs st2) = Some (run_uncached V fnv items)
               /\ AllCached V name fnv size items (s_fs st2)).
  Proof.
    intros items f0 p1 sched1 Hnd Hg f1.
    assert (Hg1 : Good V name fnv size items f1)
      by (apply (crash_state_good V name fnv size _ Hpr items f0 p1 sched1 Hnd Hg)).
    split; [exact Hg1|]. intros p2. split; [|split].
    - intros sched2 st2 Hd.
      apply (complete_run_correct V name fnv size _ Hpr items f1 p2 sched2 Hnd Hg1 Hd).
    - apply (run_seq_correct V name fnv size _ Hpr items f1 p2 Hnd Hg1).
    - apply (run_par_correct V name fnv size _ Hpr items f1 p2 Hnd Hg1).
  Qed.

  (** any number of interrupted runs, each killed anywhere, leave a directory from which the
      theorem above applies again *)
  Definition after_crashes (items : list (N * N)) (f0 : fs V) (runs : list (N * list nat)) : fs V :=
    fold_left (fun f r => s_fs (exec V name fnv size (cf_save facts) (fst r) items (snd r) (init items f))) runs f0.

  Lemma any_number_of_crashes :
    forall items runs f0,
      names_distinct name items -> Good V name fnv size items f0 ->
      Good V name fnv size items (after_crashes items f0 runs).
  Proof.
    intros items runs. induction runs as [|[p sched] rest IH]; intros f0 Hnd Hg.
    - exact Hg.
    - unfold after_crashes. cbn [fold_left fst snd]. apply IH; [exact Hnd|].
      apply (crash_state_good V name fnv size _ Hpr items f0 p sched Hnd Hg).
  Qed.
End Props.

(** the finding behind the guard [names_distinct]: two DIFFERENT keys with the same file name
    (e.g. 1 and "1" under the default name_fn) -- the second key gets the first key's result *)
Lemma name_collision_refuted :
  forall pr,
  exists (name : N -> N) (items : list (N * N)),
    NoDup (map fst items)
    /\ collect items (s_pcs (run_seq Z name Z.of_N (fun _ => 1) None pr 1 items fs_empty))
       <> Some (run_uncached Z Z.of_N items).
Proof.
  intros pr. exists (fun _ => 0%N), [(1%N, 2%N); (2%N, 3%N)]. split.
  - repeat constructor; cbn; intuition discriminate.
  - destruct pr; vm_compute; discriminate.
Qed.

(** the direct write, from an EMPTY directory: kill the only worker right after open("wb") *)
Lemma torn_refuted :
  exists (items : list (N * N)) (sched1 : list nat),
    names_distinct (fun k => k) items
    /\ let f1 := s_fs (exec Z (fun k => k) Z.of_N (fun _ => 5) SaveDirect 1 items sched1 (init items fs_empty)) in
       forall p2 sched2,
         let st2 := exec Z (fun k => k) Z.of_N (fun _ => 5) SaveDirect p2 items sched2 (init items f1) in
         all_done st2 = true -> collect items (s_pcs st2) = None.
Proof.
  exists [(1%N, 2%N)], [0; 0; 0]. split.
  - repeat constructor; cbn; intuition.
  - intros f1 p2 sched2 st2.
    assert (Hnd : names_distinct (fun k : N => k) [(1%N, 2%N)]) by (repeat constructor; cbn; intuition).
    assert (Hf : f1 (Final 1%N) = Some (2%Z, 0)) by (vm_compute; reflexivity).
    destruct (direct_torn_poisons Z (fun k => k) Z.of_N (fun _ => 5) SaveDirect eq_refl
                [(1%N, 2%N)] f1 p2 sched2 0 1%N 2%N 2%Z 0 Hnd eq_refl Hf) as [_ [_ H]].
    + discriminate.
    + exact H.
Qed.
