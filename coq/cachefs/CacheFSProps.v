(** C19 -- the property-level lemmas, assembled from CacheFSProofs.v and stated for a fact record
    (instantiated at the regenerated [gen_cache_facts] in PropsC19.v). *)
From Coq Require Import List NArith ZArith Bool Arith Lia Ascii String.
From MxlBase Require Import ListX.
From CacheFS Require Import CacheKeys CacheFS CacheFSSpec ExpectedFacts CacheKeysProofs CacheFSProofs CacheSessionProofs.
Import ListNotations.


Section Props.
  Variable V : Type.
  Variable name : N -> N.
  Variable fnv : N -> V.
  Variable size : V -> nat.
  Variable facts : cache_facts.
  Hypothesis Hfacts : facts = expected_facts.

  Let Hpr : cf_save facts = SaveTempReplace.
  Proof. rewrite Hfacts. reflexivity. Qed.

  Lemma good_empty : forall items, Good V name fnv size items fs_empty.
  Proof. intros items k x _. left. reflexivity. Qed.

  Lemma transparent :
    forall pol items p,
      names_distinct name items ->
      collect items (s_pcs (run_seq V name fnv size pol None (cf_save facts) p items fs_empty))
        = Some (run_uncached V fnv items)
      /\ collect items (s_pcs (run_par V name fnv size pol (cf_save facts) p items fs_empty))
        = Some (run_uncached V fnv items)
      /\ forall sched,
           let st := exec V name fnv size pol (cf_save facts) p items sched (init items fs_empty) in
           all_done st = true -> collect items (s_pcs st) = Some (run_uncached V fnv items).
  Proof.
    intros pol items p Hnd. split; [|split].
    - apply (run_seq_correct V name fnv size pol _ Hpr items fs_empty p Hnd (good_empty items)).
    - apply (run_par_correct V name fnv size pol _ Hpr items fs_empty p Hnd (good_empty items)).
    - intros sched st Hd.
      apply (complete_run_correct V name fnv size pol _ Hpr items fs_empty p sched Hnd (good_empty items) Hd).
  Qed.

  Lemma second_run_hits_disk :
    forall pol1 pol2 items p1 p2 sched1,
      names_distinct name items ->
      let st1 := exec V name fnv size pol1 (cf_save facts) p1 items sched1 (init items fs_empty) in
      all_done st1 = true ->
      forall sched2,
        let st2 := exec V name fnv size pol2 (cf_save facts) p2 items sched2 (init items (s_fs st1)) in
        s_calls st2 = 0%N /\ s_effs st2 = 0%N /\ (forall q, s_fs st2 q = s_fs st1 q)
        /\ (all_done st2 = true -> collect items (s_pcs st2) = Some (run_uncached V fnv items)).
  Proof.
    intros pol1 pol2 items p1 p2 sched1 Hnd st1 Hd sched2.
    apply cached_run_no_recompute.
    apply (complete_run_correct V name fnv size pol1 _ Hpr items fs_empty p1 sched1 Hnd (good_empty items) Hd).
  Qed.

  Lemma crash_then_rerun :
    forall pol1 pol2 items f0 p1 sched1,
      names_distinct name items -> Good V name fnv size items f0 ->
      let f1 := s_fs (exec V name fnv size pol1 (cf_save facts) p1 items sched1 (init items f0)) in
      Good V name fnv size items f1
      /\ forall p2,
           (forall sched2,
              let st2 := exec V name fnv size pol2 (cf_save facts) p2 items sched2 (init items f1) in
              all_done st2 = true ->
              collect items (s_pcs st2) = Some (run_uncached V fnv items)
              /\ AllCached V name fnv size items (s_fs st2))
           /\ (let st2 := run_seq V name fnv size pol2 None (cf_save facts) p2 items f1 in
               all_done st2 = true /\ collect items (s_pcs st2) = Some (run_uncached V fnv items)
               /\ AllCached V name fnv size items (s_fs st2))
           /\ (let st2 := run_par V name fnv size pol2 (cf_save facts) p2 items f1 in
               all_done st2 = true /\ collect items (s_pcs st2) = Some (run_uncached V fnv items)
               /\ AllCached V name fnv size items (s_fs st2)).
  Proof.
    intros pol1 pol2 items f0 p1 sched1 Hnd Hg f1.
    assert (Hg1 : Good V name fnv size items f1)
      by (apply (crash_state_good V name fnv size pol1 _ Hpr items f0 p1 sched1 Hnd Hg)).
    split; [exact Hg1|]. intros p2. split; [|split].
    - intros sched2 st2 Hd.
      apply (complete_run_correct V name fnv size pol2 _ Hpr items f1 p2 sched2 Hnd Hg1 Hd).
    - apply (run_seq_correct V name fnv size pol2 _ Hpr items f1 p2 Hnd Hg1).
    - apply (run_par_correct V name fnv size pol2 _ Hpr items f1 p2 Hnd Hg1).
  Qed.

  (** any number of interrupted runs, each killed anywhere and each with its own flush policy, leave a
      directory from which the theorem above applies again *)
  Definition after_crashes (items : list (N * N)) (f0 : fs V)
             (runs : list (N * (V -> nat -> bool) * list nat)) : fs V :=
    fold_left (fun f r => s_fs (exec V name fnv size (snd (fst r)) (cf_save facts) (fst (fst r)) items (snd r) (init items f)))
              runs f0.

  Lemma any_number_of_crashes :
    forall items runs f0,
      names_distinct name items -> Good V name fnv size items f0 ->
      Good V name fnv size items (after_crashes items f0 runs).
  Proof.
    intros items runs. induction runs as [|[[p pol] sched] rest IH]; intros f0 Hnd Hg.
    - exact Hg.
    - unfold after_crashes. cbn [fold_left fst snd]. apply IH; [exact Hnd|].
      apply (crash_state_good V name fnv size pol _ Hpr items f0 p sched Hnd Hg).
  Qed.
End Props.

(** the finding behind the guard [names_distinct]: two DIFFERENT keys with the same file name
    (e.g. 1 and "1" under the default name_fn) -- the second key gets the first key's result *)
Lemma name_collision_refuted :
  forall pr,
  exists (name : N -> N) (items : list (N * N)),
    NoDup (map fst items)
    /\ collect items (s_pcs (run_seq Z name Z.of_N (fun _ => 1) pol_through None pr 1 items fs_empty))
       <> Some (run_uncached Z Z.of_N items).
Proof.
  intros pr. exists (fun _ => 0%N), [(1%N, 2%N); (2%N, 3%N)]. split.
  - repeat constructor; cbn; intuition discriminate.
  - destruct pr; vm_compute; discriminate.
Qed.

(** the direct write, from an EMPTY directory: kill the only worker right after open("wb") *)
Lemma torn_refuted :
  exists (items : list (N * N)) (sched1 : list nat),
    names_distinct (fun k => k) items
    /\ forall pol1,
       let f1 := s_fs (exec Z (fun k => k) Z.of_N (fun _ => 5) pol1 SaveDirect 1 items sched1 (init items fs_empty)) in
       forall pol2 p2 sched2,
         let st2 := exec Z (fun k => k) Z.of_N (fun _ => 5) pol2 SaveDirect p2 items sched2 (init items f1) in
         all_done st2 = true -> collect items (s_pcs st2) = None.
Proof.
  exists [(1%N, 2%N)], [0; 0; 0]. split.
  - repeat constructor; cbn; intuition.
  - intros pol1 f1 pol2 p2 sched2 st2.
    assert (Hnd : names_distinct (fun k : N => k) [(1%N, 2%N)]) by (repeat constructor; cbn; intuition).
    assert (Hf : f1 (Final 1%N) = Some (2%Z, 0)) by reflexivity.
    destruct (torn_poisons Z (fun k => k) Z.of_N (fun _ => 5) pol2 SaveDirect
                [(1%N, 2%N)] f1 p2 sched2 0 1%N 2%N 2%Z 0 Hnd eq_refl Hf) as [_ [_ H]].
    + discriminate.
    + exact H.
Qed.

(** REGRESSION (seeded/C19-1): os.replace executed before the handle is closed.  With a handle that
    keeps the bytes in user space until close() (pol_buffered) the run is killed right after the
    replace: the final file exists with 0 bytes, the directory is not Good, and no rerun -- whatever
    its protocol, flush policy or interleaving -- returns.  With an unbuffered handle (pol_through)
    the very same kill point leaves a complete file: the defect is invisible to a write-through model. *)
Lemma replace_before_close_refuted :
  exists (items : list (N * N)) (sched1 : list nat),
    names_distinct (fun k => k) items
    /\ let f1 := s_fs (exec Z (fun k => k) Z.of_N (fun _ => 5) pol_buffered SaveReplaceOpen 1 items sched1 (init items fs_empty)) in
       ~ Good Z (fun k => k) Z.of_N (fun _ => 5) items f1
       /\ (forall pr2 pol2 p2 sched2,
             let st2 := exec Z (fun k => k) Z.of_N (fun _ => 5) pol2 pr2 p2 items sched2 (init items f1) in
             all_done st2 = true -> collect items (s_pcs st2) = None)
       /\ Good Z (fun k => k) Z.of_N (fun _ => 5) items
            (s_fs (exec Z (fun k => k) Z.of_N (fun _ => 5) pol_through SaveReplaceOpen 1 items sched1 (init items fs_empty))).
Proof.
  exists [(1%N, 2%N)], [0; 0; 0; 0; 0; 0; 0; 0; 0]. split; [|split; [|split]].
  - repeat constructor; cbn; intuition.
  - intros Hg. destruct (Hg 1%N 2%N (or_introl eq_refl)) as [H|H]; vm_compute in H; discriminate.
  - intros pr2 pol2 p2 sched2 st2.
    assert (Hnd : names_distinct (fun k : N => k) [(1%N, 2%N)]) by (repeat constructor; cbn; intuition).
    set (f1 := s_fs (exec Z (fun k => k) Z.of_N (fun _ => 5) pol_buffered SaveReplaceOpen 1 [(1%N, 2%N)]
                          [0; 0; 0; 0; 0; 0; 0; 0; 0] (init [(1%N, 2%N)] fs_empty))) in *.
    assert (Hf : f1 (Final 1%N) = Some (2%Z, 0)) by (vm_compute; reflexivity).
    destruct (torn_poisons Z (fun k => k) Z.of_N (fun _ => 5) pol2 pr2
                [(1%N, 2%N)] f1 p2 sched2 0 1%N 2%N 2%Z 0 Hnd eq_refl Hf) as [_ [_ H]].
    + discriminate.
    + exact H.
  - intros k x [E|[]]. inversion E; subst. right. vm_compute. reflexivity.
Qed.

(** * default file names *)

(** pairwise different keys of the universe get pairwise different file names under the repaired
    default name function *)
Lemma names_distinct_of_keys kind sh salt (keyof : N -> key) (items : list (N * N)) :
  kind = NameRepr \/ kind = NameReprEsc ->
  (forall kx, In kx items -> wf_key (keyof (fst kx)) = true) ->
  NoDup (map (fun kx => keyof (fst kx)) items) ->
  names_distinct (name_id kind sh salt keyof) items.
Proof.
  intros Hkind. unfold names_distinct. induction items as [|a items IH]; cbn [map]; intros W ND.
  - constructor.
  - inversion ND as [|? ? Hnin ND']; subst. constructor.
    + intros Hin. apply in_map_iff in Hin. destruct Hin as (b & Eb & Hb).
      apply Hnin. apply in_map_iff. exists b. split; [|exact Hb].
      apply (name_id_safe_inj kind sh salt keyof _ _ Hkind); try exact Eb; apply W; [right; exact Hb | left; reflexivity].
    + apply IH; [|exact ND']. intros kx Hkx. apply W. right. exact Hkx.
Qed.

Section NameProps.
  Variable V : Type.
  Variable keyof : N -> key.
  Variable fnv : N -> V.
  Variable size : V -> nat.
  Variable facts : cache_facts.
  Hypothesis Hsave : cf_save facts = SaveTempReplace.

  Let facts_eq : forall kind, cf_name facts = kind ->
      facts = mkCacheFacts (cf_save facts) (cf_load_or_run facts) (cf_wiring facts) kind.
  Proof. intros kind <-. destruct facts; reflexivity. Qed.

  (** FULL transparency statement for the repaired names *)
  Lemma transparent_repr :
    cf_name facts = NameRepr \/ cf_name facts = NameReprEsc ->
    forall pol items p sh salt,
      (forall kx, In kx items -> wf_key (keyof (fst kx)) = true) ->
      NoDup (map (fun kx => keyof (fst kx)) items) ->
      let name := name_id (cf_name facts) sh salt keyof in
      collect items (s_pcs (run_seq V name fnv size pol None (cf_save facts) p items fs_empty))
        = Some (run_uncached V fnv items)
      /\ collect items (s_pcs (run_par V name fnv size pol (cf_save facts) p items fs_empty))
        = Some (run_uncached V fnv items)
      /\ forall sched,
           let st := exec V name fnv size pol (cf_save facts) p items sched (init items fs_empty) in
           all_done st = true -> collect items (s_pcs st) = Some (run_uncached V fnv items).
  Proof.
    intros Hn pol items p sh salt W ND name. subst name.
    pose proof (names_distinct_of_keys (cf_name facts) sh salt keyof items Hn W ND) as Hnd.
    split; [|split].
    - apply (run_seq_correct V _ fnv size pol _ Hsave items fs_empty p Hnd (good_empty V _ fnv size items)).
    - apply (run_par_correct V _ fnv size pol _ Hsave items fs_empty p Hnd (good_empty V _ fnv size items)).
    - intros sched st Hd.
      apply (complete_run_correct V _ fnv size pol _ Hsave items fs_empty p sched Hnd
               (good_empty V _ fnv size items) Hd).
  Qed.

  (** a rerun in a NEW INTERPRETER (other process id, other string-hash salt, other flush policy)
      finds every result of a complete first run: names do not depend on the process *)
  Lemma new_interpreter_rerun_hits_disk_gen :
    cf_name facts = NameStr \/ cf_name facts = NameRepr \/ cf_name facts = NameReprEsc ->
    forall pol1 pol2 items p1 p2 sh1 sh2 salt1 salt2 sched1,
      let name1 := name_id (cf_name facts) sh1 salt1 keyof in
      let name2 := name_id (cf_name facts) sh2 salt2 keyof in
      names_distinct name1 items ->
      let st1 := exec V name1 fnv size pol1 (cf_save facts) p1 items sched1 (init items fs_empty) in
      all_done st1 = true ->
      forall sched2,
        let st2 := exec V name2 fnv size pol2 (cf_save facts) p2 items sched2 (init items (s_fs st1)) in
        s_calls st2 = 0%N /\ s_effs st2 = 0%N /\ (forall q, s_fs st2 q = s_fs st1 q)
        /\ (all_done st2 = true -> collect items (s_pcs st2) = Some (run_uncached V fnv items)).
  Proof.
    intros Hk pol1 pol2 items p1 p2 sh1 sh2 salt1 salt2 sched1 name1 name2 Hnd st1 Hd sched2.
    assert (E : name2 = name1).
    { subst name1 name2. destruct Hk as [Hk|[Hk|Hk]]; rewrite Hk; reflexivity. }
    rewrite E. apply cached_run_no_recompute.
    apply (complete_run_correct V name1 fnv size pol1 _ Hsave items fs_empty p1 sched1 Hnd
             (good_empty V name1 fnv size items) Hd).
  Qed.
End NameProps.

(** whichever of the two name functions ExpectedFacts.v expects, it ignores the process *)
Lemma expected_name_ok :
  C19_expected_name = NameStr \/ C19_expected_name = NameRepr \/ C19_expected_name = NameReprEsc.
Proof. unfold C19_expected_name. auto. Qed.

Lemma names_process_independent facts :
  facts = expected_facts ->
  forall sh1 sh2 salt1 salt2 k,
    name_of (cf_name facts) sh1 salt1 k = name_of (cf_name facts) sh2 salt2 k.
Proof. intros ->. apply name_salt_independent. exact expected_name_ok. Qed.

Lemma new_interpreter_rerun_hits_disk V keyof fnv size facts :
  facts = expected_facts ->
  forall pol1 pol2 items p1 p2 sh1 sh2 salt1 salt2 sched1,
    let name1 := name_id (cf_name facts) sh1 salt1 keyof in
    let name2 := name_id (cf_name facts) sh2 salt2 keyof in
    names_distinct name1 items ->
    let st1 := exec V name1 fnv size pol1 (cf_save facts) p1 items sched1 (init items fs_empty) in
    all_done st1 = true ->
    forall sched2,
      let st2 := exec V name2 fnv size pol2 (cf_save facts) p2 items sched2 (init items (s_fs st1)) in
      s_calls st2 = 0%N /\ s_effs st2 = 0%N /\ (forall q, s_fs st2 q = s_fs st1 q)
      /\ (all_done st2 = true -> collect items (s_pcs st2) = Some (run_uncached V fnv items)).
Proof.
  intros ->. apply new_interpreter_rerun_hits_disk_gen; [reflexivity | exact expected_name_ok].
Qed.

Lemma transparent_repr_tree V keyof fnv size facts :
  facts = expected_facts ->
  cf_name facts = NameRepr \/ cf_name facts = NameReprEsc ->
  forall pol items p sh salt,
    (forall kx, In kx items -> wf_key (keyof (fst kx)) = true) ->
    NoDup (map (fun kx => keyof (fst kx)) items) ->
    let name := name_id (cf_name facts) sh salt keyof in
    collect items (s_pcs (run_seq V name fnv size pol None (cf_save facts) p items fs_empty))
      = Some (run_uncached V fnv items)
    /\ collect items (s_pcs (run_par V name fnv size pol (cf_save facts) p items fs_empty))
      = Some (run_uncached V fnv items)
    /\ forall sched,
         let st := exec V name fnv size pol (cf_save facts) p items sched (init items fs_empty) in
         all_done st = true -> collect items (s_pcs st) = Some (run_uncached V fnv items).
Proof. intros ->. apply transparent_repr. reflexivity. Qed.

(** one run of a SESSION with the tree's save protocol (CacheSessionProofs.v) *)
Lemma session_step_tree V name fnv size facts :
  facts = expected_facts ->
  forall pol all items f0 p sched,
    names_distinct name all -> incl items all -> names_distinct name items ->
    Good V name fnv size all f0 ->
    let st := exec V name fnv size pol (cf_save facts) p items sched (init items f0) in
    all_done st = true ->
    collect items (s_pcs st) = Some (run_uncached V fnv items)
    /\ s_calls st = N.of_nat (length (missing V name items f0))
    /\ AllCached V name fnv size items (s_fs st)
    /\ (forall k x, In (k, x) all -> f0 (Final (name k)) = whole V fnv size x -> s_fs st (Final (name k)) = whole V fnv size x)
    /\ (forall n, ~ In n (map (fun kx => name (fst kx)) items) -> s_fs st (Final n) = f0 (Final n))
    /\ Good V name fnv size all (s_fs st).
Proof. intros ->. exact (session_step V name fnv size). Qed.

Lemma growing_key_set_tree V name fnv size facts :
  facts = expected_facts ->
  forall pol1 pol2 A B p1 p2 sched1 sched2,
    names_distinct name (A ++ B) ->
    let st1 := exec V name fnv size pol1 (cf_save facts) p1 A sched1 (init A fs_empty) in
    all_done st1 = true ->
    let st2 := exec V name fnv size pol2 (cf_save facts) p2 (A ++ B) sched2 (init (A ++ B) (s_fs st1)) in
    all_done st2 = true ->
    collect A (s_pcs st1) = Some (run_uncached V fnv A)
    /\ s_calls st1 = N.of_nat (length A)
    /\ collect (A ++ B) (s_pcs st2) = Some (run_uncached V fnv (A ++ B))
    /\ s_calls st2 = N.of_nat (length B).
Proof. intros ->. exact (growing_key_set V name fnv size). Qed.

(** REGRESSION / the finding while the tree still carries f"{k}.p": the int 1 and the str "1" are
    different keys of the universe with one file name; the second is answered with the first one's
    result on a FRESH directory *)
Definition collide_keyof (id : N) : key := if N.eqb id 1 then KInt 1 else KStr (chars "1"%string).

Lemma str_names_collide_refuted :
  forall pr,
  exists (keyof : N -> key) (items : list (N * N)),
    (forall kx, In kx items -> wf_key (keyof (fst kx)) = true)
    /\ NoDup (map (fun kx => keyof (fst kx)) items)
    /\ collect items (s_pcs (run_seq Z (name_id NameStr no_strhash 0 keyof) Z.of_N (fun _ => 1) pol_through
                                     None pr 1 items fs_empty))
       <> Some (run_uncached Z Z.of_N items)
    /\ collect items (s_pcs (run_seq Z (name_id NameRepr no_strhash 0 keyof) Z.of_N (fun _ => 1) pol_through
                                     None SaveTempReplace 1 items fs_empty))
       = Some (run_uncached Z Z.of_N items).
Proof.
  intros pr. exists collide_keyof, [(1%N, 2%N); (2%N, 3%N)]. split; [|split; [|split]].
  - intros kx [<-|[<-|[]]]; reflexivity.
  - repeat constructor; cbn; intuition discriminate.
  - destruct pr; vm_compute; discriminate.
  - vm_compute. reflexivity.
Qed.

(** REGRESSION (seeded/C19-3): names built on hash(k).  (a) the ints -1 and -2 are different keys with
    one hash, hence one file: wrong result on a fresh directory;  (b) [name_hash_depends_on_salt]:
    a str key gets another name in an interpreter with another hash salt *)
Definition neg_keyof (id : N) : key := KInt (- Z.of_N id).

Lemma hash_names_refuted :
  forall pr,
  exists (keyof : N -> key) (items : list (N * N)),
    (forall kx, In kx items -> wf_key (keyof (fst kx)) = true)
    /\ NoDup (map (fun kx => keyof (fst kx)) items)
    /\ collect items (s_pcs (run_seq Z (name_id NameHash no_strhash 0 keyof) Z.of_N (fun _ => 1) pol_through
                                     None pr 1 items fs_empty))
       <> Some (run_uncached Z Z.of_N items).
Proof.
  intros pr. exists neg_keyof, [(1%N, 2%N); (2%N, 3%N)]. split; [|split].
  - intros kx [<-|[<-|[]]]; reflexivity.
  - repeat constructor; cbn; intuition discriminate.
  - destruct pr; vm_compute; discriminate.
Qed.
