(** Hand-edited (together with a [fix:] commit in /repo only): which default name function
    PropsC19.v expects the extractor to regenerate from _pickle_name in the current tree.

    [C19_expected_name]
      NameStr    the snapshot: _pickle_name returns f"{k}.p"; two different keys with the same str()
                 share one file (recorded finding C19-name-collision; theorems
                 C19_transparent_refuted / C19_str_names_collide_refuted describe the tree, the
                 positive theorems hold under the guard [names_distinct])
      NameRepr   after fixes/C19-name-fn.diff (/repo 212c2b0): f"{k!r}.p"; theorem C19_transparent (no guard
                 on the names, only "the keys are pairwise different") applies to the tree.  SNAPSHOT of
                 the second switch: a key whose repr contains "/" cannot be cached (recorded finding
                 C19-slash-in-key, theorem C19_slash_names_refuted)
      NameReprEsc  after fixes/C19-slash-in-key.diff: repr with "%" -> "%25", "/" -> "%2F"; every name is a
                 single path component (C19_escaped_names_are_components), still injective
                 (C19_escaped_names_injective), C19_transparent applies
    tools/c19_switch.py (`slash snapshot|repaired <commit>`) rewrites this line, known_findings.d/C19.json
    and the switch sentence of the manifest note consistently. *)
From CacheFS Require Import CacheKeys CacheFS.

Definition C19_expected_name : name_kind := NameReprEsc.

Definition expected_facts : cache_facts := mkCacheFacts SaveTempReplace true true C19_expected_name.
