(** Hand-edited (together with a [fix:] commit in /repo only): which default name function
    PropsC19.v expects the extractor to regenerate from _pickle_name in the current tree.

    [C19_expected_name]
      NameStr    the snapshot: _pickle_name returns f"{k}.p"; two different keys with the same str()
                 share one file (recorded finding C19-name-collision; theorems
                 C19_transparent_refuted / C19_str_names_collide_refuted describe the tree, the
                 positive theorems hold under the guard [names_distinct])
      NameRepr   after fixes/C19-name-fn.diff: f"{k!r}.p"; theorem C19_transparent (no guard on the
                 names, only "the keys are pairwise different") applies to the tree
    tools/c19_switch.py rewrites this line and known_findings.d/C19.json consistently. *)
From CacheFS Require Import CacheKeys CacheFS.

Definition C19_expected_name : name_kind := NameRepr.

Definition expected_facts : cache_facts := mkCacheFacts SaveTempReplace true true C19_expected_name.
