(** C19 -- the LIFE of a Cache object and of its directory: what _load_or_run takes for "result available",
    and when the cache directory is created.  MODEL ONLY (no proofs here).  Big-step (complete runs in
    parallel=False order, result files are whole -- kill points are the business of CacheFS.v), over several
    directories, with the events of a working session between the runs.

      parallelise(fn, inputs, cache=cache):
          if cache is not None: cache.tmp_dir.mkdir(parents=True, exist_ok=True)      <- [mkdir_kind]
          per pair (k, x):  file = cache.tmp_dir / cache.name_fn(k)
                            if file.exists(): return k, cache.load_fn(file)           <- [lookup_kind]
                            res = fn(x); cache.save_fn(file, res)     (raises FileNotFoundError when the
                                                                       directory does not exist)

    [lookup_kind] -- regenerated from _load_or_run:
      LkExists      the mere existence of the file is "result available"; what is stored is returned whatever
                    it is (the code)
      LkNoneIsMiss  a helper returns the stored result "or None if there is nothing usable" and _load_or_run
                    computes whenever it gets None (seeded/C19-7): a stored result that IS None is a miss
      LkUnknown     anything else (treated like LkExists in the correspondence: a disagreement shows up)
    [mkdir_kind] -- regenerated from parallelise and the Cache class:
      MkAtRun        parallelise creates cache.tmp_dir at the start of every run (the code)
      MkAtConstruct  Cache.__post_init__ creates it when the object is constructed, parallelise does not
                     (seeded/C19-8)
      MkUnknown      anything else (treated like MkAtRun in the correspondence) *)
From Coq Require Import List NArith ZArith Bool.
Import ListNotations.

Inductive lookup_kind := LkExists | LkNoneIsMiss | LkUnknown.
Inductive mkdir_kind := MkAtRun | MkAtConstruct | MkUnknown.

Section Life.
  Variable V : Type.
  Variable fnv : N -> V.            (* fn on input ids *)
  Variable name : N -> N.           (* cache.name_fn on key ids *)
  Variable isnone : V -> bool.      (* the value IS None *)

  Definition ldir := N -> option V.              (* one directory: file name -> the (whole) stored result *)
  Definition ldir_empty : ldir := fun _ => None.
  Definition dset (d : ldir) (n : N) (v : V) : ldir := fun m => if N.eqb m n then Some v else d m.

  Definition world := N -> option ldir.          (* the directories that EXIST, by id *)
  Definition world_empty : world := fun _ => None.
  Definition wset (w : world) (i : N) (d : option ldir) : world := fun j => if N.eqb j i then d else w j.
  (* mkdir(parents=True, exist_ok=True) *)
  Definition wmk (w : world) (i : N) : world :=
    match w i with Some _ => w | None => wset w i (Some ldir_empty) end.

  (** one _load_or_run call; [d] = the directory cache.tmp_dir points to, None when it does not exist.
      Result (None = the call raised), "fn was called", the directory afterwards *)
  Definition llor (lk : lookup_kind) (k x : N) (d : option ldir) : option V * bool * option ldir :=
    match d with
    | None => (None, true, None)     (* file.exists() is False, fn runs, the save cannot open its file *)
    | Some dir =>
        let n := name k in
        let compute := (Some (fnv x), true, Some (dset dir n (fnv x))) in
        match dir n with
        | None => compute
        | Some v =>
            match lk with
            | LkNoneIsMiss => if isnone v then compute else (Some v, false, d)
            | _ => (Some v, false, d)
            end
        end
    end.

  (** list(map(worker, inputs)): result (None = an exception propagated; then the count is not claimed for
      the pool, whose other workers may or may not have started), number of fn evaluations, directory *)
  Fixpoint lrun (lk : lookup_kind) (items : list (N * N)) (d : option ldir)
    : option (list (N * V)) * nat * option ldir :=
    match items with
    | [] => (Some [], 0, d)
    | (k, x) :: r =>
        match llor lk k x d with
        | (None, c, d') => (None, (if c then 1 else 0), d')
        | (Some v, c, d') =>
            match lrun lk r d' with
            | (res, n, d'') => (option_map (cons (k, v)) res, (if c then S n else n), d'')
            end
        end
    end.

  (** what happens between the runs of a session *)
  Inductive lev :=
  | LNew (d : N)                   (* cache = Cache(tmp_dir=<directory d>) *)
  | LRetarget (d : N)              (* cache.tmp_dir = <directory d>: attribute assignment, no __init__ *)
  | LWipe                          (* shutil.rmtree(cache.tmp_dir) *)
  | LRun (items : list (N * N)).   (* parallelise(fn, items, cache=cache) *)

  Record lstate := mkL { l_world : world; l_cur : N }.

  Definition lstep (lk : lookup_kind) (mk : mkdir_kind) (s : lstate) (e : lev)
    : lstate * option (option (list (N * V)) * nat) :=
    match e with
    | LNew d => (mkL (match mk with MkAtConstruct => wmk (l_world s) d | _ => l_world s end) d, None)
    | LRetarget d => (mkL (l_world s) d, None)
    | LWipe => (mkL (wset (l_world s) (l_cur s) None) (l_cur s), None)
    | LRun items =>
        let w := match mk with MkAtConstruct => l_world s | _ => wmk (l_world s) (l_cur s) end in
        match lrun lk items (w (l_cur s)) with
        | (res, n, d') => (mkL (wset w (l_cur s) d') (l_cur s), Some (res, n))
        end
    end.

  (** a history: the runs with what they returned and how often they evaluated fn *)
  Fixpoint lhist (lk : lookup_kind) (mk : mkdir_kind) (s : lstate) (evs : list lev)
    : list (list (N * N) * option (list (N * V)) * nat) :=
    match evs with
    | [] => []
    | e :: rest =>
        match lstep lk mk s e, e with
        | (s', Some (res, n)), LRun items => (items, res, n) :: lhist lk mk s' rest
        | (s', _), _ => lhist lk mk s' rest
        end
    end.
  Fixpoint lfinal (lk : lookup_kind) (mk : mkdir_kind) (s : lstate) (evs : list lev) : lstate :=
    match evs with [] => s | e :: rest => lfinal lk mk (fst (lstep lk mk s e)) rest end.
End Life.

Arguments ldir_empty {V}. Arguments world_empty {V}.

(** ---- specification vocabulary ------------------------------------------------------------------- *)
Section LifeSpec.
  Variable V : Type.
  Variable fnv : N -> V.
  Variable name : N -> N.
  Variable isnone : V -> bool.
  (** the pairs that ever occur in the session (one input per key) *)
  Variable all : list (N * N).

  (** a directory whose result files hold the results of their keys; a world of such directories *)
  Definition LGood (d : ldir V) : Prop := forall k x v, In (k, x) all -> d (name k) = Some v -> v = fnv x.
  Definition WGood (w : world V) : Prop := forall i d, w i = Some d -> LGood d.
  (** what a run has to evaluate: the pairs whose file is absent (all of them when the directory does not
      exist) -- and, when a stored None counts as a miss, the pairs whose result is None *)
  Definition lmiss (lk : lookup_kind) (d : ldir V) (kx : N * N) : bool :=
    match d (name (fst kx)) with
    | None => true
    | Some _ => match lk with LkNoneIsMiss => isnone (fnv (snd kx)) | _ => false end
    end.
  Definition lmiss_o (lk : lookup_kind) (d : option (ldir V)) (kx : N * N) : bool :=
    match d with Some dir => lmiss lk dir kx | None => true end.
  (** the runs of a history are over pairs of the session with pairwise different file names *)
  Definition ev_ok (e : lev) : Prop :=
    match e with
    | LRun items => incl items all /\ NoDup (map (fun kx => name (fst kx)) items)
    | _ => True
    end.
End LifeSpec.

(** ---- glue for the correspondence (executable only; values are ids in Z) ---------------------------- *)
Definition ltblNN (t : list (N * N)) (k : N) : N :=
  match find (fun e => N.eqb (fst e) k) t with Some e => snd e | None => 0%N end.
Definition ltblNZ (t : list (N * Z)) (k : N) : Z :=
  match find (fun e => N.eqb (fst e) k) t with Some e => snd e | None => (-7)%Z end.

(* observation of one run: the returned pairs (None = the run raised), the number of fn evaluations (compared
   only when the run returned), and per pair of the run the value id stored under its name afterwards *)
Definition lobs := (option (list (N * Z)) * nat * list (option Z))%type.
Inductive levo := OEv (e : lev) | ORun (items : list (N * N)) (o : lobs).

Definition kvz_eqb (a b : N * Z) : bool := N.eqb (fst a) (fst b) && Z.eqb (snd a) (snd b).
Fixpoint lz_eqb (a b : list (N * Z)) : bool :=
  match a, b with
  | [], [] => true
  | x :: r, y :: s => kvz_eqb x y && lz_eqb r s
  | _, _ => false
  end.
Definition oz_eqb (a b : option Z) : bool :=
  match a, b with None, None => true | Some x, Some y => Z.eqb x y | _, _ => false end.
Fixpoint loz_eqb (a b : list (option Z)) : bool :=
  match a, b with
  | [], [] => true
  | x :: r, y :: s => oz_eqb x y && loz_eqb r s
  | _, _ => false
  end.

Definition lcase := (list (N * N) * list (N * Z) * list Z * list levo)%type.

Section LifeRun.
  Variable lk : lookup_kind.
  Variable mk : mkdir_kind.
  Variable names : list (N * N).
  Variable fns : list (N * Z).
  Variable nones : list Z.

  Let name := ltblNN names.
  Let fnv := ltblNZ fns.
  Let isnone := fun v : Z => existsb (Z.eqb v) nones.

  Definition lobs_ok (items : list (N * N)) (s' : lstate Z) (r : option (list (N * Z)) * nat) (o : lobs) : bool :=
    match o with
    | (ores, ocalls, ofiles) =>
        match fst r, ores with
        | Some l, Some m => lz_eqb l m && Nat.eqb (snd r) ocalls
        | None, None => true
        | _, _ => false
        end
        && loz_eqb (map (fun kx => match l_world Z s' (l_cur Z s') with
                                   | Some dir => dir (name (fst kx))
                                   | None => None
                                   end) items) ofiles
    end.

  Fixpoint life_ok (s : lstate Z) (evs : list levo) : bool :=
    match evs with
    | [] => true
    | OEv e :: rest => life_ok (fst (lstep Z fnv name isnone lk mk s e)) rest
    | ORun items o :: rest =>
        match lstep Z fnv name isnone lk mk s (LRun items) with
        | (s', Some r) => lobs_ok items s' r o && life_ok s' rest
        | (s', None) => false
        end
    end.
End LifeRun.

Definition lcase_ok (lk : lookup_kind) (mk : mkdir_kind) (c : lcase) : bool :=
  match c with
  | (names, fns, nones, evs) => life_ok lk mk names fns nones (mkL Z world_empty 0) evs
  end.
