(** C19 -- specification vocabulary (definitions only; readable in a minute). *)
From Coq Require Import List NArith ZArith Bool Arith Lia.
From MxlBase Require Import ListX.
From CacheFS Require Import CacheFS.
Import ListNotations.

Section Spec.
  Variable V : Type.
  Variable name : N -> N.
  Variable fnv : N -> V.
  Variable size : V -> nat.

  (** the complete pickle of the result for input x *)
  Definition whole (x : N) : option (content V) := Some (fnv x, size (fnv x)).

  (** distinct keys of the run map to distinct file names *)
  Definition names_distinct (items : list (N * N)) : Prop :=
    NoDup (map (fun kx => name (fst kx)) items).

  (** every result file of the run is either absent or complete and correct *)
  Definition Good (items : list (N * N)) (f : fs V) : Prop :=
    forall k x, In (k, x) items -> f (Final (name k)) = None \/ f (Final (name k)) = whole x.

  (** every result file of the run is complete and correct *)
  Definition AllCached (items : list (N * N)) (f : fs V) : Prop :=
    forall k x, In (k, x) items -> f (Final (name k)) = whole x.

  (** the pairs of a run whose result file is NOT in the directory: what a run has to compute *)
  Definition absent (f : fs V) (k : N) : bool :=
    match f (Final (name k)) with None => true | Some _ => false end.
  Definition missing (items : list (N * N)) (f : fs V) : list (N * N) :=
    filter (fun kx => absent f (fst kx)) items.
End Spec.
