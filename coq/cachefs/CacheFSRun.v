(** C19 -- glue for the correspondence files (executable only): tables for name_fn / fn / pickle
    sizes, a multi-stage scenario runner (crash run, rerun, second rerun, ...) and the comparison
    with what the implementation was observed to do.  Values are ids in Z. *)
From Coq Require Import List NArith ZArith Bool Arith Lia Ascii String.
From MxlBase Require Import ListX.
From CacheFS Require Import CacheKeys CacheFS CacheCodec.
Import ListNotations.

Definition tblNN (t : list (N * N)) (k : N) : N :=
  match find (fun e => N.eqb (fst e) k) t with Some e => snd e | None => 0%N end.
Definition tblNZ (t : list (N * Z)) (k : N) : Z :=
  match find (fun e => N.eqb (fst e) k) t with Some e => snd e | None => (-7)%Z end.
Definition tblZn (t : list (Z * nat)) (v : Z) : nat :=
  match find (fun e => Z.eqb (fst e) v) t with Some e => snd e | None => 1 end.

Inductive run_spec :=
| RSeq (b : option N)          (* parallel=False; dies after b file-system effects *)
| RPar                         (* pool, every worker completes *)
| RParExit (c : nat) (e : N).  (* pool, the worker of item c dies after e effects of its own *)

Definition oc := option (Z * nat).
Definition oc_eqb (a b : oc) : bool :=
  match a, b with
  | None, None => true
  | Some (v, j), Some (w, i) => Z.eqb v w && Nat.eqb j i
  | _, _ => false
  end.

Definition kv_eqb (a b : N * Z) : bool := N.eqb (fst a) (fst b) && Z.eqb (snd a) (snd b).
Definition outcome_eqb (a b : outcome Z) : bool :=
  match a, b with
  | Returned l, Returned m => list_eqb kv_eqb l m
  | Raises, Raises => true
  | Died, Died => true
  | _, _ => false
  end.

Record stage_obs := mkObs {
  o_complete : bool;            (* false: the run was killed -- only the directory is compared *)
  o_outcome : outcome Z;
  o_calls : N;
  o_final : list oc;            (* per item: the final file *)
  o_tmps : list (list oc)       (* per process id 1,2,..: per item: that process' temporary file *)
}.

Section Run.
  Variable pr : save_protocol.
  Variable names : list (N * N).
  Variable fns : list (N * Z).
  Variable sizes : list (Z * nat).
  Variable items : list (N * N).

  Let name := tblNN names.
  Let fnv := tblNZ fns.
  Let size := tblZn sizes.

  (* [buffered]: the file objects of this run keep written bytes in user space until close()
     (the driver's "buffered" scenario option); otherwise they are unbuffered *)
  Definition run_stage (f : fs Z) (p : N) (r : run_spec) (buffered : bool) : sys Z :=
    let pol := if buffered then @pol_buffered Z else @pol_through Z in
    match r with
    | RSeq b => run_seq Z name fnv size pol b pr p items f
    | RPar => run_par Z name fnv size pol pr p items f
    | RParExit c e => run_par_exit Z name fnv size pol pr p items f c e
    end.

  Fixpoint tmps_match (f : fs Z) (p : N) (obs : list (list oc)) : bool :=
    match obs with
    | [] => true
    | o :: rest => list_eqb oc_eqb (map snd (observe Z name p items f)) o && tmps_match f (N.succ p) rest
    end.

  Definition stage_matches (st : sys Z) (o : stage_obs) : bool :=
    (if o_complete o
     then outcome_eqb (outcome_of items st) (o_outcome o) && N.eqb (s_calls st) (o_calls o)
     else true)
    && list_eqb oc_eqb (map fst (observe Z name 1 items (s_fs st))) (o_final o)
    && tmps_match (s_fs st) 1 (o_tmps o).

  Fixpoint run_stages (f : fs Z) (p : N) (stages : list (run_spec * bool * stage_obs)) : bool :=
    match stages with
    | [] => true
    | (r, buffered, o) :: rest =>
        let st := run_stage f p r buffered in
        stage_matches st o && run_stages (s_fs st) (N.succ p) rest
    end.
End Run.

(** one correspondence case: tables, items, stages (starting from an empty directory, process ids 1,2,..) *)
Definition case := (list (N * N) * list (N * Z) * list (Z * nat) * list (N * N) * list (run_spec * bool * stage_obs))%type.
Definition case_ok (pr : save_protocol) (c : case) : bool :=
  match c with
  | (names, fns, sizes, items, stages) => run_stages pr names fns sizes items fs_empty 1 stages
  end.

(** a SESSION: several complete runs with one Cache object in one process, each over its OWN list of pairs
    (growing / overlapping key sets), all on one directory starting empty.  The model has no object state:
    stage i starts from the directory stage i-1 left, nothing else. *)
Definition scase := (list (N * N) * list (N * Z) * list (Z * nat) * list (list (N * N) * run_spec * bool * stage_obs))%type.
Fixpoint run_sstages (pr : save_protocol) (names : list (N * N)) (fns : list (N * Z)) (sizes : list (Z * nat))
         (f : fs Z) (p : N) (stages : list (list (N * N) * run_spec * bool * stage_obs)) : bool :=
  match stages with
  | [] => true
  | (items, r, buffered, o) :: rest =>
      let st := run_stage pr names fns sizes items f p r buffered in
      stage_matches names items st o && run_sstages pr names fns sizes (s_fs st) (N.succ p) rest
  end.
Definition scase_ok (pr : save_protocol) (c : scase) : bool :=
  match c with
  | (names, fns, sizes, stages) => run_sstages pr names fns sizes fs_empty 1 stages
  end.

(** which name _load_or_run handed to a custom save_fn, as observed (recording triple) *)
Definition save_name_eqb (a b : save_name_kind) : bool :=
  match a, b with SnFinal, SnFinal | SnTemp, SnTemp | SnUnknown, SnUnknown => true | _, _ => false end.

(** correspondence of the default name function: a key of the universe and the file name the
    implementation was observed to use for it *)
Definition name_case := (key * string)%type.
Definition name_case_ok (kind : name_kind) (c : name_case) : bool :=
  wf_key (fst c) &&
  match name_of kind no_strhash 0 (fst c) with
  | Some l => String.eqb (string_of_list_ascii l) (snd c)
  | None => false
  end.
Definition K_str (s : string) : key := KStr (chars s).
Definition K_float (s : string) : key := KFloat (chars s).
