(** C19 -- executable model of the KEYS of a cached run and of the default Cache.name_fn
    (src/mxlpy/parallel.py:_pickle_name).  MODEL ONLY (no proofs here).

    The key universe: what pandas hands to parallelise through `list(to_scan.iterrows())` (Python
    ints of a RangeIndex, floats, strings, tuples of those for a MultiIndex) and what a user passes
    to parallelise directly -- ints, bools, None, floats, str, and tuples of keys, nested at will.

      KInt z        a Python int
      KBool b       True / False
      KNone         None
      KFloat lit    a float, identified with the literal repr() prints for it.  float.__repr__ (shortest
                    round-trip digits) is NOT modelled; what is used of it is [float_lit]: the literal
                    is non-empty, drawn from "0123456789.e+-infa", and contains a character that no
                    int literal contains ('.', 'e', "inf", "nan") -- and that it is injective, which
                    is the identification itself
      KStr s        a str over 7-bit ASCII (code points >= 128 are outside the universe: there
                    str.__repr__ consults the Unicode database)
      KTuple l      a tuple of keys

    [py_repr] is repr(k), [py_str] is str(k) (they differ on str keys only: str() of a tuple prints
    its members with repr()).  str.__repr__ is modelled as CPython implements it for ASCII: double
    quotes iff the string contains a single quote and no double quote, backslash-escapes for the quote, the backslash, \t \n
    \r, \xNN for the other control characters and DEL.

    The kinds of name function the extractor recognises in _pickle_name:
      NameStr   f"{k}.p"        the code as found: 1 and "1" share the file 1.p
      NameRepr  f"{k!r}.p"      the repair (fixes/C19-name-fn.diff): injective on the universe
      NameReprEsc  the second repair (fixes/C19-slash-in-key.diff): repr with "%" -> "%25", "/" -> "%2F";
                still injective, and every name is a single path component (a key such as "ATP/ADP"
                cannot be cached under NameRepr: its file would lie in a sub-directory that does not exist)
      NameHash  f"{hash(k)}.p"  (seeded/C19-3) collides on -1 / -2 and depends on the per-process
                                string-hash salt
    [name_of kind strhash salt k] takes the salt of the interpreter and the (external) salted string
    hash as arguments so that "the file name is a function of the key alone, whatever process
    computes it" is a statement about the model and not built into it. *)
From Coq Require Import List NArith ZArith Bool Arith Ascii String DecimalString.
Import ListNotations.
Local Open Scope char_scope.

Inductive key :=
| KInt (z : Z) | KBool (b : bool) | KNone
| KFloat (lit : list ascii) | KStr (s : list ascii) | KTuple (l : list key).

(* NameReprEsc: f"{k!r}.p" with "%" and "/" of the repr percent-encoded (fixes/C19-slash-in-key.diff): the
   name is a single path component whatever the key *)
Inductive name_kind := NameStr | NameRepr | NameReprEsc | NameHash | NameUnknown.

Definition chars (s : string) : list ascii := list_ascii_of_string s.

(** str(int) / repr(int): decimal digits with a leading '-' for negatives (Coq's own printer) *)
Definition dec (z : Z) : list ascii := chars (NilZero.string_of_int (Z.to_int z)).

Definition in_chars (s : string) (c : ascii) : bool := existsb (Ascii.eqb c) (chars s).
Definition intc : ascii -> bool := in_chars "0123456789-".
Definition atomc : ascii -> bool := in_chars "0123456789.e+-infa".

Definition float_lit (l : list ascii) : bool :=
  match l with [] => false | _ => forallb atomc l && existsb (fun c => negb (intc c)) l end.

(** str.__repr__ on 7-bit strings *)
Definition ascii7 (c : ascii) : bool := Nat.ltb (nat_of_ascii c) 128.
Definition quote_of (s : list ascii) : ascii :=
  if existsb (Ascii.eqb "'") s && negb (existsb (Ascii.eqb """") s) then """" else "'".
Definition hexdigit (n : nat) : ascii :=
  nth n (chars "0123456789abcdef") "?".
Definition esc (q c : ascii) : list ascii :=
  let n := nat_of_ascii c in
  if Ascii.eqb c "\" then ["\"; "\"]
  else if Ascii.eqb c q then ["\"; q]
  else if Nat.eqb n 9 then ["\"; "t"]
  else if Nat.eqb n 10 then ["\"; "n"]
  else if Nat.eqb n 13 then ["\"; "r"]
  else if Nat.ltb n 32 || Nat.eqb n 127 then ["\"; "x"; hexdigit (n / 16); hexdigit (n mod 16)]
  else [c].
Definition repr_str (s : list ascii) : list ascii :=
  let q := quote_of s in q :: flat_map (esc q) s ++ [q].

Section Tuple.
  Variable f : key -> list ascii.
  (** what follows the first member of a tuple with at least two members *)
  Fixpoint tuple_rest (r : list key) : list ascii :=
    match r with
    | [] => [")"]
    | b :: r' => "," :: " " :: f b ++ tuple_rest r'
    end.
  Definition tuple_body (l : list key) : list ascii :=
    match l with
    | [] => [")"]
    | a :: r => f a ++ match r with [] => [","; ")"] | _ => tuple_rest r end
    end.
End Tuple.

Fixpoint py_repr (k : key) : list ascii :=
  match k with
  | KInt z => dec z
  | KBool true => chars "True"
  | KBool false => chars "False"
  | KNone => chars "None"
  | KFloat lit => lit
  | KStr s => repr_str s
  | KTuple l => "(" :: tuple_body py_repr l
  end.

Definition py_str (k : key) : list ascii :=
  match k with KStr s => s | _ => py_repr k end.

(** the universe: float literals are float literals, strings are 7-bit *)
Fixpoint wf_key (k : key) : bool :=
  match k with
  | KFloat lit => float_lit lit
  | KStr s => forallb ascii7 s
  | KTuple l => forallb wf_key l
  | _ => true
  end.

(** hash() of CPython on a 64-bit build, for the key types whose hash is a function of the value:
    ints are reduced modulo the Mersenne prime 2^61 - 1 keeping the sign, and -1 (the C error code)
    is replaced by -2; str hashes are SipHash keyed with a per-process salt: external, [strhash].
    Other key types: not modelled ([None]). *)
Definition hash_modulus : Z := (2 ^ 61 - 1)%Z.
Definition int_hash (z : Z) : Z :=
  let h := (Z.sgn z * (Z.abs z mod hash_modulus))%Z in
  if Z.eqb h (-1) then (-2)%Z else h.
Definition py_hash (strhash : N -> list ascii -> Z) (salt : N) (k : key) : option Z :=
  match k with
  | KInt z => Some (int_hash z)
  | KBool b => Some (if b then 1 else 0)%Z
  | KStr s => Some (let h := strhash salt s in if Z.eqb h (-1) then (-2)%Z else h)
  | _ => None
  end.

Fixpoint list_ascii_eqb (a b : list ascii) : bool :=
  match a, b with
  | [], [] => true
  | x :: a', y :: b' => Ascii.eqb x y && list_ascii_eqb a' b'
  | _, _ => false
  end.

Definition dot_p : list ascii := chars ".p".

(** percent-encoding of the two characters that must not reach the file name as they are: "/" (the path
    separator: the name would point into a sub-directory that does not exist) and "%" itself (so that the
    encoding can be read back):  repr(k).replace("%", "%25").replace("/", "%2F") *)
Definition pct1 (c : ascii) : list ascii :=
  if Ascii.eqb c "%" then ["%"; "2"; "5"]
  else if Ascii.eqb c "/" then ["%"; "2"; "F"]
  else [c].
Definition pct (l : list ascii) : list ascii := flat_map pct1 l.

(** a file name that open() takes for an entry of the cache directory itself: a single path component *)
Definition is_component (l : list ascii) : bool :=
  negb (existsb (Ascii.eqb "/") l)
  && match l with [] => false | _ => true end
  && negb (list_ascii_eqb l ["."]) && negb (list_ascii_eqb l ["."; "."]).

(** the default name_fn, by kind; [None]: not modelled (unknown shape of _pickle_name, or a hash of
    a key type whose hash is not modelled) *)
Definition name_of (kind : name_kind) (strhash : N -> list ascii -> Z) (salt : N) (k : key)
  : option (list ascii) :=
  match kind with
  | NameStr => Some (py_str k ++ dot_p)
  | NameRepr => Some (py_repr k ++ dot_p)
  | NameReprEsc => Some (pct (py_repr k) ++ dot_p)
  | NameHash => match py_hash strhash salt k with Some h => Some (dec h ++ dot_p) | None => None end
  | NameUnknown => None
  end.

(** file names as numbers (the paths of CacheFS.v are indexed by N): bijective base-257 numeration
    with digits 1..256, so that different names get different numbers and no name gets 0 *)
Fixpoint code (l : list ascii) : N :=
  match l with
  | [] => 0%N
  | c :: r => (code r * 257 + N.succ (N_of_ascii c))%N
  end.

(** the [name] function handed to the cache model: key ids -> file-name numbers; 0 = "no name" *)
Definition name_id (kind : name_kind) (strhash : N -> list ascii -> Z) (salt : N)
           (keyof : N -> key) (id : N) : N :=
  match name_of kind strhash salt (keyof id) with Some l => code l | None => 0%N end.

(** a string hash that ignores the salt -- for statements in which no hash is involved *)
Definition no_strhash : N -> list ascii -> Z := fun _ _ => 0%Z.
