(** C19 -- Result caching is transparent and survives interruption.

    ONLY theorem statements (written out in full), each closed by [exact <lemma>] and followed by
    [Print Assumptions].  The save protocol in every statement is [cf_save gen_cache_facts], the
    fact REGENERATED from /repo/src/mxlpy/parallel.py (_pickle_save) on every run;
    [C19_facts_pinned] is the obligation that breaks when _pickle_save stops writing to a temporary
    file + os.replace, when _load_or_run/_pickle_load/_pickle_name change shape, or when
    parallelise / the scan functions stop passing the cache through.

    Vocabulary (CacheFS.v / CacheFSSpec.v): a schedule [sched : list nat] names the worker that takes
    the next micro-step, so "forall sched" is EVERY interleaving of the per-key workers and EVERY
    point at which the run can be killed (schedules are prefix closed; a byte of a result file is one
    micro-step).  [collect items pcs = Some l]: the caller gets the list l.  [run_uncached] is the
    `cache is None` branch.  [Good items f]: every result file of the run is absent or complete and
    correct.  Guard of all positive theorems: [names_distinct] (distinct keys of the run have
    distinct file names); its complement is the recorded finding C19-name-collision. *)
From Coq Require Import List NArith ZArith Bool Arith.
From MxlBase Require Import ListX.
From CacheFS Require Import CacheFS CacheFSSpec GenCacheFacts CacheFSProofs CacheFSProps.
Import ListNotations.

Theorem C19_facts_pinned : gen_cache_facts = mkCacheFacts SaveTempReplace true true.
Proof. vm_compute. reflexivity. Qed.
Print Assumptions C19_facts_pinned.

(** FULL statement (false of the code, see C19_transparent_refuted): for every list of pairs with
    pairwise different KEYS the cached run over a fresh directory returns the uncached results.
    PROVED: the same under the guard that the keys' FILE NAMES are pairwise different -- for
    parallel=False, for the pool, and for every interleaving of the workers. *)
Theorem C19_transparent_partial :
  forall (V : Type) (name : N -> N) (fnv : N -> V) (size : V -> nat) (items : list (N * N)) (p : N),
    names_distinct name items ->
    collect items (s_pcs (run_seq V name fnv size None (cf_save gen_cache_facts) p items fs_empty))
      = Some (run_uncached V fnv items)
    /\ collect items (s_pcs (run_par V name fnv size (cf_save gen_cache_facts) p items fs_empty))
      = Some (run_uncached V fnv items)
    /\ forall sched,
         let st := exec V name fnv size (cf_save gen_cache_facts) p items sched (init items fs_empty) in
         all_done st = true -> collect items (s_pcs st) = Some (run_uncached V fnv items).
Proof. exact (fun V name fnv size => transparent V name fnv size gen_cache_facts C19_facts_pinned). Qed.
Print Assumptions C19_transparent_partial.

(** outside the guard: two different keys whose file names coincide (1 and "1" under the default
    name_fn) -- the second key is answered with the first key's result *)
Theorem C19_transparent_refuted :
  exists (name : N -> N) (items : list (N * N)),
    NoDup (map fst items)
    /\ collect items (s_pcs (run_seq Z name Z.of_N (fun _ => 1) None (cf_save gen_cache_facts) 1 items fs_empty))
       <> Some (run_uncached Z Z.of_N items).
Proof. exact (name_collision_refuted (cf_save gen_cache_facts)). Qed.
Print Assumptions C19_transparent_refuted.

(** a repeated run (any interleaving, killed anywhere or not) after a complete first run never calls
    fn, never touches the directory, and returns the same results when it completes *)
Theorem C19_second_run_hits_disk :
  forall (V : Type) (name : N -> N) (fnv : N -> V) (size : V -> nat) (items : list (N * N))
         (p1 p2 : N) (sched1 : list nat),
    names_distinct name items ->
    let st1 := exec V name fnv size (cf_save gen_cache_facts) p1 items sched1 (init items fs_empty) in
    all_done st1 = true ->
    forall sched2,
      let st2 := exec V name fnv size (cf_save gen_cache_facts) p2 items sched2 (init items (s_fs st1)) in
      s_calls st2 = 0%N /\ s_effs st2 = 0%N /\ (forall q, s_fs st2 q = s_fs st1 q)
      /\ (all_done st2 = true -> collect items (s_pcs st2) = Some (run_uncached V fnv items)).
Proof. exact (fun V name fnv size => second_run_hits_disk V name fnv size gen_cache_facts C19_facts_pinned). Qed.
Print Assumptions C19_second_run_hits_disk.

(** the run is killed after ANY prefix [sched1] of ANY interleaving (before, between and after the
    bytes of every result file, before/after the replace), starting from any Good directory (a
    fresh one, or one left by earlier interrupted runs): the directory left behind is Good, and every
    rerun -- parallel=False, the pool, any interleaving that completes -- returns the uncached
    result for every key and leaves every result file complete *)
Theorem C19_crash_then_rerun :
  forall (V : Type) (name : N -> N) (fnv : N -> V) (size : V -> nat) (items : list (N * N))
         (f0 : fs V) (p1 : N) (sched1 : list nat),
    names_distinct name items -> Good V name fnv size items f0 ->
    let f1 := s_fs (exec V name fnv size (cf_save gen_cache_facts) p1 items sched1 (init items f0)) in
    Good V name fnv size items f1
    /\ forall p2,
         (forall sched2,
            let st2 := exec V name fnv size (cf_save gen_cache_facts) p2 items sched2 (init items f1) in
            all_done st2 = true ->
            collect items (s_pcs st2) = Some (run_uncached V fnv items)
            /\ AllCached V name fnv size items (s_fs st2))
         /\ (let st2 := run_seq V name fnv size None (cf_save gen_cache_facts) p2 items f1 in
             all_done st2 = true /\ collect items (s_pcs st2) = Some (run_uncached V fnv items)
             /\ AllCached V name fnv size items (s_fs st2))
         /\ (let st2 := run_par V name fnv size (cf_save gen_cache_facts) p2 items f1 in
             all_done st2 = true /\ collect items (s_pcs st2) = Some (run_uncached V fnv items)
             /\ AllCached V name fnv size items (s_fs st2)).
Proof. exact (fun V name fnv size => crash_then_rerun V name fnv size gen_cache_facts C19_facts_pinned). Qed.
Print Assumptions C19_crash_then_rerun.

(** ... and so does any number of interrupted runs in a row, each killed anywhere *)
Theorem C19_any_number_of_crashes :
  forall (V : Type) (name : N -> N) (fnv : N -> V) (size : V -> nat) (items : list (N * N))
         (runs : list (N * list nat)) (f0 : fs V),
    names_distinct name items -> Good V name fnv size items f0 ->
    Good V name fnv size items
      (fold_left (fun f r => s_fs (exec V name fnv size (cf_save gen_cache_facts) (fst r) items (snd r) (init items f)))
                 runs f0).
Proof. exact (fun V name fnv size => any_number_of_crashes V name fnv size gen_cache_facts C19_facts_pinned). Qed.
Print Assumptions C19_any_number_of_crashes.

(** "a rerun completes": under any interleaving, any protocol and any directory content, a worker
    that got size(result)+5 turns has returned or raised; a schedule that gives every worker that
    many turns is complete *)
Theorem C19_rerun_completes :
  forall (V : Type) (name : N -> N) (fnv : N -> V) (size : V -> nat) pr (items : list (N * N))
         (f0 : fs V) (p : N) (sched : list nat),
    (forall i k x, nth_error items i = Some (k, x) -> wfuel V fnv size x <= count_occ Nat.eq_dec sched i) ->
    all_done (exec V name fnv size pr p items sched (init items f0)) = true.
Proof. exact fair_schedule_completes. Qed.
Print Assumptions C19_rerun_completes.

(** the executable runners evaluated in the correspondence check are schedules, i.e. instances of
    what the theorems above quantify over (also when killed after b file-system effects) *)
Theorem C19_runners_are_schedules :
  forall (V : Type) (name : N -> N) (fnv : N -> V) (size : V -> nat) b pr p (items : list (N * N)) (f0 : fs V),
    exists sched, run_seq V name fnv size b pr p items f0 = exec V name fnv size pr p items sched (init items f0).
Proof. exact run_seq_is_schedule. Qed.
Print Assumptions C19_runners_are_schedules.

Theorem C19_pool_runner_with_dying_worker_is_schedule :
  forall (V : Type) (name : N -> N) (fnv : N -> V) (size : V -> nat) pr p (items : list (N * N)) (f0 : fs V) c e,
    exists sched, run_par_exit V name fnv size pr p items f0 c e = exec V name fnv size pr p items sched (init items f0).
Proof. exact run_par_exit_is_schedule. Qed.
Print Assumptions C19_pool_runner_with_dying_worker_is_schedule.

(** THE CODE AS FOUND (direct write into the final path), as a theorem about the same model with
    fact = SaveDirect: from an EMPTY directory, kill the run right after open("wb"); then no rerun,
    under no interleaving, ever returns *)
Theorem C19_torn_refuted :
  exists (items : list (N * N)) (sched1 : list nat),
    names_distinct (fun k => k) items
    /\ let f1 := s_fs (exec Z (fun k => k) Z.of_N (fun _ => 5) SaveDirect 1 items sched1 (init items fs_empty)) in
       forall p2 sched2,
         let st2 := exec Z (fun k => k) Z.of_N (fun _ => 5) SaveDirect p2 items sched2 (init items f1) in
         all_done st2 = true -> collect items (s_pcs st2) = None.
Proof. exact torn_refuted. Qed.
Print Assumptions C19_torn_refuted.

(** ... and in general: with the direct write a final file holding ANY strict prefix (every byte
    offset j <> size) is never repaired, its worker can only raise, and no complete run returns *)
Theorem C19_direct_every_torn_offset_poisons :
  forall (V : Type) (name : N -> N) (fnv : N -> V) (size : V -> nat) (items : list (N * N))
         (f0 : fs V) (p : N) (sched : list nat) (i : nat) (k x : N) (v : V) (j : nat),
    names_distinct name items ->
    nth_error items i = Some (k, x) ->
    f0 (Final (name k)) = Some (v, j) -> j <> size v ->
    let st := exec V name fnv size SaveDirect p items sched (init items f0) in
    s_fs st (Final (name k)) = Some (v, j)
    /\ (forall r, nth_error (s_pcs st) i = Some (PDone r) -> r = Raised)
    /\ (all_done st = true -> collect items (s_pcs st) = None).
Proof. exact (fun V name fnv size => direct_torn_poisons V name fnv size SaveDirect eq_refl). Qed.
Print Assumptions C19_direct_every_torn_offset_poisons.

(** non-vacuity: three keys with 5-byte results; the run is killed in the middle of the second
    key's file (after 2 of its bytes; first key complete); the hypotheses of C19_crash_then_rerun
    hold, the torn bytes sit in the temporary file, and the rerun recomputes exactly two keys *)
Example C19_nonvacuous :
  let items := [(1, 2); (2, 3); (3, 4)]%N in
  let name := (fun k : N => k) in
  let size := (fun _ : Z => 5) in
  let st1 := run_seq Z name Z.of_N size (Some 10%N) (cf_save gen_cache_facts) 1 items fs_empty in
  let st2 := run_seq Z name Z.of_N size None (cf_save gen_cache_facts) 2 items (s_fs st1) in
  names_distinct name items
  /\ observe Z name 1 items (s_fs st1) = [(Some (2%Z, 5), None); (None, Some (3%Z, 2)); (None, None)]
  /\ outcome_of items st1 = Died
  /\ outcome_of items st2 = Returned [(1%N, 2%Z); (2%N, 3%Z); (3%N, 4%Z)]
  /\ s_calls st2 = 2%N.
Proof.
  cbv zeta. split; [|split; [|split; [|split]]].
  - repeat constructor; cbn; intuition discriminate.
  - vm_compute. reflexivity.
  - vm_compute. reflexivity.
  - vm_compute. reflexivity.
  - vm_compute. reflexivity.
Qed.
Print Assumptions C19_nonvacuous.
