(** C19 -- Result caching is transparent and survives interruption.

    ONLY theorem statements (written out in full), each closed by [exact <lemma>] and followed by
    [Print Assumptions].  The save protocol in every statement is [cf_save gen_cache_facts], the
    default name function [cf_name gen_cache_facts]: facts REGENERATED from
    /repo/src/mxlpy/parallel.py (_pickle_save, _pickle_name) on every run; [C19_facts_pinned] is the
    obligation that breaks when _pickle_save stops writing to a temporary file + os.replace (also
    when the replace moves in front of the close), when _load_or_run/_pickle_load/_pickle_name change
    shape, or when parallelise / the scan functions stop passing the cache through.

    Vocabulary (CacheFS.v / CacheFSSpec.v / CacheKeys.v): a schedule [sched : list nat] names the
    worker that takes the next micro-step, so "forall sched" is EVERY interleaving of the per-key
    workers and EVERY point at which the run can be killed (schedules are prefix closed; a byte of a
    result file is one micro-step).  [pol : V -> nat -> bool] is the FLUSH POLICY of the file objects
    of a run (does the write handing over byte j of the pickle of v reach the file at once?):
    [pol_through] = unbuffered, [pol_buffered] = nothing before close(); "forall pol" covers both and
    every buffer size between them; a kill discards what is still buffered.  [collect items pcs =
    Some l]: the caller gets the list l.  [run_uncached] is the `cache is None` branch.  [Good items
    f]: every result file of the run is absent or complete and correct.  [names_distinct]: distinct
    keys of the run have distinct file names -- the guard of the positive theorems as long as the tree
    carries f"{k}.p" (its complement is the recorded finding C19-name-collision); for the repaired
    f"{k!r}.p" it is a THEOREM over the key universe of CacheKeys.v (C19_repr_names_injective), and
    C19_transparent needs no guard.

    OUT OF SCOPE (not modelled, not claimed): power loss / kernel crash.  The model's file system is
    what the kernel has been handed; it survives the death of a process, not of the machine.  There
    is no fsync step in the model and none in _pickle_save. *)
From Coq Require Import List NArith ZArith Bool Arith Ascii String.
From MxlBase Require Import ListX.
From CacheFS Require Import CacheKeys CacheFS CacheFSSpec CacheCodec CacheObject CacheLife GenCacheFacts ExpectedFacts
  CacheKeysProofs CacheFSProofs CacheSessionProofs CacheCodecProofs CacheLifeProofs CacheFSProps.
Import ListNotations.

Theorem C19_facts_pinned : gen_cache_facts = mkCacheFacts SaveTempReplace true true C19_expected_name.
Proof. vm_compute. reflexivity. Qed.
Print Assumptions C19_facts_pinned.

(** the Cache dataclass has exactly the fields tmp_dir / name_fn / load_fn / save_fn and no methods, and
    _load_or_run asks the directory (file.exists()): the object carries NO state from run to run
    (CoStateless; seeded/C19-5 is another shape); _load_or_run hands save_fn the very path load_fn gets
    later (SnFinal; seeded/C19-6 hands it a temporary name) *)
Theorem C19_object_facts_pinned : gen_cache_object = CoStateless /\ gen_save_name = SnFinal.
Proof. vm_compute. split; reflexivity. Qed.
Print Assumptions C19_object_facts_pinned.

(** FULL statement: for every list of pairs with pairwise different KEYS the cached run over a fresh
    directory returns the uncached results -- C19_transparent below, for the repaired names.
    HERE: the same under the guard that the keys' FILE NAMES are pairwise different (any name
    function) -- for parallel=False, for the pool, for every interleaving, for every flush policy. *)
Theorem C19_transparent_partial :
  forall (V : Type) (name : N -> N) (fnv : N -> V) (size : V -> nat) (pol : V -> nat -> bool)
         (items : list (N * N)) (p : N),
    names_distinct name items ->
    collect items (s_pcs (run_seq V name fnv size pol None (cf_save gen_cache_facts) p items fs_empty))
      = Some (run_uncached V fnv items)
    /\ collect items (s_pcs (run_par V name fnv size pol (cf_save gen_cache_facts) p items fs_empty))
      = Some (run_uncached V fnv items)
    /\ forall sched,
         let st := exec V name fnv size pol (cf_save gen_cache_facts) p items sched (init items fs_empty) in
         all_done st = true -> collect items (s_pcs st) = Some (run_uncached V fnv items).
Proof. exact (fun V name fnv size => transparent V name fnv size gen_cache_facts C19_facts_pinned). Qed.
Print Assumptions C19_transparent_partial.

(** outside the guard: two different keys whose file names coincide -- the second key is answered
    with the first key's result *)
Theorem C19_transparent_refuted :
  exists (name : N -> N) (items : list (N * N)),
    NoDup (map fst items)
    /\ collect items (s_pcs (run_seq Z name Z.of_N (fun _ => 1) pol_through None (cf_save gen_cache_facts) 1 items fs_empty))
       <> Some (run_uncached Z Z.of_N items).
Proof. exact (name_collision_refuted (cf_save gen_cache_facts)). Qed.
Print Assumptions C19_transparent_refuted.

(** the repaired default name function f"{k!r}.p" is injective on the key universe (ints, bools,
    None, floats, 7-bit strings, nested tuples of those), whatever process computes the name *)
Theorem C19_repr_names_injective :
  forall (sh1 sh2 : N -> list ascii -> Z) (salt1 salt2 : N) (k1 k2 : key),
    wf_key k1 = true -> wf_key k2 = true ->
    name_of NameRepr sh1 salt1 k1 = name_of NameRepr sh2 salt2 k2 -> k1 = k2.
Proof. exact name_repr_inj. Qed.
Print Assumptions C19_repr_names_injective.

(** FULL transparency, no guard on the names: once the tree carries a repr-based name function
    (hypothesis 1 -- f"{k!r}.p" or its percent-encoded form; C19_facts_pinned decides it together with
    ExpectedFacts.v), pairwise different keys of the universe suffice *)
Theorem C19_transparent :
  forall (V : Type) (keyof : N -> key) (fnv : N -> V) (size : V -> nat),
    cf_name gen_cache_facts = NameRepr \/ cf_name gen_cache_facts = NameReprEsc ->
    forall (pol : V -> nat -> bool) (items : list (N * N)) (p : N) (sh : N -> list ascii -> Z) (salt : N),
      (forall kx, In kx items -> wf_key (keyof (fst kx)) = true) ->
      NoDup (map (fun kx => keyof (fst kx)) items) ->
      let name := name_id (cf_name gen_cache_facts) sh salt keyof in
      collect items (s_pcs (run_seq V name fnv size pol None (cf_save gen_cache_facts) p items fs_empty))
        = Some (run_uncached V fnv items)
      /\ collect items (s_pcs (run_par V name fnv size pol (cf_save gen_cache_facts) p items fs_empty))
        = Some (run_uncached V fnv items)
      /\ forall sched,
           let st := exec V name fnv size pol (cf_save gen_cache_facts) p items sched (init items fs_empty) in
           all_done st = true -> collect items (s_pcs st) = Some (run_uncached V fnv items).
Proof. exact (fun V keyof fnv size => transparent_repr_tree V keyof fnv size gen_cache_facts C19_facts_pinned). Qed.
Print Assumptions C19_transparent.

(** ... and the same statement for the repaired function as such (no hypothesis about the tree):
    what fixes/C19-name-fn.diff establishes *)
Theorem C19_transparent_repaired_names :
  forall (V : Type) (keyof : N -> key) (fnv : N -> V) (size : V -> nat)
         (pol : V -> nat -> bool) (items : list (N * N)) (p : N) (sh : N -> list ascii -> Z) (salt : N),
    (forall kx, In kx items -> wf_key (keyof (fst kx)) = true) ->
    NoDup (map (fun kx => keyof (fst kx)) items) ->
    let name := name_id NameRepr sh salt keyof in
    collect items (s_pcs (run_seq V name fnv size pol None SaveTempReplace p items fs_empty))
      = Some (run_uncached V fnv items)
    /\ collect items (s_pcs (run_par V name fnv size pol SaveTempReplace p items fs_empty))
      = Some (run_uncached V fnv items)
    /\ forall sched,
         let st := exec V name fnv size pol SaveTempReplace p items sched (init items fs_empty) in
         all_done st = true -> collect items (s_pcs st) = Some (run_uncached V fnv items).
Proof. exact (fun V keyof fnv size => transparent_repr V keyof fnv size (mkCacheFacts SaveTempReplace true true NameRepr) eq_refl (or_introl eq_refl)). Qed.
Print Assumptions C19_transparent_repaired_names.

(** ... and for the percent-encoded names of fixes/C19-slash-in-key.diff *)
Theorem C19_transparent_escaped_names :
  forall (V : Type) (keyof : N -> key) (fnv : N -> V) (size : V -> nat)
         (pol : V -> nat -> bool) (items : list (N * N)) (p : N) (sh : N -> list ascii -> Z) (salt : N),
    (forall kx, In kx items -> wf_key (keyof (fst kx)) = true) ->
    NoDup (map (fun kx => keyof (fst kx)) items) ->
    let name := name_id NameReprEsc sh salt keyof in
    collect items (s_pcs (run_seq V name fnv size pol None SaveTempReplace p items fs_empty))
      = Some (run_uncached V fnv items)
    /\ collect items (s_pcs (run_par V name fnv size pol SaveTempReplace p items fs_empty))
      = Some (run_uncached V fnv items)
    /\ forall sched,
         let st := exec V name fnv size pol SaveTempReplace p items sched (init items fs_empty) in
         all_done st = true -> collect items (s_pcs st) = Some (run_uncached V fnv items).
Proof. exact (fun V keyof fnv size => transparent_repr V keyof fnv size (mkCacheFacts SaveTempReplace true true NameReprEsc) eq_refl (or_intror eq_refl)). Qed.
Print Assumptions C19_transparent_escaped_names.

(** the percent-encoded names are injective on the key universe, whatever process computes them ... *)
Theorem C19_escaped_names_injective :
  forall (sh1 sh2 : N -> list ascii -> Z) (salt1 salt2 : N) (k1 k2 : key),
    wf_key k1 = true -> wf_key k2 = true ->
    name_of NameReprEsc sh1 salt1 k1 = name_of NameReprEsc sh2 salt2 k2 -> k1 = k2.
Proof. exact name_esc_inj. Qed.
Print Assumptions C19_escaped_names_injective.

(** ... and EVERY key -- of the universe or not: nothing about repr(k) is used -- gets a name that is a
    single path component (no "/", not empty, not "." or ".."): the result file lies in the cache directory *)
Theorem C19_escaped_names_are_components :
  forall (sh : N -> list ascii -> Z) (salt : N) (k : key),
    exists l, name_of NameReprEsc sh salt k = Some l /\ is_component l = true.
Proof. exact name_esc_is_component. Qed.
Print Assumptions C19_escaped_names_are_components.

(** REGRESSION / the finding C19-slash-in-key while ExpectedFacts.v says NameRepr: the str key "ATP/ADP" is a
    key of the universe whose name under f"{k!r}.p" is 'ATP/ADP'.p -- not a path component (the file would
    lie in the sub-directory 'ATP of the cache directory, which nobody creates: save_fn raises
    FileNotFoundError and the cached run fails where the uncached run returns); its escaped name
    'ATP%2FADP'.p is one *)
Theorem C19_slash_names_refuted :
  exists k l l', wf_key k = true
    /\ name_of NameRepr no_strhash 0 k = Some l /\ is_component l = false
    /\ name_of NameReprEsc no_strhash 0 k = Some l' /\ is_component l' = true
    /\ string_of_list_ascii l = "'ATP/ADP'.p"%string /\ string_of_list_ascii l' = "'ATP%2FADP'.p"%string.
Proof. exact name_repr_not_component. Qed.
Print Assumptions C19_slash_names_refuted.

(** REGRESSION (the code as found, f"{k}.p"; = finding C19-name-collision while ExpectedFacts.v says
    NameStr): the int 1 and the str "1" are different keys of the universe, share the file 1.p, and
    the cached run over a fresh directory returns the wrong result for the second -- under every
    save protocol; the repaired names give the uncached results on the same input *)
Theorem C19_str_names_collide_refuted :
  forall pr,
  exists (keyof : N -> key) (items : list (N * N)),
    (forall kx, In kx items -> wf_key (keyof (fst kx)) = true)
    /\ NoDup (map (fun kx => keyof (fst kx)) items)
    /\ collect items (s_pcs (run_seq Z (name_id NameStr no_strhash 0 keyof) Z.of_N (fun _ => 1) pol_through
                                     None pr 1 items fs_empty))
       <> Some (run_uncached Z Z.of_N items)
    /\ collect items (s_pcs (run_seq Z (name_id NameRepr no_strhash 0 keyof) Z.of_N (fun _ => 1) pol_through
                                     None SaveTempReplace 1 items fs_empty))
       = Some (run_uncached Z Z.of_N items).
Proof. exact str_names_collide_refuted. Qed.
Print Assumptions C19_str_names_collide_refuted.

(** the file name is a function of the key alone: it does not depend on the interpreter (string-hash
    salt [salt], salted hash function [sh]) that computes it *)
Theorem C19_names_process_independent :
  forall (sh1 sh2 : N -> list ascii -> Z) (salt1 salt2 : N) (k : key),
    name_of (cf_name gen_cache_facts) sh1 salt1 k = name_of (cf_name gen_cache_facts) sh2 salt2 k.
Proof. exact (names_process_independent gen_cache_facts C19_facts_pinned). Qed.
Print Assumptions C19_names_process_independent.

(** REGRESSION (seeded/C19-3, f"{hash(k)}.p"): (a) the ints -1 and -2 have one hash, hence one file:
    wrong result on a fresh directory;  (b) a str key gets another file name in an interpreter whose
    hash salt gives the string another hash *)
Theorem C19_hash_names_refuted :
  (forall pr,
   exists (keyof : N -> key) (items : list (N * N)),
     (forall kx, In kx items -> wf_key (keyof (fst kx)) = true)
     /\ NoDup (map (fun kx => keyof (fst kx)) items)
     /\ collect items (s_pcs (run_seq Z (name_id NameHash no_strhash 0 keyof) Z.of_N (fun _ => 1) pol_through
                                      None pr 1 items fs_empty))
        <> Some (run_uncached Z Z.of_N items))
  /\ (forall (sh : N -> list ascii -> Z) (salt1 salt2 : N) (s : list ascii),
        sh salt1 s <> sh salt2 s -> sh salt1 s <> (-1)%Z -> sh salt2 s <> (-1)%Z ->
        name_of NameHash sh salt1 (KStr s) <> name_of NameHash sh salt2 (KStr s)).
Proof. exact (conj hash_names_refuted name_hash_depends_on_salt). Qed.
Print Assumptions C19_hash_names_refuted.

(** a repeated run (any interleaving, killed anywhere or not, any flush policy) after a complete
    first run never calls fn, never touches the directory, and returns the same results when it
    completes *)
Theorem C19_second_run_hits_disk :
  forall (V : Type) (name : N -> N) (fnv : N -> V) (size : V -> nat) (pol1 pol2 : V -> nat -> bool)
         (items : list (N * N)) (p1 p2 : N) (sched1 : list nat),
    names_distinct name items ->
    let st1 := exec V name fnv size pol1 (cf_save gen_cache_facts) p1 items sched1 (init items fs_empty) in
    all_done st1 = true ->
    forall sched2,
      let st2 := exec V name fnv size pol2 (cf_save gen_cache_facts) p2 items sched2 (init items (s_fs st1)) in
      s_calls st2 = 0%N /\ s_effs st2 = 0%N /\ (forall q, s_fs st2 q = s_fs st1 q)
      /\ (all_done st2 = true -> collect items (s_pcs st2) = Some (run_uncached V fnv items)).
Proof. exact (fun V name fnv size => second_run_hits_disk V name fnv size gen_cache_facts C19_facts_pinned). Qed.
Print Assumptions C19_second_run_hits_disk.

(** ... also when the repeated run happens in a NEW INTERPRETER: another process id, another
    string-hash salt, another flush policy -- with the default name function of the tree *)
Theorem C19_new_interpreter_rerun_hits_disk :
  forall (V : Type) (keyof : N -> key) (fnv : N -> V) (size : V -> nat) (pol1 pol2 : V -> nat -> bool)
         (items : list (N * N)) (p1 p2 : N) (sh1 sh2 : N -> list ascii -> Z) (salt1 salt2 : N)
         (sched1 : list nat),
    let name1 := name_id (cf_name gen_cache_facts) sh1 salt1 keyof in
    let name2 := name_id (cf_name gen_cache_facts) sh2 salt2 keyof in
    names_distinct name1 items ->
    let st1 := exec V name1 fnv size pol1 (cf_save gen_cache_facts) p1 items sched1 (init items fs_empty) in
    all_done st1 = true ->
    forall sched2,
      let st2 := exec V name2 fnv size pol2 (cf_save gen_cache_facts) p2 items sched2 (init items (s_fs st1)) in
      s_calls st2 = 0%N /\ s_effs st2 = 0%N /\ (forall q, s_fs st2 q = s_fs st1 q)
      /\ (all_done st2 = true -> collect items (s_pcs st2) = Some (run_uncached V fnv items)).
Proof. exact (fun V keyof fnv size => new_interpreter_rerun_hits_disk V keyof fnv size gen_cache_facts C19_facts_pinned). Qed.
Print Assumptions C19_new_interpreter_rerun_hits_disk.

(** "WITHOUT RECOMPUTING", exactly: at every instant of every interleaving, under every save protocol and
    flush policy, from any Good directory, the number of fn evaluations made so far never exceeds the number
    of pairs whose result file was ABSENT when the run started, and a complete run has made exactly that
    many.  ([missing items f0]: the pairs of the run whose result file is not in f0.) *)
Theorem C19_calls_are_the_missing_files :
  forall (V : Type) (name : N -> N) (fnv : N -> V) (size : V -> nat) (pol : V -> nat -> bool) pr
         (items : list (N * N)) (f0 : fs V) (p : N) (sched : list nat),
    names_distinct name items -> Good V name fnv size items f0 ->
    let st := exec V name fnv size pol pr p items sched (init items f0) in
    N.to_nat (s_calls st) <= length (missing V name items f0)
    /\ (all_done st = true -> s_calls st = N.of_nat (length (missing V name items f0))).
Proof. exact calls_bound. Qed.
Print Assumptions C19_calls_are_the_missing_files.

(** A CACHE OBJECT HAS NO STATE OF ITS OWN: one run of a session.  [all] = the pairs that ever occur in the
    session (pairwise different file names); the directory is Good for them -- a fresh one, or whatever
    earlier runs (complete or killed: C19_crash_then_rerun) left.  A complete run over ANY sub-list [items]
    -- any interleaving, flush policy, process; the model has no other input than the directory [f0] --
    returns the uncached results, evaluates fn exactly on the pairs whose files were absent, leaves its own
    files complete, every result file already complete stays so, files of other names are untouched, and
    the directory is Good for the next run of the session (the statement composes with itself). *)
Theorem C19_session_run_depends_on_directory_only :
  forall (V : Type) (name : N -> N) (fnv : N -> V) (size : V -> nat) (pol : V -> nat -> bool)
         (all items : list (N * N)) (f0 : fs V) (p : N) (sched : list nat),
    names_distinct name all -> incl items all -> names_distinct name items ->
    Good V name fnv size all f0 ->
    let st := exec V name fnv size pol (cf_save gen_cache_facts) p items sched (init items f0) in
    all_done st = true ->
    collect items (s_pcs st) = Some (run_uncached V fnv items)
    /\ s_calls st = N.of_nat (length (missing V name items f0))
    /\ AllCached V name fnv size items (s_fs st)
    /\ (forall k x, In (k, x) all -> f0 (Final (name k)) = whole V fnv size x -> s_fs st (Final (name k)) = whole V fnv size x)
    /\ (forall n, ~ In n (map (fun kx => name (fst kx)) items) -> s_fs st (Final n) = f0 (Final n))
    /\ Good V name fnv size all (s_fs st).
Proof. exact (fun V name fnv size => session_step_tree V name fnv size gen_cache_facts C19_facts_pinned). Qed.
Print Assumptions C19_session_run_depends_on_directory_only.

(** a growing key set: a complete run over A (fresh directory), then a complete run over A ++ B -- same or
    other process, execution mode, flush policy: the second run evaluates fn exactly |B| times *)
Theorem C19_growing_key_set :
  forall (V : Type) (name : N -> N) (fnv : N -> V) (size : V -> nat) (pol1 pol2 : V -> nat -> bool)
         (A B : list (N * N)) (p1 p2 : N) (sched1 sched2 : list nat),
    names_distinct name (A ++ B) ->
    let st1 := exec V name fnv size pol1 (cf_save gen_cache_facts) p1 A sched1 (init A fs_empty) in
    all_done st1 = true ->
    let st2 := exec V name fnv size pol2 (cf_save gen_cache_facts) p2 (A ++ B) sched2 (init (A ++ B) (s_fs st1)) in
    all_done st2 = true ->
    collect A (s_pcs st1) = Some (run_uncached V fnv A)
    /\ s_calls st1 = N.of_nat (length A)
    /\ collect (A ++ B) (s_pcs st2) = Some (run_uncached V fnv (A ++ B))
    /\ s_calls st2 = N.of_nat (length B).
Proof. exact (fun V name fnv size => growing_key_set_tree V name fnv size gen_cache_facts C19_facts_pinned). Qed.
Print Assumptions C19_growing_key_set.

(** REGRESSION (seeded/C19-5): a Cache object that memoises one directory listing (big-step model on file
    names, CacheObject.v).  From a directory that holds none of the names, a second PARALLEL run with the
    same object recomputes all of them (the stateless object: none); the session A, A, A ++ B in parallel
    costs 3, 3, 5 evaluations instead of 3, 0, 2; sequentially the memo is kept up to date (3, 0, 2) *)
Theorem C19_listing_memo_refuted :
  (forall names dir, names <> [] -> (forall n, In n names -> mem n dir = false) ->
     let s0 := mkO dir None in
     fst (orun CoListingMemo true names (snd (orun CoListingMemo true names s0))) = length names
     /\ length names <> 0
     /\ fst (orun CoStateless true names (snd (orun CoStateless true names s0))) = 0)
  /\ osession CoListingMemo [(true, [1; 2; 3]); (true, [1; 2; 3]); (true, [1; 2; 3; 4; 5])]%N (mkO [] None) = [3; 3; 5]
  /\ osession CoStateless [(true, [1; 2; 3]); (true, [1; 2; 3]); (true, [1; 2; 3; 4; 5])]%N (mkO [] None) = [3; 0; 2]
  /\ osession CoListingMemo [(false, [1; 2; 3]); (false, [1; 2; 3]); (false, [1; 2; 3; 4; 5])]%N (mkO [] None) = [3; 0; 2].
Proof. exact listing_memo_refuted. Qed.
Print Assumptions C19_listing_memo_refuted.

(** the big-step count of the stateless object IS the count of the small-step model: if [l] lists the
    result files of the file system [f], the evaluations of a run are its missing pairs *)
Theorem C19_stateless_object_counts_missing_files :
  forall (V : Type) (name : N -> N) (f : fs V) (l : list N) (par : bool) (m : option (list N)) (items : list (N * N)),
    (forall n, mem n l = true <-> f (Final n) <> None) ->
    fst (orun gen_cache_object par (map (fun kx => name (fst kx)) items) (mkO l m)) = length (missing V name items f).
Proof. exact orun_calls_agree. Qed.
Print Assumptions C19_stateless_object_counts_missing_files.

(** CUSTOM (name_fn, save_fn, load_fn) TRIPLES (CacheCodec.v: [enc n v] = what save_fn writes when handed
    the name n, [decd n b] = what load_fn returns when handed the name n; big-step, parallel=False order).
    Under the user's contract -- a round trip ON ONE NAME -- and with the name the tree hands to save_fn
    ([gen_save_name] = the final name): cached = uncached on a fresh directory with one evaluation per key,
    and the repeated run (any process) returns the same results with NO evaluation *)
Theorem C19_custom_triple_transparent_and_repeatable :
  forall (V B : Type) (fnv : N -> V) (name : N -> N) (tmpname : N -> N -> N)
         (enc : N -> V -> B) (decd : N -> B -> option V),
    (forall n v, decd n (enc n v) = Some v) ->
    forall (p1 p2 : N) (items : list (N * N)),
      NoDup (map (fun kx => name (fst kx)) items) ->
      let '(res1, c1, d1) := crun V B fnv name tmpname enc decd gen_save_name p1 items cdir_empty in
      let '(res2, c2, d2) := crun V B fnv name tmpname enc decd gen_save_name p2 items d1 in
      res1 = Some (run_uncached V fnv items) /\ c1 = length items
      /\ res2 = Some (run_uncached V fnv items) /\ c2 = 0.
Proof. exact codec_transparent_and_repeatable. Qed.
Print Assumptions C19_custom_triple_transparent_and_repeatable.

(** REGRESSION (seeded/C19-6): save_fn handed a temporary name, the file renamed afterwards.  The triple that
    stamps the name it was handed into the file satisfies the contract on every name; the first caching run
    returns the right results, the REPEATED run raises; with the final name handed over it repeats from disk *)
Theorem C19_temp_name_to_save_fn_refuted :
  (forall n v, stamp_dec n (stamp_enc n v) = Some v)
  /\ exists (items : list (N * N)),
       NoDup (map fst items)
       /\ (forall kind, kind <> SnFinal ->
            let '(res1, c1, d1) := crun Z (N * Z) Z.of_N (fun k => k) pid_tmpname stamp_enc stamp_dec kind 1 items cdir_empty in
            let '(res2, c2, d2) := crun Z (N * Z) Z.of_N (fun k => k) pid_tmpname stamp_enc stamp_dec kind 2 items d1 in
            res1 = Some (run_uncached Z Z.of_N items) /\ res2 = None)
       /\ (let '(res1, c1, d1) := crun Z (N * Z) Z.of_N (fun k => k) pid_tmpname stamp_enc stamp_dec SnFinal 1 items cdir_empty in
           let '(res2, c2, d2) := crun Z (N * Z) Z.of_N (fun k => k) pid_tmpname stamp_enc stamp_dec SnFinal 2 items d1 in
           res1 = Some (run_uncached Z Z.of_N items) /\ res2 = Some (run_uncached Z Z.of_N items) /\ c2 = 0).
Proof. exact temp_name_to_save_fn_refuted. Qed.
Print Assumptions C19_temp_name_to_save_fn_refuted.

(** ---- THE LIFE OF A CACHE OBJECT AND ITS DIRECTORY (CacheLife.v; big-step: complete runs, whole files; several
    directories; between the runs the events of a working session: a new Cache object [LNew d], the object pointed
    at another directory [LRetarget d] (attribute assignment, no __init__), the directory wiped [LWipe]).
    [world]: the directories that exist; [WGood]: every file in every directory holds the result of its key;
    [lmiss_o lk (w c)]: what a run has to evaluate -- the pairs whose file is absent (all, when the directory does not
    exist), plus, ONLY for the lookup kind LkNoneIsMiss, the pairs whose result is None.
    Facts of the tree: _load_or_run takes the EXISTENCE of the file for "result available" and returns what is stored,
    whatever it is (LkExists; seeded/C19-7: a helper answers None for "nothing usable"); parallelise creates
    cache.tmp_dir at the start of EVERY run (MkAtRun; seeded/C19-8: only Cache.__post_init__ does) *)
Theorem C19_life_facts_pinned : gen_lookup = LkExists /\ gen_mkdir = MkAtRun.
Proof. vm_compute. split; reflexivity. Qed.
Print Assumptions C19_life_facts_pinned.

(** ONE RUN AT ANY POINT OF A SESSION, whatever happened before (other runs, new / re-targeted / copied objects, wiped
    directories -- all that is left of them is the world [w] and the directory [c] the object points to, which may
    not exist): it returns the uncached results -- for EVERY result type, None and other falsy values included: [isnone]
    is arbitrary and plays no role for the tree's lookup --, evaluates fn exactly on the pairs whose files are absent,
    stores every result of the run, leaves the other directories alone and the world Good *)
Theorem C19_run_at_any_point_of_a_session :
  forall (V : Type) (fnv : N -> V) (name : N -> N) (isnone : V -> bool) (all : list (N * N))
         (w : world V) (c : N) (items : list (N * N)),
    NoDup (map (fun kx => name (fst kx)) all) -> WGood V fnv name all w ->
    incl items all -> NoDup (map (fun kx => name (fst kx)) items) ->
    exists w',
      lstep V fnv name isnone gen_lookup gen_mkdir (mkL V w c) (LRun items)
      = (mkL V w' c, Some (Some (run_uncached V fnv items),
                           length (filter (lmiss_o V fnv name isnone gen_lookup (w c)) items)))
      /\ WGood V fnv name all w'
      /\ (exists dir', w' c = Some dir' /\ forall k x, In (k, x) items -> dir' (name k) = Some (fnv x))
      /\ (forall j, j <> c -> w' j = w j).
Proof. exact (lstep_run_tree gen_lookup gen_mkdir C19_life_facts_pinned). Qed.
Print Assumptions C19_run_at_any_point_of_a_session.

(** ANY HISTORY of runs, new objects, re-targeted objects and wiped directories, in any order, from any Good world:
    EVERY run returns the uncached results (no run raises), and the world stays Good *)
Theorem C19_any_history_returns_uncached :
  forall (V : Type) (fnv : N -> V) (name : N -> N) (isnone : V -> bool) (all : list (N * N))
         (evs : list lev) (s : lstate V),
    NoDup (map (fun kx => name (fst kx)) all) -> WGood V fnv name all (l_world V s) -> Forall (ev_ok name all) evs ->
    Forall (fun r => snd (fst r) = Some (run_uncached V fnv (fst (fst r))))
           (lhist V fnv name isnone gen_lookup gen_mkdir s evs)
    /\ WGood V fnv name all (l_world V (lfinal V fnv name isnone gen_lookup gen_mkdir s evs)).
Proof. exact (life_history_tree gen_lookup gen_mkdir C19_life_facts_pinned). Qed.
Print Assumptions C19_any_history_returns_uncached.

(** a REPEATED run evaluates nothing, WHATEVER the results are (which of them are None is irrelevant) *)
Theorem C19_repeated_run_evaluates_nothing_whatever_the_results :
  forall (V : Type) (fnv : N -> V) (name : N -> N) (isnone : V -> bool) (all : list (N * N))
         (w : world V) (c : N) (items : list (N * N)),
    NoDup (map (fun kx => name (fst kx)) all) -> WGood V fnv name all w ->
    incl items all -> NoDup (map (fun kx => name (fst kx)) items) ->
    exists n1,
      lhist V fnv name isnone gen_lookup gen_mkdir (mkL V w c) [LRun items; LRun items]
      = [(items, Some (run_uncached V fnv items), n1); (items, Some (run_uncached V fnv items), 0)].
Proof. exact (repeated_run_tree gen_lookup gen_mkdir C19_life_facts_pinned). Qed.
Print Assumptions C19_repeated_run_evaluates_nothing_whatever_the_results.

(** the cache directory wiped between two runs with ONE object: the second run returns the uncached results again
    and evaluates everything *)
Theorem C19_wipe_then_rerun :
  forall (V : Type) (fnv : N -> V) (name : N -> N) (isnone : V -> bool) (all : list (N * N))
         (w : world V) (c : N) (items : list (N * N)),
    NoDup (map (fun kx => name (fst kx)) all) -> WGood V fnv name all w ->
    incl items all -> NoDup (map (fun kx => name (fst kx)) items) ->
    exists n1,
      lhist V fnv name isnone gen_lookup gen_mkdir (mkL V w c) [LRun items; LWipe; LRun items]
      = [(items, Some (run_uncached V fnv items), n1); (items, Some (run_uncached V fnv items), length items)].
Proof. exact (wipe_then_rerun_tree gen_lookup gen_mkdir C19_life_facts_pinned). Qed.
Print Assumptions C19_wipe_then_rerun.

(** REGRESSION (seeded/C19-7): "None = nothing usable".  Every run still returns the uncached results, but the
    repeated run evaluates fn once for every pair whose result IS None -- in general, and on the witness (results
    None, 16, None): evaluations 3, 2, 2 instead of 3, 0, 0 *)
Theorem C19_none_is_miss_refuted :
  (forall (V : Type) (fnv : N -> V) (name : N -> N) (isnone : V -> bool) (all : list (N * N)) mk
          (w : world V) (c : N) (items : list (N * N)),
      NoDup (map (fun kx => name (fst kx)) all) -> WGood V fnv name all w ->
      incl items all -> NoDup (map (fun kx => name (fst kx)) items) -> mk <> MkAtConstruct \/ w c <> None ->
      exists n1,
        lhist V fnv name isnone LkNoneIsMiss mk (mkL V w c) [LRun items; LRun items]
        = [(items, Some (run_uncached V fnv items), n1);
           (items, Some (run_uncached V fnv items), length (filter (fun kx => isnone (fnv (snd kx))) items))])
  /\ NoDup (map (fun kx : N * N => fst kx) w_items)
  /\ map (fun r => snd r) (lhist Z w_fn (fun k => k) w_none LkNoneIsMiss MkAtRun (mkL Z world_empty 0)
                                 [LNew 0; LRun w_items; LRun w_items; LRun w_items]) = [3; 2; 2]
  /\ map (fun r => snd r) (lhist Z w_fn (fun k => k) w_none LkExists MkAtRun (mkL Z world_empty 0)
                                 [LNew 0; LRun w_items; LRun w_items; LRun w_items]) = [3; 0; 0]
  /\ map (fun r => snd (fst r)) (lhist Z w_fn (fun k => k) w_none LkNoneIsMiss MkAtRun (mkL Z world_empty 0)
                                 [LNew 0; LRun w_items; LRun w_items])
     = [Some (run_uncached Z w_fn w_items); Some (run_uncached Z w_fn w_items)].
Proof. exact none_is_miss_refuted. Qed.
Print Assumptions C19_none_is_miss_refuted.

(** REGRESSION (seeded/C19-8): the directory created when the Cache object is CONSTRUCTED, not at the start of a run.
    A fresh object works (first run: everything evaluated, uncached results); after a wipe the run over any non-empty
    list RAISES, and so does a run after pointing the object at a directory that does not exist -- where the run
    without cache returns.  Witness history new, run, run, wipe, run, retarget, run, new, run: construct-time mkdir
    returns, returns (0 evaluations), raises, raises, returns; the tree's run-time mkdir returns five times *)
Theorem C19_mkdir_at_construct_refuted :
  (forall (V : Type) (fnv : N -> V) (name : N -> N) (isnone : V -> bool) (all : list (N * N)) lk d k x r,
      NoDup (map (fun kx => name (fst kx)) all) ->
      incl ((k, x) :: r) all -> NoDup (map (fun kx => name (fst kx)) ((k, x) :: r)) ->
      lhist V fnv name isnone lk MkAtConstruct (mkL V world_empty 0) [LNew d; LRun ((k, x) :: r); LWipe; LRun ((k, x) :: r)]
      = [((k, x) :: r, Some (run_uncached V fnv ((k, x) :: r)), S (length r)); ((k, x) :: r, None, 1)]
      /\ forall w c d', w d' = None ->
           lhist V fnv name isnone lk MkAtConstruct (mkL V w c) [LRetarget d'; LRun ((k, x) :: r)] = [((k, x) :: r, None, 1)])
  /\ map (fun r => (snd (fst r), snd r))
      (lhist Z w_fn (fun k => k) w_none LkExists MkAtConstruct (mkL Z world_empty 0)
             [LNew 0; LRun w_items; LRun w_items; LWipe; LRun w_items; LRetarget 1; LRun w_items; LNew 2; LRun w_items])
     = [(Some (run_uncached Z w_fn w_items), 3); (Some (run_uncached Z w_fn w_items), 0); (None, 1); (None, 1);
        (Some (run_uncached Z w_fn w_items), 3)]
  /\ map (fun r => (snd (fst r), snd r))
      (lhist Z w_fn (fun k => k) w_none LkExists MkAtRun (mkL Z world_empty 0)
             [LNew 0; LRun w_items; LRun w_items; LWipe; LRun w_items; LRetarget 1; LRun w_items; LNew 2; LRun w_items])
     = [(Some (run_uncached Z w_fn w_items), 3); (Some (run_uncached Z w_fn w_items), 0);
        (Some (run_uncached Z w_fn w_items), 3); (Some (run_uncached Z w_fn w_items), 3);
        (Some (run_uncached Z w_fn w_items), 3)].
Proof. exact mkdir_at_construct_refuted. Qed.
Print Assumptions C19_mkdir_at_construct_refuted.

(** non-vacuity of the life statements with the facts of the tree: keys 1, 2, 3 with inputs 3, 4, 6 and results
    None, 16, None (w_fn: 0 stands for None, [w_none] recognises it); the world after  new, run  is Good, holds the
    three results (two of them None) in directory 0, and the history  run, wipe, run, retarget 1, run, retarget 0, run
    evaluates 0, 3, 3, 0 results *)
Example C19_nonvacuous_life :
  let s1 := lfinal Z w_fn (fun k => k) w_none gen_lookup gen_mkdir (mkL Z world_empty 0) [LNew 0; LRun w_items] in
  NoDup (map (fun kx : N * N => fst kx) w_items)
  /\ Forall (ev_ok (fun k => k) w_items) [LRun w_items; LWipe; LRun w_items; LRetarget 1; LRun w_items; LRetarget 0; LRun w_items]
  /\ (exists dir, l_world Z s1 0%N = Some dir /\ map (fun kx : N * N => dir (fst kx)) w_items = [Some 0%Z; Some 16%Z; Some 0%Z])
  /\ map (fun v => w_none v) [0%Z; 16%Z] = [true; false]
  /\ map (fun r => snd r)
         (lhist Z w_fn (fun k => k) w_none gen_lookup gen_mkdir s1
                [LRun w_items; LWipe; LRun w_items; LRetarget 1; LRun w_items; LRetarget 0; LRun w_items]) = [0; 3; 3; 0].
Proof.
  cbv zeta. split; [|split; [|split; [|split]]].
  - repeat constructor; cbn; intuition discriminate.
  - assert (Hok : ev_ok (fun k : N => k) w_items (LRun w_items)).
    { split; [apply incl_refl | repeat constructor; cbn; intuition discriminate]. }
    repeat (constructor; [first [exact Hok | exact I]|]). constructor.
  - eexists. split; [vm_compute; reflexivity | vm_compute; reflexivity].
  - vm_compute. reflexivity.
  - vm_compute. reflexivity.
Qed.
Print Assumptions C19_nonvacuous_life.

(** the run is killed after ANY prefix [sched1] of ANY interleaving (before, between and after the
    bytes of every result file, before/after the close and the replace), under ANY flush policy
    [pol1] (write-through, fully buffered, anything between: what is still buffered is lost),
    starting from any Good directory (a fresh one, or one left by earlier interrupted runs): the
    directory left behind is Good -- the published file is only ever a closed, complete file --
    and every rerun -- parallel=False, the pool, any interleaving that completes, any flush policy
    [pol2] -- returns the uncached result for every key and leaves every result file complete *)
Theorem C19_crash_then_rerun :
  forall (V : Type) (name : N -> N) (fnv : N -> V) (size : V -> nat) (pol1 pol2 : V -> nat -> bool)
         (items : list (N * N)) (f0 : fs V) (p1 : N) (sched1 : list nat),
    names_distinct name items -> Good V name fnv size items f0 ->
    let f1 := s_fs (exec V name fnv size pol1 (cf_save gen_cache_facts) p1 items sched1 (init items f0)) in
    Good V name fnv size items f1
    /\ forall p2,
         (forall sched2,
            let st2 := exec V name fnv size pol2 (cf_save gen_cache_facts) p2 items sched2 (init items f1) in
            all_done st2 = true ->
            collect items (s_pcs st2) = Some (run_uncached V fnv items)
            /\ AllCached V name fnv size items (s_fs st2))
         /\ (let st2 := run_seq V name fnv size pol2 None (cf_save gen_cache_facts) p2 items f1 in
             all_done st2 = true /\ collect items (s_pcs st2) = Some (run_uncached V fnv items)
             /\ AllCached V name fnv size items (s_fs st2))
         /\ (let st2 := run_par V name fnv size pol2 (cf_save gen_cache_facts) p2 items f1 in
             all_done st2 = true /\ collect items (s_pcs st2) = Some (run_uncached V fnv items)
             /\ AllCached V name fnv size items (s_fs st2)).
Proof. exact (fun V name fnv size => crash_then_rerun V name fnv size gen_cache_facts C19_facts_pinned). Qed.
Print Assumptions C19_crash_then_rerun.

(** ... and so does any number of interrupted runs in a row, each killed anywhere, each with its own
    process id and flush policy *)
Theorem C19_any_number_of_crashes :
  forall (V : Type) (name : N -> N) (fnv : N -> V) (size : V -> nat) (items : list (N * N))
         (runs : list (N * (V -> nat -> bool) * list nat)) (f0 : fs V),
    names_distinct name items -> Good V name fnv size items f0 ->
    Good V name fnv size items
      (fold_left (fun f r => s_fs (exec V name fnv size (snd (fst r)) (cf_save gen_cache_facts) (fst (fst r)) items
                                         (snd r) (init items f)))
                 runs f0).
Proof. exact (fun V name fnv size => any_number_of_crashes V name fnv size gen_cache_facts C19_facts_pinned). Qed.
Print Assumptions C19_any_number_of_crashes.

(** "a rerun completes": under any interleaving, any protocol, any flush policy and any directory
    content, a worker that got size(result)+5 turns has returned or raised; a schedule that gives
    every worker that many turns is complete *)
Theorem C19_rerun_completes :
  forall (V : Type) (name : N -> N) (fnv : N -> V) (size : V -> nat) (pol : V -> nat -> bool) pr
         (items : list (N * N)) (f0 : fs V) (p : N) (sched : list nat),
    (forall i k x, nth_error items i = Some (k, x) -> wfuel V fnv size x <= count_occ Nat.eq_dec sched i) ->
    all_done (exec V name fnv size pol pr p items sched (init items f0)) = true.
Proof. exact fair_schedule_completes. Qed.
Print Assumptions C19_rerun_completes.

(** the executable runners evaluated in the correspondence check are schedules, i.e. instances of
    what the theorems above quantify over (also when killed after b file-system effects) *)
Theorem C19_runners_are_schedules :
  forall (V : Type) (name : N -> N) (fnv : N -> V) (size : V -> nat) (pol : V -> nat -> bool) b pr p
         (items : list (N * N)) (f0 : fs V),
    exists sched, run_seq V name fnv size pol b pr p items f0 = exec V name fnv size pol pr p items sched (init items f0).
Proof. exact run_seq_is_schedule. Qed.
Print Assumptions C19_runners_are_schedules.

Theorem C19_pool_runner_with_dying_worker_is_schedule :
  forall (V : Type) (name : N -> N) (fnv : N -> V) (size : V -> nat) (pol : V -> nat -> bool) pr p
         (items : list (N * N)) (f0 : fs V) c e,
    exists sched, run_par_exit V name fnv size pol pr p items f0 c e = exec V name fnv size pol pr p items sched (init items f0).
Proof. exact run_par_exit_is_schedule. Qed.
Print Assumptions C19_pool_runner_with_dying_worker_is_schedule.

(** THE CODE AS FIRST FOUND (direct write into the final path), as a theorem about the same model with
    fact = SaveDirect: from an EMPTY directory, kill the run right after open("wb") (any flush
    policy); then no rerun, under no interleaving and no flush policy, ever returns *)
Theorem C19_torn_refuted :
  exists (items : list (N * N)) (sched1 : list nat),
    names_distinct (fun k => k) items
    /\ forall pol1,
       let f1 := s_fs (exec Z (fun k => k) Z.of_N (fun _ => 5) pol1 SaveDirect 1 items sched1 (init items fs_empty)) in
       forall pol2 p2 sched2,
         let st2 := exec Z (fun k => k) Z.of_N (fun _ => 5) pol2 SaveDirect p2 items sched2 (init items f1) in
         all_done st2 = true -> collect items (s_pcs st2) = None.
Proof. exact torn_refuted. Qed.
Print Assumptions C19_torn_refuted.

(** ... and in general: with the direct write a final file holding ANY strict prefix (every byte
    offset j <> size) is never repaired, its worker can only raise, and no complete run returns *)
Theorem C19_direct_every_torn_offset_poisons :
  forall (V : Type) (name : N -> N) (fnv : N -> V) (size : V -> nat) (pol : V -> nat -> bool)
         (items : list (N * N)) (f0 : fs V) (p : N) (sched : list nat) (i : nat) (k x : N) (v : V) (j : nat),
    names_distinct name items ->
    nth_error items i = Some (k, x) ->
    f0 (Final (name k)) = Some (v, j) -> j <> size v ->
    let st := exec V name fnv size pol SaveDirect p items sched (init items f0) in
    s_fs st (Final (name k)) = Some (v, j)
    /\ (forall r, nth_error (s_pcs st) i = Some (PDone r) -> r = Raised)
    /\ (all_done st = true -> collect items (s_pcs st) = None).
Proof. exact (fun V name fnv size pol => direct_torn_poisons V name fnv size pol SaveDirect eq_refl). Qed.
Print Assumptions C19_direct_every_torn_offset_poisons.

(** ... under EVERY save protocol: no protocol repairs a torn result file, because _load_or_run takes
    the existence of the file for "result available".  (Hence Good is not only sufficient but what a
    save protocol has to maintain.) *)
Theorem C19_torn_file_is_never_repaired :
  forall (V : Type) (name : N -> N) (fnv : N -> V) (size : V -> nat) (pol : V -> nat -> bool) pr
         (items : list (N * N)) (f0 : fs V) (p : N) (sched : list nat) (i : nat) (k x : N) (v : V) (j : nat),
    names_distinct name items ->
    nth_error items i = Some (k, x) ->
    f0 (Final (name k)) = Some (v, j) -> j <> size v ->
    let st := exec V name fnv size pol pr p items sched (init items f0) in
    s_fs st (Final (name k)) = Some (v, j)
    /\ (forall r, nth_error (s_pcs st) i = Some (PDone r) -> r = Raised)
    /\ (all_done st = true -> collect items (s_pcs st) = None).
Proof. exact torn_poisons. Qed.
Print Assumptions C19_torn_file_is_never_repaired.

(** REGRESSION (seeded/C19-1): os.replace(tmp, file) executed BEFORE the handle is closed (fact =
    SaveReplaceOpen).  With file objects that buffer (pol_buffered) the run is killed right after the
    replace: the directory is not Good (the final file exists with 0 bytes) and no rerun -- whatever
    its protocol, flush policy, interleaving -- returns.  With unbuffered file objects the same kill
    point leaves a Good directory: only the buffered semantics exposes the defect. *)
Theorem C19_replace_before_close_refuted :
  exists (items : list (N * N)) (sched1 : list nat),
    names_distinct (fun k => k) items
    /\ let f1 := s_fs (exec Z (fun k => k) Z.of_N (fun _ => 5) pol_buffered SaveReplaceOpen 1 items sched1 (init items fs_empty)) in
       ~ Good Z (fun k => k) Z.of_N (fun _ => 5) items f1
       /\ (forall pr2 pol2 p2 sched2,
             let st2 := exec Z (fun k => k) Z.of_N (fun _ => 5) pol2 pr2 p2 items sched2 (init items f1) in
             all_done st2 = true -> collect items (s_pcs st2) = None)
       /\ Good Z (fun k => k) Z.of_N (fun _ => 5) items
            (s_fs (exec Z (fun k => k) Z.of_N (fun _ => 5) pol_through SaveReplaceOpen 1 items sched1 (init items fs_empty))).
Proof. exact replace_before_close_refuted. Qed.
Print Assumptions C19_replace_before_close_refuted.

(** non-vacuity: three keys with 5-byte results; the run is killed in the middle of the second
    key's file (after 2 of its bytes; first key complete); the hypotheses of C19_crash_then_rerun
    hold, the torn bytes sit in the temporary file, and the rerun recomputes exactly two keys *)
Example C19_nonvacuous :
  let items := [(1, 2); (2, 3); (3, 4)]%N in
  let name := (fun k : N => k) in
  let size := (fun _ : Z => 5) in
  let st1 := run_seq Z name Z.of_N size pol_through (Some 10%N) (cf_save gen_cache_facts) 1 items fs_empty in
  let st2 := run_seq Z name Z.of_N size pol_through None (cf_save gen_cache_facts) 2 items (s_fs st1) in
  names_distinct name items
  /\ observe Z name 1 items (s_fs st1) = [(Some (2%Z, 5), None); (None, Some (3%Z, 2)); (None, None)]
  /\ outcome_of items st1 = Died
  /\ outcome_of items st2 = Returned [(1%N, 2%Z); (2%N, 3%Z); (3%N, 4%Z)]
  /\ s_calls st2 = 2%N.
Proof.
  cbv zeta. split; [|split; [|split; [|split]]].
  - repeat constructor; cbn; intuition discriminate.
  - vm_compute. reflexivity.
  - vm_compute. reflexivity.
  - vm_compute. reflexivity.
  - vm_compute. reflexivity.
Qed.
Print Assumptions C19_nonvacuous.

(** non-vacuity, buffered file objects and real keys: the keys 1, "1" and (1, 'u') under the repaired
    names (pairwise different names: 1.p, '1'.p, (1, 'u').p); the run is killed after 4 file-system
    effects (first key complete: open, drain at close, replace; second key: open) -- the second key's
    5 bytes were all handed to fp.write but sit in the buffer, so its temporary file is EMPTY; the
    rerun (new process, unbuffered) recomputes exactly two keys *)
Example C19_nonvacuous_buffered :
  let items := [(1, 2); (2, 3); (3, 4)]%N in
  let keyof := (fun id : N => if N.eqb id 1 then KInt 1 else if N.eqb id 2 then KStr (chars "1")
                              else KTuple [KInt 1; KStr (chars "u")]) in
  let name := name_id NameRepr no_strhash 0 keyof in
  let size := (fun _ : Z => 5) in
  let st1 := exec Z name Z.of_N size pol_buffered (cf_save gen_cache_facts) 1 items
                  (repeat 0 10 ++ repeat 1 8) (init items fs_empty) in
  let st2 := run_seq Z name Z.of_N size pol_through None (cf_save gen_cache_facts) 2 items (s_fs st1) in
  (forall kx, In kx items -> wf_key (keyof (fst kx)) = true)
  /\ NoDup (map (fun kx => keyof (fst kx)) items)
  /\ map (fun kx => option_map string_of_list_ascii (name_of NameRepr no_strhash 0 (keyof (fst kx)))) items
     = [Some "1.p"; Some "'1'.p"; Some "(1, 'u').p"]%string
  /\ observe Z name 1 items (s_fs st1) = [(Some (2%Z, 5), None); (None, Some (3%Z, 0)); (None, None)]
  /\ nth_error (s_pcs st1) 1 = Some (PWrite 3%Z 5 0)
  /\ s_effs st1 = 4%N
  /\ outcome_of items st2 = Returned [(1%N, 2%Z); (2%N, 3%Z); (3%N, 4%Z)]
  /\ s_calls st2 = 2%N.
Proof.
  cbv zeta. split; [|split; [|split; [|split; [|split; [|split; [|split]]]]]].
  - intros kx [<-|[<-|[<-|[]]]]; reflexivity.
  - repeat constructor; cbn; intuition discriminate.
  - vm_compute. reflexivity.
  - vm_compute. reflexivity.
  - vm_compute. reflexivity.
  - vm_compute. reflexivity.
  - vm_compute. reflexivity.
  - vm_compute. reflexivity.
Qed.
Print Assumptions C19_nonvacuous_buffered.

(** non-vacuity of the session statements: A = keys 1, 2 (5-byte results), B = key 3; run A in the pool,
    A again sequentially, then A ++ B in the pool: 2, 0, 1 evaluations, every run returns the uncached
    results; the hypotheses of C19_session_run_depends_on_directory_only hold at every stage *)
Example C19_nonvacuous_session :
  let A := [(1, 2); (2, 3)]%N in
  let B := [(3, 4)]%N in
  let name := (fun k : N => k) in
  let size := (fun _ : Z => 5) in
  let st1 := run_par Z name Z.of_N size pol_buffered (cf_save gen_cache_facts) 1 A fs_empty in
  let st2 := run_seq Z name Z.of_N size pol_through None (cf_save gen_cache_facts) 1 A (s_fs st1) in
  let st3 := run_par Z name Z.of_N size pol_through (cf_save gen_cache_facts) 1 (A ++ B) (s_fs st2) in
  names_distinct name (A ++ B) /\ incl A (A ++ B)
  /\ map (fun st => s_calls st) [st1; st2; st3] = [2; 0; 1]%N
  /\ length (missing Z name (A ++ B) (s_fs st2)) = 1
  /\ outcome_of A st2 = Returned [(1%N, 2%Z); (2%N, 3%Z)]
  /\ outcome_of (A ++ B) st3 = Returned [(1%N, 2%Z); (2%N, 3%Z); (3%N, 4%Z)].
Proof.
  cbv zeta. split; [|split; [|split; [|split; [|split]]]].
  - repeat constructor; cbn; intuition discriminate.
  - apply incl_appl. apply incl_refl.
  - vm_compute. reflexivity.
  - vm_compute. reflexivity.
  - vm_compute. reflexivity.
  - vm_compute. reflexivity.
Qed.
Print Assumptions C19_nonvacuous_session.
