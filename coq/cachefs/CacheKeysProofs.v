(** C19 -- proofs about the key / file-name model (CacheKeys.v): repr() is injective on the key
    universe (unique parsing of the printed form), hence so is the repaired default name_fn; the
    name numbering [code] is injective; names do not depend on the process. *)
From Coq Require Import List NArith ZArith Bool Arith Lia Ascii String DecimalString DecimalZ DecimalPos.
From CacheFS Require Import CacheKeys.
Import ListNotations.
Local Open Scope char_scope.

(** * 1. numbering of names *)
Lemma N_of_ascii_inj a b : N_of_ascii a = N_of_ascii b -> a = b.
Proof. intros H. rewrite <- (ascii_N_embedding a), <- (ascii_N_embedding b), H. reflexivity. Qed.

Lemma code_inj : forall a b, code a = code b -> a = b.
Proof.
  induction a as [|x a IH]; destruct b as [|y b]; cbn [code]; intros H.
  - reflexivity.
  - exfalso. lia.
  - exfalso. lia.
  - pose proof (N_ascii_bounded x) as Hx. pose proof (N_ascii_bounded y) as Hy.
    assert (H1 : code a = code b) by lia.
    assert (H2 : N_of_ascii x = N_of_ascii y) by lia.
    apply IH in H1. apply N_of_ascii_inj in H2. subst. reflexivity.
Qed.

Lemma code_nonempty : forall l, l <> [] -> code l <> 0%N.
Proof. intros [|c r] H; [congruence|]. cbn [code]. lia. Qed.

(** * 2. decimal literals *)
Lemma chars_inj s t : chars s = chars t -> s = t.
Proof.
  unfold chars. intros H.
  rewrite <- (string_of_list_ascii_of_string s), <- (string_of_list_ascii_of_string t), H. reflexivity.
Qed.

Lemma to_int_not_nil z : Z.to_int z <> Decimal.Pos Decimal.Nil /\ Z.to_int z <> Decimal.Neg Decimal.Nil.
Proof.
  destruct z as [|p|p]; cbn; split; try discriminate; intros H; inversion H as [H1];
    exact (Unsigned.to_uint_nonnil p H1).
Qed.

Lemma dec_inj z1 z2 : dec z1 = dec z2 -> z1 = z2.
Proof.
  unfold dec. intros H. apply chars_inj in H.
  apply DecimalZ.to_int_inj.
  assert (E : Some (Z.to_int z1) = Some (Z.to_int z2)).
  { rewrite <- (NilZero.isi (Z.to_int z1)), <- (NilZero.isi (Z.to_int z2)), H;
      try reflexivity; apply to_int_not_nil. }
  inversion E. reflexivity.
Qed.

Lemma uint_intc d : forallb intc (chars (NilEmpty.string_of_uint d)) = true.
Proof. induction d; cbn [NilEmpty.string_of_uint chars list_ascii_of_string forallb]; [reflexivity|..];
       fold (chars (NilEmpty.string_of_uint d)); rewrite IHd; reflexivity. Qed.

Lemma uint0_intc d : forallb intc (chars (NilZero.string_of_uint d)) = true.
Proof. destruct d; try apply uint_intc. reflexivity. Qed.

Lemma dec_intc z : forallb intc (dec z) = true.
Proof.
  unfold dec. destruct (Z.to_int z) as [d|d]; cbn [NilZero.string_of_int].
  - apply uint0_intc.
  - cbn [chars list_ascii_of_string forallb]. fold (chars (NilZero.string_of_uint d)).
    rewrite uint0_intc. reflexivity.
Qed.

Lemma dec_nonempty z : dec z <> [].
Proof.
  unfold dec. destruct (Z.to_int z) as [d|d]; cbn [NilZero.string_of_int].
  - destruct d; discriminate.
  - discriminate.
Qed.

Lemma intc_atomc c : intc c = true -> atomc c = true.
Proof.
  unfold intc, atomc, in_chars. cbn [chars list_ascii_of_string existsb].
  intros H. repeat (apply orb_true_iff in H; destruct H as [H|H]; [rewrite H; rewrite ?orb_true_r; reflexivity|]).
  discriminate.
Qed.

Lemma forallb_impl {A} (f g : A -> bool) l :
  (forall a, f a = true -> g a = true) -> forallb f l = true -> forallb g l = true.
Proof.
  intros H. induction l as [|a l IH]; simpl; [reflexivity|].
  intros E. apply andb_true_iff in E. destruct E as [E1 E2]. rewrite (H _ E1), (IH E2). reflexivity.
Qed.

(** an atom (int or float literal) followed by a non-atom character is delimited uniquely *)
Definition stopA (r : list ascii) : Prop := match r with [] => True | c :: _ => atomc c = false end.

Lemma atom_span : forall a1 a2 r1 r2,
  forallb atomc a1 = true -> forallb atomc a2 = true -> stopA r1 -> stopA r2 ->
  a1 ++ r1 = a2 ++ r2 -> a1 = a2 /\ r1 = r2.
Proof.
  induction a1 as [|x a1 IH]; destruct a2 as [|y a2]; cbn [app forallb]; intros r1 r2 H1 H2 S1 S2 E.
  - split; [reflexivity | exact E].
  - exfalso. subst r1. apply andb_true_iff in H2. destruct H2 as [H2 _]. simpl in S1. congruence.
  - exfalso. subst r2. apply andb_true_iff in H1. destruct H1 as [H1 _]. simpl in S2. congruence.
  - apply andb_true_iff in H1. destruct H1 as [_ H1]. apply andb_true_iff in H2. destruct H2 as [_ H2].
    inversion E; subst. destruct (IH a2 r1 r2 H1 H2 S1 S2 H3) as [Ea Er]. subst. split; reflexivity.
Qed.

Lemma all_int_no_nonint l :
  forallb intc l = true -> existsb (fun c => negb (intc c)) l = true -> False.
Proof.
  induction l as [|x l IH]; simpl; [discriminate|].
  intros Hi He. apply andb_true_iff in Hi. destruct Hi as [Hx Hl]. rewrite Hx in He. simpl in He. auto.
Qed.

Lemma float_not_int lit z : float_lit lit = true -> lit <> dec z.
Proof.
  intros Hf E. subst lit. unfold float_lit in Hf.
  destruct (dec z) as [|c t] eqn:Ed; [discriminate|].
  apply andb_true_iff in Hf. destruct Hf as [_ Hf]. rewrite <- Ed in Hf.
  exact (all_int_no_nonint _ (dec_intc z) Hf).
Qed.

Lemma float_atoms lit : float_lit lit = true -> forallb atomc lit = true /\ lit <> [].
Proof.
  unfold float_lit. destruct lit; [discriminate|]. intros H. apply andb_true_iff in H.
  split; [exact (proj1 H) | discriminate].
Qed.

(** * 3. string literals *)
Definition hexval (c : ascii) : nat :=
  match find (fun i => Ascii.eqb (hexdigit i) c) (seq 0 16) with Some i => i | None => 0 end.

(** reads back one escaped character *)
Definition unesc (l : list ascii) : option (ascii * list ascii) :=
  match l with
  | "\" :: "x" :: h1 :: h2 :: r => Some (ascii_of_nat (hexval h1 * 16 + hexval h2), r)
  | "\" :: "t" :: r => Some (ascii_of_nat 9, r)
  | "\" :: "n" :: r => Some (ascii_of_nat 10, r)
  | "\" :: "r" :: r => Some (ascii_of_nat 13, r)
  | "\" :: c :: r => Some (c, r)
  | c :: r => Some (c, r)
  | [] => None
  end.

Lemma unesc_esc q c r :
  (q = "'" \/ q = """") -> ascii7 c = true -> unesc (esc q c ++ r) = Some (c, r).
Proof.
  intros Hq Hc.
  destruct c as [[] [] [] [] [] [] [] []]; try discriminate Hc;
    destruct Hq; subst q; vm_compute; reflexivity.
Qed.

Lemma esc_head q c :
  (q = "'" \/ q = """") -> exists h t, esc q c = h :: t /\ h <> q.
Proof.
  intros Hq. unfold esc.
  destruct (Ascii.eqb c "\") eqn:E1.
  { eexists _, _. split; [reflexivity|]. destruct Hq; subst; discriminate. }
  destruct (Ascii.eqb c q) eqn:E2.
  { eexists _, _. split; [reflexivity|]. destruct Hq; subst; discriminate. }
  repeat match goal with |- context [if ?b then _ else _] => destruct b end;
    eexists _, _; (split; [reflexivity|]); try (destruct Hq; subst; discriminate).
  apply Ascii.eqb_neq. exact E2.
Qed.

Lemma esc_cancel q : (q = "'" \/ q = """") ->
  forall s1 s2 r1 r2,
    forallb ascii7 s1 = true -> forallb ascii7 s2 = true ->
    flat_map (esc q) s1 ++ q :: r1 = flat_map (esc q) s2 ++ q :: r2 -> s1 = s2 /\ r1 = r2.
Proof.
  intros Hq. induction s1 as [|c1 s1 IH]; destruct s2 as [|c2 s2]; cbn [flat_map forallb app]; intros r1 r2 W1 W2 E.
  - inversion E. split; reflexivity.
  - exfalso. destruct (esc_head q c2 Hq) as (h & t & Eh & Hne). rewrite Eh in E. inversion E. congruence.
  - exfalso. destruct (esc_head q c1 Hq) as (h & t & Eh & Hne). rewrite Eh in E. inversion E. congruence.
  - apply andb_true_iff in W1. destruct W1 as [W1 W1']. apply andb_true_iff in W2. destruct W2 as [W2 W2'].
    rewrite <- !app_assoc in E.
    pose proof (unesc_esc q c1 (flat_map (esc q) s1 ++ q :: r1) Hq W1) as U1.
    pose proof (unesc_esc q c2 (flat_map (esc q) s2 ++ q :: r2) Hq W2) as U2.
    rewrite E in U1. rewrite U1 in U2. inversion U2; subst.
    destruct (IH s2 r1 r2 W1' W2' H1) as [Es Er]. subst. split; reflexivity.
Qed.

Lemma quote_of_cases s : quote_of s = "'" \/ quote_of s = """".
Proof. unfold quote_of. destruct (_ && _); [right | left]; reflexivity. Qed.

Lemma repr_str_cancel s1 s2 r1 r2 :
  forallb ascii7 s1 = true -> forallb ascii7 s2 = true ->
  repr_str s1 ++ r1 = repr_str s2 ++ r2 -> s1 = s2 /\ r1 = r2.
Proof.
  unfold repr_str. intros W1 W2 E. cbn [app] in E. inversion E as [[Eq E']].
  rewrite <- !app_assoc in E'. cbn [app] in E'. rewrite Eq in E'.
  exact (esc_cancel _ (quote_of_cases s2) s1 s2 r1 r2 W1 W2 E').
Qed.

(** * 4. induction over keys (tuples nest) *)
Section KeyInd.
  Variable P : key -> Prop.
  Hypothesis HInt : forall z, P (KInt z).
  Hypothesis HBool : forall b, P (KBool b).
  Hypothesis HNone : P KNone.
  Hypothesis HFloat : forall l, P (KFloat l).
  Hypothesis HStr : forall s, P (KStr s).
  Hypothesis HTuple : forall l, Forall P l -> P (KTuple l).
  Fixpoint key_ind' (k : key) : P k :=
    match k with
    | KInt z => HInt z
    | KBool b => HBool b
    | KNone => HNone
    | KFloat l => HFloat l
    | KStr s => HStr s
    | KTuple l =>
        HTuple l ((fix go (l : list key) : Forall P l :=
                     match l with
                     | [] => Forall_nil P
                     | a :: r => Forall_cons a (key_ind' a) (go r)
                     end) l)
    end.
End KeyInd.

(** * 5. repr() parses uniquely *)

(** what may follow a key inside a tuple (or nothing, at top level) *)
Definition delim (r : list ascii) : Prop :=
  match r with [] => True | c :: _ => c = "," \/ c = ")" end.

Lemma delim_stopA r : delim r -> stopA r.
Proof. destruct r as [|c r]; simpl; [auto|]. intros [H|H]; subst; reflexivity. Qed.

(** the first character tells the kind of key *)
Definition head_ok (k : key) (c : ascii) : Prop :=
  match k with
  | KInt _ | KFloat _ => atomc c = true
  | KBool true => c = "T"
  | KBool false => c = "F"
  | KNone => c = "N"
  | KStr _ => c = "'" \/ c = """"
  | KTuple _ => c = "("
  end.

Lemma repr_head k : wf_key k = true -> exists c t, py_repr k = c :: t /\ head_ok k c.
Proof.
  destruct k as [z|[|]| |lit|s|l]; cbn [py_repr wf_key head_ok]; intros W.
  - pose proof (dec_intc z) as Hi. pose proof (dec_nonempty z) as Hn.
    destruct (dec z) as [|c t]; [congruence|]. exists c, t. split; [reflexivity|].
    simpl in Hi. apply andb_true_iff in Hi. apply intc_atomc. exact (proj1 Hi).
  - eexists _, _. split; reflexivity.
  - eexists _, _. split; reflexivity.
  - eexists _, _. split; reflexivity.
  - destruct (float_atoms lit W) as [Ha Hn]. destruct lit as [|c t]; [congruence|].
    exists c, t. split; [reflexivity|]. simpl in Ha. apply andb_true_iff in Ha. exact (proj1 Ha).
  - unfold repr_str. eexists _, _. split; [reflexivity|]. apply quote_of_cases.
  - eexists _, _. split; reflexivity.
Qed.

Lemma head_not_delim k c : head_ok k c -> c <> "," /\ c <> ")" /\ c <> " ".
Proof.
  destruct k as [z|[|]| |lit|s|l]; cbn [head_ok]; intros H;
    try (subst c; repeat split; discriminate);
    try (destruct H; subst c; repeat split; discriminate);
    repeat split; intros E; subst c; discriminate H.
Qed.

Definition cancels (k1 : key) : Prop :=
  forall k2 r1 r2, wf_key k1 = true -> wf_key k2 = true -> delim r1 -> delim r2 ->
                   py_repr k1 ++ r1 = py_repr k2 ++ r2 -> k1 = k2 /\ r1 = r2.

(** keys of different kinds print differently: their first characters differ, or (int / float)
    their literals do *)
Ltac heads W1 W2 E :=
  let c1 := fresh "c" in let t1 := fresh "t" in let E1 := fresh "E" in let F1 := fresh "F" in
  let c2 := fresh "c" in let t2 := fresh "t" in let E2 := fresh "E" in let F2 := fresh "F" in
  repeat match goal with b : bool |- _ => destruct b end;
  destruct (repr_head _ W1) as (c1 & t1 & E1 & F1);
  destruct (repr_head _ W2) as (c2 & t2 & E2 & F2);
  rewrite E1, E2 in E; cbn [app] in E; inversion E; subst; cbn [head_ok] in F1, F2;
  repeat match goal with H : _ \/ _ |- _ => destruct H end; subst;
  try discriminate; exfalso;
  repeat match goal with H : atomc _ = true |- _ => vm_compute in H; discriminate H end.

Lemma tuple_rest_delim r rest : delim (tuple_rest py_repr r ++ rest).
Proof. destruct r; cbn; auto. Qed.

Lemma tuple_rest_cancel : forall l1, Forall cancels l1 ->
  forall l2 r1 r2, forallb wf_key l1 = true -> forallb wf_key l2 = true ->
    tuple_rest py_repr l1 ++ r1 = tuple_rest py_repr l2 ++ r2 -> l1 = l2 /\ r1 = r2.
Proof.
  induction l1 as [|a l1 IH]; intros HF [|b l2] r1 r2 W1 W2 E; cbn [tuple_rest app forallb] in *.
  - inversion E. split; reflexivity.
  - discriminate E.
  - discriminate E.
  - inversion HF as [|? ? Ha HF']; subst.
    apply andb_true_iff in W1. destruct W1 as [Wa W1]. apply andb_true_iff in W2. destruct W2 as [Wb W2].
    inversion E as [E']. rewrite <- !app_assoc in E'.
    destruct (Ha b _ _ Wa Wb (tuple_rest_delim _ _) (tuple_rest_delim _ _) E') as [Eab E''].
    subst b. destruct (IH HF' l2 r1 r2 W1 W2 E'') as [El Er]. subst. split; reflexivity.
Qed.

Lemma repr_cancels : forall k, cancels k.
Proof.
  induction k as [z1|b1| |lit1|s1|l1 IHl] using key_ind'; intros k2 r1 r2 W1 W2 D1 D2 E.
  - (* int *)
    destruct k2 as [z2|b2| |lit2|s2|l2]; try (heads W1 W2 E; fail).
    + cbn [py_repr] in E.
      destruct (atom_span _ _ _ _ (forallb_impl _ _ _ intc_atomc (dec_intc z1))
                          (forallb_impl _ _ _ intc_atomc (dec_intc z2))
                          (delim_stopA _ D1) (delim_stopA _ D2) E) as [Ea Er].
      apply dec_inj in Ea. subst. split; reflexivity.
    + exfalso. cbn [py_repr wf_key] in *.
      destruct (atom_span _ _ _ _ (forallb_impl _ _ _ intc_atomc (dec_intc z1))
                          (proj1 (float_atoms _ W2)) (delim_stopA _ D1) (delim_stopA _ D2) E) as [Ea _].
      exact (float_not_int _ _ W2 (eq_sym Ea)).
  - (* bool *)
    destruct k2 as [z2|b2| |lit2|s2|l2]; try (heads W1 W2 E; fail).
    destruct b1, b2; cbn [py_repr chars list_ascii_of_string app] in E; inversion E; split; reflexivity.
  - (* None *)
    destruct k2 as [z2|b2| |lit2|s2|l2]; try (heads W1 W2 E; fail).
    cbn [py_repr chars list_ascii_of_string app] in E; inversion E; split; reflexivity.
  - (* float *)
    destruct k2 as [z2|b2| |lit2|s2|l2]; try (heads W1 W2 E; fail).
    + exfalso. cbn [py_repr wf_key] in *.
      destruct (atom_span _ _ _ _ (proj1 (float_atoms _ W1))
                          (forallb_impl _ _ _ intc_atomc (dec_intc z2))
                          (delim_stopA _ D1) (delim_stopA _ D2) E) as [Ea _].
      exact (float_not_int _ _ W1 Ea).
    + cbn [py_repr wf_key] in *.
      destruct (atom_span _ _ _ _ (proj1 (float_atoms _ W1)) (proj1 (float_atoms _ W2))
                          (delim_stopA _ D1) (delim_stopA _ D2) E) as [Ea Er].
      subst. split; reflexivity.
  - (* str *)
    destruct k2 as [z2|b2| |lit2|s2|l2]; try (heads W1 W2 E; fail).
    cbn [py_repr wf_key] in *. destruct (repr_str_cancel _ _ _ _ W1 W2 E) as [Es Er].
    subst. split; reflexivity.
  - (* tuple *)
    destruct k2 as [z2|b2| |lit2|s2|l2]; try (heads W1 W2 E; fail).
    cbn [py_repr wf_key app] in *. inversion E as [E']. clear E.
    destruct l1 as [|a1 l1], l2 as [|a2 l2]; cbn [tuple_body app forallb] in *.
    + inversion E'. split; reflexivity.
    + exfalso. apply andb_true_iff in W2. destruct W2 as [Wa _].
      destruct (repr_head a2 Wa) as (c & t & Ec & Hc). rewrite Ec in E'. cbn [app] in E'.
      inversion E'; subst. destruct (head_not_delim _ _ Hc) as (_ & H & _). congruence.
    + exfalso. apply andb_true_iff in W1. destruct W1 as [Wa _].
      destruct (repr_head a1 Wa) as (c & t & Ec & Hc). rewrite Ec in E'. cbn [app] in E'.
      inversion E'; subst. destruct (head_not_delim _ _ Hc) as (_ & H & _). congruence.
    + apply andb_true_iff in W1. destruct W1 as [Wa1 W1]. apply andb_true_iff in W2. destruct W2 as [Wa2 W2].
      inversion IHl as [|? ? Ha IHl']; subst.
      rewrite <- !app_assoc in E'.
      assert (Dl : forall (l : list key) rest,
                 delim (match l with [] => [","; ")"] | _ :: _ => tuple_rest py_repr l end ++ rest)).
      { intros [|x l] rest; cbn; auto. }
      destruct (Ha a2 _ _ Wa1 Wa2 (Dl l1 r1) (Dl l2 r2) E') as [Ea E''].
      subst a2.
      destruct l1 as [|b1 l1], l2 as [|b2 l2].
      * cbn [app] in E''. inversion E''. split; reflexivity.
      * exfalso. cbn [app tuple_rest] in E''. inversion E''.
      * exfalso. cbn [app tuple_rest] in E''. inversion E''.
      * destruct (tuple_rest_cancel (b1 :: l1) IHl' (b2 :: l2) r1 r2 W1 W2 E'') as [El Er].
        rewrite El, Er. split; reflexivity.
Qed.

Theorem py_repr_inj k1 k2 :
  wf_key k1 = true -> wf_key k2 = true -> py_repr k1 = py_repr k2 -> k1 = k2.
Proof.
  intros W1 W2 E.
  destruct (repr_cancels k1 k2 [] [] W1 W2 I I) as [H _]; [rewrite !app_nil_r; exact E | exact H].
Qed.

(** * 6. the default name functions *)
Lemma name_repr_inj sh1 sh2 salt1 salt2 k1 k2 :
  wf_key k1 = true -> wf_key k2 = true ->
  name_of NameRepr sh1 salt1 k1 = name_of NameRepr sh2 salt2 k2 -> k1 = k2.
Proof.
  cbn [name_of]. intros W1 W2 E. inversion E as [E']. apply app_inv_tail in E'.
  exact (py_repr_inj k1 k2 W1 W2 E').
Qed.

Lemma name_id_repr_inj sh salt (keyof : N -> key) id1 id2 :
  wf_key (keyof id1) = true -> wf_key (keyof id2) = true ->
  name_id NameRepr sh salt keyof id1 = name_id NameRepr sh salt keyof id2 -> keyof id1 = keyof id2.
Proof.
  unfold name_id. cbn [name_of]. intros W1 W2 E. apply code_inj in E. apply app_inv_tail in E.
  exact (py_repr_inj _ _ W1 W2 E).
Qed.

Lemma name_salt_independent kind :
  kind = NameStr \/ kind = NameRepr \/ kind = NameReprEsc ->
  forall sh1 sh2 salt1 salt2 k, name_of kind sh1 salt1 k = name_of kind sh2 salt2 k.
Proof. intros [-> | [-> | ->]]; reflexivity. Qed.

Lemma name_str_collides :
  name_of NameStr no_strhash 0 (KInt 1) = name_of NameStr no_strhash 0 (KStr (chars "1")).
Proof. reflexivity. Qed.

Lemma name_hash_collides :
  name_of NameHash no_strhash 0 (KInt (-1)) = name_of NameHash no_strhash 0 (KInt (-2)).
Proof. vm_compute. reflexivity. Qed.

(** the salted string hash reaches the file name: a name function built on hash() is not a function
    of the key alone *)
Lemma name_hash_depends_on_salt (sh : N -> list ascii -> Z) salt1 salt2 s :
  sh salt1 s <> sh salt2 s -> sh salt1 s <> (-1)%Z -> sh salt2 s <> (-1)%Z ->
  name_of NameHash sh salt1 (KStr s) <> name_of NameHash sh salt2 (KStr s).
Proof.
  intros Hne H1 H2. cbn [name_of py_hash].
  apply Z.eqb_neq in H1. apply Z.eqb_neq in H2. rewrite H1, H2.
  intros E. inversion E as [E']. apply app_inv_tail in E'. apply dec_inj in E'. contradiction.
Qed.

(** * 7. percent-encoded names (NameReprEsc, fixes/C19-slash-in-key.diff) *)

(** reads back one encoded character *)
Definition unpct1 (l : list ascii) : option (ascii * list ascii) :=
  match l with
  | "%" :: "2" :: "5" :: r => Some ("%", r)
  | "%" :: "2" :: "F" :: r => Some ("/", r)
  | c :: r => Some (c, r)
  | [] => None
  end.

Lemma unpct1_pct1 c r : unpct1 (pct1 c ++ r) = Some (c, r).
Proof. destruct c as [[] [] [] [] [] [] [] []]; vm_compute; reflexivity. Qed.

(** the encoding is injective on ALL strings (not only on printed keys) *)
Lemma pct_inj : forall s1 s2, pct s1 = pct s2 -> s1 = s2.
Proof.
  unfold pct. induction s1 as [|c1 s1 IH]; destruct s2 as [|c2 s2]; cbn [flat_map]; intros E.
  - reflexivity.
  - exfalso. apply (f_equal unpct1) in E. rewrite unpct1_pct1 in E. discriminate E.
  - exfalso. apply (f_equal unpct1) in E. rewrite unpct1_pct1 in E. discriminate E.
  - apply (f_equal unpct1) in E. rewrite !unpct1_pct1 in E. inversion E; subst.
    f_equal. apply IH. assumption.
Qed.

Lemma pct1_no_slash c : existsb (Ascii.eqb "/") (pct1 c) = false.
Proof. destruct c as [[] [] [] [] [] [] [] []]; vm_compute; reflexivity. Qed.

Lemma pct_no_slash l : existsb (Ascii.eqb "/") (pct l) = false.
Proof.
  unfold pct. induction l as [|c l IH]; [reflexivity|]. cbn [flat_map].
  rewrite existsb_app, pct1_no_slash, IH. reflexivity.
Qed.

Lemma list_ascii_eqb_eq : forall a b, list_ascii_eqb a b = true -> a = b.
Proof.
  induction a as [|x a IH]; destruct b as [|y b]; cbn [list_ascii_eqb]; intros H; try discriminate; [reflexivity|].
  apply andb_true_iff in H. destruct H as [H1 H2]. apply Ascii.eqb_eq in H1. subst. f_equal. apply IH. exact H2.
Qed.

(** every name the escaped name function produces is a single path component -- for EVERY key, inside
    the modelled universe or not (nothing about [py_repr k] is used) *)
Lemma esc_name_is_component (l : list ascii) : is_component (pct l ++ dot_p) = true.
Proof.
  unfold is_component. rewrite existsb_app, pct_no_slash. cbn [orb negb andb].
  replace (existsb (Ascii.eqb "/") dot_p) with false by reflexivity. cbn [negb andb].
  assert (Hlen : 2 <= List.length (pct l ++ dot_p)) by (rewrite app_length; cbn; lia).
  destruct (pct l ++ dot_p) as [|a q] eqn:E; [cbn in Hlen; lia|]. cbn [andb].
  destruct (list_ascii_eqb (a :: q) ["."]) eqn:E1.
  { apply list_ascii_eqb_eq in E1. rewrite E1 in Hlen. cbn in Hlen. lia. }
  destruct (list_ascii_eqb (a :: q) ["."; "."]) eqn:E2; [|reflexivity].
  apply list_ascii_eqb_eq in E2. exfalso.
  assert (Hl : last (pct l ++ dot_p) "x" = "p") by (rewrite last_last || (unfold dot_p; cbn; rewrite (app_assoc _ ["."] ["p"]); apply last_last)).
  rewrite E, E2 in Hl. cbn in Hl. discriminate Hl.
Qed.

Lemma name_esc_is_component sh salt k :
  exists l, name_of NameReprEsc sh salt k = Some l /\ is_component l = true.
Proof. eexists. split; [reflexivity | apply esc_name_is_component]. Qed.

Lemma name_esc_inj sh1 sh2 salt1 salt2 k1 k2 :
  wf_key k1 = true -> wf_key k2 = true ->
  name_of NameReprEsc sh1 salt1 k1 = name_of NameReprEsc sh2 salt2 k2 -> k1 = k2.
Proof.
  cbn [name_of]. intros W1 W2 E. inversion E as [E']. apply app_inv_tail in E'. apply pct_inj in E'.
  exact (py_repr_inj k1 k2 W1 W2 E').
Qed.

Lemma name_id_safe_inj kind sh salt (keyof : N -> key) id1 id2 :
  kind = NameRepr \/ kind = NameReprEsc ->
  wf_key (keyof id1) = true -> wf_key (keyof id2) = true ->
  name_id kind sh salt keyof id1 = name_id kind sh salt keyof id2 -> keyof id1 = keyof id2.
Proof.
  unfold name_id. intros [->| ->]; cbn [name_of]; intros W1 W2 E; apply code_inj in E; apply app_inv_tail in E.
  - exact (py_repr_inj _ _ W1 W2 E).
  - apply pct_inj in E. exact (py_repr_inj _ _ W1 W2 E).
Qed.

(** REGRESSION / the finding while the tree carries f"{k!r}.p": a str key with a path separator gets a
    name that is not a path component (its file would lie in a sub-directory of the cache directory
    that nobody creates: save_fn raises FileNotFoundError); the escaped name of the same key is one *)
Lemma name_repr_not_component :
  exists k l l', wf_key k = true
    /\ name_of NameRepr no_strhash 0 k = Some l /\ is_component l = false
    /\ name_of NameReprEsc no_strhash 0 k = Some l' /\ is_component l' = true
    /\ string_of_list_ascii l = "'ATP/ADP'.p"%string /\ string_of_list_ascii l' = "'ATP%2FADP'.p"%string.
Proof.
  exists (KStr (chars "ATP/ADP")). eexists. eexists.
  split; [reflexivity|]. split; [reflexivity|]. split; [vm_compute; reflexivity|].
  split; [reflexivity|]. split; [vm_compute; reflexivity|]. split; vm_compute; reflexivity.
Qed.
