(** C19 -- does a Cache OBJECT carry state between runs?  MODEL ONLY (no proofs here).  Big-step, on file
    NAMES only (complete runs, pairwise different names: then only presence matters, CacheSessionProofs.v).

    [cache_object_kind] -- regenerated from the `Cache` class and `_load_or_run`:
      CoStateless    the dataclass has exactly the fields tmp_dir / name_fn / load_fn / save_fn, no methods,
                     and _load_or_run asks the DIRECTORY (file.exists()) -- the code
      CoListingMemo  the object memoises one directory listing (seeded/C19-5): taken when still None, i.e.
                     once per object; a sequential run records the names it writes in it; in a parallel
                     run the workers record them in their pickled COPIES, the caller's object learns nothing
      CoUnknown      anything else (treated as stateless in the correspondence: a disagreement shows up) *)
From Coq Require Import List NArith Bool.
Import ListNotations.

Inductive cache_object_kind := CoStateless | CoListingMemo | CoUnknown.

Record ostate := mkO {
  o_dir : list N;               (* names of the (complete) result files in the directory *)
  o_memo : option (list N)      (* the caller's Cache object: its memoised listing, if it has one *)
}.

Definition mem (n : N) (l : list N) : bool := existsb (N.eqb n) l.

(** one complete run over keys with the (pairwise different) file names [names]:
    number of fn evaluations, state afterwards *)
Definition orun (kind : cache_object_kind) (par : bool) (names : list N) (s : ostate) : nat * ostate :=
  match kind with
  | CoListingMemo =>
      let memo0 := match o_memo s with Some m => m | None => o_dir s end in
      let new := filter (fun n => negb (mem n memo0)) names in
      (length new, mkO (new ++ o_dir s) (Some (if par then memo0 else new ++ memo0)))
  | _ =>
      let new := filter (fun n => negb (mem n (o_dir s))) names in
      (length new, mkO (new ++ o_dir s) (o_memo s))
  end.

(** a session: runs one after the other with ONE object; the calls of each run *)
Fixpoint osession (kind : cache_object_kind) (runs : list (bool * list N)) (s : ostate) : list nat :=
  match runs with
  | [] => []
  | (par, names) :: rest => let (c, s') := orun kind par names s in c :: osession kind rest s'
  end.
