(** C19 -- a Cache object has NO state of its own: what a run returns, how many results it computes and
    what it leaves behind are functions of the DIRECTORY it starts from (and of the key/input pairs).
    Proofs over the small-step model of CacheFS.v, for EVERY interleaving, save protocol and flush policy:

      * [calls_count]     the number of fn evaluations of a run = the number of its workers that
                          have left PStart/PRun among those whose result file was absent at the start;
                          for a complete run: exactly [length (missing items f0)];
      * [exec_frame]      result files of names outside the run are not touched;
      * [session_step]    one complete run inside a session over a universe [all] of pairs;
      * [growing_key_set] a complete run over A, then a run over A ++ B: exactly |B| evaluations.

    (The seeded change seeded/C19-5 gave the Cache object a memoised directory listing; its shape is the
    big-step regression model of CacheObject.v.) *)
From Coq Require Import List NArith ZArith Bool Arith Lia.
From MxlBase Require Import ListX.
From CacheFS Require Import CacheFS CacheFSSpec CacheFSProofs.
Import ListNotations.

Section Session.
  Variable V : Type.
  Variable name : N -> N.
  Variable fnv : N -> V.
  Variable size : V -> nat.

  Notation absent' := (absent V name).
  Notation missing' := (missing V name).
  Notation whole' := (whole V fnv size).

  (** has the worker left the states in which fn was not yet called? *)
  Definition started (c : pc V) : bool := match c with PStart | PRun => false | _ => true end.
  Definition ran (f0 : fs V) (k : N) (c : pc V) : bool := absent' f0 k && started c.
  Fixpoint kcount (f0 : fs V) (items : list (N * N)) (pcs : list (pc V)) : nat :=
    match items, pcs with
    | (k, _) :: r, c :: cs => (if ran f0 k c then 1 else 0) + kcount f0 r cs
    | _, _ => 0
    end.

  Lemma kcount_set_nth f0 : forall items pcs i k x c c',
    nth_error items i = Some (k, x) -> nth_error pcs i = Some c ->
    kcount f0 items (set_nth i c' pcs) + (if ran f0 k c then 1 else 0)
    = kcount f0 items pcs + (if ran f0 k c' then 1 else 0).
  Proof.
    induction items as [|[k0 x0] r IH]; intros pcs i k x c c' Hi Hc.
    - destruct i; discriminate.
    - destruct pcs as [|c0 cs]; [destruct i; discriminate|].
      destruct i as [|i]; cbn [nth_error] in Hi, Hc.
      + inversion Hi; inversion Hc; subst. cbn [set_nth kcount]. lia.
      + cbn [set_nth kcount]. specialize (IH cs i k x c c' Hi Hc). lia.
  Qed.

  Lemma kcount_init f0 : forall items, kcount f0 items (map (fun _ => PStart) items) = 0.
  Proof.
    induction items as [|[k x] r IH]; [reflexivity|]. cbn [map kcount]. rewrite IH.
    unfold ran. cbn [started]. rewrite andb_false_r. reflexivity.
  Qed.

  Lemma kcount_done f0 : forall items pcs,
    length pcs = length items -> forallb is_done pcs = true ->
    kcount f0 items pcs = length (missing' items f0).
  Proof.
    induction items as [|[k x] r IH]; intros pcs Hl Hd.
    - destruct pcs; reflexivity.
    - destruct pcs as [|c cs]; [discriminate|].
      cbn [forallb] in Hd. apply andb_true_iff in Hd. destruct Hd as [Hc Hd].
      cbn [kcount]. unfold missing. cbn [filter fst]. fold (missing' r f0).
      rewrite (IH cs) by (try exact Hd; simpl in Hl; lia).
      unfold ran. destruct c; try discriminate Hc. cbn [started]. rewrite andb_true_r.
      destruct (absent' f0 k); reflexivity.
  Qed.

  (** per-worker invariant relative to the directory [f0] the run started from *)
  Definition wk_cnt (f0 f : fs V) (k x : N) (c : pc V) : Prop :=
    match f0 (Final (name k)) with
    | Some _ => f (Final (name k)) = whole' x /\ pc_cached V fnv x c
    | None => c <> PLoad /\ (c = PStart -> f (Final (name k)) = None)
    end.

  Lemma wk_cnt_own pol pr p f0 f k x c f' c' cl ef :
    wk_cnt f0 f k x c -> step1 V name fnv size pol pr p k x f c = (f', c', cl, ef) ->
    wk_cnt f0 f' k x c'
    /\ (if cl then 1 else 0) + (if ran f0 k c then 1 else 0) = (if ran f0 k c' then 1 else 0).
  Proof.
    unfold wk_cnt, ran, absent. destruct (f0 (Final (name k))) as [o|] eqn:E0.
    - intros [Hf Hc] Hs.
      destruct (step1_cached V name fnv size pol pr p k x f c Hf Hc) as [c1 [Hs1 Hc1]].
      rewrite Hs1 in Hs. inversion Hs; subst. split; [split; assumption | reflexivity].
    - intros [Hnl Hst] Hs.
      destruct c as [| | |v|v j d|v|v d|r]; cbn [step1] in Hs.
      + rewrite (Hst eq_refl) in Hs. inversion Hs; subst.
        split; [split; [discriminate | intros ?; discriminate] | reflexivity].
      + contradiction.
      + inversion Hs; subst. split; [split; [discriminate | intros ?; discriminate] | reflexivity].
      + inversion Hs; subst. split; [split; [discriminate | intros ?; discriminate] | reflexivity].
      + destruct (Nat.ltb j (size v)).
        * destruct (pol v (S j)); inversion Hs; subst;
            (split; [split; [discriminate | intros ?; discriminate] | reflexivity]).
        * destruct pr; cbn [is_temp] in Hs; inversion Hs; subst;
            (split; [split; [discriminate | intros ?; discriminate] | reflexivity]).
      + inversion Hs; subst. split; [split; [discriminate | intros ?; discriminate] | reflexivity].
      + inversion Hs; subst. split; [split; [discriminate | intros ?; discriminate] | reflexivity].
      + inversion Hs; subst. split; [split; [exact Hnl | intros ?; discriminate] | reflexivity].
  Qed.

  Lemma wk_cnt_frame f0 f f' k x c :
    wk_cnt f0 f k x c -> f' (Final (name k)) = f (Final (name k)) -> wk_cnt f0 f' k x c.
  Proof. unfold wk_cnt. intros H E. destruct (f0 (Final (name k))); rewrite E; exact H. Qed.

  Definition InvK (items : list (N * N)) (f0 : fs V) (st : sys V) : Prop :=
    length (s_pcs st) = length items /\
    s_calls st = N.of_nat (kcount f0 items (s_pcs st)) /\
    forall i k x c, nth_error items i = Some (k, x) -> nth_error (s_pcs st) i = Some c ->
                    wk_cnt f0 (s_fs st) k x c.

  Lemma InvK_step pol pr p items f0 st a :
    names_distinct name items -> InvK items f0 st ->
    InvK items f0 (sys_step V name fnv size pol pr p items st a).
  Proof.
    intros Hnd (Hlen & Hcalls & Hw).
    destruct (sys_step_cases V name fnv size pol pr p items st a)
      as [(k & x & c & f' & c' & cl & ef & Hi & Hc & Hs & Heq) | [Hnone Heq]]; rewrite Heq;
      [|repeat split; assumption].
    destruct (wk_cnt_own pol pr p f0 (s_fs st) k x c f' c' cl ef (Hw a k x c Hi Hc) Hs) as [Hown Hcnt].
    split; [|split]; cbn [s_pcs s_calls s_fs].
    - rewrite length_set_nth. exact Hlen.
    - pose proof (kcount_set_nth f0 items (s_pcs st) a k x c c' Hi Hc) as Hk.
      destruct cl; rewrite Hcalls; lia.
    - intros i0 k0 x0 c0 Hi0 Hc0. destruct (Nat.eq_dec a i0) as [E|Hne].
      + subst i0. rewrite nth_error_set_nth_eq in Hc0 by (eapply nth_error_Some_lt; exact Hc).
        inversion Hc0; subst c0. rewrite Hi in Hi0. inversion Hi0; subst k0 x0. exact Hown.
      + rewrite nth_error_set_nth_neq in Hc0 by exact Hne.
        assert (Hn : name k <> name k0).
        { eapply names_distinct_nth; [exact Hnd | exact Hi | exact Hi0 | exact Hne]. }
        eapply wk_cnt_frame; [eapply Hw; eassumption|].
        eapply step1_frame; [exact Hs | congruence | discriminate].
  Qed.

  Lemma InvK_exec pol pr p items f0 sched :
    names_distinct name items -> forall st, InvK items f0 st ->
    InvK items f0 (exec V name fnv size pol pr p items sched st).
  Proof.
    intros Hnd. induction sched as [|a s IH]; intros st H; [exact H|].
    rewrite exec_cons. apply IH. apply InvK_step; assumption.
  Qed.

  Lemma InvK_init items f0 : Good V name fnv size items f0 -> InvK items f0 (init items f0).
  Proof.
    intros Hg. split; [|split]; cbn [init s_pcs s_calls s_fs].
    - apply map_length.
    - rewrite kcount_init. reflexivity.
    - intros i k x c Hi Hc.
      rewrite nth_error_const_map in Hc by (eapply nth_error_Some_lt; exact Hi).
      inversion Hc; subst c. unfold wk_cnt.
      destruct (Hg k x (nth_error_In _ _ Hi)) as [E|E]; rewrite E.
      + split; [discriminate | intros _; reflexivity].
      + unfold whole. split; [reflexivity | left; reflexivity].
  Qed.

  (** the number of fn evaluations, at EVERY instant of EVERY interleaving, protocol and flush policy *)
  Lemma calls_count :
    forall pol pr items f0 p sched,
      names_distinct name items -> Good V name fnv size items f0 ->
      let st := exec V name fnv size pol pr p items sched (init items f0) in
      s_calls st = N.of_nat (kcount f0 items (s_pcs st))
      /\ (N.to_nat (s_calls st) <= length (missing' items f0))
      /\ (all_done st = true -> s_calls st = N.of_nat (length (missing' items f0))).
  Proof.
    intros pol pr items f0 p sched Hnd Hg st.
    destruct (InvK_exec pol pr p items f0 sched Hnd _ (InvK_init items f0 Hg)) as (Hlen & Hc & _).
    fold st in Hlen, Hc. split; [exact Hc|]. split.
    - rewrite Hc, Nat2N.id. clear Hc. revert Hlen. generalize (s_pcs st). clear.
      induction items as [|[k x] r IH]; intros pcs Hl; [destruct pcs; simpl; lia|].
      destruct pcs as [|c cs]; [discriminate|]. cbn [kcount]. unfold missing. cbn [filter fst].
      fold (missing' r f0). specialize (IH cs). simpl in Hl.
      unfold ran. destruct (absent' f0 k); cbn [andb length]; [destruct (started c)|]; lia.
    - intros Hd. rewrite Hc. f_equal. apply kcount_done; assumption.
  Qed.

  Lemma calls_bound :
    forall pol pr items f0 p sched,
      names_distinct name items -> Good V name fnv size items f0 ->
      let st := exec V name fnv size pol pr p items sched (init items f0) in
      N.to_nat (s_calls st) <= length (missing' items f0)
      /\ (all_done st = true -> s_calls st = N.of_nat (length (missing' items f0))).
  Proof. intros pol pr items f0 p sched Hnd Hg. exact (proj2 (calls_count pol pr items f0 p sched Hnd Hg)). Qed.

  (** result files of names that do not belong to the run are not touched *)
  Lemma exec_frame pol pr p items sched : forall st n,
    ~ In n (map (fun kx => name (fst kx)) items) ->
    s_fs (exec V name fnv size pol pr p items sched st) (Final n) = s_fs st (Final n).
  Proof.
    induction sched as [|a s IH]; intros st n Hn; [reflexivity|].
    rewrite exec_cons, IH by exact Hn.
    destruct (sys_step_cases V name fnv size pol pr p items st a)
      as [(k & x & c & f' & c' & cl & ef & Hi & Hc & Hs & Heq) | [Hnone Heq]]; rewrite Heq; [|reflexivity].
    cbn [s_fs]. eapply step1_frame; [exact Hs | | discriminate].
    intros E. inversion E; subst n. apply Hn. apply in_map_iff. exists (k, x).
    split; [reflexivity | eapply nth_error_In; exact Hi].
  Qed.

  Lemma good_incl all items f :
    incl items all -> Good V name fnv size all f -> Good V name fnv size items f.
  Proof. intros Hi Hg k x Hin. apply Hg. apply Hi. exact Hin. Qed.

  Lemma same_name_same_pair all k x k' x' :
    names_distinct name all -> In (k, x) all -> In (k', x') all -> name k = name k' -> (k, x) = (k', x').
  Proof.
    intros Hnd H1 H2 E.
    apply In_nth_error in H1. destruct H1 as [i Hi]. apply In_nth_error in H2. destruct H2 as [j Hj].
    destruct (Nat.eq_dec i j) as [->|Hne]; [congruence|].
    exfalso. exact (names_distinct_nth name all i j k x k' x' Hnd Hi Hj Hne E).
  Qed.

  (** ONE RUN OF A SESSION.  [all]: the pairs that ever occur in the session (one input per key, pairwise
      different file names); the directory is Good for all of them.  A complete run over any sub-list --
      any interleaving, any flush policy, any process id: returns the uncached results, computes EXACTLY
      the results whose files were absent, leaves its own files complete, every other result file as it
      was, and the directory Good for the next run. *)
  Lemma session_step :
    forall pol all items f0 p sched,
      names_distinct name all -> incl items all -> names_distinct name items ->
      Good V name fnv size all f0 ->
      let st := exec V name fnv size pol SaveTempReplace p items sched (init items f0) in
      all_done st = true ->
      collect items (s_pcs st) = Some (run_uncached V fnv items)
      /\ s_calls st = N.of_nat (length (missing' items f0))
      /\ AllCached V name fnv size items (s_fs st)
      /\ (forall k x, In (k, x) all -> f0 (Final (name k)) = whole' x -> s_fs st (Final (name k)) = whole' x)
      /\ (forall n, ~ In n (map (fun kx => name (fst kx)) items) -> s_fs st (Final n) = f0 (Final n))
      /\ Good V name fnv size all (s_fs st).
  Proof.
    intros pol all items f0 p sched Hall Hincl Hnd Hg st Hd.
    pose proof (good_incl all items f0 Hincl Hg) as Hgi.
    destruct (complete_run_correct V name fnv size pol SaveTempReplace eq_refl items f0 p sched Hnd Hgi Hd)
      as [Hres Hac].
    fold st in Hres, Hac.
    destruct (calls_count pol SaveTempReplace items f0 p sched Hnd Hgi) as (_ & _ & Hcalls).
    fold st in Hcalls.
    assert (Hfr : forall n, ~ In n (map (fun kx => name (fst kx)) items) -> s_fs st (Final n) = f0 (Final n)).
    { intros n Hn. unfold st. rewrite exec_frame by exact Hn. reflexivity. }
    assert (Hcase : forall k x, In (k, x) all ->
                      s_fs st (Final (name k)) = whole' x \/ s_fs st (Final (name k)) = f0 (Final (name k))).
    { intros k x Hin.
      destruct (in_dec N.eq_dec (name k) (map (fun kx => name (fst kx)) items)) as [Hi|Hn].
      - left. apply in_map_iff in Hi. destruct Hi as ([k' x'] & En & Hin'). cbn [fst] in En.
        assert (E : (k', x') = (k, x)).
        { apply (same_name_same_pair all); [exact Hall | apply Hincl; exact Hin' | exact Hin | exact En]. }
        inversion E; subst. apply Hac. exact Hin'.
      - right. apply Hfr. exact Hn. }
    split; [exact Hres|]. split; [exact (Hcalls Hd)|]. split; [exact Hac|]. split; [|split; [exact Hfr|]].
    - intros k x Hin Hw. destruct (Hcase k x Hin) as [E|E]; [exact E | rewrite E; exact Hw].
    - intros k x Hin. destruct (Hcase k x Hin) as [E|E]; [right; exact E | rewrite E; apply Hg; exact Hin].
  Qed.

  Lemma NoDup_app_l {A} (l m : list A) : NoDup (l ++ m) -> NoDup l.
  Proof.
    induction l as [|a l IH]; cbn [app]; intros H; [constructor|].
    inversion H as [|? ? Hn H']; subst. constructor; [|apply IH; exact H'].
    intros Hin. apply Hn. apply in_or_app. left. exact Hin.
  Qed.

  Lemma NoDup_app_disj {A} (l m : list A) x : NoDup (l ++ m) -> In x l -> In x m -> False.
  Proof.
    induction l as [|a l IH]; cbn [app]; intros H Hl Hm; [destruct Hl|].
    inversion H as [|? ? Hn H']; subst. destruct Hl as [->|Hl].
    - apply Hn. apply in_or_app. right. exact Hm.
    - exact (IH H' Hl Hm).
  Qed.

  (** A, then A ++ B: the second run computes exactly the |B| new results (and A again: none) *)
  Lemma growing_key_set :
    forall pol1 pol2 A B p1 p2 sched1 sched2,
      names_distinct name (A ++ B) ->
      let st1 := exec V name fnv size pol1 SaveTempReplace p1 A sched1 (init A fs_empty) in
      all_done st1 = true ->
      let st2 := exec V name fnv size pol2 SaveTempReplace p2 (A ++ B) sched2 (init (A ++ B) (s_fs st1)) in
      all_done st2 = true ->
      collect A (s_pcs st1) = Some (run_uncached V fnv A)
      /\ s_calls st1 = N.of_nat (length A)
      /\ collect (A ++ B) (s_pcs st2) = Some (run_uncached V fnv (A ++ B))
      /\ s_calls st2 = N.of_nat (length B).
  Proof.
    intros pol1 pol2 A B p1 p2 sched1 sched2 Hnd st1 Hd1 st2 Hd2.
    assert (HndA : names_distinct name A).
    { unfold names_distinct in *. rewrite map_app in Hnd. eapply NoDup_app_l. exact Hnd. }
    assert (Hg0 : Good V name fnv size (A ++ B) fs_empty) by (intros k x _; left; reflexivity).
    destruct (session_step pol1 (A ++ B) A fs_empty p1 sched1 Hnd (incl_appl B (incl_refl A)) HndA Hg0 Hd1)
      as (Hr1 & Hc1 & Hac1 & _ & Hfr1 & Hg1).
    fold st1 in Hr1, Hc1, Hac1, Hfr1, Hg1.
    destruct (session_step pol2 (A ++ B) (A ++ B) (s_fs st1) p2 sched2 Hnd (incl_refl _) Hnd Hg1 Hd2)
      as (Hr2 & Hc2 & _).
    fold st2 in Hr2, Hc2.
    split; [exact Hr1|]. split; [|split; [exact Hr2|]].
    - rewrite Hc1. f_equal. unfold missing. clear. induction A as [|a A IH]; [reflexivity|].
      cbn [filter]. unfold absent at 1. unfold fs_empty at 1. cbn [length]. f_equal. exact IH.
    - rewrite Hc2. f_equal. unfold missing. rewrite filter_app, app_length.
      assert (EA : filter (fun kx => absent' (s_fs st1) (fst kx)) A = []).
      { clear - Hac1. revert Hac1. generalize (s_fs st1). intros f Hac.
        assert (H : forall kx, In kx A -> absent' f (fst kx) = false).
        { intros [k x] Hin. unfold absent. cbn [fst]. rewrite (Hac k x Hin). reflexivity. }
        clear Hac. induction A as [|a A IH]; [reflexivity|]. cbn [filter].
        rewrite (H a (or_introl eq_refl)). apply IH. intros kx Hin. apply H. right. exact Hin. }
      assert (EB : filter (fun kx => absent' (s_fs st1) (fst kx)) B = B).
      { assert (H : forall kx, In kx B -> absent' (s_fs st1) (fst kx) = true).
        { intros [k x] Hin. unfold absent. cbn [fst]. rewrite Hfr1; [reflexivity|].
          intros HinA. unfold names_distinct in Hnd. rewrite map_app in Hnd.
          apply (NoDup_app_disj _ _ (name k) Hnd HinA).
          apply in_map_iff. exists (k, x). split; [reflexivity | exact Hin]. }
        clear - H. induction B as [|b B IH]; [reflexivity|]. cbn [filter].
        rewrite (H b (or_introl eq_refl)). f_equal. apply IH. intros kx Hin. apply H. right. exact Hin. }
      rewrite EA, EB. reflexivity.
  Qed.
End Session.
