(** C19 -- proofs about the life of a Cache object and its directory (CacheLife.v): runs of a session
    interleaved with new objects, re-targeted objects and wiped directories. *)
From Coq Require Import List NArith ZArith Bool Arith Lia.
From CacheFS Require Import CacheFS CacheLife.
Import ListNotations.

Lemma NoDup_map_inj_in {A B} (f : A -> B) (l : list A) :
  NoDup (map f l) -> forall a b, In a l -> In b l -> f a = f b -> a = b.
Proof.
  induction l as [|y r IH]; intros Hnd a b Ha Hb E; [destruct Ha|].
  cbn [map] in Hnd. inversion Hnd as [|? ? Hnin Hnd']; subst.
  destruct Ha as [<-|Ha], Hb as [<-|Hb].
  - reflexivity.
  - exfalso. apply Hnin. rewrite E. apply in_map. exact Hb.
  - exfalso. apply Hnin. rewrite <- E. apply in_map. exact Ha.
  - apply IH; assumption.
Qed.

Section LifeProofs.
  Variable V : Type.
  Variable fnv : N -> V.
  Variable name : N -> N.
  Variable isnone : V -> bool.
  (** the pairs that ever occur in the session: one input per key, pairwise different file names *)
  Variable all : list (N * N).
  Hypothesis all_distinct : NoDup (map (fun kx => name (fst kx)) all).

  Notation nm := (fun kx : N * N => name (fst kx)).
  Notation lrun' := (lrun V fnv name isnone).
  Notation llor' := (llor V fnv name isnone).
  Notation lstep' := (lstep V fnv name isnone).
  Notation lhist' := (lhist V fnv name isnone).
  Notation lfinal' := (lfinal V fnv name isnone).

  Notation LGood := (LGood V fnv name all).
  Notation WGood := (WGood V fnv name all).
  Notation lmiss := (lmiss V fnv name isnone).
  Notation lmiss_o := (lmiss_o V fnv name isnone).
  Notation ev_ok := (ev_ok name all).

  Lemma dset_same (d : ldir V) n v : dset V d n v n = Some v.
  Proof. unfold dset. rewrite N.eqb_refl. reflexivity. Qed.
  Lemma dset_other (d : ldir V) n v m : m <> n -> dset V d n v m = d m.
  Proof. unfold dset. intros H. apply N.eqb_neq in H. rewrite H. reflexivity. Qed.

  Lemma LGood_empty : LGood ldir_empty.
  Proof. intros k x v _ H. discriminate. Qed.

  Lemma LGood_dset d k x : In (k, x) all -> LGood d -> LGood (dset V d (name k) (fnv x)).
  Proof.
    intros Hin Hg k' x' v Hin' E. destruct (N.eq_dec (name k') (name k)) as [En|En].
    - rewrite En, dset_same in E. inversion E; subst v.
      assert (H : (k', x') = (k, x)) by (apply (NoDup_map_inj_in nm all all_distinct); assumption).
      inversion H; reflexivity.
    - rewrite dset_other in E by exact En. apply (Hg k' x' v Hin' E).
  Qed.

  Lemma llor_absent lk k x dir : dir (name k) = None ->
    llor' lk k x (Some dir) = (Some (fnv x), true, Some (dset V dir (name k) (fnv x))).
  Proof. intros E. unfold llor. rewrite E. reflexivity. Qed.
  Lemma llor_hit lk k x dir v : dir (name k) = Some v -> lk <> LkNoneIsMiss \/ isnone v = false ->
    llor' lk k x (Some dir) = (Some v, false, Some dir).
  Proof.
    intros E H. unfold llor. rewrite E. destruct lk; try reflexivity.
    destruct H as [H|H]; [congruence|]. rewrite H. reflexivity.
  Qed.
  Lemma llor_none_stored k x dir v : dir (name k) = Some v -> isnone v = true ->
    llor' LkNoneIsMiss k x (Some dir) = (Some (fnv x), true, Some (dset V dir (name k) (fnv x))).
  Proof. intros E H. unfold llor. rewrite E, H. reflexivity. Qed.

  (** ONE RUN over a Good directory that exists: the uncached results, exactly the misses evaluated, every
      result of the run stored, other files untouched, the directory Good again *)
  Lemma lrun_good lk : forall items dir,
    incl items all -> NoDup (map nm items) -> LGood dir ->
    exists dir',
      lrun' lk items (Some dir) = (Some (run_uncached V fnv items), length (filter (lmiss lk dir) items), Some dir')
      /\ LGood dir'
      /\ (forall k x, In (k, x) items -> dir' (name k) = Some (fnv x))
      /\ (forall n, ~ In n (map nm items) -> dir' n = dir n).
  Proof.
    induction items as [|[k x] r IH]; intros dir Hin Hnd Hg.
    - exists dir. cbn. repeat split; auto. intros k x [].
    - cbn [map fst] in Hnd. inversion Hnd as [|? ? Hnin Hnd']; subst.
      assert (Hkx : In (k, x) all) by (apply Hin; left; reflexivity).
      assert (Hr : incl r all) by (intros a Ha; apply Hin; right; exact Ha).
      assert (Hcont : forall dir1 (c : bool),
                llor' lk k x (Some dir) = (Some (fnv x), c, Some dir1) ->
                LGood dir1 -> dir1 (name k) = Some (fnv x) ->
                (forall n, n <> name k -> dir1 n = dir n) ->
                exists dir',
                  lrun' lk ((k, x) :: r) (Some dir)
                  = (Some (run_uncached V fnv ((k, x) :: r)),
                     (if c then S (length (filter (lmiss lk dir) r)) else length (filter (lmiss lk dir) r)),
                     Some dir')
                  /\ LGood dir'
                  /\ (forall k' x', In (k', x') ((k, x) :: r) -> dir' (name k') = Some (fnv x'))
                  /\ (forall n, ~ In n (map nm ((k, x) :: r)) -> dir' n = dir n)).
      { intros dir1 c Hl Hg1 Hs Hoff.
        destruct (IH dir1 Hr Hnd' Hg1) as (dir' & E & Hg' & Hst & Hfr).
        assert (Hfilt : filter (lmiss lk dir1) r = filter (lmiss lk dir) r).
        { apply filter_ext_in. intros [k' x'] Hin'. unfold lmiss. cbn [fst snd].
          rewrite Hoff; [reflexivity|]. intros E'. apply Hnin. rewrite <- E'.
          apply (in_map nm r (k', x')). exact Hin'. }
        exists dir'. cbn [lrun]. rewrite Hl, E, Hfilt. split; [reflexivity|]. split; [exact Hg'|]. split.
        - intros k' x' [E'|Hin'].
          + inversion E'; subst k' x'. rewrite Hfr by exact Hnin. exact Hs.
          + apply Hst. exact Hin'.
        - intros n Hn. cbn [map fst] in Hn. rewrite Hfr by (intros H; apply Hn; right; exact H).
          apply Hoff. intros E'. apply Hn. left. symmetry. exact E'. }
      cbn [filter]. unfold lmiss at 1. cbn [fst snd].
      destruct (dir (name k)) as [v|] eqn:E.
      + assert (Hv : v = fnv x) by (apply (Hg k x v Hkx E)). subst v.
        destruct lk.
        * apply (Hcont dir false); [apply (llor_hit LkExists k x dir (fnv x) E); left; discriminate | exact Hg | exact E |].
          intros; reflexivity.
        * destruct (isnone (fnv x)) eqn:En.
          -- cbn [length]. apply (Hcont (dset V dir (name k) (fnv x)) true).
             ++ apply (llor_none_stored k x dir (fnv x) E En).
             ++ apply LGood_dset; assumption.
             ++ apply dset_same.
             ++ intros n Hn. apply dset_other. exact Hn.
          -- apply (Hcont dir false); [apply (llor_hit LkNoneIsMiss k x dir (fnv x) E); right; exact En | exact Hg | exact E |].
             intros; reflexivity.
        * apply (Hcont dir false); [apply (llor_hit LkUnknown k x dir (fnv x) E); left; discriminate | exact Hg | exact E |].
          intros; reflexivity.
      + cbn [length]. apply (Hcont (dset V dir (name k) (fnv x)) true).
        * apply (llor_absent lk k x dir E).
        * apply LGood_dset; assumption.
        * apply dset_same.
        * intros n Hn. apply dset_other. exact Hn.
  Qed.

  (** the directory does not exist: the first pair is evaluated and its save raises *)
  Lemma lrun_no_dir lk k x r : lrun' lk ((k, x) :: r) None = (None, 1, None).
  Proof. reflexivity. Qed.

  (** ---- worlds ---------------------------------------------------------------------------------- *)
  Lemma wset_same (w : world V) i d : wset V w i d i = d.
  Proof. unfold wset. rewrite N.eqb_refl. reflexivity. Qed.
  Lemma wset_other (w : world V) i d j : j <> i -> wset V w i d j = w j.
  Proof. unfold wset. intros H. apply N.eqb_neq in H. rewrite H. reflexivity. Qed.

  Lemma WGood_empty : WGood world_empty.
  Proof. intros i d H. discriminate. Qed.
  Lemma WGood_wset w i d : WGood w -> (forall dir, d = Some dir -> LGood dir) -> WGood (wset V w i d).
  Proof.
    intros Hw Hd j dir E. destruct (N.eq_dec j i) as [->|Hn].
    - rewrite wset_same in E. apply Hd. exact E.
    - rewrite wset_other in E by exact Hn. apply (Hw j dir E).
  Qed.
  Lemma WGood_wmk w i : WGood w -> WGood (wmk V w i).
  Proof.
    intros Hw. unfold wmk. destruct (w i); [exact Hw|].
    apply WGood_wset; [exact Hw|]. intros dir E. inversion E. apply LGood_empty.
  Qed.
  Lemma wmk_exists w i : exists dir, wmk V w i i = Some dir /\ (w i = None -> dir = ldir_empty)
                                     /\ (forall d, w i = Some d -> dir = d).
  Proof.
    unfold wmk. destruct (w i) as [d|] eqn:E.
    - exists d. rewrite E. repeat split; [discriminate | intros d' H; inversion H; reflexivity].
    - exists ldir_empty. rewrite wset_same. repeat split. discriminate.
  Qed.

  (** ONE RUN OF A SESSION when the directory is created at the start of the run (the code) or exists anyway:
      whatever happened before -- other runs, a new or re-targeted object, a wiped directory -- the run
      returns the uncached results and evaluates exactly the misses of the directory it finds *)
  Lemma lstep_run lk mk w c items :
    WGood w -> incl items all -> NoDup (map nm items) ->
    mk <> MkAtConstruct \/ w c <> None ->
    exists w',
      lstep' lk mk (mkL V w c) (LRun items)
      = (mkL V w' c, Some (Some (run_uncached V fnv items), length (filter (lmiss_o lk (w c)) items)))
      /\ WGood w'
      /\ (exists dir', w' c = Some dir' /\ forall k x, In (k, x) items -> dir' (name k) = Some (fnv x))
      /\ (forall j, j <> c -> w' j = w j).
  Proof.
    intros Hw Hin Hnd Hmk. cbn [lstep l_world l_cur].
    set (w0 := match mk with MkAtConstruct => w | _ => wmk V w c end).
    assert (H0 : exists dir, w0 c = Some dir /\ LGood dir /\ filter (lmiss lk dir) items = filter (lmiss_o lk (w c)) items
                             /\ WGood w0 /\ (forall j, j <> c -> w0 j = w j)).
    { destruct (w c) as [d|] eqn:E.
      - exists d. assert (Hw0 : w0 = w).
        { subst w0. destruct mk; try reflexivity; unfold wmk; rewrite E; reflexivity. }
        rewrite Hw0. repeat split; auto. apply (Hw c d E).
      - destruct Hmk as [Hmk|Hmk]; [|congruence].
        assert (Hw0 : w0 = wmk V w c) by (subst w0; destruct mk; congruence).
        rewrite Hw0. exists ldir_empty. unfold wmk. rewrite E, wset_same. repeat split.
        + apply LGood_empty.
        + apply WGood_wset; [exact Hw|]. intros dir H. inversion H. apply LGood_empty.
        + intros j Hj. apply wset_other. exact Hj. }
    destruct H0 as (dir & E0 & Hg & Hf & Hw0 & Hoff). rewrite E0.
    destruct (lrun_good lk items dir Hin Hnd Hg) as (dir' & E & Hg' & Hst & _).
    rewrite E, Hf. exists (wset V w0 c (Some dir')). split; [reflexivity|]. split.
    - apply WGood_wset; [exact Hw0|]. intros d H. inversion H; subst. exact Hg'.
    - split.
      + exists dir'. split; [apply wset_same | exact Hst].
      + intros j Hj. rewrite wset_other by exact Hj. apply Hoff. exact Hj.
  Qed.

  Lemma lstep_other_good lk mk s e :
    WGood (l_world V s) -> (forall items, e <> LRun items) -> WGood (l_world V (fst (lstep' lk mk s e))).
  Proof.
    intros Hw Hne. destruct e as [d|d| |items]; cbn [lstep fst l_world].
    - destruct mk; try exact Hw. apply WGood_wmk. exact Hw.
    - exact Hw.
    - apply WGood_wset; [exact Hw|]. intros dir H. discriminate.
    - exfalso. apply (Hne items). reflexivity.
  Qed.

  (** A WHOLE HISTORY -- runs, new objects, re-targeted objects, wiped directories in any order -- when the
      directory is created at the start of every run: EVERY run returns the uncached results (under every
      lookup kind: values are never wrong, only recomputed), and the world stays Good *)
  Theorem life_history lk mk : mk <> MkAtConstruct ->
    forall evs s, WGood (l_world V s) -> Forall ev_ok evs ->
      Forall (fun r => snd (fst r) = Some (run_uncached V fnv (fst (fst r)))) (lhist' lk mk s evs)
      /\ WGood (l_world V (lfinal' lk mk s evs)).
  Proof.
    intros Hmk. induction evs as [|e rest IH]; intros s Hw Hev.
    - split; [constructor | exact Hw].
    - inversion Hev as [|? ? He Hrest]; subst. cbn [lhist lfinal].
      destruct e as [d|d| |items].
      + apply IH; [|exact Hrest]. apply lstep_other_good; [exact Hw | discriminate].
      + apply IH; [|exact Hrest]. apply lstep_other_good; [exact Hw | discriminate].
      + apply IH; [|exact Hrest]. apply lstep_other_good; [exact Hw | discriminate].
      + destruct s as [w c]. destruct He as [Hin Hnd]. cbn [l_world] in Hw.
        destruct (lstep_run lk mk w c items Hw Hin Hnd (or_introl Hmk)) as (w' & E & Hw' & _ & _).
        rewrite E. cbn [fst]. destruct (IH (mkL V w' c) Hw' Hrest) as [H1 H2].
        split; [|exact H2]. constructor; [reflexivity | exact H1].
  Qed.

  (** a repeated run: the second of two runs over the same pairs *)
  Lemma filter_none_length {A} (p : A -> bool) l : (forall a, In a l -> p a = false) -> length (filter p l) = 0.
  Proof.
    induction l as [|a r IH]; intros H; [reflexivity|]. cbn [filter].
    rewrite (H a (or_introl eq_refl)). apply IH. intros b Hb. apply H. right. exact Hb.
  Qed.

  Theorem repeated_run lk mk w c items :
    WGood w -> incl items all -> NoDup (map nm items) -> mk <> MkAtConstruct \/ w c <> None ->
    exists n1,
      lhist' lk mk (mkL V w c) [LRun items; LRun items]
      = [(items, Some (run_uncached V fnv items), n1);
         (items, Some (run_uncached V fnv items),
          match lk with
          | LkNoneIsMiss => length (filter (fun kx => isnone (fnv (snd kx))) items)
          | _ => 0
          end)].
  Proof.
    intros Hw Hin Hnd Hmk. cbn [lhist].
    destruct (lstep_run lk mk w c items Hw Hin Hnd Hmk) as (w' & E & Hw' & (dir' & Ed & Hst) & _).
    rewrite E.
    assert (Hmk' : mk <> MkAtConstruct \/ w' c <> None) by (right; congruence).
    destruct (lstep_run lk mk w' c items Hw' Hin Hnd Hmk') as (w'' & E' & _).
    rewrite E'. eexists. f_equal. f_equal. f_equal. rewrite Ed.
    destruct lk.
    - apply filter_none_length. intros [k x] H. unfold lmiss_o, lmiss. cbn [fst]. rewrite (Hst k x H). reflexivity.
    - f_equal. apply filter_ext_in. intros [k x] H. unfold lmiss_o, lmiss. cbn [fst snd]. rewrite (Hst k x H). reflexivity.
    - apply filter_none_length. intros [k x] H. unfold lmiss_o, lmiss. cbn [fst]. rewrite (Hst k x H). reflexivity.
  Qed.

  (** wiping the directory between two runs with one object: everything is computed again *)
  Lemma filter_all_length {A} (p : A -> bool) l : (forall a, In a l -> p a = true) -> length (filter p l) = length l.
  Proof.
    induction l as [|a r IH]; intros H; [reflexivity|]. cbn [filter].
    rewrite (H a (or_introl eq_refl)). cbn [length]. f_equal. apply IH. intros b Hb. apply H. right. exact Hb.
  Qed.

  Theorem wipe_then_rerun lk mk w c items :
    WGood w -> incl items all -> NoDup (map nm items) -> mk <> MkAtConstruct ->
    exists n1,
      lhist' lk mk (mkL V w c) [LRun items; LWipe; LRun items]
      = [(items, Some (run_uncached V fnv items), n1);
         (items, Some (run_uncached V fnv items), length items)].
  Proof.
    intros Hw Hin Hnd Hmk. cbn [lhist].
    destruct (lstep_run lk mk w c items Hw Hin Hnd (or_introl Hmk)) as (w' & E & Hw' & _ & _).
    rewrite E. cbn [lstep l_world l_cur].
    assert (Hw2 : WGood (wset V w' c None)) by (apply WGood_wset; [exact Hw' | discriminate]).
    destruct (lstep_run lk mk (wset V w' c None) c items Hw2 Hin Hnd (or_introl Hmk)) as (w'' & E' & _).
    cbn [lstep l_world l_cur] in E'. rewrite E'. eexists. f_equal. f_equal. f_equal.
    rewrite wset_same. apply filter_all_length. intros; reflexivity.
  Qed.

  (** the directory created at CONSTRUCTION only: after a wipe -- or after pointing the object at a directory
      that does not exist yet -- a run over a non-empty list raises *)
  Theorem mkdir_at_construct_raises lk d k x r :
    incl ((k, x) :: r) all -> NoDup (map nm ((k, x) :: r)) ->
    lhist' lk MkAtConstruct (mkL V world_empty 0) [LNew d; LRun ((k, x) :: r); LWipe; LRun ((k, x) :: r)]
    = [((k, x) :: r, Some (run_uncached V fnv ((k, x) :: r)), S (length r)); ((k, x) :: r, None, 1)]
    /\ forall w c d', w d' = None ->
         lhist' lk MkAtConstruct (mkL V w c) [LRetarget d'; LRun ((k, x) :: r)] = [((k, x) :: r, None, 1)].
  Proof.
    intros Hin Hnd. split.
    - assert (Hw : WGood (wmk V world_empty d)) by (apply WGood_wmk, WGood_empty).
      assert (Hex : wmk V world_empty d d <> None).
      { unfold wmk, world_empty. rewrite wset_same. discriminate. }
      destruct (lstep_run lk MkAtConstruct (wmk V world_empty d) d ((k, x) :: r) Hw Hin Hnd (or_intror Hex))
        as (w' & E & _).
      change (lhist' lk MkAtConstruct (mkL V world_empty 0) [LNew d; LRun ((k, x) :: r); LWipe; LRun ((k, x) :: r)])
        with (lhist' lk MkAtConstruct (mkL V (wmk V world_empty d) d) [LRun ((k, x) :: r); LWipe; LRun ((k, x) :: r)]).
      cbn [lhist]. rewrite E. cbn [lstep l_world l_cur]. rewrite wset_same. rewrite lrun_no_dir.
      f_equal. f_equal. f_equal.
      assert (Hd : wmk V world_empty d d = Some ldir_empty) by (unfold wmk, world_empty; rewrite wset_same; reflexivity).
      rewrite Hd.
      change (S (length r)) with (length ((k, x) :: r)).
      apply filter_all_length. intros; reflexivity.
    - intros w c d' Hd. cbn [lhist lstep l_world l_cur]. rewrite Hd, lrun_no_dir. reflexivity.
  Qed.
End LifeProofs.

(** concrete witnesses (closed terms, by computation) *)
Definition w_none (v : Z) : bool := Z.eqb v 0.
Definition w_fn (x : N) : Z := if N.eqb (N.modulo x 3) 0 then 0%Z else Z.of_N (x * x).   (* 0 stands for None *)
Definition w_items : list (N * N) := [(1, 3); (2, 4); (3, 6)]%N.

Lemma none_is_miss_witness :
  NoDup (map (fun kx : N * N => fst kx) w_items)
  /\ map (fun r => snd r) (lhist Z w_fn (fun k => k) w_none LkNoneIsMiss MkAtRun (mkL Z world_empty 0)
                                 [LNew 0; LRun w_items; LRun w_items; LRun w_items]) = [3; 2; 2]
  /\ map (fun r => snd r) (lhist Z w_fn (fun k => k) w_none LkExists MkAtRun (mkL Z world_empty 0)
                                 [LNew 0; LRun w_items; LRun w_items; LRun w_items]) = [3; 0; 0]
  /\ map (fun r => snd (fst r)) (lhist Z w_fn (fun k => k) w_none LkNoneIsMiss MkAtRun (mkL Z world_empty 0)
                                 [LNew 0; LRun w_items; LRun w_items])
     = [Some (run_uncached Z w_fn w_items); Some (run_uncached Z w_fn w_items)].
Proof.
  split; [|split; [|split]]; try (vm_compute; reflexivity).
  repeat constructor; cbn; intuition discriminate.
Qed.

Lemma mkdir_witness :
  map (fun r => (snd (fst r), snd r))
      (lhist Z w_fn (fun k => k) w_none LkExists MkAtConstruct (mkL Z world_empty 0)
             [LNew 0; LRun w_items; LRun w_items; LWipe; LRun w_items; LRetarget 1; LRun w_items; LNew 2; LRun w_items])
  = [(Some (run_uncached Z w_fn w_items), 3); (Some (run_uncached Z w_fn w_items), 0); (None, 1); (None, 1);
     (Some (run_uncached Z w_fn w_items), 3)]
  /\ map (fun r => (snd (fst r), snd r))
      (lhist Z w_fn (fun k => k) w_none LkExists MkAtRun (mkL Z world_empty 0)
             [LNew 0; LRun w_items; LRun w_items; LWipe; LRun w_items; LRetarget 1; LRun w_items; LNew 2; LRun w_items])
  = [(Some (run_uncached Z w_fn w_items), 3); (Some (run_uncached Z w_fn w_items), 0);
     (Some (run_uncached Z w_fn w_items), 3); (Some (run_uncached Z w_fn w_items), 3);
     (Some (run_uncached Z w_fn w_items), 3)].
Proof. split; vm_compute; reflexivity. Qed.

(** ---- the statements with the facts of the tree (lookup = existence of the file, mkdir at the start of a run) ---- *)
Section Tree.
  Variable lk : lookup_kind.
  Variable mk : mkdir_kind.
  Hypothesis facts : lk = LkExists /\ mk = MkAtRun.

  Lemma mk_tree : mk <> MkAtConstruct.
  Proof. destruct facts as [_ ->]. discriminate. Qed.

  Lemma lstep_run_tree (V : Type) (fnv : N -> V) (name : N -> N) (isnone : V -> bool) (all : list (N * N))
        (w : world V) (c : N) (items : list (N * N)) :
    NoDup (map (fun kx => name (fst kx)) all) -> WGood V fnv name all w ->
    incl items all -> NoDup (map (fun kx => name (fst kx)) items) ->
    exists w',
      lstep V fnv name isnone lk mk (mkL V w c) (LRun items)
      = (mkL V w' c, Some (Some (run_uncached V fnv items), length (filter (lmiss_o V fnv name isnone lk (w c)) items)))
      /\ WGood V fnv name all w'
      /\ (exists dir', w' c = Some dir' /\ forall k x, In (k, x) items -> dir' (name k) = Some (fnv x))
      /\ (forall j, j <> c -> w' j = w j).
  Proof. intros Hd Hw Hin Hnd. apply (lstep_run V fnv name isnone all Hd lk mk w c items Hw Hin Hnd (or_introl mk_tree)). Qed.

  Lemma life_history_tree (V : Type) (fnv : N -> V) (name : N -> N) (isnone : V -> bool) (all : list (N * N))
        (evs : list lev) (s : lstate V) :
    NoDup (map (fun kx => name (fst kx)) all) -> WGood V fnv name all (l_world V s) -> Forall (ev_ok name all) evs ->
    Forall (fun r => snd (fst r) = Some (run_uncached V fnv (fst (fst r)))) (lhist V fnv name isnone lk mk s evs)
    /\ WGood V fnv name all (l_world V (lfinal V fnv name isnone lk mk s evs)).
  Proof. intros Hd Hw Hev. apply (life_history V fnv name isnone all Hd lk mk mk_tree evs s Hw Hev). Qed.

  Lemma repeated_run_tree (V : Type) (fnv : N -> V) (name : N -> N) (isnone : V -> bool) (all : list (N * N))
        (w : world V) (c : N) (items : list (N * N)) :
    NoDup (map (fun kx => name (fst kx)) all) -> WGood V fnv name all w ->
    incl items all -> NoDup (map (fun kx => name (fst kx)) items) ->
    exists n1,
      lhist V fnv name isnone lk mk (mkL V w c) [LRun items; LRun items]
      = [(items, Some (run_uncached V fnv items), n1); (items, Some (run_uncached V fnv items), 0)].
  Proof.
    intros Hd Hw Hin Hnd.
    destruct (repeated_run V fnv name isnone all Hd lk mk w c items Hw Hin Hnd (or_introl mk_tree)) as (n1 & E).
    exists n1. rewrite E. destruct facts as [-> _]. reflexivity.
  Qed.

  Lemma wipe_then_rerun_tree (V : Type) (fnv : N -> V) (name : N -> N) (isnone : V -> bool) (all : list (N * N))
        (w : world V) (c : N) (items : list (N * N)) :
    NoDup (map (fun kx => name (fst kx)) all) -> WGood V fnv name all w ->
    incl items all -> NoDup (map (fun kx => name (fst kx)) items) ->
    exists n1,
      lhist V fnv name isnone lk mk (mkL V w c) [LRun items; LWipe; LRun items]
      = [(items, Some (run_uncached V fnv items), n1); (items, Some (run_uncached V fnv items), length items)].
  Proof. intros Hd Hw Hin Hnd. apply (wipe_then_rerun V fnv name isnone all Hd lk mk w c items Hw Hin Hnd mk_tree). Qed.
End Tree.

(** REGRESSION seeded/C19-7, general form + witness *)
Lemma none_is_miss_refuted :
  (forall (V : Type) (fnv : N -> V) (name : N -> N) (isnone : V -> bool) (all : list (N * N)) mk
          (w : world V) (c : N) (items : list (N * N)),
      NoDup (map (fun kx => name (fst kx)) all) -> WGood V fnv name all w ->
      incl items all -> NoDup (map (fun kx => name (fst kx)) items) -> mk <> MkAtConstruct \/ w c <> None ->
      exists n1,
        lhist V fnv name isnone LkNoneIsMiss mk (mkL V w c) [LRun items; LRun items]
        = [(items, Some (run_uncached V fnv items), n1);
           (items, Some (run_uncached V fnv items), length (filter (fun kx => isnone (fnv (snd kx))) items))])
  /\ NoDup (map (fun kx : N * N => fst kx) w_items)
  /\ map (fun r => snd r) (lhist Z w_fn (fun k => k) w_none LkNoneIsMiss MkAtRun (mkL Z world_empty 0)
                                 [LNew 0; LRun w_items; LRun w_items; LRun w_items]) = [3; 2; 2]
  /\ map (fun r => snd r) (lhist Z w_fn (fun k => k) w_none LkExists MkAtRun (mkL Z world_empty 0)
                                 [LNew 0; LRun w_items; LRun w_items; LRun w_items]) = [3; 0; 0]
  /\ map (fun r => snd (fst r)) (lhist Z w_fn (fun k => k) w_none LkNoneIsMiss MkAtRun (mkL Z world_empty 0)
                                 [LNew 0; LRun w_items; LRun w_items])
     = [Some (run_uncached Z w_fn w_items); Some (run_uncached Z w_fn w_items)].
Proof.
  split; [|exact none_is_miss_witness].
  intros V fnv name isnone all mk w c items Hd Hw Hin Hnd Hmk.
  apply (repeated_run V fnv name isnone all Hd LkNoneIsMiss mk w c items Hw Hin Hnd Hmk).
Qed.

(** REGRESSION seeded/C19-8, general form + witness *)
Lemma mkdir_at_construct_refuted :
  (forall (V : Type) (fnv : N -> V) (name : N -> N) (isnone : V -> bool) (all : list (N * N)) lk d k x r,
      NoDup (map (fun kx => name (fst kx)) all) ->
      incl ((k, x) :: r) all -> NoDup (map (fun kx => name (fst kx)) ((k, x) :: r)) ->
      lhist V fnv name isnone lk MkAtConstruct (mkL V world_empty 0) [LNew d; LRun ((k, x) :: r); LWipe; LRun ((k, x) :: r)]
      = [((k, x) :: r, Some (run_uncached V fnv ((k, x) :: r)), S (length r)); ((k, x) :: r, None, 1)]
      /\ forall w c d', w d' = None ->
           lhist V fnv name isnone lk MkAtConstruct (mkL V w c) [LRetarget d'; LRun ((k, x) :: r)] = [((k, x) :: r, None, 1)])
  /\ map (fun r => (snd (fst r), snd r))
      (lhist Z w_fn (fun k => k) w_none LkExists MkAtConstruct (mkL Z world_empty 0)
             [LNew 0; LRun w_items; LRun w_items; LWipe; LRun w_items; LRetarget 1; LRun w_items; LNew 2; LRun w_items])
     = [(Some (run_uncached Z w_fn w_items), 3); (Some (run_uncached Z w_fn w_items), 0); (None, 1); (None, 1);
        (Some (run_uncached Z w_fn w_items), 3)]
  /\ map (fun r => (snd (fst r), snd r))
      (lhist Z w_fn (fun k => k) w_none LkExists MkAtRun (mkL Z world_empty 0)
             [LNew 0; LRun w_items; LRun w_items; LWipe; LRun w_items; LRetarget 1; LRun w_items; LNew 2; LRun w_items])
     = [(Some (run_uncached Z w_fn w_items), 3); (Some (run_uncached Z w_fn w_items), 0);
        (Some (run_uncached Z w_fn w_items), 3); (Some (run_uncached Z w_fn w_items), 3);
        (Some (run_uncached Z w_fn w_items), 3)].
Proof.
  split; [|exact mkdir_witness].
  intros V fnv name isnone all lk d k x r Hd Hin Hnd.
  apply (mkdir_at_construct_raises V fnv name isnone all Hd lk d k x r Hin Hnd).
Qed.
