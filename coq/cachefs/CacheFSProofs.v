(** C19 -- proofs about the executable cache model (CacheFS.v) in the vocabulary of CacheFSSpec.v. *)
From Coq Require Import List NArith ZArith Bool Arith Lia.
From MxlBase Require Import ListX.
From CacheFS Require Import CacheFS CacheFSSpec.
Import ListNotations.

Section Proofs.
  Variable V : Type.
  Variable name : N -> N.
  Variable fnv : N -> V.
  Variable size : V -> nat.
  Variable pol : V -> nat -> bool.

  Notation step1' := (step1 V name fnv size pol).
  Notation sys_step' := (sys_step V name fnv size pol).
  Notation exec' := (exec V name fnv size pol).
  Notation exec_b' := (exec_b V name fnv size pol).
  Notation wfuel' := (wfuel V fnv size).
  Notation block' := (block V fnv size).
  Notation Good' := (Good V name fnv size).
  Notation AllCached' := (AllCached V name fnv size).
  Notation whole' := (whole V fnv size).

  (** * 0. basics *)

  Lemma path_eqb_eq (a b : path) : path_eqb a b = true <-> a = b.
  Proof.
    destruct a as [n|p n], b as [m|q m]; simpl; split; intro H; try discriminate.
    - apply N.eqb_eq in H. subst. reflexivity.
    - inversion H; subst. apply N.eqb_refl.
    - apply andb_true_iff in H. destruct H as [H1 H2].
      apply N.eqb_eq in H1. apply N.eqb_eq in H2. subst. reflexivity.
    - inversion H; subst. rewrite !N.eqb_refl. reflexivity.
  Qed.

  Lemma upd_same (f : fs V) q c : upd f q c q = c.
  Proof.
    unfold upd. destruct (path_eqb q q) eqn:E; [reflexivity|].
    assert (H : path_eqb q q = true) by (apply path_eqb_eq; reflexivity). congruence.
  Qed.

  Lemma upd_other (f : fs V) q c r : r <> q -> upd f q c r = f r.
  Proof.
    intros Hne. unfold upd. destruct (path_eqb r q) eqn:E; [|reflexivity].
    apply path_eqb_eq in E. contradiction.
  Qed.

  Lemma length_set_nth {A} i (x : A) l : length (set_nth i x l) = length l.
  Proof.
    revert i. induction l as [|y r IH]; intros [|i]; simpl; try reflexivity.
    rewrite IH. reflexivity.
  Qed.

  Lemma nth_error_set_nth_eq {A} i (x : A) l :
    i < length l -> nth_error (set_nth i x l) i = Some x.
  Proof.
    revert i. induction l as [|y r IH]; intros [|i] H; simpl in *; try lia; try reflexivity.
    apply IH. lia.
  Qed.

  Lemma nth_error_set_nth_neq {A} i j (x : A) l :
    i <> j -> nth_error (set_nth i x l) j = nth_error l j.
  Proof.
    revert i j. induction l as [|y r IH]; intros [|i] [|j] H; simpl; try reflexivity; try congruence.
    apply IH. congruence.
  Qed.

  Lemma nth_error_const_map {A B} (b : B) (l : list A) i :
    i < length l -> nth_error (map (fun _ => b) l) i = Some b.
  Proof.
    revert i. induction l as [|y r IH]; intros [|i] H; simpl in *; try lia; try reflexivity.
    apply IH. lia.
  Qed.

  Lemma nth_error_lt_Some {A} (l : list A) i : i < length l -> exists a, nth_error l i = Some a.
  Proof.
    intros H. destruct (nth_error l i) as [a|] eqn:E; [eauto|].
    apply nth_error_None in E. lia.
  Qed.

  Lemma nth_error_Some_lt {A} (l : list A) i a : nth_error l i = Some a -> i < length l.
  Proof. intros H. apply nth_error_Some. congruence. Qed.

  Lemma count_occ_repeat_same i n : count_occ Nat.eq_dec (repeat i n) i = n.
  Proof.
    induction n as [|n IH]; simpl; [reflexivity|].
    destruct (Nat.eq_dec i i) as [_|Hne]; [rewrite IH; reflexivity | congruence].
  Qed.

  Lemma exec_cons pr p items a s st :
    exec' pr p items (a :: s) st = exec' pr p items s (sys_step' pr p items st a).
  Proof. reflexivity. Qed.

  Lemma exec_app pr p items s1 s2 st :
    exec' pr p items (s1 ++ s2) st = exec' pr p items s2 (exec' pr p items s1 st).
  Proof. unfold exec. apply fold_left_app. Qed.

  (** the shape of one system step *)
  Lemma sys_step_cases pr p items st a :
    (exists k x c f' c' cl ef,
        nth_error items a = Some (k, x) /\ nth_error (s_pcs st) a = Some c /\
        step1' pr p k x (s_fs st) c = (f', c', cl, ef) /\
        sys_step' pr p items st a =
          mkSys V f' (set_nth a c' (s_pcs st))
                (if cl then N.succ (s_calls st) else s_calls st)
                (if ef then N.succ (s_effs st) else s_effs st))
    \/ ((nth_error items a = None \/ nth_error (s_pcs st) a = None) /\
        sys_step' pr p items st a = st).
  Proof.
    unfold sys_step.
    destruct (nth_error items a) as [[k x]|] eqn:Hi; [|right; split; [left|]; reflexivity].
    destruct (nth_error (s_pcs st) a) as [c|] eqn:Hc; [|right; split; [right|]; reflexivity].
    destruct (step1' pr p k x (s_fs st) c) as [[[f' c'] cl] ef] eqn:Hs.
    left. exists k, x, c, f', c', cl, ef. repeat split; try assumption; reflexivity.
  Qed.

  Lemma sys_step_length pr p items st a :
    length (s_pcs (sys_step' pr p items st a)) = length (s_pcs st).
  Proof.
    destruct (sys_step_cases pr p items st a)
      as [(k & x & c & f' & c' & cl & ef & Hi & Hc & Hs & Heq) | [Hnone Heq]]; rewrite Heq; [|reflexivity].
    simpl. apply length_set_nth.
  Qed.

  Lemma exec_length pr p items sched : forall st,
    length (s_pcs (exec' pr p items sched st)) = length (s_pcs st).
  Proof.
    induction sched as [|a s IH]; intros st; [reflexivity|].
    rewrite exec_cons, IH. apply sys_step_length.
  Qed.

  Lemma sys_step_pcs_other pr p items st a j :
    a <> j -> nth_error (s_pcs (sys_step' pr p items st a)) j = nth_error (s_pcs st) j.
  Proof.
    intros Hne.
    destruct (sys_step_cases pr p items st a)
      as [(k & x & c & f' & c' & cl & ef & Hi & Hc & Hs & Heq) | [Hnone Heq]]; rewrite Heq; [|reflexivity].
    simpl. apply nth_error_set_nth_neq. exact Hne.
  Qed.

  Lemma exec_repeat_other pr p items i n j : i <> j -> forall st,
    nth_error (s_pcs (exec' pr p items (repeat i n) st)) j = nth_error (s_pcs st) j.
  Proof.
    intros Hne. induction n as [|n IH]; intros st; [reflexivity|].
    simpl repeat. rewrite exec_cons, IH. apply sys_step_pcs_other. exact Hne.
  Qed.

  (** * 1. frame lemma for one micro-step *)
  Lemma step1_frame pr p k x f c f' c' cl ef :
    step1' pr p k x f c = (f', c', cl, ef) ->
    forall q, q <> Final (name k) -> q <> Tmp p (name k) -> f' q = f q.
  Proof.
    intros Hs q HF HT.
    assert (Htg : q <> target pr p (name k)).
    { unfold target. destruct (is_temp pr); assumption. }
    destruct c as [| | |v|v j d|v|v d|r]; simpl in Hs.
    - inversion Hs; subst. reflexivity.
    - inversion Hs; subst. reflexivity.
    - inversion Hs; subst. reflexivity.
    - inversion Hs; subst. apply upd_other. exact Htg.
    - destruct (Nat.ltb j (size v)).
      + destruct (pol v (S j)); inversion Hs; subst.
        * apply upd_other. exact Htg.
        * reflexivity.
      + destruct pr; unfold target, is_temp in Hs, Htg.
        1,2,4: destruct (Nat.ltb d (size v)); inversion Hs; subst;
          [apply upd_other; exact Htg | reflexivity].
        inversion Hs; subst. rewrite upd_other by exact HT. apply upd_other. exact HF.
    - inversion Hs; subst. rewrite upd_other by exact HT. apply upd_other. exact HF.
    - destruct (Nat.ltb d (size v)); inversion Hs; subst; [apply upd_other; exact HF | reflexivity].
    - inversion Hs; subst. reflexivity.
  Qed.

  (** * 2. the temp+replace invariant *)
  Definition wk_ok (p : N) (f : fs V) (k x : N) (c : pc V) : Prop :=
    (f (Final (name k)) = None \/ f (Final (name k)) = whole' x) /\
    match c with
    | PStart | PRun => True
    | PLoad => f (Final (name k)) <> None
    | POpen v => v = fnv x
    | PWrite v j d => v = fnv x /\ f (Tmp p (name k)) = Some (v, d) /\ d <= j /\ j <= size v
    | PReplace v => v = fnv x /\ f (Tmp p (name k)) = Some (v, size v)
    | PCloseR _ _ => False   (* not a state of the temp+replace protocol *)
    | PDone r => r = Ok (fnv x) /\ f (Final (name k)) = whole' x
    end.

  Lemma wk_ok_own p f k x c f' c' cl ef :
    wk_ok p f k x c -> step1' SaveTempReplace p k x f c = (f', c', cl, ef) -> wk_ok p f' k x c'.
  Proof.
    intros [Hg Hc] Hs.
    assert (HFT : Final (name k) <> Tmp p (name k)) by discriminate.
    destruct c as [| | |v|v j d|v|v d|r]; simpl in Hs; unfold target, is_temp in Hs.
    - inversion Hs; subst; clear Hs. unfold wk_ok. split; [exact Hg|].
      destruct (f' (Final (name k))) eqn:E; [discriminate | exact I].
    - inversion Hs; subst; clear Hs. unfold wk_ok. split; [exact Hg|].
      destruct Hg as [Hg|Hg]; [contradiction|].
      rewrite Hg. unfold whole. rewrite Nat.eqb_refl. split; reflexivity.
    - inversion Hs; subst; clear Hs. unfold wk_ok. split; [exact Hg | reflexivity].
    - inversion Hs; subst; clear Hs. unfold wk_ok.
      rewrite upd_other by exact HFT. rewrite upd_same.
      split; [exact Hg|]. split; [reflexivity|]. split; [reflexivity | lia].
    - destruct Hc as [Hv [Ht [Hd Hj]]].
      destruct (Nat.ltb j (size v)) eqn:E.
      + apply Nat.ltb_lt in E.
        destruct (pol v (S j)); inversion Hs; subst; clear Hs; unfold wk_ok.
        * rewrite upd_other by exact HFT. rewrite upd_same.
          split; [exact Hg|]. split; [reflexivity|]. split; [reflexivity | lia].
        * split; [exact Hg|]. split; [reflexivity|]. split; [exact Ht | lia].
      + apply Nat.ltb_ge in E.
        destruct (Nat.ltb d (size v)) eqn:E2; inversion Hs; subst; clear Hs; unfold wk_ok.
        * rewrite upd_other by exact HFT. rewrite upd_same.
          split; [exact Hg|]. split; reflexivity.
        * apply Nat.ltb_ge in E2. split; [exact Hg|]. split; [reflexivity|].
          rewrite Ht. f_equal. f_equal. lia.
    - destruct Hc as [Hv Ht]. inversion Hs; subst; clear Hs. unfold wk_ok.
      rewrite upd_other by exact HFT. rewrite upd_same. rewrite Ht.
      split; [right; reflexivity|]. split; reflexivity.
    - destruct Hc.
    - inversion Hs; subst; clear Hs. unfold wk_ok. split; assumption.
  Qed.

  Lemma wk_ok_frame p f f' k x c :
    wk_ok p f k x c ->
    f' (Final (name k)) = f (Final (name k)) ->
    f' (Tmp p (name k)) = f (Tmp p (name k)) ->
    wk_ok p f' k x c.
  Proof.
    intros [Hg Hc] H1 H2. unfold wk_ok. destruct c; rewrite ?H1, ?H2; split; assumption.
  Qed.

  Lemma names_distinct_nth items i i' k x k' x' :
    names_distinct name items ->
    nth_error items i = Some (k, x) -> nth_error items i' = Some (k', x') ->
    i <> i' -> name k <> name k'.
  Proof.
    unfold names_distinct. intros Hnd Hi Hi' Hne Heq. apply Hne.
    pose proof (proj1 (NoDup_nth_error (map (fun kx => name (fst kx)) items)) Hnd) as H.
    apply H.
    - rewrite map_length. eapply nth_error_Some_lt. exact Hi.
    - rewrite (map_nth_error (fun kx => name (fst kx)) _ _ Hi).
      rewrite (map_nth_error (fun kx => name (fst kx)) _ _ Hi').
      simpl. rewrite Heq. reflexivity.
  Qed.

  Definition Inv (p : N) (items : list (N * N)) (st : sys V) : Prop :=
    length (s_pcs st) = length items /\
    forall i k x c, nth_error items i = Some (k, x) -> nth_error (s_pcs st) i = Some c ->
                    wk_ok p (s_fs st) k x c.

  Lemma Inv_step p items st a :
    names_distinct name items -> Inv p items st ->
    Inv p items (sys_step' SaveTempReplace p items st a).
  Proof.
    intros Hnd [Hlen Hw].
    destruct (sys_step_cases SaveTempReplace p items st a)
      as [(k & x & c & f' & c' & cl & ef & Hi & Hc & Hs & Heq) | [Hnone Heq]]; rewrite Heq;
      [|split; assumption].
    split; simpl.
    - rewrite length_set_nth. exact Hlen.
    - intros i0 k0 x0 c0 Hi0 Hc0. destruct (Nat.eq_dec a i0) as [E|Hne].
      + subst i0. rewrite nth_error_set_nth_eq in Hc0 by (eapply nth_error_Some_lt; exact Hc).
        inversion Hc0; subst c0. rewrite Hi in Hi0. inversion Hi0; subst k0 x0.
        eapply wk_ok_own; [|exact Hs]. eapply Hw; eassumption.
      + rewrite nth_error_set_nth_neq in Hc0 by exact Hne.
        assert (Hn : name k <> name k0).
        { eapply names_distinct_nth; [exact Hnd | exact Hi | exact Hi0 | exact Hne]. }
        eapply wk_ok_frame.
        * eapply Hw; eassumption.
        * eapply step1_frame; [exact Hs | congruence | congruence].
        * eapply step1_frame; [exact Hs | congruence | congruence].
  Qed.

  Lemma Inv_exec p items sched :
    names_distinct name items -> forall st, Inv p items st ->
    Inv p items (exec' SaveTempReplace p items sched st).
  Proof.
    intros Hnd. induction sched as [|a s IH]; intros st H; [exact H|].
    rewrite exec_cons. apply IH. apply Inv_step; assumption.
  Qed.

  Lemma Inv_init p items f0 : Good' items f0 -> Inv p items (init items f0).
  Proof.
    intros Hg. split; simpl.
    - apply map_length.
    - intros i k x c Hi Hc.
      rewrite nth_error_const_map in Hc by (eapply nth_error_Some_lt; exact Hi).
      inversion Hc; subst c. unfold wk_ok. split; [|exact I].
      apply Hg. eapply nth_error_In. exact Hi.
  Qed.

  Lemma all_done_nth (st : sys V) i c :
    all_done st = true -> nth_error (s_pcs st) i = Some c -> exists r, c = PDone r.
  Proof.
    unfold all_done. intros H Hc. rewrite forallb_forall in H.
    apply nth_error_In in Hc. apply H in Hc. destruct c; try discriminate. eauto.
  Qed.

  Lemma collect_all_ok : forall items pcs,
    (forall i k x, nth_error items i = Some (k, x) ->
                   nth_error pcs i = Some (PDone (Ok (fnv x)))) ->
    collect items pcs = Some (run_uncached V fnv items).
  Proof.
    induction items as [|[k x] r IH]; intros pcs H; [reflexivity|].
    pose proof (H 0 k x eq_refl) as H0.
    destruct pcs as [|c cs]; [discriminate|].
    simpl in H0. inversion H0; subst c.
    simpl. rewrite IH; [reflexivity|].
    intros i k' x' Hi. apply (H (S i) k' x'). exact Hi.
  Qed.

  (** A. *)
  Lemma crash_state_good :
    forall pr, pr = SaveTempReplace ->
    forall items f0 p sched,
      names_distinct name items -> Good V name fnv size items f0 ->
      Good V name fnv size items (s_fs (exec V name fnv size pol pr p items sched (init items f0))).
  Proof.
    intros pr -> items f0 p sched Hnd Hg.
    pose proof (Inv_exec p items sched Hnd _ (Inv_init p items f0 Hg)) as [Hlen Hw].
    intros k x Hin. apply In_nth_error in Hin. destruct Hin as [i Hi].
    destruct (nth_error_lt_Some (s_pcs (exec' SaveTempReplace p items sched (init items f0))) i)
      as [c Hc].
    { rewrite Hlen. eapply nth_error_Some_lt. exact Hi. }
    exact (proj1 (Hw i k x c Hi Hc)).
  Qed.

  (** B. *)
  Lemma complete_run_correct :
    forall pr, pr = SaveTempReplace ->
    forall items f0 p sched,
      names_distinct name items -> Good V name fnv size items f0 ->
      let st := exec V name fnv size pol pr p items sched (init items f0) in
      all_done st = true ->
      collect items (s_pcs st) = Some (run_uncached V fnv items)
      /\ AllCached V name fnv size items (s_fs st).
  Proof.
    intros pr -> items f0 p sched Hnd Hg st Hdone.
    pose proof (Inv_exec p items sched Hnd _ (Inv_init p items f0 Hg)) as [Hlen Hw].
    fold st in Hlen, Hw.
    assert (Hall : forall i k x, nth_error items i = Some (k, x) ->
                     nth_error (s_pcs st) i = Some (PDone (Ok (fnv x)))
                     /\ s_fs st (Final (name k)) = whole' x).
    { intros i k x Hi.
      destruct (nth_error_lt_Some (s_pcs st) i) as [c Hc].
      { rewrite Hlen. eapply nth_error_Some_lt. exact Hi. }
      destruct (all_done_nth st i c Hdone Hc) as [r ->].
      destruct (Hw i k x _ Hi Hc) as [_ [Hr Hf]]. subst r. split; assumption. }
    split.
    - apply collect_all_ok. intros i k x Hi. exact (proj1 (Hall i k x Hi)).
    - intros k x Hin. apply In_nth_error in Hin. destruct Hin as [i Hi].
      exact (proj2 (Hall i k x Hi)).
  Qed.

  (** * 3. termination *)
  Definition remt (x : N) (c : pc V) : nat :=
    match c with
    | PStart => size (fnv x) + 5
    | PLoad => 1
    | PRun => size (fnv x) + 4
    | POpen v => size v + 3
    | PWrite v j _ => (size v - j) + 2
    | PReplace _ => 1
    | PCloseR _ _ => 1
    | PDone _ => 0
    end.

  Lemma remt_zero x c : remt x c = 0 -> exists r, c = PDone r.
  Proof. destruct c; simpl; intros H; try lia. eauto. Qed.

  Lemma step1_rem pr p k x f c f' c' cl ef :
    step1' pr p k x f c = (f', c', cl, ef) -> remt x c' <= remt x c - 1.
  Proof.
    intros Hs. destruct c as [| | |v|v j d|v|v d|r]; simpl in Hs.
    - inversion Hs; subst. destruct (f' (Final (name k))); simpl; lia.
    - inversion Hs; subst.
      destruct (f' (Final (name k))) as [[v j]|]; [destruct (Nat.eqb j (size v))|]; simpl; lia.
    - inversion Hs; subst; simpl; lia.
    - inversion Hs; subst; simpl; lia.
    - destruct (Nat.ltb j (size v)) eqn:E.
      + apply Nat.ltb_lt in E. destruct (pol v (S j)); inversion Hs; subst; simpl; lia.
      + destruct pr; inversion Hs; subst; simpl; lia.
    - inversion Hs; subst; simpl; lia.
    - inversion Hs; subst; simpl; lia.
    - inversion Hs; subst; simpl; lia.
  Qed.

  Lemma sys_step_rem pr p items st a i k x c :
    nth_error items i = Some (k, x) -> nth_error (s_pcs st) i = Some c ->
    exists c', nth_error (s_pcs (sys_step' pr p items st a)) i = Some c' /\
               remt x c' <= remt x c - (if Nat.eq_dec a i then 1 else 0).
  Proof.
    intros Hi Hc.
    destruct (sys_step_cases pr p items st a)
      as [(k0 & x0 & c0 & f' & c' & cl & ef & Hi0 & Hc0 & Hs & Heq) | [Hnone Heq]]; rewrite Heq.
    - simpl. destruct (Nat.eq_dec a i) as [E|Hne].
      + subst a. rewrite Hi in Hi0. inversion Hi0; subst k0 x0.
        rewrite Hc in Hc0. inversion Hc0; subst c0.
        exists c'. split.
        * apply nth_error_set_nth_eq. eapply nth_error_Some_lt. exact Hc.
        * eapply step1_rem. exact Hs.
      + exists c. split; [|lia]. rewrite nth_error_set_nth_neq by exact Hne. exact Hc.
    - exists c. split; [exact Hc|]. destruct (Nat.eq_dec a i) as [E|Hne]; [|lia].
      subst a. destruct Hnone; congruence.
  Qed.

  Lemma exec_rem pr p items sched : forall st i k x c,
    nth_error items i = Some (k, x) -> nth_error (s_pcs st) i = Some c ->
    exists c', nth_error (s_pcs (exec' pr p items sched st)) i = Some c' /\
               remt x c' <= remt x c - count_occ Nat.eq_dec sched i.
  Proof.
    induction sched as [|a s IH]; intros st i k x c Hi Hc.
    - exists c. split; [exact Hc | simpl; lia].
    - rewrite exec_cons.
      destruct (sys_step_rem pr p items st a i k x c Hi Hc) as [c1 [Hc1 Hr1]].
      destruct (IH _ i k x c1 Hi Hc1) as [c2 [Hc2 Hr2]].
      exists c2. split; [exact Hc2|]. simpl.
      destruct (Nat.eq_dec a i); lia.
  Qed.

  (** C. *)
  Lemma turns_suffice :
    forall pr items f0 p sched i k x,
      nth_error items i = Some (k, x) ->
      wfuel V fnv size x <= count_occ Nat.eq_dec sched i ->
      exists r, nth_error (s_pcs (exec V name fnv size pol pr p items sched (init items f0))) i = Some (PDone r).
  Proof.
    intros pr items f0 p sched i k x Hi Hf.
    destruct (exec_rem pr p items sched (init items f0) i k x PStart Hi) as [c' [Hc' Hr]].
    { simpl. apply nth_error_const_map. eapply nth_error_Some_lt. exact Hi. }
    unfold wfuel in Hf. simpl in Hr.
    destruct (remt_zero x c') as [r ->]; [lia|].
    exists r. exact Hc'.
  Qed.

  Lemma fair_schedule_completes :
    forall pr items f0 p sched,
      (forall i k x, nth_error items i = Some (k, x) -> wfuel V fnv size x <= count_occ Nat.eq_dec sched i) ->
      all_done (exec V name fnv size pol pr p items sched (init items f0)) = true.
  Proof.
    intros pr items f0 p sched H. unfold all_done. apply forallb_forall. intros c Hin.
    apply In_nth_error in Hin. destruct Hin as [i Hc].
    assert (Hlt : i < length items).
    { apply nth_error_Some_lt in Hc. rewrite exec_length in Hc. simpl in Hc.
      rewrite map_length in Hc. exact Hc. }
    destruct (nth_error_lt_Some items i Hlt) as [[k x] Hi].
    destruct (turns_suffice pr items f0 p sched i k x Hi (H i k x Hi)) as [r Hr].
    rewrite Hr in Hc. inversion Hc; subst c. reflexivity.
  Qed.

  (** * 4. the runners are schedules *)
  Lemma exec_b_cons b pr p items a s st :
    exec_b' b pr p items (a :: s) st =
    exec_b' b pr p items s (sys_step_b V name fnv size pol b pr p items st a).
  Proof. reflexivity. Qed.

  Lemma exec_b_spent b pr p items sched st :
    spent V b st = true -> exec_b' b pr p items sched st = st.
  Proof.
    intros H. induction sched as [|a s IH]; [reflexivity|].
    rewrite exec_b_cons. unfold sys_step_b. rewrite H. exact IH.
  Qed.

  Lemma exec_b_None pr p items sched : forall st,
    exec_b' None pr p items sched st = exec' pr p items sched st.
  Proof.
    induction sched as [|a s IH]; intros st; [reflexivity|].
    rewrite exec_b_cons, exec_cons. unfold sys_step_b. simpl. apply IH.
  Qed.

  (** D. *)
  Lemma exec_b_is_prefix :
    forall b pr p items sched st,
      exists n, exec_b V name fnv size pol b pr p items sched st = exec V name fnv size pol pr p items (firstn n sched) st.
  Proof.
    intros b pr p items sched. induction sched as [|a s IH]; intros st.
    - exists 0. reflexivity.
    - destruct (spent V b st) eqn:E.
      + exists 0. rewrite exec_b_spent by exact E. reflexivity.
      + rewrite exec_b_cons. unfold sys_step_b. rewrite E.
        destruct (IH (sys_step' pr p items st a)) as [n Hn].
        exists (S n). rewrite Hn. reflexivity.
  Qed.

  Lemma run_seq_aux_is_schedule b pr p items : forall n i st,
    exists sched, run_seq_aux V name fnv size pol b pr p items n i st = exec' pr p items sched st.
  Proof.
    induction n as [|n IH]; intros i st.
    - exists []. reflexivity.
    - cbn [run_seq_aux].
      destruct (exec_b_is_prefix b pr p items (block' items i) st) as [m Hm].
      rewrite Hm.
      destruct (done_ok V (exec' pr p items (firstn m (block' items i)) st) i).
      + destruct (IH (S i) (exec' pr p items (firstn m (block' items i)) st)) as [s2 Hs2].
        exists (firstn m (block' items i) ++ s2). rewrite exec_app. exact Hs2.
      + exists (firstn m (block' items i)). reflexivity.
  Qed.

  Lemma run_seq_is_schedule :
    forall b pr p items f0,
      exists sched, run_seq V name fnv size pol b pr p items f0 = exec V name fnv size pol pr p items sched (init items f0).
  Proof.
    intros b pr p items f0. unfold run_seq. apply run_seq_aux_is_schedule.
  Qed.

  Lemma run_par_exit_is_schedule :
    forall pr p items f0 c e,
      exists sched, run_par_exit V name fnv size pol pr p items f0 c e = exec V name fnv size pol pr p items sched (init items f0).
  Proof.
    intros pr p items f0 c e. unfold run_par_exit.
    destruct (exec_b_is_prefix (Some e) pr p items (block' items c) (init items f0)) as [m Hm].
    rewrite Hm. eexists. rewrite <- exec_app. reflexivity.
  Qed.

  (** * 5. the runners complete *)
  Lemma count_occ_blocks items i l :
    In i l ->
    count_occ Nat.eq_dec (block' items i) i <=
    count_occ Nat.eq_dec (concat (map (block' items) l)) i.
  Proof.
    induction l as [|a l IH]; intros Hin; [destruct Hin|].
    simpl. rewrite count_occ_app. destruct (Nat.eq_dec a i) as [E|Hne].
    - subst a. lia.
    - destruct Hin as [E|Hin]; [contradiction|]. specialize (IH Hin). lia.
  Qed.

  Lemma run_seq_aux_ok p items : names_distinct name items -> forall n i st,
    Inv p items st -> i + n = length items ->
    (forall j, i <= j -> j < length items -> nth_error (s_pcs st) j = Some PStart) ->
    exists sched,
      run_seq_aux V name fnv size pol None SaveTempReplace p items n i st
      = exec' SaveTempReplace p items sched st
      /\ forall j k x, i <= j -> nth_error items j = Some (k, x) ->
                       wfuel' x <= count_occ Nat.eq_dec sched j.
  Proof.
    intros Hnd. induction n as [|n IH]; intros i st HInv Hlen Hstart.
    - exists []. split; [reflexivity|]. intros j k x Hij Hj.
      apply nth_error_Some_lt in Hj. lia.
    - assert (Hlt : i < length items) by lia.
      destruct (nth_error_lt_Some items i Hlt) as [[k x] Hi].
      cbn [run_seq_aux]. rewrite exec_b_None. unfold block at 1 2. rewrite Hi.
      set (st' := exec' SaveTempReplace p items (repeat i (wfuel' x)) st).
      assert (HInv' : Inv p items st') by (apply Inv_exec; assumption).
      destruct (exec_rem SaveTempReplace p items (repeat i (wfuel' x)) st i k x PStart Hi)
        as [c' [Hc' Hr]].
      { apply Hstart; [lia | exact Hlt]. }
      fold st' in Hc'. rewrite count_occ_repeat_same in Hr. unfold wfuel in Hr. simpl in Hr.
      destruct (remt_zero x c') as [r Hr']; [lia|]. subst c'.
      destruct HInv' as [Hlen' Hw'].
      destruct (Hw' i k x _ Hi Hc') as [_ [Hrr _]]. subst r.
      assert (Hd : done_ok V st' i = true) by (unfold done_ok; rewrite Hc'; reflexivity).
      rewrite Hd.
      destruct (IH (S i) st') as [s2 [Hs2 Hcnt]].
      + split; assumption.
      + lia.
      + intros j Hij Hj. unfold st'. rewrite exec_repeat_other by lia.
        apply Hstart; [lia | exact Hj].
      + exists (repeat i (wfuel' x) ++ s2). split.
        * rewrite exec_app. exact Hs2.
        * intros j k0 x0 Hij Hj. rewrite count_occ_app.
          destruct (Nat.eq_dec i j) as [E|Hne].
          -- subst j. rewrite Hi in Hj. inversion Hj; subst k0 x0.
             rewrite count_occ_repeat_same. lia.
          -- assert (Hsj : S i <= j) by lia. specialize (Hcnt j k0 x0 Hsj Hj). lia.
  Qed.

  (** E. *)
  Lemma run_seq_correct :
    forall pr, pr = SaveTempReplace ->
    forall items f0 p,
      names_distinct name items -> Good V name fnv size items f0 ->
      let st := run_seq V name fnv size pol None pr p items f0 in
      all_done st = true
      /\ collect items (s_pcs st) = Some (run_uncached V fnv items)
      /\ AllCached V name fnv size items (s_fs st).
  Proof.
    intros pr -> items f0 p Hnd Hg st. unfold run_seq in st.
    destruct (run_seq_aux_ok p items Hnd (length items) 0 (init items f0))
      as [sched [Heq Hcnt]].
    - apply Inv_init. exact Hg.
    - reflexivity.
    - intros j _ Hj. simpl. apply nth_error_const_map. exact Hj.
    - subst st. rewrite Heq.
      assert (Hdone : all_done (exec' SaveTempReplace p items sched (init items f0)) = true).
      { apply fair_schedule_completes. intros i k x Hi. apply (Hcnt i k x); [lia | exact Hi]. }
      split; [exact Hdone|].
      exact (complete_run_correct SaveTempReplace eq_refl items f0 p sched Hnd Hg Hdone).
  Qed.

  Lemma run_par_correct :
    forall pr, pr = SaveTempReplace ->
    forall items f0 p,
      names_distinct name items -> Good V name fnv size items f0 ->
      let st := run_par V name fnv size pol pr p items f0 in
      all_done st = true
      /\ collect items (s_pcs st) = Some (run_uncached V fnv items)
      /\ AllCached V name fnv size items (s_fs st).
  Proof.
    intros pr -> items f0 p Hnd Hg st. unfold run_par in st. subst st.
    assert (Hdone : all_done (exec' SaveTempReplace p items (all_blocks V fnv size items)
                                    (init items f0)) = true).
    { apply fair_schedule_completes. intros i k x Hi. unfold all_blocks.
      eapply Nat.le_trans; [|apply count_occ_blocks].
      - unfold block. rewrite Hi. rewrite count_occ_repeat_same. lia.
      - apply in_seq. apply nth_error_Some_lt in Hi. lia. }
    split; [exact Hdone|].
    exact (complete_run_correct SaveTempReplace eq_refl items f0 p _ Hnd Hg Hdone).
  Qed.

  (** * 6. fully cached directory *)
  Definition pc_cached (x : N) (c : pc V) : Prop :=
    c = PStart \/ c = PLoad \/ c = PDone (Ok (fnv x)).

  Definition InvC (items : list (N * N)) (f0 : fs V) (st : sys V) : Prop :=
    s_calls st = 0%N /\ s_effs st = 0%N /\ (forall q, s_fs st q = f0 q) /\
    forall i k x c, nth_error items i = Some (k, x) -> nth_error (s_pcs st) i = Some c ->
                    pc_cached x c.

  Lemma step1_cached pr p k x f c :
    f (Final (name k)) = whole' x -> pc_cached x c ->
    exists c', step1' pr p k x f c = (f, c', false, false) /\ pc_cached x c'.
  Proof.
    unfold whole. intros Hf [Hc|[Hc|Hc]]; subst c; simpl; rewrite ?Hf.
    - exists PLoad. split; [reflexivity|]. right; left; reflexivity.
    - rewrite Nat.eqb_refl. exists (PDone (Ok (fnv x))). split; [reflexivity|].
      right; right; reflexivity.
    - exists (PDone (Ok (fnv x))). split; [reflexivity|]. right; right; reflexivity.
  Qed.

  Lemma InvC_step pr p items f0 st a :
    AllCached' items f0 -> InvC items f0 st -> InvC items f0 (sys_step' pr p items st a).
  Proof.
    intros Hac (Hcl & Hef & Hfs & Hpc).
    destruct (sys_step_cases pr p items st a)
      as [(k & x & c & f' & c' & cl & ef & Hi & Hc & Hs & Heq) | [Hnone Heq]]; rewrite Heq;
      [|repeat split; assumption].
    destruct (step1_cached pr p k x (s_fs st) c) as [c1 [Hs1 Hc1]].
    { rewrite Hfs. apply Hac. eapply nth_error_In. exact Hi. }
    { eapply Hpc; eassumption. }
    rewrite Hs1 in Hs. inversion Hs; subst f' c' cl ef.
    unfold InvC; simpl. repeat split; try assumption.
    intros i0 k0 x0 c0 Hi0 Hc0. destruct (Nat.eq_dec a i0) as [E|Hne].
    - subst i0. rewrite nth_error_set_nth_eq in Hc0 by (eapply nth_error_Some_lt; exact Hc).
      inversion Hc0; subst c0. rewrite Hi in Hi0. inversion Hi0; subst k0 x0. exact Hc1.
    - rewrite nth_error_set_nth_neq in Hc0 by exact Hne. eapply Hpc; eassumption.
  Qed.

  Lemma InvC_exec pr p items f0 sched :
    AllCached' items f0 -> forall st, InvC items f0 st -> InvC items f0 (exec' pr p items sched st).
  Proof.
    intros Hac. induction sched as [|a s IH]; intros st H; [exact H|].
    rewrite exec_cons. apply IH. apply InvC_step; assumption.
  Qed.

  (** F. *)
  Lemma cached_run_no_recompute :
    forall pr items f0 p sched,
      AllCached V name fnv size items f0 ->
      let st := exec V name fnv size pol pr p items sched (init items f0) in
      s_calls st = 0%N /\ s_effs st = 0%N /\ (forall q, s_fs st q = f0 q)
      /\ (all_done st = true -> collect items (s_pcs st) = Some (run_uncached V fnv items)).
  Proof.
    intros pr items f0 p sched Hac st.
    assert (HI : InvC items f0 st).
    { apply InvC_exec; [exact Hac|]. unfold InvC; simpl. repeat split.
      intros i k x c Hi Hc.
      rewrite nth_error_const_map in Hc by (eapply nth_error_Some_lt; exact Hi).
      inversion Hc. left; reflexivity. }
    destruct HI as (Hcl & Hef & Hfs & Hpc).
    repeat split; try assumption.
    intros Hdone. apply collect_all_ok. intros i k x Hi.
    destruct (nth_error_lt_Some (s_pcs st) i) as [c Hc].
    { unfold st. rewrite exec_length. simpl. rewrite map_length.
      eapply nth_error_Some_lt. exact Hi. }
    destruct (all_done_nth st i c Hdone Hc) as [r Hr].
    destruct (Hpc i k x c Hi Hc) as [E|[E|E]]; subst c; try discriminate.
    inversion E; subst r. exact Hc.
  Qed.

  (** * 7. the direct write *)
  Definition pc_torn (c : pc V) : Prop := c = PStart \/ c = PLoad \/ c = PDone Raised.

  Definition InvG (i : nat) (k : N) (v : V) (j : nat) (st : sys V) : Prop :=
    s_fs st (Final (name k)) = Some (v, j) /\
    forall c, nth_error (s_pcs st) i = Some c -> pc_torn c.

  Lemma step1_torn pr p k x f c v j :
    f (Final (name k)) = Some (v, j) -> j <> size v -> pc_torn c ->
    exists c', step1' pr p k x f c = (f, c', false, false) /\ pc_torn c'.
  Proof.
    intros Hf Hj [Hc|[Hc|Hc]]; subst c; simpl; rewrite ?Hf.
    - exists PLoad. split; [reflexivity|]. right; left; reflexivity.
    - apply Nat.eqb_neq in Hj. rewrite Hj. exists (PDone Raised). split; [reflexivity|].
      right; right; reflexivity.
    - exists (PDone Raised). split; [reflexivity|]. right; right; reflexivity.
  Qed.

  Lemma InvG_step pr p items st a i k x v j :
    names_distinct name items -> nth_error items i = Some (k, x) -> j <> size v ->
    InvG i k v j st -> InvG i k v j (sys_step' pr p items st a).
  Proof.
    intros Hnd Hi Hj [Hf Hpc].
    destruct (sys_step_cases pr p items st a)
      as [(k0 & x0 & c & f' & c' & cl & ef & Hi0 & Hc & Hs & Heq) | [Hnone Heq]]; rewrite Heq;
      [|split; assumption].
    unfold InvG; simpl. destruct (Nat.eq_dec a i) as [E|Hne].
    - subst a. rewrite Hi in Hi0. inversion Hi0; subst k0 x0.
      destruct (step1_torn pr p k x (s_fs st) c v j Hf Hj (Hpc c Hc)) as [c1 [Hs1 Hc1]].
      rewrite Hs1 in Hs. inversion Hs; subst f' c' cl ef.
      split; [exact Hf|]. intros c0 Hc0.
      rewrite nth_error_set_nth_eq in Hc0 by (eapply nth_error_Some_lt; exact Hc).
      inversion Hc0; subst c0. exact Hc1.
    - assert (Hn : name k0 <> name k).
      { eapply names_distinct_nth; [exact Hnd | exact Hi0 | exact Hi | exact Hne]. }
      split.
      + rewrite <- Hf. eapply step1_frame; [exact Hs | congruence | congruence].
      + intros c0 Hc0. rewrite nth_error_set_nth_neq in Hc0 by exact Hne. apply Hpc. exact Hc0.
  Qed.

  Lemma InvG_exec pr p items sched i k x v j :
    names_distinct name items -> nth_error items i = Some (k, x) -> j <> size v ->
    forall st, InvG i k v j st -> InvG i k v j (exec' pr p items sched st).
  Proof.
    intros Hnd Hi Hj. induction sched as [|a s IH]; intros st H; [exact H|].
    rewrite exec_cons. apply IH. eapply InvG_step; eassumption.
  Qed.

  Lemma collect_raised : forall items (pcs : list (pc V)) i,
    i < length items -> nth_error pcs i = Some (PDone Raised) -> collect items pcs = None.
  Proof.
    induction items as [|[k x] r IH]; intros pcs i Hlt Hc; simpl in Hlt; [lia|].
    destruct pcs as [|c cs]; [reflexivity|].
    destruct i as [|i]; simpl in Hc.
    - inversion Hc; subst c. reflexivity.
    - simpl. destruct c as [| | |v0|v0 j0 d0|v0|v0 d0|[v0|]]; try reflexivity.
      rewrite (IH cs i); [reflexivity | lia | exact Hc].
  Qed.

  (** G. a result file holding a strict prefix is never repaired -- whatever the save protocol and
      the flush policy: _load_or_run takes its existence for "result available" *)
  Lemma torn_poisons :
    forall pr items f0 p sched i k x v j,
      names_distinct name items ->
      nth_error items i = Some (k, x) ->
      f0 (Final (name k)) = Some (v, j) -> j <> size v ->
      let st := exec V name fnv size pol pr p items sched (init items f0) in
      s_fs st (Final (name k)) = Some (v, j)
      /\ (forall r, nth_error (s_pcs st) i = Some (PDone r) -> r = Raised)
      /\ (all_done st = true -> collect items (s_pcs st) = None).
  Proof.
    intros pr items f0 p sched i k x v j Hnd Hi Hf0 Hj st.
    assert (HI : InvG i k v j st).
    { eapply InvG_exec; try eassumption. split; simpl; [exact Hf0|].
      intros c Hc.
      rewrite nth_error_const_map in Hc by (eapply nth_error_Some_lt; exact Hi).
      inversion Hc. left; reflexivity. }
    destruct HI as [Hf Hpc]. split; [exact Hf|]. split.
    - intros r Hr. destruct (Hpc _ Hr) as [E|[E|E]]; try discriminate.
      inversion E. reflexivity.
    - intros Hdone.
      destruct (nth_error_lt_Some (s_pcs st) i) as [c Hc].
      { unfold st. rewrite exec_length. simpl. rewrite map_length.
        eapply nth_error_Some_lt. exact Hi. }
      destruct (all_done_nth st i c Hdone Hc) as [r Hr].
      destruct (Hpc c Hc) as [E|[E|E]]; subst c; try discriminate.
      inversion E; subst r.
      eapply collect_raised; [|exact Hc]. eapply nth_error_Some_lt. exact Hi.
  Qed.

  Lemma direct_torn_poisons :
    forall pr, pr = SaveDirect ->
    forall items f0 p sched i k x v j,
      names_distinct name items ->
      nth_error items i = Some (k, x) ->
      f0 (Final (name k)) = Some (v, j) -> j <> size v ->
      let st := exec V name fnv size pol pr p items sched (init items f0) in
      s_fs st (Final (name k)) = Some (v, j)
      /\ (forall r, nth_error (s_pcs st) i = Some (PDone r) -> r = Raised)
      /\ (all_done st = true -> collect items (s_pcs st) = None).
  Proof. intros pr _. apply torn_poisons. Qed.

End Proofs.
