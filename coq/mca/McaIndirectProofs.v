(** C18, 4th pass -- proofs about parameters that act indirectly (McaIndirect.v). *)
From Coq Require Import QArith Qabs List NArith Bool Lia Lqa.
From MxlBase Require Import ListX.
From Mca Require Import Mca GenMcaFacts McaRestore McaIndirect.
Import ListNotations.
Open Scope Q_scope.

(* ---------------------------------------------------------------- the override is blind *)

Lemma get_app_single a p v l :
  get a (l ++ [(p, v)]) = match get a l with Some x => Some x | None => if N.eqb a p then Some v else None end.
Proof.
  induction l as [|[k w] t IH]; cbn [app get].
  - destruct (N.eqb a p); reflexivity.
  - destruct (N.eqb a k); [reflexivity|exact IH].
Qed.

Lemma lookup_merge_other all vars p v a :
  has p vars = false -> a <> p -> lookup all (merge p v vars) a = lookup all vars a.
Proof.
  intros Hh Hne. unfold merge. rewrite Hh. unfold lookup. rewrite get_app_single.
  destruct (get a vars); [reflexivity|]. destruct (N.eqb_spec a p); [contradiction|reflexivity].
Qed.

Lemma prod_factors_ext_on env env' fs :
  (forall a, In a (map fst fs) -> env a = env' a) -> prod_factors env fs = prod_factors env' fs.
Proof.
  induction fs as [|[a n] t IH]; intros H; [reflexivity|]. cbn [prod_factors].
  rewrite (H a) by (left; reflexivity). rewrite IH; [reflexivity|].
  intros b Hb. apply H. right. exact Hb.
Qed.

Lemma not_read_names p fs :
  existsb (fun an : name * nat => N.eqb (fst an) p) fs = false -> forall a, In a (map fst fs) -> a <> p.
Proof.
  induction fs as [|[b n] t IH]; intros H a Hin; [destruct Hin|].
  cbn [existsb fst] in H. apply orb_false_elim in H. destruct H as [H1 H2].
  destruct Hin as [<-|Hin].
  - cbn [fst]. intros ->. rewrite N.eqb_refl in H1. discriminate.
  - apply IH; assumption.
Qed.

Lemma pl_fluxes_merge_blind net all vars p v :
  reads p net = false -> has p vars = false ->
  pl_fluxes net all (merge p v vars) = pl_fluxes net all vars.
Proof.
  intros Hr Hh. unfold pl_fluxes. induction net as [|fs t IH]; [reflexivity|].
  unfold reads in Hr. cbn [existsb] in Hr. apply orb_false_elim in Hr. destruct Hr as [H1 H2].
  cbn [opt_map]. rewrite (IH H2).
  rewrite (prod_factors_ext_on (lookup all (merge p v vars)) (lookup all vars) fs); [reflexivity|].
  intros a Ha. apply lookup_merge_other; [exact Hh|]. eapply not_read_names; eassumption.
Qed.

Definition zero_or_nan (c : cell) : Prop := match c with Some v => v == 0 | None => True end.

Lemma coef_cell_q_same q u b old d nrm : zero_or_nan (coef_cell_q q u u b old d nrm).
Proof.
  unfold coef_cell_q, xdiv. destruct (Qeq_bool (disp_width q old d) 0) eqn:Ew.
  - destruct nrm; exact I.
  - assert (Hw : ~ disp_width q old d == 0) by (intros E; apply Qeq_bool_iff in E; congruence).
    destruct nrm; cbn [xmul zero_or_nan].
    + destruct (Qeq_bool b 0) eqn:Eb; cbn [zero_or_nan]; [exact I|].
      assert (Hb : ~ b == 0) by (intros E; apply Qeq_bool_iff in E; congruence).
      field. split; assumption.
    + field. exact Hw.
Qed.

Lemma column_same facts up : forall base old d nrm,
  Forall zero_or_nan (column facts up up base old d nrm).
Proof.
  unfold column. induction up as [|x t IH]; intros base old d nrm; [constructor|].
  destruct base as [|z c]; cbn [zip3 map]; [constructor|].
  constructor; [apply coef_cell_q_same|apply IH].
Qed.

(** a parameter that no reaction reads DIRECTLY (it acts through computed parameters only) and that
    is not a variable name: the column computed by the override shape is 0 / NaN throughout, whatever
    the computed parameters are *)
Lemma override_blind facts cps net d nrm pars vars p col :
  reads p net = false -> has p vars = false ->
  ovr_column facts (ifluxes cps net) d nrm pars vars p = Some col ->
  Forall zero_or_nan col.
Proof.
  intros Hr Hh. unfold ovr_column, ifluxes. destruct (get p pars) as [old|]; [|discriminate].
  destruct (resolve cps pars) as [all|]; [|discriminate].
  rewrite !pl_fluxes_merge_blind by assumption.
  destruct (pl_fluxes net all vars) as [fl|]; [|discriminate].
  destruct nrm; intros H; injection H as <-; apply column_same.
Qed.

(* ---------------------------------------------------------------- witnesses: computed parameters *)

(** k0 = 3, k1 = 4; kr = k0 / k1 (derived), vmax = k0 * k1 (derived);
    v0 = kr * x0, v1 = vmax * x0, v2 = k0 * x0; x0 = 2; d = 1/4 *)
Definition w_cps : list cpar := [(400%N, [(200%N, 1%nat)], [(201%N, 1%nat)]); (401%N, [(200%N, 1%nat); (201%N, 1%nat)], [])].
Definition w_net : list plrxn := [[(400%N, 1%nat); (100%N, 1%nat)]; [(401%N, 1%nat); (100%N, 1%nat)]; [(200%N, 1%nat); (100%N, 1%nat)]].
Definition w_st : mstate := mkState [(200%N, 3); (201%N, 4)] [(100%N, 2)].
Definition w_facts : mca_facts := mkFacts [] var_prog_expected par_prog_expected worker_prog_expected QuotCentralRelAbs0.

(** the tree: total kinetic orders (k0: 1, 1, 1;  k1: -1 -> -1/(1-d^2) = -16/15, 1, 0), model handed back *)
Lemma computed_parameters_witness :
  match par_elast w_facts (ifluxes w_cps w_net) (1 # 4) true None [200%N; 201%N] w_st with
  | Some (st', t) =>
      state_eqb st' w_st &&
      table_eqb t [(200%N, [Some 1; Some 1; Some 1]); (201%N, [Some (-16 # 15); Some 1; Some 0])]
  | None => false
  end = true.
Proof. vm_compute. reflexivity. Qed.

(** the override shape on the same input: k0 keeps only its DIRECT order (0, 0, 1), k1 nothing *)
Lemma override_witness :
  match par_elast_ovr w_facts (ifluxes w_cps w_net) (1 # 4) true None [200%N; 201%N] w_st with
  | Some t => table_eqb t [(200%N, [Some 0; Some 0; Some 1]); (201%N, [Some 0; Some 0; Some 0])]
  | None => false
  end = true.
Proof. vm_compute. reflexivity. Qed.

(* ---------------------------------------------------------------- assigned initial values *)

Lemma iset_iset k v w l : iset k v (iset k w l) = iset k v l.
Proof.
  induction l as [|[a b] t IH]; [reflexivity|]. cbn [iset].
  destruct (N.eqb_spec k a) as [E|E]; cbn [iset].
  - subst. rewrite N.eqb_refl. reflexivity.
  - destruct (N.eqb_spec k a); [congruence|]. f_equal. exact IH.
Qed.

Lemma iset_iget_same k v l : iget k l = Some v -> iset k v l = l.
Proof.
  induction l as [|[a b] t IH]; [reflexivity|]. cbn [iget iset].
  destruct (N.eqb_spec k a); [intros H; injection H as ->; reflexivity|].
  intros H. f_equal. apply IH. exact H.
Qed.

(** the tree's snapshot (raw initial values of the overridden variables), no y0 or ONE overridden
    variable: the worker hands the model back as it found it -- assignments included *)
Lemma raw_snapshot_restores q d nrm y0 p st st' obs :
  (y0 = None \/ exists x v, y0 = Some [(x, v)]) ->
  iworker SaveRawOfY0 q d nrm y0 p st = Some (st', obs) -> st' = st.
Proof.
  intros Hy. unfold iworker. destruct (get p (is_pars st)) as [old|] eqn:Eo; [|discriminate].
  destruct Hy as [->|[x [v ->]]].
  - destruct (iobserve _); [|discriminate]. destruct (iobserve _); [|discriminate]. destruct (iobserve _); [|discriminate].
    intros H. injection H as <- _. rewrite (set_get_same _ _ _ Eo). destruct st; reflexivity.
  - cbn [isave opt_map fst snd]. destruct (iget x (is_inits st)) as [orig|] eqn:Eg; [|discriminate].
    cbn [option_map].
    destruct (iobserve _); [|discriminate]. destruct (iobserve _); [|discriminate]. destruct (iobserve _); [|discriminate].
    intros H. injection H as <- _. rewrite (set_get_same _ _ _ Eo).
    cbn [numbers map iset_all fold_left fst snd]. rewrite iset_iset, (iset_iget_same _ _ _ Eg).
    destruct st; reflexivity.
Qed.

(** witness of seeded C18-8: conserved cycle, k0 = 1, k1 = 3, k2 = 2; x0(0) := k2, x1(0) = 0;
    the caller overrides only x1 (= 1/2); scanned: k0, then k2; d = 1/4 *)
Definition a_st : istate := mkIState [(200%N, 1); (201%N, 3); (202%N, 2)] [(100%N, IPar 202%N); (101%N, INum 0)].
Definition a_y0 : option alist := Some [(101%N, 1 # 2)].

Lemma raw_snapshot_witness :
  match iseq SaveRawOfY0 QuotCentralRelAbs0 (1 # 4) false a_y0 [200%N; 202%N] a_st,
        ipar SaveRawOfY0 QuotCentralRelAbs0 (1 # 4) false a_y0 [200%N; 202%N] a_st with
  | Some (st', rs), Some rs' =>
      istate_eqb st' a_st && obs_eqb rs rs' &&
      (* the runs for k2 start from x0(0) = k2 (1 +- d) *)
      obs_eqb (skipn 1 rs) [(202%N, [mkState [(200%N, 1); (201%N, 3); (202%N, 5 # 2)] [(100%N, 5 # 2); (101%N, 1 # 2)];
                                      mkState [(200%N, 1); (201%N, 3); (202%N, 3 # 2)] [(100%N, 3 # 2); (101%N, 1 # 2)]])]
  | _, _ => false
  end = true.
Proof. vm_compute. reflexivity. Qed.

Lemma evaluated_snapshot_refuted :
  (* after ONE worker the assignment x0(0) := k2 has become the number 2 ... *)
  (match iworker SaveAllEvaluated QuotCentralRelAbs0 (1 # 4) false a_y0 200%N a_st with
   | Some (st', _) => istate_eqb st' (mkIState (is_pars a_st) [(100%N, INum 2); (101%N, INum 0)])
   | None => false end = true) /\
  (* ... so in the sequential execution the runs for k2 start from x0(0) = 2 both times, in the pool
     from k2 (1 +- d): different observations, the model is not handed back *)
  (match iseq SaveAllEvaluated QuotCentralRelAbs0 (1 # 4) false a_y0 [200%N; 202%N] a_st,
         ipar SaveAllEvaluated QuotCentralRelAbs0 (1 # 4) false a_y0 [200%N; 202%N] a_st with
   | Some (st', rs), Some rs' =>
       negb (istate_eqb st' a_st) && negb (obs_eqb rs rs') &&
       obs_eqb (skipn 1 rs) [(202%N, [mkState [(200%N, 1); (201%N, 3); (202%N, 5 # 2)] [(100%N, 2); (101%N, 1 # 2)];
                                       mkState [(200%N, 1); (201%N, 3); (202%N, 3 # 2)] [(100%N, 2); (101%N, 1 # 2)]])]
   | _, _ => false end = true).
Proof. split; vm_compute; reflexivity. Qed.

(* ---------------------------------------------------------------- parameters that are not run *)

(** -> A -> n B ->  (v0 = k0, v1 = k1 A, v2 = k2 B, yield n used ONLY as a stoichiometric
    coefficient): the steady state, written out: A = k0/k1, B = n k0/k2, J = (k0, k0, n k0) *)
Definition ss_yield (pars inits : alist) : option (list Q * list Q) :=
  match get 200%N pars, get 201%N pars, get 202%N pars, get 203%N pars with
  | Some k0, Some k1, Some k2, Some n =>
      if Qeq_bool k1 0 || Qeq_bool k2 0 then None
      else Some ([k0 / k1; n * k0 / k2], [k0; k0; n * k0])
  | _, _, _, _ => None
  end.

Lemma yield_balance k0 k1 k2 n : ~ k1 == 0 -> ~ k2 == 0 ->
  k0 - k1 * (k0 / k1) == 0 /\ n * (k1 * (k0 / k1)) - k2 * (n * k0 / k2) == 0.
Proof. intros H1 H2. split; field; try split; assumption. Qed.

Definition y_st : mstate := mkState [(200%N, 2); (201%N, 4); (202%N, 1 # 2); (203%N, 3); (204%N, 1)] [(100%N, 1); (101%N, 1)].

Definition run_tree (scan : list name) : option (list (name * (list cell * list cell))) :=
  match resp_seq w_facts (1 # 4) true None scan y_st with
  | Some (_, rs) => resp_result w_facts ss_yield (1 # 4) true rs
  | None => None
  end.

(** the tree runs every scanned parameter: n (203): B and v2 respond with coefficient 1; the truly
    unused k4 (204): all 0.  The skipping shape with unused = {n, k4} (what get_unused_parameters
    reports: n is no ARGUMENT of any reaction): n's column is 0 as well. *)
Lemma unused_skip_refuted :
  (match run_tree [203%N; 204%N] with
   | Some t => columns_eqb t [(203%N, ([Some 0; Some 1], [Some 0; Some 0; Some 1]));
                              (204%N, ([Some 0; Some 0], [Some 0; Some 0; Some 0]))]
   | None => false end = true) /\
  (match skip_result [203%N; 204%N] [203%N; 204%N] 2 3 run_tree with
   | Some t => columns_eqb t [(203%N, ([Some 0; Some 0], [Some 0; Some 0; Some 0]));
                              (204%N, ([Some 0; Some 0], [Some 0; Some 0; Some 0]))]
   | None => false end = true) /\
  (* skipping only what is truly without influence changes nothing *)
  (match skip_result [204%N] [203%N; 204%N] 2 3 run_tree, run_tree [203%N; 204%N] with
   | Some t, Some t' => columns_eqb t t'
   | _, _ => false end = true).
Proof. repeat split; vm_compute; reflexivity. Qed.

(** the same with the REGENERATED facts (an edited routine breaks this as it breaks C18_facts_pinned) *)
Lemma computed_parameters_total_order :
  match par_elast gen_mca_facts (ifluxes w_cps w_net) (1 # 4) true None [200%N; 201%N] w_st with
  | Some (st', t) =>
      state_eqb st' w_st &&
      table_eqb t [(200%N, [Some 1; Some 1; Some 1]); (201%N, [Some (-16 # 15); Some 1; Some 0])]
  | None => false
  end = true.
Proof. vm_compute. reflexivity. Qed.
