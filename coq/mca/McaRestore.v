(** C18 -- the routines leave the model as they found it (state-machine argument over the
    regenerated statement lists), and sequential = parallel. *)
From Coq Require Import QArith List NArith Bool Lia.
From MxlBase Require Import ListX.
From Mca Require Import Mca.
Import ListNotations.
Open Scope Q_scope.

(* ---------------------------------------------------------------- association lists *)

Lemma keys_set k v l : keys (set k v l) = keys l.
Proof.
  induction l as [|[k' v'] t IH]; [reflexivity|]. cbn [set].
  destruct (N.eqb k k'); cbn [keys map fst]; [reflexivity|]. f_equal. exact IH.
Qed.

Lemma get_in_keys k l v : get k l = Some v -> In k (keys l).
Proof.
  induction l as [|[k' v'] t IH]; [discriminate|]. cbn [get keys map fst].
  destruct (N.eqb_spec k k'); [left; congruence|]. intros H. right. apply IH. exact H.
Qed.

Lemma in_keys_get k l : In k (keys l) -> exists v, get k l = Some v.
Proof.
  induction l as [|[k' v'] t IH]; [intros []|]. cbn [get keys map fst].
  destruct (N.eqb_spec k k'); [eexists; reflexivity|]. intros [H|H]; [congruence|]. apply IH. exact H.
Qed.

Lemma get_set_same k v l : In k (keys l) -> get k (set k v l) = Some v.
Proof.
  induction l as [|[k' v'] t IH]; [intros []|]. cbn [set keys map fst].
  destruct (N.eqb_spec k k') as [E|E]; cbn [get].
  - subst. rewrite N.eqb_refl. reflexivity.
  - intros [H|H]; [congruence|]. destruct (N.eqb_spec k k'); [congruence|]. apply IH. exact H.
Qed.

Lemma get_set_other k k' v l : k <> k' -> get k' (set k v l) = get k' l.
Proof.
  intros Hne. induction l as [|[a b] t IH]; [reflexivity|]. cbn [set].
  destruct (N.eqb_spec k a) as [E|E]; cbn [get].
  - subst. destruct (N.eqb_spec k' a); [congruence|reflexivity].
  - destruct (N.eqb k' a); [reflexivity|exact IH].
Qed.

Lemma set_get_same k v l : get k l = Some v -> set k v l = l.
Proof.
  induction l as [|[a b] t IH]; [reflexivity|]. cbn [get set].
  destruct (N.eqb_spec k a); [intros H; injection H as ->; reflexivity|].
  intros H. f_equal. apply IH. exact H.
Qed.

Lemma set_set k v w l : set k v (set k w l) = set k v l.
Proof.
  induction l as [|[a b] t IH]; [reflexivity|]. cbn [set].
  destruct (N.eqb_spec k a) as [E|E]; cbn [set].
  - subst. rewrite N.eqb_refl. reflexivity.
  - destruct (N.eqb_spec k a); [congruence|]. f_equal. exact IH.
Qed.

Lemma has_get k l v : get k l = Some v -> has k l = true.
Proof. unfold has. intros ->. reflexivity. Qed.

Lemma has_set k v l : has k (set k v l) = has k l.
Proof.
  unfold has. destruct (get k l) eqn:E.
  - rewrite get_set_same; [reflexivity|]. eapply get_in_keys. exact E.
  - destruct (get k (set k v l)) eqn:E2; [|reflexivity].
    apply get_in_keys in E2. rewrite keys_set in E2. apply in_keys_get in E2. destruct E2 as [x Hx]. congruence.
Qed.

Lemma keys_set_all u l : keys (set_all u l) = keys l.
Proof.
  unfold set_all. revert l. induction u as [|[k v] t IH]; intros l; [reflexivity|].
  cbn [fold_left fst snd]. rewrite IH. apply keys_set.
Qed.

Lemma set_all_cons k v u l : set_all ((k, v) :: u) l = set_all u (set k v l).
Proof. reflexivity. Qed.

Lemma get_set_all_notin k u l : ~ In k (keys u) -> get k (set_all u l) = get k l.
Proof.
  revert l. induction u as [|[a b] t IH]; intros l Hn; [reflexivity|].
  rewrite set_all_cons, IH.
  - apply get_set_other. intro E. apply Hn. left. exact E.
  - intro H. apply Hn. right. exact H.
Qed.

(** two alists with the same (duplicate-free) keys and the same lookups are equal *)
Lemma alist_ext a : forall b, NoDup (keys a) -> keys a = keys b ->
  (forall k, In k (keys a) -> get k a = get k b) -> a = b.
Proof.
  induction a as [|[k v] t IH]; intros b Hnd Hk Hg.
  - destruct b; [reflexivity|discriminate].
  - destruct b as [|[k' v'] t']; [discriminate|].
    cbn [keys map fst] in Hk. injection Hk as -> Hk.
    inversion Hnd as [|? ? Hnot Hnd']; subst.
    assert (v = v').
    { specialize (Hg k' (or_introl eq_refl)). cbn [get] in Hg. rewrite N.eqb_refl in Hg. congruence. }
    subst. f_equal. apply IH; [exact Hnd'|exact Hk|].
    intros k Hin. specialize (Hg k (or_intror Hin)). cbn [get] in Hg.
    destruct (N.eqb_spec k k'); [subst; contradiction|exact Hg].
Qed.

(** update_parameters(<all parameters of a run>) makes the parameters equal to that run's *)
Lemma set_all_same_keys a b : NoDup (keys a) -> keys a = keys b -> set_all a b = a.
Proof.
  intros Hnd Hk. symmetry. apply alist_ext; [exact Hnd|rewrite keys_set_all; exact Hk|].
  intros k Hin.
  assert (G : forall u l, NoDup (keys u) -> In k (keys u) -> incl (keys u) (keys l) ->
              get k (set_all u l) = get k u).
  { induction u as [|[x y] u IH]; intros l Hn Hi Hs; [destruct Hi|].
    rewrite set_all_cons. inversion Hn as [|? ? Hnot Hn']; subst. cbn [keys map fst] in Hi. cbn [get].
    destruct (N.eqb_spec k x) as [E|E].
    - subst. rewrite get_set_all_notin by exact Hnot. apply get_set_same. apply Hs. left. reflexivity.
    - destruct Hi as [Hi|Hi]; [congruence|]. apply IH; [exact Hn'|exact Hi|].
      rewrite keys_set. intros z Hz. apply Hs. right. exact Hz. }
  symmetry. apply G; [exact Hnd|exact Hin|]. rewrite Hk. apply incl_refl.
Qed.

(* ---------------------------------------------------------------- save / restore of y0 *)

Lemma save_y0_spec y inits sv : save_y0 y inits = Some sv ->
  keys sv = keys y /\ (forall k v, In (k, v) sv -> get k inits = Some v).
Proof.
  revert sv. induction y as [|[k w] t IH]; intros sv H; cbn [save_y0 fold_right] in H.
  - injection H as <-. split; [reflexivity|intros ? ? []].
  - fold (save_y0 t inits) in H. destruct (save_y0 t inits) as [a|]; [|discriminate].
    cbn [fst] in H. destruct (get k inits) as [v|] eqn:E; [|discriminate]. injection H as <-.
    destruct (IH a eq_refl) as [K G]. split.
    + cbn [keys map fst]. f_equal. exact K.
    + intros k' v' [Hin|Hin]; [congruence|]. apply G. exact Hin.
Qed.

Lemma get_set_all_consistent orig sv : (forall k v, In (k, v) sv -> get k orig = Some v) ->
  forall l k, keys l = keys orig -> In k (keys sv) -> get k (set_all sv l) = get k orig.
Proof.
  induction sv as [|[a b] t IH]; intros Hc l k Hk Hin; [destruct Hin|].
  rewrite set_all_cons.
  destruct (in_dec N.eq_dec k (keys t)) as [Ht|Ht].
  - apply IH; [intros; apply Hc; right; assumption|rewrite keys_set; exact Hk|exact Ht].
  - destruct Hin as [E|Hin]; [|contradiction]. cbn [fst] in E. subst a.
    rewrite get_set_all_notin by exact Ht.
    rewrite (Hc k b (or_introl eq_refl)). apply get_set_same. rewrite Hk.
    eapply get_in_keys. apply (Hc k b). left. reflexivity.
Qed.

Lemma restore_y0 y inits sv : NoDup (keys inits) -> save_y0 y inits = Some sv ->
  set_all sv (set_all y inits) = inits.
Proof.
  intros Hnd Hs. destruct (save_y0_spec _ _ _ Hs) as [K G].
  symmetry. apply alist_ext; [exact Hnd|rewrite !keys_set_all; reflexivity|].
  intros k Hin. symmetry.
  destruct (in_dec N.eq_dec k (keys sv)) as [Hk|Hk].
  - apply (get_set_all_consistent inits sv G); [apply keys_set_all|exact Hk].
  - rewrite get_set_all_notin by exact Hk. apply get_set_all_notin. rewrite <- K. exact Hk.
Qed.

(* ---------------------------------------------------------------- the pinned programs *)

Definition var_prog_expected : list stmt := [SObserve; SObserve; SObserveIfNorm].
Definition par_prog_expected : list stmt :=
  [SReadOld; SSetPar Up; SObserve; SSetPar Down; SObserve; SSetPar Back; SObserveIfNorm].
Definition worker_prog_expected : list stmt :=
  [SReadOld; SSaveY0; SApplyY0; SSetPar Up; SObserve; SSetPar Down; SObserve;
   SView 0; SView 1; SView 0; SView 1; SSetPar Back; SObserveIfNorm; SViewIfNorm 2; SViewIfNorm 2;
   SRestoreY0].
(** the worker before the repair (no save / restore of the initial values) *)
Definition worker_prog_unrepaired : list stmt :=
  [SReadOld; SApplyY0; SSetPar Up; SObserve; SSetPar Down; SObserve;
   SView 0; SView 1; SView 0; SView 1; SSetPar Back; SObserveIfNorm; SViewIfNorm 2; SViewIfNorm 2].

(** what each observation (get_fluxes / steady-state run) sees *)
Definition applied (y0 : option alist) (inits : alist) : alist :=
  match y0 with Some y => set_all y inits | None => inits end.
Definition expected_obs (q : quot_kind) (p : name) (y0 : option alist) (normalized : bool) (d old : Q) (st : mstate) : list mstate :=
  let i := applied y0 (st_inits st) in
  [mkState (set p (disp_up q old d) (st_pars st)) i; mkState (set p (disp_lo q old d) (st_pars st)) i]
  ++ (if normalized then [mkState (st_pars st) i] else []).

Lemma var_prog_pure q p y0 nrm d st st' rg :
  exec_prog q p y0 nrm d var_prog_expected st regs0 = Some (st', rg) -> st' = st.
Proof.
  unfold var_prog_expected. cbn [exec_prog exec_stmt]. destruct nrm; intros H; injection H as <- _; reflexivity.
Qed.

Lemma par_prog_restores q p nrm d st st' rg :
  exec_prog q p None nrm d par_prog_expected st regs0 = Some (st', rg) ->
  st' = st /\ exists old, get p (st_pars st) = Some old /\ r_old rg = Some old
                          /\ r_obs rg = expected_obs q p None nrm d old st.
Proof.
  destruct st as [pars inits]. unfold par_prog_expected, expected_obs, applied.
  cbn [exec_prog exec_stmt st_pars st_inits regs0 r_old r_saved r_obs r_viewed].
  destruct (get p pars) as [old|] eqn:Hg; [|discriminate].
  cbn [exec_prog exec_stmt st_pars st_inits r_old r_saved r_obs r_viewed perturbed].
  rewrite (has_get _ _ _ Hg).
  cbn [exec_prog exec_stmt st_pars st_inits r_old r_saved r_obs r_viewed perturbed].
  rewrite has_set, (has_get _ _ _ Hg).
  cbn [exec_prog exec_stmt st_pars st_inits r_old r_saved r_obs r_viewed perturbed].
  rewrite !has_set, (has_get _ _ _ Hg).
  cbn [exec_prog exec_stmt st_pars st_inits r_old r_saved r_obs r_viewed perturbed app].
  rewrite !set_set, (set_get_same _ _ _ Hg).
  destruct nrm; intros H; injection H as <- <-; (split; [reflexivity|]); exists old; repeat split; reflexivity.
Qed.

Lemma exec_prog_app q p y0 nrm d a b st rg :
  exec_prog q p y0 nrm d (a ++ b) st rg =
  match exec_prog q p y0 nrm d a st rg with
  | Some (st', rg') => exec_prog q p y0 nrm d b st' rg'
  | None => None
  end.
Proof.
  revert st rg. induction a as [|s a IH]; intros st rg; [reflexivity|].
  cbn [app exec_prog]. destruct (exec_stmt q p y0 nrm d s st rg) as [[st' rg']|]; [apply IH|reflexivity].
Qed.

Definition core_prog : list stmt :=
  [SSetPar Up; SObserve; SSetPar Down; SObserve; SView 0; SView 1; SView 0; SView 1; SSetPar Back;
   SObserveIfNorm; SViewIfNorm 2; SViewIfNorm 2].

(** the parameter part of the worker: perturb up, run, perturb down, run, (lazy views re-apply the
    runs' parameters), set back, optional normalisation run *)
Lemma core_exec q p y0 nrm d pars i old sv0 :
  NoDup (keys pars) -> get p pars = Some old ->
  exec_prog q p y0 nrm d core_prog (mkState pars i) (mkRegs (Some old) sv0 [] [])
  = Some (mkState pars i,
          mkRegs (Some old) sv0
            ([mkState (set p (disp_up q old d) pars) i; mkState (set p (disp_lo q old d) pars) i]
             ++ (if nrm then [mkState pars i] else []))
            (if nrm then [2; 1; 0]%nat else [1; 0]%nat)).
Proof.
  intros Hnp Hg.
  assert (Hh := has_get _ _ _ Hg).
  assert (K1 : forall v, keys (set p v pars) = keys pars) by (intros; apply keys_set).
  unfold core_prog.
  cbn [app exec_prog exec_stmt st_pars st_inits r_old r_saved r_obs r_viewed perturbed].
  rewrite Hh. cbn [exec_prog exec_stmt st_pars st_inits r_old r_saved r_obs r_viewed perturbed app].
  rewrite has_set, Hh.
  cbn [exec_prog exec_stmt view st_pars st_inits r_old r_saved r_obs r_viewed perturbed app existsb nth_error Nat.eqb orb].
  rewrite set_set.
  rewrite (set_all_same_keys (set p (disp_up q old d) pars) (set p (disp_lo q old d) pars))
    by (rewrite ?K1; auto).
  cbn [exec_prog exec_stmt view st_pars st_inits r_old r_saved r_obs r_viewed perturbed app existsb nth_error Nat.eqb orb].
  rewrite (set_all_same_keys (set p (disp_lo q old d) pars) (set p (disp_up q old d) pars))
    by (rewrite ?K1; auto).
  cbn [exec_prog exec_stmt view st_pars st_inits r_old r_saved r_obs r_viewed perturbed app existsb nth_error Nat.eqb orb].
  rewrite has_set, Hh.
  cbn [exec_prog exec_stmt view st_pars st_inits r_old r_saved r_obs r_viewed perturbed app existsb nth_error Nat.eqb orb].
  rewrite set_set, (set_get_same _ _ _ Hg).
  destruct nrm; cbn [exec_prog exec_stmt view st_pars st_inits r_old r_saved r_obs r_viewed perturbed app existsb nth_error Nat.eqb orb].
  - rewrite (set_all_same_keys pars pars) by auto. reflexivity.
  - reflexivity.
Qed.

Lemma worker_prog_restores q p y0 nrm d st st' rg :
  NoDup (keys (st_pars st)) -> NoDup (keys (st_inits st)) ->
  exec_prog q p y0 nrm d worker_prog_expected st regs0 = Some (st', rg) ->
  st' = st /\ exists old, get p (st_pars st) = Some old /\ r_old rg = Some old
                          /\ r_obs rg = expected_obs q p y0 nrm d old st.
Proof.
  destruct st as [pars inits]. cbn [st_pars st_inits]. intros Hnp Hni.
  change worker_prog_expected with ([SReadOld; SSaveY0; SApplyY0] ++ core_prog ++ [SRestoreY0]).
  rewrite exec_prog_app. unfold expected_obs.
  cbn [exec_prog exec_stmt st_pars st_inits regs0 r_old r_saved r_obs r_viewed].
  destruct (get p pars) as [old|] eqn:Hg; [|discriminate].
  destruct y0 as [y|]; cbn [applied];
    cbn [exec_prog exec_stmt st_pars st_inits regs0 r_old r_saved r_obs r_viewed].
  - destruct (save_y0 y inits) as [sv|] eqn:Hs; [|discriminate].
    cbn [exec_prog exec_stmt st_pars st_inits r_old r_saved r_obs r_viewed].
    destruct (forallb (fun kv => has (fst kv) inits) y); [|discriminate].
    cbn [st_pars st_inits r_old r_saved r_obs r_viewed].
    rewrite exec_prog_app, (core_exec q p (Some y) nrm d pars (set_all y inits) old (Some sv) Hnp Hg).
    cbn [exec_prog exec_stmt st_pars st_inits r_old r_saved r_obs r_viewed].
    rewrite (restore_y0 y inits sv Hni Hs).
    intros H; injection H as <- <-. split; [reflexivity|]. exists old. repeat split; reflexivity.
  - rewrite exec_prog_app, (core_exec q p None nrm d pars inits old None Hnp Hg).
    cbn [exec_prog exec_stmt st_pars st_inits r_old r_saved r_obs r_viewed].
    intros H; injection H as <- <-. split; [reflexivity|]. exists old. repeat split; reflexivity.
Qed.

(** the run does not fail on well-formed input: the scanned parameter exists (as a plain value) and
    every key of y0 is a variable *)
Lemma save_y0_total y inits : forallb (fun kv => has (fst kv) inits) y = true -> exists sv, save_y0 y inits = Some sv.
Proof.
  induction y as [|[k w] t IH]; intros H; [eexists; reflexivity|].
  cbn [forallb fst] in H. apply andb_true_iff in H. destruct H as [Hk Ht].
  destruct (IH Ht) as [sv Hs]. unfold save_y0 in *. cbn [fold_right fst]. rewrite Hs.
  unfold has in Hk. destruct (get k inits); [eexists; reflexivity|discriminate].
Qed.

Lemma worker_prog_total q p y0 nrm d st old :
  NoDup (keys (st_pars st)) -> NoDup (keys (st_inits st)) -> get p (st_pars st) = Some old ->
  (forall y, y0 = Some y -> forallb (fun kv => has (fst kv) (st_inits st)) y = true) ->
  exists rg, exec_prog q p y0 nrm d worker_prog_expected st regs0 = Some (st, rg).
Proof.
  destruct st as [pars inits]. cbn [st_pars st_inits]. intros Hnp Hni Hg Hy.
  change worker_prog_expected with ([SReadOld; SSaveY0; SApplyY0] ++ core_prog ++ [SRestoreY0]).
  rewrite exec_prog_app.
  cbn [exec_prog exec_stmt st_pars st_inits regs0 r_old r_saved r_obs r_viewed]. rewrite Hg.
  destruct y0 as [y|]; cbn [exec_prog exec_stmt st_pars st_inits regs0 r_old r_saved r_obs r_viewed].
  - specialize (Hy y eq_refl). destruct (save_y0_total y inits Hy) as [sv Hs]. rewrite Hs.
    cbn [exec_prog exec_stmt st_pars st_inits r_old r_saved r_obs r_viewed]. rewrite Hy.
    cbn [st_pars st_inits r_old r_saved r_obs r_viewed]. eexists.
    rewrite exec_prog_app, (core_exec q p (Some y) nrm d pars (set_all y inits) old (Some sv) Hnp Hg).
    cbn [exec_prog exec_stmt st_pars st_inits r_old r_saved r_obs r_viewed].
    rewrite (restore_y0 y inits sv Hni Hs). reflexivity.
  - rewrite exec_prog_app. pose proof (core_exec q p None nrm d pars inits old None Hnp Hg) as C.
    unfold alist in *. rewrite C.
    cbn [exec_prog exec_stmt st_pars st_inits r_old r_saved r_obs r_viewed]. eexists. reflexivity.
Qed.

(* ---------------------------------------------------------------- whole routines *)

Section Whole.
  Variable facts : mca_facts.
  Variable fluxes : alist -> alist -> option (list Q).

  Lemma par_step_restores d nrm vars p st st' col :
    f_par_prog facts = par_prog_expected ->
    par_step facts fluxes d nrm vars p st = Some (st', col) -> st' = st.
  Proof.
    intros Hf. unfold par_step. rewrite Hf.
    destruct (exec_prog (f_quot facts) p None nrm d par_prog_expected st regs0) as [[s1 rg]|] eqn:E; [|discriminate].
    apply par_prog_restores in E. destruct E as [-> _].
    intros H.
    repeat match type of H with
           | match ?x with _ => _ end = _ => destruct x; try discriminate
           | (if ?x then _ else _) = _ => destruct x; try discriminate
           end; injection H as <- _; reflexivity.
  Qed.

  Lemma par_loop_restores d nrm vars scan : forall st st' t,
    f_par_prog facts = par_prog_expected ->
    par_loop facts fluxes d nrm vars scan st = Some (st', t) -> st' = st /\ map fst t = scan.
  Proof.
    induction scan as [|p rest IH]; intros st st' t Hf; cbn [par_loop].
    - intros H; injection H as <- <-. split; reflexivity.
    - destruct (par_step facts fluxes d nrm vars p st) as [[s1 col]|] eqn:E; [|discriminate].
      apply (par_step_restores _ _ _ _ _ _ _ Hf) in E. subst s1.
      destruct (par_loop facts fluxes d nrm vars rest st) as [[s2 cols]|] eqn:E2; [|discriminate].
      destruct (IH _ _ _ Hf E2) as [-> Hm].
      intros H; injection H as <- <-. split; [reflexivity|]. cbn [map fst]. f_equal. exact Hm.
  Qed.

  (** sequential execution on the caller's model = every worker on a private copy; the caller's
      model is left as it was *)
  Lemma resp_seq_eq_par d nrm y0 scan st :
    f_worker_prog facts = worker_prog_expected ->
    NoDup (keys (st_pars st)) -> NoDup (keys (st_inits st)) ->
    resp_seq facts d nrm y0 scan st = resp_par facts d nrm y0 scan st.
  Proof.
    intros Hf Hnp Hni. unfold resp_par. induction scan as [|p rest IH]; [reflexivity|].
    cbn [resp_seq opt_map].
    destruct (worker facts d nrm y0 p st) as [[s1 rg]|] eqn:E; cbn [option_map snd].
    - assert (s1 = st).
      { unfold worker in E. rewrite Hf in E.
        destruct (worker_prog_restores _ _ _ _ _ _ _ _ Hnp Hni E) as [-> _]. reflexivity. }
      subst s1. rewrite IH. destruct (opt_map _ rest) as [rs|]; reflexivity.
    - reflexivity.
  Qed.

  Lemma resp_seq_restores d nrm y0 scan st st' rs :
    f_worker_prog facts = worker_prog_expected ->
    NoDup (keys (st_pars st)) -> NoDup (keys (st_inits st)) ->
    resp_seq facts d nrm y0 scan st = Some (st', rs) -> st' = st /\ map fst rs = scan.
  Proof.
    intros Hf Hnp Hni. revert st' rs. induction scan as [|p rest IH]; intros st' rs; cbn [resp_seq].
    - intros H; injection H as <- <-. split; reflexivity.
    - unfold worker at 1. rewrite Hf.
      destruct (exec_prog (f_quot facts) p y0 nrm d worker_prog_expected st regs0) as [[s1 rg]|] eqn:E; [|discriminate].
      destruct (worker_prog_restores _ _ _ _ _ _ _ _ Hnp Hni E) as [-> _].
      destruct (resp_seq facts d nrm y0 rest st) as [[s2 rs2]|] eqn:E2; [|discriminate].
      destruct (IH _ _ eq_refl) as [-> Hm].
      intros H; injection H as <- <-. split; [reflexivity|]. cbn [map fst]. f_equal. exact Hm.
  Qed.
End Whole.

(** the statement list of the worker before the repair does NOT restore the initial values *)
Lemma unrepaired_worker_changes_inits :
  exists p y0 st st' rg,
    NoDup (keys (st_pars st)) /\ NoDup (keys (st_inits st)) /\
    exec_prog QuotCentralRel p (Some y0) true (1 # 10000) worker_prog_unrepaired st regs0 = Some (st', rg) /\
    st_pars st' = st_pars st /\ st_inits st' <> st_inits st.
Proof.
  exists 200%N, [(100%N, 5)], (mkState [(200%N, 4); (201%N, 2)] [(100%N, 1)]).
  eexists. eexists. split; [|split; [|split; [vm_compute; reflexivity|split; [reflexivity|]]]].
  - repeat constructor; cbn; intuition discriminate.
  - repeat constructor; cbn; intuition.
  - cbn. intros H. discriminate H.
Qed.

(** the same statements for a fact record whose programs are the expected ones *)
Lemma var_prog_pure_facts facts : f_var_prog facts = var_prog_expected ->
  forall q p y0 nrm d st st' rg,
    exec_prog q p y0 nrm d (f_var_prog facts) st regs0 = Some (st', rg) -> st' = st.
Proof. intros ->. exact var_prog_pure. Qed.

Lemma worker_restores_facts facts : f_worker_prog facts = worker_prog_expected ->
  forall p y0 nrm d st st' rg,
    NoDup (keys (st_pars st)) -> NoDup (keys (st_inits st)) ->
    worker facts d nrm y0 p st = Some (st', rg) ->
    st' = st /\ exists old, get p (st_pars st) = Some old /\ r_old rg = Some old /\
      r_obs rg =
        (let i := match y0 with Some y => set_all y (st_inits st) | None => st_inits st end in
         [mkState (set p (disp_up (f_quot facts) old d) (st_pars st)) i;
          mkState (set p (disp_lo (f_quot facts) old d) (st_pars st)) i]
         ++ (if nrm then [mkState (st_pars st) i] else [])).
Proof. unfold worker. intros ->. exact (worker_prog_restores (f_quot facts)). Qed.

Lemma worker_total_facts facts : f_worker_prog facts = worker_prog_expected ->
  forall p y0 nrm d st old,
    NoDup (keys (st_pars st)) -> NoDup (keys (st_inits st)) -> get p (st_pars st) = Some old ->
    (forall y, y0 = Some y -> forallb (fun kv => has (fst kv) (st_inits st)) y = true) ->
    exists rg, worker facts d nrm y0 p st = Some (st, rg).
Proof. unfold worker. intros ->. exact (worker_prog_total (f_quot facts)). Qed.
