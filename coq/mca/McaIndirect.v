(** C18, 4th pass -- parameters that act INDIRECTLY (model only, no proofs in this file).

    1. COMPUTED PARAMETERS.  A derived parameter ([add_derived] whose arguments are all parameters:
       kr = kf / keq, vmax = kcat * e_tot) and a parameter given by an InitialAssignment
       (k1 := kcat * e_tot) are both recomputed from the base parameter values whenever the model
       cache is rebuilt -- which [update_parameters] forces.  [resolve] appends them to the base
       parameter values, in order; [ifluxes] is [get_fluxes] of a power-law network whose reactions
       may read them.  It is an instance of the Section variable [fluxes] of Mca.v, so
       [par_elast facts (ifluxes cps net)] IS the routine of the tree on such a model (the harness
       compares it cell by cell with the implementation).

    2. REGRESSION MODEL of seeded change C18-7: parameter_elasticities written like
       variable_elasticities -- the displaced value is handed over in the `variables` dict
       (`variables | {par: value}`), the model is not updated.  The entry overrides the parameter in
       the argument dict, the computed parameters keep the values of the cache: [ovr_column].

    3. REGRESSION MODEL of seeded change C18-8: initial values that are ASSIGNMENTS ([IPar p] = the
       value of parameter p), a worker that snapshots either the raw initial values of the overridden
       variables ([SaveRawOfY0], the tree) or the evaluated initial conditions of all variables
       ([SaveAllEvaluated], the seeded shape) before applying y0, and restores the snapshot at the end.

    4. REGRESSION MODEL of seeded change C18-9: response_coefficients that does not run the worker
       for the parameters in a set `unused` and fills their columns with 0 ([skip_result]). *)
From Coq Require Import QArith List NArith Bool.
From MxlBase Require Import ListX.
From Mca Require Import Mca.
Import ListNotations.
Open Scope Q_scope.

(* ------------------------------------------------------------------------------------- *)
(** * 1. computed parameters *)

(** name, numerator monomial, denominator monomial (over base parameters and EARLIER computed ones) *)
Definition cpar := (name * plrxn * plrxn)%type.

Fixpoint resolve (cps : list cpar) (pars : alist) : option alist :=
  match cps with
  | [] => Some pars
  | (nm, num, den) :: t =>
      match prod_factors (fun a => get a pars) num, prod_factors (fun a => get a pars) den with
      | Some u, Some w => if Qeq_bool w 0 then None else resolve t (pars ++ [(nm, u / w)])
      | _, _ => None
      end
  end.

Definition ifluxes (cps : list cpar) (net : list plrxn) (pars vars : alist) : option (list Q) :=
  match resolve cps pars with
  | Some all => pl_fluxes net all vars
  | None => None
  end.

(** does some reaction read the name directly? *)
Definition reads (p : name) (net : list plrxn) : bool :=
  existsb (fun fs => existsb (fun an => N.eqb (fst an) p) fs) net.

(* ------------------------------------------------------------------------------------- *)
(** * 2. seeded C18-7: the displaced parameter value travels in the `variables` dict *)

Section Override.
  Variable facts : mca_facts.
  Variable fluxes : alist -> alist -> option (list Q).

  Definition ovr_column (d : Q) (normalized : bool) (pars vars : alist) (p : name) : option (list cell) :=
    match get p pars with
    | None => None
    | Some old =>
        match fluxes pars (merge p (disp_up (f_quot facts) old d) vars),
              fluxes pars (merge p (disp_lo (f_quot facts) old d) vars) with
        | Some up, Some lo =>
            if normalized then
              match fluxes pars vars with
              | Some base => Some (column facts up lo base old d true)
              | None => None
              end
            else Some (column facts up lo lo old d false)
        | _, _ => None
        end
    end.

  Definition par_elast_ovr (d : Q) (normalized : bool) (variables : option alist) (to_scan : list name)
             (st : mstate) : option (list (name * list cell)) :=
    let vars := match variables with Some v => v | None => st_inits st end in
    opt_map (fun p => option_map (fun c => (p, c)) (ovr_column d normalized (st_pars st) vars p)) to_scan.
End Override.

(* ------------------------------------------------------------------------------------- *)
(** * 3. seeded C18-8: initial values that are assignments *)

Inductive ival := INum (q : Q) | IPar (p : name).
Definition ilist := list (name * ival).

Fixpoint iget (k : name) (l : ilist) : option ival :=
  match l with
  | [] => None
  | (k', v) :: t => if N.eqb k k' then Some v else iget k t
  end.
Fixpoint iset (k : name) (v : ival) (l : ilist) : ilist :=
  match l with
  | [] => []
  | (k', v') :: t => if N.eqb k k' then (k', v) :: t else (k', v') :: iset k v t
  end.
Definition iset_all (upd : ilist) (l : ilist) : ilist := fold_left (fun acc kv => iset (fst kv) (snd kv) acc) upd l.

Record istate := mkIState { is_pars : alist ; is_inits : ilist }.

(** get_initial_conditions(): every assignment evaluated with the current parameter values *)
Definition ieval (pars : alist) (l : ilist) : option alist :=
  opt_map (fun kv => match snd kv with
                     | INum q => Some (fst kv, q)
                     | IPar p => option_map (fun v => (fst kv, v)) (get p pars)
                     end) l.

Definition numbers (y : alist) : ilist := map (fun kv => (fst kv, INum (snd kv))) y.

Inductive save_kind := SaveRawOfY0 | SaveAllEvaluated.

Definition isave (sk : save_kind) (y0 : alist) (st : istate) : option ilist :=
  match sk with
  | SaveRawOfY0 => opt_map (fun kv => option_map (fun v => (fst kv, v)) (iget (fst kv) (is_inits st))) y0
  | SaveAllEvaluated => option_map numbers (ieval (is_pars st) (is_inits st))
  end.

(** what a steady-state run sees *)
Definition iobserve (st : istate) : option mstate :=
  option_map (mkState (is_pars st)) (ieval (is_pars st) (is_inits st)).

(** the worker, straight line: read old; snapshot; apply y0; up, run; down, run; back, (run);
    restore the snapshot *)
Definition iworker (sk : save_kind) (q : quot_kind) (d : Q) (normalized : bool) (y0 : option alist)
           (p : name) (st : istate) : option (istate * list mstate) :=
  match get p (is_pars st) with
  | None => None
  | Some old =>
      match (match y0 with None => Some [] | Some y => isave sk y st end) with
      | None => None
      | Some sv =>
          let inits1 := match y0 with None => is_inits st | Some y => iset_all (numbers y) (is_inits st) end in
          let at_ v := mkIState (set p v (is_pars st)) inits1 in
          match iobserve (at_ (disp_up q old d)), iobserve (at_ (disp_lo q old d)), iobserve (at_ old) with
          | Some o1, Some o2, Some o3 =>
              Some (mkIState (set p old (is_pars st))
                             (match y0 with None => inits1 | Some _ => iset_all sv inits1 end),
                    [o1; o2] ++ (if normalized then [o3] else []))
          | _, _, _ => None
          end
      end
  end.

Fixpoint iseq (sk : save_kind) (q : quot_kind) (d : Q) (normalized : bool) (y0 : option alist)
         (to_scan : list name) (st : istate) : option (istate * list (name * list mstate)) :=
  match to_scan with
  | [] => Some (st, [])
  | p :: rest =>
      match iworker sk q d normalized y0 p st with
      | Some (st', obs) =>
          match iseq sk q d normalized y0 rest st' with
          | Some (st'', rs) => Some (st'', (p, obs) :: rs)
          | None => None
          end
      | None => None
      end
  end.

(** every task on a copy of the caller's model *)
Definition ipar (sk : save_kind) (q : quot_kind) (d : Q) (normalized : bool) (y0 : option alist)
           (to_scan : list name) (st : istate) : option (list (name * list mstate)) :=
  opt_map (fun p => option_map (fun r => (p, snd r)) (iworker sk q d normalized y0 p st)) to_scan.

Definition ival_eqb (a b : ival) : bool :=
  match a, b with
  | INum x, INum y => Qeq_bool x y
  | IPar p, IPar r => N.eqb p r
  | _, _ => false
  end.
Definition istate_eqb (a b : istate) : bool :=
  alist_eqb (is_pars a) (is_pars b) &&
  list_eqb (fun x y => N.eqb (fst x) (fst y) && ival_eqb (snd x) (snd y)) (is_inits a) (is_inits b).
Definition obs_eqb (a b : list (name * list mstate)) : bool :=
  list_eqb (fun x y => N.eqb (fst x) (fst y) && list_eqb state_eqb (snd x) (snd y)) a b.

(* ------------------------------------------------------------------------------------- *)
(** * 4. seeded C18-9: parameters in `unused` are not run, their columns are 0 *)

Definition zero_row (n : nat) : list cell := repeat (Some 0) n.

Definition skip_result (unused to_scan : list name) (n_conc n_flux : nat)
           (run : list name -> option (list (name * (list cell * list cell))))
  : option (list (name * (list cell * list cell))) :=
  let active := filter (fun p => negb (existsb (N.eqb p) unused)) to_scan in
  match run active with
  | None => None
  | Some res =>
      Some (map (fun p => match find (fun r => N.eqb (fst r) p) res with
                          | Some r => r
                          | None => (p, (zero_row n_conc, zero_row n_flux))
                          end) to_scan)
  end.

Definition columns_eqb (a b : list (name * (list cell * list cell))) : bool :=
  list_eqb (fun x y => N.eqb (fst x) (fst y) && list_eqb cell_eqb (fst (snd x)) (fst (snd y))
                       && list_eqb cell_eqb (snd (snd x)) (snd (snd y))) a b.
