(** C18 -- sequential = parallel for EVERY schedule of the pool, from the routine's structure:
    response_coefficients hands [partial(_response_coefficient_worker, model=model, ...)] and the list
    of parameter names to [parallelise]; a task is the worker applied to (the model object the
    function carries, one parameter name).  Sequentially all tasks share the caller's model object;
    in a pool every chunk of tasks shares one unpickled copy.  Because every task hands its model
    back as it received it (parameters AND initial values -- the part repaired in d0000dc), a task
    is a function of (model content, parameter) only and the schedule cannot be observed. *)
From Coq Require Import QArith List NArith Bool Lia.
From MxlBase Require Import ListX.
From Mca Require Import Mca McaRestore.
Import ListNotations.
Open Scope Q_scope.

Section Sched.
  Variable facts : mca_facts.
  Hypothesis Hf : f_worker_prog facts = worker_prog_expected.

  Lemma resp_seq_app d nrm y0 a b st :
    NoDup (keys (st_pars st)) -> NoDup (keys (st_inits st)) ->
    resp_seq facts d nrm y0 (a ++ b) st =
    match resp_seq facts d nrm y0 a st, resp_seq facts d nrm y0 b st with
    | Some (_, ra), Some (_, rb) => Some (st, ra ++ rb)
    | _, _ => None
    end.
  Proof.
    intros Hnp Hni. induction a as [|p a IH]; cbn [app resp_seq].
    - destruct (resp_seq facts d nrm y0 b st) as [[s rb]|] eqn:E; [|reflexivity].
      destruct (resp_seq_restores facts d nrm y0 b st s rb Hf Hnp Hni E) as [-> _]. reflexivity.
    - destruct (worker facts d nrm y0 p st) as [[s1 rg]|] eqn:E; [|reflexivity].
      assert (s1 = st).
      { unfold worker in E. rewrite Hf in E.
        destruct (worker_prog_restores _ _ _ _ _ _ _ _ Hnp Hni E) as [-> _]. reflexivity. }
      subst s1. rewrite IH.
      destruct (resp_seq facts d nrm y0 a st) as [[sa ra]|]; [|reflexivity].
      destruct (resp_seq facts d nrm y0 b st) as [[sb rb]|]; reflexivity.
  Qed.

  (** any chunking of the inputs returns what the sequential run returns *)
  Theorem resp_chunks_eq_seq d nrm y0 chunks st :
    NoDup (keys (st_pars st)) -> NoDup (keys (st_inits st)) ->
    resp_chunks facts d nrm y0 chunks st
    = option_map snd (resp_seq facts d nrm y0 (concat chunks) st).
  Proof.
    intros Hnp Hni. induction chunks as [|c rest IH]; [reflexivity|].
    cbn [resp_chunks concat]. rewrite (resp_seq_app d nrm y0 c (concat rest) st Hnp Hni), IH.
    destruct (resp_seq facts d nrm y0 c st) as [[sc rc]|]; [|reflexivity].
    destruct (resp_seq facts d nrm y0 (concat rest) st) as [[sr rr]|]; reflexivity.
  Qed.

  (** ... and every task of every schedule is the worker on a fresh copy of the caller's model *)
  Theorem resp_chunks_tasks_independent d nrm y0 chunks st :
    NoDup (keys (st_pars st)) -> NoDup (keys (st_inits st)) ->
    resp_chunks facts d nrm y0 chunks st
    = opt_map (fun p => option_map (fun r => (p, snd r)) (worker facts d nrm y0 p st)) (concat chunks).
  Proof.
    intros Hnp Hni. rewrite (resp_chunks_eq_seq d nrm y0 chunks st Hnp Hni).
    rewrite (resp_seq_eq_par facts d nrm y0 (concat chunks) st Hf Hnp Hni). unfold resp_par.
    destruct (opt_map _ (concat chunks)); reflexivity.
  Qed.
End Sched.

(** the parallel run of the model is the schedule of singleton chunks (no hypothesis needed) *)
Lemma resp_par_is_singleton_chunks facts d nrm y0 scan st :
  resp_par facts d nrm y0 scan st
  = option_map (fun rs => (st, rs)) (resp_chunks facts d nrm y0 (map (fun p => [p]) scan) st).
Proof.
  unfold resp_par. f_equal. induction scan as [|p rest IH]; [reflexivity|].
  cbn [map resp_chunks opt_map resp_seq]. rewrite <- IH.
  destruct (worker facts d nrm y0 p st) as [[s1 rg]|]; cbn [option_map snd]; [|reflexivity].
  destruct (opt_map _ rest); reflexivity.
Qed.

(* ------------------------------------------------------------------ regression witnesses *)

(** the worker BEFORE d0000dc (y0 applied, never restored): the sequential run hands the caller's
    model back changed, the pool does not -- the two executions are distinguishable *)
Definition facts_unrepaired : mca_facts := mkFacts [] [] [] worker_prog_unrepaired QuotCentralRel.

Lemma unrepaired_seq_differs_from_par :
  exists d nrm y0 scan st st' rs rs',
    NoDup (keys (st_pars st)) /\ NoDup (keys (st_inits st)) /\
    resp_seq facts_unrepaired d nrm (Some y0) scan st = Some (st', rs) /\
    resp_par facts_unrepaired d nrm (Some y0) scan st = Some (st, rs') /\
    st_inits st' <> st_inits st.
Proof.
  exists (1 # 10000), true, [(100%N, 5)], [200%N; 201%N], (mkState [(200%N, 4); (201%N, 2)] [(100%N, 1)]).
  eexists. eexists. eexists.
  split; [|split; [|split; [vm_compute; reflexivity|split; [vm_compute; reflexivity|]]]].
  - repeat constructor; cbn; intuition discriminate.
  - repeat constructor; cbn; intuition.
  - cbn. intros H. discriminate H.
Qed.

(** a worker that forms the quotients AFTER the reset (the lazy result views re-apply the
    parameters of the lower run; seeded change C18-2): unscaled, the second task of a sequential run
    starts from a perturbed model, the second task of a pool does not -- different observations,
    hence different coefficients *)
Definition worker_prog_views_after_reset : list stmt :=
  [SReadOld; SSaveY0; SApplyY0; SSetPar Up; SObserve; SSetPar Down; SObserve; SSetPar Back;
   SObserveIfNorm; SRestoreY0; SView 0; SView 1; SView 0; SView 1; SViewIfNorm 2; SViewIfNorm 2].
Definition facts_views_after_reset : mca_facts :=
  mkFacts [] [] [] worker_prog_views_after_reset QuotCentralRel.

Lemma views_after_reset_seq_differs_from_par :
  exists d scan st st' rs rs',
    NoDup (keys (st_pars st)) /\ NoDup (keys (st_inits st)) /\
    resp_seq facts_views_after_reset d false None scan st = Some (st', rs) /\
    resp_par facts_views_after_reset d false None scan st = Some (st, rs') /\
    st_pars st' <> st_pars st /\
    map (fun r => r_obs (snd r)) rs <> map (fun r => r_obs (snd r)) rs'.
Proof.
  exists (1 # 4), [200%N; 201%N], (mkState [(200%N, 4); (201%N, 2)] [(100%N, 1)]).
  eexists. eexists. eexists.
  split; [|split; [|split; [vm_compute; reflexivity|split; [vm_compute; reflexivity|split]]]].
  - repeat constructor; cbn; intuition discriminate.
  - repeat constructor; cbn; intuition.
  - cbn. intros H. discriminate H.
  - cbn. intros H. discriminate H.
Qed.
