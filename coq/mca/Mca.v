(** C18 -- executable model of src/mxlpy/mca.py (no proofs in this file).

    Values are exact rationals ([Q]); a coefficient cell is [option Q] where [None] stands for
    the non-finite floats (NaN / +-inf) that NumPy produces for x/0.  Python dicts are
    insertion-ordered association lists with unique keys.  The model is layered:

    - [coef_cell]           the difference quotient + optional scaling shared by all three routines
                            ((upper - lower) / (2 * displacement * old)   [ * old / base ]);
    - [exec_prog]           the MODEL-TOUCHING skeleton of a routine as a small statement list that
                            is REGENERATED from the source (GenMcaFacts.v): read old value, save /
                            apply / restore y0, set the parameter up / down / back, observations
                            (get_fluxes / steady state), lazy result views that re-apply the
                            parameters of the run they belong to;
    - [var_elast], [par_elast], [resp_seq], [resp_par]   the routines;
    - [pl_fluxes]           power-law networks  v_r = prod_a env(a)^(n_ra)  (rate constants are
                            factors of order 1), used for the correspondence and the theorems. *)
From Coq Require Import QArith Qabs List NArith Bool.
From MxlBase Require Import ListX.
Import ListNotations.
Open Scope Q_scope.

Definition name := N.
Definition alist := list (name * Q).

Fixpoint get (k : name) (l : alist) : option Q :=
  match l with
  | [] => None
  | (k', v) :: t => if N.eqb k k' then Some v else get k t
  end.

(** [update_parameter] / [update_variable] on an existing key (position kept) *)
Fixpoint set (k : name) (v : Q) (l : alist) : alist :=
  match l with
  | [] => []
  | (k', v') :: t => if N.eqb k k' then (k', v) :: t else (k', v') :: set k v t
  end.

Definition has (k : name) (l : alist) : bool := match get k l with Some _ => true | None => false end.
Definition keys (l : alist) : list name := map fst l.

(** [variables | {k: v}] *)
Definition merge (k : name) (v : Q) (l : alist) : alist := if has k l then set k v l else l ++ [(k, v)].

(** [update_parameters(d)] / [update_variables(d)] : one [set] per item, in order *)
Definition set_all (upd : alist) (l : alist) : alist := fold_left (fun acc kv => set (fst kv) (snd kv) acc) upd l.

Record mstate := mkState { st_pars : alist ; st_inits : alist }.

(* ------------------------------------------------------------------------------------- *)
(** * the shared difference quotient *)

Definition cell := option Q.
Definition xdiv (a b : Q) : cell := if Qeq_bool b 0 then None else Some (a / b).
Definition xmul (a : cell) (b : cell) : cell :=
  match a, b with Some x, Some y => Some (x * y) | _, _ => None end.

(** [(upper - lower) / (2 * displacement * old)], then [*= old / base] when normalised *)
Definition coef_cell (up lo base old d : Q) (normalized : bool) : cell :=
  let raw := xdiv (up - lo) (2 * d * old) in
  if normalized then xmul raw (xdiv old base) else raw.

(** The DISPLACEMENT RULE is a regenerated fact ([f_quot] below):
    - [QuotCentralRel]      the two points are old * (1 +- d), the quotient divides by 2 * d * old
                            (every routine of the tree up to and including d0000dc);
    - [QuotCentralRelAbs0]  the same through the helper [_displace(value, displacement)], which
                            displaces a value that is exactly 0 by +-d in ABSOLUTE terms and divides
                            by 2 * d (fixes/C18-zero-state.diff);
    - [QuotUnknown]         anything else (breaks C18_facts_pinned; computed like QuotCentralRel). *)
Inductive quot_kind := QuotCentralRel | QuotCentralRelAbs0 | QuotUnknown.

Definition disp_up (q : quot_kind) (old d : Q) : Q :=
  match q with
  | QuotCentralRelAbs0 => if Qeq_bool old 0 then d else old * (1 + d)
  | _ => old * (1 + d)
  end.
Definition disp_lo (q : quot_kind) (old d : Q) : Q :=
  match q with
  | QuotCentralRelAbs0 => if Qeq_bool old 0 then - d else old * (1 - d)
  | _ => old * (1 - d)
  end.
Definition disp_width (q : quot_kind) (old d : Q) : Q :=
  match q with
  | QuotCentralRelAbs0 => if Qeq_bool old 0 then 2 * d else 2 * d * old
  | _ => 2 * d * old
  end.

(** [(upper - lower) / distance], then [*= old / base] when normalised *)
Definition coef_cell_q (q : quot_kind) (up lo base old d : Q) (normalized : bool) : cell :=
  let raw := xdiv (up - lo) (disp_width q old d) in
  if normalized then xmul raw (xdiv old base) else raw.

(** REGRESSION MODEL (not a rule the extractor ever regenerates; an edited helper gives
    [QuotUnknown]): a helper [_displace] that tests closeness to zero with an absolute tolerance,
        if math.isclose(value, 0.0, abs_tol=tol): return displacement, -displacement, 2 * displacement
    instead of  value == 0.  [math.isclose(v, 0, abs_tol=t)] is  |v| <= max(1e-9 |v|, t),  i.e.
    |v| <= t  for t >= 0.  With tol = 0 this is the helper of the tree ([QuotCentralRelAbs0]). *)
Definition near0 (tol x : Q) : bool := Qle_bool (Qabs x) tol.
Definition disp_up_tol (tol old d : Q) : Q := if near0 tol old then d else old * (1 + d).
Definition disp_lo_tol (tol old d : Q) : Q := if near0 tol old then - d else old * (1 - d).
Definition disp_width_tol (tol old d : Q) : Q := if near0 tol old then 2 * d else 2 * d * old.
Definition coef_cell_tol (tol up lo base old d : Q) (normalized : bool) : cell :=
  let raw := xdiv (up - lo) (disp_width_tol tol old d) in
  if normalized then xmul raw (xdiv old base) else raw.

(* ------------------------------------------------------------------------------------- *)
(** * model-touching statements (regenerated from the source) *)

Inductive which := Up | Down | Back.

Inductive stmt :=
| SReadOld                 (* old = model.get_parameter_values()[parameter] *)
| SSaveY0                  (* if y0 is not None: remember the initial values y0 is about to replace *)
| SApplyY0                 (* if y0 is not None: model.update_variables(y0) *)
| SSetPar (w : which)      (* model.update_parameters({parameter: old * (1 +- displacement) | old}) *)
| SObserve                 (* model.get_fluxes(...) / _steady_state_worker(model, ..., y0=None) *)
| SObserveIfNorm           (* the same inside `if normalized:` *)
| SView (i : nat)          (* first access of <i-th steady-state result>.variables/.fluxes: the lazy
                              view calls model.update_parameters(<parameters of that run>) *)
| SViewIfNorm (i : nat)
| SRestoreY0               (* if y0 is not None: model.update_variables(<saved>) *)
| SUnknown.                (* anything touching the model that the extractor does not recognise *)

Definition which_eqb (a b : which) : bool :=
  match a, b with Up, Up | Down, Down | Back, Back => true | _, _ => false end.
Definition stmt_eqb (a b : stmt) : bool :=
  match a, b with
  | SReadOld, SReadOld | SSaveY0, SSaveY0 | SApplyY0, SApplyY0 | SObserve, SObserve
  | SObserveIfNorm, SObserveIfNorm | SRestoreY0, SRestoreY0 | SUnknown, SUnknown => true
  | SSetPar x, SSetPar y => which_eqb x y
  | SView i, SView j | SViewIfNorm i, SViewIfNorm j => Nat.eqb i j
  | _, _ => false
  end.

Record regs := mkRegs {
  r_old : option Q ;
  r_saved : option alist ;
  r_obs : list mstate ;       (* the model content at each observation, in order *)
  r_viewed : list nat          (* result views already computed (raw_args cached) *)
}.
Definition regs0 : regs := mkRegs None None [] [].

Definition perturbed (q : quot_kind) (w : which) (old d : Q) : Q :=
  match w with Up => disp_up q old d | Down => disp_lo q old d | Back => old end.

Definition view (i : nat) (st : mstate) (rg : regs) : option (mstate * regs) :=
  if existsb (Nat.eqb i) (r_viewed rg) then Some (st, rg)
  else match nth_error (r_obs rg) i with
       | None => None
       | Some s => Some (mkState (set_all (st_pars s) (st_pars st)) (st_inits st),
                         mkRegs (r_old rg) (r_saved rg) (r_obs rg) (i :: r_viewed rg))
       end.

Definition save_y0 (y : alist) (inits : alist) : option alist :=
  fold_right (fun kv acc => match acc, get (fst kv) inits with
                            | Some a, Some v => Some ((fst kv, v) :: a)
                            | _, _ => None end) (Some []) y.

(** one statement; [None] = the Python code raises (KeyError / NameError) *)
Definition exec_stmt (q : quot_kind) (p : name) (y0 : option alist) (normalized : bool) (d : Q)
           (s : stmt) (st : mstate) (rg : regs) : option (mstate * regs) :=
  match s with
  | SReadOld =>
      match get p (st_pars st) with
      | Some v => Some (st, mkRegs (Some v) (r_saved rg) (r_obs rg) (r_viewed rg))
      | None => None
      end
  | SSaveY0 =>
      match y0 with
      | None => Some (st, rg)
      | Some y => match save_y0 y (st_inits st) with
                  | Some sv => Some (st, mkRegs (r_old rg) (Some sv) (r_obs rg) (r_viewed rg))
                  | None => None
                  end
      end
  | SApplyY0 =>
      match y0 with
      | None => Some (st, rg)
      | Some y => if forallb (fun kv => has (fst kv) (st_inits st)) y
                  then Some (mkState (st_pars st) (set_all y (st_inits st)), rg)
                  else None
      end
  | SSetPar w =>
      match r_old rg with
      | Some old => if has p (st_pars st)
                    then Some (mkState (set p (perturbed q w old d) (st_pars st)) (st_inits st), rg)
                    else None
      | None => None
      end
  | SObserve => Some (st, mkRegs (r_old rg) (r_saved rg) (r_obs rg ++ [st]) (r_viewed rg))
  | SObserveIfNorm =>
      if normalized then Some (st, mkRegs (r_old rg) (r_saved rg) (r_obs rg ++ [st]) (r_viewed rg))
      else Some (st, rg)
  | SView i => view i st rg
  | SViewIfNorm i => if normalized then view i st rg else Some (st, rg)
  | SRestoreY0 =>
      match y0 with
      | None => Some (st, rg)
      | Some _ => match r_saved rg with
                  | Some sv => Some (mkState (st_pars st) (set_all sv (st_inits st)), rg)
                  | None => None
                  end
      end
  | SUnknown => None
  end.

Fixpoint exec_prog (q : quot_kind) (p : name) (y0 : option alist) (normalized : bool) (d : Q)
         (prog : list stmt) (st : mstate) (rg : regs) : option (mstate * regs) :=
  match prog with
  | [] => Some (st, rg)
  | s :: rest =>
      match exec_stmt q p y0 normalized d s st rg with
      | Some (st', rg') => exec_prog q p y0 normalized d rest st' rg'
      | None => None
      end
  end.

(** what is regenerated from src/mxlpy/mca.py *)
Record mca_facts := mkFacts {
  f_disp : list Q ;             (* `displacement` defaults of the worker and the three public routines *)
  f_var_prog : list stmt ;      (* model-touching statements of one iteration of variable_elasticities *)
  f_par_prog : list stmt ;      (* ... of one iteration of parameter_elasticities *)
  f_worker_prog : list stmt ;   (* ... of _response_coefficient_worker *)
  f_quot : quot_kind            (* the displacement rule shared by all three routines: the two points,
                                   the divisor of every quotient; every scaling is  *= old / <unperturbed> *)
}.

(* ------------------------------------------------------------------------------------- *)
(** * the routines, generic in the flux function / steady-state function *)

Section Routines.
  Variable facts : mca_facts.
  (** model.get_fluxes(variables=vars) under parameters [pars]: one value per reaction *)
  Variable fluxes : alist -> alist -> option (list Q).
  (** _steady_state_worker(model, y0=None): last row of variables and of fluxes; [None] = failed (NaN row) *)
  Variable ss : alist -> alist -> option (list Q * list Q).

  Fixpoint zip3 (a b c : list Q) : list (Q * Q * Q) :=
    match a, b, c with
    | x :: a', y :: b', z :: c' => (x, y, z) :: zip3 a' b' c'
    | _, _, _ => []
    end.

  Definition column (up lo base : list Q) (old d : Q) (normalized : bool) : list cell :=
    map (fun t => match t with (u, l, b) => coef_cell_q (f_quot facts) u l b old d normalized end) (zip3 up lo base).

  (** variable_elasticities: pure, the model is only read *)
  Definition var_column (d : Q) (normalized : bool) (pars vars : alist) (x : name) : option (list cell) :=
    match get x vars with
    | None => None
    | Some old =>
        match fluxes pars (merge x (disp_up (f_quot facts) old d) vars),
              fluxes pars (merge x (disp_lo (f_quot facts) old d) vars) with
        | Some up, Some lo =>
            if normalized then
              match fluxes pars vars with
              | Some base => Some (column up lo base old d true)
              | None => None
              end
            else Some (column up lo lo old d false)
        | _, _ => None
        end
    end.

  Fixpoint opt_map {A B} (f : A -> option B) (l : list A) : option (list B) :=
    match l with
    | [] => Some []
    | x :: t => match f x, opt_map f t with Some y, Some ys => Some (y :: ys) | _, _ => None end
    end.

  Definition var_elast (d : Q) (normalized : bool) (variables : option alist) (to_scan : list name)
             (st : mstate) : option (list (name * list cell)) :=
    let vars := match variables with Some v => v | None => st_inits st end in
    opt_map (fun x => option_map (fun c => (x, c)) (var_column d normalized (st_pars st) vars x)) to_scan.

  (** one iteration of parameter_elasticities *)
  Definition par_step (d : Q) (normalized : bool) (vars : alist) (p : name) (st : mstate)
    : option (mstate * list cell) :=
    match exec_prog (f_quot facts) p None normalized d (f_par_prog facts) st regs0 with
    | Some (st', rg) =>
        match r_old rg, r_obs rg with
        | Some old, s_up :: s_lo :: rest =>
            match fluxes (st_pars s_up) vars, fluxes (st_pars s_lo) vars with
            | Some up, Some lo =>
                if normalized then
                  match rest with
                  | s_b :: _ => match fluxes (st_pars s_b) vars with
                                | Some base => Some (st', column up lo base old d true)
                                | None => None
                                end
                  | [] => None
                  end
                else Some (st', column up lo lo old d false)
            | _, _ => None
            end
        | _, _ => None
        end
    | None => None
    end.

  Fixpoint par_loop (d : Q) (normalized : bool) (vars : alist) (to_scan : list name) (st : mstate)
    : option (mstate * list (name * list cell)) :=
    match to_scan with
    | [] => Some (st, [])
    | p :: rest =>
        match par_step d normalized vars p st with
        | Some (st', col) =>
            match par_loop d normalized vars rest st' with
            | Some (st'', cols) => Some (st'', (p, col) :: cols)
            | None => None
            end
        | None => None
        end
    end.

  Definition par_elast (d : Q) (normalized : bool) (variables : option alist) (to_scan : list name)
             (st : mstate) : option (mstate * list (name * list cell)) :=
    par_loop d normalized (match variables with Some v => v | None => st_inits st end) to_scan st.

  (** _response_coefficient_worker: final model content, the observations (trace) and the two columns *)
  Definition nan_row (n : nat) : list cell := repeat None n.

  Definition worker_columns (d : Q) (normalized : bool) (rg : regs) : option (list cell * list cell) :=
    match r_old rg, r_obs rg with
    | Some old, s_up :: s_lo :: rest =>
        let o s := ss (st_pars s) (st_inits s) in
        match o s_up, o s_lo with
        | Some (cu, fu), Some (cl, fl) =>
            if normalized then
              match rest with
              | s_b :: _ => match o s_b with
                            | Some (cb, fb) => Some (column cu cl cb old d true, column fu fl fb old d true)
                            | None => Some (nan_row (length cu), nan_row (length fu))
                            end
              | [] => None
              end
            else Some (column cu cl cl old d false, column fu fl fl old d false)
        | Some (cu, fu), None => Some (nan_row (length cu), nan_row (length fu))
        | None, Some (cl, fl) => Some (nan_row (length cl), nan_row (length fl))
        | None, None => Some ([], [])
        end
    | _, _ => None
    end.

  Definition worker (d : Q) (normalized : bool) (y0 : option alist) (p : name) (st : mstate)
    : option (mstate * regs) :=
    exec_prog (f_quot facts) p y0 normalized d (f_worker_prog facts) st regs0.

  (** response_coefficients(parallel=False): `map(worker, inputs)` on the caller's own model *)
  Fixpoint resp_seq (d : Q) (normalized : bool) (y0 : option alist) (to_scan : list name) (st : mstate)
    : option (mstate * list (name * regs)) :=
    match to_scan with
    | [] => Some (st, [])
    | p :: rest =>
        match worker d normalized y0 p st with
        | Some (st', rg) =>
            match resp_seq d normalized y0 rest st' with
            | Some (st'', rs) => Some (st'', (p, rg) :: rs)
            | None => None
            end
        | None => None
        end
    end.

  (** response_coefficients(parallel=True): every task receives a pickled copy of the caller's
      model; results come back in input order (pebble's ordered map); the caller's model is not touched *)
  Definition resp_par (d : Q) (normalized : bool) (y0 : option alist) (to_scan : list name) (st : mstate)
    : option (mstate * list (name * regs)) :=
    option_map (fun rs => (st, rs))
      (opt_map (fun p => option_map (fun r => (p, snd r)) (worker d normalized y0 p st)) to_scan).

  (** response_coefficients under an arbitrary SCHEDULE of the pool: the inputs are cut into chunks;
      every chunk is run on its own (pickled) copy of the caller's model, the tasks of one chunk one
      after the other on that copy (a worker process that keeps using the function object it
      unpickled); results come back in input order; the caller's model is not touched.
      [resp_par] is the schedule of singleton chunks (pebble's chunksize 1), the results of
      [resp_seq] are the schedule with one chunk. *)
  Fixpoint resp_chunks (d : Q) (normalized : bool) (y0 : option alist) (chunks : list (list name)) (st : mstate)
    : option (list (name * regs)) :=
    match chunks with
    | [] => Some []
    | c :: rest =>
        match resp_seq d normalized y0 c st, resp_chunks d normalized y0 rest st with
        | Some (_, rs), Some rs' => Some (rs ++ rs')
        | _, _ => None
        end
    end.

  Definition resp_result (d : Q) (normalized : bool) (rs : list (name * regs))
    : option (list (name * (list cell * list cell))) :=
    opt_map (fun pr => option_map (fun c => (fst pr, c)) (worker_columns d normalized (snd pr))) rs.
End Routines.

(* ------------------------------------------------------------------------------------- *)
(** * power-law networks *)

Fixpoint qpow (x : Q) (n : nat) : Q := match n with O => 1 | S m => x * qpow x m end.

(** a reaction is a list of (argument name, kinetic order); arguments are looked up among the
    variables first, then the parameters (args = all_parameter_values | variables) *)
Definition plrxn := list (name * nat).
Definition lookup (pars vars : alist) (a : name) : option Q :=
  match get a vars with Some v => Some v | None => get a pars end.

Fixpoint prod_factors (env : name -> option Q) (fs : plrxn) : option Q :=
  match fs with
  | [] => Some 1
  | (a, n) :: t => match env a, prod_factors env t with
                   | Some v, Some r => Some (qpow v n * r)
                   | _, _ => None
                   end
  end.

Definition pl_fluxes (net : list plrxn) (pars vars : alist) : option (list Q) :=
  opt_map (prod_factors (lookup pars vars)) net.

(** kinetic order of [a] in a reaction (occurrences add up) *)
Fixpoint order_of (a : name) (fs : plrxn) : nat :=
  match fs with
  | [] => O
  | (b, n) :: t => if N.eqb a b then (n + order_of a t)%nat else order_of a t
  end.

(** the exact value of the central difference of v^n with relative displacement d, divided by
    v^(n-1):  sdiff n (d*d) = ((1+d)^n - (1-d)^n) / (2 d) = n + C(n,3) d^2 + ...,  together with
    csum n (d*d) = ((1+d)^n + (1-d)^n) / 2 *)
Fixpoint sc (n : nat) (D : Q) : Q * Q :=
  match n with
  | O => (0, 1)
  | S m => let '(s, c) := sc m D in (s + c, c + D * s)
  end.
Definition sdiff (n : nat) (D : Q) : Q := fst (sc n D).
Definition csum (n : nat) (D : Q) : Q := snd (sc n D).
Fixpoint qnat (n : nat) : Q := match n with O => 0 | S m => qnat m + 1 end.

(** the same at a ZERO value with ABSOLUTE displacement (rule QuotCentralRelAbs0):
    (+-d)^n = zcsum n d^2 +- d * zdiff n d^2,  so  zdiff n (d*d) = (d^n - (-d)^n) / (2 d)
    = 0, 1, 0, d^2, 0, d^4, ...  -- the derivative of v^n at 0 is 0, 1, 0, 0, ... *)
Fixpoint zsc (n : nat) (D : Q) : Q * Q :=
  match n with
  | O => (0, 1)
  | S m => let '(s, c) := zsc m D in (c, D * s)
  end.
Definition zdiff (n : nat) (D : Q) : Q := fst (zsc n D).
Definition zcsum (n : nat) (D : Q) : Q := snd (zsc n D).

(* ------------------------------------------------------------------------------------- *)
(** * mass-action families with a closed-form steady state (what the harness generates for the
      response coefficients): the right-hand sides, written out *)

(** linear chain  -> x1 -> x2 -> ... -> xn ->  with v0 = k0 and v_i = k_i * x_i :
    fluxes and dx_i/dt = v_(i-1) - v_i for rate constants [ks] and concentrations [xs] *)
Fixpoint chain_fluxes (ks xs : list Q) : list Q :=
  match ks, xs with
  | k :: ks', x :: xs' => k * x :: chain_fluxes ks' xs'
  | _, _ => []
  end.
Fixpoint chain_rhs (vin : Q) (ks xs : list Q) : list Q :=
  match ks, xs with
  | k :: ks', x :: xs' => (vin - k * x) :: chain_rhs (k * x) ks' xs'
  | _, _ => []
  end.
Definition chain_steady (k0 : Q) (ks : list Q) : list Q := map (fun k => k0 / k) ks.

(** branch point  -> x  (v0 = k0),  x -> (v1 = k1 x),  x -> (v2 = k2 x) *)
Definition branch_rhs (k0 k1 k2 x : Q) : Q := k0 - k1 * x - k2 * x.
Definition branch_steady (k0 k1 k2 : Q) : Q := k0 / (k1 + k2).

(** conserved two-pool cycle  x0 <-> x1  (v0 = k0 x0, v1 = k1 x1), total T = x0 + x1 *)
Definition cycle_rhs (k0 k1 x0 x1 : Q) : Q * Q := (k1 * x1 - k0 * x0, k0 * x0 - k1 * x1).
Definition cycle_steady (k0 k1 T : Q) : Q * Q := (T * k1 / (k0 + k1), T * k0 / (k0 + k1)).

(** a quantity that depends on ONE parameter k as the Moebius function (a + b k) / (e + g k) *)
Definition moebius (a b e g k : Q) : Q := (a + b * k) / (e + g * k).

(* ------------------------------------------------------------------------------------- *)
(** * comparison helpers for the correspondence files *)

Definition cell_eqb (a b : cell) : bool :=
  match a, b with Some x, Some y => Qeq_bool x y | None, None => true | _, _ => false end.
Fixpoint list_eqb {A} (e : A -> A -> bool) (a b : list A) : bool :=
  match a, b with
  | [], [] => true
  | x :: a', y :: b' => e x y && list_eqb e a' b'
  | _, _ => false
  end.
Definition alist_eqb (a b : alist) : bool :=
  list_eqb (fun x y => N.eqb (fst x) (fst y) && Qeq_bool (snd x) (snd y)) a b.
Definition state_eqb (a b : mstate) : bool :=
  alist_eqb (st_pars a) (st_pars b) && alist_eqb (st_inits a) (st_inits b).
Definition table_eqb (a b : list (name * list cell)) : bool :=
  list_eqb (fun x y => N.eqb (fst x) (fst y) && list_eqb cell_eqb (snd x) (snd y)) a b.
