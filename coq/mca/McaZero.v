(** C18 -- the displacement rule at a ZERO value.

    [QuotCentralRel] (the tree up to d0000dc): old * (1 +- d) = 0, the quotient is 0/0 = NaN.
    [QuotCentralRelAbs0] (fixes/C18-zero-state.diff): +-d in absolute terms, divisor 2 d; everywhere
    else both rules are the same computation.  Exact algebra over Q. *)
From Coq Require Import QArith Qfield Lqa List Lia Morphisms NArith.
From Mca Require Import Mca McaAlgebra.
Open Scope Q_scope.

Lemma Qeq_bool_false x : ~ x == 0 -> Qeq_bool x 0 = false.
Proof.
  intros H. destruct (Qeq_bool x 0) eqn:E; [|reflexivity]. apply Qeq_bool_iff in E. contradiction.
Qed.

Lemma Qeq_bool_true x : x == 0 -> Qeq_bool x 0 = true.
Proof. intros H. apply Qeq_bool_iff. exact H. Qed.

(** off zero every rule is the relative one *)
Lemma disp_nonzero q x d : ~ x == 0 ->
  disp_up q x d = x * (1 + d) /\ disp_lo q x d = x * (1 - d) /\ disp_width q x d = 2 * d * x.
Proof.
  intros H. unfold disp_up, disp_lo, disp_width. destruct q; rewrite ?(Qeq_bool_false x H); repeat split.
Qed.

Lemma coef_cell_q_nonzero q up lo base x d nrm : ~ x == 0 ->
  coef_cell_q q up lo base x d nrm = coef_cell up lo base x d nrm.
Proof.
  intros H. unfold coef_cell_q, coef_cell. destruct (disp_nonzero q x d H) as [_ [_ ->]]. reflexivity.
Qed.

Lemma coef_cell_q_rel up lo base x d nrm :
  coef_cell_q QuotCentralRel up lo base x d nrm = coef_cell up lo base x d nrm.
Proof. reflexivity. Qed.

(** at zero the repaired rule is the absolute one *)
Lemma disp_zero x d : x == 0 ->
  disp_up QuotCentralRelAbs0 x d = d /\ disp_lo QuotCentralRelAbs0 x d = - d
  /\ disp_width QuotCentralRelAbs0 x d = 2 * d.
Proof.
  intros H. unfold disp_up, disp_lo, disp_width. rewrite (Qeq_bool_true x H). repeat split.
Qed.

(** the relative rule at a zero value: NaN, whatever the fluxes are *)
Lemma coef_cell_rel_zero up lo base x d nrm : x == 0 ->
  coef_cell_q QuotCentralRel up lo base x d nrm = None.
Proof.
  intros H. unfold coef_cell_q, disp_width. rewrite xdiv_zero by (rewrite H; ring).
  destruct nrm; reflexivity.
Qed.

(* ------------------------------------------------------------------ (+-d)^n *)

Lemma zdiff_S n D : zdiff (S n) D = zcsum n D.
Proof. unfold zdiff, zcsum. cbn [zsc]. destruct (zsc n D). reflexivity. Qed.
Lemma zcsum_S n D : zcsum (S n) D = D * zdiff n D.
Proof. unfold zdiff, zcsum. cbn [zsc]. destruct (zsc n D). reflexivity. Qed.
Lemma zdiff_0 D : zdiff 0 D = 0. Proof. reflexivity. Qed.
Lemma zcsum_0 D : zcsum 0 D = 1. Proof. reflexivity. Qed.

Lemma qpow_pm n d :
  qpow d n == zcsum n (d * d) + d * zdiff n (d * d) /\
  qpow (- d) n == zcsum n (d * d) - d * zdiff n (d * d).
Proof.
  induction n as [|n [A B]].
  - rewrite zdiff_0, zcsum_0. cbn [qpow]. split; ring.
  - rewrite zdiff_S, zcsum_S, !qpow_S, A, B. split; ring.
Qed.

Lemma qpow_compat x y n : x == y -> qpow x n == qpow y n.
Proof. intros H. induction n as [|n IH]; [reflexivity|]. rewrite !qpow_S, IH, H. reflexivity. Qed.

Global Instance qpow_proper : Proper (Qeq ==> eq ==> Qeq) qpow.
Proof. intros x y H n m <-. apply qpow_compat. exact H. Qed.

Lemma qpow_zero x n : x == 0 -> (1 <= n)%nat -> qpow x n == 0.
Proof. intros H Hn. destruct n as [|m]; [lia|]. rewrite qpow_S, H. ring. Qed.

(** numerator of the central difference of c * v^n at v = 0 with absolute displacement d *)
Lemma zd_numerator c d n :
  c * qpow d n - c * qpow (- d) n == 2 * d * (c * zdiff n (d * d)).
Proof. destruct (qpow_pm n d) as [A B]. rewrite A, B. ring. Qed.

Lemma two_d_nonzero d : ~ d == 0 -> ~ 2 * d == 0.
Proof. intros Hd H. apply Qmult_integral in H. destruct H as [H|H]; [discriminate|tauto]. Qed.

(** exactness at zero for orders <= 2: the derivative of v^n at 0 is  n * 0^(n-1) = 0, 1, 0 *)
Lemma zdiff_le2 n D : (n <= 2)%nat -> zdiff n D == qnat n * qpow 0 (pred n).
Proof.
  intros H. destruct n as [|[|[|n]]].
  - rewrite zdiff_0. cbn [qnat qpow pred]. ring.
  - rewrite zdiff_S, zcsum_0. cbn [qnat qpow pred]. ring.
  - rewrite zdiff_S, zcsum_S, zdiff_0. cbn [qnat qpow pred]. ring.
  - exfalso. lia.
Qed.

Lemma zsc_range n D : 0 <= D -> D <= 1 ->
  0 <= zdiff n D /\ zdiff n D <= 1 /\ 0 <= zcsum n D /\ zcsum n D <= 1.
Proof.
  intros H0 H1. induction n as [|n [A [B [C E]]]].
  - rewrite zdiff_0, zcsum_0. repeat split; lra.
  - rewrite zdiff_S, zcsum_S.
    assert (P : 0 <= D * zdiff n D) by (apply Qmult_le_0_compat; assumption).
    assert (Q1 : 0 <= (1 - D) * zdiff n D) by (apply Qmult_le_0_compat; lra).
    repeat split; lra.
Qed.

(** ... and for every higher order the error is at most d^2 (the derivative at 0 is 0) *)
Lemma zdiff_bound n D : 0 <= D -> D <= 1 -> (3 <= n)%nat -> 0 <= zdiff n D /\ zdiff n D <= D.
Proof.
  intros H0 H1 Hn. destruct n as [|[|[|m]]]; try lia.
  rewrite zdiff_S, zcsum_S. destruct (zsc_range (S m) D H0 H1) as [A [B _]].
  assert (P : 0 <= D * zdiff (S m) D) by (apply Qmult_le_0_compat; assumption).
  assert (Q1 : 0 <= D * (1 - zdiff (S m) D)) by (apply Qmult_le_0_compat; lra).
  split; lra.
Qed.

(* ------------------------------------------------------------------ the repaired cell at zero *)

(** unscaled: c * zdiff n d^2  (= the derivative c, 0 for n = 1, 2; 0 for n = 0; c d^(n-1) for odd n >= 3) *)
Theorem coef_cell_abs0_zero_unscaled c x d n base : x == 0 -> ~ d == 0 ->
  exists v,
    coef_cell_q QuotCentralRelAbs0
      (c * qpow (disp_up QuotCentralRelAbs0 x d) n) (c * qpow (disp_lo QuotCentralRelAbs0 x d) n)
      base x d false = Some v
    /\ v == c * zdiff n (d * d).
Proof.
  intros Hx Hd. destruct (disp_zero x d Hx) as [U [L W]]. unfold coef_cell_q. rewrite U, L, W.
  rewrite (xdiv_some _ _ (two_d_nonzero d Hd)). eexists. split; [reflexivity|].
  rewrite zd_numerator. field. exact Hd.
Qed.

(** scaled at zero: 0 when the flux does not vanish there (kinetic order 0), undefined (0/0, NaN)
    when it does (order >= 1: value/flux * derivative has no value at 0) *)
Theorem coef_cell_abs0_zero_scaled c x d n : x == 0 -> ~ d == 0 ->
  (n = 0%nat -> ~ c == 0 ->
     exists v, coef_cell_q QuotCentralRelAbs0
                 (c * qpow (disp_up QuotCentralRelAbs0 x d) n) (c * qpow (disp_lo QuotCentralRelAbs0 x d) n)
                 (c * qpow x n) x d true = Some v /\ v == 0)
  /\ ((1 <= n)%nat ->
      coef_cell_q QuotCentralRelAbs0
        (c * qpow (disp_up QuotCentralRelAbs0 x d) n) (c * qpow (disp_lo QuotCentralRelAbs0 x d) n)
        (c * qpow x n) x d true = None).
Proof.
  intros Hx Hd. destruct (disp_zero x d Hx) as [U [L W]]. unfold coef_cell_q. rewrite U, L, W.
  rewrite (xdiv_some _ _ (two_d_nonzero d Hd)). split.
  - intros -> Hc. cbn [qpow].
    assert (Hb : ~ c * 1 == 0) by (intro H; apply Hc; rewrite <- H; ring).
    rewrite (xdiv_some _ _ Hb). cbn [xmul]. eexists. split; [reflexivity|]. rewrite Hx. field.
    split; [exact Hc|exact Hd].
  - intros Hn. rewrite (xdiv_zero x (c * qpow x n)) by (rewrite (qpow_zero x n Hx Hn); ring).
    reflexivity.
Qed.

(** the unscaled coefficient of  c * v^n  under the repaired rule, at EVERY value x (no guard):
    the formula off zero, the formula at zero, and exactness for orders <= 2 in both cases *)
Theorem coef_cell_abs0_unscaled c x d n : ~ d == 0 ->
  exists v,
    coef_cell_q QuotCentralRelAbs0
      (c * qpow (disp_up QuotCentralRelAbs0 x d) n) (c * qpow (disp_lo QuotCentralRelAbs0 x d) n)
      (c * qpow x n) x d false = Some v
    /\ (~ x == 0 -> v == c * qpow x (pred n) * sdiff n (d * d))
    /\ (x == 0 -> v == c * zdiff n (d * d))
    /\ ((n <= 2)%nat -> v == c * qnat n * qpow x (pred n)).
Proof.
  intros Hd. destruct (Qeq_dec x 0) as [Hx|Hx].
  - destruct (coef_cell_abs0_zero_unscaled c x d n (c * qpow x n) Hx Hd) as [v [E V]].
    exists v. split; [exact E|]. split; [intros H; contradiction|]. split; [intros _; exact V|].
    intros Hn. rewrite V, (zdiff_le2 n _ Hn), (qpow_compat x 0 (pred n) Hx). ring.
  - destruct (disp_nonzero QuotCentralRelAbs0 x d Hx) as [U [L _]]. rewrite U, L.
    rewrite (coef_cell_q_nonzero _ _ _ _ _ _ _ Hx).
    destruct (coef_cell_power_law c x d n false Hx Hd) as [v [E V]]; [discriminate|].
    exists v. split; [exact E|]. split; [intros _; exact V|]. split; [intros H; contradiction|].
    intros Hn. rewrite V, (sdiff_le2 n _ Hn). ring.
Qed.

(** the error of the unscaled coefficient under the repaired rule, for every order, with
    0 < d^2 <= 1:  v = c * x^(n-1) * (n + e), 0 <= e <= 2^n d^2 off zero;
                   v = c * e,                 0 <= e <= d^2   at zero for n >= 3 (derivative 0) *)
Theorem coef_cell_abs0_unscaled_error c x d n : ~ d == 0 -> d * d <= 1 ->
  exists v e,
    coef_cell_q QuotCentralRelAbs0
      (c * qpow (disp_up QuotCentralRelAbs0 x d) n) (c * qpow (disp_lo QuotCentralRelAbs0 x d) n)
      (c * qpow x n) x d false = Some v
    /\ 0 <= e
    /\ (~ x == 0 -> v == c * qpow x (pred n) * (qnat n + e) /\ e <= qpow 2 n * (d * d))
    /\ (x == 0 -> (3 <= n)%nat -> v == c * e /\ e <= d * d).
Proof.
  intros Hd H1.
  assert (H0 : 0 <= d * d).
  { destruct (Qlt_le_dec d 0) as [N|P].
    - setoid_replace (d * d) with ((- d) * (- d)) by ring. apply Qmult_le_0_compat; lra.
    - apply Qmult_le_0_compat; assumption. }
  destruct (coef_cell_abs0_unscaled c x d n Hd) as [v [E [A [B _]]]].
  destruct (Qeq_dec x 0) as [Hx|Hx].
  - destruct (le_lt_dec 3 n) as [Hn|Hn].
    + destruct (zdiff_bound n (d * d) H0 H1 Hn) as [Z0 Z1].
      exists v, (zdiff n (d * d)). split; [exact E|]. split; [exact Z0|].
      split; [intros H; contradiction|]. intros _ _. split; [exact (B Hx)|exact Z1].
    + exists v, 0. split; [exact E|]. split; [lra|]. split; [intros H; contradiction|].
      intros _ Hn3. exfalso. lia.
  - destruct (sdiff_bound n (d * d) H0 H1) as [S0 S1].
    exists v, (sdiff n (d * d) - qnat n). split; [exact E|]. split; [lra|].
    split.
    + intros _. split; [rewrite (A Hx); ring|lra].
    + intros H. contradiction.
Qed.

(** the witness network of finding c18-zero-state under the repaired rule *)
Lemma abs0_witness :
  let net := (((200%N, 1%nat) :: (100%N, 1%nat) :: nil) :: ((201%N, 1%nat) :: (101%N, 1%nat) :: nil) :: nil) in
  let f := mkFacts nil nil nil nil QuotCentralRelAbs0 in
  option_map (list_eqb cell_eqb (Some 2 :: Some 0 :: nil))
    (var_column f (pl_fluxes net) (1 # 10000) false ((200%N, 2) :: (201%N, 1) :: nil) ((100%N, 0) :: (101%N, 2) :: nil) 100%N)
  = Some true
  /\ option_map (list_eqb cell_eqb (Some 0 :: Some 1 :: nil))
       (var_column f (pl_fluxes net) (1 # 10000) false ((200%N, 2) :: (201%N, 1) :: nil) ((100%N, 0) :: (101%N, 2) :: nil) 101%N)
     = Some true.
Proof. cbv zeta. split; vm_compute; reflexivity. Qed.
