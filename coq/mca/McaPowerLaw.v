(** C18 -- power laws: the analytic partial derivative (over R) and the default-displacement bound. *)
From Coq Require Import QArith Lqa List Reals.
From Mca Require Import Mca McaAlgebra.
Import ListNotations.

(** the partial derivative of  c * v^n  w.r.t. v is  c * n * v^(n-1)  (standard-library calculus) *)
Lemma partial_derivative_R (c x : R) (n : nat) :
  derivable_pt_lim (fun v => c * v ^ n)%R x (c * (INR n * x ^ pred n))%R.
Proof.
  apply (derivable_pt_lim_scal (fun v => v ^ n)%R c x). apply derivable_pt_lim_pow.
Qed.

Open Scope Q_scope.

(** with the displacement default(s) found in the source (1e-4) the scaled coefficient of a quantity
    of kinetic order n lies in [n, n + 2^n * 1e-8] *)
Lemma default_displacement_bound (facts : mca_facts) vp pp wp q :
  facts = mkFacts [1 # 10000; 1 # 10000; 1 # 10000; 1 # 10000] vp pp wp q ->
  forall d n, In d (f_disp facts) ->
    qnat n <= sdiff n (d * d) /\ sdiff n (d * d) <= qnat n + qpow 2 n * (1 # 100000000).
Proof.
  intros -> d n Hin. cbn [f_disp] in Hin.
  assert (E : d = 1 # 10000) by (repeat (destruct Hin as [<-|Hin]; [reflexivity|]); destruct Hin).
  subst d. change ((1 # 10000) * (1 # 10000)) with (1 # 100000000).
  apply sdiff_bound; [discriminate|]. unfold Qle. cbn. discriminate.
Qed.
