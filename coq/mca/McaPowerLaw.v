(** C18 -- power laws: the analytic partial derivative (over R) and the default-displacement bound. *)
From Coq Require Import QArith Lqa List Reals.
From Mca Require Import Mca McaAlgebra.
Import ListNotations.

(** the partial derivative of  c * v^n  w.r.t. v is  c * n * v^(n-1)  (standard-library calculus) *)
Lemma partial_derivative_R (c x : R) (n : nat) :
  derivable_pt_lim (fun v => c * v ^ n)%R x (c * (INR n * x ^ pred n))%R.
Proof.
  apply (derivable_pt_lim_scal (fun v => v ^ n)%R c x). apply derivable_pt_lim_pow.
Qed.

Open Scope Q_scope.

(** with the displacement default(s) found in the source (1e-4) the scaled coefficient of a quantity
    of kinetic order n lies in [n, n + 2^n * 1e-8] *)
Lemma default_displacement_bound (facts : mca_facts) vp pp wp q :
  facts = mkFacts [1 # 10000; 1 # 10000; 1 # 10000; 1 # 10000] vp pp wp q ->
  forall d n, In d (f_disp facts) ->
    qnat n <= sdiff n (d * d) /\ sdiff n (d * d) <= qnat n + qpow 2 n * (1 # 100000000).
Proof.
  intros -> d n Hin. cbn [f_disp] in Hin.
  assert (E : d = 1 # 10000) by (repeat (destruct Hin as [<-|Hin]; [reflexivity|]); destruct Hin).
  subst d. change ((1 # 10000) * (1 # 10000)) with (1 # 100000000).
  apply sdiff_bound; [discriminate|]. unfold Qle. cbn. discriminate.
Qed.

(** A power-law flux, as a function of ONE of its arguments x (a variable or a parameter; repeated
    occurrences add up), is  c * v^n  with n = order_of x and c the product of the other factors --
    so the cells the routines compute for it are instances of [coef_cell_power_law]. *)
Fixpoint others (x : name) (env : name -> option Q) (fs : plrxn) : Q :=
  match fs with
  | [] => 1
  | (a, n) :: t =>
      if N.eqb a x then others x env t
      else match env a with Some v => qpow v n * others x env t | None => others x env t end
  end.

Lemma prod_factors_monomial x env env' v fs P :
  (forall a, env' a = if N.eqb a x then Some v else env a) ->
  prod_factors env fs = Some P ->
  exists P', prod_factors env' fs = Some P' /\ P' == others x env fs * qpow v (order_of x fs).
Proof.
  intros He. revert P. induction fs as [|[a n] t IH]; intros P H; cbn [prod_factors others order_of] in *.
  - eexists. split; [reflexivity|]. cbn [qpow]. ring.
  - destruct (env a) as [va|] eqn:Ea; [|discriminate].
    destruct (prod_factors env t) as [r|]; [|discriminate].
    destruct (IH r eq_refl) as [r' [Hr' Er']]. rewrite Hr', He.
    destruct (N.eqb_spec a x) as [->|Hne].
    + rewrite N.eqb_refl. eexists. split; [reflexivity|]. rewrite Er', qpow_add. ring.
    + destruct (N.eqb_spec x a) as [E|_]; [congruence|].
      rewrite Ea. eexists. split; [reflexivity|]. rewrite Er'. ring.
Qed.
