(** C18 -- Control coefficients equal analytic sensitivities; model left untouched.

    ONLY theorem statements (written out in full), each closed by [exact <lemma>] and followed by
    [Print Assumptions].  [gen_mca_facts] is REGENERATED from /repo/src/mxlpy/mca.py on every run
    (displacement defaults; the ordered model-touching statements of variable_elasticities,
    parameter_elasticities and _response_coefficient_worker; the shape of the difference quotients);
    [C18_facts_pinned] is the obligation that breaks when one of them is edited. *)
From Coq Require Import QArith List NArith Bool Reals.
From MxlBase Require Import ListX.
From Mca Require Import Mca GenMcaFacts McaAlgebra McaRestore McaPowerLaw.
Import ListNotations.
Open Scope Q_scope.

Theorem C18_facts_pinned :
  gen_mca_facts =
  mkFacts [1 # 10000; 1 # 10000; 1 # 10000; 1 # 10000]
    [SObserve; SObserve; SObserveIfNorm]
    [SReadOld; SSetPar Up; SObserve; SSetPar Down; SObserve; SSetPar Back; SObserveIfNorm]
    [SReadOld; SSaveY0; SApplyY0; SSetPar Up; SObserve; SSetPar Down; SObserve;
     SView 0; SView 1; SView 0; SView 1; SSetPar Back; SObserveIfNorm; SViewIfNorm 2; SViewIfNorm 2;
     SRestoreY0]
    QuotCentralRel.
Proof. vm_compute. reflexivity. Qed.
Print Assumptions C18_facts_pinned.

(** ---- coefficients equal analytic sensitivities ------------------------------------------- *)

(** The cell  (upper - lower) / (2 d old) [* old / base]  that all three routines compute, for ANY
    quantity entering as  c * v^n  (a flux as a function of one variable or parameter, everything
    else folded into c; a steady-state concentration or flux that is a monomial in the parameter),
    at every non-zero value x, every non-zero displacement d, every order n:
      unscaled = c * x^(n-1) * sdiff n d^2,   scaled = sdiff n d^2,
    where sdiff n D = ((1+d)^n - (1-d)^n) / (2d) = n + C(n,3) D + ... (exact rational identity). *)
Theorem C18_coefficient_power_law :
  forall (c x d : Q) (n : nat) (normalized : bool),
    ~ x == 0 -> ~ d == 0 -> (normalized = true -> ~ c == 0) ->
    exists v,
      coef_cell (c * qpow (x * (1 + d)) n) (c * qpow (x * (1 - d)) n) (c * qpow x n) x d normalized = Some v
      /\ v == (if normalized then sdiff n (d * d) else c * qpow x (pred n) * sdiff n (d * d)).
Proof. exact coef_cell_power_law. Qed.
Print Assumptions C18_coefficient_power_law.

(** ... which is EXACTLY the kinetic order (scaled) / the partial derivative n c x^(n-1) (unscaled)
    for orders <= 2, whatever the displacement *)
Theorem C18_exact_for_orders_le_2 :
  forall (n : nat) (D : Q), (n <= 2)%nat -> sdiff n D == qnat n.
Proof. exact sdiff_le2. Qed.
Print Assumptions C18_exact_for_orders_le_2.

(** ... and within a relative truncation error 2^n d^2 / n for every order *)
Theorem C18_truncation_bound :
  forall (n : nat) (D : Q), 0 <= D -> D <= 1 ->
    qnat n <= sdiff n D /\ sdiff n D <= qnat n + qpow 2 n * D.
Proof. exact sdiff_bound. Qed.
Print Assumptions C18_truncation_bound.

(** the link to the networks: a power-law flux  prod_a env(a)^(n_a)  as a function of ONE argument x
    (variable or parameter, repeated occurrences add up; env' = env with x replaced by v) is
    c * v^(order_of x)  with c = the product of the other factors, independent of v -- so each cell
    the routines compute for a power-law network is an instance of C18_coefficient_power_law with
    n = the kinetic order *)
Theorem C18_power_law_flux_is_monomial :
  forall (x : name) (env env' : name -> option Q) (v : Q) (fs : plrxn) (P : Q),
    (forall a, env' a = if N.eqb a x then Some v else env a) ->
    prod_factors env fs = Some P ->
    exists P', prod_factors env' fs = Some P' /\ P' == others x env fs * qpow v (order_of x fs).
Proof. exact prod_factors_monomial. Qed.
Print Assumptions C18_power_law_flux_is_monomial.

(** with the displacement defaults extracted from the source: [n, n + 2^n * 1e-8] *)
Theorem C18_default_displacement_bound :
  forall (d : Q) (n : nat), In d (f_disp gen_mca_facts) ->
    qnat n <= sdiff n (d * d) /\ sdiff n (d * d) <= qnat n + qpow 2 n * (1 # 100000000).
Proof. exact (default_displacement_bound gen_mca_facts _ _ _ _ C18_facts_pinned). Qed.
Print Assumptions C18_default_displacement_bound.

(** the analytic side: d/dv (c v^n) = c n v^(n-1)  (real analysis of the standard library) *)
Theorem C18_partial_derivative_R :
  forall (c x : R) (n : nat),
    derivable_pt_lim (fun v => c * v ^ n)%R x (c * (INR n * x ^ pred n))%R.
Proof. exact partial_derivative_R. Qed.
Print Assumptions C18_partial_derivative_R.

(** a steady state that depends on the parameter as c / k (linear chain: x = k0 / k1): the scaled
    response coefficient is -1/(1 - d^2), i.e. the sensitivity -1 with relative error d^2/(1-d^2) *)
Theorem C18_response_reciprocal :
  forall (c k d : Q),
    ~ k == 0 -> ~ d == 0 -> ~ c == 0 -> ~ 1 + d == 0 -> ~ 1 - d == 0 ->
    exists v, coef_cell (c / (k * (1 + d))) (c / (k * (1 - d))) (c / k) k d true = Some v
              /\ v == - (1 / (1 - d * d)) /\ v == -1 * (1 + d * d / (1 - d * d)).
Proof. exact coef_cell_reciprocal. Qed.
Print Assumptions C18_response_reciprocal.

(** FULL statement "elasticities equal the partial derivatives at the given state" is FALSE of the
    code at a zero value: the relative displacement of 0 is 0, every cell of the column is NaN
    (recorded finding c18-zero-state; the guard of C18_coefficient_power_law is  x <> 0). *)
Theorem C18_zero_state_refuted :
  (forall up lo base d normalized, coef_cell up lo base 0 d normalized = None)
  /\ exists net pars vars x,
       pl_fluxes net pars vars = Some [0; 2]               (* v0 = k0 * x0 = 0, dv0/dx0 = k0 = 2 *)
       /\ var_column (pl_fluxes net) (1 # 10000) false pars vars x = Some [None; None].
Proof.
  exact (conj coef_cell_zero_state
          (ex_intro _ [[(200%N, 1%nat); (100%N, 1%nat)]; [(201%N, 1%nat); (101%N, 1%nat)]]
            (ex_intro _ [(200%N, 2); (201%N, 1)]
              (ex_intro _ [(100%N, 0); (101%N, 2)]
                (ex_intro _ 100%N (conj eq_refl eq_refl)))))).
Qed.
Print Assumptions C18_zero_state_refuted.

(** ---- the model is left as it was found ----------------------------------------------------- *)

(** variable_elasticities only reads the model *)
Theorem C18_variable_elasticities_pure :
  forall p y0 nrm d st st' rg,
    exec_prog p y0 nrm d (f_var_prog gen_mca_facts) st regs0 = Some (st', rg) -> st' = st.
Proof. exact (var_prog_pure_facts gen_mca_facts (f_equal f_var_prog C18_facts_pinned)). Qed.
Print Assumptions C18_variable_elasticities_pure.

(** parameter_elasticities: for every flux function, every model content, every scan list: parameter
    values and initial values afterwards are those before (and one column per scanned parameter) *)
Theorem C18_parameter_elasticities_restore :
  forall (fluxes : alist -> alist -> option (list Q)) d nrm variables scan st st' table,
    par_elast gen_mca_facts fluxes d nrm variables scan st = Some (st', table) ->
    st' = st /\ map fst table = scan.
Proof.
  exact (fun fluxes d nrm variables scan st st' table =>
           par_loop_restores gen_mca_facts fluxes d nrm _ scan st st' table
             (f_equal f_par_prog C18_facts_pinned)).
Qed.
Print Assumptions C18_parameter_elasticities_restore.

(** one response-coefficient worker: the model is restored (parameters AND initial values, with or
    without y0), and the steady-state runs see exactly: parameter p scaled by (1+d), by (1-d), and
    (when normalising) unscaled; all other parameters untouched; y0 applied *)
Theorem C18_worker_restores :
  forall p y0 nrm d st st' rg,
    NoDup (keys (st_pars st)) -> NoDup (keys (st_inits st)) ->
    worker gen_mca_facts d nrm y0 p st = Some (st', rg) ->
    st' = st /\ exists old, get p (st_pars st) = Some old /\ r_old rg = Some old /\
      r_obs rg =
        (let i := match y0 with Some y => set_all y (st_inits st) | None => st_inits st end in
         [mkState (set p (old * (1 + d)) (st_pars st)) i; mkState (set p (old * (1 - d)) (st_pars st)) i]
         ++ (if nrm then [mkState (st_pars st) i] else [])).
Proof. exact (worker_restores_facts gen_mca_facts (f_equal f_worker_prog C18_facts_pinned)). Qed.
Print Assumptions C18_worker_restores.

(** ... and it does run on well-formed input (so the statement above is not vacuous) *)
Theorem C18_worker_total :
  forall p y0 nrm d st old,
    NoDup (keys (st_pars st)) -> NoDup (keys (st_inits st)) -> get p (st_pars st) = Some old ->
    (forall y, y0 = Some y -> forallb (fun kv => has (fst kv) (st_inits st)) y = true) ->
    exists rg, worker gen_mca_facts d nrm y0 p st = Some (st, rg).
Proof. exact (worker_total_facts gen_mca_facts (f_equal f_worker_prog C18_facts_pinned)). Qed.
Print Assumptions C18_worker_total.

(** response_coefficients, sequential: the caller's model is restored *)
Theorem C18_response_coefficients_restore :
  forall d nrm y0 scan st st' rs,
    NoDup (keys (st_pars st)) -> NoDup (keys (st_inits st)) ->
    resp_seq gen_mca_facts d nrm y0 scan st = Some (st', rs) -> st' = st /\ map fst rs = scan.
Proof.
  exact (fun d nrm y0 scan st st' rs =>
           resp_seq_restores gen_mca_facts d nrm y0 scan st st' rs (f_equal f_worker_prog C18_facts_pinned)).
Qed.
Print Assumptions C18_response_coefficients_restore.

(** sequential = parallel: running the workers one after the other on the caller's own model gives
    the same final model and the same observations (hence, for ANY steady-state function [ss], the
    same coefficient tables) as running every worker on a private copy *)
Theorem C18_seq_equals_par :
  forall d nrm y0 scan st,
    NoDup (keys (st_pars st)) -> NoDup (keys (st_inits st)) ->
    resp_seq gen_mca_facts d nrm y0 scan st = resp_par gen_mca_facts d nrm y0 scan st
    /\ (forall (ss : alist -> alist -> option (list Q * list Q)),
          option_map (fun r => resp_result ss d nrm (snd r)) (resp_seq gen_mca_facts d nrm y0 scan st)
          = option_map (fun r => resp_result ss d nrm (snd r)) (resp_par gen_mca_facts d nrm y0 scan st)).
Proof.
  exact (fun d nrm y0 scan st Hp Hi =>
           let E := resp_seq_eq_par gen_mca_facts d nrm y0 scan st (f_equal f_worker_prog C18_facts_pinned) Hp Hi in
           conj E (fun ss => f_equal (option_map (fun r => resp_result ss d nrm (snd r))) E)).
Qed.
Print Assumptions C18_seq_equals_par.

(** the statement list of the worker BEFORE the repair (fixes/C18-restore-initial-values.diff) does
    not have the property: sequential response_coefficients(variables={x0: 5}) leaves x0 = 5 *)
Theorem C18_unrepaired_worker_refuted :
  exists p y0 st st' rg,
    NoDup (keys (st_pars st)) /\ NoDup (keys (st_inits st)) /\
    exec_prog p (Some y0) true (1 # 10000)
      [SReadOld; SApplyY0; SSetPar Up; SObserve; SSetPar Down; SObserve;
       SView 0; SView 1; SView 0; SView 1; SSetPar Back; SObserveIfNorm; SViewIfNorm 2; SViewIfNorm 2]
      st regs0 = Some (st', rg) /\
    st_pars st' = st_pars st /\ st_inits st' <> st_inits st.
Proof. exact unrepaired_worker_changes_inits. Qed.
Print Assumptions C18_unrepaired_worker_refuted.

(** non-vacuity: a two-reaction network with a cubic rate law; the scaled elasticity of v1 = k1 x0^3
    is 3 + d^2 (not 3), of v0 = k0 x0 exactly 1; a worker run with y0 succeeds and restores *)
Example C18_nonvacuous :
  let net := [[(200%N, 1%nat); (100%N, 1%nat)]; [(201%N, 1%nat); (100%N, 3%nat)]] in
  let st := mkState [(200%N, 2); (201%N, 1 # 2)] [(100%N, 2)] in
  option_map (fun t => table_eqb t [(100%N, [Some 1; Some (49 # 16)])])
    (var_elast (pl_fluxes net) (1 # 4) true None [100%N] st) = Some true
  /\ (exists rg, worker gen_mca_facts (1 # 4) true (Some [(100%N, 5)]) 201%N st = Some (st, rg)
                 /\ length (r_obs rg) = 3%nat).
Proof.
  cbv zeta. split.
  - vm_compute. reflexivity.
  - eexists. split; vm_compute; reflexivity.
Qed.
Print Assumptions C18_nonvacuous.
