(** C18 -- Control coefficients equal analytic sensitivities; model left untouched.

    ONLY theorem statements (written out in full), each closed by [exact <lemma>] and followed by
    [Print Assumptions].  [gen_mca_facts] is REGENERATED from /repo/src/mxlpy/mca.py on every run
    (displacement defaults; the ordered model-touching statements of variable_elasticities,
    parameter_elasticities and _response_coefficient_worker; the displacement rule / shape of the
    difference quotients); [C18_facts_pinned] is the obligation that breaks when one of them is
    edited.  [C18_expected_quot] (ExpectedFacts.v, switched by tools/c18_switch.py together with the
    fix: commit) says which displacement rule the tree is expected to have: QuotCentralRel (the
    snapshot; C18_zero_state_refuted describes the tree) or QuotCentralRelAbs0 (after
    fixes/C18-zero-state.diff; the C18_zero_state_repaired_* theorems describe the tree). *)
From Coq Require Import QArith Qabs List NArith Bool Reals.
From MxlBase Require Import ListX.
From Mca Require Import Mca GenMcaFacts ExpectedFacts McaAlgebra McaZero McaTiny McaRestore McaSchedule McaPowerLaw McaMoebius McaEndToEnd McaIndirect McaIndirectProofs.
Import ListNotations.
Open Scope Q_scope.

Theorem C18_facts_pinned :
  gen_mca_facts =
  mkFacts [1 # 10000; 1 # 10000; 1 # 10000; 1 # 10000]
    [SObserve; SObserve; SObserveIfNorm]
    [SReadOld; SSetPar Up; SObserve; SSetPar Down; SObserve; SSetPar Back; SObserveIfNorm]
    [SReadOld; SSaveY0; SApplyY0; SSetPar Up; SObserve; SSetPar Down; SObserve;
     SView 0; SView 1; SView 0; SView 1; SSetPar Back; SObserveIfNorm; SViewIfNorm 2; SViewIfNorm 2;
     SRestoreY0]
    C18_expected_quot.
Proof. vm_compute. reflexivity. Qed.
Print Assumptions C18_facts_pinned.

(** ---- coefficients equal analytic sensitivities ------------------------------------------- *)

(** The cell  (upper - lower) / (2 d old) [* old / base]  that all three routines compute, for ANY
    quantity entering as  c * v^n  (a flux as a function of one variable or parameter, everything
    else folded into c; a steady-state concentration or flux that is a monomial in the parameter),
    at every non-zero value x, every non-zero displacement d, every order n:
      unscaled = c * x^(n-1) * sdiff n d^2,   scaled = sdiff n d^2,
    where sdiff n D = ((1+d)^n - (1-d)^n) / (2d) = n + C(n,3) D + ... (exact rational identity). *)
Theorem C18_coefficient_power_law :
  forall (c x d : Q) (n : nat) (normalized : bool),
    ~ x == 0 -> ~ d == 0 -> (normalized = true -> ~ c == 0) ->
    exists v,
      coef_cell (c * qpow (x * (1 + d)) n) (c * qpow (x * (1 - d)) n) (c * qpow x n) x d normalized = Some v
      /\ v == (if normalized then sdiff n (d * d) else c * qpow x (pred n) * sdiff n (d * d)).
Proof. exact coef_cell_power_law. Qed.
Print Assumptions C18_coefficient_power_law.

(** ... which is EXACTLY the kinetic order (scaled) / the partial derivative n c x^(n-1) (unscaled)
    for orders <= 2, whatever the displacement *)
Theorem C18_exact_for_orders_le_2 :
  forall (n : nat) (D : Q), (n <= 2)%nat -> sdiff n D == qnat n.
Proof. exact sdiff_le2. Qed.
Print Assumptions C18_exact_for_orders_le_2.

(** ... and within a relative truncation error 2^n d^2 / n for every order *)
Theorem C18_truncation_bound :
  forall (n : nat) (D : Q), 0 <= D -> D <= 1 ->
    qnat n <= sdiff n D /\ sdiff n D <= qnat n + qpow 2 n * D.
Proof. exact sdiff_bound. Qed.
Print Assumptions C18_truncation_bound.

(** the link to the networks: a power-law flux  prod_a env(a)^(n_a)  as a function of ONE argument x
    (variable or parameter, repeated occurrences add up; env' = env with x replaced by v) is
    c * v^(order_of x)  with c = the product of the other factors, independent of v -- so each cell
    the routines compute for a power-law network is an instance of C18_coefficient_power_law with
    n = the kinetic order *)
Theorem C18_power_law_flux_is_monomial :
  forall (x : name) (env env' : name -> option Q) (v : Q) (fs : plrxn) (P : Q),
    (forall a, env' a = if N.eqb a x then Some v else env a) ->
    prod_factors env fs = Some P ->
    exists P', prod_factors env' fs = Some P' /\ P' == others x env fs * qpow v (order_of x fs).
Proof. exact prod_factors_monomial. Qed.
Print Assumptions C18_power_law_flux_is_monomial.

(** with the displacement defaults extracted from the source: [n, n + 2^n * 1e-8] *)
Theorem C18_default_displacement_bound :
  forall (d : Q) (n : nat), In d (f_disp gen_mca_facts) ->
    qnat n <= sdiff n (d * d) /\ sdiff n (d * d) <= qnat n + qpow 2 n * (1 # 100000000).
Proof. exact (default_displacement_bound gen_mca_facts _ _ _ _ C18_facts_pinned). Qed.
Print Assumptions C18_default_displacement_bound.

(** the analytic side: d/dv (c v^n) = c n v^(n-1)  (real analysis of the standard library) *)
Theorem C18_partial_derivative_R :
  forall (c x : R) (n : nat),
    derivable_pt_lim (fun v => c * v ^ n)%R x (c * (INR n * x ^ pred n))%R.
Proof. exact partial_derivative_R. Qed.
Print Assumptions C18_partial_derivative_R.

(** a steady state that depends on the parameter as c / k (linear chain: x = k0 / k1): the scaled
    response coefficient is -1/(1 - d^2), i.e. the sensitivity -1 with relative error d^2/(1-d^2) *)
Theorem C18_response_reciprocal :
  forall (c k d : Q),
    ~ k == 0 -> ~ d == 0 -> ~ c == 0 -> ~ 1 + d == 0 -> ~ 1 - d == 0 ->
    exists v, coef_cell (c / (k * (1 + d))) (c / (k * (1 - d))) (c / k) k d true = Some v
              /\ v == - (1 / (1 - d * d)) /\ v == -1 * (1 + d * d / (1 - d * d)).
Proof. exact coef_cell_reciprocal. Qed.
Print Assumptions C18_response_reciprocal.

(** ---- response coefficients of the mass-action families with a closed-form steady state ------- *)

(** A steady-state concentration or flux that depends on the scanned rate constant k as a Moebius
    function (a + b k) / (e + g k) -- every such quantity of the linear chain, the branch point and
    the conserved cycle (C18_families_are_moebius): the cell, unscaled and scaled, satisfies EXACTLY
        cell * (1 - rho^2 d^2) = f'(k)   resp.   k f'(k) / f(k),      rho = g k / (e + g k). *)
Theorem C18_response_moebius :
  forall (a b e g k d : Q) (normalized : bool),
    ~ k == 0 -> ~ d == 0 -> ~ e + g * k == 0 ->
    ~ e + g * (k * (1 + d)) == 0 -> ~ e + g * (k * (1 - d)) == 0 ->
    (normalized = true -> ~ a + b * k == 0) ->
    exists v,
      coef_cell (moebius a b e g (k * (1 + d))) (moebius a b e g (k * (1 - d))) (moebius a b e g k) k d normalized
      = Some v
      /\ v * (1 - mrho e g k * mrho e g k * (d * d))
         == (if normalized then k * mderiv a b e g k / moebius a b e g k else mderiv a b e g k).
Proof. exact coef_cell_moebius. Qed.
Print Assumptions C18_response_moebius.

(** for non-negative coefficients and a positive rate constant every denominator is non-zero and
    0 <= rho <= 1 ... *)
Theorem C18_moebius_positive :
  forall (e g k d : Q), 0 <= e -> 0 <= g -> 0 < k -> 0 < e + g * k -> -1 < d -> d < 1 ->
    ~ e + g * k == 0 /\ ~ e + g * (k * (1 + d)) == 0 /\ ~ e + g * (k * (1 - d)) == 0
    /\ 0 <= mrho e g k /\ mrho e g k <= 1.
Proof. exact moebius_positive. Qed.
Print Assumptions C18_moebius_positive.

(** ... so the cell is the analytic sensitivity t up to a relative error in [0, d^2 / (1 - d^2)]
    (1.00000001e-8 at the default displacement) *)
Theorem C18_moebius_error_bound :
  forall (v t r d : Q), 0 <= r -> r <= 1 -> d * d < 1 ->
    v * (1 - r * r * (d * d)) == t ->
    exists err, v == t * (1 + err) /\ 0 <= err /\ err <= d * d / (1 - d * d).
Proof. exact moebius_error_bound. Qed.
Print Assumptions C18_moebius_error_bound.

(** the analytic side: d/dk (a + b k) / (e + g k) = (b e - a g) / (e + g k)^2  ([mderiv]) *)
Theorem C18_moebius_derivative_R :
  forall (a b e g k : R), (e + g * k <> 0)%R ->
    derivable_pt_lim (fun t => (a + b * t) / (e + g * t))%R k
      ((b * e - a * g) / ((e + g * k) * (e + g * k)))%R.
Proof. exact moebius_derivative_R. Qed.
Print Assumptions C18_moebius_derivative_R.

(** the steady-state MAP of the families is the closed form: linear chain -> x1 -> ... -> xn ->
    (v0 = k0, v_i = k_i x_i), any length: the closed form x_i = k0 / k_i is a steady state, every
    flux equals k0 there, and it is the only steady state *)
Theorem C18_chain_steady_state :
  forall (k0 : Q) (ks : list Q), Forall (fun k => ~ k == 0) ks ->
    (Forall (fun r => r == 0) (chain_rhs k0 ks (chain_steady k0 ks))
     /\ Forall (fun v => v == k0) (chain_fluxes ks (chain_steady k0 ks)))
    /\ (forall xs, length xs = length ks -> Forall (fun r => r == 0) (chain_rhs k0 ks xs) ->
          Forall2 Qeq xs (chain_steady k0 ks)).
Proof.
  exact (fun k0 ks H =>
           conj (chain_steady_is_steady k0 ks H k0 (Qeq_refl k0))
                (fun xs Hl Hr => chain_steady_unique k0 ks H k0 xs (Qeq_refl k0) Hl Hr)).
Qed.
Print Assumptions C18_chain_steady_state.

(** branch point -> x, x -> (k1 x), x -> (k2 x), and the conserved cycle x0 <-> x1 with total T *)
Theorem C18_branch_cycle_steady_state :
  (forall k0 k1 k2 x, ~ k1 + k2 == 0 ->
     (branch_rhs k0 k1 k2 x == 0 <-> x == branch_steady k0 k1 k2))
  /\ (forall k0 k1 T x0 x1, ~ k0 + k1 == 0 -> x0 + x1 == T ->
        (fst (cycle_rhs k0 k1 x0 x1) == 0 /\ snd (cycle_rhs k0 k1 x0 x1) == 0
         <-> x0 == fst (cycle_steady k0 k1 T) /\ x1 == snd (cycle_steady k0 k1 T))).
Proof. exact (conj branch_steady_iff cycle_steady_iff). Qed.
Print Assumptions C18_branch_cycle_steady_state.

(** every steady-state concentration and flux of the three families is a Moebius function of each
    rate constant (the remaining pairs by the symmetry k1 <-> k2 / x0 <-> x1; a dependence on k0 is
    linear, g = 0, rho = 0: the central difference is exact) *)
Theorem C18_families_are_moebius :
  (forall k0 k, ~ k == 0 -> k0 / k == moebius k0 0 0 1 k /\ k0 / k == moebius 0 1 k 0 k0)
  /\ (forall k0 k1 k2, ~ k1 + k2 == 0 ->
        let x := branch_steady k0 k1 k2 in
        x == moebius k0 0 k2 1 k1 /\ k1 * x == moebius 0 k0 k2 1 k1 /\ k2 * x == moebius (k2 * k0) 0 k2 1 k1
        /\ x == moebius 0 1 (k1 + k2) 0 k0 /\ k1 * x == moebius 0 k1 (k1 + k2) 0 k0)
  /\ (forall k0 k1 T, ~ k0 + k1 == 0 ->
        fst (cycle_steady k0 k1 T) == moebius 0 T k0 1 k1
        /\ fst (cycle_steady k0 k1 T) == moebius (T * k1) 0 k1 1 k0
        /\ k0 * fst (cycle_steady k0 k1 T) == moebius 0 (T * k1) k1 1 k0).
Proof. exact (conj chain_is_moebius (conj branch_is_moebius cycle_is_moebius)). Qed.
Print Assumptions C18_families_are_moebius.

(** end to end for the branch point, positive rate constants: the scaled concentration response
    coefficient of x = k0/(k1+k2) w.r.t. k1 is -k1/(k1+k2), the scaled FLUX response coefficient of
    J1 = k1 x w.r.t. k1 is k2/(k1+k2), each up to a relative error in [0, d^2/(1-d^2)] *)
Theorem C18_response_branched :
  forall (k0 k1 k2 d : Q), 0 < k0 -> 0 < k1 -> 0 < k2 -> ~ d == 0 -> -1 < d -> d < 1 ->
    let f a b := moebius a b k2 1 in
    let cellof a b := coef_cell (f a b (k1 * (1 + d))) (f a b (k1 * (1 - d))) (f a b k1) k1 d true in
    exists vx v1 ex e1,
      cellof k0 0 = Some vx /\ vx == - (k1 / (k1 + k2)) * (1 + ex)
      /\ cellof 0 k0 = Some v1 /\ v1 == k2 / (k1 + k2) * (1 + e1)
      /\ 0 <= ex /\ ex <= d * d / (1 - d * d) /\ 0 <= e1 /\ e1 <= d * d / (1 - d * d).
Proof. exact branch_response. Qed.
Print Assumptions C18_response_branched.

(** ... and COMPOSED with the routine: the worker's regenerated statement list run on the branch-point
    model (parameters 200, 201, 202 = k0, k1, k2 > 0, variable 100, any initial value, any y0 over
    that variable), the steady-state function of the family ([ss_branch]: the closed form, the
    unique steady state) and the column arithmetic of [worker_columns]: the worker for k1 hands the
    model back unchanged and returns exactly one concentration cell and three flux cells,
        C(x, k1) = -k1/(k1+k2) (1+ex),  C(J0, k1) = 0,  C(J1, k1) = k2/(k1+k2) (1+e1),
        C(J2, k1) = -k1/(k1+k2) (1+e2),       0 <= ex, e1, e2 <= d^2/(1-d^2). *)
Theorem C18_branch_end_to_end :
  forall (k0 k1 k2 x0 d : Q) (y0 : option alist),
    0 < k0 -> 0 < k1 -> 0 < k2 -> ~ d == 0 -> -1 < d -> d < 1 ->
    (forall y, y0 = Some y -> forallb (fun kv => has (fst kv) [(100%N, x0)]) y = true) ->
    let st := mkState [(200%N, k0); (201%N, k1); (202%N, k2)] [(100%N, x0)] in
    exists rg vx vj0 vj1 vj2 ex e1 e2,
      worker gen_mca_facts d true y0 201%N st = Some (st, rg)
      /\ worker_columns gen_mca_facts ss_branch d true rg = Some ([Some vx], [Some vj0; Some vj1; Some vj2])
      /\ vx == - (k1 / (k1 + k2)) * (1 + ex)
      /\ vj0 == 0
      /\ vj1 == k2 / (k1 + k2) * (1 + e1)
      /\ vj2 == - (k1 / (k1 + k2)) * (1 + e2)
      /\ 0 <= ex /\ ex <= d * d / (1 - d * d)
      /\ 0 <= e1 /\ e1 <= d * d / (1 - d * d)
      /\ 0 <= e2 /\ e2 <= d * d / (1 - d * d).
Proof.
  exact (fun k0 k1 k2 x0 d y0 =>
           branch_end_to_end gen_mca_facts k0 k1 k2 x0 d y0 (f_equal f_worker_prog C18_facts_pinned)).
Qed.
Print Assumptions C18_branch_end_to_end.

(** Under EVERY displacement rule the cell at a non-zero value is the relative one, so the four
    theorems above describe the tree whichever rule [C18_facts_pinned] pins. *)
Theorem C18_rule_agrees_off_zero :
  forall (q : quot_kind) (up lo base x d : Q) (normalized : bool), ~ x == 0 ->
    disp_up q x d = x * (1 + d) /\ disp_lo q x d = x * (1 - d)
    /\ coef_cell_q q up lo base x d normalized = coef_cell up lo base x d normalized.
Proof.
  exact (fun q up lo base x d normalized H =>
           match disp_nonzero q x d H with
           | conj U (conj L _) => conj U (conj L (coef_cell_q_nonzero q up lo base x d normalized H))
           end).
Qed.
Print Assumptions C18_rule_agrees_off_zero.

(** FULL statement "elasticities equal the partial derivatives at the given state" is FALSE of the
    RELATIVE rule (QuotCentralRel, the tree up to d0000dc) at a zero value: the relative displacement
    of 0 is 0, every cell of the column is NaN (finding c18-zero-state; the guard of
    C18_coefficient_power_law is  x <> 0).  Kept as the regression theorem once the repair is in. *)
Theorem C18_zero_state_refuted :
  (forall up lo base d normalized, coef_cell up lo base 0 d normalized = None)
  /\ (forall up lo base x d normalized, x == 0 -> coef_cell_q QuotCentralRel up lo base x d normalized = None)
  /\ exists net pars vars x,
       pl_fluxes net pars vars = Some [0; 2]               (* v0 = k0 * x0 = 0, dv0/dx0 = k0 = 2 *)
       /\ var_column (mkFacts [] [] [] [] QuotCentralRel) (pl_fluxes net) (1 # 10000) false pars vars x
          = Some [None; None].
Proof.
  exact (conj coef_cell_zero_state (conj coef_cell_rel_zero
          (ex_intro _ [[(200%N, 1%nat); (100%N, 1%nat)]; [(201%N, 1%nat); (101%N, 1%nat)]]
            (ex_intro _ [(200%N, 2); (201%N, 1)]
              (ex_intro _ [(100%N, 0); (101%N, 2)]
                (ex_intro _ 100%N (conj eq_refl eq_refl))))))).
Qed.
Print Assumptions C18_zero_state_refuted.

(** The REPAIRED rule (QuotCentralRelAbs0 = fixes/C18-zero-state.diff: a value that is exactly 0 is
    displaced by +-d in absolute terms, divisor 2 d).  The unscaled coefficient of  c * v^n  at EVERY
    value x -- no guard: the closed formula off zero and at zero, and EXACTLY the partial derivative
    n c x^(n-1)  for orders <= 2 (at x = 0: 0, c, 0). *)
Theorem C18_zero_state_repaired_unscaled :
  forall (c x d : Q) (n : nat), ~ d == 0 ->
    exists v,
      coef_cell_q QuotCentralRelAbs0
        (c * qpow (disp_up QuotCentralRelAbs0 x d) n) (c * qpow (disp_lo QuotCentralRelAbs0 x d) n)
        (c * qpow x n) x d false = Some v
      /\ (~ x == 0 -> v == c * qpow x (pred n) * sdiff n (d * d))
      /\ (x == 0 -> v == c * zdiff n (d * d))
      /\ ((n <= 2)%nat -> v == c * qnat n * qpow x (pred n)).
Proof. exact coef_cell_abs0_unscaled. Qed.
Print Assumptions C18_zero_state_repaired_unscaled.

(** ... and for every order the error against the partial derivative (d^2 <= 1):
    off zero  v = c x^(n-1) (n + e), 0 <= e <= 2^n d^2;  at zero, n >= 3 (derivative 0)  v = c e, 0 <= e <= d^2 *)
Theorem C18_zero_state_repaired_error :
  forall (c x d : Q) (n : nat), ~ d == 0 -> d * d <= 1 ->
    exists v e,
      coef_cell_q QuotCentralRelAbs0
        (c * qpow (disp_up QuotCentralRelAbs0 x d) n) (c * qpow (disp_lo QuotCentralRelAbs0 x d) n)
        (c * qpow x n) x d false = Some v
      /\ 0 <= e
      /\ (~ x == 0 -> v == c * qpow x (pred n) * (qnat n + e) /\ e <= qpow 2 n * (d * d))
      /\ (x == 0 -> (3 <= n)%nat -> v == c * e /\ e <= d * d).
Proof. exact coef_cell_abs0_unscaled_error. Qed.
Print Assumptions C18_zero_state_repaired_error.

(** the SCALED coefficient value/flux * dv/dx at a zero value: 0 = the kinetic order when the flux does
    not vanish there (order 0); for order >= 1 the flux is 0 and value/flux has no value -- the cell is
    NaN under the repaired rule as well, legitimately (the property's "scaled partial derivative" is
    0/0 there); the oracle does not judge those cells *)
Theorem C18_zero_state_repaired_scaled :
  forall (c x d : Q) (n : nat), x == 0 -> ~ d == 0 ->
    (n = 0%nat -> ~ c == 0 ->
       exists v, coef_cell_q QuotCentralRelAbs0
                   (c * qpow (disp_up QuotCentralRelAbs0 x d) n) (c * qpow (disp_lo QuotCentralRelAbs0 x d) n)
                   (c * qpow x n) x d true = Some v /\ v == 0)
    /\ ((1 <= n)%nat ->
        coef_cell_q QuotCentralRelAbs0
          (c * qpow (disp_up QuotCentralRelAbs0 x d) n) (c * qpow (disp_lo QuotCentralRelAbs0 x d) n)
          (c * qpow x n) x d true = None).
Proof. exact coef_cell_abs0_zero_scaled. Qed.
Print Assumptions C18_zero_state_repaired_scaled.

(** the witness network of the finding under the repaired rule: the x0 column is [k0; 0] = [2; 0],
    the x1 column (non-zero value) is what the relative rule gives *)
Theorem C18_zero_state_repaired_witness :
  let net := [[(200%N, 1%nat); (100%N, 1%nat)]; [(201%N, 1%nat); (101%N, 1%nat)]] in
  let f := mkFacts [] [] [] [] QuotCentralRelAbs0 in
  option_map (list_eqb cell_eqb [Some 2; Some 0])
    (var_column f (pl_fluxes net) (1 # 10000) false [(200%N, 2); (201%N, 1)] [(100%N, 0); (101%N, 2)] 100%N)
  = Some true
  /\ option_map (list_eqb cell_eqb [Some 0; Some 1])
       (var_column f (pl_fluxes net) (1 # 10000) false [(200%N, 2); (201%N, 1)] [(100%N, 0); (101%N, 2)] 101%N)
     = Some true.
Proof. exact abs0_witness. Qed.
Print Assumptions C18_zero_state_repaired_witness.

(** ---- tiny but non-zero values (3rd pass) --------------------------------------------------- *)

(** The rule of the tree (whatever [C18_facts_pinned] pins), the two points the rule itself picks,
    EVERY non-zero value x -- no lower limit on |x|, a nanomolar concentration is displaced relative
    to its own value --, every order, scaled and unscaled: the cell is the kinetic order n resp. the
    partial derivative n c x^(n-1) up to the relative truncation error e in [0, 2^n d^2].  This is the
    bound the oracle applies to the stream of values 2^-11 .. 2^-40. *)
Theorem C18_every_nonzero_value_relative :
  forall (c x d : Q) (n : nat) (normalized : bool),
    ~ x == 0 -> ~ d == 0 -> d * d <= 1 -> (normalized = true -> ~ c == 0) ->
    let q := f_quot gen_mca_facts in
    exists v e,
      coef_cell_q q (c * qpow (disp_up q x d) n) (c * qpow (disp_lo q x d) n) (c * qpow x n) x d normalized = Some v
      /\ 0 <= e /\ e <= qpow 2 n * (d * d)
      /\ v == (if normalized then qnat n + e else c * qpow x (pred n) * (qnat n + e)).
Proof. exact (rule_cell_any_nonzero (f_quot gen_mca_facts)). Qed.
Print Assumptions C18_every_nonzero_value_relative.

(** ... in particular the scaled coefficient is scale free: the same at any two non-zero values
    (and any two non-zero constants) *)
Theorem C18_scaled_coefficient_scale_free :
  forall (c c' x x' d : Q) (n : nat),
    ~ x == 0 -> ~ x' == 0 -> ~ d == 0 -> ~ c == 0 -> ~ c' == 0 ->
    let q := f_quot gen_mca_facts in
    exists v v',
      coef_cell_q q (c * qpow (disp_up q x d) n) (c * qpow (disp_lo q x d) n) (c * qpow x n) x d true = Some v
      /\ coef_cell_q q (c' * qpow (disp_up q x' d) n) (c' * qpow (disp_lo q x' d) n) (c' * qpow x' n) x' d true = Some v'
      /\ v == v'.
Proof. exact (rule_cell_scale_free (f_quot gen_mca_facts)). Qed.
Print Assumptions C18_scaled_coefficient_scale_free.

(** REGRESSION (shape of seeded C18-4): a helper that tests  math.isclose(value, 0.0, abs_tol=tol)
    instead of  value == 0  ([coef_cell_tol] / [disp_up_tol] / [disp_lo_tol]; |value| <= tol).
    (i)   tolerance 0 IS the helper of the tree; outside the tolerance it is the relative rule;
    (ii)  within the tolerance the unscaled cell of c v^n is the slope of the secant through 0 +- d,
          c * zdiff n d^2, WHATEVER the value -- right for order 1 (= c; why mass-action suites are blind);
    (iii) for every even order 2k >= 2 and every NON-ZERO value within the tolerance the unscaled and
          the scaled cell are 0 although the partial derivative 2k c x^(2k-1) is not 0 and the kinetic
          order is 2k >= 1 -- "elasticities equal the partial derivatives at the given state" fails --
          while the helper of the tree returns w >= 2k there;
    (iv)  the seeded change's example v = 3 S^2 at S = 2e-9, tolerance 1e-8, displacement 1e-4:
          0 and 0 instead of 2 and 12e-9 (which the tree's helper returns exactly). *)
Theorem C18_tolerance_zero_test_refuted :
  (forall up lo base x d nrm,
      disp_up_tol 0 x d = disp_up QuotCentralRelAbs0 x d
      /\ disp_lo_tol 0 x d = disp_lo QuotCentralRelAbs0 x d
      /\ coef_cell_tol 0 up lo base x d nrm = coef_cell_q QuotCentralRelAbs0 up lo base x d nrm)
  /\ (forall tol up lo base x d nrm, tol < Qabs x -> 0 <= tol ->
        disp_up_tol tol x d = x * (1 + d) /\ disp_lo_tol tol x d = x * (1 - d)
        /\ coef_cell_tol tol up lo base x d nrm = coef_cell up lo base x d nrm)
  /\ (forall tol c x d n base, Qabs x <= tol -> ~ d == 0 ->
        exists v,
          coef_cell_tol tol (c * qpow (disp_up_tol tol x d) n) (c * qpow (disp_lo_tol tol x d) n) base x d false = Some v
          /\ v == c * zdiff n (d * d) /\ (n = 1%nat -> v == c))
  /\ (forall tol c x d k,
        ~ x == 0 -> Qabs x <= tol -> ~ c == 0 -> ~ d == 0 -> d * d <= 1 -> (1 <= k)%nat ->
        let n := (2 * k)%nat in
        (exists v, coef_cell_tol tol (c * qpow (disp_up_tol tol x d) n) (c * qpow (disp_lo_tol tol x d) n)
                     (c * qpow x n) x d false = Some v /\ v == 0)
        /\ (exists v, coef_cell_tol tol (c * qpow (disp_up_tol tol x d) n) (c * qpow (disp_lo_tol tol x d) n)
                        (c * qpow x n) x d true = Some v /\ v == 0)
        /\ ~ c * qnat n * qpow x (pred n) == 0
        /\ 1 <= qnat n
        /\ (exists w, coef_cell_q QuotCentralRelAbs0
                        (c * qpow (disp_up QuotCentralRelAbs0 x d) n) (c * qpow (disp_lo QuotCentralRelAbs0 x d) n)
                        (c * qpow x n) x d true = Some w /\ qnat n <= w))
  /\ (let c := 3 in let x := 2 # 1000000000 in let d := 1 # 10000 in let tol := 1 # 100000000 in
      let cell_t nrm := coef_cell_tol tol (c * qpow (disp_up_tol tol x d) 2) (c * qpow (disp_lo_tol tol x d) 2)
                          (c * qpow x 2) x d nrm in
      let cell_a nrm := coef_cell_q QuotCentralRelAbs0 (c * qpow (disp_up QuotCentralRelAbs0 x d) 2)
                          (c * qpow (disp_lo QuotCentralRelAbs0 x d) 2) (c * qpow x 2) x d nrm in
      cell_eqb (cell_t true) (Some 0) = true /\ cell_eqb (cell_t false) (Some 0) = true
      /\ cell_eqb (cell_a true) (Some 2) = true /\ cell_eqb (cell_a false) (Some (12 # 1000000000)) = true).
Proof.
  exact (conj tol_zero_is_abs0 (conj tol_outside_is_relative (conj coef_cell_tol_secant1
          (conj coef_cell_tol_even_refuted tol_witness)))).
Qed.
Print Assumptions C18_tolerance_zero_test_refuted.

(** ---- the model is left as it was found ----------------------------------------------------- *)

(** variable_elasticities only reads the model *)
Theorem C18_variable_elasticities_pure :
  forall q p y0 nrm d st st' rg,
    exec_prog q p y0 nrm d (f_var_prog gen_mca_facts) st regs0 = Some (st', rg) -> st' = st.
Proof. exact (var_prog_pure_facts gen_mca_facts (f_equal f_var_prog C18_facts_pinned)). Qed.
Print Assumptions C18_variable_elasticities_pure.

(** parameter_elasticities: for every flux function, every model content, every scan list: parameter
    values and initial values afterwards are those before (and one column per scanned parameter) *)
Theorem C18_parameter_elasticities_restore :
  forall (fluxes : alist -> alist -> option (list Q)) d nrm variables scan st st' table,
    par_elast gen_mca_facts fluxes d nrm variables scan st = Some (st', table) ->
    st' = st /\ map fst table = scan.
Proof.
  exact (fun fluxes d nrm variables scan st st' table =>
           par_loop_restores gen_mca_facts fluxes d nrm _ scan st st' table
             (f_equal f_par_prog C18_facts_pinned)).
Qed.
Print Assumptions C18_parameter_elasticities_restore.

(** one response-coefficient worker: the model is restored (parameters AND initial values, with or
    without y0), and the steady-state runs see exactly: parameter p scaled by (1+d), by (1-d), and
    (when normalising) unscaled -- [disp_up]/[disp_lo] of the tree's displacement rule, which are
    p * (1 + d), p * (1 - d) whenever p <> 0 (C18_rule_agrees_off_zero); all other parameters
    untouched; y0 applied *)
Theorem C18_worker_restores :
  forall p y0 nrm d st st' rg,
    NoDup (keys (st_pars st)) -> NoDup (keys (st_inits st)) ->
    worker gen_mca_facts d nrm y0 p st = Some (st', rg) ->
    st' = st /\ exists old, get p (st_pars st) = Some old /\ r_old rg = Some old /\
      r_obs rg =
        (let i := match y0 with Some y => set_all y (st_inits st) | None => st_inits st end in
         [mkState (set p (disp_up (f_quot gen_mca_facts) old d) (st_pars st)) i;
          mkState (set p (disp_lo (f_quot gen_mca_facts) old d) (st_pars st)) i]
         ++ (if nrm then [mkState (st_pars st) i] else [])).
Proof. exact (worker_restores_facts gen_mca_facts (f_equal f_worker_prog C18_facts_pinned)). Qed.
Print Assumptions C18_worker_restores.

(** ... and it does run on well-formed input (so the statement above is not vacuous) *)
Theorem C18_worker_total :
  forall p y0 nrm d st old,
    NoDup (keys (st_pars st)) -> NoDup (keys (st_inits st)) -> get p (st_pars st) = Some old ->
    (forall y, y0 = Some y -> forallb (fun kv => has (fst kv) (st_inits st)) y = true) ->
    exists rg, worker gen_mca_facts d nrm y0 p st = Some (st, rg).
Proof. exact (worker_total_facts gen_mca_facts (f_equal f_worker_prog C18_facts_pinned)). Qed.
Print Assumptions C18_worker_total.

(** response_coefficients, sequential: the caller's model is restored *)
Theorem C18_response_coefficients_restore :
  forall d nrm y0 scan st st' rs,
    NoDup (keys (st_pars st)) -> NoDup (keys (st_inits st)) ->
    resp_seq gen_mca_facts d nrm y0 scan st = Some (st', rs) -> st' = st /\ map fst rs = scan.
Proof.
  exact (fun d nrm y0 scan st st' rs =>
           resp_seq_restores gen_mca_facts d nrm y0 scan st st' rs (f_equal f_worker_prog C18_facts_pinned)).
Qed.
Print Assumptions C18_response_coefficients_restore.

(** sequential = parallel: running the workers one after the other on the caller's own model gives
    the same final model and the same observations (hence, for ANY steady-state function [ss], the
    same coefficient tables) as running every worker on a private copy *)
Theorem C18_seq_equals_par :
  forall d nrm y0 scan st,
    NoDup (keys (st_pars st)) -> NoDup (keys (st_inits st)) ->
    resp_seq gen_mca_facts d nrm y0 scan st = resp_par gen_mca_facts d nrm y0 scan st
    /\ (forall (ss : alist -> alist -> option (list Q * list Q)),
          option_map (fun r => resp_result gen_mca_facts ss d nrm (snd r)) (resp_seq gen_mca_facts d nrm y0 scan st)
          = option_map (fun r => resp_result gen_mca_facts ss d nrm (snd r)) (resp_par gen_mca_facts d nrm y0 scan st)).
Proof.
  exact (fun d nrm y0 scan st Hp Hi =>
           let E := resp_seq_eq_par gen_mca_facts d nrm y0 scan st (f_equal f_worker_prog C18_facts_pinned) Hp Hi in
           conj E (fun ss => f_equal (option_map (fun r => resp_result gen_mca_facts ss d nrm (snd r))) E)).
Qed.
Print Assumptions C18_seq_equals_par.

(** EVERY schedule.  response_coefficients hands the worker (a function object that carries the
    model) and the parameter names to the pool; [resp_chunks] cuts the inputs into arbitrary chunks,
    gives every chunk its own copy of the caller's model and runs the tasks of a chunk one after the
    other on that copy.  Whatever the chunking, the results are those of the sequential run ... *)
Theorem C18_schedule_independent :
  forall d nrm y0 (chunks : list (list name)) st,
    NoDup (keys (st_pars st)) -> NoDup (keys (st_inits st)) ->
    resp_chunks gen_mca_facts d nrm y0 chunks st
    = option_map snd (resp_seq gen_mca_facts d nrm y0 (concat chunks) st).
Proof. exact (resp_chunks_eq_seq gen_mca_facts (f_equal f_worker_prog C18_facts_pinned)). Qed.
Print Assumptions C18_schedule_independent.

(** ... because every task is a function of (content of the caller's model, parameter name) alone:
    each result of each schedule is the worker run on a fresh copy of the caller's model (this is
    where the restore of parameters AND initial values after every task, d0000dc, is used) *)
Theorem C18_tasks_independent :
  forall d nrm y0 (chunks : list (list name)) st,
    NoDup (keys (st_pars st)) -> NoDup (keys (st_inits st)) ->
    resp_chunks gen_mca_facts d nrm y0 chunks st
    = opt_map (fun p => option_map (fun r => (p, snd r)) (worker gen_mca_facts d nrm y0 p st)) (concat chunks).
Proof. exact (resp_chunks_tasks_independent gen_mca_facts (f_equal f_worker_prog C18_facts_pinned)). Qed.
Print Assumptions C18_tasks_independent.

(** [resp_par] (C18_seq_equals_par) is the schedule with one task per chunk *)
Theorem C18_par_is_singleton_schedule :
  forall facts d nrm y0 scan st,
    resp_par facts d nrm y0 scan st
    = option_map (fun rs => (st, rs)) (resp_chunks facts d nrm y0 (map (fun p => [p]) scan) st).
Proof. exact resp_par_is_singleton_chunks. Qed.
Print Assumptions C18_par_is_singleton_schedule.

(** regression: with the worker BEFORE d0000dc the two executions are distinguishable (the sequential
    run hands the model back with y0 in place, the pool does not) ... *)
Theorem C18_unrepaired_seq_differs_from_par :
  exists d nrm y0 scan st st' rs rs',
    NoDup (keys (st_pars st)) /\ NoDup (keys (st_inits st)) /\
    resp_seq (mkFacts [] [] []
                [SReadOld; SApplyY0; SSetPar Up; SObserve; SSetPar Down; SObserve;
                 SView 0; SView 1; SView 0; SView 1; SSetPar Back; SObserveIfNorm; SViewIfNorm 2; SViewIfNorm 2]
                QuotCentralRel) d nrm (Some y0) scan st = Some (st', rs) /\
    resp_par (mkFacts [] [] []
                [SReadOld; SApplyY0; SSetPar Up; SObserve; SSetPar Down; SObserve;
                 SView 0; SView 1; SView 0; SView 1; SSetPar Back; SObserveIfNorm; SViewIfNorm 2; SViewIfNorm 2]
                QuotCentralRel) d nrm (Some y0) scan st = Some (st, rs') /\
    st_inits st' <> st_inits st.
Proof. exact unrepaired_seq_differs_from_par. Qed.
Print Assumptions C18_unrepaired_seq_differs_from_par.

(** ... and with a worker that forms the quotients after the reset (the lazy result views re-apply
    the parameters of the lower run) the unscaled sequential run differs from the pool in the final
    model AND in what the steady-state runs see, i.e. in the coefficients *)
Theorem C18_views_after_reset_seq_differs_from_par :
  exists d scan st st' rs rs',
    NoDup (keys (st_pars st)) /\ NoDup (keys (st_inits st)) /\
    resp_seq (mkFacts [] [] []
                [SReadOld; SSaveY0; SApplyY0; SSetPar Up; SObserve; SSetPar Down; SObserve; SSetPar Back;
                 SObserveIfNorm; SRestoreY0; SView 0; SView 1; SView 0; SView 1; SViewIfNorm 2; SViewIfNorm 2]
                QuotCentralRel) d false None scan st = Some (st', rs) /\
    resp_par (mkFacts [] [] []
                [SReadOld; SSaveY0; SApplyY0; SSetPar Up; SObserve; SSetPar Down; SObserve; SSetPar Back;
                 SObserveIfNorm; SRestoreY0; SView 0; SView 1; SView 0; SView 1; SViewIfNorm 2; SViewIfNorm 2]
                QuotCentralRel) d false None scan st = Some (st, rs') /\
    st_pars st' <> st_pars st /\
    map (fun r => r_obs (snd r)) rs <> map (fun r => r_obs (snd r)) rs'.
Proof. exact views_after_reset_seq_differs_from_par. Qed.
Print Assumptions C18_views_after_reset_seq_differs_from_par.

(** the statement list of the worker BEFORE the repair (fixes/C18-restore-initial-values.diff) does
    not have the property: sequential response_coefficients(variables={x0: 5}) leaves x0 = 5 *)
Theorem C18_unrepaired_worker_refuted :
  exists p y0 st st' rg,
    NoDup (keys (st_pars st)) /\ NoDup (keys (st_inits st)) /\
    exec_prog QuotCentralRel p (Some y0) true (1 # 10000)
      [SReadOld; SApplyY0; SSetPar Up; SObserve; SSetPar Down; SObserve;
       SView 0; SView 1; SView 0; SView 1; SSetPar Back; SObserveIfNorm; SViewIfNorm 2; SViewIfNorm 2]
      st regs0 = Some (st', rg) /\
    st_pars st' = st_pars st /\ st_inits st' <> st_inits st.
Proof. exact unrepaired_worker_changes_inits. Qed.
Print Assumptions C18_unrepaired_worker_refuted.

(** non-vacuity: a two-reaction network with a cubic rate law; the scaled elasticity of v1 = k1 x0^3
    is 3 + d^2 (not 3), of v0 = k0 x0 exactly 1; a worker run with y0 succeeds and restores *)
Example C18_nonvacuous :
  let net := [[(200%N, 1%nat); (100%N, 1%nat)]; [(201%N, 1%nat); (100%N, 3%nat)]] in
  let st := mkState [(200%N, 2); (201%N, 1 # 2)] [(100%N, 2)] in
  option_map (fun t => table_eqb t [(100%N, [Some 1; Some (49 # 16)])])
    (var_elast gen_mca_facts (pl_fluxes net) (1 # 4) true None [100%N] st) = Some true
  /\ (exists rg, worker gen_mca_facts (1 # 4) true (Some [(100%N, 5)]) 201%N st = Some (st, rg)
                 /\ length (r_obs rg) = 3%nat).
Proof.
  cbv zeta. split.
  - vm_compute. reflexivity.
  - eexists. split; vm_compute; reflexivity.
Qed.
Print Assumptions C18_nonvacuous.

(** ---- 4th pass: parameters that act INDIRECTLY (computed parameters, assigned initial values,
         parameter-dependent stoichiometry); McaIndirect.v ------------------------------------------ *)

(** The tree's parameter_elasticities on a model with COMPUTED parameters ([ifluxes]: derived
    parameters with parameter-only arguments and initial-assignment parameters are re-evaluated from
    the base parameter values at every flux evaluation, because update_parameters discards the
    cache): kr = k0 / k1, vmax = k0 * k1, v = (kr x0, vmax x0, k0 x0), d = 1/4, scaled.  The cells
    are the TOTAL kinetic orders through the computed parameters -- k0: 1, 1, 1;  k1: -1 (exactly
    -1/(1 - d^2) = -16/15, the central difference of 1/k), 1, 0 -- and the model is handed back.
    The regenerated facts are used, so an edited routine breaks this obligation as well. *)
Theorem C18_computed_parameters_total_order :
  match par_elast gen_mca_facts (ifluxes w_cps w_net) (1 # 4) true None [200%N; 201%N] w_st with
  | Some (st', t) =>
      state_eqb st' w_st &&
      table_eqb t [(200%N, [Some 1; Some 1; Some 1]); (201%N, [Some (-16 # 15); Some 1; Some 0])]
  | None => false
  end = true.
Proof. exact computed_parameters_total_order. Qed.
Print Assumptions C18_computed_parameters_total_order.

(** REGRESSION (shape of seeded change C18-7): parameter_elasticities that hands the displaced value
    over in the `variables` dict (`variables | {par: value}`) instead of updating the model.  For
    EVERY network, every set of computed parameters, every state, displacement, flag and rule: a
    parameter that no reaction reads directly (it acts through computed parameters only) gets a
    column of zeros (or NaN) -- whatever its true sensitivity is. *)
Theorem C18_override_blind_to_computed_parameters :
  forall (facts : mca_facts) (cps : list cpar) (net : list plrxn) (d : Q) (normalized : bool)
         (pars vars : alist) (p : name) (col : list cell),
    reads p net = false -> has p vars = false ->
    ovr_column facts (ifluxes cps net) d normalized pars vars p = Some col ->
    Forall (fun c => match c with Some v => v == 0 | None => True end) col.
Proof. exact override_blind. Qed.
Print Assumptions C18_override_blind_to_computed_parameters.

(** ... and on the input of [C18_computed_parameters_total_order] that shape returns k0: 0, 0, 1 (only
    the direct order) and k1: 0, 0, 0 instead of 1, 1, 1 and -16/15, 1, 0 *)
Theorem C18_override_refuted :
  match par_elast_ovr w_facts (ifluxes w_cps w_net) (1 # 4) true None [200%N; 201%N] w_st with
  | Some t => table_eqb t [(200%N, [Some 0; Some 0; Some 1]); (201%N, [Some 0; Some 0; Some 0])]
  | None => false
  end = true.
Proof. exact override_witness. Qed.
Print Assumptions C18_override_refuted.

(** Initial values that are ASSIGNMENTS ([IPar p] = the value of parameter p).  The tree's worker
    snapshots the RAW initial values of the variables y0 overrides ([SaveRawOfY0]; pinned through the
    statement text that yields SSaveY0); with no y0 or one overridden variable it hands the model
    back as it found it, assignments included -- for every model content, parameter, displacement,
    flag and rule.  (PARTIAL: several overridden variables at once are validated by the harness, the
    restore of plain numbers for any y0 is C18_worker_restores.) *)
Theorem C18_assigned_initial_values_restored_partial :
  forall (q : quot_kind) (d : Q) (normalized : bool) (y0 : option alist) (p : name) (st st' : istate)
         (obs : list mstate),
    (y0 = None \/ exists x v, y0 = Some [(x, v)]) ->
    iworker SaveRawOfY0 q d normalized y0 p st = Some (st', obs) -> st' = st.
Proof. exact raw_snapshot_restores. Qed.
Print Assumptions C18_assigned_initial_values_restored_partial.

(** non-vacuity + what the runs see: conserved cycle, x0(0) := k2, the caller overrides x1 only;
    scanning k0 then k2, the sequential execution equals the pool, returns the model, and the two runs
    for k2 start from x0(0) = k2 (1 +- d) = 5/2, 3/2 *)
Example C18_assigned_initial_values_nonvacuous :
  match iseq SaveRawOfY0 QuotCentralRelAbs0 (1 # 4) false a_y0 [200%N; 202%N] a_st,
        ipar SaveRawOfY0 QuotCentralRelAbs0 (1 # 4) false a_y0 [200%N; 202%N] a_st with
  | Some (st', rs), Some rs' =>
      istate_eqb st' a_st && obs_eqb rs rs' &&
      obs_eqb (skipn 1 rs) [(202%N, [mkState [(200%N, 1); (201%N, 3); (202%N, 5 # 2)] [(100%N, 5 # 2); (101%N, 1 # 2)];
                                      mkState [(200%N, 1); (201%N, 3); (202%N, 3 # 2)] [(100%N, 3 # 2); (101%N, 1 # 2)]])]
  | _, _ => false
  end = true.
Proof. exact raw_snapshot_witness. Qed.
Print Assumptions C18_assigned_initial_values_nonvacuous.

(** REGRESSION (shape of seeded change C18-8): a worker that snapshots the EVALUATED initial
    conditions of ALL variables (`old_y0 = model.get_initial_conditions()`) and writes them back:
    after one worker the assignment x0(0) := k2 is the number 2; in the sequential execution the runs
    for k2 then start from x0(0) = 2 both times (pool: 5/2 and 3/2), so sequential and parallel
    execution are distinguishable and the model is not handed back *)
Theorem C18_evaluated_snapshot_refuted :
  (match iworker SaveAllEvaluated QuotCentralRelAbs0 (1 # 4) false a_y0 200%N a_st with
   | Some (st', _) => istate_eqb st' (mkIState (is_pars a_st) [(100%N, INum 2); (101%N, INum 0)])
   | None => false end = true) /\
  (match iseq SaveAllEvaluated QuotCentralRelAbs0 (1 # 4) false a_y0 [200%N; 202%N] a_st,
         ipar SaveAllEvaluated QuotCentralRelAbs0 (1 # 4) false a_y0 [200%N; 202%N] a_st with
   | Some (st', rs), Some rs' =>
       negb (istate_eqb st' a_st) && negb (obs_eqb rs rs') &&
       obs_eqb (skipn 1 rs) [(202%N, [mkState [(200%N, 1); (201%N, 3); (202%N, 5 # 2)] [(100%N, 2); (101%N, 1 # 2)];
                                       mkState [(200%N, 1); (201%N, 3); (202%N, 3 # 2)] [(100%N, 2); (101%N, 1 # 2)]])]
   | _, _ => false end = true).
Proof. exact evaluated_snapshot_refuted. Qed.
Print Assumptions C18_evaluated_snapshot_refuted.

(** REGRESSION (shape of seeded change C18-9): response_coefficients that does not run the parameters
    in a set `unused` and reports 0 for them.  -> A -> n B ->  with the yield n used only as a
    stoichiometric coefficient ([ss_yield]: A = k0/k1, B = n k0/k2, J = (k0, k0, n k0), which balances
    the written-out right-hand side); the regenerated worker list + [worker_columns]:
    (i) the tree: R(B, n) = R(v2, n) = 1, everything 0 for the truly unused k4;
    (ii) skipping {n, k4} (n is no ARGUMENT of any reaction): the column of n is 0 throughout;
    (iii) skipping only k4 gives the tree's table. *)
Theorem C18_unused_skip_refuted :
  (forall k0 k1 k2 n : Q, ~ k1 == 0 -> ~ k2 == 0 ->
     k0 - k1 * (k0 / k1) == 0 /\ n * (k1 * (k0 / k1)) - k2 * (n * k0 / k2) == 0) /\
  (match run_tree [203%N; 204%N] with
   | Some t => columns_eqb t [(203%N, ([Some 0; Some 1], [Some 0; Some 0; Some 1]));
                              (204%N, ([Some 0; Some 0], [Some 0; Some 0; Some 0]))]
   | None => false end = true) /\
  (match skip_result [203%N; 204%N] [203%N; 204%N] 2 3 run_tree with
   | Some t => columns_eqb t [(203%N, ([Some 0; Some 0], [Some 0; Some 0; Some 0]));
                              (204%N, ([Some 0; Some 0], [Some 0; Some 0; Some 0]))]
   | None => false end = true) /\
  (match skip_result [204%N] [203%N; 204%N] 2 3 run_tree, run_tree [203%N; 204%N] with
   | Some t, Some t' => columns_eqb t t'
   | _, _ => false end = true).
Proof. exact (conj yield_balance unused_skip_refuted). Qed.
Print Assumptions C18_unused_skip_refuted.
