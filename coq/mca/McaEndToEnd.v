(** C18 -- end to end for the branch point: the worker's statement list, the steady-state function
    of the family (closed form) and the column arithmetic, composed. *)
From Coq Require Import QArith Qfield Lqa List NArith Bool Lia.
From MxlBase Require Import ListX.
From Mca Require Import Mca McaAlgebra McaZero McaRestore McaMoebius.
Import ListNotations.
Open Scope Q_scope.

Lemma Qeq_bool_comp a b : a == b -> Qeq_bool a 0 = Qeq_bool b 0.
Proof.
  intros H. destruct (Qeq_bool a 0) eqn:A, (Qeq_bool b 0) eqn:B; try reflexivity.
  - apply Qeq_bool_iff in A. assert (E : b == 0) by (rewrite <- H; exact A).
    apply Qeq_bool_iff in E. congruence.
  - apply Qeq_bool_iff in B. assert (E : a == 0) by (rewrite H; exact B).
    apply Qeq_bool_iff in E. congruence.
Qed.

(** the cell respects == of its inputs *)
Lemma coef_cell_ext up up' lo lo' base base' old d nrm v' :
  up == up' -> lo == lo' -> base == base' ->
  coef_cell up' lo' base' old d nrm = Some v' ->
  exists v, coef_cell up lo base old d nrm = Some v /\ v == v'.
Proof.
  intros Hu Hl Hb. unfold coef_cell, xdiv. rewrite (Qeq_bool_comp base base' Hb).
  destruct (Qeq_bool (2 * d * old) 0); [destruct nrm; discriminate|].
  destruct nrm.
  - destruct (Qeq_bool base' 0); [discriminate|]. cbn [xmul]. intros H; injection H as <-.
    eexists. split; [reflexivity|]. rewrite Hu, Hl, Hb. reflexivity.
  - intros H; injection H as <-. eexists. split; [reflexivity|]. rewrite Hu, Hl. reflexivity.
Qed.

(** the steady-state function of the branch point  -> x (k0), x -> (k1 x), x -> (k2 x)  with
    k0, k1, k2 = parameters 200, 201, 202 and x = variable 100: the closed form (the unique steady
    state by C18_branch_cycle_steady_state), independent of the initial value *)
Definition ss_branch (pars inits : alist) : option (list Q * list Q) :=
  match get 200%N pars, get 201%N pars, get 202%N pars with
  | Some k0, Some k1, Some k2 =>
      let x := branch_steady k0 k1 k2 in Some ([x], [k0; k1 * x; k2 * x])
  | _, _, _ => None
  end.

Theorem branch_end_to_end facts k0 k1 k2 x0 d y0 :
  f_worker_prog facts = worker_prog_expected ->
  0 < k0 -> 0 < k1 -> 0 < k2 -> ~ d == 0 -> -1 < d -> d < 1 ->
  (forall y, y0 = Some y -> forallb (fun kv => has (fst kv) [(100%N, x0)]) y = true) ->
  let st := mkState [(200%N, k0); (201%N, k1); (202%N, k2)] [(100%N, x0)] in
  exists rg vx vj0 vj1 vj2 ex e1 e2,
    worker facts d true y0 201%N st = Some (st, rg)
    /\ worker_columns facts ss_branch d true rg = Some ([Some vx], [Some vj0; Some vj1; Some vj2])
    /\ vx == - (k1 / (k1 + k2)) * (1 + ex)
    /\ vj0 == 0
    /\ vj1 == k2 / (k1 + k2) * (1 + e1)
    /\ vj2 == - (k1 / (k1 + k2)) * (1 + e2)
    /\ 0 <= ex /\ ex <= d * d / (1 - d * d)
    /\ 0 <= e1 /\ e1 <= d * d / (1 - d * d)
    /\ 0 <= e2 /\ e2 <= d * d / (1 - d * d).
Proof.
  intros Hf H0 H1 H2 Hd D1 D2 Hy. cbv zeta.
  set (st := mkState [(200%N, k0); (201%N, k1); (202%N, k2)] [(100%N, x0)]).
  assert (Hnp : NoDup (keys (st_pars st))).
  { repeat constructor; cbn; intuition discriminate. }
  assert (Hni : NoDup (keys (st_inits st))).
  { repeat constructor; cbn; intuition. }
  assert (Hg : get 201%N (st_pars st) = Some k1) by reflexivity.
  destruct (worker_total_facts facts Hf 201%N y0 true d st k1 Hnp Hni Hg Hy) as [rg Hw].
  destruct (worker_restores_facts facts Hf 201%N y0 true d st st rg Hnp Hni Hw) as [_ [old [Ho [Hro Hobs]]]].
  rewrite Hg in Ho. injection Ho as <-.
  assert (Hk : ~ k1 == 0) by lra.
  destruct (disp_nonzero (f_quot facts) k1 d Hk) as [U [L _]]. rewrite U, L in Hobs.
  (* the Moebius facts *)
  assert (Hs : 0 < k2 + 1 * k1) by lra.
  destruct (moebius_positive k2 1 k1 d) as [A [B [C [R0 R1]]]]; try lra.
  assert (DD : d * d < 1).
  { assert (0 < (1 - d) * (1 + d)) by (apply Qmult_lt_0_compat; lra). lra. }
  assert (P01 : 0 < k0 * k1) by (apply Qmult_lt_0_compat; assumption).
  assert (P02 : 0 < k2 * k0) by (apply Qmult_lt_0_compat; assumption).
  destruct (coef_cell_moebius k0 0 k2 1 k1 d true Hk Hd A B C) as [wx [Ex Vx]]; [intros _; lra|].
  destruct (coef_cell_moebius 0 k0 k2 1 k1 d true Hk Hd A B C) as [w1 [E1 V1]]; [intros _; lra|].
  destruct (coef_cell_moebius (k2 * k0) 0 k2 1 k1 d true Hk Hd A B C) as [w2 [E2 V2]]; [intros _; lra|].
  cbv iota in Vx, V1, V2.
  destruct (moebius_error_bound wx _ _ d R0 R1 DD Vx) as [ex [X1 [X2 X3]]].
  destruct (moebius_error_bound w1 _ _ d R0 R1 DD V1) as [e1 [Y1 [Y2 Y3]]].
  destruct (moebius_error_bound w2 _ _ d R0 R1 DD V2) as [e2 [Z1 [Z2 Z3]]].
  assert (N1 : ~ k1 * (1 + d) + k2 == 0) by (intro E; apply B; rewrite <- E; ring).
  assert (N2 : ~ k1 * (1 - d) + k2 == 0) by (intro E; apply C; rewrite <- E; ring).
  assert (N0 : ~ k1 + k2 == 0) by lra.
  (* transfer to the closed-form values the columns are built from *)
  assert (Cx : exists vx, coef_cell (branch_steady k0 (k1 * (1 + d)) k2) (branch_steady k0 (k1 * (1 - d)) k2)
                            (branch_steady k0 k1 k2) k1 d true = Some vx /\ vx == wx).
  { apply (coef_cell_ext _ (moebius k0 0 k2 1 (k1 * (1 + d))) _ (moebius k0 0 k2 1 (k1 * (1 - d)))
             _ (moebius k0 0 k2 1 k1) k1 d true wx); try exact Ex;
      unfold branch_steady, moebius; field; repeat split;
      first [assumption | intro E; apply N1; rewrite <- E; ring | intro E; apply N2; rewrite <- E; ring
            | intro E; apply N0; rewrite <- E; ring]. }
  assert (C1 : exists vj1, coef_cell (k1 * (1 + d) * branch_steady k0 (k1 * (1 + d)) k2)
                             (k1 * (1 - d) * branch_steady k0 (k1 * (1 - d)) k2)
                             (k1 * branch_steady k0 k1 k2) k1 d true = Some vj1 /\ vj1 == w1).
  { apply (coef_cell_ext _ (moebius 0 k0 k2 1 (k1 * (1 + d))) _ (moebius 0 k0 k2 1 (k1 * (1 - d)))
             _ (moebius 0 k0 k2 1 k1) k1 d true w1); try exact E1;
      unfold branch_steady, moebius; field; repeat split;
      first [assumption | intro E; apply N1; rewrite <- E; ring | intro E; apply N2; rewrite <- E; ring
            | intro E; apply N0; rewrite <- E; ring]. }
  assert (C2 : exists vj2, coef_cell (k2 * branch_steady k0 (k1 * (1 + d)) k2)
                             (k2 * branch_steady k0 (k1 * (1 - d)) k2)
                             (k2 * branch_steady k0 k1 k2) k1 d true = Some vj2 /\ vj2 == w2).
  { apply (coef_cell_ext _ (moebius (k2 * k0) 0 k2 1 (k1 * (1 + d))) _ (moebius (k2 * k0) 0 k2 1 (k1 * (1 - d)))
             _ (moebius (k2 * k0) 0 k2 1 k1) k1 d true w2); try exact E2;
      unfold branch_steady, moebius; field; repeat split;
      first [assumption | intro E; apply N1; rewrite <- E; ring | intro E; apply N2; rewrite <- E; ring
            | intro E; apply N0; rewrite <- E; ring]. }
  destruct Cx as [vx [Cx Qx]]. destruct C1 as [vj1 [C1 Q1]]. destruct C2 as [vj2 [C2 Q2]].
  assert (C0 : exists vj0, coef_cell k0 k0 k0 k1 d true = Some vj0 /\ vj0 == 0).
  { unfold coef_cell. rewrite (xdiv_some _ _ (two_d_x_nonzero d k1 Hd Hk)).
    assert (K0 : ~ k0 == 0) by lra. rewrite (xdiv_some _ _ K0). cbn [xmul].
    eexists. split; [reflexivity|]. field. repeat split; assumption. }
  destruct C0 as [vj0 [C0 Q0]].
  exists rg, vx, vj0, vj1, vj2, ex, e1, e2.
  split; [exact Hw|]. split.
  { unfold worker_columns. rewrite Hro, Hobs. unfold st.
    cbn [app st_pars st_inits set get N.eqb Pos.eqb ss_branch column zip3 map].
    rewrite !(coef_cell_q_nonzero _ _ _ _ _ _ _ Hk). rewrite Cx, C0, C1, C2. reflexivity. }
  split. { rewrite Qx, X1. unfold mderiv, moebius. field. repeat split; lra. }
  split; [exact Q0|].
  split. { rewrite Q1, Y1. unfold mderiv, moebius. field. repeat split; lra. }
  split. { rewrite Q2, Z1. unfold mderiv, moebius. field. repeat split; lra. }
  repeat split; assumption.
Qed.
