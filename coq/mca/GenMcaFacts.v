(* REGENERATED from src/mxlpy/mca.py by harness/c18.py; do not edit.  An unrecognised statement
   yields SUnknown / QuotUnknown, which breaks C18_facts_pinned. *)
From Coq Require Import QArith List.
From Mca Require Import Mca.
Import ListNotations.
Definition gen_mca_facts : mca_facts := mkFacts
  [(1 # 10000)%Q; (1 # 10000)%Q; (1 # 10000)%Q; (1 # 10000)%Q]
  [SObserve; SObserve; SObserveIfNorm]
  [SReadOld; (SSetPar Up); SObserve; (SSetPar Down); SObserve; (SSetPar Back); SObserveIfNorm]
  [SReadOld; SSaveY0; SApplyY0; (SSetPar Up); SObserve; (SSetPar Down); SObserve; (SView 0); (SView 1); (SView 0); (SView 1); (SSetPar Back); SObserveIfNorm; (SViewIfNorm 2); (SViewIfNorm 2); SRestoreY0]
  QuotCentralRelAbs0.
