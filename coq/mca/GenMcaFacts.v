From Coq Require Import QArith List.
From Mca Require Import Mca.
Import ListNotations.
Definition gen_mca_facts : mca_facts := mkFacts [] [] [] [] QuotUnknown.
