(** C18 -- TINY but non-zero values.

    The rule of the tree ([QuotCentralRelAbs0], as every rule the extractor can regenerate) displaces
    EVERY non-zero value relatively, however small: the scaled coefficient of  c * v^n  does not depend
    on the value at all (it is sdiff n d^2, within [n, n + 2^n d^2]) and the unscaled one is
    c x^(n-1) (n + e)  with the same relative error -- these are the bounds the oracle applies to the
    nanomolar-range stream (powers of two down to 2^-40).

    Regression model [coef_cell_tol]: a helper that tests  math.isclose(value, 0, abs_tol=tol)  instead
    of  value == 0.  Within the tolerance the quotient is the slope of the secant through 0 +- d,
    c * zdiff n d^2 = 0, c, 0, c d^2, 0, ...: right for order 1 only (which is why mass-action test
    networks do not notice), 0 for every even order.  Exact algebra over Q. *)
From Coq Require Import QArith Qabs Qfield Lqa List Lia Morphisms NArith.
From Mca Require Import Mca McaAlgebra McaZero.
Open Scope Q_scope.

(* ------------------------------------------------------------------ the tree's rule off zero *)

Lemma sq_nonneg d : 0 <= d * d.
Proof.
  destruct (Qlt_le_dec d 0) as [N|P].
  - setoid_replace (d * d) with ((- d) * (- d)) by ring. apply Qmult_le_0_compat; lra.
  - apply Qmult_le_0_compat; assumption.
Qed.

(** every rule, every non-zero value, every order, scaled and unscaled: the cell formed from the
    rule's own two points is the kinetic order / partial derivative up to the relative truncation
    error e in [0, 2^n d^2] -- no lower limit on |x| *)
Theorem rule_cell_any_nonzero q c x d n (normalized : bool) :
  ~ x == 0 -> ~ d == 0 -> d * d <= 1 -> (normalized = true -> ~ c == 0) ->
  exists v e,
    coef_cell_q q (c * qpow (disp_up q x d) n) (c * qpow (disp_lo q x d) n) (c * qpow x n) x d normalized = Some v
    /\ 0 <= e /\ e <= qpow 2 n * (d * d)
    /\ v == (if normalized then qnat n + e else c * qpow x (pred n) * (qnat n + e)).
Proof.
  intros Hx Hd H1 Hc.
  destruct (disp_nonzero q x d Hx) as [U [L _]]. rewrite U, L.
  rewrite (coef_cell_q_nonzero q _ _ _ x d normalized Hx).
  destruct (coef_cell_power_law c x d n normalized Hx Hd Hc) as [v [E V]].
  destruct (sdiff_bound n (d * d) (sq_nonneg d) H1) as [S0 S1].
  exists v, (sdiff n (d * d) - qnat n). split; [exact E|]. split; [lra|]. split; [lra|].
  rewrite V. destruct normalized; ring.
Qed.

(** the scaled coefficient is scale free: the same at any two non-zero values *)
Theorem rule_cell_scale_free q c c' x x' d n :
  ~ x == 0 -> ~ x' == 0 -> ~ d == 0 -> ~ c == 0 -> ~ c' == 0 ->
  exists v v',
    coef_cell_q q (c * qpow (disp_up q x d) n) (c * qpow (disp_lo q x d) n) (c * qpow x n) x d true = Some v
    /\ coef_cell_q q (c' * qpow (disp_up q x' d) n) (c' * qpow (disp_lo q x' d) n) (c' * qpow x' n) x' d true = Some v'
    /\ v == v'.
Proof.
  intros Hx Hx' Hd Hc Hc'.
  destruct (disp_nonzero q x d Hx) as [U [L _]]. destruct (disp_nonzero q x' d Hx') as [U' [L' _]].
  rewrite U, L, U', L'.
  rewrite (coef_cell_q_nonzero q _ _ _ x d true Hx), (coef_cell_q_nonzero q _ _ _ x' d true Hx').
  destruct (coef_cell_power_law c x d n true Hx Hd (fun _ => Hc)) as [v [E V]].
  destruct (coef_cell_power_law c' x' d n true Hx' Hd (fun _ => Hc')) as [v' [E' V']].
  exists v, v'. split; [exact E|]. split; [exact E'|]. rewrite V, V'. reflexivity.
Qed.

(* ------------------------------------------------------------------ the tolerance-based test *)

Lemma near0_true tol x : Qabs x <= tol -> near0 tol x = true.
Proof. intros H. unfold near0. apply Qle_bool_iff. exact H. Qed.

Lemma near0_false tol x : tol < Qabs x -> near0 tol x = false.
Proof.
  intros H. unfold near0. destruct (Qle_bool (Qabs x) tol) eqn:E; [|reflexivity].
  apply Qle_bool_iff in E. exfalso. apply (Qlt_not_le _ _ H). exact E.
Qed.

Lemma Qabs_zero_iff x : Qabs x <= 0 <-> x == 0.
Proof.
  split.
  - intros H. pose proof (Qabs_nonneg x) as N. apply Qabs_Qle_condition in H. destruct H as [A B]. lra.
  - intros H. rewrite H. cbn. lra.
Qed.

(** tolerance 0 is the helper of the tree *)
Lemma near0_zero x : near0 0 x = Qeq_bool x 0.
Proof.
  unfold near0. destruct (Qeq_bool x 0) eqn:E.
  - apply Qeq_bool_iff in E. apply Qle_bool_iff. apply Qabs_zero_iff. exact E.
  - destruct (Qle_bool (Qabs x) 0) eqn:F; [|reflexivity].
    apply Qle_bool_iff in F. apply Qabs_zero_iff in F. apply Qeq_bool_iff in F. congruence.
Qed.

Theorem tol_zero_is_abs0 up lo base x d nrm :
  disp_up_tol 0 x d = disp_up QuotCentralRelAbs0 x d
  /\ disp_lo_tol 0 x d = disp_lo QuotCentralRelAbs0 x d
  /\ coef_cell_tol 0 up lo base x d nrm = coef_cell_q QuotCentralRelAbs0 up lo base x d nrm.
Proof.
  unfold coef_cell_tol, coef_cell_q, disp_up_tol, disp_lo_tol, disp_width_tol, disp_up, disp_lo, disp_width.
  rewrite near0_zero. repeat split.
Qed.

(** outside the tolerance it is the relative rule *)
Theorem tol_outside_is_relative tol up lo base x d nrm : tol < Qabs x -> 0 <= tol ->
  disp_up_tol tol x d = x * (1 + d) /\ disp_lo_tol tol x d = x * (1 - d)
  /\ coef_cell_tol tol up lo base x d nrm = coef_cell up lo base x d nrm.
Proof.
  intros H _. unfold coef_cell_tol, coef_cell, disp_up_tol, disp_lo_tol, disp_width_tol.
  rewrite (near0_false tol x H). repeat split.
Qed.

Lemma disp_tol_inside tol x d : Qabs x <= tol ->
  disp_up_tol tol x d = d /\ disp_lo_tol tol x d = - d /\ disp_width_tol tol x d = 2 * d.
Proof.
  intros H. unfold disp_up_tol, disp_lo_tol, disp_width_tol. rewrite (near0_true tol x H). repeat split.
Qed.

(** (+-d)^n for even / odd n *)
Lemma zsc_parity k D :
  zdiff (2 * k) D == 0 /\ zcsum (2 * k) D == qpow D k
  /\ zdiff (S (2 * k)) D == qpow D k /\ zcsum (S (2 * k)) D == 0.
Proof.
  induction k as [|k [A [B [C E]]]].
  - cbn [Nat.mul]. rewrite zdiff_S, zcsum_S, zdiff_0, zcsum_0. cbn [qpow]. repeat split; try reflexivity; ring.
  - replace (2 * S k)%nat with (S (S (2 * k))) by lia.
    rewrite (zdiff_S (S (S (2 * k)))), (zcsum_S (S (S (2 * k)))), (zdiff_S (S (2 * k))), (zcsum_S (S (2 * k))).
    rewrite E, C, qpow_S. repeat split; try reflexivity; ring.
Qed.

Lemma zdiff_even k D : zdiff (2 * k) D == 0.
Proof. exact (proj1 (zsc_parity k D)). Qed.

Lemma zdiff_1 D : zdiff 1 D == 1.
Proof. rewrite zdiff_S, zcsum_0. reflexivity. Qed.

(** within the tolerance: the unscaled cell of  c * v^n  is the secant slope  c * zdiff n d^2,
    whatever the value x is *)
Theorem coef_cell_tol_secant tol c x d n base : Qabs x <= tol -> ~ d == 0 ->
  exists v,
    coef_cell_tol tol (c * qpow (disp_up_tol tol x d) n) (c * qpow (disp_lo_tol tol x d) n) base x d false = Some v
    /\ v == c * zdiff n (d * d).
Proof.
  intros Hx Hd. destruct (disp_tol_inside tol x d Hx) as [U [L W]]. unfold coef_cell_tol. rewrite U, L, W.
  rewrite (xdiv_some _ _ (two_d_nonzero d Hd)). eexists. split; [reflexivity|].
  rewrite zd_numerator. field. exact Hd.
Qed.

(** the same with the order-1 case spelled out: the secant of a linear function has the right slope *)
Theorem coef_cell_tol_secant1 tol c x d n base : Qabs x <= tol -> ~ d == 0 ->
  exists v,
    coef_cell_tol tol (c * qpow (disp_up_tol tol x d) n) (c * qpow (disp_lo_tol tol x d) n) base x d false = Some v
    /\ v == c * zdiff n (d * d) /\ (n = 1%nat -> v == c).
Proof.
  intros Hx Hd. destruct (coef_cell_tol_secant tol c x d n base Hx Hd) as [v [E V]].
  exists v. split; [exact E|]. split; [exact V|]. intros ->. rewrite V, zdiff_1. ring.
Qed.

(** ... right for kinetic order 1 (the secant of a linear function has the right slope) ... *)
Corollary coef_cell_tol_order1 tol c x d base : Qabs x <= tol -> ~ d == 0 ->
  exists v,
    coef_cell_tol tol (c * qpow (disp_up_tol tol x d) 1) (c * qpow (disp_lo_tol tol x d) 1) base x d false = Some v
    /\ v == c.
Proof.
  intros Hx Hd. destruct (coef_cell_tol_secant tol c x d 1 base Hx Hd) as [v [E V]].
  exists v. split; [exact E|]. rewrite V, zdiff_1. ring.
Qed.

(** ... and 0 for every even order 2k >= 2 at a NON-ZERO value within the tolerance, unscaled and
    scaled, although the partial derivative  2k c x^(2k-1)  is not 0 and the kinetic order is 2k;
    the rule of the tree returns at least the kinetic order there *)
Theorem coef_cell_tol_even_refuted tol c x d k :
  ~ x == 0 -> Qabs x <= tol -> ~ c == 0 -> ~ d == 0 -> d * d <= 1 -> (1 <= k)%nat ->
  let n := (2 * k)%nat in
  (exists v, coef_cell_tol tol (c * qpow (disp_up_tol tol x d) n) (c * qpow (disp_lo_tol tol x d) n)
               (c * qpow x n) x d false = Some v /\ v == 0)
  /\ (exists v, coef_cell_tol tol (c * qpow (disp_up_tol tol x d) n) (c * qpow (disp_lo_tol tol x d) n)
                  (c * qpow x n) x d true = Some v /\ v == 0)
  /\ ~ c * qnat n * qpow x (pred n) == 0
  /\ 1 <= qnat n
  /\ (exists w, coef_cell_q QuotCentralRelAbs0
                  (c * qpow (disp_up QuotCentralRelAbs0 x d) n) (c * qpow (disp_lo QuotCentralRelAbs0 x d) n)
                  (c * qpow x n) x d true = Some w /\ qnat n <= w).
Proof.
  intros Hx Hin Hc Hd H1 Hk n.
  assert (Hn : 1 <= qnat n).
  { unfold n. replace (2 * k)%nat with (S (pred (2 * k))) by lia. cbn [qnat].
    pose proof (qnat_nonneg (pred (2 * k))). lra. }
  destruct (coef_cell_tol_secant tol c x d n (c * qpow x n) Hin Hd) as [v [E V]].
  assert (V0 : v == 0) by (rewrite V; unfold n; rewrite zdiff_even; ring).
  split; [exists v; split; assumption|].
  split.
  { (* scaled *)
    revert E. unfold coef_cell_tol. intros E. rewrite E.
    assert (Hb : ~ c * qpow x n == 0).
    { intro H. apply Qmult_integral in H. destruct H as [H|H]; [tauto|]. revert H. apply qpow_nonzero. exact Hx. }
    rewrite (xdiv_some _ _ Hb). cbn [xmul]. eexists. split; [reflexivity|]. rewrite V0. ring. }
  split.
  { intro H. apply Qmult_integral in H. destruct H as [H|H].
    - apply Qmult_integral in H. destruct H as [H|H]; [tauto|]. lra.
    - revert H. apply qpow_nonzero. exact Hx. }
  split; [exact Hn|].
  destruct (rule_cell_any_nonzero QuotCentralRelAbs0 c x d n true Hx Hd H1 (fun _ => Hc)) as [w [e [E' [e0 [_ W]]]]].
  exists w. split; [exact E'|]. cbv iota in W. lra.
Qed.

(** the seeded change's own example: v = k S^2, k = 3, S = 2e-9, tolerance 1e-8, displacement 1e-4:
    the tolerance-based helper gives scaled 0 and unscaled 0; the helper of the tree gives scaled 2 and
    unscaled 2 k S = 12e-9, exactly (order 2) *)
Lemma tol_witness :
  let c := 3 in let x := 2 # 1000000000 in let d := 1 # 10000 in let tol := 1 # 100000000 in
  let cell_t nrm := coef_cell_tol tol (c * qpow (disp_up_tol tol x d) 2) (c * qpow (disp_lo_tol tol x d) 2)
                      (c * qpow x 2) x d nrm in
  let cell_a nrm := coef_cell_q QuotCentralRelAbs0 (c * qpow (disp_up QuotCentralRelAbs0 x d) 2)
                      (c * qpow (disp_lo QuotCentralRelAbs0 x d) 2) (c * qpow x 2) x d nrm in
  cell_eqb (cell_t true) (Some 0) = true /\ cell_eqb (cell_t false) (Some 0) = true
  /\ cell_eqb (cell_a true) (Some 2) = true /\ cell_eqb (cell_a false) (Some (12 # 1000000000)) = true.
Proof. cbv zeta. repeat split; vm_compute; reflexivity. Qed.
