(** C18 -- algebra of the central difference with relative displacement (over Q, exact). *)
From Coq Require Import QArith Qfield Lqa List.
From Mca Require Import Mca.
Open Scope Q_scope.

Lemma sdiff_S n D : sdiff (S n) D = sdiff n D + csum n D.
Proof. unfold sdiff, csum. cbn [sc]. destruct (sc n D). reflexivity. Qed.
Lemma csum_S n D : csum (S n) D = csum n D + D * sdiff n D.
Proof. unfold sdiff, csum. cbn [sc]. destruct (sc n D). reflexivity. Qed.
Lemma sdiff_0 D : sdiff 0 D = 0. Proof. reflexivity. Qed.
Lemma csum_0 D : csum 0 D = 1. Proof. reflexivity. Qed.

Lemma qpow_S x n : qpow x (S n) = x * qpow x n. Proof. reflexivity. Qed.

Lemma qpow_mul a b n : qpow (a * b) n == qpow a n * qpow b n.
Proof. induction n as [|n IH]; [reflexivity|]. rewrite !qpow_S, IH. ring. Qed.

Lemma qpow_nonzero x n : ~ x == 0 -> ~ qpow x n == 0.
Proof.
  intros Hx. induction n as [|n IH]; [discriminate|].
  rewrite qpow_S. intro H. apply Qmult_integral in H. tauto.
Qed.

Lemma qpow_add x n m : qpow x (n + m) == qpow x n * qpow x m.
Proof. induction n as [|n IH]; cbn [Nat.add]; [rewrite (qpow_S x 0) || idtac; cbn [qpow]; ring|]. rewrite !qpow_S, IH. ring. Qed.

(** (1 +- d)^n = csum +- d * sdiff *)
Lemma qpow_binom n d :
  qpow (1 + d) n == csum n (d * d) + d * sdiff n (d * d) /\
  qpow (1 - d) n == csum n (d * d) - d * sdiff n (d * d).
Proof.
  induction n as [|n [A B]].
  - rewrite sdiff_0, csum_0. cbn [qpow]. split; ring.
  - rewrite sdiff_S, csum_S, !qpow_S, A, B. split; ring.
Qed.

(** numerator of the central difference of c * v^n at v = x with relative displacement d *)
Lemma cd_numerator c x d n :
  c * qpow (x * (1 + d)) n - c * qpow (x * (1 - d)) n
  == 2 * d * x * (c * qpow x (pred n) * sdiff n (d * d)).
Proof.
  rewrite !qpow_mul. destruct (qpow_binom n d) as [A B]. rewrite A, B.
  destruct n as [|m].
  - rewrite sdiff_0, csum_0. cbn [qpow pred]. ring.
  - cbn [pred]. rewrite (qpow_S x m). ring.
Qed.

Lemma xdiv_some a b : ~ b == 0 -> xdiv a b = Some (a / b).
Proof.
  intros Hb. unfold xdiv. destruct (Qeq_bool b 0) eqn:E; [|reflexivity].
  apply Qeq_bool_iff in E. contradiction.
Qed.

Lemma xdiv_zero a b : b == 0 -> xdiv a b = None.
Proof. intros Hb. unfold xdiv. apply Qeq_bool_iff in Hb. rewrite Hb. reflexivity. Qed.

Lemma two_d_x_nonzero d x : ~ d == 0 -> ~ x == 0 -> ~ 2 * d * x == 0.
Proof.
  intros Hd Hx H. apply Qmult_integral in H. destruct H as [H|H]; [|tauto].
  apply Qmult_integral in H. destruct H as [H|H]; [discriminate|tauto].
Qed.

(** the cell computed by all three routines for a quantity that enters as  c * v^n :
    unscaled  = c * x^(n-1) * sdiff n d^2   (the partial derivative is  n * c * x^(n-1)),
    scaled    = sdiff n d^2                 (the kinetic order is n) *)
Theorem coef_cell_power_law c x d n (normalized : bool) :
  ~ x == 0 -> ~ d == 0 -> (normalized = true -> ~ c == 0) ->
  exists v,
    coef_cell (c * qpow (x * (1 + d)) n) (c * qpow (x * (1 - d)) n) (c * qpow x n) x d normalized = Some v
    /\ v == (if normalized then sdiff n (d * d) else c * qpow x (pred n) * sdiff n (d * d)).
Proof.
  intros Hx Hd Hc. unfold coef_cell.
  pose proof (two_d_x_nonzero d x Hd Hx) as H2.
  rewrite (xdiv_some _ _ H2).
  destruct normalized.
  - assert (Hc' : ~ c == 0) by (apply Hc; reflexivity).
    assert (Hb : ~ c * qpow x n == 0).
    { intro H. apply Qmult_integral in H. destruct H as [H|H]; [tauto|]. revert H. apply qpow_nonzero. exact Hx. }
    rewrite (xdiv_some _ _ Hb). cbn [xmul]. eexists. split; [reflexivity|].
    rewrite cd_numerator. destruct n as [|m].
    + rewrite sdiff_0. cbn [qpow pred]. field. repeat split; assumption.
    + cbn [pred]. rewrite (qpow_S x m).
      pose proof (qpow_nonzero x m Hx) as Hm. field. repeat split; assumption.
  - eexists. split; [reflexivity|]. rewrite cd_numerator. field. split; assumption.
Qed.

(** at a zero value (or zero displacement) the relative displacement is 0 and the cell is NaN *)
Lemma coef_cell_zero_state up lo base d normalized : coef_cell up lo base 0 d normalized = None.
Proof.
  unfold coef_cell. rewrite xdiv_zero by ring. destruct normalized; reflexivity.
Qed.

(** exactness for kinetic orders <= 2 *)
Lemma sdiff_le2 n D : (n <= 2)%nat -> sdiff n D == qnat n.
Proof.
  intros H. destruct n as [|[|[|n]]].
  - reflexivity.
  - rewrite sdiff_S, sdiff_0, csum_0. cbn [qnat]. ring.
  - rewrite sdiff_S, sdiff_S, csum_S, sdiff_0, csum_0. cbn [qnat]. ring.
  - exfalso. repeat apply le_S_n in H. inversion H.
Qed.

Lemma sdiff_3 D : sdiff 3 D == 3 + D.
Proof. repeat (rewrite sdiff_S || rewrite csum_S). rewrite !sdiff_0, !csum_0. ring. Qed.

Lemma qnat_nonneg n : 0 <= qnat n.
Proof. induction n as [|n IH]; cbn [qnat]; lra. Qed.

(** truncation bound for every order *)
Lemma sc_bounds n D : 0 <= D -> D <= 1 ->
  qnat n <= sdiff n D /\ 1 <= csum n D /\
  (csum n D - 1) + (sdiff n D - qnat n) + qnat n * D + D <= D * qpow 2 n.
Proof.
  intros H0 H1. induction n as [|n [A [B C]]].
  - rewrite sdiff_0, csum_0. cbn [qnat qpow]. repeat split; lra.
  - rewrite sdiff_S, csum_S, qpow_S. cbn [qnat].
    pose proof (qnat_nonneg n) as Hq.
    assert (Hs : 0 <= D * sdiff n D) by (apply Qmult_le_0_compat; lra).
    assert (He : 0 <= (1 - D) * (sdiff n D - qnat n)) by (apply Qmult_le_0_compat; lra).
    assert (Hqd : 0 <= qnat n * D) by (apply Qmult_le_0_compat; lra).
    repeat split; lra.
Qed.

Theorem sdiff_bound n D : 0 <= D -> D <= 1 ->
  qnat n <= sdiff n D /\ sdiff n D <= qnat n + qpow 2 n * D.
Proof.
  intros H0 H1. destruct (sc_bounds n D H0 H1) as [A [B C]]. split; [exact A|].
  pose proof (qnat_nonneg n) as Hq.
  assert (Hqd : 0 <= qnat n * D) by (apply Qmult_le_0_compat; lra).
  assert (E : qpow 2 n * D == D * qpow 2 n) by ring. rewrite E. lra.
Qed.

(** a quantity that enters as  c / v  (e.g. the steady state k0 / k1 of a linear chain as a function
    of k1): the scaled coefficient is  -1 / (1 - d^2)  -- the sensitivity is -1, relative error d^2/(1-d^2) *)
Theorem coef_cell_reciprocal c k d :
  ~ k == 0 -> ~ d == 0 -> ~ c == 0 -> ~ 1 + d == 0 -> ~ 1 - d == 0 ->
  exists v, coef_cell (c / (k * (1 + d))) (c / (k * (1 - d))) (c / k) k d true = Some v
            /\ v == - (1 / (1 - d * d)) /\ v == -1 * (1 + d * d / (1 - d * d)).
Proof.
  intros Hk Hd Hc Hp Hm. unfold coef_cell.
  rewrite (xdiv_some _ _ (two_d_x_nonzero d k Hd Hk)).
  assert (Hb : ~ c / k == 0).
  { intro H. apply Hc. setoid_replace c with (c / k * k) by (field; exact Hk). rewrite H. ring. }
  rewrite (xdiv_some _ _ Hb). cbn [xmul]. eexists. split; [reflexivity|].
  assert (Hdd : ~ 1 - d * d == 0).
  { intro H. setoid_replace (1 - d * d) with ((1 + d) * (1 - d)) in H by ring.
    apply Qmult_integral in H. tauto. }
  split; field; repeat split; assumption.
Qed.
