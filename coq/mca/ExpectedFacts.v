(** Hand-edited (together with a [fix:] commit in /repo only): which displacement rule PropsC18.v
    expects the extractor to regenerate from the current tree.

    [C18_expected_quot]
      QuotCentralRel      the snapshot: every routine displaces  old * (1 +- d)  and divides by
                          2 * d * old, so a scanned value of exactly 0 gives NaN (0/0) for the whole
                          column (recorded finding c18-zero-state; theorem C18_zero_state_refuted
                          applies to the tree)
      QuotCentralRelAbs0  after fixes/C18-zero-state.diff: the helper [_displace] displaces a zero
                          value by +-d in absolute terms (theorems C18_zero_state_repaired_* apply to
                          the tree; C18_zero_state_refuted stays as the regression theorem about the
                          old rule)
    tools/c18_switch.py rewrites this line and known_findings.d/C18.json consistently. *)
From Mca Require Import Mca.

Definition C18_expected_quot : quot_kind := QuotCentralRelAbs0.
