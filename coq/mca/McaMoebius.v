(** C18 -- response coefficients of the mass-action families with a closed-form steady state.

    For the linear chain, the branch point and the conserved cycle the steady-state concentrations
    and fluxes are, as functions of ONE rate constant k, Moebius functions (a + b k) / (e + g k)
    (proved below: the closed forms are THE steady states of the written-out right-hand sides).
    The central difference with relative displacement of a Moebius function is computed exactly:
        cell * (1 - rho^2 d^2) = f'(k)        with rho = g k / (e + g k),
    so for non-negative coefficients (0 <= rho <= 1) the relative truncation error lies in
    [0, d^2 / (1 - d^2)].  What stays validated: that the solver returns the steady state. *)
From Coq Require Import QArith Qfield Lqa List Reals Lia.
From Mca Require Import Mca McaAlgebra.
Import ListNotations.
Open Scope Q_scope.

Definition mrho (e g k : Q) : Q := g * k / (e + g * k).
Definition mderiv (a b e g k : Q) : Q := (b * e - a * g) / ((e + g * k) * (e + g * k)).

Lemma moebius_diff a b e g k h : ~ e + g * (k + h) == 0 -> ~ e + g * (k - h) == 0 ->
  moebius a b e g (k + h) - moebius a b e g (k - h)
  == 2 * h * (b * e - a * g) / ((e + g * (k + h)) * (e + g * (k - h))).
Proof. intros H1 H2. unfold moebius. field. split; assumption. Qed.

Lemma den_product e g k d :
  (e + g * (k * (1 + d))) * (e + g * (k * (1 - d)))
  == (e + g * k) * (e + g * k) - (g * k * d) * (g * k * d).
Proof. ring. Qed.

(** the cell for a Moebius dependence, unscaled and scaled, exactly *)
Theorem coef_cell_moebius a b e g k d (normalized : bool) :
  ~ k == 0 -> ~ d == 0 -> ~ e + g * k == 0 ->
  ~ e + g * (k * (1 + d)) == 0 -> ~ e + g * (k * (1 - d)) == 0 ->
  (normalized = true -> ~ a + b * k == 0) ->
  exists v,
    coef_cell (moebius a b e g (k * (1 + d))) (moebius a b e g (k * (1 - d))) (moebius a b e g k) k d normalized
    = Some v
    /\ v * (1 - mrho e g k * mrho e g k * (d * d))
       == (if normalized then k * mderiv a b e g k / moebius a b e g k else mderiv a b e g k).
Proof.
  intros Hk Hd He Hu Hl Hn. unfold coef_cell.
  rewrite (xdiv_some _ _ (two_d_x_nonzero d k Hd Hk)).
  assert (Hu' : ~ e + g * (k + k * d) == 0) by (intro H; apply Hu; rewrite <- H; ring).
  assert (Hl' : ~ e + g * (k - k * d) == 0) by (intro H; apply Hl; rewrite <- H; ring).
  assert (N : moebius a b e g (k * (1 + d)) - moebius a b e g (k * (1 - d))
              == 2 * (k * d) * (b * e - a * g) / ((e + g * (k * (1 + d))) * (e + g * (k * (1 - d))))).
  { unfold moebius. field. split; assumption. }
  destruct normalized.
  - assert (Ha : ~ a + b * k == 0) by (apply Hn; reflexivity).
    assert (Hb : ~ moebius a b e g k == 0).
    { unfold moebius. intro H. apply Ha.
      setoid_replace (a + b * k) with ((a + b * k) / (e + g * k) * (e + g * k)) by (field; exact He).
      rewrite H. ring. }
    rewrite (xdiv_some _ _ Hb). cbn [xmul]. eexists. split; [reflexivity|].
    rewrite N. unfold mrho, mderiv, moebius. field. repeat split; assumption.
  - eexists. split; [reflexivity|]. rewrite N. unfold mrho, mderiv. field. repeat split; assumption.
Qed.

(** non-negative coefficients: 0 <= rho <= 1, all denominators positive *)
Lemma moebius_positive e g k d : 0 <= e -> 0 <= g -> 0 < k -> 0 < e + g * k -> -1 < d -> d < 1 ->
  ~ e + g * k == 0 /\ ~ e + g * (k * (1 + d)) == 0 /\ ~ e + g * (k * (1 - d)) == 0
  /\ 0 <= mrho e g k /\ mrho e g k <= 1.
Proof.
  intros He Hg Hk Hs D1 D2.
  assert (Hgk : 0 <= g * k) by (apply Qmult_le_0_compat; lra).
  assert (P1 : 0 <= (g * k) * (1 + d)) by (apply Qmult_le_0_compat; lra).
  assert (P2 : 0 <= (g * k) * (1 - d)) by (apply Qmult_le_0_compat; lra).
  assert (U : 0 < e + g * (k * (1 + d))).
  { destruct (Qlt_le_dec 0 e) as [E|E]; [lra|].
    assert (E0 : e == 0) by lra. assert (G : 0 < g * k) by lra.
    assert (0 < (g * k) * (1 + d)) by (apply Qmult_lt_0_compat; lra). lra. }
  assert (L : 0 < e + g * (k * (1 - d))).
  { destruct (Qlt_le_dec 0 e) as [E|E]; [lra|].
    assert (E0 : e == 0) by lra. assert (G : 0 < g * k) by lra.
    assert (0 < (g * k) * (1 - d)) by (apply Qmult_lt_0_compat; lra). lra. }
  split; [lra|]. split; [lra|]. split; [lra|]. unfold mrho. split.
  - apply Qle_shift_div_l; [exact Hs|]. lra.
  - apply Qle_shift_div_r; [exact Hs|]. lra.
Qed.

(** ... hence the relative truncation error is in [0, d^2 / (1 - d^2)] *)
Theorem moebius_error_bound v t r d : 0 <= r -> r <= 1 -> d * d < 1 ->
  v * (1 - r * r * (d * d)) == t ->
  exists err, v == t * (1 + err) /\ 0 <= err /\ err <= d * d / (1 - d * d).
Proof.
  intros R0 R1 HD E.
  assert (D0 : 0 <= d * d).
  { destruct (Qlt_le_dec d 0) as [N|P].
    - setoid_replace (d * d) with ((- d) * (- d)) by ring. apply Qmult_le_0_compat; lra.
    - apply Qmult_le_0_compat; assumption. }
  assert (RR0 : 0 <= r * r) by (apply Qmult_le_0_compat; assumption).
  assert (RR1 : r * r <= 1).
  { assert (0 <= (1 - r) * (1 + r)) by (apply Qmult_le_0_compat; lra). lra. }
  set (s := r * r * (d * d)) in *.
  assert (S0 : 0 <= s) by (apply Qmult_le_0_compat; assumption).
  assert (S1 : s <= d * d).
  { assert (0 <= (1 - r * r) * (d * d)) by (apply Qmult_le_0_compat; lra). unfold s. lra. }
  assert (P : 0 < 1 - s) by lra.
  exists (s / (1 - s)). split; [|split].
  - rewrite <- E. field. lra.
  - apply Qle_shift_div_l; [exact P|]. lra.
  - apply Qle_shift_div_r; [exact P|].
    setoid_replace (d * d / (1 - d * d) * (1 - s)) with (d * d * (1 - s) / (1 - d * d)) by (field; lra).
    apply Qle_shift_div_l; [lra|].
    setoid_replace (s * (1 - d * d)) with (s - s * (d * d)) by ring.
    setoid_replace (d * d * (1 - s)) with (d * d - s * (d * d)) by ring. lra.
Qed.

(* ------------------------------------------------------------------ the families *)

(** linear chain: the closed form is a steady state with all fluxes equal to k0 ... *)
Lemma chain_steady_is_steady k0 ks : Forall (fun k => ~ k == 0) ks ->
  forall vin, vin == k0 ->
    Forall (fun r => r == 0) (chain_rhs vin ks (chain_steady k0 ks))
    /\ Forall (fun v => v == k0) (chain_fluxes ks (chain_steady k0 ks)).
Proof.
  induction 1 as [|k ks Hk Hks IH]; intros vin Hv; cbn [chain_steady map chain_rhs chain_fluxes].
  - split; constructor.
  - assert (E : k * (k0 / k) == k0) by (field; exact Hk).
    destruct (IH (k * (k0 / k)) E) as [A B]. split; constructor; try assumption.
    rewrite E, Hv. ring.
Qed.

(** ... and the only one *)
Lemma chain_steady_unique k0 ks : Forall (fun k => ~ k == 0) ks ->
  forall vin xs, vin == k0 -> length xs = length ks ->
    Forall (fun r => r == 0) (chain_rhs vin ks xs) -> Forall2 Qeq xs (chain_steady k0 ks).
Proof.
  induction 1 as [|k ks Hk Hks IH]; intros vin xs Hv Hl Hr.
  - destruct xs; [constructor|discriminate].
  - destruct xs as [|x xs]; [discriminate|]. cbn [chain_rhs] in Hr. inversion Hr as [|? ? R0 R1]; subst.
    assert (Ex : x == k0 / k).
    { setoid_replace x with (k * x / k) by (field; exact Hk).
      setoid_replace (k * x) with vin by lra. rewrite Hv. reflexivity. }
    cbn [chain_steady map]. constructor; [exact Ex|].
    apply (IH (k * x)); [|cbn [length] in Hl; lia|exact R1].
    rewrite Ex. field. exact Hk.
Qed.

Lemma branch_steady_iff k0 k1 k2 x : ~ k1 + k2 == 0 ->
  (branch_rhs k0 k1 k2 x == 0 <-> x == branch_steady k0 k1 k2).
Proof.
  intros H. unfold branch_rhs, branch_steady. split; intros E.
  - setoid_replace x with ((k1 + k2) * x / (k1 + k2)) by (field; exact H).
    setoid_replace ((k1 + k2) * x) with k0 by lra. reflexivity.
  - rewrite E. field. exact H.
Qed.

Lemma cycle_steady_iff k0 k1 T x0 x1 : ~ k0 + k1 == 0 -> x0 + x1 == T ->
  (fst (cycle_rhs k0 k1 x0 x1) == 0 /\ snd (cycle_rhs k0 k1 x0 x1) == 0
   <-> x0 == fst (cycle_steady k0 k1 T) /\ x1 == snd (cycle_steady k0 k1 T)).
Proof.
  intros H HT. unfold cycle_rhs, cycle_steady. cbn [fst snd]. split.
  - intros [A _].
    assert (E0 : (k0 + k1) * x0 == T * k1) by (rewrite <- HT; lra).
    assert (E1 : (k0 + k1) * x1 == T * k0) by (rewrite <- HT; lra).
    split.
    + setoid_replace x0 with ((k0 + k1) * x0 / (k0 + k1)) by (field; exact H). rewrite E0. reflexivity.
    + setoid_replace x1 with ((k0 + k1) * x1 / (k0 + k1)) by (field; exact H). rewrite E1. reflexivity.
  - intros [A B]. rewrite A, B. split; field; exact H.
Qed.

(** every steady-state quantity of the three families is a Moebius function of each rate constant *)
Lemma chain_is_moebius k0 k : ~ k == 0 ->
  k0 / k == moebius k0 0 0 1 k /\ k0 / k == moebius 0 1 k 0 k0.
Proof. intros H. unfold moebius. split; field; try exact H; intro E; apply H; rewrite <- E; ring. Qed.

Lemma branch_is_moebius k0 k1 k2 : ~ k1 + k2 == 0 ->
  let x := branch_steady k0 k1 k2 in
  (* as functions of k1 *)
  x == moebius k0 0 k2 1 k1 /\ k1 * x == moebius 0 k0 k2 1 k1 /\ k2 * x == moebius (k2 * k0) 0 k2 1 k1
  (* as functions of k0 (linear: g = 0, the central difference is exact) *)
  /\ x == moebius 0 1 (k1 + k2) 0 k0 /\ k1 * x == moebius 0 k1 (k1 + k2) 0 k0.
Proof.
  intros H. cbv zeta. unfold branch_steady, moebius.
  assert (H' : ~ k2 + 1 * k1 == 0) by (intro E; apply H; rewrite <- E; ring).
  assert (H'' : ~ k1 + k2 + 0 * k0 == 0) by (intro E; apply H; rewrite <- E; ring).
  repeat split; field; repeat split; try assumption; intro E; apply H; rewrite <- E; ring.
Qed.

Lemma cycle_is_moebius k0 k1 T : ~ k0 + k1 == 0 ->
  fst (cycle_steady k0 k1 T) == moebius 0 T k0 1 k1          (* x0 as a function of k1 *)
  /\ fst (cycle_steady k0 k1 T) == moebius (T * k1) 0 k1 1 k0   (* x0 as a function of k0 *)
  /\ k0 * fst (cycle_steady k0 k1 T) == moebius 0 (T * k1) k1 1 k0.   (* the flux as a function of k0 *)
Proof.
  intros H. unfold cycle_steady, moebius. cbn [fst].
  assert (H' : ~ k0 + 1 * k1 == 0) by (intro E; apply H; rewrite <- E; ring).
  assert (H'' : ~ k1 + 1 * k0 == 0) by (intro E; apply H; rewrite <- E; ring).
  repeat split; field; repeat split; try assumption; intro E; apply H; rewrite <- E; ring.
Qed.

(** the branch point, end to end: scaled concentration and flux response coefficients w.r.t. k1 *)
Theorem branch_response k0 k1 k2 d : 0 < k0 -> 0 < k1 -> 0 < k2 -> ~ d == 0 -> -1 < d -> d < 1 ->
  let f a b := moebius a b k2 1 in
  let cellof a b := coef_cell (f a b (k1 * (1 + d))) (f a b (k1 * (1 - d))) (f a b k1) k1 d true in
  exists vx v1 ex e1,
    cellof k0 0 = Some vx /\ vx == - (k1 / (k1 + k2)) * (1 + ex)         (* x  = k0 / (k1 + k2) *)
    /\ cellof 0 k0 = Some v1 /\ v1 == k2 / (k1 + k2) * (1 + e1)          (* J1 = k1 k0 / (k1 + k2) *)
    /\ 0 <= ex /\ ex <= d * d / (1 - d * d) /\ 0 <= e1 /\ e1 <= d * d / (1 - d * d).
Proof.
  intros H0 H1 H2 Hd D1 D2. cbv zeta.
  assert (Hs : 0 < k2 + 1 * k1) by lra.
  destruct (moebius_positive k2 1 k1 d) as [A [B [C [R0 R1]]]]; try lra.
  assert (Hk : ~ k1 == 0) by lra.
  assert (DD : d * d < 1).
  { assert (0 < (1 - d) * (1 + d)) by (apply Qmult_lt_0_compat; lra). lra. }
  destruct (coef_cell_moebius k0 0 k2 1 k1 d true Hk Hd A B C) as [vx [Ex Vx]].
  { intros _. lra. }
  destruct (coef_cell_moebius 0 k0 k2 1 k1 d true Hk Hd A B C) as [v1 [E1 V1]].
  { intros _. intro E. assert (0 < k0 * k1) by (apply Qmult_lt_0_compat; assumption). lra. }
  cbv iota in Vx, V1.
  destruct (moebius_error_bound vx _ _ d R0 R1 DD Vx) as [ex [X1 [X2 X3]]].
  destruct (moebius_error_bound v1 _ _ d R0 R1 DD V1) as [e1 [Y1 [Y2 Y3]]].
  exists vx, v1, ex, e1. split; [exact Ex|]. split.
  { rewrite X1. unfold mderiv, moebius. field. repeat split; lra. }
  split; [exact E1|]. split.
  { rewrite Y1. unfold mderiv, moebius. field. repeat split; try lra;
    intro E; assert (0 < k0 * k1) by (apply Qmult_lt_0_compat; assumption); lra. }
  repeat split; assumption.
Qed.

(* ------------------------------------------------------------------ the analytic side over R *)
Open Scope R_scope.

Lemma moebius_derivative_R (a b e g k : R) : e + g * k <> 0 ->
  derivable_pt_lim (fun t => (a + b * t) / (e + g * t)) k ((b * e - a * g) / ((e + g * k) * (e + g * k))).
Proof.
  intros H.
  assert (L : forall u w : R, derivable_pt_lim (fun t => u + w * t) k w).
  { intros u w.
    assert (X : derivable_pt_lim ((fun _ => u) + (mult_real_fct w id))%F k (0 + w * 1)).
    { apply derivable_pt_lim_plus; [apply derivable_pt_lim_const|].
      apply derivable_pt_lim_scal. apply derivable_pt_lim_id. }
    replace (0 + w * 1) with w in X by ring. exact X. }
  pose proof (derivable_pt_lim_div (fun t => a + b * t) (fun t => e + g * t) k b g (L a b) (L e g) H) as D.
  replace ((b * e - a * g) / ((e + g * k) * (e + g * k)))
    with ((b * (e + g * k) - g * (a + b * k)) / Rsqr (e + g * k)).
  - exact D.
  - unfold Rsqr. field. exact H.
Qed.
