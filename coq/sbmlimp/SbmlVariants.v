(** C17 -- three further regenerated facts about the repo side of [mxlpy.sbml.read] and the pipeline
    parameterised by them (definitions only, no proofs):

      f_rxn_filter   which reactions of the transformed document [_codegen] hands to the generator:
                     RxnAll (the loop body is the single assignment [sym.reactions[key] = ...]) or
                     RxnSkipUnreadEmpty (a reaction whose transformed stoichiometry is empty is skipped
                     unless its id occurs in the math of a rule, an initial assignment or a kinetic law);
      f_math_ref     how a generated def refers to the functions of Python's math module:
                     MathQualified ([pycode(.., fully_qualified_modules=True)]: math.exp(x); the only
                     global name such a def needs is [math]) or MathBare (exp(x) + a
                     [from math import ...] line: every math function name becomes a name the module needs);
      f_lit_*        how a plain number (value of a variable, of a parameter, constant coefficient) is
                     written into the module: LitRepr ([_number_literal]: repr of the float, which reads
                     back as the same double) or LitSympy15 (SymPy's printer, 15 significant digits).

    [run_module2 G F] = the model of SbmlImport.v behind these three steps.  For the facts of the tree
    it IS [run_module F] (SbmlVariantsProofs.run_module2_expected). *)
From Coq Require Import String Ascii List ZArith QArith Bool.
From SbmlImp Require Import SbmlExpr SbmlImport SbmlRun SbmlSpec.
Import ListNotations.
Open Scope string_scope.

Inductive rxn_filter := RxnAll | RxnSkipUnreadEmpty | RxnFilterUnknown.
Inductive math_ref := MathQualified | MathBare | MathRefUnknown.
Inductive num_lit := LitRepr | LitSympy15 | LitUnknown.

Record facts2 := mkFacts2 {
  f_rxn_filter : rxn_filter;
  f_math_ref : math_ref;
  f_lit_var : num_lit;
  f_lit_par : num_lit;
  f_lit_stoich : num_lit
}.

Definition expected_facts2 : facts2 := mkFacts2 RxnAll MathQualified LitRepr LitRepr LitRepr.
(** the three seeded shapes (regression witnesses) *)
Definition skip_facts2 : facts2 := mkFacts2 RxnSkipUnreadEmpty MathQualified LitRepr LitRepr LitRepr.
Definition bare_facts2 : facts2 := mkFacts2 RxnAll MathBare LitRepr LitRepr LitRepr.
Definition lit15_facts2 : facts2 := mkFacts2 RxnAll MathQualified LitRepr LitRepr LitSympy15.

(** * which reactions reach the generator *)
(** [used_rates]: free symbols of the rules, the initial assignments and the kinetic laws *)
Definition used_rates (tm : tmodel) : list string :=
  flat_map syms (map snd (t_der tm) ++ map snd (t_ia tm) ++ map (fun p => tr_expr (snd p)) (t_rxn tm)).

Definition is_nil {X} (l : list X) : bool := match l with [] => true | _ => false end.

Definition keeps (k : rxn_filter) (tm : tmodel) (p : string * trxn) : bool :=
  match k with
  | RxnAll => true
  | RxnSkipUnreadEmpty => negb (is_nil (tr_st (snd p))) || existsb (String.eqb (fst p)) (used_rates tm)
  | RxnFilterUnknown => false
  end.

(** * the number a literal reads back as *)
(** round half to even of a/b (a >= 0, b > 0) *)
Definition round_div (a b : Z) : Z :=
  let q := Z.div a b in
  let r := Z.modulo a b in
  match Z.compare (2 * r) b with
  | Lt => q
  | Gt => (q + 1)%Z
  | Eq => if Z.even q then q else (q + 1)%Z
  end.

(** 10^e <= a/b  (a, b > 0) *)
Definition le_pow10 (e : Z) (a b : Z) : bool :=
  if (0 <=? e)%Z then (b * 10 ^ e <=? a)%Z else (b <=? a * 10 ^ (- e))%Z.

(** the least e >= start with a/b < 10^e; [None] = fuel exhausted (not for binary64 magnitudes) *)
Fixpoint dec_exp (fuel : nat) (e : Z) (a b : Z) : option Z :=
  match fuel with
  | O => None
  | S f => if le_pow10 e a b then dec_exp f (e + 1)%Z a b else Some e
  end.

(** the decimal with n significant digits nearest to q (what SymPy prints for a Float at 15 digits) *)
Definition round_sig (n : Z) (q : Q) : option Q :=
  let a := Z.abs (Qnum q) in
  let b := Zpos (Qden q) in
  if (a =? 0)%Z then Some 0%Q
  else match dec_exp 700 (-330)%Z a b with
       | None => None
       | Some e =>
           let s := (n - e)%Z in          (* scaled = a/b * 10^s has n digits before the point *)
           let m := if (0 <=? s)%Z then round_div (a * 10 ^ s) b else round_div a (b * 10 ^ (- s)) in
           let v := if (0 <=? s)%Z then Qmake m (Z.to_pos (10 ^ s)) else Qmake (m * 10 ^ (- s)) 1 in
           Some (Qred (if (Qnum q <? 0)%Z then Qopp v else v))
       end.

(** the real number the written literal denotes; [repr] of a float reads back as that float *)
Definition lit (k : num_lit) (q : Q) : option Q :=
  match k with
  | LitRepr => Some q
  | LitSympy15 => round_sig 15 q
  | LitUnknown => None
  end.

Definition lit_pairs (k : num_lit) (l : list (string * Q)) : option (list (string * Q)) :=
  map_opt (fun p => match lit k (snd p) with Some v => Some (fst p, v) | None => None end) l.

(** a constant coefficient (SymPy Float) is a literal of the module; anything else is a name or a def *)
Definition lit_coef (k : num_lit) (p : string * expr) : option (string * expr) :=
  match snd p with
  | ENum true q => match lit k q with Some v => Some (fst p, ENum true v) | None => None end
  | _ => Some p
  end.

Definition lit_rxn (k : num_lit) (p : string * trxn) : option (string * trxn) :=
  match map_opt (lit_coef k) (tr_st (snd p)) with
  | Some st => Some (fst p, mkTR (tr_expr (snd p)) st)
  | None => None
  end.

(** the transformed document as the generated module carries it *)
Definition carried (G : facts2) (tm : tmodel) : option tmodel :=
  match f_rxn_filter G with
  | RxnFilterUnknown => None
  | k =>
      match lit_pairs (f_lit_var G) (t_vars tm), lit_pairs (f_lit_par G) (t_pars tm),
            map_opt (lit_rxn (f_lit_stoich G)) (filter (keeps k tm) (t_rxn tm)) with
      | Some vs, Some ps, Some rs => Some (mkT vs ps (t_der tm) rs (t_ia tm))
      | _, _, _ => None
      end
  end.

Definition run_module2 (G : facts2) (F : facts) (fs : expr -> list string) (file : string) (tm : tmodel) : option mmodel :=
  match carried G tm with
  | Some tm' => run_module F fs file tm'
  | None => None
  end.

(** * the global names a generated module needs *)
(** the functions of the math module the printer can emit for the modelled expressions and the constants
    it writes by name *)
Definition math_names : list string :=
  ["exp"; "log"; "sin"; "cos"; "tan"; "sqrt"; "floor"; "ceil"; "pi"; "e"; "asin"; "acos"; "atan"; "sinh"; "cosh"; "tanh";
   "factorial"; "gamma"; "erf"; "inf"; "nan"; "log10"; "log2"; "pow"; "fabs"].

Definition needed_names (G : facts2) : list string :=
  match f_math_ref G with
  | MathQualified => reserved
  | MathBare => reserved ++ math_names
  | MathRefUnknown => reserved ++ math_names
  end.

Definition NoReserved2 (G : facts2) (tm : tmodel) : Prop := forall x, In x (needed_names G) -> ~ In x (tm_names tm).

(** * the correspondence case through the three steps *)
Definition case_ok2 (G : facts2) (F : facts) (c : case) : bool :=
  match carried G (c_tm c) with
  | Some tm' => case_ok F (mkCase tm' (c_stem c) (c_states c) (c_keys c) (c_struct c) (c_obs c) (c_values c) (c_fs c))
  | None => false
  end.
